import BufProofs.Lemmas.BreakingDetect
/-
  C03 — No documented breaking change goes unreported (staged).
  One theorem per edit family, stated on ARBITRARY pairs of schemas: the hypotheses constrain only
  the edited element (and ask the newer schema to have unique keys, `WF`, as every compiled image
  has), so "however the edit is surrounded by unrelated compatible changes" holds by construction.
  Each conclusion exhibits the annotation: rule id, file, and the element it is located at
  (`annAt … [path] …` is ⟨rule, file, path⟩ whenever `path` has a source location — `annAt_head`).
  `active` hypotheses `id ∈ rulesOf v cat` range over every configuration in which the rule is
  active; the regenerated tables decide them (examples at the end).
-/
namespace BufProofs.C03
open BufModel.Schema BufModel.Breaking BufProofs.Breaking

variable {cur prev : Schema} {v : Ver} {cat : String}

/-! ### nested lookup -/

/-- `Reach ms q m`: message `m` is reachable from the top-level messages `ms` through nesting, along
    the dotted name `q` -/
inductive Reach : List Msg → QName → Msg → Prop
  | top {ms : List Msg} {m : Msg} : m ∈ ms → Reach ms [m.info.name] m
  | nest {ms : List Msg} {q : QName} {m n : Msg} : Reach ms q m → n ∈ m.nested → Reach ms (q ++ [n.info.name]) n

/-- The flattened nested-name map of a file contains every message at every depth, under its dotted
    nested name, with its own content. -/
theorem nested_lookup_complete (f : File) (q : QName) (m : Msg) (h : Reach f.messages q m) :
    ∃ fm ∈ f.flatMsgs, fm.nested = q ∧ fm.info = m.info ∧ fm.file = f.path ∧ fm.pkg = f.pkg := by
  suffices hs : ∃ pre path ml, pre ++ [m.info.name] = q ∧
      ∀ x ∈ flatMsg f.path f.locs f.pkg pre path ml m, x ∈ f.flatMsgs by
    obtain ⟨pre, path, ml, hq, hsub⟩ := hs
    cases m with
    | mk i ns =>
      refine ⟨⟨f.path, f.locs, f.pkg, pre ++ [i.name], path, ml, i⟩, hsub _ ?_, hq, rfl, rfl, rfl⟩
      rw [flatMsg]; exact List.mem_cons_self
  induction h with
  | top hm =>
    obtain ⟨j, hj⟩ := topMsgs_of_mem f.path f.locs f.pkg f.messages 0 _ hm
    exact ⟨[], [4, j], none, rfl, fun x hx => hj x hx⟩
  | @nest q m n _ hn ih =>
    obtain ⟨pre, path, ml, hq, hsub⟩ := ih
    cases m with
    | mk i ns =>
      obtain ⟨j, ml', hj⟩ := flatMsgs_of_mem f.path f.locs f.pkg (pre ++ [i.name]) path i.fields ns 0 n hn
      refine ⟨pre ++ [i.name], path ++ [3, j], ml', by rw [← hq]; rfl, fun x hx => hsub x ?_⟩
      rw [flatMsg]; exact List.mem_cons_of_mem _ (hj x hx)

/-- … and every enum nested in such a message. -/
theorem nested_enum_lookup_complete (f : File) (q : QName) (m : Msg) (e : Enum)
    (h : Reach f.messages q m) (he : e ∈ m.info.enums) :
    ∃ fe ∈ f.flatEnums, fe.nested = q ++ [e.name] ∧ fe.enum = e := by
  obtain ⟨fm, hfm, hq, hinfo, _, _⟩ := nested_lookup_complete f q m h
  obtain ⟨j, hj⟩ := exists_indexed_of_mem (hinfo ▸ he)
  refine ⟨⟨f.path, f.locs, f.pkg, fm.nested ++ [e.name], fm.path ++ [4, j], e⟩, ?_, by rw [hq], rfl⟩
  unfold File.flatEnums
  exact List.mem_append_right _ (List.mem_flatMap.2 ⟨fm, hfm, List.mem_map.2 ⟨(j, e), hj, rfl⟩⟩)

/-! ### deletions inside a surviving element -/

/-- deleting a field (no current field has its number) of a message that still exists -/
theorem detects_field_delete (hw : WF cur) {pm cm : FlatMsg} {pf : Field}
    (hpm : pm ∈ allMsgs prev) (hcm : cm ∈ allMsgs cur) (hname : cm.fullName = pm.fullName)
    (hpf : pf ∈ pm.info.fields) (hdel : ∀ cf ∈ cm.info.fields, cf.number ≠ pf.number)
    (hact : "FIELD_NO_DELETE" ∈ rulesOf v cat) :
    msgLoc cm "FIELD_NO_DELETE" ∈ check v cat cur prev := by
  apply mem_check hact
  rw [runRule_eq (f := fieldNoDelete "FIELD_NO_DELETE" false false) rfl]
  unfold fieldNoDelete
  apply mem_msgPairs hw hpm hcm hname
  refine List.mem_flatMap.2 ⟨pf, hpf, ?_⟩
  have : cm.info.hasNumber pf.number = false := by
    unfold MsgInfo.hasNumber
    apply Bool.eq_false_iff.2
    intro h
    obtain ⟨cf, hcf, hn⟩ := List.any_eq_true.1 h
    exact hdel cf hcf (by simpa using hn)
  simp [this]

/-- … without reserving its number (WIRE_JSON and WIRE) -/
theorem detects_field_delete_unless_number_reserved (hw : WF cur) {pm cm : FlatMsg} {pf : Field}
    (hpm : pm ∈ allMsgs prev) (hcm : cm ∈ allMsgs cur) (hname : cm.fullName = pm.fullName)
    (hpf : pf ∈ pm.info.fields) (hdel : ∀ cf ∈ cm.info.fields, cf.number ≠ pf.number)
    (hres : ∀ r ∈ cm.info.reservedRanges, ¬ (r.1 ≤ pf.number ∧ pf.number ≤ r.2))
    (hact : "FIELD_NO_DELETE_UNLESS_NUMBER_RESERVED" ∈ rulesOf v cat) :
    msgLoc cm "FIELD_NO_DELETE_UNLESS_NUMBER_RESERVED" ∈ check v cat cur prev := by
  apply mem_check hact
  rw [runRule_eq (f := fieldNoDelete "FIELD_NO_DELETE_UNLESS_NUMBER_RESERVED" true false) rfl]
  unfold fieldNoDelete
  apply mem_msgPairs hw hpm hcm hname
  refine List.mem_flatMap.2 ⟨pf, hpf, ?_⟩
  have h1 : cm.info.hasNumber pf.number = false := by
    unfold MsgInfo.hasNumber
    apply Bool.eq_false_iff.2
    intro h
    obtain ⟨cf, hcf, hn⟩ := List.any_eq_true.1 h
    exact hdel cf hcf (by simpa using hn)
  have h2 : numberReserved cm.info.reservedRanges pf.number = false := by
    unfold numberReserved
    apply Bool.eq_false_iff.2
    intro h
    obtain ⟨r, hr, hn⟩ := List.any_eq_true.1 h
    exact hres r hr (by simpa [rangeHas] using hn)
  simp [h1, h2]

/-- … without reserving its name (WIRE_JSON) -/
theorem detects_field_delete_unless_name_reserved (hw : WF cur) {pm cm : FlatMsg} {pf : Field}
    (hpm : pm ∈ allMsgs prev) (hcm : cm ∈ allMsgs cur) (hname : cm.fullName = pm.fullName)
    (hpf : pf ∈ pm.info.fields) (hdel : ∀ cf ∈ cm.info.fields, cf.number ≠ pf.number)
    (hres : pf.name ∉ cm.info.reservedNames)
    (hact : "FIELD_NO_DELETE_UNLESS_NAME_RESERVED" ∈ rulesOf v cat) :
    msgLoc cm "FIELD_NO_DELETE_UNLESS_NAME_RESERVED" ∈ check v cat cur prev := by
  apply mem_check hact
  rw [runRule_eq (f := fieldNoDelete "FIELD_NO_DELETE_UNLESS_NAME_RESERVED" false true) rfl]
  unfold fieldNoDelete
  apply mem_msgPairs hw hpm hcm hname
  refine List.mem_flatMap.2 ⟨pf, hpf, ?_⟩
  have h1 : cm.info.hasNumber pf.number = false := by
    unfold MsgInfo.hasNumber
    apply Bool.eq_false_iff.2
    intro h
    obtain ⟨cf, hcf, hn⟩ := List.any_eq_true.1 h
    exact hdel cf hcf (by simpa using hn)
  simp [h1, hres]

/-- deleting an enum value (all names of a number) of an enum that still exists; the annotation is
    located at the current enum.  `allowNumber/allowName = false/false` is ENUM_VALUE_NO_DELETE. -/
theorem detects_enum_value_delete (hw : WF cur) {pe ce : FlatEnum} {pv : EnumValue}
    (hpe : pe ∈ allEnums prev) (hce : ce ∈ allEnums cur) (hname : ce.fullName = pe.fullName)
    (hpv : pv ∈ pe.enum.values) (hdel : ∀ cv ∈ ce.enum.values, cv.number ≠ pv.number)
    (hact : "ENUM_VALUE_NO_DELETE" ∈ rulesOf v cat) :
    enumLoc ce "ENUM_VALUE_NO_DELETE" pe.file ∈ check v cat cur prev := by
  apply mem_check hact
  rw [runRule_eq (f := enumValueNoDelete "ENUM_VALUE_NO_DELETE" false false) rfl]
  unfold enumValueNoDelete
  apply mem_enumPairs hw hpe hce hname
  refine List.mem_flatMap.2 ⟨pv, hpv, ?_⟩
  have : ce.enum.hasNumber pv.number = false := by
    unfold Enum.hasNumber
    apply Bool.eq_false_iff.2
    intro h
    obtain ⟨cv, hcv, hn⟩ := List.any_eq_true.1 h
    exact hdel cv hcv (by simpa using hn)
  simp [this]

theorem detects_enum_value_delete_unless_number_reserved (hw : WF cur) {pe ce : FlatEnum} {pv : EnumValue}
    (hpe : pe ∈ allEnums prev) (hce : ce ∈ allEnums cur) (hname : ce.fullName = pe.fullName)
    (hpv : pv ∈ pe.enum.values) (hdel : ∀ cv ∈ ce.enum.values, cv.number ≠ pv.number)
    (hres : ∀ r ∈ ce.enum.reservedRanges, ¬ (r.1 ≤ pv.number ∧ pv.number ≤ r.2))
    (hact : "ENUM_VALUE_NO_DELETE_UNLESS_NUMBER_RESERVED" ∈ rulesOf v cat) :
    enumLoc ce "ENUM_VALUE_NO_DELETE_UNLESS_NUMBER_RESERVED" pe.file ∈ check v cat cur prev := by
  apply mem_check hact
  rw [runRule_eq (f := enumValueNoDelete "ENUM_VALUE_NO_DELETE_UNLESS_NUMBER_RESERVED" true false) rfl]
  unfold enumValueNoDelete
  apply mem_enumPairs hw hpe hce hname
  refine List.mem_flatMap.2 ⟨pv, hpv, ?_⟩
  have h1 : ce.enum.hasNumber pv.number = false := by
    unfold Enum.hasNumber
    apply Bool.eq_false_iff.2
    intro h
    obtain ⟨cv, hcv, hn⟩ := List.any_eq_true.1 h
    exact hdel cv hcv (by simpa using hn)
  have h2 : numberReserved ce.enum.reservedRanges pv.number = false := by
    unfold numberReserved
    apply Bool.eq_false_iff.2
    intro h
    obtain ⟨r, hr, hn⟩ := List.any_eq_true.1 h
    exact hres r hr (by simpa [rangeHas] using hn)
  simp [h1, h2]

theorem detects_enum_value_delete_unless_name_reserved (hw : WF cur) {pe ce : FlatEnum} {pv : EnumValue}
    (hpe : pe ∈ allEnums prev) (hce : ce ∈ allEnums cur) (hname : ce.fullName = pe.fullName)
    (hpv : pv ∈ pe.enum.values) (hdel : ∀ cv ∈ ce.enum.values, cv.number ≠ pv.number)
    (hres : pv.name ∉ ce.enum.reservedNames)
    (hact : "ENUM_VALUE_NO_DELETE_UNLESS_NAME_RESERVED" ∈ rulesOf v cat) :
    enumLoc ce "ENUM_VALUE_NO_DELETE_UNLESS_NAME_RESERVED" pe.file ∈ check v cat cur prev := by
  apply mem_check hact
  rw [runRule_eq (f := enumValueNoDelete "ENUM_VALUE_NO_DELETE_UNLESS_NAME_RESERVED" false true) rfl]
  unfold enumValueNoDelete
  apply mem_enumPairs hw hpe hce hname
  refine List.mem_flatMap.2 ⟨pv, hpv, ?_⟩
  have h1 : ce.enum.hasNumber pv.number = false := by
    unfold Enum.hasNumber
    apply Bool.eq_false_iff.2
    intro h
    obtain ⟨cv, hcv, hn⟩ := List.any_eq_true.1 h
    exact hdel cv hcv (by simpa using hn)
  have h2 : ((pe.enum.values.filter fun w => decide (w.number = pv.number)).all
      fun w => decide (w.name ∈ ce.enum.reservedNames)) = false := by
    apply Bool.eq_false_iff.2
    intro h
    have := List.all_eq_true.1 h pv (List.mem_filter.2 ⟨hpv, by simp⟩)
    exact hres (by simpa using this)
  simp [h1, h2]

/-- deleting an RPC of a service that still exists: located at the current service -/
theorem detects_rpc_delete (hw : WF cur) {ps cs : FlatSvc} {pm : Method}
    (hps : ps ∈ allSvcs prev) (hcs : cs ∈ allSvcs cur) (hname : cs.fullName = ps.fullName)
    (hpm : pm ∈ ps.svc.methods) (hdel : ∀ cm ∈ cs.svc.methods, cm.name ≠ pm.name)
    (hact : "RPC_NO_DELETE" ∈ rulesOf v cat) :
    svcLoc cs "RPC_NO_DELETE" ∈ check v cat cur prev := by
  apply mem_check hact
  rw [runRule_eq (f := ruleRpcNoDelete) rfl]
  unfold ruleRpcNoDelete
  apply mem_svcPairs hw hps hcs hname
  refine List.mem_flatMap.2 ⟨pm, hpm, ?_⟩
  have : pm.name ∉ cs.svc.methods.map (·.name) := by
    intro h
    obtain ⟨cm, hcm, hn⟩ := List.mem_map.1 h
    exact hdel cm hcm hn
  simp [this]

/-- deleting a (non-synthetic) oneof of a message that still exists: located at the current message -/
theorem detects_oneof_delete (hw : WF cur) {pm cm : FlatMsg} {po : Oneof}
    (hpm : pm ∈ allMsgs prev) (hcm : cm ∈ allMsgs cur) (hname : cm.fullName = pm.fullName)
    (hpo : po ∈ pm.info.oneofs) (hreal : po.synthetic = false)
    (hdel : ∀ co ∈ cm.info.oneofs, co.name ≠ po.name)
    (hact : "ONEOF_NO_DELETE" ∈ rulesOf v cat) :
    msgLoc cm "ONEOF_NO_DELETE" ∈ check v cat cur prev := by
  apply mem_check hact
  rw [runRule_eq (f := ruleOneofNoDelete) rfl]
  unfold ruleOneofNoDelete
  apply mem_msgPairs hw hpm hcm hname
  refine List.mem_flatMap.2 ⟨po, hpo, ?_⟩
  have : po.name ∉ cm.info.oneofs.map (·.name) := by
    intro h
    obtain ⟨co, hco, hn⟩ := List.mem_map.1 h
    exact hdel co hco hn
  simp [this, hreal]

/-! ### deletions of whole elements (file-level rules: nearest surviving enclosing message) -/

/-- deleting a message (at any depth) from a file that still exists -/
theorem detects_message_delete (hw : WF cur) {pf cf : File} {pm : FlatMsg}
    (hpf : pf ∈ prev) (hcf : cf ∈ cur) (hpath : cf.path = pf.path) (hpm : pm ∈ pf.flatMsgs)
    (hdel : ∀ cm ∈ cf.flatMsgs, cm.nested ≠ pm.nested)
    (hact : "MESSAGE_NO_DELETE" ∈ rulesOf v cat) :
    deletedAnn "MESSAGE_NO_DELETE" cf pm.nested ∈ check v cat cur prev := by
  apply mem_check hact
  rw [runRule_eq (f := ruleMessageNoDelete) rfl]
  unfold ruleMessageNoDelete
  apply mem_filePairs hw hpf hcf hpath
  exact mem_pairwise_missing FlatMsg.nested _ _ _ _ pm _ hpm hdel List.mem_cons_self

theorem detects_enum_delete (hw : WF cur) {pf cf : File} {pe : FlatEnum}
    (hpf : pf ∈ prev) (hcf : cf ∈ cur) (hpath : cf.path = pf.path) (hpe : pe ∈ pf.flatEnums)
    (hdel : ∀ ce ∈ cf.flatEnums, ce.nested ≠ pe.nested)
    (hact : "ENUM_NO_DELETE" ∈ rulesOf v cat) :
    deletedAnn "ENUM_NO_DELETE" cf pe.nested ∈ check v cat cur prev := by
  apply mem_check hact
  rw [runRule_eq (f := ruleEnumNoDelete) rfl]
  unfold ruleEnumNoDelete
  apply mem_filePairs hw hpf hcf hpath
  exact mem_pairwise_missing FlatEnum.nested _ _ _ _ pe _ hpe hdel List.mem_cons_self

theorem detects_extension_delete (hw : WF cur) {pf cf : File} {pe : FlatExt}
    (hpf : pf ∈ prev) (hcf : cf ∈ cur) (hpath : cf.path = pf.path) (hpe : pe ∈ pf.flatExts)
    (hdel : ∀ ce ∈ cf.flatExts, ce.nested ≠ pe.nested)
    (hact : "EXTENSION_NO_DELETE" ∈ rulesOf v cat) :
    deletedAnn "EXTENSION_NO_DELETE" cf pe.nested ∈ check v cat cur prev := by
  apply mem_check hact
  rw [runRule_eq (f := ruleExtensionNoDelete) rfl]
  unfold ruleExtensionNoDelete
  apply mem_filePairs hw hpf hcf hpath
  exact mem_pairwise_missing FlatExt.nested _ _ _ _ pe _ hpe hdel List.mem_cons_self

theorem detects_service_delete (hw : WF cur) {pf cf : File} {ps : FlatSvc}
    (hpf : pf ∈ prev) (hcf : cf ∈ cur) (hpath : cf.path = pf.path) (hps : ps ∈ pf.flatSvcs)
    (hdel : ∀ cs ∈ cf.flatSvcs, cs.svc.name ≠ ps.svc.name)
    (hact : "SERVICE_NO_DELETE" ∈ rulesOf v cat) :
    (⟨"SERVICE_NO_DELETE", cf.path, []⟩ : Ann) ∈ check v cat cur prev := by
  apply mem_check hact
  rw [runRule_eq (f := ruleServiceNoDelete) rfl]
  unfold ruleServiceNoDelete
  apply mem_filePairs hw hpf hcf hpath
  exact mem_pairwise_missing (fun s : FlatSvc => s.svc.name) _ _ _ _ ps _ hps hdel List.mem_cons_self

/-- deleting a file: no location, only the rule id -/
theorem detects_file_delete {pf : File} (hpf : pf ∈ prev) (hdel : ∀ cf ∈ cur, cf.path ≠ pf.path)
    (hact : "FILE_NO_DELETE" ∈ rulesOf v cat) :
    (⟨"FILE_NO_DELETE", "", []⟩ : Ann) ∈ check v cat cur prev := by
  apply mem_check hact
  rw [runRule_eq (f := ruleFileNoDelete) rfl]
  unfold ruleFileNoDelete
  exact mem_pairwise_missing File.path _ _ _ _ pf _ hpf hdel List.mem_cons_self

/-- deleting a package (no current file has it) -/
theorem detects_package_delete {pf : File} (hpf : pf ∈ prev) (hdel : ∀ cf ∈ cur, cf.pkg ≠ pf.pkg)
    (hact : "PACKAGE_NO_DELETE" ∈ rulesOf v cat) :
    (⟨"PACKAGE_NO_DELETE", "", []⟩ : Ann) ∈ check v cat cur prev := by
  apply mem_check hact
  rw [runRule_eq (f := rulePackageNoDelete) rfl]
  unfold rulePackageNoDelete
  refine List.mem_flatMap.2 ⟨pf, hpf, ?_⟩
  have : pf.pkg ∉ cur.map File.pkg := by
    intro h
    obtain ⟨cf, hcf, hp⟩ := List.mem_map.1 h
    exact hdel cf hcf hp
  simp [this]

/-- PACKAGE category: deleting an enum from a package that still exists (fixed tree).  The model of
    the pre-fix code is `rulePackageEnumNoDeleteOld`; see `package_enum_old_counterexample`. -/
theorem detects_package_enum_delete {pe : FlatEnum} (hpe : pe ∈ allEnums prev)
    (hpkg : pe.pkg ∈ cur.map File.pkg)
    (hdel : ∀ ce ∈ allEnums cur, ¬ (ce.pkg = pe.pkg ∧ ce.nested = pe.nested))
    (hact : "PACKAGE_ENUM_NO_DELETE" ∈ rulesOf v cat) :
    ∃ a ∈ check v cat cur prev, a.rule = "PACKAGE_ENUM_NO_DELETE" := by
  have hnone : (allEnums cur).find? (fun ce => decide (ce.pkg = pe.pkg ∧ ce.nested = pe.nested)) = none := by
    apply List.find?_eq_none.2
    intro ce hce
    simp only [decide_eq_true_eq]
    exact hdel ce hce
  have hnone' := hnone
  simp only [Bool.decide_and] at hnone'
  cases hf : cur.find? (fun f => decide (f.path = pe.file)) with
  | some f =>
    refine ⟨deletedAnn "PACKAGE_ENUM_NO_DELETE" f pe.nested, ?_, ?_⟩
    · apply mem_check hact
      rw [runRule_eq (f := rulePackageEnumNoDelete) rfl]
      unfold rulePackageEnumNoDelete
      refine List.mem_flatMap.2 ⟨pe, hpe, ?_⟩
      simp [hpkg, hnone', hf]
    · unfold deletedAnn annAt
      split <;> (try split) <;> rfl
  | none =>
    refine ⟨⟨"PACKAGE_ENUM_NO_DELETE", "", []⟩, ?_, rfl⟩
    apply mem_check hact
    rw [runRule_eq (f := rulePackageEnumNoDelete) rfl]
    unfold rulePackageEnumNoDelete
    refine List.mem_flatMap.2 ⟨pe, hpe, ?_⟩
    simp [hpkg, hnone', hf]

/-- PACKAGE category: deleting a service from a package that still exists -/
theorem detects_package_service_delete {ps : FlatSvc} (hps : ps ∈ allSvcs prev)
    (hpkg : ps.pkg ∈ cur.map File.pkg)
    (hdel : ∀ cs ∈ allSvcs cur, ¬ (cs.pkg = ps.pkg ∧ cs.svc.name = ps.svc.name))
    (hact : "PACKAGE_SERVICE_NO_DELETE" ∈ rulesOf v cat) :
    ∃ a ∈ check v cat cur prev, a.rule = "PACKAGE_SERVICE_NO_DELETE" := by
  have hnone : (allSvcs cur).find? (fun cs => decide (cs.pkg = ps.pkg ∧ cs.svc.name = ps.svc.name)) = none := by
    apply List.find?_eq_none.2
    intro cs hcs
    simp only [decide_eq_true_eq]
    exact hdel cs hcs
  have hnone' := hnone
  simp only [Bool.decide_and] at hnone'
  cases hf : cur.find? (fun f => decide (f.path = ps.file)) with
  | some f =>
    refine ⟨⟨"PACKAGE_SERVICE_NO_DELETE", f.path, []⟩, ?_, rfl⟩
    apply mem_check hact
    rw [runRule_eq (f := rulePackageServiceNoDelete) rfl]
    unfold rulePackageServiceNoDelete
    refine List.mem_flatMap.2 ⟨ps, hps, ?_⟩
    simp [hpkg, hnone', hf]
  | none =>
    refine ⟨⟨"PACKAGE_SERVICE_NO_DELETE", "", []⟩, ?_, rfl⟩
    apply mem_check hact
    rw [runRule_eq (f := rulePackageServiceNoDelete) rfl]
    unfold rulePackageServiceNoDelete
    refine List.mem_flatMap.2 ⟨ps, hps, ?_⟩
    simp [hpkg, hnone', hf]

/-- closed ↔ open enum (ENUM_SAME_TYPE): located at the enum_type feature if written, else the enum -/
theorem detects_enum_closedness_change (hw : WF cur) {pe ce : FlatEnum}
    (hpe : pe ∈ allEnums prev) (hce : ce ∈ allEnums cur) (hname : ce.fullName = pe.fullName)
    (hne : pe.enum.closed ≠ ce.enum.closed) (hact : "ENUM_SAME_TYPE" ∈ rulesOf v cat) :
    annOpt "ENUM_SAME_TYPE" ce.file ce.locs (optLoc ce.locs (ce.path ++ [3]) 7 [2]) [ce.path] ce.file
      ∈ check v cat cur prev := by
  apply mem_check hact
  rw [runRule_eq (f := ruleEnumSameType) rfl]
  unfold ruleEnumSameType
  apply mem_enumPairs hw hpe hce hname
  simp [hne]

/-- deleting a required field (MESSAGE_SAME_REQUIRED_FIELDS): located at the current message -/
theorem detects_required_field_delete (hw : WF cur) {pm cm : FlatMsg} {pf : Field}
    (hpm : pm ∈ allMsgs prev) (hcm : cm ∈ allMsgs cur) (hname : cm.fullName = pm.fullName)
    (hpf : pf ∈ pm.info.fields) (hreq : pf.label = .required)
    (hdel : ∀ cf ∈ cm.info.fields, cf.label = .required → cf.number ≠ pf.number)
    (hact : "MESSAGE_SAME_REQUIRED_FIELDS" ∈ rulesOf v cat) :
    msgLoc cm "MESSAGE_SAME_REQUIRED_FIELDS" ∈ check v cat cur prev := by
  apply mem_check hact
  rw [runRule_eq (f := ruleMessageSameRequiredFields) rfl]
  unfold ruleMessageSameRequiredFields
  apply mem_msgPairs hw hpm hcm hname
  apply List.mem_append_left
  refine List.mem_flatMap.2 ⟨pf.number, ?_, ?_⟩
  · unfold MsgInfo.requiredNumbers
    exact List.mem_map.2 ⟨pf, List.mem_filter.2 ⟨hpf, by simp [hreq]⟩, rfl⟩
  · have : pf.number ∉ cm.info.requiredNumbers := by
      unfold MsgInfo.requiredNumbers
      intro h
      obtain ⟨cf, hcf, hn⟩ := List.mem_map.1 h
      obtain ⟨h1, h2⟩ := List.mem_filter.1 hcf
      exact hdel cf h1 (by simpa using h2) hn
    simp [this]

/-- adding a required field: located at the new field -/
theorem detects_required_field_add (hw : WF cur) {pm cm : FlatMsg} {jf : Nat × Field}
    (hpm : pm ∈ allMsgs prev) (hcm : cm ∈ allMsgs cur) (hname : cm.fullName = pm.fullName)
    (hjf : jf ∈ indexed cm.info.fields) (hreq : jf.2.label = .required)
    (hnew : ∀ pf ∈ pm.info.fields, pf.label = .required → pf.number ≠ jf.2.number)
    (hact : "MESSAGE_SAME_REQUIRED_FIELDS" ∈ rulesOf v cat) :
    annAt "MESSAGE_SAME_REQUIRED_FIELDS" cm.file cm.locs ([cm.path ++ [2, jf.1]] ++ cm.mapLoc.toList) cm.file
      ∈ check v cat cur prev := by
  apply mem_check hact
  rw [runRule_eq (f := ruleMessageSameRequiredFields) rfl]
  unfold ruleMessageSameRequiredFields
  apply mem_msgPairs hw hpm hcm hname
  apply List.mem_append_right
  refine List.mem_flatMap.2 ⟨jf, hjf, ?_⟩
  have : jf.2.number ∉ pm.info.requiredNumbers := by
    unfold MsgInfo.requiredNumbers
    intro h
    obtain ⟨pf, hpf, hn⟩ := List.mem_map.1 h
    obtain ⟨h1, h2⟩ := List.mem_filter.1 hpf
    exact hnew pf h1 (by simpa using h2) hn
  simp [hreq, this]

/-! ### changes of a field that keeps its number in a message that keeps its name -/

section field
variable (hw : WF cur) {pm cm : FlatMsg} {pf cf : FlatField}
  (hpm : pm ∈ allMsgs prev) (hcm : cm ∈ allMsgs cur) (hname : cm.fullName = pm.fullName)
  (hpf : pf ∈ msgFields pm) (hcf : cf ∈ msgFields cm) (hnum : cf.field.number = pf.field.number)
include hw hpm hcm hname hpf hcf hnum

/-- FIELD_SAME_TYPE: the resolved kind changed — located at the current field's type (name) -/
theorem detects_type_change (hk : pf.field.kind ≠ cf.field.kind)
    (hact : "FIELD_SAME_TYPE" ∈ rulesOf v cat) :
    changedTypeAnn "FIELD_SAME_TYPE" cf ∈ check v cat cur prev := by
  apply mem_check hact
  rw [runRule_eq (f := ruleFieldSameType) rfl]
  unfold ruleFieldSameType
  apply mem_fieldPairs hw hpm hcm hname hpf hcf hnum
  simp [hk]

/-- FIELD_SAME_TYPE: same kind, message / enum / group type name changed -/
theorem detects_type_name_change (hk : pf.field.kind = cf.field.kind) (hn : cf.field.ty.named = true)
    (ht : pf.field.typeName ≠ cf.field.typeName) (hact : "FIELD_SAME_TYPE" ∈ rulesOf v cat) :
    changedTypeNameAnn "FIELD_SAME_TYPE" cf ∈ check v cat cur prev := by
  apply mem_check hact
  rw [runRule_eq (f := ruleFieldSameType) rfl]
  unfold ruleFieldSameType
  apply mem_fieldPairs hw hpm hcm hname hpf hcf hnum
  simp [hk, hn, ht]

/-- FIELD_WIRE_COMPATIBLE_TYPE: the kinds are in different wire groups (regenerated table) and the
    change is not string → bytes -/
theorem detects_wire_type_change (hg : pf.field.kind.wireGroup ≠ cf.field.kind.wireGroup)
    (hsb : ¬ (pf.field.kind = .string ∧ cf.field.kind = .bytes))
    (hact : "FIELD_WIRE_COMPATIBLE_TYPE" ∈ rulesOf v cat) :
    changedTypeAnn "FIELD_WIRE_COMPATIBLE_TYPE" cf ∈ check v cat cur prev := by
  apply mem_check hact
  rw [runRule_eq (f := ruleFieldWireCompatibleType) rfl]
  unfold ruleFieldWireCompatibleType
  apply mem_fieldPairs hw hpm hcm hname hpf hcf hnum
  rw [if_pos hg, if_neg hsb]
  exact List.mem_cons_self

/-- FIELD_WIRE_JSON_COMPATIBLE_TYPE: the kinds are in different wire+JSON groups -/
theorem detects_wire_json_type_change (hg : pf.field.kind.wireJsonGroup ≠ cf.field.kind.wireJsonGroup)
    (hact : "FIELD_WIRE_JSON_COMPATIBLE_TYPE" ∈ rulesOf v cat) :
    changedTypeAnn "FIELD_WIRE_JSON_COMPATIBLE_TYPE" cf ∈ check v cat cur prev := by
  apply mem_check hact
  rw [runRule_eq (f := ruleFieldWireJsonCompatibleType) rfl]
  unfold ruleFieldWireJsonCompatibleType
  apply mem_fieldPairs hw hpm hcm hname hpf hcf hnum
  rw [if_pos hg]
  exact List.mem_cons_self

/-- cardinality (FIELD_SAME_CARDINALITY and, with the regenerated group tables, the WIRE_JSON / WIRE
    variants): located at the current field -/
theorem detects_cardinality_change (hm : ¬ (pf.field.inMapEntry = true ∧ cf.field.inMapEntry = true))
    (hc : pf.field.card ≠ cf.field.card) (hact : "FIELD_SAME_CARDINALITY" ∈ rulesOf v cat) :
    fieldAnn "FIELD_SAME_CARDINALITY" cf [cf.path] ∈ check v cat cur prev := by
  apply mem_check hact
  rw [runRule_eq (f := cardRule "FIELD_SAME_CARDINALITY" (fun c => c.ctorIdx)) rfl]
  unfold cardRule
  apply mem_fieldPairs hw hpm hcm hname hpf hcf hnum
  have h1 : (pf.field.inMapEntry && cf.field.inMapEntry) = false := by
    apply Bool.eq_false_iff.2; intro h; exact hm (by simpa using h)
  have h2 : pf.field.card.ctorIdx ≠ cf.field.card.ctorIdx := by
    intro h; apply hc
    generalize pf.field.card = a at h ⊢
    generalize cf.field.card = b at h ⊢
    cases a <;> cases b <;> first | rfl | cases h
  simp [h1, h2]

theorem detects_wire_json_cardinality_change (hm : ¬ (pf.field.inMapEntry = true ∧ cf.field.inMapEntry = true))
    (hc : pf.field.card.wireJsonGroup ≠ cf.field.card.wireJsonGroup)
    (hact : "FIELD_WIRE_JSON_COMPATIBLE_CARDINALITY" ∈ rulesOf v cat) :
    fieldAnn "FIELD_WIRE_JSON_COMPATIBLE_CARDINALITY" cf [cf.path] ∈ check v cat cur prev := by
  apply mem_check hact
  rw [runRule_eq (f := cardRule "FIELD_WIRE_JSON_COMPATIBLE_CARDINALITY" Card.wireJsonGroup) rfl]
  unfold cardRule
  apply mem_fieldPairs hw hpm hcm hname hpf hcf hnum
  have h1 : (pf.field.inMapEntry && cf.field.inMapEntry) = false := by
    apply Bool.eq_false_iff.2; intro h; exact hm (by simpa using h)
  simp [h1, hc]

theorem detects_wire_cardinality_change (hm : ¬ (pf.field.inMapEntry = true ∧ cf.field.inMapEntry = true))
    (hc : pf.field.card.wireGroup ≠ cf.field.card.wireGroup)
    (hact : "FIELD_WIRE_COMPATIBLE_CARDINALITY" ∈ rulesOf v cat) :
    fieldAnn "FIELD_WIRE_COMPATIBLE_CARDINALITY" cf [cf.path] ∈ check v cat cur prev := by
  apply mem_check hact
  rw [runRule_eq (f := cardRule "FIELD_WIRE_COMPATIBLE_CARDINALITY" Card.wireGroup) rfl]
  unfold cardRule
  apply mem_fieldPairs hw hpm hcm hname hpf hcf hnum
  have h1 : (pf.field.inMapEntry && cf.field.inMapEntry) = false := by
    apply Bool.eq_false_iff.2; intro h; exact hm (by simpa using h)
  simp [h1, hc]

/-- renaming a field: located at the current field's name -/
theorem detects_name_change (hx : pf.field.extendee = "") (hn : pf.field.name ≠ cf.field.name)
    (hact : "FIELD_SAME_NAME" ∈ rulesOf v cat) :
    fieldAnn "FIELD_SAME_NAME" cf [cf.path ++ [1]] ∈ check v cat cur prev := by
  apply mem_check hact
  rw [runRule_eq (f := ruleFieldSameName) rfl]
  unfold ruleFieldSameName
  apply mem_fieldPairs hw hpm hcm hname hpf hcf hnum
  simp [hx, hn]

/-- changing the JSON name: located at the json_name option if written, else at the field -/
theorem detects_json_name_change (hx : pf.field.extendee = "") (hn : pf.field.jsonName ≠ cf.field.jsonName)
    (hact : "FIELD_SAME_JSON_NAME" ∈ rulesOf v cat) :
    fieldAnn "FIELD_SAME_JSON_NAME" cf [cf.path ++ [10], cf.path] ∈ check v cat cur prev := by
  apply mem_check hact
  rw [runRule_eq (f := ruleFieldSameJsonName) rfl]
  unfold ruleFieldSameJsonName
  apply mem_fieldPairs hw hpm hcm hname hpf hcf hnum
  simp [hx, hn]

/-- moving a field into / out of / between (non-synthetic) oneofs: located at the current field -/
theorem detects_oneof_change (hx : pf.field.extendee = "") (ho : pf.field.realOneof ≠ cf.field.realOneof)
    (hact : "FIELD_SAME_ONEOF" ∈ rulesOf v cat) :
    fieldAnn "FIELD_SAME_ONEOF" cf [cf.path] ∈ check v cat cur prev := by
  apply mem_check hact
  rw [runRule_eq (f := ruleFieldSameOneof) rfl]
  unfold ruleFieldSameOneof
  apply mem_fieldPairs hw hpm hcm hname hpf hcf hnum
  simp only [hx]
  cases h1 : pf.field.realOneof <;> cases h2 : cf.field.realOneof <;> simp_all

/-- changing a default value: located at the default if written, else at the field -/
theorem detects_default_change (h1 : pf.field.canHaveDefault = true) (h2 : cf.field.canHaveDefault = true)
    (hz : ¬ (pf.field.dflt.isZero = true ∧ cf.field.dflt.isZero = true))
    (hd : defaultsEqual pf.field.dflt cf.field.dflt = false)
    (hact : "FIELD_SAME_DEFAULT" ∈ rulesOf v cat) :
    fieldAnn "FIELD_SAME_DEFAULT" cf [cf.path ++ [7], cf.path] ∈ check v cat cur prev := by
  apply mem_check hact
  rw [runRule_eq (f := ruleFieldSameDefault) rfl]
  unfold ruleFieldSameDefault
  apply mem_fieldPairs hw hpm hcm hname hpf hcf hnum
  have hz' : (pf.field.dflt.isZero && cf.field.dflt.isZero) = false := by
    apply Bool.eq_false_iff.2; intro h; exact hz (by simpa using h)
  simp [h1, h2, hz', hd]

end field

/-! ### RPC changes -/

section rpc
variable (hw : WF cur) {ps cs : FlatSvc} {pm cm : FlatMethod}
  (hps : ps ∈ allSvcs prev) (hcs : cs ∈ allSvcs cur) (hname : cs.fullName = ps.fullName)
  (hpm : pm ∈ svcMethods ps) (hcm : cm ∈ svcMethods cs) (hn : cm.m.name = pm.m.name)
include hw hps hcs hname hpm hcm hn

/-- any of: request type [2], response type [3], client / server streaming (the method),
    idempotency level [4,34] -/
theorem detects_rpc_change {β : Type} [DecidableEq β] (rule : String) (get : Method → β) (sub : List Nat)
    (htab : ruleTable.lookup rule = some (methodSame rule get sub))
    (hne : get pm.m ≠ get cm.m) (hact : rule ∈ rulesOf v cat) :
    annAt rule cm.file cm.locs [cm.path ++ sub] cm.file ∈ check v cat cur prev := by
  apply mem_check hact
  rw [runRule_eq htab]
  unfold methodSame
  apply mem_methodPairs hw hps hcs hname hpm hcm hn
  simp [hne]

theorem detects_rpc_request_type_change (hne : pm.m.input ≠ cm.m.input)
    (hact : "RPC_SAME_REQUEST_TYPE" ∈ rulesOf v cat) :
    annAt "RPC_SAME_REQUEST_TYPE" cm.file cm.locs [cm.path ++ [2]] cm.file ∈ check v cat cur prev :=
  detects_rpc_change hw hps hcs hname hpm hcm hn _ _ _ rfl hne hact

theorem detects_rpc_response_type_change (hne : pm.m.output ≠ cm.m.output)
    (hact : "RPC_SAME_RESPONSE_TYPE" ∈ rulesOf v cat) :
    annAt "RPC_SAME_RESPONSE_TYPE" cm.file cm.locs [cm.path ++ [3]] cm.file ∈ check v cat cur prev :=
  detects_rpc_change hw hps hcs hname hpm hcm hn _ _ _ rfl hne hact

theorem detects_rpc_client_streaming_change (hne : pm.m.clientStreaming ≠ cm.m.clientStreaming)
    (hact : "RPC_SAME_CLIENT_STREAMING" ∈ rulesOf v cat) :
    annAt "RPC_SAME_CLIENT_STREAMING" cm.file cm.locs [cm.path ++ []] cm.file ∈ check v cat cur prev :=
  detects_rpc_change hw hps hcs hname hpm hcm hn _ _ _ rfl hne hact

theorem detects_rpc_server_streaming_change (hne : pm.m.serverStreaming ≠ cm.m.serverStreaming)
    (hact : "RPC_SAME_SERVER_STREAMING" ∈ rulesOf v cat) :
    annAt "RPC_SAME_SERVER_STREAMING" cm.file cm.locs [cm.path ++ []] cm.file ∈ check v cat cur prev :=
  detects_rpc_change hw hps hcs hname hpm hcm hn _ _ _ rfl hne hact

theorem detects_rpc_idempotency_change (hne : pm.m.idempotency ≠ cm.m.idempotency)
    (hact : "RPC_SAME_IDEMPOTENCY_LEVEL" ∈ rulesOf v cat) :
    annAt "RPC_SAME_IDEMPOTENCY_LEVEL" cm.file cm.locs [cm.path ++ [4, 34]] cm.file ∈ check v cat cur prev :=
  detects_rpc_change hw hps hcs hname hpm hcm hn _ _ _ rfl hne hact

end rpc

/-! ### file changes -/

section file
variable (hw : WF cur) {pf cf : File} (hpf : pf ∈ prev) (hcf : cf ∈ cur) (hpath : cf.path = pf.path)
include hw hpf hcf hpath

theorem detects_file_package_change (hne : pf.pkg ≠ cf.pkg) (hact : "FILE_SAME_PACKAGE" ∈ rulesOf v cat) :
    annAt "FILE_SAME_PACKAGE" cf.path cf.locs [[2]] cf.path ∈ check v cat cur prev := by
  apply mem_check hact
  rw [runRule_eq (f := ruleFileSamePackage) rfl]
  unfold ruleFileSamePackage fileSame
  apply mem_filePairs hw hpf hcf hpath
  simp [hne]

theorem detects_file_syntax_change (hne : pf.syn.norm ≠ cf.syn.norm) (hact : "FILE_SAME_SYNTAX" ∈ rulesOf v cat) :
    annAt "FILE_SAME_SYNTAX" cf.path cf.locs [[12]] cf.path ∈ check v cat cur prev := by
  apply mem_check hact
  rw [runRule_eq (f := ruleFileSameSyntax) rfl]
  unfold ruleFileSameSyntax fileSame
  apply mem_filePairs hw hpf hcf hpath
  simp [hne]

/-- any tracked file option (one parametric rule): located at the option if still written -/
theorem detects_file_option_change (rule : String) (n : Nat) (hnot : ruleTable.lookup rule = none)
    (hopt : fileOptRules.lookup rule = some n) (hne : pf.opt n ≠ cf.opt n) (hact : rule ∈ rulesOf v cat) :
    annAt rule cf.path cf.locs [[8, n]] cf.path ∈ check v cat cur prev := by
  apply mem_check hact
  unfold runRule
  rw [hnot]; simp only; rw [hopt]; simp only
  unfold ruleFileSameOption fileSame
  apply mem_filePairs hw hpf hcf hpath
  simp [hne]

end file

/-! ### the rules are active where the documentation says (regenerated tables) -/

/-- deletion rules per category, all three config versions -/
theorem deletion_rules_active : ∀ v : Ver,
    "FIELD_NO_DELETE" ∈ rulesOf v "FILE" ∧ "FIELD_NO_DELETE" ∈ rulesOf v "PACKAGE" ∧
    "FIELD_NO_DELETE_UNLESS_NAME_RESERVED" ∈ rulesOf v "WIRE_JSON" ∧
    "FIELD_NO_DELETE_UNLESS_NUMBER_RESERVED" ∈ rulesOf v "WIRE_JSON" ∧
    "FIELD_NO_DELETE_UNLESS_NUMBER_RESERVED" ∈ rulesOf v "WIRE" ∧
    "ENUM_VALUE_NO_DELETE" ∈ rulesOf v "FILE" ∧ "ENUM_VALUE_NO_DELETE" ∈ rulesOf v "PACKAGE" ∧
    "ENUM_VALUE_NO_DELETE_UNLESS_NAME_RESERVED" ∈ rulesOf v "WIRE_JSON" ∧
    "ENUM_VALUE_NO_DELETE_UNLESS_NUMBER_RESERVED" ∈ rulesOf v "WIRE" ∧
    "MESSAGE_NO_DELETE" ∈ rulesOf v "FILE" ∧ "ENUM_NO_DELETE" ∈ rulesOf v "FILE" ∧
    "SERVICE_NO_DELETE" ∈ rulesOf v "FILE" ∧ "FILE_NO_DELETE" ∈ rulesOf v "FILE" ∧
    "PACKAGE_NO_DELETE" ∈ rulesOf v "PACKAGE" ∧ "PACKAGE_ENUM_NO_DELETE" ∈ rulesOf v "PACKAGE" ∧
    "RPC_NO_DELETE" ∈ rulesOf v "FILE" ∧ "RPC_NO_DELETE" ∈ rulesOf v "PACKAGE" ∧
    "ONEOF_NO_DELETE" ∈ rulesOf v "FILE" ∧ "ONEOF_NO_DELETE" ∈ rulesOf v "PACKAGE" := by
  intro v; cases v <;> decide

/-- the RPC / oneof / required / reserved rules are active in all four categories -/
theorem wire_level_rules_active : ∀ v : Ver, ∀ cat ∈ ["FILE", "PACKAGE", "WIRE_JSON", "WIRE"],
    "FIELD_SAME_ONEOF" ∈ rulesOf v cat ∧ "RPC_SAME_REQUEST_TYPE" ∈ rulesOf v cat ∧
    "RPC_SAME_RESPONSE_TYPE" ∈ rulesOf v cat ∧ "RPC_SAME_CLIENT_STREAMING" ∈ rulesOf v cat ∧
    "RPC_SAME_SERVER_STREAMING" ∈ rulesOf v cat ∧ "RPC_SAME_IDEMPOTENCY_LEVEL" ∈ rulesOf v cat ∧
    "MESSAGE_SAME_REQUIRED_FIELDS" ∈ rulesOf v cat ∧ "RESERVED_MESSAGE_NO_DELETE" ∈ rulesOf v cat ∧
    "RESERVED_ENUM_NO_DELETE" ∈ rulesOf v cat := by
  intro v; cases v <;> decide

/-- type rules: FIELD_SAME_TYPE in FILE and PACKAGE everywhere; the compatibility variants in
    WIRE_JSON / WIRE of v1 and v2 (v1beta1 keeps FIELD_SAME_TYPE there) -/
theorem type_rules_active :
    (∀ v : Ver, "FIELD_SAME_TYPE" ∈ rulesOf v "FILE" ∧ "FIELD_SAME_TYPE" ∈ rulesOf v "PACKAGE") ∧
    (∀ v ∈ [Ver.v1, Ver.v2], "FIELD_WIRE_JSON_COMPATIBLE_TYPE" ∈ rulesOf v "WIRE_JSON" ∧
      "FIELD_WIRE_COMPATIBLE_TYPE" ∈ rulesOf v "WIRE") ∧
    ("FIELD_SAME_TYPE" ∈ rulesOf .v1beta1 "WIRE_JSON" ∧ "FIELD_SAME_TYPE" ∈ rulesOf .v1beta1 "WIRE") := by
  refine ⟨fun v => by cases v <;> decide, by decide, by decide⟩

/-! ### the pre-fix PACKAGE_ENUM_NO_DELETE missed the last enum of a surviving package -/

def cexEnum : Enum :=
  { name := "E", values := [⟨"E_0", 0⟩], reservedRanges := [], reservedNames := [], closed := false,
    jsonAllow := true }
def cexMsg : MsgInfo :=
  { name := "M", fields := [], extensions := [], enums := [], oneofs := [], reservedRanges := [],
    reservedNames := [], extRanges := [], messageSet := false, noStdAccessor := false, jsonAllow := true,
    mapEntry := false }
def cexPrev : Schema :=
  [{ path := "a.proto", pkg := ["p"], syn := .proto3, opts := [], locs := [], messages := [],
     enums := [cexEnum], services := [], extensions := [] }]
def cexCur : Schema :=
  [{ path := "a.proto", pkg := ["p"], syn := .proto3, opts := [], locs := [], messages := [.mk cexMsg []],
     enums := [], services := [], extensions := [] }]

/-- witness replayed on /repo before `C03-package-last-element.diff`: enum p.E deleted, package p
    survives, the old handler reports nothing while the fixed one does -/
theorem package_enum_old_counterexample :
    rulePackageEnumNoDeleteOld cexCur cexPrev = [] ∧
    rulePackageEnumNoDelete cexCur cexPrev = [⟨"PACKAGE_ENUM_NO_DELETE", "a.proto", []⟩] := by
  decide

end BufProofs.C03
