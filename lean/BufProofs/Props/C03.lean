import BufProofs.Lemmas.BreakingWitness
import BufProofs.Lemmas.BreakingLocate
/-
  C03 — No documented breaking change goes unreported (staged).

  * `rules_active` — ONE `decide`-checked statement over the regenerated tables: for every modelled
    rule id, the categories of each configuration version in which it is active are exactly the
    documented ones (`activeCats`, the hand-written table `docTable` in Lemmas/BreakingDetect.lean).
  * `detects_*` — one theorem per edit family, stated on ARBITRARY pairs of schemas: the hypotheses
    constrain only the edited element (and ask the newer schema to have unique keys, `WF`, as every
    compiled image has), so "however the edit is surrounded by unrelated compatible changes" holds
    by construction.  The conclusion `Reports id a cur prev` says: the annotation `a` is in
    `check v cat cur prev` for EVERY config version `v` and category `cat` with
    `cat ∈ activeCats id v`, i.e. (by `rules_active`) for every configuration in which the rule is
    active.
  * `located_*` — the location carried by those annotations is the one DESIGN §6 prescribes:
    changed elements → the source path of the CURRENT element, which resolves in the current file's
    descriptor tree to that element (`located_message`, `located_field`, `located_enum`,
    `located_enum_value`, `located_service`, `located_method`, `located_file_statement`); deleted
    elements → the nearest surviving enclosing message of the current file, i.e. the LONGEST proper
    prefix of the deleted nested name that is a current message (`located_deleted_element`);
    deleted files / packages → no file and no path (literally in the `detects_*` conclusion).
    `Ann` has no against-file and no message-text component: those two parts of "naming the edited
    element" are not modelled (oracle only); `detects_field_delete_each` gives the multiplicity
    ("one annotation per deleted field") that the missing text would otherwise distinguish.
  * every `detects_*` theorem has, at the end of the file, an `example` that instantiates
    ALL its hypotheses on the witness pair `W.wPrev → W.wCur` (Lemmas/BreakingWitness.lean: all the
    edits at once, nested at depth 3, surrounded by index-shifting additive changes) and exhibits
    the concrete annotation.
-/
namespace BufProofs.C03
open BufModel.Schema BufModel.Breaking BufProofs.Breaking BufProofs.Breaking.W

variable {cur prev : Schema}

/-! ### the rules are active where the documentation says (regenerated tables) -/

/-- For every modelled rule id (`docTable` lists exactly the ids of the dispatch tables,
    `docTable_ids`), every config version and EVERY category string: the rule is run for that
    category iff the documentation table says so.  `decide` over the regenerated
    `BufGen.BreakingTables` (`docTable_exact`, `docTable_cats`, `table_cats`). -/
theorem rules_active (id : String) (hid : id ∈ docTable.map (·.id)) (v : Ver) (cat : String) :
    cat ∈ activeCats id v ↔ id ∈ rulesOf v cat :=
  ⟨active_sound, active_complete hid⟩

/-- the documentation table has one row per rule id of the model's dispatch tables, in order -/
theorem rules_active_covers_model :
    docTable.map (·.id) = ruleTable.map (·.1) ++ fileOptRules.map (·.1) := docTable_ids

/-- no `detects_*` theorem is vacuous for lack of an active configuration: every rule is active in
    at least one category of buf.yaml v2 -/
theorem rules_active_somewhere (id : String) (hid : id ∈ docTable.map (·.id)) : activeCats id .v2 ≠ [] := by
  obtain ⟨r0, hr0, hid0⟩ := List.mem_map.1 hid
  unfold activeCats
  cases hf : docTable.find? (fun r => r.id == id) with
  | none =>
    have := List.find?_eq_none.1 hf r0 hr0
    simp [hid0] at this
  | some r => exact docTable_v2_nonempty r (List.mem_of_find?_eq_some hf)

/-! ### nested lookup -/

/-- `Reach ms q m`: message `m` is reachable from the top-level messages `ms` through nesting, along
    the dotted name `q` -/
inductive Reach : List Msg → QName → Msg → Prop
  | top {ms : List Msg} {m : Msg} : m ∈ ms → Reach ms [m.info.name] m
  | nest {ms : List Msg} {q : QName} {m n : Msg} : Reach ms q m → n ∈ m.nested → Reach ms (q ++ [n.info.name]) n

/-- The flattened nested-name map of a file contains every message at every depth, under its dotted
    nested name, with its own content. -/
theorem nested_lookup_complete (f : File) (q : QName) (m : Msg) (h : Reach f.messages q m) :
    ∃ fm ∈ f.flatMsgs, fm.nested = q ∧ fm.info = m.info ∧ fm.file = f.path ∧ fm.pkg = f.pkg := by
  suffices hs : ∃ pre path ml, pre ++ [m.info.name] = q ∧
      ∀ x ∈ flatMsg f.path f.locs f.pkg pre path ml m, x ∈ f.flatMsgs by
    obtain ⟨pre, path, ml, hq, hsub⟩ := hs
    cases m with
    | mk i ns =>
      refine ⟨⟨f.path, f.locs, f.pkg, pre ++ [i.name], path, ml, i⟩, hsub _ ?_, hq, rfl, rfl, rfl⟩
      rw [flatMsg]; exact List.mem_cons_self
  induction h with
  | top hm =>
    obtain ⟨j, hj⟩ := topMsgs_of_mem f.path f.locs f.pkg f.messages 0 _ hm
    exact ⟨[], [4, j], none, rfl, fun x hx => hj x hx⟩
  | @nest q m n _ hn ih =>
    obtain ⟨pre, path, ml, hq, hsub⟩ := ih
    cases m with
    | mk i ns =>
      obtain ⟨j, ml', hj⟩ := flatMsgs_of_mem f.path f.locs f.pkg (pre ++ [i.name]) path i.fields ns 0 n hn
      refine ⟨pre ++ [i.name], path ++ [3, j], ml', by rw [← hq]; rfl, fun x hx => hsub x ?_⟩
      rw [flatMsg]; exact List.mem_cons_of_mem _ (hj x hx)

/-- … and every enum nested in such a message. -/
theorem nested_enum_lookup_complete (f : File) (q : QName) (m : Msg) (e : Enum)
    (h : Reach f.messages q m) (he : e ∈ m.info.enums) :
    ∃ fe ∈ f.flatEnums, fe.nested = q ++ [e.name] ∧ fe.enum = e := by
  obtain ⟨fm, hfm, hq, hinfo, _, _⟩ := nested_lookup_complete f q m h
  obtain ⟨j, hj⟩ := exists_indexed_of_mem (hinfo ▸ he)
  refine ⟨⟨f.path, f.locs, f.pkg, fm.nested ++ [e.name], fm.path ++ [4, j], e⟩, ?_, by rw [hq], rfl⟩
  unfold File.flatEnums
  exact List.mem_append_right _ (List.mem_flatMap.2 ⟨fm, hfm, List.mem_map.2 ⟨(j, e), hj, rfl⟩⟩)

/-! ### deletions inside a surviving element -/

/-- deleting a field (no current field has its number) of a message that still exists -/
theorem detects_field_delete (hw : WF cur) {pm cm : FlatMsg} {pf : Field}
    (hpm : pm ∈ allMsgs prev) (hcm : cm ∈ allMsgs cur) (hname : cm.fullName = pm.fullName)
    (hpf : pf ∈ pm.info.fields) (hdel : ∀ cf ∈ cm.info.fields, cf.number ≠ pf.number) :
    Reports "FIELD_NO_DELETE" (msgLoc cm "FIELD_NO_DELETE") cur prev := by
  apply reports_of_run
  rw [runRule_eq (f := fieldNoDelete "FIELD_NO_DELETE" false false) rfl]
  unfold fieldNoDelete
  apply mem_msgPairs hw hpm hcm hname
  refine List.mem_flatMap.2 ⟨pf, hpf, ?_⟩
  have : cm.info.hasNumber pf.number = false := by
    unfold MsgInfo.hasNumber
    apply Bool.eq_false_iff.2
    intro h
    obtain ⟨cf, hcf, hn⟩ := List.any_eq_true.1 h
    exact hdel cf hcf (by simpa using hn)
  simp [this]

/-- multiplicity ("EVERY deletion is reported", although `Ann` does not name the deleted field): in
    every configuration in which FIELD_NO_DELETE is active there are at least as many
    FIELD_NO_DELETE annotations located at the current message as fields of the previous message
    have no current counterpart -/
theorem detects_field_delete_each (hw : WF cur) {pm cm : FlatMsg}
    (hpm : pm ∈ allMsgs prev) (hcm : cm ∈ allMsgs cur) (hname : cm.fullName = pm.fullName)
    (v : Ver) (cat : String) (hc : cat ∈ activeCats "FIELD_NO_DELETE" v) :
    (pm.info.fields.filter fun pf => !cm.info.hasNumber pf.number).length ≤
      (check v cat cur prev).count (msgLoc cm "FIELD_NO_DELETE") := by
  refine Nat.le_trans ?_ (count_le_check _ (active_sound hc))
  rw [runRule_eq (f := fieldNoDelete "FIELD_NO_DELETE" false false) rfl]
  unfold fieldNoDelete msgPairs
  refine Nat.le_trans ?_ (count_le_pairwise FlatMsg.fullName _ _ _ _ pm cm _ hw.msgs hpm hcm hname)
  simp only [Bool.false_and, Bool.or_self, Bool.false_eq_true, if_false]
  rw [count_flatMap_ite]
  exact Nat.le_refl _

/-- `nested_lookup_complete` composed with `detects_field_delete`, i.e. the same statement on the
    message TREES: a message reachable through nesting along the dotted name `q` in a previous file
    and in a current file of the same package, one of whose fields has no current counterpart.
    (The two files need not have the same path: messages are paired by full name.) -/
theorem detects_field_delete_in_tree (hw : WF cur) {pf cf : File} (hpf : pf ∈ prev) (hcf : cf ∈ cur)
    (hpkg : cf.pkg = pf.pkg) {q : QName} {pm cm : Msg}
    (hp : Reach pf.messages q pm) (hc : Reach cf.messages q cm) {f : Field}
    (hf : f ∈ pm.info.fields) (hdel : ∀ g ∈ cm.info.fields, g.number ≠ f.number) :
    ∃ fm ∈ cf.flatMsgs, fm.nested = q ∧ fm.info = cm.info ∧
      Reports "FIELD_NO_DELETE" (msgLoc fm "FIELD_NO_DELETE") cur prev := by
  obtain ⟨fp, hfp, hq, hinfo, _, hpk⟩ := nested_lookup_complete pf q pm hp
  obtain ⟨fc, hfc, hq', hinfo', _, hpk'⟩ := nested_lookup_complete cf q cm hc
  refine ⟨fc, hfc, hq', hinfo', ?_⟩
  exact detects_field_delete hw (List.mem_flatMap.2 ⟨pf, hpf, hfp⟩) (List.mem_flatMap.2 ⟨cf, hcf, hfc⟩)
    (by unfold FlatMsg.fullName; rw [hq, hq', hpk, hpk', hpkg]) (hinfo ▸ hf) (fun g hg => hdel g (hinfo' ▸ hg))

/-- … without reserving its number (WIRE_JSON and WIRE) -/
theorem detects_field_delete_unless_number_reserved (hw : WF cur) {pm cm : FlatMsg} {pf : Field}
    (hpm : pm ∈ allMsgs prev) (hcm : cm ∈ allMsgs cur) (hname : cm.fullName = pm.fullName)
    (hpf : pf ∈ pm.info.fields) (hdel : ∀ cf ∈ cm.info.fields, cf.number ≠ pf.number)
    (hres : ∀ r ∈ cm.info.reservedRanges, ¬ (r.1 ≤ pf.number ∧ pf.number ≤ r.2)) :
    Reports "FIELD_NO_DELETE_UNLESS_NUMBER_RESERVED" (msgLoc cm "FIELD_NO_DELETE_UNLESS_NUMBER_RESERVED") cur prev := by
  apply reports_of_run
  rw [runRule_eq (f := fieldNoDelete "FIELD_NO_DELETE_UNLESS_NUMBER_RESERVED" true false) rfl]
  unfold fieldNoDelete
  apply mem_msgPairs hw hpm hcm hname
  refine List.mem_flatMap.2 ⟨pf, hpf, ?_⟩
  have h1 : cm.info.hasNumber pf.number = false := by
    unfold MsgInfo.hasNumber
    apply Bool.eq_false_iff.2
    intro h
    obtain ⟨cf, hcf, hn⟩ := List.any_eq_true.1 h
    exact hdel cf hcf (by simpa using hn)
  have h2 : numberReserved cm.info.reservedRanges pf.number = false := by
    unfold numberReserved
    apply Bool.eq_false_iff.2
    intro h
    obtain ⟨r, hr, hn⟩ := List.any_eq_true.1 h
    exact hres r hr (by simpa [rangeHas] using hn)
  simp [h1, h2]

/-- … without reserving its name (WIRE_JSON) -/
theorem detects_field_delete_unless_name_reserved (hw : WF cur) {pm cm : FlatMsg} {pf : Field}
    (hpm : pm ∈ allMsgs prev) (hcm : cm ∈ allMsgs cur) (hname : cm.fullName = pm.fullName)
    (hpf : pf ∈ pm.info.fields) (hdel : ∀ cf ∈ cm.info.fields, cf.number ≠ pf.number)
    (hres : pf.name ∉ cm.info.reservedNames) :
    Reports "FIELD_NO_DELETE_UNLESS_NAME_RESERVED" (msgLoc cm "FIELD_NO_DELETE_UNLESS_NAME_RESERVED") cur prev := by
  apply reports_of_run
  rw [runRule_eq (f := fieldNoDelete "FIELD_NO_DELETE_UNLESS_NAME_RESERVED" false true) rfl]
  unfold fieldNoDelete
  apply mem_msgPairs hw hpm hcm hname
  refine List.mem_flatMap.2 ⟨pf, hpf, ?_⟩
  have h1 : cm.info.hasNumber pf.number = false := by
    unfold MsgInfo.hasNumber
    apply Bool.eq_false_iff.2
    intro h
    obtain ⟨cf, hcf, hn⟩ := List.any_eq_true.1 h
    exact hdel cf hcf (by simpa using hn)
  simp [h1, hres]

/-- deleting an enum value (all names of a number) of an enum that still exists; the annotation is
    located at the current enum.  `allowNumber/allowName = false/false` is ENUM_VALUE_NO_DELETE. -/
theorem detects_enum_value_delete (hw : WF cur) {pe ce : FlatEnum} {pv : EnumValue}
    (hpe : pe ∈ allEnums prev) (hce : ce ∈ allEnums cur) (hname : ce.fullName = pe.fullName)
    (hpv : pv ∈ pe.enum.values) (hdel : ∀ cv ∈ ce.enum.values, cv.number ≠ pv.number) :
    Reports "ENUM_VALUE_NO_DELETE" (enumLoc ce "ENUM_VALUE_NO_DELETE" pe.file) cur prev := by
  apply reports_of_run
  rw [runRule_eq (f := enumValueNoDelete "ENUM_VALUE_NO_DELETE" false false) rfl]
  unfold enumValueNoDelete
  apply mem_enumPairs hw hpe hce hname
  refine List.mem_flatMap.2 ⟨pv, hpv, ?_⟩
  have : ce.enum.hasNumber pv.number = false := by
    unfold Enum.hasNumber
    apply Bool.eq_false_iff.2
    intro h
    obtain ⟨cv, hcv, hn⟩ := List.any_eq_true.1 h
    exact hdel cv hcv (by simpa using hn)
  simp [this]

theorem detects_enum_value_delete_unless_number_reserved (hw : WF cur) {pe ce : FlatEnum} {pv : EnumValue}
    (hpe : pe ∈ allEnums prev) (hce : ce ∈ allEnums cur) (hname : ce.fullName = pe.fullName)
    (hpv : pv ∈ pe.enum.values) (hdel : ∀ cv ∈ ce.enum.values, cv.number ≠ pv.number)
    (hres : ∀ r ∈ ce.enum.reservedRanges, ¬ (r.1 ≤ pv.number ∧ pv.number ≤ r.2)) :
    Reports "ENUM_VALUE_NO_DELETE_UNLESS_NUMBER_RESERVED" (enumLoc ce "ENUM_VALUE_NO_DELETE_UNLESS_NUMBER_RESERVED" pe.file) cur prev := by
  apply reports_of_run
  rw [runRule_eq (f := enumValueNoDelete "ENUM_VALUE_NO_DELETE_UNLESS_NUMBER_RESERVED" true false) rfl]
  unfold enumValueNoDelete
  apply mem_enumPairs hw hpe hce hname
  refine List.mem_flatMap.2 ⟨pv, hpv, ?_⟩
  have h1 : ce.enum.hasNumber pv.number = false := by
    unfold Enum.hasNumber
    apply Bool.eq_false_iff.2
    intro h
    obtain ⟨cv, hcv, hn⟩ := List.any_eq_true.1 h
    exact hdel cv hcv (by simpa using hn)
  have h2 : numberReserved ce.enum.reservedRanges pv.number = false := by
    unfold numberReserved
    apply Bool.eq_false_iff.2
    intro h
    obtain ⟨r, hr, hn⟩ := List.any_eq_true.1 h
    exact hres r hr (by simpa [rangeHas] using hn)
  simp [h1, h2]

theorem detects_enum_value_delete_unless_name_reserved (hw : WF cur) {pe ce : FlatEnum} {pv : EnumValue}
    (hpe : pe ∈ allEnums prev) (hce : ce ∈ allEnums cur) (hname : ce.fullName = pe.fullName)
    (hpv : pv ∈ pe.enum.values) (hdel : ∀ cv ∈ ce.enum.values, cv.number ≠ pv.number)
    (hres : pv.name ∉ ce.enum.reservedNames) :
    Reports "ENUM_VALUE_NO_DELETE_UNLESS_NAME_RESERVED" (enumLoc ce "ENUM_VALUE_NO_DELETE_UNLESS_NAME_RESERVED" pe.file) cur prev := by
  apply reports_of_run
  rw [runRule_eq (f := enumValueNoDelete "ENUM_VALUE_NO_DELETE_UNLESS_NAME_RESERVED" false true) rfl]
  unfold enumValueNoDelete
  apply mem_enumPairs hw hpe hce hname
  refine List.mem_flatMap.2 ⟨pv, hpv, ?_⟩
  have h1 : ce.enum.hasNumber pv.number = false := by
    unfold Enum.hasNumber
    apply Bool.eq_false_iff.2
    intro h
    obtain ⟨cv, hcv, hn⟩ := List.any_eq_true.1 h
    exact hdel cv hcv (by simpa using hn)
  have h2 : ((pe.enum.values.filter fun w => decide (w.number = pv.number)).all
      fun w => decide (w.name ∈ ce.enum.reservedNames)) = false := by
    apply Bool.eq_false_iff.2
    intro h
    have := List.all_eq_true.1 h pv (List.mem_filter.2 ⟨hpv, by simp⟩)
    exact hres (by simpa using this)
  simp [h1, h2]

/-- deleting an RPC of a service that still exists: located at the current service -/
theorem detects_rpc_delete (hw : WF cur) {ps cs : FlatSvc} {pm : Method}
    (hps : ps ∈ allSvcs prev) (hcs : cs ∈ allSvcs cur) (hname : cs.fullName = ps.fullName)
    (hpm : pm ∈ ps.svc.methods) (hdel : ∀ cm ∈ cs.svc.methods, cm.name ≠ pm.name) :
    Reports "RPC_NO_DELETE" (svcLoc cs "RPC_NO_DELETE") cur prev := by
  apply reports_of_run
  rw [runRule_eq (f := ruleRpcNoDelete) rfl]
  unfold ruleRpcNoDelete
  apply mem_svcPairs hw hps hcs hname
  refine List.mem_flatMap.2 ⟨pm, hpm, ?_⟩
  have : pm.name ∉ cs.svc.methods.map (·.name) := by
    intro h
    obtain ⟨cm, hcm, hn⟩ := List.mem_map.1 h
    exact hdel cm hcm hn
  simp [this]

/-- deleting a (non-synthetic) oneof of a message that still exists: located at the current message -/
theorem detects_oneof_delete (hw : WF cur) {pm cm : FlatMsg} {po : Oneof}
    (hpm : pm ∈ allMsgs prev) (hcm : cm ∈ allMsgs cur) (hname : cm.fullName = pm.fullName)
    (hpo : po ∈ pm.info.oneofs) (hreal : po.synthetic = false)
    (hdel : ∀ co ∈ cm.info.oneofs, co.name ≠ po.name) :
    Reports "ONEOF_NO_DELETE" (msgLoc cm "ONEOF_NO_DELETE") cur prev := by
  apply reports_of_run
  rw [runRule_eq (f := ruleOneofNoDelete) rfl]
  unfold ruleOneofNoDelete
  apply mem_msgPairs hw hpm hcm hname
  refine List.mem_flatMap.2 ⟨po, hpo, ?_⟩
  have : po.name ∉ cm.info.oneofs.map (·.name) := by
    intro h
    obtain ⟨co, hco, hn⟩ := List.mem_map.1 h
    exact hdel co hco hn
  simp [this, hreal]

/-! ### deletions of whole elements (file-level rules: nearest surviving enclosing message) -/

/-- deleting a message (at any depth) from a file that still exists -/
theorem detects_message_delete (hw : WF cur) {pf cf : File} {pm : FlatMsg}
    (hpf : pf ∈ prev) (hcf : cf ∈ cur) (hpath : cf.path = pf.path) (hpm : pm ∈ pf.flatMsgs)
    (hdel : ∀ cm ∈ cf.flatMsgs, cm.nested ≠ pm.nested) :
    Reports "MESSAGE_NO_DELETE" (deletedAnn "MESSAGE_NO_DELETE" cf pm.nested) cur prev := by
  apply reports_of_run
  rw [runRule_eq (f := ruleMessageNoDelete) rfl]
  unfold ruleMessageNoDelete
  apply mem_filePairs hw hpf hcf hpath
  exact mem_pairwise_missing FlatMsg.nested _ _ _ _ pm _ hpm hdel List.mem_cons_self

theorem detects_enum_delete (hw : WF cur) {pf cf : File} {pe : FlatEnum}
    (hpf : pf ∈ prev) (hcf : cf ∈ cur) (hpath : cf.path = pf.path) (hpe : pe ∈ pf.flatEnums)
    (hdel : ∀ ce ∈ cf.flatEnums, ce.nested ≠ pe.nested) :
    Reports "ENUM_NO_DELETE" (deletedAnn "ENUM_NO_DELETE" cf pe.nested) cur prev := by
  apply reports_of_run
  rw [runRule_eq (f := ruleEnumNoDelete) rfl]
  unfold ruleEnumNoDelete
  apply mem_filePairs hw hpf hcf hpath
  exact mem_pairwise_missing FlatEnum.nested _ _ _ _ pe _ hpe hdel List.mem_cons_self

theorem detects_extension_delete (hw : WF cur) {pf cf : File} {pe : FlatExt}
    (hpf : pf ∈ prev) (hcf : cf ∈ cur) (hpath : cf.path = pf.path) (hpe : pe ∈ pf.flatExts)
    (hdel : ∀ ce ∈ cf.flatExts, ce.nested ≠ pe.nested) :
    Reports "EXTENSION_NO_DELETE" (deletedAnn "EXTENSION_NO_DELETE" cf pe.nested) cur prev := by
  apply reports_of_run
  rw [runRule_eq (f := ruleExtensionNoDelete) rfl]
  unfold ruleExtensionNoDelete
  apply mem_filePairs hw hpf hcf hpath
  exact mem_pairwise_missing FlatExt.nested _ _ _ _ pe _ hpe hdel List.mem_cons_self

theorem detects_service_delete (hw : WF cur) {pf cf : File} {ps : FlatSvc}
    (hpf : pf ∈ prev) (hcf : cf ∈ cur) (hpath : cf.path = pf.path) (hps : ps ∈ pf.flatSvcs)
    (hdel : ∀ cs ∈ cf.flatSvcs, cs.svc.name ≠ ps.svc.name) :
    Reports "SERVICE_NO_DELETE" ((⟨"SERVICE_NO_DELETE", cf.path, []⟩ : Ann)) cur prev := by
  apply reports_of_run
  rw [runRule_eq (f := ruleServiceNoDelete) rfl]
  unfold ruleServiceNoDelete
  apply mem_filePairs hw hpf hcf hpath
  exact mem_pairwise_missing (fun s : FlatSvc => s.svc.name) _ _ _ _ ps _ hps hdel List.mem_cons_self

/-- deleting a file: the annotation names no file and no path — there is no current element to point
    at (the against-file name buf attaches is not part of `Ann`; it is checked by the oracle only) -/
theorem detects_file_delete {pf : File} (hpf : pf ∈ prev) (hdel : ∀ cf ∈ cur, cf.path ≠ pf.path) :
    Reports "FILE_NO_DELETE" ((⟨"FILE_NO_DELETE", "", []⟩ : Ann)) cur prev := by
  apply reports_of_run
  rw [runRule_eq (f := ruleFileNoDelete) rfl]
  unfold ruleFileNoDelete
  exact mem_pairwise_missing File.path _ _ _ _ pf _ hpf hdel List.mem_cons_self

/-- deleting a package (no current file has it): no file, no path -/
theorem detects_package_delete {pf : File} (hpf : pf ∈ prev) (hdel : ∀ cf ∈ cur, cf.pkg ≠ pf.pkg) :
    Reports "PACKAGE_NO_DELETE" ((⟨"PACKAGE_NO_DELETE", "", []⟩ : Ann)) cur prev := by
  apply reports_of_run
  rw [runRule_eq (f := rulePackageNoDelete) rfl]
  unfold rulePackageNoDelete
  refine List.mem_flatMap.2 ⟨pf, hpf, ?_⟩
  have : pf.pkg ∉ cur.map File.pkg := by
    intro h
    obtain ⟨cf, hcf, hp⟩ := List.mem_map.1 h
    exact hdel cf hcf hp
  simp [this]

/-- PACKAGE category: deleting an enum from a package that still exists (fixed tree; the model of
    the pre-fix code is `rulePackageEnumNoDeleteOld`, see `package_enum_old_counterexample`).
    Location: if the enum's file still exists, the nearest surviving enclosing message of that
    file (`deletedAnn`, characterised by `located_enclosing_*`); if the file is gone, nothing. -/
theorem detects_package_enum_delete (hw : WF cur) {pe : FlatEnum} (hpe : pe ∈ allEnums prev)
    (hpkg : pe.pkg ∈ cur.map File.pkg)
    (hdel : ∀ ce ∈ allEnums cur, ¬ (ce.pkg = pe.pkg ∧ ce.nested = pe.nested)) :
    (∀ cf ∈ cur, cf.path = pe.file →
      Reports "PACKAGE_ENUM_NO_DELETE" (deletedAnn "PACKAGE_ENUM_NO_DELETE" cf pe.nested) cur prev) ∧
    ((∀ cf ∈ cur, cf.path ≠ pe.file) →
      Reports "PACKAGE_ENUM_NO_DELETE" ⟨"PACKAGE_ENUM_NO_DELETE", "", []⟩ cur prev) := by
  have hnone : (allEnums cur).find? (fun ce => decide (ce.pkg = pe.pkg ∧ ce.nested = pe.nested)) = none := by
    apply List.find?_eq_none.2
    intro ce hce
    simp only [decide_eq_true_eq]
    exact hdel ce hce
  have hnone' := hnone
  simp only [Bool.decide_and] at hnone'
  constructor
  · intro cf hcf hpath
    have hf : cur.find? (fun f => decide (f.path = pe.file)) = some cf := find_file_unique hw hcf hpath
    apply reports_of_run
    rw [runRule_eq (f := rulePackageEnumNoDelete) rfl]
    unfold rulePackageEnumNoDelete
    refine List.mem_flatMap.2 ⟨pe, hpe, ?_⟩
    simp [hpkg, hnone', hf]
  · intro hgone
    have hf : cur.find? (fun f => decide (f.path = pe.file)) = none := by
      apply List.find?_eq_none.2
      intro f hf; simpa using hgone f hf
    apply reports_of_run
    rw [runRule_eq (f := rulePackageEnumNoDelete) rfl]
    unfold rulePackageEnumNoDelete
    refine List.mem_flatMap.2 ⟨pe, hpe, ?_⟩
    simp [hpkg, hnone', hf]

/-- PACKAGE category: deleting a service from a package that still exists.  Location: the file of
    the deleted service if it still exists (no path: the service has no current location),
    otherwise nothing. -/
theorem detects_package_service_delete (hw : WF cur) {ps : FlatSvc} (hps : ps ∈ allSvcs prev)
    (hpkg : ps.pkg ∈ cur.map File.pkg)
    (hdel : ∀ cs ∈ allSvcs cur, ¬ (cs.pkg = ps.pkg ∧ cs.svc.name = ps.svc.name)) :
    (∀ cf ∈ cur, cf.path = ps.file →
      Reports "PACKAGE_SERVICE_NO_DELETE" ⟨"PACKAGE_SERVICE_NO_DELETE", cf.path, []⟩ cur prev) ∧
    ((∀ cf ∈ cur, cf.path ≠ ps.file) →
      Reports "PACKAGE_SERVICE_NO_DELETE" ⟨"PACKAGE_SERVICE_NO_DELETE", "", []⟩ cur prev) := by
  have hnone : (allSvcs cur).find? (fun cs => decide (cs.pkg = ps.pkg ∧ cs.svc.name = ps.svc.name)) = none := by
    apply List.find?_eq_none.2
    intro cs hcs
    simp only [decide_eq_true_eq]
    exact hdel cs hcs
  have hnone' := hnone
  simp only [Bool.decide_and] at hnone'
  constructor
  · intro cf hcf hpath
    have hf : cur.find? (fun f => decide (f.path = ps.file)) = some cf := find_file_unique hw hcf hpath
    apply reports_of_run
    rw [runRule_eq (f := rulePackageServiceNoDelete) rfl]
    unfold rulePackageServiceNoDelete
    refine List.mem_flatMap.2 ⟨ps, hps, ?_⟩
    simp [hpkg, hnone', hf]
  · intro hgone
    have hf : cur.find? (fun f => decide (f.path = ps.file)) = none := by
      apply List.find?_eq_none.2
      intro f hf; simpa using hgone f hf
    apply reports_of_run
    rw [runRule_eq (f := rulePackageServiceNoDelete) rfl]
    unfold rulePackageServiceNoDelete
    refine List.mem_flatMap.2 ⟨ps, hps, ?_⟩
    simp [hpkg, hnone', hf]

/-- PACKAGE category (v2): deleting an extension from a package that still exists -/
theorem detects_package_extension_delete (hw : WF cur) {pe : FlatExt} (hpe : pe ∈ allExts prev)
    (hpkg : pe.pkg ∈ cur.map File.pkg)
    (hdel : ∀ ce ∈ allExts cur, ¬ (ce.pkg = pe.pkg ∧ ce.nested = pe.nested)) :
    (∀ cf ∈ cur, cf.path = pe.file →
      Reports "PACKAGE_EXTENSION_NO_DELETE" (deletedAnn "PACKAGE_EXTENSION_NO_DELETE" cf pe.nested) cur prev) ∧
    ((∀ cf ∈ cur, cf.path ≠ pe.file) →
      Reports "PACKAGE_EXTENSION_NO_DELETE" ⟨"PACKAGE_EXTENSION_NO_DELETE", "", []⟩ cur prev) := by
  have hnone : (allExts cur).find? (fun ce => decide (ce.pkg = pe.pkg ∧ ce.nested = pe.nested)) = none := by
    apply List.find?_eq_none.2
    intro ce hce
    simp only [decide_eq_true_eq]
    exact hdel ce hce
  have hnone' := hnone
  simp only [Bool.decide_and] at hnone'
  constructor
  · intro cf hcf hpath
    have hf : cur.find? (fun f => decide (f.path = pe.file)) = some cf := find_file_unique hw hcf hpath
    apply reports_of_run
    rw [runRule_eq (f := rulePackageExtensionNoDelete) rfl]
    unfold rulePackageExtensionNoDelete
    refine List.mem_flatMap.2 ⟨pe, hpe, ?_⟩
    simp [hpkg, hnone', hf]
  · intro hgone
    have hf : cur.find? (fun f => decide (f.path = pe.file)) = none := by
      apply List.find?_eq_none.2
      intro f hf; simpa using hgone f hf
    apply reports_of_run
    rw [runRule_eq (f := rulePackageExtensionNoDelete) rfl]
    unfold rulePackageExtensionNoDelete
    refine List.mem_flatMap.2 ⟨pe, hpe, ?_⟩
    simp [hpkg, hnone', hf]

/-- PACKAGE category: deleting a message (any depth) from a package that still exists.  Location, as
    coded: the nearest surviving enclosing message among the messages of the PACKAGE (`enclosingIn`,
    possibly in another file of the package), else the file of the deleted message if it still
    exists, else nothing. -/
theorem detects_package_message_delete (hw : WF cur) {pm : FlatMsg} (hpm : pm ∈ allMsgs prev)
    (hpkg : pm.pkg ∈ cur.map File.pkg)
    (hdel : ∀ cm ∈ allMsgs cur, ¬ (cm.pkg = pm.pkg ∧ cm.nested = pm.nested)) :
    (∀ cf ∈ cur, cf.path = pm.file →
      Reports "PACKAGE_MESSAGE_NO_DELETE"
        (match enclosingIn ((allMsgs cur).filter fun cm => decide (cm.pkg = pm.pkg)) pm.nested with
         | some m => annAt "PACKAGE_MESSAGE_NO_DELETE" m.file m.locs ([m.path] ++ m.mapLoc.toList) m.file
         | none => ⟨"PACKAGE_MESSAGE_NO_DELETE", cf.path, []⟩) cur prev) ∧
    ((∀ cf ∈ cur, cf.path ≠ pm.file) →
      Reports "PACKAGE_MESSAGE_NO_DELETE" ⟨"PACKAGE_MESSAGE_NO_DELETE", "", []⟩ cur prev) := by
  have hnone : ((allMsgs cur).filter fun cm => decide (cm.pkg = pm.pkg)).find?
      (fun cm => decide (cm.nested = pm.nested)) = none := by
    apply List.find?_eq_none.2
    intro cm hcm
    obtain ⟨h1, h2⟩ := List.mem_filter.1 hcm
    simp only [decide_eq_true_eq] at h2 ⊢
    exact fun h => hdel cm h1 ⟨h2, h⟩
  constructor
  · intro cf hcf hpath
    have hf : cur.find? (fun f => decide (f.path = pm.file)) = some cf := find_file_unique hw hcf hpath
    apply reports_of_run
    rw [runRule_eq (f := rulePackageMessageNoDelete) rfl]
    unfold rulePackageMessageNoDelete
    refine List.mem_flatMap.2 ⟨pm, hpm, ?_⟩
    simp only [hpkg, if_true, hnone, hf]
    cases enclosingIn ((allMsgs cur).filter fun cm => decide (cm.pkg = pm.pkg)) pm.nested <;>
      exact List.mem_cons_self
  · intro hgone
    have hf : cur.find? (fun f => decide (f.path = pm.file)) = none := by
      apply List.find?_eq_none.2
      intro f hf; simpa using hgone f hf
    apply reports_of_run
    rw [runRule_eq (f := rulePackageMessageNoDelete) rfl]
    unfold rulePackageMessageNoDelete
    refine List.mem_flatMap.2 ⟨pm, hpm, ?_⟩
    simp only [hpkg, if_true, hnone, hf]
    exact List.mem_cons_self

/-- closed ↔ open enum (ENUM_SAME_TYPE): located at the enum_type feature if written, else the enum -/
theorem detects_enum_closedness_change (hw : WF cur) {pe ce : FlatEnum}
    (hpe : pe ∈ allEnums prev) (hce : ce ∈ allEnums cur) (hname : ce.fullName = pe.fullName)
    (hne : pe.enum.closed ≠ ce.enum.closed) :
    Reports "ENUM_SAME_TYPE" (annOpt "ENUM_SAME_TYPE" ce.file ce.locs (optLoc ce.locs (ce.path ++ [3]) 7 [2]) [ce.path] ce.file) cur prev := by
  apply reports_of_run
  rw [runRule_eq (f := ruleEnumSameType) rfl]
  unfold ruleEnumSameType
  apply mem_enumPairs hw hpe hce hname
  simp [hne]

/-- ENUM_SAME_JSON_FORMAT: an enum stops allowing the legacy JSON format — located at the
    `features.json_format` option if written, else the enum -/
theorem detects_enum_json_format_change (hw : WF cur) {pe ce : FlatEnum}
    (hpe : pe ∈ allEnums prev) (hce : ce ∈ allEnums cur) (hname : ce.fullName = pe.fullName)
    (hp : pe.enum.jsonAllow = true) (hc : ce.enum.jsonAllow = false) :
    Reports "ENUM_SAME_JSON_FORMAT"
      (annOpt "ENUM_SAME_JSON_FORMAT" ce.file ce.locs (optLoc ce.locs (ce.path ++ [3]) 7 [6]) [ce.path] ce.file)
      cur prev := by
  apply reports_of_run
  rw [runRule_eq (f := ruleEnumSameJsonFormat) rfl]
  unfold ruleEnumSameJsonFormat
  apply mem_enumPairs hw hpe hce hname
  simp [hp, hc]

/-- ENUM_VALUE_SAME_NAME: the number of a previous value still exists, but that value's name is no
    longer one of the number's names (rename, or removal of an alias) — located at the number of
    every current value with that number -/
theorem detects_enum_value_rename (hw : WF cur) {pe ce : FlatEnum} {pv : EnumValue} {jw : Nat × EnumValue}
    (hpe : pe ∈ allEnums prev) (hce : ce ∈ allEnums cur) (hname : ce.fullName = pe.fullName)
    (hpv : pv ∈ pe.enum.values) (hjw : jw ∈ indexed ce.enum.values) (hnum : jw.2.number = pv.number)
    (hren : ∀ cv ∈ ce.enum.values, cv.number = pv.number → cv.name ≠ pv.name) :
    Reports "ENUM_VALUE_SAME_NAME"
      (annAt "ENUM_VALUE_SAME_NAME" ce.file ce.locs [ce.path ++ [2, jw.1, 2]] ce.file) cur prev := by
  apply reports_of_run
  rw [runRule_eq (f := ruleEnumValueSameName) rfl]
  unfold ruleEnumValueSameName
  apply mem_enumPairs hw hpe hce hname
  refine List.mem_flatMap.2 ⟨pv, hpv, ?_⟩
  have hall : ((pe.enum.values.filter fun w => decide (w.number = pv.number)).map (·.name)).all
      (fun n => decide (n ∈ (ce.enum.values.filter fun w => decide (w.number = pv.number)).map (·.name))) = false := by
    apply Bool.eq_false_iff.2
    intro h
    have := List.all_eq_true.1 h pv.name (List.mem_map.2 ⟨pv, List.mem_filter.2 ⟨hpv, by simp⟩, rfl⟩)
    simp only [decide_eq_true_eq] at this
    obtain ⟨cv, hcv, hn⟩ := List.mem_map.1 this
    obtain ⟨h1, h2⟩ := List.mem_filter.1 hcv
    exact hren cv h1 (by simpa using h2) hn
  simp only [hall]
  exact List.mem_map.2 ⟨jw, List.mem_filter.2 ⟨hjw, by simp [hnum]⟩, rfl⟩

/-- RESERVED_ENUM_NO_DELETE: a reserved name of the enum is no longer reserved -/
theorem detects_enum_reserved_name_delete (hw : WF cur) {pe ce : FlatEnum} {n : Name}
    (hpe : pe ∈ allEnums prev) (hce : ce ∈ allEnums cur) (hname : ce.fullName = pe.fullName)
    (hn : n ∈ pe.enum.reservedNames) (hdel : n ∉ ce.enum.reservedNames) :
    Reports "RESERVED_ENUM_NO_DELETE" (enumLoc ce "RESERVED_ENUM_NO_DELETE") cur prev := by
  apply reports_of_run
  rw [runRule_eq (f := ruleReservedEnumNoDelete) rfl]
  unfold ruleReservedEnumNoDelete
  apply mem_enumPairs hw hpe hce hname
  apply List.mem_append_right
  refine List.mem_flatMap.2 ⟨n, hn, ?_⟩
  simp [hdel]

/-- RESERVED_ENUM_NO_DELETE: some number `k` of a previously reserved range is in no current
    reserved range -/
theorem detects_enum_reserved_range_delete (hw : WF cur) {pe ce : FlatEnum} {r : Range} {k : Int}
    (hpe : pe ∈ allEnums prev) (hce : ce ∈ allEnums cur) (hname : ce.fullName = pe.fullName)
    (hr : r ∈ pe.enum.reservedRanges) (hk1 : r.1 ≤ k) (hk2 : k ≤ r.2)
    (hdel : ∀ q ∈ ce.enum.reservedRanges, ¬ (q.1 ≤ k ∧ k ≤ q.2)) :
    Reports "RESERVED_ENUM_NO_DELETE" (enumLoc ce "RESERVED_ENUM_NO_DELETE") cur prev := by
  apply reports_of_run
  rw [runRule_eq (f := ruleReservedEnumNoDelete) rfl]
  unfold ruleReservedEnumNoDelete
  apply mem_enumPairs hw hpe hce hname
  apply List.mem_append_left
  refine List.mem_flatMap.2 ⟨r, hr, ?_⟩
  simp [rangeMissing_of_uncovered _ r k hk1 hk2 hdel]

/-- deleting a required field (MESSAGE_SAME_REQUIRED_FIELDS): located at the current message -/
theorem detects_required_field_delete (hw : WF cur) {pm cm : FlatMsg} {pf : Field}
    (hpm : pm ∈ allMsgs prev) (hcm : cm ∈ allMsgs cur) (hname : cm.fullName = pm.fullName)
    (hpf : pf ∈ pm.info.fields) (hreq : pf.label = .required)
    (hdel : ∀ cf ∈ cm.info.fields, cf.label = .required → cf.number ≠ pf.number) :
    Reports "MESSAGE_SAME_REQUIRED_FIELDS" (msgLoc cm "MESSAGE_SAME_REQUIRED_FIELDS") cur prev := by
  apply reports_of_run
  rw [runRule_eq (f := ruleMessageSameRequiredFields) rfl]
  unfold ruleMessageSameRequiredFields
  apply mem_msgPairs hw hpm hcm hname
  apply List.mem_append_left
  refine List.mem_flatMap.2 ⟨pf.number, ?_, ?_⟩
  · unfold MsgInfo.requiredNumbers
    exact List.mem_map.2 ⟨pf, List.mem_filter.2 ⟨hpf, by simp [hreq]⟩, rfl⟩
  · have : pf.number ∉ cm.info.requiredNumbers := by
      unfold MsgInfo.requiredNumbers
      intro h
      obtain ⟨cf, hcf, hn⟩ := List.mem_map.1 h
      obtain ⟨h1, h2⟩ := List.mem_filter.1 hcf
      exact hdel cf h1 (by simpa using h2) hn
    simp [this]

/-- adding a required field: located at the new field -/
theorem detects_required_field_add (hw : WF cur) {pm cm : FlatMsg} {jf : Nat × Field}
    (hpm : pm ∈ allMsgs prev) (hcm : cm ∈ allMsgs cur) (hname : cm.fullName = pm.fullName)
    (hjf : jf ∈ indexed cm.info.fields) (hreq : jf.2.label = .required)
    (hnew : ∀ pf ∈ pm.info.fields, pf.label = .required → pf.number ≠ jf.2.number) :
    Reports "MESSAGE_SAME_REQUIRED_FIELDS" (annAt "MESSAGE_SAME_REQUIRED_FIELDS" cm.file cm.locs ([cm.path ++ [2, jf.1]] ++ cm.mapLoc.toList) cm.file) cur prev := by
  apply reports_of_run
  rw [runRule_eq (f := ruleMessageSameRequiredFields) rfl]
  unfold ruleMessageSameRequiredFields
  apply mem_msgPairs hw hpm hcm hname
  apply List.mem_append_right
  refine List.mem_flatMap.2 ⟨jf, hjf, ?_⟩
  have : jf.2.number ∉ pm.info.requiredNumbers := by
    unfold MsgInfo.requiredNumbers
    intro h
    obtain ⟨pf, hpf, hn⟩ := List.mem_map.1 h
    obtain ⟨h1, h2⟩ := List.mem_filter.1 hpf
    exact hnew pf h1 (by simpa using h2) hn
  simp [hreq, this]

/-- RESERVED_MESSAGE_NO_DELETE: a reserved name of the message is no longer reserved -/
theorem detects_message_reserved_name_delete (hw : WF cur) {pm cm : FlatMsg} {n : Name}
    (hpm : pm ∈ allMsgs prev) (hcm : cm ∈ allMsgs cur) (hname : cm.fullName = pm.fullName)
    (hn : n ∈ pm.info.reservedNames) (hdel : n ∉ cm.info.reservedNames) :
    Reports "RESERVED_MESSAGE_NO_DELETE" (msgLoc cm "RESERVED_MESSAGE_NO_DELETE") cur prev := by
  apply reports_of_run
  rw [runRule_eq (f := ruleReservedMessageNoDelete) rfl]
  unfold ruleReservedMessageNoDelete
  apply mem_msgPairs hw hpm hcm hname
  apply List.mem_append_right
  refine List.mem_flatMap.2 ⟨n, hn, ?_⟩
  simp [hdel]

/-- RESERVED_MESSAGE_NO_DELETE: some number `k` of a previously reserved range is in no current
    reserved range -/
theorem detects_message_reserved_range_delete (hw : WF cur) {pm cm : FlatMsg} {r : Range} {k : Int}
    (hpm : pm ∈ allMsgs prev) (hcm : cm ∈ allMsgs cur) (hname : cm.fullName = pm.fullName)
    (hr : r ∈ pm.info.reservedRanges) (hk1 : r.1 ≤ k) (hk2 : k ≤ r.2)
    (hdel : ∀ q ∈ cm.info.reservedRanges, ¬ (q.1 ≤ k ∧ k ≤ q.2)) :
    Reports "RESERVED_MESSAGE_NO_DELETE" (msgLoc cm "RESERVED_MESSAGE_NO_DELETE") cur prev := by
  apply reports_of_run
  rw [runRule_eq (f := ruleReservedMessageNoDelete) rfl]
  unfold ruleReservedMessageNoDelete
  apply mem_msgPairs hw hpm hcm hname
  apply List.mem_append_left
  refine List.mem_flatMap.2 ⟨r, hr, ?_⟩
  simp [rangeMissing_of_uncovered _ r k hk1 hk2 hdel]

/-- EXTENSION_MESSAGE_NO_DELETE: some number `k` of a previous extension range is in no current one -/
theorem detects_extension_range_delete (hw : WF cur) {pm cm : FlatMsg} {r : Range} {k : Int}
    (hpm : pm ∈ allMsgs prev) (hcm : cm ∈ allMsgs cur) (hname : cm.fullName = pm.fullName)
    (hr : r ∈ pm.info.extRanges) (hk1 : r.1 ≤ k) (hk2 : k ≤ r.2)
    (hdel : ∀ q ∈ cm.info.extRanges, ¬ (q.1 ≤ k ∧ k ≤ q.2)) :
    Reports "EXTENSION_MESSAGE_NO_DELETE" (msgLoc cm "EXTENSION_MESSAGE_NO_DELETE") cur prev := by
  apply reports_of_run
  rw [runRule_eq (f := ruleExtensionMessageNoDelete) rfl]
  unfold ruleExtensionMessageNoDelete
  apply mem_msgPairs hw hpm hcm hname
  refine List.mem_flatMap.2 ⟨r, hr, ?_⟩
  simp [rangeMissing_of_uncovered _ r k hk1 hk2 hdel]

/-- MESSAGE_SAME_JSON_FORMAT: a message stops allowing the legacy JSON format — located at the
    `features.json_format` option if written, else the message -/
theorem detects_message_json_format_change (hw : WF cur) {pm cm : FlatMsg}
    (hpm : pm ∈ allMsgs prev) (hcm : cm ∈ allMsgs cur) (hname : cm.fullName = pm.fullName)
    (hp : pm.info.jsonAllow = true) (hc : cm.info.jsonAllow = false) :
    Reports "MESSAGE_SAME_JSON_FORMAT"
      (annOpt "MESSAGE_SAME_JSON_FORMAT" cm.file cm.locs (optLoc cm.locs (cm.path ++ [7]) 12 [6])
        ([cm.path] ++ cm.mapLoc.toList) cm.file) cur prev := by
  apply reports_of_run
  rw [runRule_eq (f := ruleMessageSameJsonFormat) rfl]
  unfold ruleMessageSameJsonFormat
  apply mem_msgPairs hw hpm hcm hname
  simp [hp, hc]

/-- MESSAGE_NO_REMOVE_STANDARD_DESCRIPTOR_ACCESSOR: `no_standard_descriptor_accessor` switched on —
    located at that option -/
theorem detects_message_std_accessor_removal (hw : WF cur) {pm cm : FlatMsg}
    (hpm : pm ∈ allMsgs prev) (hcm : cm ∈ allMsgs cur) (hname : cm.fullName = pm.fullName)
    (hp : pm.info.noStdAccessor = false) (hc : cm.info.noStdAccessor = true) :
    Reports "MESSAGE_NO_REMOVE_STANDARD_DESCRIPTOR_ACCESSOR"
      (annAt "MESSAGE_NO_REMOVE_STANDARD_DESCRIPTOR_ACCESSOR" cm.file cm.locs [cm.path ++ [7, 2]] cm.file)
      cur prev := by
  apply reports_of_run
  rw [runRule_eq (f := ruleMessageNoRemoveStdAccessor) rfl]
  unfold ruleMessageNoRemoveStdAccessor
  apply mem_msgPairs hw hpm hcm hname
  simp [hp, hc]

/-! ### changes of a field that keeps its number in a message that keeps its name — or of an
    extension that keeps its extendee and number (`FieldPaired`, both halves of the field pair handler) -/

/-- integer, bool and enum defaults (`DefVal.num`: the exact value as canonical text) are equal
    exactly when the values are: no rounding (field_default.go compares them as big.Float with 64
    bits of mantissa, `SetInt64` / `SetUint64`) -/
theorem defaultsEqual_num (a b : String) (za zb : Bool) :
    defaultsEqual (.num a za) (.num b zb) = decide (a = b) := by
  unfold defaultsEqual
  simp only [DefVal.nan, DefVal.rat]
  rfl

example : defaultsEqual (.num "9007199254740993/1" false) (.num "9007199254740992/1" false) = false := by decide
example : defaultsEqual (.num "18446744073709551615/1" false) (.num "18446744073709551614/1" false) = false := by decide
example : defaultsEqual (.num "-9223372036854775807/1" false) (.num "-9223372036854775808/1" false) = false := by decide
/-- string defaults: exact, case-sensitive -/
example : defaultsEqual (.str "616263") (.str "414243") = false := by decide


section field
variable (hw : WF cur) {pf cf : FlatField} (hp : FieldPaired cur prev cf pf)
include hw hp

/-- FIELD_SAME_TYPE: the resolved kind changed — located at the current field's type (name) -/
theorem detects_type_change (hk : pf.field.kind ≠ cf.field.kind) :
    Reports "FIELD_SAME_TYPE" (changedTypeAnn "FIELD_SAME_TYPE" cf) cur prev := by
  apply reports_of_run
  rw [runRule_eq (f := ruleFieldSameType) rfl]
  unfold ruleFieldSameType
  apply mem_fieldPairs_paired hw hp
  simp [hk]

/-- FIELD_SAME_TYPE: same kind, message / enum / group type name changed -/
theorem detects_type_name_change (hk : pf.field.kind = cf.field.kind) (hn : cf.field.ty.named = true)
    (ht : pf.field.typeName ≠ cf.field.typeName) :
    Reports "FIELD_SAME_TYPE" (changedTypeNameAnn "FIELD_SAME_TYPE" cf) cur prev := by
  apply reports_of_run
  rw [runRule_eq (f := ruleFieldSameType) rfl]
  unfold ruleFieldSameType
  apply mem_fieldPairs_paired hw hp
  simp [hk, hn, ht]

/-- FIELD_WIRE_COMPATIBLE_TYPE: the kinds are in different wire groups (regenerated table) and the
    change is not string → bytes -/
theorem detects_wire_type_change (hg : pf.field.kind.wireGroup ≠ cf.field.kind.wireGroup)
    (hsb : ¬ (pf.field.kind = .string ∧ cf.field.kind = .bytes)) :
    Reports "FIELD_WIRE_COMPATIBLE_TYPE" (changedTypeAnn "FIELD_WIRE_COMPATIBLE_TYPE" cf) cur prev := by
  apply reports_of_run
  rw [runRule_eq (f := ruleFieldWireCompatibleType) rfl]
  unfold ruleFieldWireCompatibleType
  apply mem_fieldPairs_paired hw hp
  rw [if_pos hg, if_neg hsb]
  exact List.mem_cons_self

/-- FIELD_WIRE_JSON_COMPATIBLE_TYPE: the kinds are in different wire+JSON groups -/
theorem detects_wire_json_type_change (hg : pf.field.kind.wireJsonGroup ≠ cf.field.kind.wireJsonGroup) :
    Reports "FIELD_WIRE_JSON_COMPATIBLE_TYPE" (changedTypeAnn "FIELD_WIRE_JSON_COMPATIBLE_TYPE" cf) cur prev := by
  apply reports_of_run
  rw [runRule_eq (f := ruleFieldWireJsonCompatibleType) rfl]
  unfold ruleFieldWireJsonCompatibleType
  apply mem_fieldPairs_paired hw hp
  rw [if_pos hg]
  exact List.mem_cons_self

/-- FIELD_WIRE_COMPATIBLE_TYPE, type-NAME branch: the kinds are in the same wire group, the current
    field is DECLARED (`FieldDescriptorProto.type`) as a group or a message — a proto2 `group`, or a
    message field of any syntax whether length-prefixed or DELIMITED by an editions feature — and the
    message type name changed: located at the current field's type name -/
theorem detects_wire_message_type_name_change (hg : pf.field.kind.wireGroup = cf.field.kind.wireGroup)
    (hty : cf.field.ty = .group ∨ cf.field.ty = .message) (ht : pf.field.typeName ≠ cf.field.typeName) :
    Reports "FIELD_WIRE_COMPATIBLE_TYPE" (changedTypeNameAnn "FIELD_WIRE_COMPATIBLE_TYPE" cf) cur prev := by
  apply reports_of_run
  rw [runRule_eq (f := ruleFieldWireCompatibleType) rfl]
  unfold ruleFieldWireCompatibleType
  apply mem_fieldPairs_paired hw hp
  rcases hty with h | h <;> simp [hg, h, ht]

/-- FIELD_WIRE_JSON_COMPATIBLE_TYPE, type-NAME branch: same wire+JSON group, the RESOLVED kind of the
    current field (`protoreflect Kind()`: group for proto2 groups and for delimited editions fields,
    message otherwise) is group or message and the type name changed -/
theorem detects_wire_json_message_type_name_change
    (hg : pf.field.kind.wireJsonGroup = cf.field.kind.wireJsonGroup)
    (hk : cf.field.kind = .group ∨ cf.field.kind = .message) (ht : pf.field.typeName ≠ cf.field.typeName) :
    Reports "FIELD_WIRE_JSON_COMPATIBLE_TYPE" (changedTypeNameAnn "FIELD_WIRE_JSON_COMPATIBLE_TYPE" cf) cur prev := by
  apply reports_of_run
  rw [runRule_eq (f := ruleFieldWireJsonCompatibleType) rfl]
  unfold ruleFieldWireJsonCompatibleType
  apply mem_fieldPairs_paired hw hp
  rcases hk with h | h <;> simp [hg, h, ht]

/-- A field that is GROUP / DELIMITED encoded on BOTH sides (resolved kind = group: a proto2 `group`,
    declared type group; or an editions message field with `features.message_encoding = DELIMITED`
    set on the field or inherited from the file, declared type message) whose message type name
    changes — number and encoding unchanged — is reported by all three type rules, each at the
    current field's type name. -/
theorem detects_group_encoded_type_name_change (hpk : pf.field.kind = .group) (hck : cf.field.kind = .group)
    (hty : cf.field.ty = .group ∨ cf.field.ty = .message) (ht : pf.field.typeName ≠ cf.field.typeName) :
    Reports "FIELD_SAME_TYPE" (changedTypeNameAnn "FIELD_SAME_TYPE" cf) cur prev ∧
    Reports "FIELD_WIRE_JSON_COMPATIBLE_TYPE" (changedTypeNameAnn "FIELD_WIRE_JSON_COMPATIBLE_TYPE" cf) cur prev ∧
    Reports "FIELD_WIRE_COMPATIBLE_TYPE" (changedTypeNameAnn "FIELD_WIRE_COMPATIBLE_TYPE" cf) cur prev := by
  refine ⟨?_, ?_, ?_⟩
  · exact detects_type_name_change hw hp (by rw [hpk, hck]) (by rcases hty with h | h <;> simp [h, Kind.named]) ht
  · exact detects_wire_json_message_type_name_change hw hp (by rw [hpk, hck]) (Or.inl hck) ht
  · exact detects_wire_message_type_name_change hw hp (by rw [hpk, hck]) hty ht

/-- delimited ↔ length-prefixed flip of a message field (declared type message on both sides, resolved
    kind message vs group): the three type rules report a changed type, located at the type name
    (`changedTypeAnn` of a named kind).  The wire groups of `message` and `group` differ in the
    regenerated tables (`decide`). -/
theorem detects_message_encoding_flip
    (hflip : (pf.field.kind = .message ∧ cf.field.kind = .group) ∨ (pf.field.kind = .group ∧ cf.field.kind = .message)) :
    Reports "FIELD_SAME_TYPE" (changedTypeAnn "FIELD_SAME_TYPE" cf) cur prev ∧
    Reports "FIELD_WIRE_JSON_COMPATIBLE_TYPE" (changedTypeAnn "FIELD_WIRE_JSON_COMPATIBLE_TYPE" cf) cur prev ∧
    Reports "FIELD_WIRE_COMPATIBLE_TYPE" (changedTypeAnn "FIELD_WIRE_COMPATIBLE_TYPE" cf) cur prev := by
  refine ⟨?_, ?_, ?_⟩
  · exact detects_type_change hw hp (by rcases hflip with ⟨a, b⟩ | ⟨a, b⟩ <;> simp [a, b])
  · exact detects_wire_json_type_change hw hp (by rcases hflip with ⟨a, b⟩ | ⟨a, b⟩ <;> rw [a, b] <;> decide)
  · exact detects_wire_type_change hw hp (by rcases hflip with ⟨a, b⟩ | ⟨a, b⟩ <;> rw [a, b] <;> decide)
      (by rcases hflip with ⟨a, b⟩ | ⟨a, b⟩ <;> simp [a, b])

/-- cardinality (FIELD_SAME_CARDINALITY and, with the regenerated group tables, the WIRE_JSON / WIRE
    variants): located at the current field -/
theorem detects_cardinality_change (hm : ¬ (pf.field.inMapEntry = true ∧ cf.field.inMapEntry = true))
    (hc : pf.field.card ≠ cf.field.card) :
    Reports "FIELD_SAME_CARDINALITY" (fieldAnn "FIELD_SAME_CARDINALITY" cf [cf.path]) cur prev := by
  apply reports_of_run
  rw [runRule_eq (f := cardRule "FIELD_SAME_CARDINALITY" (fun c => c.ctorIdx)) rfl]
  unfold cardRule
  apply mem_fieldPairs_paired hw hp
  have h1 : (pf.field.inMapEntry && cf.field.inMapEntry) = false := by
    apply Bool.eq_false_iff.2; intro h; exact hm (by simpa using h)
  have h2 : pf.field.card.ctorIdx ≠ cf.field.card.ctorIdx := by
    intro h; apply hc
    generalize pf.field.card = a at h ⊢
    generalize cf.field.card = b at h ⊢
    cases a <;> cases b <;> first | rfl | cases h
  simp [h1, h2]

theorem detects_wire_json_cardinality_change (hm : ¬ (pf.field.inMapEntry = true ∧ cf.field.inMapEntry = true))
    (hc : pf.field.card.wireJsonGroup ≠ cf.field.card.wireJsonGroup) :
    Reports "FIELD_WIRE_JSON_COMPATIBLE_CARDINALITY" (fieldAnn "FIELD_WIRE_JSON_COMPATIBLE_CARDINALITY" cf [cf.path]) cur prev := by
  apply reports_of_run
  rw [runRule_eq (f := cardRule "FIELD_WIRE_JSON_COMPATIBLE_CARDINALITY" Card.wireJsonGroup) rfl]
  unfold cardRule
  apply mem_fieldPairs_paired hw hp
  have h1 : (pf.field.inMapEntry && cf.field.inMapEntry) = false := by
    apply Bool.eq_false_iff.2; intro h; exact hm (by simpa using h)
  simp [h1, hc]

theorem detects_wire_cardinality_change (hm : ¬ (pf.field.inMapEntry = true ∧ cf.field.inMapEntry = true))
    (hc : pf.field.card.wireGroup ≠ cf.field.card.wireGroup) :
    Reports "FIELD_WIRE_COMPATIBLE_CARDINALITY" (fieldAnn "FIELD_WIRE_COMPATIBLE_CARDINALITY" cf [cf.path]) cur prev := by
  apply reports_of_run
  rw [runRule_eq (f := cardRule "FIELD_WIRE_COMPATIBLE_CARDINALITY" Card.wireGroup) rfl]
  unfold cardRule
  apply mem_fieldPairs_paired hw hp
  have h1 : (pf.field.inMapEntry && cf.field.inMapEntry) = false := by
    apply Bool.eq_false_iff.2; intro h; exact hm (by simpa using h)
  simp [h1, hc]

/-- renaming a field: located at the current field's name -/
theorem detects_name_change (hx : pf.field.extendee = "") (hn : pf.field.name ≠ cf.field.name) :
    Reports "FIELD_SAME_NAME" (fieldAnn "FIELD_SAME_NAME" cf [cf.path ++ [1]]) cur prev := by
  apply reports_of_run
  rw [runRule_eq (f := ruleFieldSameName) rfl]
  unfold ruleFieldSameName
  apply mem_fieldPairs_paired hw hp
  simp [hx, hn]

/-- renaming an extension (the fully-qualified name counts): located at the current extension's name -/
theorem detects_extension_name_change (hx : pf.field.extendee ≠ "") (hn : pf.field.fullName ≠ cf.field.fullName) :
    Reports "FIELD_SAME_NAME" (fieldAnn "FIELD_SAME_NAME" cf [cf.path ++ [1]]) cur prev := by
  apply reports_of_run
  rw [runRule_eq (f := ruleFieldSameName) rfl]
  unfold ruleFieldSameName
  apply mem_fieldPairs_paired hw hp
  simp [hx, hn]

/-- changing the JSON name: located at the json_name option if written, else at the field -/
theorem detects_json_name_change (hx : pf.field.extendee = "") (hn : pf.field.jsonName ≠ cf.field.jsonName) :
    Reports "FIELD_SAME_JSON_NAME" (fieldAnn "FIELD_SAME_JSON_NAME" cf [cf.path ++ [10], cf.path]) cur prev := by
  apply reports_of_run
  rw [runRule_eq (f := ruleFieldSameJsonName) rfl]
  unfold ruleFieldSameJsonName
  apply mem_fieldPairs_paired hw hp
  simp [hx, hn]

/-- moving a field into / out of / between (non-synthetic) oneofs: located at the current field -/
theorem detects_oneof_change (hx : pf.field.extendee = "") (ho : pf.field.realOneof ≠ cf.field.realOneof) :
    Reports "FIELD_SAME_ONEOF" (fieldAnn "FIELD_SAME_ONEOF" cf [cf.path]) cur prev := by
  apply reports_of_run
  rw [runRule_eq (f := ruleFieldSameOneof) rfl]
  unfold ruleFieldSameOneof
  apply mem_fieldPairs_paired hw hp
  simp only [hx]
  cases h1 : pf.field.realOneof <;> cases h2 : cf.field.realOneof <;> simp_all

/-- changing a default value: located at the default if written, else at the field -/
theorem detects_default_change (h1 : pf.field.canHaveDefault = true) (h2 : cf.field.canHaveDefault = true)
    (hz : ¬ (pf.field.dflt.isZero = true ∧ cf.field.dflt.isZero = true))
    (hd : defaultsEqual pf.field.dflt cf.field.dflt = false) :
    Reports "FIELD_SAME_DEFAULT" (fieldAnn "FIELD_SAME_DEFAULT" cf [cf.path ++ [7], cf.path]) cur prev := by
  apply reports_of_run
  rw [runRule_eq (f := ruleFieldSameDefault) rfl]
  unfold ruleFieldSameDefault
  apply mem_fieldPairs_paired hw hp
  have hz' : (pf.field.dflt.isZero && cf.field.dflt.isZero) = false := by
    apply Bool.eq_false_iff.2; intro h; exact hz (by simpa using h)
  simp [h1, h2, hz', hd]

/-- A changed default of an integer (also bool / enum) field is reported HOWEVER CLOSE the two
    values are — 2^53+1 → 2^53, MaxUint64 → MaxUint64-1, MinInt64+1 → MinInt64: the comparison is
    exact, not through float64. -/
theorem detects_integer_default_change (h1 : pf.field.canHaveDefault = true) (h2 : cf.field.canHaveDefault = true)
    {a b : String} {za zb : Bool} (hpd : pf.field.dflt = .num a za) (hcd : cf.field.dflt = .num b zb)
    (hne : a ≠ b) (hz : ¬ (za = true ∧ zb = true)) :
    Reports "FIELD_SAME_DEFAULT" (fieldAnn "FIELD_SAME_DEFAULT" cf [cf.path ++ [7], cf.path]) cur prev :=
  detects_default_change hw hp h1 h2 (by rw [hpd, hcd]; exact hz)
    (by rw [hpd, hcd, defaultsEqual_num]; exact decide_eq_false hne)
/-- FIELD_SAME_JSTYPE: `jstype` of a 64-bit integer field changed — located at the option if
    written, else the field -/
theorem detects_jstype_change (hp64 : pf.field.ty.is64 = true) (hc64 : cf.field.ty.is64 = true)
    (hne : pf.field.jstype ≠ cf.field.jstype) :
    Reports "FIELD_SAME_JSTYPE" (fieldAnn "FIELD_SAME_JSTYPE" cf [cf.path ++ [8, 6], cf.path]) cur prev := by
  apply reports_of_run
  rw [runRule_eq (f := ruleFieldSameJstype) rfl]
  unfold ruleFieldSameJstype
  apply mem_fieldPairs_paired hw hp
  simp [hp64, hc64, hne]

/-- FIELD_SAME_UTF8_VALIDATION: resolved `features.utf8_validation` of a string field changed —
    located at the feature if written, else the field -/
theorem detects_utf8_validation_change (hps : pf.field.kind = .string) (hcs : cf.field.kind = .string)
    (hne : pf.field.utf8 ≠ cf.field.utf8) :
    Reports "FIELD_SAME_UTF8_VALIDATION"
      (annOpt "FIELD_SAME_UTF8_VALIDATION" cf.file cf.locs (optLoc cf.locs (cf.path ++ [8]) 21 [4])
        ([cf.path] ++ cf.mapLoc.toList) cf.file) cur prev := by
  apply reports_of_run
  rw [runRule_eq (f := ruleFieldSameUtf8Validation) rfl]
  unfold ruleFieldSameUtf8Validation
  apply mem_fieldPairs_paired hw hp
  simp [hps, hcs, hne]

end field

/-! ### RPC changes -/

section rpc
variable (hw : WF cur) {ps cs : FlatSvc} {pm cm : FlatMethod}
  (hps : ps ∈ allSvcs prev) (hcs : cs ∈ allSvcs cur) (hname : cs.fullName = ps.fullName)
  (hpm : pm ∈ svcMethods ps) (hcm : cm ∈ svcMethods cs) (hn : cm.m.name = pm.m.name)
include hw hps hcs hname hpm hcm hn

/-- any of: request type [2], response type [3], client / server streaming (the method),
    idempotency level [4,34] -/
theorem detects_rpc_change {β : Type} [DecidableEq β] (rule : String) (get : Method → β) (sub : List Nat)
    (htab : ruleTable.lookup rule = some (methodSame rule get sub))
    (hne : get pm.m ≠ get cm.m) :
    Reports rule (annAt rule cm.file cm.locs [cm.path ++ sub] cm.file) cur prev := by
  apply reports_of_run
  rw [runRule_eq htab]
  unfold methodSame
  apply mem_methodPairs hw hps hcs hname hpm hcm hn
  simp [hne]

theorem detects_rpc_request_type_change (hne : pm.m.input ≠ cm.m.input) :
    Reports "RPC_SAME_REQUEST_TYPE"
      (annAt "RPC_SAME_REQUEST_TYPE" cm.file cm.locs [cm.path ++ [2]] cm.file) cur prev :=
  detects_rpc_change hw hps hcs hname hpm hcm hn _ _ _ rfl hne

theorem detects_rpc_response_type_change (hne : pm.m.output ≠ cm.m.output) :
    Reports "RPC_SAME_RESPONSE_TYPE"
      (annAt "RPC_SAME_RESPONSE_TYPE" cm.file cm.locs [cm.path ++ [3]] cm.file) cur prev :=
  detects_rpc_change hw hps hcs hname hpm hcm hn _ _ _ rfl hne

theorem detects_rpc_client_streaming_change (hne : pm.m.clientStreaming ≠ cm.m.clientStreaming) :
    Reports "RPC_SAME_CLIENT_STREAMING"
      (annAt "RPC_SAME_CLIENT_STREAMING" cm.file cm.locs [cm.path ++ []] cm.file) cur prev :=
  detects_rpc_change hw hps hcs hname hpm hcm hn _ _ _ rfl hne

theorem detects_rpc_server_streaming_change (hne : pm.m.serverStreaming ≠ cm.m.serverStreaming) :
    Reports "RPC_SAME_SERVER_STREAMING"
      (annAt "RPC_SAME_SERVER_STREAMING" cm.file cm.locs [cm.path ++ []] cm.file) cur prev :=
  detects_rpc_change hw hps hcs hname hpm hcm hn _ _ _ rfl hne

theorem detects_rpc_idempotency_change (hne : pm.m.idempotency ≠ cm.m.idempotency) :
    Reports "RPC_SAME_IDEMPOTENCY_LEVEL"
      (annAt "RPC_SAME_IDEMPOTENCY_LEVEL" cm.file cm.locs [cm.path ++ [4, 34]] cm.file) cur prev :=
  detects_rpc_change hw hps hcs hname hpm hcm hn _ _ _ rfl hne

end rpc

/-! ### file changes -/

section file
variable (hw : WF cur) {pf cf : File} (hpf : pf ∈ prev) (hcf : cf ∈ cur) (hpath : cf.path = pf.path)
include hw hpf hcf hpath

theorem detects_file_package_change (hne : pf.pkg ≠ cf.pkg) :
    Reports "FILE_SAME_PACKAGE" (annAt "FILE_SAME_PACKAGE" cf.path cf.locs [[2]] cf.path) cur prev := by
  apply reports_of_run
  rw [runRule_eq (f := ruleFileSamePackage) rfl]
  unfold ruleFileSamePackage fileSame
  apply mem_filePairs hw hpf hcf hpath
  simp [hne]

theorem detects_file_syntax_change (hne : pf.syn.norm ≠ cf.syn.norm) :
    Reports "FILE_SAME_SYNTAX" (annAt "FILE_SAME_SYNTAX" cf.path cf.locs [[12]] cf.path) cur prev := by
  apply reports_of_run
  rw [runRule_eq (f := ruleFileSameSyntax) rfl]
  unfold ruleFileSameSyntax fileSame
  apply mem_filePairs hw hpf hcf hpath
  simp [hne]

/-- any tracked file option (one parametric rule for the 16 FILE_SAME_<option> ids of
    `fileOptRules`): located at the option if still written -/
theorem detects_file_option_change (rule : String) (n : Nat)
    (hopt : fileOptRules.lookup rule = some n) (hne : pf.opt n ≠ cf.opt n) :
    Reports rule (annAt rule cf.path cf.locs [[8, n]] cf.path) cur prev := by
  apply reports_of_run
  have hnot : ruleTable.lookup rule = none := by
    have := fileOpt_not_in_ruleTable (rule, n) (lookup_some_mem _ _ _ hopt)
    simpa using this
  unfold runRule
  rw [hnot]; simp only; rw [hopt]; simp only
  unfold ruleFileSameOption fileSame
  apply mem_filePairs hw hpf hcf hpath
  simp [hne]

end file

/-! ### "located at it" — what the location terms of the annotations above denote

  DESIGN §6: changed elements → the CURRENT element (its type / type-name / name / option location
  where the rule says so); deleted elements → the nearest surviving enclosing element of the current
  file; deleted files → no location.  Every theorem here is independent of the rule handlers: it
  interprets the location term (`msgLoc`, `fieldAnn`, `enumLoc`, `svcLoc`, `annAt … cm.path …`,
  `deletedAnn`) that a `detects_*` conclusion exhibits.  `msgAt cf p` walks the descriptor tree of
  the current file along the source path `p` (Lemmas/BreakingLocate.lean). -/

/-- message-level annotations (FIELD_NO_DELETE*, ONEOF_NO_DELETE, MESSAGE_SAME_REQUIRED_FIELDS on a
    deletion, RESERVED_MESSAGE_NO_DELETE, EXTENSION_MESSAGE_NO_DELETE): the current message `cm`
    belongs to a file `cf` of the CURRENT image, its source path designates in `cf`'s descriptor
    tree a message with exactly `cm`'s content, and `msgLoc cm rule` is ⟨rule, cf.path, that path⟩
    whenever the path has a source location (file-only if it has none and `cm` is not a synthetic
    map entry). -/
theorem located_message {cm : FlatMsg} (hcm : cm ∈ allMsgs cur) :
    ∃ cf ∈ cur, cm ∈ cf.flatMsgs ∧ cm.file = cf.path ∧ cm.locs = cf.locs ∧
      (∃ n, msgAt cf cm.path = some n ∧ n.info = cm.info) ∧
      (cm.path ∈ cf.locs → ∀ rule, msgLoc cm rule = ⟨rule, cf.path, cm.path⟩) ∧
      (cm.path ∉ cf.locs → cm.mapLoc = none → ∀ rule, msgLoc cm rule = ⟨rule, cf.path, []⟩) := by
  obtain ⟨cf, hcf, hin⟩ := List.mem_flatMap.1 hcm
  obtain ⟨hres, hfile, hlocs⟩ := flatMsgs_path_resolves hin
  refine ⟨cf, hcf, hin, hfile, hlocs, hres, fun hp rule => ?_, fun hp hm rule => ?_⟩
  · unfold msgLoc
    rw [hlocs, hfile, List.singleton_append]
    exact annAt_head _ _ _ _ _ _ hp
  · unfold msgLoc
    rw [hlocs, hfile, hm]
    exact annAt_none _ _ _ _ _ (by simpa using hp)

/-- field-level annotations (type, cardinality, name, JSON name, oneof, default, jstype, required
    field added): the current field `c` of the current message `cm` lives in a file `cf` of the
    current image at `cm.path ++ [2, j]`, `j` being its index among `cm`'s fields; an annotation built
    from candidate paths is located, in `cf`, at the first candidate that has a source location
    (e.g. `c.path ++ [5]` type, `[6]` type name, `[1]` name, `[10]` json_name, `[7]` default — else
    the next candidate, the field itself where the rule lists it). -/
theorem located_field {cm : FlatMsg} {c : FlatField} (hcm : cm ∈ allMsgs cur) (hc : c ∈ msgFields cm) :
    ∃ cf ∈ cur, ∃ j, c.file = cf.path ∧ c.locs = cf.locs ∧ c.path = cm.path ++ [2, j] ∧
      cm.info.fields[j]? = some c.field ∧
      (∀ rule p rest, p ∈ cf.locs → fieldAnn rule c (p :: rest) = ⟨rule, cf.path, p⟩) ∧
      (∀ rule p rest, p ∉ cf.locs → fieldAnn rule c (p :: rest) = fieldAnn rule c rest) ∧
      (∀ rule, c.mapLoc = none → fieldAnn rule c [] = ⟨rule, cf.path, []⟩) := by
  obtain ⟨cf, hcf, _, hfile, hlocs, _, _, _⟩ := located_message hcm
  obtain ⟨j, hp, hj, hf, hl⟩ := msgFields_path hc
  refine ⟨cf, hcf, j, hf.trans hfile, hl.trans hlocs, hp, hj, fun rule p rest h => ?_, fun rule p rest h => ?_,
    fun rule hm => ?_⟩
  · unfold fieldAnn
    rw [hl, hlocs, hf, hfile, List.cons_append]
    exact annAt_head _ _ _ _ _ _ h
  · unfold fieldAnn
    rw [hl, hlocs, List.cons_append]
    exact annAt_skip _ _ _ _ _ _ h
  · unfold fieldAnn
    rw [hm, hf, hfile]
    rfl

/-- enum-level annotations (ENUM_VALUE_NO_DELETE*, RESERVED_ENUM_NO_DELETE, ENUM_SAME_TYPE /
    ENUM_SAME_JSON_FORMAT without a written feature): the current enum `ce` belongs to a file `cf`
    of the current image, at `[5, j]` (the `j`-th enum of the file) or `m.path ++ [4, j]` (the `j`-th
    enum of the current message `m` whose nested name prefixes the enum's); `enumLoc` is that path
    in `cf` when it has a location, else file-only on the fallback file the rule names. -/
theorem located_enum {ce : FlatEnum} (hce : ce ∈ allEnums cur) :
    ∃ cf ∈ cur, ce.file = cf.path ∧ ce.locs = cf.locs ∧
      ((∃ j, ce.path = [5, j] ∧ cf.enums[j]? = some ce.enum ∧ ce.nested = [ce.enum.name]) ∨
       (∃ m ∈ cf.flatMsgs, ∃ j, ce.path = m.path ++ [4, j] ∧ m.info.enums[j]? = some ce.enum ∧
          ce.nested = m.nested ++ [ce.enum.name])) ∧
      (ce.path ∈ cf.locs → ∀ rule fb, enumLoc ce rule fb = ⟨rule, cf.path, ce.path⟩) ∧
      (ce.path ∉ cf.locs → ∀ rule fb, enumLoc ce rule fb = ⟨rule, fb, []⟩) := by
  obtain ⟨cf, hcf, hin⟩ := List.mem_flatMap.1 hce
  obtain ⟨hres, hfile, hlocs⟩ := flatEnums_path hin
  refine ⟨cf, hcf, hfile, hlocs, hres, fun hp rule fb => ?_, fun hp rule fb => ?_⟩
  · unfold enumLoc
    rw [hlocs, hfile]
    exact annAt_head _ _ _ _ _ _ hp
  · unfold enumLoc
    rw [hlocs]
    exact annAt_none _ _ _ _ _ (by simpa using hp)

/-- an enum VALUE annotation (ENUM_VALUE_SAME_NAME) sits at `enum path ++ [2, j, 2]`: the number
    (EnumValueDescriptorProto.number = 2) of the `j`-th value (EnumDescriptorProto.value = 2) -/
theorem located_enum_value {ce : FlatEnum} {jw : Nat × EnumValue} (hjw : jw ∈ indexed ce.enum.values)
    (hloc : ce.path ++ [2, jw.1, 2] ∈ ce.locs) (rule : String) :
    ce.enum.values[jw.1]? = some jw.2 ∧
    annAt rule ce.file ce.locs [ce.path ++ [2, jw.1, 2]] ce.file = ⟨rule, ce.file, ce.path ++ [2, jw.1, 2]⟩ :=
  ⟨indexed_getElem hjw, annAt_head _ _ _ _ _ _ hloc⟩

/-- service-level annotations (RPC_NO_DELETE): `[6, j]`, the `j`-th service of a current file -/
theorem located_service {cs : FlatSvc} (hcs : cs ∈ allSvcs cur) :
    ∃ cf ∈ cur, ∃ j, cs.file = cf.path ∧ cs.locs = cf.locs ∧ cs.path = [6, j] ∧ cf.services[j]? = some cs.svc ∧
      (cs.path ∈ cf.locs → ∀ rule, svcLoc cs rule = ⟨rule, cf.path, cs.path⟩) ∧
      (cs.path ∉ cf.locs → ∀ rule, svcLoc cs rule = ⟨rule, cf.path, []⟩) := by
  obtain ⟨cf, hcf, hin⟩ := List.mem_flatMap.1 hcs
  obtain ⟨j, hp, hj, hfile, hlocs⟩ := flatSvcs_path hin
  refine ⟨cf, hcf, j, hfile, hlocs, hp, hj, fun h rule => ?_, fun h rule => ?_⟩
  · unfold svcLoc
    rw [hlocs, hfile]
    exact annAt_head _ _ _ _ _ _ h
  · unfold svcLoc
    rw [hlocs, hfile]
    exact annAt_none _ _ _ _ _ (by simpa using h)

/-- RPC-level annotations (RPC_SAME_*): the current method is the `j`-th method of the `i`-th service
    of a current file, at `[6, i, 2, j]`; the annotation is at `that path ++ sub` (`[2]` input type,
    `[3]` output type, `[4, 34]` idempotency_level, `[]` the method) when it has a location, else
    file-only -/
theorem located_method {cs : FlatSvc} {c : FlatMethod} (hcs : cs ∈ allSvcs cur) (hc : c ∈ svcMethods cs) :
    ∃ cf ∈ cur, ∃ i j, c.file = cf.path ∧ c.locs = cf.locs ∧ c.path = [6, i, 2, j] ∧
      cf.services[i]? = some cs.svc ∧ cs.svc.methods[j]? = some c.m ∧
      (∀ rule sub, c.path ++ sub ∈ cf.locs →
        annAt rule c.file c.locs [c.path ++ sub] c.file = ⟨rule, cf.path, c.path ++ sub⟩) ∧
      (∀ rule sub, c.path ++ sub ∉ cf.locs →
        annAt rule c.file c.locs [c.path ++ sub] c.file = ⟨rule, cf.path, []⟩) := by
  obtain ⟨cf, hcf, i, hfile, hlocs, hp, hi, _, _⟩ := located_service hcs
  obtain ⟨j, hpj, hj, hf, hl⟩ := svcMethods_path hc
  refine ⟨cf, hcf, i, j, hf.trans hfile, hl.trans hlocs, by rw [hpj, hp]; rfl, hi, hj,
    fun rule sub h => ?_, fun rule sub h => ?_⟩
  · rw [hl, hlocs, hf, hfile]
    exact annAt_head _ _ _ _ _ _ h
  · rw [hl, hlocs, hf, hfile]
    exact annAt_none _ _ _ _ _ (by simpa using h)

/-- file-level annotations (FILE_SAME_PACKAGE `[2]`, FILE_SAME_SYNTAX `[12]`, FILE_SAME_<option>
    `[8, n]`): in the current file, at the statement if it (still) has a location, else file-only -/
theorem located_file_statement (cf : File) (rule : String) (p : SPath) :
    (p ∈ cf.locs → annAt rule cf.path cf.locs [p] cf.path = ⟨rule, cf.path, p⟩) ∧
    (p ∉ cf.locs → annAt rule cf.path cf.locs [p] cf.path = ⟨rule, cf.path, []⟩) :=
  ⟨fun h => annAt_head _ _ _ _ _ _ h, fun h => annAt_none _ _ _ _ _ (by simpa using h)⟩

/-- deleted elements (MESSAGE / ENUM / EXTENSION_NO_DELETE, PACKAGE_ENUM / PACKAGE_EXTENSION_NO_DELETE
    with a surviving file): `deletedAnn rule cf q` for the nested name `q` of the deleted element is
    located in the current file `cf` at the message `m` of `cf` whose nested name is the LONGEST
    proper non-empty prefix of `q` — the nearest surviving enclosing message — and is file-only
    exactly when no enclosing message survives. -/
theorem located_deleted_element (cf : File) (q : QName) (rule : String) :
    (∃ m ∈ cf.flatMsgs, 1 ≤ m.nested.length ∧ m.nested.length < q.length ∧ m.nested = q.take m.nested.length ∧
        (∀ m' ∈ cf.flatMsgs, m'.nested.length < q.length → m'.nested = q.take m'.nested.length →
          m'.nested.length ≤ m.nested.length) ∧
        (m.path ∈ cf.locs → deletedAnn rule cf q = ⟨rule, cf.path, m.path⟩) ∧
        (m.path ∉ cf.locs → m.mapLoc = none → deletedAnn rule cf q = ⟨rule, cf.path, []⟩)) ∨
    ((∀ m' ∈ cf.flatMsgs, 1 ≤ m'.nested.length → m'.nested.length < q.length →
          m'.nested ≠ q.take m'.nested.length) ∧
      deletedAnn rule cf q = ⟨rule, cf.path, []⟩) := by
  cases h : enclosing cf q with
  | some m =>
    obtain ⟨hm, h1, h2, h3, h4⟩ := enclosing_some h
    refine Or.inl ⟨m, hm, h1, h2, h3, h4, fun hp => ?_, fun hp hml => ?_⟩
    · unfold deletedAnn
      rw [h]; simp only [List.singleton_append]
      exact annAt_head _ _ _ _ _ _ hp
    · unfold deletedAnn
      rw [h]; simp only [hml]
      exact annAt_none _ _ _ _ _ (by simpa using hp)
  | none =>
    refine Or.inr ⟨enclosing_none h, ?_⟩
    unfold deletedAnn
    rw [h]

/-- NESTED DELETIONS (the family of harness/cmd/c03/nest.go): the deleted element is named
    `anc ++ mid ++ [x]` — `anc` the dotted name of a message `m` that SURVIVES in the current file
    `cf`, `mid` the `k = mid.length ≥ 0` intermediate ancestors that were deleted together with the
    element (no current message is named `anc ++ mid.take j`, `1 ≤ j ≤ k`).  Then the annotation
    is located at `m` — the CLOSEST SURVIVING ancestor, however many ancestors went (`k` is
    arbitrary) and however many more distant ancestors survive too — never at the file and never
    at a more distant ancestor.  `huniq`: message names are unique in a compiled file (stated on
    the two components the location reads). -/
theorem deleted_element_located_at_closest_surviving_ancestor (cf : File) (rule : String)
    (anc mid : QName) (x : Name) {m : FlatMsg}
    (hm : m ∈ cf.flatMsgs) (hanc : m.nested = anc) (hne : 1 ≤ anc.length)
    (huniq : ∀ m' ∈ cf.flatMsgs, m'.nested = anc → m'.path = m.path ∧ m'.mapLoc = m.mapLoc)
    (hgone : ∀ m' ∈ cf.flatMsgs, ∀ j, 1 ≤ j → j ≤ mid.length → m'.nested ≠ anc ++ mid.take j) :
    (m.path ∈ cf.locs → deletedAnn rule cf (anc ++ mid ++ [x]) = ⟨rule, cf.path, m.path⟩) ∧
    (m.path ∉ cf.locs → m.mapLoc = none → deletedAnn rule cf (anc ++ mid ++ [x]) = ⟨rule, cf.path, []⟩) := by
  have hqlen : (anc ++ mid ++ [x]).length = anc.length + mid.length + 1 := by
    simp only [List.length_append, List.length_cons, List.length_nil]
  have htake : (anc ++ mid ++ [x]).take anc.length = anc := by
    rw [List.append_assoc, List.take_left']
    rfl
  rcases located_deleted_element cf (anc ++ mid ++ [x]) rule with
    ⟨m0, hm0, h1, h2, h3, hmax, hloc, hnoloc⟩ | ⟨hnone, _⟩
  · -- the enclosing message found is at least as long as `anc` (maximality) …
    have hge : anc.length ≤ m0.nested.length := by
      have := hmax m hm (by rw [hanc, hqlen]; omega) (by rw [hanc, htake])
      rw [hanc] at this
      exact this
    -- … and not longer: a longer one would be one of the deleted intermediate ancestors
    have hle : m0.nested.length ≤ anc.length := by
      apply Nat.le_of_not_lt
      intro hlt
      have hk : m0.nested.length - anc.length ≤ mid.length := by rw [hqlen] at h2; omega
      have e1 : (anc ++ mid ++ [x]).take m0.nested.length
          = anc ++ mid.take (m0.nested.length - anc.length) := by
        rw [List.append_assoc, List.take_append, List.take_of_length_le (Nat.le_of_lt hlt),
          List.take_append, Nat.sub_eq_zero_of_le hk]
        simp
      have hj : m0.nested = anc ++ mid.take (m0.nested.length - anc.length) := h3.trans e1
      exact hgone m0 hm0 _ (by omega) hk hj
    have hlen : m0.nested.length = anc.length := Nat.le_antisymm hle hge
    obtain ⟨hp, hml⟩ := huniq m0 hm0 (by rw [h3, hlen, htake])
    rw [hp] at hloc hnoloc
    rw [hml] at hnoloc
    exact ⟨hloc, hnoloc⟩
  · exact absurd (by rw [hanc, htake]) (hnone m hm (by rw [hanc]; exact hne) (by rw [hanc, hqlen]; omega))

/-- … and when NO ancestor survives (the whole top-level subtree was deleted, or the element was
    top-level) the annotation is at the file: `⟨rule, cf.path, []⟩`. -/
theorem deleted_element_located_at_file_when_no_ancestor_survives (cf : File) (rule : String) (q : QName)
    (hgone : ∀ m' ∈ cf.flatMsgs, ∀ j, 1 ≤ j → j < q.length → m'.nested ≠ q.take j) :
    deletedAnn rule cf q = ⟨rule, cf.path, []⟩ := by
  rcases located_deleted_element cf q rule with ⟨m0, hm0, h1, h2, h3, _, _, _⟩ | ⟨_, h⟩
  · exact absurd h3 (hgone m0 hm0 _ h1 h2)
  · exact h

/-- non-vacuity: `A.B.C.D.E` deleted together with `A.B.C` and `A.B.C.D` (k = 2); `A` and `A.B`
    survive — the annotation is at `A.B` (`[4, 0, 3, 0]`), not at `A`, not at the file. -/
def nestMsg (n : String) : MsgInfo :=
  { name := n, fields := [], extensions := [], enums := [], oneofs := [], reservedRanges := [],
    reservedNames := [], extRanges := [], messageSet := false, noStdAccessor := false, jsonAllow := true,
    mapEntry := false }
def nestCur : File :=
  { path := "a.proto", pkg := ["p"], syn := .proto3, opts := [], locs := [[4, 0], [4, 0, 3, 0]],
    messages := [.mk (nestMsg "A") [.mk (nestMsg "B") []]], enums := [], services := [], extensions := [] }
def nestB : FlatMsg := ⟨"a.proto", nestCur.locs, ["p"], ["A", "B"], [4, 0, 3, 0], none, nestMsg "B"⟩

theorem nestCur_short : ∀ m' ∈ nestCur.flatMsgs, m'.nested.length ≤ 2 := by decide
theorem nestCur_head : ∀ m' ∈ nestCur.flatMsgs, m'.nested.head? = some "A" := by decide

example : deletedAnn "ENUM_NO_DELETE" nestCur (["A", "B"] ++ ["C", "D"] ++ ["E"])
    = ⟨"ENUM_NO_DELETE", "a.proto", [4, 0, 3, 0]⟩ :=
  (deleted_element_located_at_closest_surviving_ancestor nestCur "ENUM_NO_DELETE" ["A", "B"] ["C", "D"] "E"
    (m := nestB) (by decide) rfl (by decide) (by decide)
    (fun m' hm' j h1 _ heq => by
      have := nestCur_short m' hm'
      rw [heq] at this
      simp at this
      omega)).1 (by decide)

example : deletedAnn "MESSAGE_NO_DELETE" nestCur ["X", "Y", "Z"] = ⟨"MESSAGE_NO_DELETE", "a.proto", []⟩ :=
  deleted_element_located_at_file_when_no_ancestor_survives nestCur _ _
    (fun m' hm' j h1 _ heq => by
      have := nestCur_head m' hm'
      rw [heq] at this
      cases j with
      | zero => omega
      | succ n => simp at this)

/-! ### the pre-fix PACKAGE_ENUM_NO_DELETE missed the last enum of a surviving package -/

def cexEnum : Enum :=
  { name := "E", values := [⟨"E_0", 0⟩], reservedRanges := [], reservedNames := [], closed := false,
    jsonAllow := true }
def cexMsg : MsgInfo :=
  { name := "M", fields := [], extensions := [], enums := [], oneofs := [], reservedRanges := [],
    reservedNames := [], extRanges := [], messageSet := false, noStdAccessor := false, jsonAllow := true,
    mapEntry := false }
def cexPrev : Schema :=
  [{ path := "a.proto", pkg := ["p"], syn := .proto3, opts := [], locs := [], messages := [],
     enums := [cexEnum], services := [], extensions := [] }]
def cexCur : Schema :=
  [{ path := "a.proto", pkg := ["p"], syn := .proto3, opts := [], locs := [], messages := [.mk cexMsg []],
     enums := [], services := [], extensions := [] }]

/-- witness replayed on /repo before `C03-package-last-element.diff`: enum p.E deleted, package p
    survives, the old handler reports nothing while the fixed one does -/
theorem package_enum_old_counterexample :
    rulePackageEnumNoDeleteOld cexCur cexPrev = [] ∧
    rulePackageEnumNoDelete cexCur cexPrev = [⟨"PACKAGE_ENUM_NO_DELETE", "a.proto", []⟩] := by
  decide

/-! ### non-vacuity: every `detects_*` theorem instantiated on ONE witness pair

  `W.wPrev → W.wCur` (Lemmas/BreakingWitness.lean) contains all edits at once.  The edited message
  `acme.v1.Outer.Mid.Inner` is nested at depth 3; additive changes (a new first file, message,
  nested message, field, enum, service, RPC) shift every index, so the concrete annotations below
  are visibly located on the CURRENT tree: Inner is `[4,1,3,1,3,1]` (was `[4,0,3,0,3,0]`), Mid is
  `[4,1,3,1]`, service Api is `[6,1]` (was `[6,0]`).  Each `example` supplies ALL hypotheses of the
  theorem (`by decide` on the concrete schemas) and states the concrete annotation; the conclusion
  `Reports id a …` covers every configuration in which the rule is active. -/

/-- field 1 `f_del` of Inner is gone -/
example : Reports "FIELD_NO_DELETE" ⟨"FIELD_NO_DELETE", fileA, innerP⟩ wCur wPrev :=
  detects_field_delete wCur_wf pInner_mem cInner_mem inner_name
    (pf := fld 1 "f_del" .int32) (by decide) (by decide)

/-- two fields of Inner (1 `f_del`, 13 `f_del2`) are gone: two annotations at Inner -/
example : 2 ≤ (check .v2 "FILE" wCur wPrev).count ⟨"FIELD_NO_DELETE", fileA, innerP⟩ :=
  detects_field_delete_each wCur_wf pInner_mem cInner_mem inner_name .v2 "FILE" (by decide)

/-- the same on the trees: Outer → Mid → Inner reached through nesting in both files -/
example : ∃ fm ∈ cA.flatMsgs, fm.nested = ["Outer", "Mid", "Inner"] ∧ fm.info = cInnerM.info ∧
    Reports "FIELD_NO_DELETE" (msgLoc fm "FIELD_NO_DELETE") wCur wPrev :=
  detects_field_delete_in_tree wCur_wf pA_mem cA_mem rfl
    (pm := pInnerM) (cm := cInnerM)
    (.nest (.nest (.top (m := pOuterM) (.head _)) (n := pMid) (.head _)) (n := pInnerM) (.head _))
    (.nest (.nest (.top (m := cOuterM) (.tail _ (.head _))) (n := cMid) (.tail _ (.head _))) (n := cInnerM)
      (.tail _ (.head _)))
    (f := fld 1 "f_del" .int32) (by decide) (by decide)

/-- … and the current Inner reserves 30–40 only -/
example : Reports "FIELD_NO_DELETE_UNLESS_NUMBER_RESERVED"
    ⟨"FIELD_NO_DELETE_UNLESS_NUMBER_RESERVED", fileA, innerP⟩ wCur wPrev :=
  detects_field_delete_unless_number_reserved wCur_wf pInner_mem cInner_mem inner_name
    (pf := fld 1 "f_del" .int32) (by decide) (by decide) (by decide)

/-- … and only the name `f_future` -/
example : Reports "FIELD_NO_DELETE_UNLESS_NAME_RESERVED"
    ⟨"FIELD_NO_DELETE_UNLESS_NAME_RESERVED", fileA, innerP⟩ wCur wPrev :=
  detects_field_delete_unless_name_reserved wCur_wf pInner_mem cInner_mem inner_name
    (pf := fld 1 "f_del" .int32) (by decide) (by decide) (by decide)

/-- one concrete configuration spelled out (the others follow the same way from `Reports`) -/
example : ⟨"FIELD_NO_DELETE", fileA, innerP⟩ ∈ check .v1beta1 "PACKAGE" wCur wPrev :=
  detects_field_delete wCur_wf pInner_mem cInner_mem inner_name
    (pf := fld 1 "f_del" .int32) (by decide) (by decide) .v1beta1 "PACKAGE" (by decide)

/-- value BLUE = 2 of the nested enum `Outer.Mid.Color` is gone; Color is now the 2nd enum of Mid -/
example : Reports "ENUM_VALUE_NO_DELETE" ⟨"ENUM_VALUE_NO_DELETE", fileA, midP ++ [4, 1]⟩ wCur wPrev :=
  detects_enum_value_delete wCur_wf pColor_mem cColor_mem color_name (pv := ⟨"BLUE", 2⟩) (by decide) (by decide)

example : Reports "ENUM_VALUE_NO_DELETE_UNLESS_NUMBER_RESERVED"
    ⟨"ENUM_VALUE_NO_DELETE_UNLESS_NUMBER_RESERVED", fileA, midP ++ [4, 1]⟩ wCur wPrev :=
  detects_enum_value_delete_unless_number_reserved wCur_wf pColor_mem cColor_mem color_name
    (pv := ⟨"BLUE", 2⟩) (by decide) (by decide) (by decide)

example : Reports "ENUM_VALUE_NO_DELETE_UNLESS_NAME_RESERVED"
    ⟨"ENUM_VALUE_NO_DELETE_UNLESS_NAME_RESERVED", fileA, midP ++ [4, 1]⟩ wCur wPrev :=
  detects_enum_value_delete_unless_name_reserved wCur_wf pColor_mem cColor_mem color_name
    (pv := ⟨"BLUE", 2⟩) (by decide) (by decide) (by decide)

/-- RPC `Del` of service Api is gone -/
example : Reports "RPC_NO_DELETE" ⟨"RPC_NO_DELETE", fileA, [6, 1]⟩ wCur wPrev :=
  detects_rpc_delete wCur_wf pApi_mem cApi_mem api_name
    (pm := mth "Del" ".acme.v1.Outer" ".acme.v1.Outer") (by decide) (by decide)

/-- oneof `gone` of `Outer.Mid` (depth 2) is gone -/
example : Reports "ONEOF_NO_DELETE" ⟨"ONEOF_NO_DELETE", fileA, midP⟩ wCur wPrev :=
  detects_oneof_delete wCur_wf pMid_mem cMid_mem mid_name (po := ⟨"gone", false⟩) (by decide) rfl (by decide)

/-- message `Outer.Mid.Gone` (depth 3) is gone: located at the surviving `Outer.Mid` -/
example : Reports "MESSAGE_NO_DELETE" ⟨"MESSAGE_NO_DELETE", fileA, midP⟩ wCur wPrev :=
  detects_message_delete wCur_wf pA_mem cA_mem rfl pGone_mem (by decide)

/-- enum `Outer.Mid.OldEnum` is gone -/
example : Reports "ENUM_NO_DELETE" ⟨"ENUM_NO_DELETE", fileA, midP⟩ wCur wPrev :=
  detects_enum_delete wCur_wf pA_mem cA_mem rfl pOldEnum_mem (by decide)

/-- extension `Outer.Mid.mid_ext` is gone (another extension was added at file level) -/
example : Reports "EXTENSION_NO_DELETE" ⟨"EXTENSION_NO_DELETE", fileA, midP⟩ wCur wPrev :=
  detects_extension_delete wCur_wf pA_mem cA_mem rfl pMidExt_mem (by decide)

/-- service OldSvc is gone (NewSvc was added) -/
example : Reports "SERVICE_NO_DELETE" ⟨"SERVICE_NO_DELETE", fileA, []⟩ wCur wPrev :=
  detects_service_delete wCur_wf pA_mem cA_mem rfl pOldSvc_mem (by decide)

/-- acme/v1/e.proto is gone (acme/v1/new.proto was added) -/
example : Reports "FILE_NO_DELETE" ⟨"FILE_NO_DELETE", "", []⟩ wCur wPrev :=
  detects_file_delete pE_mem (by decide)

/-- package `old` (old/d.proto) is gone -/
example : Reports "PACKAGE_NO_DELETE" ⟨"PACKAGE_NO_DELETE", "", []⟩ wCur wPrev :=
  detects_package_delete pD_mem (by decide)

/-- PACKAGE: `Outer.Mid.OldEnum` left package acme.v1, its file survives → at `Outer.Mid` -/
example : Reports "PACKAGE_ENUM_NO_DELETE" ⟨"PACKAGE_ENUM_NO_DELETE", fileA, midP⟩ wCur wPrev :=
  (detects_package_enum_delete wCur_wf (pA_flatEnums_sub pOldEnum_mem) (by decide) (by decide)).1 cA cA_mem rfl
/-- PACKAGE: enum `EE` of the deleted acme/v1/e.proto, package acme.v1 survives → no location -/
example : Reports "PACKAGE_ENUM_NO_DELETE" ⟨"PACKAGE_ENUM_NO_DELETE", "", []⟩ wCur wPrev :=
  (detects_package_enum_delete wCur_wf pEE_mem (by decide) (by decide)).2 (by decide)

example : Reports "PACKAGE_SERVICE_NO_DELETE" ⟨"PACKAGE_SERVICE_NO_DELETE", fileA, []⟩ wCur wPrev :=
  (detects_package_service_delete wCur_wf (pA_flatSvcs_sub pOldSvc_mem) (by decide) (by decide)).1 cA cA_mem rfl
example : Reports "PACKAGE_SERVICE_NO_DELETE" ⟨"PACKAGE_SERVICE_NO_DELETE", "", []⟩ wCur wPrev :=
  (detects_package_service_delete wCur_wf pES_mem (by decide) (by decide)).2 (by decide)

example : Reports "PACKAGE_EXTENSION_NO_DELETE" ⟨"PACKAGE_EXTENSION_NO_DELETE", fileA, midP⟩ wCur wPrev :=
  (detects_package_extension_delete wCur_wf (pA_flatExts_sub pMidExt_mem) (by decide) (by decide)).1 cA cA_mem rfl
example : Reports "PACKAGE_EXTENSION_NO_DELETE" ⟨"PACKAGE_EXTENSION_NO_DELETE", "", []⟩ wCur wPrev :=
  (detects_package_extension_delete wCur_wf pEExt_mem (by decide) (by decide)).2 (by decide)

example : Reports "PACKAGE_MESSAGE_NO_DELETE" ⟨"PACKAGE_MESSAGE_NO_DELETE", fileA, midP⟩ wCur wPrev :=
  (detects_package_message_delete wCur_wf (pA_flatMsgs_sub pGone_mem) (by decide) (by decide)).1 cA cA_mem rfl
example : Reports "PACKAGE_MESSAGE_NO_DELETE" ⟨"PACKAGE_MESSAGE_NO_DELETE", "", []⟩ wCur wPrev :=
  (detects_package_message_delete wCur_wf pEM_mem (by decide) (by decide)).2 (by decide)

/-- `Outer.Mid.Mode` closed → open; no `features.enum_type` location: falls back to the enum -/
example : Reports "ENUM_SAME_TYPE" ⟨"ENUM_SAME_TYPE", fileA, midP ++ [4, 2]⟩ wCur wPrev :=
  detects_enum_closedness_change wCur_wf pMode_mem cMode_mem mode_name (by decide)

example : Reports "ENUM_SAME_JSON_FORMAT" ⟨"ENUM_SAME_JSON_FORMAT", fileA, midP ++ [4, 2]⟩ wCur wPrev :=
  detects_enum_json_format_change wCur_wf pMode_mem cMode_mem mode_name rfl rfl

/-- GREEN = 1 renamed to LIME = 1: located at the number of the 2nd value of Color -/
example : Reports "ENUM_VALUE_SAME_NAME" ⟨"ENUM_VALUE_SAME_NAME", fileA, midP ++ [4, 1, 2, 1, 2]⟩ wCur wPrev :=
  detects_enum_value_rename wCur_wf pColor_mem cColor_mem color_name
    (pv := ⟨"GREEN", 1⟩) (jw := (1, ⟨"LIME", 1⟩)) (by decide) (by decide) rfl (by decide)

/-- Color no longer reserves the name OLD … -/
example : Reports "RESERVED_ENUM_NO_DELETE" ⟨"RESERVED_ENUM_NO_DELETE", fileA, midP ++ [4, 1]⟩ wCur wPrev :=
  detects_enum_reserved_name_delete wCur_wf pColor_mem cColor_mem color_name (n := "OLD") (by decide) (by decide)
/-- … and 10–20 shrank to 10–15 (18 is free again) -/
example : Reports "RESERVED_ENUM_NO_DELETE" ⟨"RESERVED_ENUM_NO_DELETE", fileA, midP ++ [4, 1]⟩ wCur wPrev :=
  detects_enum_reserved_range_delete wCur_wf pColor_mem cColor_mem color_name
    (r := (10, 20)) (k := 18) (by decide) (by decide) (by decide) (by decide)

/-- required field 9 `f_req` of Inner became optional -/
example : Reports "MESSAGE_SAME_REQUIRED_FIELDS" ⟨"MESSAGE_SAME_REQUIRED_FIELDS", fileA, innerP⟩ wCur wPrev :=
  detects_required_field_delete wCur_wf pInner_mem cInner_mem inner_name
    (pf := { fld 9 "f_req" .int32 with label := .required, reqCard := true, hasPresence := true })
    (by decide) rfl (by decide)

/-- required field 10 `f_newreq` was added: located at the new field, the 10th of the current Inner -/
example : Reports "MESSAGE_SAME_REQUIRED_FIELDS"
    ⟨"MESSAGE_SAME_REQUIRED_FIELDS", fileA, innerP ++ [2, 9]⟩ wCur wPrev :=
  detects_required_field_add wCur_wf pInner_mem cInner_mem inner_name
    (jf := (9, { fld 10 "f_newreq" .int32 with label := .required, reqCard := true, hasPresence := true }))
    (by decide) rfl (by decide)

example : Reports "RESERVED_MESSAGE_NO_DELETE" ⟨"RESERVED_MESSAGE_NO_DELETE", fileA, midP⟩ wCur wPrev :=
  detects_message_reserved_name_delete wCur_wf pMid_mem cMid_mem mid_name (n := "legacy") (by decide) (by decide)
example : Reports "RESERVED_MESSAGE_NO_DELETE" ⟨"RESERVED_MESSAGE_NO_DELETE", fileA, midP⟩ wCur wPrev :=
  detects_message_reserved_range_delete wCur_wf pMid_mem cMid_mem mid_name
    (r := (50, 60)) (k := 58) (by decide) (by decide) (by decide) (by decide)

/-- `extensions 100 to 200` of Ext shrank to 100–150 -/
example : Reports "EXTENSION_MESSAGE_NO_DELETE" ⟨"EXTENSION_MESSAGE_NO_DELETE", fileA, [4, 2]⟩ wCur wPrev :=
  detects_extension_range_delete wCur_wf pExt_mem cExt_mem ext_name
    (r := (100, 200)) (k := 160) (by decide) (by decide) (by decide) (by decide)

example : Reports "MESSAGE_SAME_JSON_FORMAT" ⟨"MESSAGE_SAME_JSON_FORMAT", fileA, midP⟩ wCur wPrev :=
  detects_message_json_format_change wCur_wf pMid_mem cMid_mem mid_name rfl rfl

example : Reports "MESSAGE_NO_REMOVE_STANDARD_DESCRIPTOR_ACCESSOR"
    ⟨"MESSAGE_NO_REMOVE_STANDARD_DESCRIPTOR_ACCESSOR", fileA, [4, 2, 7, 2]⟩ wCur wPrev :=
  detects_message_std_accessor_removal wCur_wf pExt_mem cExt_mem ext_name rfl rfl

/-! fields of Inner that keep their number (the current indices are shifted by the new first field) -/

/-- field 2: int32 → string; located at the TYPE of the current field -/
example : Reports "FIELD_SAME_TYPE" ⟨"FIELD_SAME_TYPE", fileA, innerP ++ [2, 1, 5]⟩ wCur wPrev :=
  detects_type_change wCur_wf (inner_paired 2 (by decide) (by decide) rfl)
    (by decide)

/-- field 3: message type acme.v1.Outer → acme.v1.Ext; located at the TYPE NAME -/
example : Reports "FIELD_SAME_TYPE" ⟨"FIELD_SAME_TYPE", fileA, innerP ++ [2, 2, 6]⟩ wCur wPrev :=
  detects_type_name_change wCur_wf (inner_paired 3 (by decide) (by decide) rfl)
    rfl rfl (by decide)

example : Reports "FIELD_WIRE_COMPATIBLE_TYPE"
    ⟨"FIELD_WIRE_COMPATIBLE_TYPE", fileA, innerP ++ [2, 1, 5]⟩ wCur wPrev :=
  detects_wire_type_change wCur_wf (inner_paired 2 (by decide) (by decide) rfl)
    (by decide) (by decide)

example : Reports "FIELD_WIRE_JSON_COMPATIBLE_TYPE"
    ⟨"FIELD_WIRE_JSON_COMPATIBLE_TYPE", fileA, innerP ++ [2, 1, 5]⟩ wCur wPrev :=
  detects_wire_json_type_change wCur_wf (inner_paired 2 (by decide) (by decide) rfl)
    (by decide)

/-- field 4: optional (explicit presence) → repeated -/
example : Reports "FIELD_SAME_CARDINALITY" ⟨"FIELD_SAME_CARDINALITY", fileA, innerP ++ [2, 3]⟩ wCur wPrev :=
  detects_cardinality_change wCur_wf (inner_paired 4 (by decide) (by decide) rfl)
    (by decide) (by decide)

example : Reports "FIELD_WIRE_JSON_COMPATIBLE_CARDINALITY"
    ⟨"FIELD_WIRE_JSON_COMPATIBLE_CARDINALITY", fileA, innerP ++ [2, 3]⟩ wCur wPrev :=
  detects_wire_json_cardinality_change wCur_wf (inner_paired 4 (by decide) (by decide) rfl)
    (by decide) (by decide)

example : Reports "FIELD_WIRE_COMPATIBLE_CARDINALITY"
    ⟨"FIELD_WIRE_COMPATIBLE_CARDINALITY", fileA, innerP ++ [2, 3]⟩ wCur wPrev :=
  detects_wire_cardinality_change wCur_wf (inner_paired 4 (by decide) (by decide) rfl)
    (by decide) (by decide)

/-- field 5: old_name → new_name; located at the NAME -/
example : Reports "FIELD_SAME_NAME" ⟨"FIELD_SAME_NAME", fileA, innerP ++ [2, 4, 1]⟩ wCur wPrev :=
  detects_name_change wCur_wf (inner_paired 5 (by decide) (by decide) rfl)
    rfl (by decide)

/-- field 6: JSON name fJson → other; no `json_name` location in the current file: at the field -/
example : Reports "FIELD_SAME_JSON_NAME" ⟨"FIELD_SAME_JSON_NAME", fileA, innerP ++ [2, 5]⟩ wCur wPrev :=
  detects_json_name_change wCur_wf (inner_paired 6 (by decide) (by decide) rfl)
    rfl (by decide)

/-- field 7 moved into oneof `choice` -/
example : Reports "FIELD_SAME_ONEOF" ⟨"FIELD_SAME_ONEOF", fileA, innerP ++ [2, 6]⟩ wCur wPrev :=
  detects_oneof_change wCur_wf (inner_paired 7 (by decide) (by decide) rfl)
    rfl (by decide)

/-- field 8: default 5 → 7; located at the written default -/
example : Reports "FIELD_SAME_DEFAULT" ⟨"FIELD_SAME_DEFAULT", fileA, innerP ++ [2, 7, 7]⟩ wCur wPrev :=
  detects_default_change wCur_wf (inner_paired 8 (by decide) (by decide) rfl)
    rfl rfl (by decide) (by decide)

/-- field 11 (int64): jstype JS_NORMAL → JS_STRING; no option location: at the field -/
example : Reports "FIELD_SAME_JSTYPE" ⟨"FIELD_SAME_JSTYPE", fileA, innerP ++ [2, 10]⟩ wCur wPrev :=
  detects_jstype_change wCur_wf (inner_paired 11 (by decide) (by decide) rfl)
    rfl rfl (by decide)

/-- field 12 (string): utf8_validation VERIFY → NONE -/
example : Reports "FIELD_SAME_UTF8_VALIDATION"
    ⟨"FIELD_SAME_UTF8_VALIDATION", fileA, innerP ++ [2, 11]⟩ wCur wPrev :=
  detects_utf8_validation_change wCur_wf (inner_paired 12 (by decide) (by decide) rfl)
    rfl rfl (by decide)

/-! extension 102 of acme.v1.Ext keeps extendee and number (the second half of the field pair handler) -/

/-- int32 → string: located at the type of the current extension, now `[7,1]` -/
example : Reports "FIELD_SAME_TYPE" ⟨"FIELD_SAME_TYPE", fileA, [7, 1, 5]⟩ wCur wPrev :=
  detects_type_change wCur_wf kept_paired (by decide)
example : Reports "FIELD_WIRE_COMPATIBLE_TYPE" ⟨"FIELD_WIRE_COMPATIBLE_TYPE", fileA, [7, 1, 5]⟩ wCur wPrev :=
  detects_wire_type_change wCur_wf kept_paired (by decide) (by decide)
/-- acme.v1.kept_ext → acme.v1.renamed_ext -/
example : Reports "FIELD_SAME_NAME" ⟨"FIELD_SAME_NAME", fileA, [7, 1, 1]⟩ wCur wPrev :=
  detects_extension_name_change wCur_wf kept_paired (by decide) (by decide)

/-! RPCs of service Api (now `[6,1]`; a new first RPC shifts the method indices) -/

/-- the generic theorem, instantiated with the response type -/
example : Reports "RPC_SAME_RESPONSE_TYPE" ⟨"RPC_SAME_RESPONSE_TYPE", fileA, [6, 1, 2, 2, 3]⟩ wCur wPrev :=
  detects_rpc_change wCur_wf pApi_mem cApi_mem api_name (pm := pM "Put") (cm := cM "Put")
    (by decide) (by decide) rfl "RPC_SAME_RESPONSE_TYPE" (·.output) [3] rfl (by decide)

example : Reports "RPC_SAME_REQUEST_TYPE" ⟨"RPC_SAME_REQUEST_TYPE", fileA, [6, 1, 2, 1, 2]⟩ wCur wPrev :=
  detects_rpc_request_type_change wCur_wf pApi_mem cApi_mem api_name (pm := pM "Get") (cm := cM "Get")
    (by decide) (by decide) rfl (by decide)

example : Reports "RPC_SAME_RESPONSE_TYPE" ⟨"RPC_SAME_RESPONSE_TYPE", fileA, [6, 1, 2, 2, 3]⟩ wCur wPrev :=
  detects_rpc_response_type_change wCur_wf pApi_mem cApi_mem api_name (pm := pM "Put") (cm := cM "Put")
    (by decide) (by decide) rfl (by decide)

example : Reports "RPC_SAME_CLIENT_STREAMING" ⟨"RPC_SAME_CLIENT_STREAMING", fileA, [6, 1, 2, 3]⟩ wCur wPrev :=
  detects_rpc_client_streaming_change wCur_wf pApi_mem cApi_mem api_name (pm := pM "Up") (cm := cM "Up")
    (by decide) (by decide) rfl (by decide)

example : Reports "RPC_SAME_SERVER_STREAMING" ⟨"RPC_SAME_SERVER_STREAMING", fileA, [6, 1, 2, 4]⟩ wCur wPrev :=
  detects_rpc_server_streaming_change wCur_wf pApi_mem cApi_mem api_name (pm := pM "Down") (cm := cM "Down")
    (by decide) (by decide) rfl (by decide)

example : Reports "RPC_SAME_IDEMPOTENCY_LEVEL"
    ⟨"RPC_SAME_IDEMPOTENCY_LEVEL", fileA, [6, 1, 2, 5, 4, 34]⟩ wCur wPrev :=
  detects_rpc_idempotency_change wCur_wf pApi_mem cApi_mem api_name (pm := pM "Idem") (cm := cM "Idem")
    (by decide) (by decide) rfl (by decide)

/-! files -/

/-- acme/v1/c.proto moved from package acme.v1 to acme.v2 -/
example : Reports "FILE_SAME_PACKAGE" ⟨"FILE_SAME_PACKAGE", "acme/v1/c.proto", [2]⟩ wCur wPrev :=
  detects_file_package_change wCur_wf pC_mem cC_mem rfl (by decide)

/-- acme/v1/b.proto: proto2 → proto3 -/
example : Reports "FILE_SAME_SYNTAX" ⟨"FILE_SAME_SYNTAX", "acme/v1/b.proto", [12]⟩ wCur wPrev :=
  detects_file_syntax_change wCur_wf pB_mem cB_mem rfl (by decide)

/-- acme/v1/b.proto: go_package changed (java_package did not) -/
example : Reports "FILE_SAME_GO_PACKAGE" ⟨"FILE_SAME_GO_PACKAGE", "acme/v1/b.proto", [8, 11]⟩ wCur wPrev :=
  detects_file_option_change wCur_wf pB_mem cB_mem rfl "FILE_SAME_GO_PACKAGE" 11 rfl (by decide)


/-! the location terms on the witness: the nearest SURVIVING ancestor -/

/-- `Outer.Mid.Gone` → `Outer.Mid`; an element two levels below the deleted `Gone` → still `Outer.Mid`;
    a top-level element has no enclosing message -/
example : enclosing cA ["Outer", "Mid", "Gone"] = some cMidF ∧
    enclosing cA ["Outer", "Mid", "Gone", "Deep", "E"] = some cMidF ∧
    enclosing cA ["Status"] = none ∧ cMidF.path = midP ∧ msgAt cA midP = some cMid := by
  refine ⟨by decide, by decide, by decide, by decide, rfl⟩

/-! ### group / delimited encoded fields (witness `gPrev → gCur`)

    `g/e.proto` (edition 2023, file-level `features.message_encoding = DELIMITED`), message `g.M`:
      1 `a`   : `X a = 1;` → `Y a = 1;`            delimited by INHERITANCE on both sides (declared
                                                   type message, resolved kind group), type name changes
      2 `b`   : `X b = 2 [features.message_encoding = LENGTH_PREFIXED];` → the override is removed:
                                                   length-prefixed → delimited, type name unchanged
      3 `c`   : `X c = 3 [features.message_encoding = LENGTH_PREFIXED];` → `Y c = 3 [… LENGTH_PREFIXED]`
                                                   plain message field, type name changes
    `g/p.proto` (proto2), message `g.P`:
      1 `grp1` → `grp2` : `optional group Grp1 = 1 {…}` re-declared as `Grp2` (declared type group)
    a new first field shifts every index of `M`. -/

/-- field 1 of `M`: delimited (inherited) on both sides, `g.X` → `g.Y`: all three type rules, at the
    type name of the CURRENT field (index 1 after the new first field) -/
example :
    Reports "FIELD_SAME_TYPE" ⟨"FIELD_SAME_TYPE", "g/e.proto", [4, 0, 2, 1, 6]⟩ gCur gPrev ∧
    Reports "FIELD_WIRE_JSON_COMPATIBLE_TYPE" ⟨"FIELD_WIRE_JSON_COMPATIBLE_TYPE", "g/e.proto", [4, 0, 2, 1, 6]⟩ gCur gPrev ∧
    Reports "FIELD_WIRE_COMPATIBLE_TYPE" ⟨"FIELD_WIRE_COMPATIBLE_TYPE", "g/e.proto", [4, 0, 2, 1, 6]⟩ gCur gPrev :=
  detects_group_encoded_type_name_change gCur_wf (gM_paired 1 (by decide) (by decide) rfl)
    rfl rfl (Or.inr rfl) (by decide)

/-- the proto2 group `Grp1` re-declared as `Grp2` (declared type group) -/
example :
    Reports "FIELD_SAME_TYPE" ⟨"FIELD_SAME_TYPE", "g/p.proto", [4, 0, 2, 0, 6]⟩ gCur gPrev ∧
    Reports "FIELD_WIRE_JSON_COMPATIBLE_TYPE" ⟨"FIELD_WIRE_JSON_COMPATIBLE_TYPE", "g/p.proto", [4, 0, 2, 0, 6]⟩ gCur gPrev ∧
    Reports "FIELD_WIRE_COMPATIBLE_TYPE" ⟨"FIELD_WIRE_COMPATIBLE_TYPE", "g/p.proto", [4, 0, 2, 0, 6]⟩ gCur gPrev :=
  detects_group_encoded_type_name_change gCur_wf gP_paired rfl rfl (Or.inl rfl) (by decide)

/-- field 2 of `M`: length-prefixed → delimited, same type name: a changed TYPE for all three rules -/
example :
    Reports "FIELD_SAME_TYPE" ⟨"FIELD_SAME_TYPE", "g/e.proto", [4, 0, 2, 2, 6]⟩ gCur gPrev ∧
    Reports "FIELD_WIRE_JSON_COMPATIBLE_TYPE" ⟨"FIELD_WIRE_JSON_COMPATIBLE_TYPE", "g/e.proto", [4, 0, 2, 2, 6]⟩ gCur gPrev ∧
    Reports "FIELD_WIRE_COMPATIBLE_TYPE" ⟨"FIELD_WIRE_COMPATIBLE_TYPE", "g/e.proto", [4, 0, 2, 2, 6]⟩ gCur gPrev :=
  detects_message_encoding_flip gCur_wf (gM_paired 2 (by decide) (by decide) rfl) (Or.inl ⟨rfl, rfl⟩)

/-- field 3 of `M`: a plain (length-prefixed) message field, `g.X` → `g.Y`: the type-NAME branch of
    the two wire rules -/
example : Reports "FIELD_WIRE_COMPATIBLE_TYPE" ⟨"FIELD_WIRE_COMPATIBLE_TYPE", "g/e.proto", [4, 0, 2, 3, 6]⟩ gCur gPrev :=
  detects_wire_message_type_name_change gCur_wf (gM_paired 3 (by decide) (by decide) rfl) rfl (Or.inr rfl) (by decide)

example : Reports "FIELD_WIRE_JSON_COMPATIBLE_TYPE"
    ⟨"FIELD_WIRE_JSON_COMPATIBLE_TYPE", "g/e.proto", [4, 0, 2, 3, 6]⟩ gCur gPrev :=
  detects_wire_json_message_type_name_change gCur_wf (gM_paired 3 (by decide) (by decide) rfl) rfl (Or.inr rfl) (by decide)

/-! ### defaults above 2^53 (witness `dPrev → dCur`, Lemmas/BreakingWitness.lean): int64
    9007199254740993 → 9007199254740992, uint64 MaxUint64 → MaxUint64-1, sint64 MinInt64+1 → MinInt64
    (each pair rounds to ONE float64) and string "abc" → "ABC" -/

example : Reports "FIELD_SAME_DEFAULT" ⟨"FIELD_SAME_DEFAULT", "lim.proto", [4, 0, 2, 0, 7]⟩ dCur dPrev :=
  detects_integer_default_change dCur_wf (dM_paired 1 (by decide) (by decide) rfl) rfl rfl rfl rfl (by decide) (by decide)
example : Reports "FIELD_SAME_DEFAULT" ⟨"FIELD_SAME_DEFAULT", "lim.proto", [4, 0, 2, 1, 7]⟩ dCur dPrev :=
  detects_integer_default_change dCur_wf (dM_paired 2 (by decide) (by decide) rfl) rfl rfl rfl rfl (by decide) (by decide)
example : Reports "FIELD_SAME_DEFAULT" ⟨"FIELD_SAME_DEFAULT", "lim.proto", [4, 0, 2, 2, 7]⟩ dCur dPrev :=
  detects_integer_default_change dCur_wf (dM_paired 3 (by decide) (by decide) rfl) rfl rfl rfl rfl (by decide) (by decide)
example : Reports "FIELD_SAME_DEFAULT" ⟨"FIELD_SAME_DEFAULT", "lim.proto", [4, 0, 2, 3, 7]⟩ dCur dPrev :=
  detects_default_change dCur_wf (dM_paired 4 (by decide) (by decide) rfl) rfl rfl (by decide) (by decide)

/-! ### the ALIAS family of the enum-value rules (witness `alPrev → alCurSome / alCurAll`)

    With `allow_alias` a number has several names.  The three deletion rules pair values by NUMBER
    (a number "is deleted" when NO value carries it any more) and the name rule exempts the deletion
    only when EVERY previous name of the number is reserved; ENUM_VALUE_SAME_NAME speaks about numbers
    that still exist.  `detects_enum_value_delete_unless_name_reserved` above already has the
    all-names reading (its hypothesis is about ONE unreserved name `pv`, whatever happens to the
    other names of the number); the statements below spell the family out. -/

/-- PARTIAL reservation: two names `a`, `b` of one number, every value of the number is gone, `a` is
    reserved and `b` is not ⇒ ENUM_VALUE_NO_DELETE_UNLESS_NAME_RESERVED reports (the regression
    "some name is reserved ⇒ fine" makes exactly this statement false). -/
theorem detects_enum_value_delete_partial_name_reservation (hw : WF cur) {pe ce : FlatEnum} {a b : EnumValue}
    (hpe : pe ∈ allEnums prev) (hce : ce ∈ allEnums cur) (hname : ce.fullName = pe.fullName)
    (_ha : a ∈ pe.enum.values) (hb : b ∈ pe.enum.values) (_hab : a.number = b.number)
    (hdel : ∀ cv ∈ ce.enum.values, cv.number ≠ b.number)
    (_hares : a.name ∈ ce.enum.reservedNames) (hbres : b.name ∉ ce.enum.reservedNames) :
    Reports "ENUM_VALUE_NO_DELETE_UNLESS_NAME_RESERVED"
      (enumLoc ce "ENUM_VALUE_NO_DELETE_UNLESS_NAME_RESERVED" pe.file) cur prev :=
  detects_enum_value_delete_unless_name_reserved hw hpe hce hname hb hdel hbres

/-- the pair handler is silent when it is silent on every pair of same-named enums -/
theorem enumPairs_nil_of {f : FlatEnum → FlatEnum → List Ann}
    (h : ∀ pe ∈ allEnums prev, ∀ ce ∈ allEnums cur, ce.fullName = pe.fullName → f ce pe = []) :
    enumPairs cur prev f = [] := by
  unfold enumPairs
  rw [pairwise_eq_nil_iff]
  intro p hp
  cases hf : (allEnums cur).find? (fun c => decide (c.fullName = p.fullName)) with
  | none => rfl
  | some c =>
    have hk : c.fullName = p.fullName := by simpa using List.find?_some hf
    exact h p hp c (List.mem_of_find?_eq_some hf) hk

/-- SILENCE of the name rule: whenever a number is gone from an enum, ALL its previous names are
    reserved ⇒ ENUM_VALUE_NO_DELETE_UNLESS_NAME_RESERVED reports nothing at all. -/
theorem enum_value_delete_all_names_reserved_silent
    (h : ∀ pe ∈ allEnums prev, ∀ ce ∈ allEnums cur, ce.fullName = pe.fullName →
      ∀ pv ∈ pe.enum.values, (∀ cv ∈ ce.enum.values, cv.number ≠ pv.number) →
        ∀ w ∈ pe.enum.values, w.number = pv.number → w.name ∈ ce.enum.reservedNames) :
    runRule "ENUM_VALUE_NO_DELETE_UNLESS_NAME_RESERVED" cur prev = [] := by
  rw [runRule_eq (f := enumValueNoDelete "ENUM_VALUE_NO_DELETE_UNLESS_NAME_RESERVED" false true) rfl]
  unfold enumValueNoDelete
  apply enumPairs_nil_of
  intro pe hpe ce hce hname
  apply List.flatMap_eq_nil_iff.2
  intro pv hpv
  cases hn : ce.enum.hasNumber pv.number with
  | true => simp
  | false =>
    have hdel : ∀ cv ∈ ce.enum.values, cv.number ≠ pv.number := by
      intro cv hcv heq
      have : ce.enum.hasNumber pv.number = true := by
        unfold Enum.hasNumber
        exact List.any_eq_true.2 ⟨cv, hcv, by simpa using heq⟩
      rw [hn] at this
      exact Bool.noConfusion this
    have hall : ((pe.enum.values.filter fun w => decide (w.number = pv.number)).all
        fun w => decide (w.name ∈ ce.enum.reservedNames)) = true := by
      apply List.all_eq_true.2
      intro w hw
      obtain ⟨h1, h2⟩ := List.mem_filter.1 hw
      simpa using h pe hpe ce hce hname pv hpv hdel w h1 (by simpa using h2)
    simp [hall]

/-- SILENCE of the number rule: every number that is gone lies inside a reserved range ⇒
    ENUM_VALUE_NO_DELETE_UNLESS_NUMBER_RESERVED reports nothing. -/
theorem enum_value_delete_number_reserved_silent
    (h : ∀ pe ∈ allEnums prev, ∀ ce ∈ allEnums cur, ce.fullName = pe.fullName →
      ∀ pv ∈ pe.enum.values, (∀ cv ∈ ce.enum.values, cv.number ≠ pv.number) →
        ∃ r ∈ ce.enum.reservedRanges, r.1 ≤ pv.number ∧ pv.number ≤ r.2) :
    runRule "ENUM_VALUE_NO_DELETE_UNLESS_NUMBER_RESERVED" cur prev = [] := by
  rw [runRule_eq (f := enumValueNoDelete "ENUM_VALUE_NO_DELETE_UNLESS_NUMBER_RESERVED" true false) rfl]
  unfold enumValueNoDelete
  apply enumPairs_nil_of
  intro pe hpe ce hce hname
  apply List.flatMap_eq_nil_iff.2
  intro pv hpv
  cases hn : ce.enum.hasNumber pv.number with
  | true => simp
  | false =>
    have hdel : ∀ cv ∈ ce.enum.values, cv.number ≠ pv.number := by
      intro cv hcv heq
      have : ce.enum.hasNumber pv.number = true := by
        unfold Enum.hasNumber
        exact List.any_eq_true.2 ⟨cv, hcv, by simpa using heq⟩
      rw [hn] at this
      exact Bool.noConfusion this
    obtain ⟨r, hr, hin⟩ := h pe hpe ce hce hname pv hpv hdel
    have hres : numberReserved ce.enum.reservedRanges pv.number = true := by
      unfold numberReserved
      exact List.any_eq_true.2 ⟨r, hr, by simpa [rangeHas] using hin⟩
    simp [hres]

/-- a number that still has a value is no business of the three deletion rules, whatever happened
    to its other names (removing an alias is ENUM_VALUE_SAME_NAME's business) -/
theorem enum_value_number_kept_silent (rule : String) (allowNumber allowName : Bool)
    (h : ∀ pe ∈ allEnums prev, ∀ ce ∈ allEnums cur, ce.fullName = pe.fullName →
      ∀ pv ∈ pe.enum.values, ∃ cv ∈ ce.enum.values, cv.number = pv.number) :
    enumValueNoDelete rule allowNumber allowName cur prev = [] := by
  unfold enumValueNoDelete
  apply enumPairs_nil_of
  intro pe hpe ce hce hname
  apply List.flatMap_eq_nil_iff.2
  intro pv hpv
  obtain ⟨cv, hcv, heq⟩ := h pe hpe ce hce hname pv hpv
  have : ce.enum.hasNumber pv.number = true := by
    unfold Enum.hasNumber
    exact List.any_eq_true.2 ⟨cv, hcv, by simpa using heq⟩
  simp [this]

/-- the regression "ANY previous name of the deleted number is reserved ⇒ allowed"
    (`slices.ContainsFunc` instead of the all-names loop of `isDeletedEnumValueAllowedWithRules`) -/
def enumValueNoDeleteAnyName (cur prev : Schema) : List Ann :=
  enumPairs cur prev fun c p =>
    p.enum.values.flatMap fun pv =>
      if c.enum.hasNumber pv.number then [] else
      if (p.enum.values.filter fun w => decide (w.number = pv.number)).any fun w => decide (w.name ∈ c.enum.reservedNames)
      then [] else [enumLoc c "ENUM_VALUE_NO_DELETE_UNLESS_NAME_RESERVED" p.file]

/-- On `alPrev → alCurSome` (number 1 = {ON, ENABLED} gone, only ON reserved; nested number 5 =
    {B, C} gone, only C reserved) the rule as coded reports at both enums, the ANY reading reports
    NOTHING; with both names reserved (`alCurAll`, nested enum unchanged) the coded rule still
    reports the nested enum only. -/
theorem enum_value_any_name_reserved_counterexample :
    runRule "ENUM_VALUE_NO_DELETE_UNLESS_NAME_RESERVED" alCurSome alPrev =
      [⟨"ENUM_VALUE_NO_DELETE_UNLESS_NAME_RESERVED", "al.proto", [5, 0]⟩,
       ⟨"ENUM_VALUE_NO_DELETE_UNLESS_NAME_RESERVED", "al.proto", [5, 0]⟩,
       ⟨"ENUM_VALUE_NO_DELETE_UNLESS_NAME_RESERVED", "al.proto", [4, 0, 4, 0]⟩,
       ⟨"ENUM_VALUE_NO_DELETE_UNLESS_NAME_RESERVED", "al.proto", [4, 0, 4, 0]⟩] ∧
    enumValueNoDeleteAnyName alCurSome alPrev = [] ∧
    runRule "ENUM_VALUE_NO_DELETE_UNLESS_NAME_RESERVED" alCurAll alPrev =
      [⟨"ENUM_VALUE_NO_DELETE_UNLESS_NAME_RESERVED", "al.proto", [4, 0, 4, 0]⟩,
       ⟨"ENUM_VALUE_NO_DELETE_UNLESS_NAME_RESERVED", "al.proto", [4, 0, 4, 0]⟩] := by decide

/-- number 1 of the top-level enum `Mode` had the names ON and ENABLED; both values are gone and only
    ON is reserved: reported at the enum, in every configuration where the rule is active -/
example : Reports "ENUM_VALUE_NO_DELETE_UNLESS_NAME_RESERVED"
    ⟨"ENUM_VALUE_NO_DELETE_UNLESS_NAME_RESERVED", "al.proto", [5, 0]⟩ alCurSome alPrev :=
  detects_enum_value_delete_partial_name_reservation alCurSome_wf alpMode_mem alcMode_mem alMode_name
    (a := ⟨"ON", 1⟩) (b := ⟨"ENABLED", 1⟩) (by decide) (by decide) rfl (by decide) (by decide) (by decide)

/-- the same in the nested enum `Holder.Inner` (number 5 = {B, C}, only C reserved) -/
example : Reports "ENUM_VALUE_NO_DELETE_UNLESS_NAME_RESERVED"
    ⟨"ENUM_VALUE_NO_DELETE_UNLESS_NAME_RESERVED", "al.proto", [4, 0, 4, 0]⟩ alCurSome alPrev :=
  detects_enum_value_delete_partial_name_reservation alCurSome_wf alpInner_mem alcInner_mem alInner_name
    (a := ⟨"C", 5⟩) (b := ⟨"B", 5⟩) (by decide) (by decide) rfl (by decide) (by decide) (by decide)

/-- the whole number is gone: ENUM_VALUE_NO_DELETE, whatever is reserved -/
example : Reports "ENUM_VALUE_NO_DELETE" ⟨"ENUM_VALUE_NO_DELETE", "al.proto", [5, 0]⟩ alCurAll alPrev :=
  detects_enum_value_delete alCurAll_wf alpMode_mem (by decide : enumOf alCurAll ["al", "Mode"] ∈ allEnums alCurAll)
    (by decide) (pv := ⟨"X", 3⟩) (by decide) (by decide)

/-- `reserved 6 to 8;` lies NEXT TO the deleted number 5 of `Inner`: the number rule reports -/
example : Reports "ENUM_VALUE_NO_DELETE_UNLESS_NUMBER_RESERVED"
    ⟨"ENUM_VALUE_NO_DELETE_UNLESS_NUMBER_RESERVED", "al.proto", [4, 0, 4, 0]⟩ alCurSome alPrev :=
  detects_enum_value_delete_unless_number_reserved alCurSome_wf alpInner_mem alcInner_mem alInner_name
    (pv := ⟨"B", 5⟩) (by decide) (by decide) (by decide)

/-- number 3 = {X, Y} of `Mode` is gone with `reserved 3;`, number 1 without: the number rule reports
    the enum exactly twice (ON and ENABLED, number 1), nothing for number 3 -/
example : (runRule "ENUM_VALUE_NO_DELETE_UNLESS_NUMBER_RESERVED" alCurSome alPrev).filter (fun a => a.path == [5, 0]) =
    [⟨"ENUM_VALUE_NO_DELETE_UNLESS_NUMBER_RESERVED", "al.proto", [5, 0]⟩,
     ⟨"ENUM_VALUE_NO_DELETE_UNLESS_NUMBER_RESERVED", "al.proto", [5, 0]⟩] := by decide

/-- alias OLD of number 2 is gone, LEGACY and ANCIENT stay: ENUM_VALUE_SAME_NAME at the number of
    BOTH remaining names (2nd and 3rd value of the current enum), and none of the deletion rules
    speaks about number 2 -/
example : Reports "ENUM_VALUE_SAME_NAME" ⟨"ENUM_VALUE_SAME_NAME", "al.proto", [5, 0, 2, 1, 2]⟩ alCurSome alPrev ∧
    Reports "ENUM_VALUE_SAME_NAME" ⟨"ENUM_VALUE_SAME_NAME", "al.proto", [5, 0, 2, 2, 2]⟩ alCurSome alPrev :=
  ⟨detects_enum_value_rename alCurSome_wf alpMode_mem alcMode_mem alMode_name
      (pv := ⟨"OLD", 2⟩) (jw := (1, ⟨"LEGACY", 2⟩)) (by decide) (by decide) rfl (by decide),
   detects_enum_value_rename alCurSome_wf alpMode_mem alcMode_mem alMode_name
      (pv := ⟨"OLD", 2⟩) (jw := (2, ⟨"ANCIENT", 2⟩)) (by decide) (by decide) rfl (by decide)⟩

/-- `enum_value_delete_all_names_reserved_silent` is not vacuous: the top-level enum of `alCurAll`
    satisfies its hypothesis (numbers 1 and 3 gone, all four names reserved) -/
example : ∀ pv ∈ alpMode.enum.values, (∀ cv ∈ (enumOf alCurAll ["al", "Mode"]).enum.values, cv.number ≠ pv.number) →
    ∀ w ∈ alpMode.enum.values, w.number = pv.number → w.name ∈ (enumOf alCurAll ["al", "Mode"]).enum.reservedNames := by
  decide

end BufProofs.C03
