import BufProofs.Props.C05
import BufProofs.Lemmas.LintSpec2
/-
  C05 — the COMMENT-SHAPE family of the seven COMMENT_* rules.

  `validLeadingComment` (lint_util.go) walks `strings.Split(comment, "\n")`: EVERY piece between
  two newlines is a line, the text before the first newline and the text AFTER THE LAST newline
  included.  `// x` comments always end in a newline, but the text of a block comment ends where
  `*/` stands: `/* Doc. */` is the one unterminated line ` Doc. `, and a block comment with its
  text on the line of the `*/` has it after the last newline (seed C05-m10: a loop over
  `IndexByte('\n')` that stops when no newline is left never looks at that text).

  * `splitLines_append` — `Split(a + "\n" + b) = Split(a) ++ Split(b)`; `splitLines_no_newline`;
    `splitLines_joinLines` — the lines of `Join(ls, "\n")` are `ls`.
  * `comment_valid_of_documented_line` — a comment `Join(ls, "\n")` with a non-blank,
    non-directive line ANYWHERE in `ls` is valid; `comment_valid_of_documented_last_line` /
    `…_first_line` / `comment_one_line_valid_iff` are the positions spelled out.
  * `comment_invalid_iff_every_line_blank_or_directive` — the converse: exactness.
  * `no_last_line_blind_spot` / `no_last_line_counterexample` — what a walk that drops the text
    after the last newline does: it accepts NO newline-free comment, and it agrees with the real
    function on every comment that ends in a newline (all `//` comments — every comment the
    generator used to write).
-/
namespace BufProofs.C05
open BufModel.Case BufModel.Lint

/-! ## strings.Split(s, "\n") -/

theorem splitLines_ne_nil (s : Str) : splitLines s ≠ [] := by
  induction s with
  | nil => simp [splitLines]
  | cons c cs ih =>
    unfold splitLines
    cases h : splitLines cs with
    | nil => simp
    | cons l ls => by_cases hc : (c == '\n') = true <;> simp [hc]

theorem splitLines_cons_newline (cs : Str) : splitLines ('\n' :: cs) = [] :: splitLines cs := by
  rw [splitLines]
  cases h : splitLines cs with
  | nil => exact absurd h (splitLines_ne_nil cs)
  | cons l ls => simp

theorem splitLines_cons_other (c : Char) (cs : Str) (hc : c ≠ '\n') :
    splitLines (c :: cs) = (c :: (splitLines cs).headD []) :: (splitLines cs).tail := by
  rw [splitLines]
  cases h : splitLines cs with
  | nil => exact absurd h (splitLines_ne_nil cs)
  | cons l ls =>
    have : (c == '\n') = false := by simpa using hc
    simp [this]

/-- a text without newline is ONE line (the whole text) -/
theorem splitLines_no_newline (s : Str) (h : '\n' ∉ s) : splitLines s = [s] := by
  induction s with
  | nil => simp [splitLines]
  | cons c cs ih =>
    have hc : c ≠ '\n' := fun e => h (by rw [e]; exact List.mem_cons_self)
    have hcs : '\n' ∉ cs := fun e => h (List.mem_cons_of_mem _ e)
    rw [splitLines_cons_other c cs hc]
    simp [ih hcs]

/-- `Split(a ++ "\n" ++ b, "\n") = Split(a, "\n") ++ Split(b, "\n")` -/
theorem splitLines_append (a b : Str) : splitLines (a ++ '\n' :: b) = splitLines a ++ splitLines b := by
  induction a with
  | nil => rw [List.nil_append, splitLines_cons_newline]; simp [splitLines]
  | cons c cs ih =>
    by_cases hc : c = '\n'
    · subst hc
      rw [List.cons_append, splitLines_cons_newline, splitLines_cons_newline, ih, List.cons_append]
    · rw [List.cons_append, splitLines_cons_other c _ hc, splitLines_cons_other c cs hc]
      simp only [ih]
      cases h : splitLines cs with
      | nil => exact absurd h (splitLines_ne_nil cs)
      | cons l ls => simp

/-- strings.Join(ls, "\n") -/
def joinLines (ls : List Str) : Str := joinWith ['\n'] ls

/-- the lines of `Join(ls, "\n")` are `ls` (no line contains a newline, at least one line) -/
theorem splitLines_joinLines (ls : List Str) (hne : ls ≠ []) (h : ∀ l ∈ ls, '\n' ∉ l) :
    splitLines (joinLines ls) = ls := by
  induction ls with
  | nil => exact absurd rfl hne
  | cons a rest ih =>
    cases rest with
    | nil => simpa [joinLines, joinWith] using splitLines_no_newline a (h a List.mem_cons_self)
    | cons b rest' =>
      have : joinLines (a :: b :: rest') = a ++ '\n' :: joinLines (b :: rest') := by
        simp [joinLines, joinWith]
      rw [this, splitLines_append, splitLines_no_newline a (h a List.mem_cons_self),
        ih (by simp) (fun l hl => h l (List.mem_cons_of_mem _ hl))]
      rfl

/-! ## validLeadingComment on comment shapes -/

/-- a line "documents": it has a non-space character and, trimmed, does not start with the
    exclude prefix (`buf:lint:ignore`) -/
def Documents (ex line : Str) : Prop :=
  (∃ ch ∈ line, isSpace ch = false) ∧ ¬ ∃ rest, trimSpace line = ex ++ rest

/-- **A documented line anywhere makes the comment valid**: first, middle or LAST line (the text
    after the last newline — where the text of `/* x */` and of a block comment closed on its text
    line sits). -/
theorem comment_valid_of_documented_line (ex : Str) (ls : List Str) (h : ∀ l ∈ ls, '\n' ∉ l)
    (line : Str) (hl : line ∈ ls) (hd : Documents ex line) :
    validLeadingComment [ex] (joinLines ls) = true := by
  rw [validLeadingComment_single_iff, splitLines_joinLines ls (List.ne_nil_of_mem hl) h]
  exact ⟨line, hl, hd.1, hd.2⟩

/-- the LAST line counts: `init` arbitrary (blank lines, `*` gutters, directives, nothing) -/
theorem comment_valid_of_documented_last_line (ex : Str) (init : List Str) (last : Str)
    (h : ∀ l ∈ init ++ [last], '\n' ∉ l) (hd : Documents ex last) :
    validLeadingComment [ex] (joinLines (init ++ [last])) = true :=
  comment_valid_of_documented_line ex _ h last (by simp) hd

/-- the FIRST line counts, whatever follows -/
theorem comment_valid_of_documented_first_line (ex : Str) (first : Str) (rest : List Str)
    (h : ∀ l ∈ first :: rest, '\n' ∉ l) (hd : Documents ex first) :
    validLeadingComment [ex] (joinLines (first :: rest)) = true :=
  comment_valid_of_documented_line ex _ h first List.mem_cons_self hd

/-- the one-line block comment `/* x */` (text without any newline): valid iff the text documents -/
theorem comment_one_line_valid_iff (ex c : Str) (h : '\n' ∉ c) :
    validLeadingComment [ex] c = true ↔ Documents ex c := by
  rw [validLeadingComment_single_iff, splitLines_no_newline c h]
  simp [Documents]

/-- **exactness**: a comment is NOT valid iff every one of its lines is blank or a directive -/
theorem comment_invalid_iff_every_line_blank_or_directive (ex : Str) (ls : List Str) (hne : ls ≠ [])
    (h : ∀ l ∈ ls, '\n' ∉ l) :
    validLeadingComment [ex] (joinLines ls) = false ↔ ∀ l ∈ ls, ¬ Documents ex l := by
  rw [← Bool.not_eq_true, validLeadingComment_single_iff, splitLines_joinLines ls hne h]
  constructor
  · intro hn l hl hd; exact hn ⟨l, hl, hd.1, hd.2⟩
  · rintro hn ⟨l, hl, h1, h2⟩; exact hn l hl ⟨h1, h2⟩

/-! ## the walk that never looks behind the last newline (seed C05-m10) -/

/-- `for { i := IndexByte(comment, '\n'); if i < 0 { return false }; … }`: the lines of
    `Split` without the last one -/
def validLeadingCommentNoLast (excludes : List Str) (comment : Str) : Bool :=
  (splitLines comment).dropLast.any fun line =>
    let l := trimSpace line
    excludes.any fun ex => !l.isEmpty && !(hasPrefix ex l)

/-- it accepts NO comment without newline — every `/* x */` is "undocumented" -/
theorem no_last_line_blind_spot (ex : List Str) (c : Str) (h : '\n' ∉ c) :
    validLeadingCommentNoLast ex c = false := by
  unfold validLeadingCommentNoLast
  rw [splitLines_no_newline c h]
  rfl

/-- … and on comments that END in a newline (every `// …` comment) it is the real function:
    the generator's old comments could not tell the two apart -/
theorem no_last_line_same_on_terminated (ex : List Str) (c : Str) :
    validLeadingCommentNoLast ex (c ++ ['\n']) = validLeadingComment ex (c ++ ['\n']) := by
  unfold validLeadingCommentNoLast validLeadingComment
  rw [splitLines_append c []]
  simp [splitLines, trimSpace, trimBoth, dropEnd]

theorem no_last_line_counterexample :
    validLeadingComment ["buf:lint:ignore".toList] " Doc. ".toList = true ∧
    validLeadingCommentNoLast ["buf:lint:ignore".toList] " Doc. ".toList = false ∧
    validLeadingComment ["buf:lint:ignore".toList] "\n\n Doc. ".toList = true ∧
    validLeadingCommentNoLast ["buf:lint:ignore".toList] "\n\n Doc. ".toList = false := by
  decide

/-! ## non-vacuity -/

example : validLeadingComment ["buf:lint:ignore".toList]
    (joinLines ["".toList, " * ".toList, " buf:lint:ignore X".toList, " Doc. ".toList]) = true :=
  comment_valid_of_documented_last_line _ ["".toList, " * ".toList, " buf:lint:ignore X".toList] " Doc. ".toList
    (by decide) ⟨⟨'D', by decide, by decide⟩, by
      rintro ⟨rest, hr⟩
      have e : trimSpace " Doc. ".toList = ['D', 'o', 'c', '.'] := by decide
      have e2 : "buf:lint:ignore".toList = 'b' :: "uf:lint:ignore".toList := by decide
      rw [e, e2] at hr
      simp at hr⟩

example : validLeadingComment ["buf:lint:ignore".toList]
    (joinLines ["".toList, "  ".toList, " buf:lint:ignore X".toList]) = false := by decide

end BufProofs.C05
