import BufProofs.Lemmas.FormatLemmas
/-
  C07 — Formatting preserves meaning and comments and is idempotent.
  Level: TRANSLATION VALIDATION.  The 2.4k-line AST printer is NOT modelled and nothing here is a
  theorem about it.  What is proved is about the executable checker that the driver runs on every
  (input, real formatter output) pair:

    driver accepts  ⇔  validFormatFile inp out ∧ isFormatted out ∧ format(out) = out   (last one: harness)

  where `validFormatFile inp out = validFormat (stripBOM inp) out`: protocompile's lexer consumes a
  UTF-8 byte order mark at the beginning of a file (`file_checker_sound`, `file_comments_preserved`,
  `comments_stripBOM`; `comment_only_file_not_emptied`: an accepted run with EMPTY output has an
  input without any comment — a comment-only file is never formatted to nothing).

  * `checker_sound`, `checker_sound_tokens`, `header_permutation`: acceptance implies an explicit
    RELATION BETWEEN `inp` AND `out`: the significant tokens of `out` (with the comments
    protocompile attributes to them) are those of `inp` after the body-level token rewrites
    (`Rewrites`: each constructor one documented rewrite), cut into file-level statements
    (`stmts_flatten`: the cut loses/duplicates nothing) and rearranged as `HeaderRel` allows.
  * `comments_preserved`, `comments_attached`: no comment lost or invented, and every comment is
    attached to the same token of a token-identical declaration.
  * `formatted_accepts_itself`, `formatted_fixed_point`, `header_idempotent`: the normal form.
  What is VALIDATED per program (correspondence harness): the real formatter's output is accepted;
  the model's lexer / comment attribution / role automaton / header canonicalisation agree with
  protocompile's AST and with the header order the formatter actually produced.
  NOT proved: that the printer emits accepted output for every input; that protocompile's parser
  is a function of the significant tokens (library assumption); that a token-level `Rewrites`
  step preserves the PARSE (there is no parser model) — the roles are tied to protocompile's AST
  only per program (counts of empty statements / separators / angle brackets / missing colons).
-/
namespace BufProofs.C07
open BufModel.Format

/-! ### lexer and decoration: loss-free re-presentations of the text -/

/-- Concatenating the token texts gives back the input, for every input. -/
theorem lexer_roundtrip (s : Str) : (lex s).flatMap (·.text) = s := lexAux_roundtrip _ s

/-- The lexer is total with fuel = input length: the out-of-fuel token is never produced and every
    token consumes at least one character. -/
theorem lexer_total (s : Str) : ∀ t ∈ lex s, t.kind ≠ .fuel ∧ t.text ≠ [] :=
  lexAux_no_fuel _ s (Nat.le_refl _)

/-- The decorated stream has exactly the significant tokens (plus the EOF token) ... -/
theorem decorate_toks (ts : List Token) : toks (decorate ts) = sig ts ++ [eofTok] := decorate_toks_aux ts

/-- ... and exactly the comments, in source order: attribution loses and invents nothing. -/
theorem decorate_comments (ts : List Token) : commentsOf (decorate ts) = (comments ts).map commentKey :=
  decorate_comments_aux ts

example : (sig (lex "a=1;//c\n".toList)).map (·.text) = ["a".toList, "=".toList, "1".toList, ";".toList] := by decide
example : (lex "x='a\\'b'/*c*/1e-3".toList).map (·.kind) = [.ident, .sym, .str, .blockComment, .num] := by decide
-- attribution as protocompile does it: `// t` trails `;`, `/* l */` leads `b`, the last comment is EOF's
example : (decorate (lex "a; // t\n/* l */ b; // e".toList)).map (fun d => (d.tok.text, d.lead.length, d.trail.length))
    = [("a".toList, 0, 0), (";".toList, 0, 1), ("b".toList, 1, 0), (";".toList, 0, 1), ([], 0, 0)] := by decide

/-! ### the documented body-level rewrites -/

theorem roleOf_ok (st : AState) (t : Token) (rest : List Token) :
    ((roleOf st t rest).1 = .dropEmpty → t.is ";") ∧
    ((roleOf st t rest).1 = .dropSep → (t.is "," ∨ t.is ";")) ∧
    ((roleOf st t rest).1 = .toOpenBrace → t.is "<") ∧
    ((roleOf st t rest).1 = .toCloseBrace → t.is ">") := by
  unfold roleOf
  repeat' split
  all_goals simp_all

theorem annotateFrom_ok (st : AState) (ts : List Token) :
    ∀ p ∈ annotateFrom st ts, (p.2 = .dropEmpty → p.1.is ";") ∧ (p.2 = .dropSep → (p.1.is "," ∨ p.1.is ";")) ∧
      (p.2 = .toOpenBrace → p.1.is "<") ∧ (p.2 = .toCloseBrace → p.1.is ">") := by
  induction ts generalizing st with
  | nil => simp [annotateFrom]
  | cons t rest ih =>
    intro p hp
    simp only [annotateFrom, List.mem_cons] at hp
    rcases hp with rfl | hp
    · exact roleOf_ok st t rest
    · exact ih _ p hp

/-- The normaliser only ever applies the documented rewrites: only `;` is dropped as an empty
    statement, only `,`/`;` as a separator, only `<`/`>` become `{`/`}`, only `:` is inserted. -/
theorem norm_rewrites (ts : List Token) : Rewrites (annotate ts) (norm ts) :=
  norm_rewrites_aux _ (annotateFrom_ok {} ts)

/-- The decorated rewrite projects to the token rewrite: comments do not influence it. -/
theorem normD_tokens (ds : List DTok) : toks (normD ds) = norm (toks ds) := normD_toks ds

/-- Token conservation of the statement splitter: the statements, concatenated, are the stream
    (answers the audit: `headerOf` had no such lemma). -/
theorem stmts_flatten (ds : List DTok) : (stmts ds).flatten = ds := stmts_flatten_aux ds

/-- Partition into the five header classes loses and duplicates no statement. -/
theorem header_partition (ss : List Stmt) : (parseHeader ss).render.Perm ss := parseHeader_perm ss

/-- Comment-gap normalisation touches neither tokens nor the comment sequence. -/
theorem gapNorm_conservative (s : Stmt) : stmtText (gapNorm s) = stmtText s ∧ commentsOf (gapNorm s) = commentsOf s :=
  ⟨gapNorm_toks s, gapNorm_comments s⟩

/-! ### soundness of the checker -/

/-- The relation the checker decides, between the decorated streams of input and output. -/
structure FormatRel (di dout : List DTok) : Prop where
  /-- no token that the rewrites drop carries a comment -/
  clean : dropsClean (annotateD di) = true
  /-- the statements of the output are those of the rewritten input, hoisted / sorted -/
  header : HeaderRel ((stmts (normD di)).map gapNorm) ((stmts dout).map gapNorm)

/-- SOUNDNESS of the translation validator (on decorated streams). -/
theorem checker_sound (inp out : Str) (h : validFormat inp out = true) :
    FormatRel (decorate (lex inp)) (decorate (lex out)) := by
  unfold validFormat validD at h
  simp only [Bool.and_eq_true] at h
  exact ⟨h.1, headerOK_sound _ _ h.2⟩

/-- SOUNDNESS, spelled out on the significant tokens of the two TEXTS.  If the checker accepts
    (inp, out) there are statement lists `SI`, `SO` such that
    * `SI`, concatenated, is the token stream of `inp` (EOF appended) after the body-level rewrites,
      and those rewrites are an instance of the explicit relation `Rewrites`;
    * `SO`, concatenated, is the token stream of `out` (EOF appended) — unchanged;
    * `SO` is `SI` rearranged as `HeaderRel` allows: syntax / package / all other declarations
      identical and in the same order, imports permuted minus comment-free duplicates, options
      reordered stably — and hence (`header_permutation`) a permutation of `SI` minus the elided imports.
    What this does NOT say: that two token streams so related have the same PARSE — that step is
    the library assumption (protocompile's parser is a function of the significant tokens) plus
    the reading of `Rewrites`/`HeaderRel` as meaning-preserving; the roles are validated against
    protocompile's AST per program only. -/
theorem checker_sound_tokens (inp out : Str) (h : validFormat inp out = true) :
    ∃ SI SO : List Stmt,
      toks SI.flatten = norm (sig (lex inp) ++ [eofTok]) ∧
      Rewrites (annotate (sig (lex inp) ++ [eofTok])) (toks SI.flatten) ∧
      toks SO.flatten = sig (lex out) ++ [eofTok] ∧
      HeaderRel SI SO := by
  have hr := checker_sound inp out h
  refine ⟨_, _, ?_, ?_, ?_, hr.header⟩
  · rw [toks_flatten_gapNorm, stmts_flatten, normD_toks, decorate_toks]
  · rw [toks_flatten_gapNorm, stmts_flatten, normD_toks, decorate_toks]
    exact norm_rewrites _
  · rw [toks_flatten_gapNorm, stmts_flatten, decorate_toks]

/-- What `HeaderRel` implies globally: the output statements are a permutation of the input
    statements minus the elided ones; every elided statement is an import without any comment
    whose file is imported by a kept import. -/
theorem header_permutation (si so : List Stmt) (h : HeaderRel si so) :
    ∃ elided : List Stmt, (so ++ elided).Perm si ∧
      ∀ e ∈ elided, cls e = .imp ∧ stmtComments e = [] ∧ ∃ k ∈ so, cls k = .imp ∧ importName k = importName e :=
  h.perm

/-- The header rearrangement as a CHAIN OF ELEMENTARY STEPS (`HStep`): whatever `HeaderRel`
    relates is reachable by finitely many steps, each of which either exchanges two adjacent
    file-level statements whose relative order does not matter (an import with anything;
    statements of different classes — this is the hoisting; two options with different names) or
    removes a comment-free import of a file that another remaining import statement imports. -/
theorem header_chain (si so : List Stmt) (h : HeaderRel si so) : HSteps si so := h.chain

/-- Every elementary step preserves what can be stated about the meaning on statement lists:
    syntax, package and all declarations in their order; for every option name the sequence of
    its statements (a repeated option keeps the order of its values); the set of imported files;
    all comments with their anchors.  (That equal such data give equal descriptors is the library
    assumption — there is no parser model.) -/
theorem step_preserves_meaning (a b : List Stmt) (h : HStep a b) : SameMeaning a b := h.sound

theorem chain_preserves_meaning (a b : List Stmt) (h : HSteps a b) : SameMeaning a b := h.sound

/-- SOUNDNESS as a rewrite chain between the two texts: token-level `Rewrites` on the input
    stream, then `HSteps` on its statements, ends in the statements of the output stream. -/
theorem checker_sound_chain (inp out : Str) (h : validFormat inp out = true) :
    ∃ SI SO : List Stmt,
      Rewrites (annotate (sig (lex inp) ++ [eofTok])) (toks SI.flatten) ∧
      HSteps SI SO ∧
      toks SO.flatten = sig (lex out) ++ [eofTok] := by
  obtain ⟨SI, SO, _, h2, h3, h4⟩ := checker_sound_tokens inp out h
  exact ⟨SI, SO, h2, h4.chain, h3⟩

-- the two kinds of step are possible, and a forbidden exchange is not a step's premise
example : HStep [exStmtA, exStmtB] [exStmtB, exStmtA] := .swap [] [] _ _ (by decide)
example : conflict exStmtB exStmtB := by decide

/-! ### comments -/

/-- No comment is lost or invented: the comment contents of the output are a permutation of
    those of the input (content = the words of the comment: the formatter re-indents block
    comments and turns `// x` into `/* x */` when it prints it in-line). -/
theorem comments_preserved (inp out : Str) (h : validFormat inp out = true) :
    ((comments (lex out)).map commentKey).Perm ((comments (lex inp)).map commentKey) := by
  have hr := checker_sound inp out h
  obtain ⟨el, hp, hel⟩ := hr.header.perm
  -- comments of the output statements ++ comments of elided = comments of input statements
  have h1 : (commentsOf ((stmts (decorate (lex out))).map gapNorm ++ el).flatten).Perm
      (commentsOf ((stmts (normD (decorate (lex inp)))).map gapNorm).flatten) := by
    rw [← anchors_keys, ← anchors_keys]
    exact (List.Perm.flatMap_right stmtAnchors hp).map _
  have hel0 : commentsOf el.flatten = [] := by
    rw [← anchors_keys]
    have : anchors el = [] := by
      unfold anchors
      apply List.flatMap_eq_nil_iff.mpr
      intro e he
      exact stmtAnchors_nil_of_no_comments e (hel e he).2.1
    rw [this]; rfl
  rw [List.flatten_append, commentsOf_append, hel0, List.append_nil, commentsOf_flatten_gapNorm,
    commentsOf_flatten_gapNorm, stmts_flatten, stmts_flatten, decorate_comments] at h1
  exact h1.trans ((normD_comments _ hr.clean).trans (by rw [decorate_comments]))

/-- "Every comment stays attached to the same declaration."  With `SI` the declarations of the
    rewritten input and `SO` those of the output (both with interior comment gaps normalised):
    * the anchors of `SI` are exactly the comments of `inp`, the anchors of `SO` exactly the
      comments of `out` (nothing escapes the comparison);
    * the anchors of `SO` are a permutation of the anchors of `SI`: for every comment of the input
      the output has the same comment attached on the same side (leading / trailing) of the token
      with the same index in a declaration with the same token text.
    Moves that are built into the comparison (documented): (a) a comment BETWEEN two tokens of one
    declaration counts as leading for the right token unless the left token is `;`, `{` or a
    body-closing `}` (`gapNorm`); (b) the trailing comment of a dropped message-literal separator
    moves to the last token of the field value before it, or, when that token already has a
    trailing comment, in front of the leading comments of the token after the separator
    (`absorb`; before the repair it was lost in the second case: `sep_trailing_comment_lost_counterexample`);
    (c) a token that is dropped carries no other comment (`FormatRel.clean`), otherwise the run is
    rejected. -/
theorem comments_attached (inp out : Str) (h : validFormat inp out = true) :
    let SI := (stmts (normD (decorate (lex inp)))).map gapNorm
    let SO := (stmts (decorate (lex out))).map gapNorm
    ((anchors SI).map (·.key)).Perm ((comments (lex inp)).map commentKey) ∧
    (anchors SO).map (·.key) = (comments (lex out)).map commentKey ∧
    (anchors SO).Perm (anchors SI) := by
  intro SI SO
  have hr := checker_sound inp out h
  refine ⟨?_, ?_, ?_⟩
  · rw [anchors_keys, commentsOf_flatten_gapNorm, stmts_flatten, ← decorate_comments]
    exact normD_comments _ hr.clean
  · rw [anchors_keys, commentsOf_flatten_gapNorm, stmts_flatten, decorate_comments]
  · obtain ⟨el, hp, hel⟩ := hr.header.perm
    have h1 := List.Perm.flatMap_right stmtAnchors hp
    have : el.flatMap stmtAnchors = [] := by
      apply List.flatMap_eq_nil_iff.mpr
      intro e he
      exact stmtAnchors_nil_of_no_comments e (hel e he).2.1
    rw [List.flatMap_append, this, List.append_nil] at h1
    exact h1

/-! ### file contents: the byte order mark, files without tokens -/

/-- `stripBOM` removes one leading U+FEFF and nothing else. -/
theorem stripBOM_spec (s : Str) : stripBOM s = s ∨ s = bomChar :: stripBOM s := by
  cases s with
  | nil => left; rfl
  | cons c cs =>
    unfold stripBOM
    by_cases h : c = bomChar
    · right; simp [h]
    · left; simp [h]

/-- the byte order mark is not (part of) a comment: the comments of a file are the comments of
    the text behind the mark. -/
theorem comments_stripBOM (s : Str) : comments (lex (stripBOM s)) = comments (lex s) := by
  rcases stripBOM_spec s with h | h
  · rw [h]
  · conv => rhs; rw [h]
    rw [lex_bom]
    unfold comments
    simp [List.filter, Token.isComment]

/-- soundness of the checker the driver runs, on file contents: acceptance relates the text of
    the input BEHIND ITS BYTE ORDER MARK (what protocompile lexes) to the output. -/
theorem file_checker_sound (inp out : Str) (h : validFormatFile inp out = true) :
    FormatRel (decorate (lex (stripBOM inp))) (decorate (lex out)) :=
  checker_sound _ _ h

/-- no comment of a FILE is lost or invented (byte order mark or not). -/
theorem file_comments_preserved (inp out : Str) (h : validFormatFile inp out = true) :
    ((comments (lex out)).map commentKey).Perm ((comments (lex inp)).map commentKey) := by
  rw [← comments_stripBOM inp]
  exact comments_preserved _ _ h

/-- A run whose output is EMPTY is accepted only if the input has no comment at all: a file that
    consists of comments only (a licence header, everything commented out -- all its comments
    belong to the EOF token) cannot be formatted to the empty file. -/
theorem comment_only_file_not_emptied (inp : Str) (h : validFormatFile inp [] = true) :
    comments (lex inp) = [] := by
  have hp := file_comments_preserved inp [] h
  have h0 : comments (lex ([] : Str)) = [] := rfl
  rw [h0] at hp
  have := hp.symm.eq_nil
  exact List.map_eq_nil_iff.mp this

/-- the number of comments never changes in an accepted run -/
theorem file_comment_count (inp out : Str) (h : validFormatFile inp out = true) :
    (comments (lex out)).length = (comments (lex inp)).length := by
  have := (file_comments_preserved inp out h).length_eq
  simpa using this

/-- why the rule is needed: without it the mark is a token of the input that the output lacks -/
theorem bom_needs_stripping_counterexample :
    validFormat (bomChar :: "// c\n".toList) "// c\n".toList = false ∧
    validFormatFile (bomChar :: "// c\n".toList) "// c\n".toList = true := by decide +kernel

/-! ### the normal form -/

/-- A formatted text is accepted as its own format. -/
theorem formatted_accepts_itself (x : Str) (h : isFormatted x = true) : validFormat x x = true := by
  unfold isFormatted formattedD at h
  simp only [Bool.and_eq_true] at h
  obtain ⟨⟨⟨hk, _⟩, _⟩, _⟩ := h
  unfold validFormat validD
  rw [normD_keep _ hk, dropsClean_keep _ hk, headerOK_refl]
  rfl

/-- The modelled token-level formatter (body rewrites; split; hoist, sort, elide; concatenate)
    leaves a formatted text unchanged: `isFormatted` IS its fixed-point set, tokens and comments.
    Together with `header_idempotent` this is the idempotence statement that can be proved; that
    the REAL printer reproduces its own output is checked per program (`format(out) = out`). -/
theorem formatted_fixed_point (x : Str) (h : isFormatted x = true) :
    fmtModel (decorate (lex x)) = decorate (lex x) := by
  unfold isFormatted formattedD at h
  simp only [Bool.and_eq_true, beq_iff_eq] at h
  obtain ⟨⟨⟨hk, hc⟩, _⟩, _⟩ := h
  unfold fmtModel
  rw [normD_keep _ hk, hc, stmts_flatten]


/-! ### non-vacuity: the checker accepts a real formatter run and rejects mutated outputs -/

-- `exIn` / `exOut` (Lemmas/FormatLemmas.lean): a real run — imports sorted (the trailing comment travels with
-- its import), `<>` → `{}`, the separator `,` dropped and its trailing comment moved to the value, empty statement dropped
example : validFormat exIn exOut = true := by decide +kernel
example : isFormatted exOut = true := by decide +kernel
-- a comment dropped (`// ta`)
example : validFormat exIn "import \"a\"; // ia\nimport \"b\";\n\noption x = {\n  a: 1 // s\n  b: {}\n};\n\nmessage M {\n  int32 a = 1;\n  /* lb */\n  int32 b = 2;\n}\n".toList = false := by decide +kernel
-- the trailing comment of field a moved to the NEXT declaration (now leads field b)
example : validFormat exIn "import \"a\"; // ia\nimport \"b\";\n\noption x = {\n  a: 1 // s\n  b: {}\n};\n\nmessage M {\n  int32 a = 1;\n  // ta\n  /* lb */\n  int32 b = 2;\n}\n".toList = false := by decide +kernel
-- the leading comment of field b attached to the PREVIOUS declaration (now trails field a)
example : validFormat "message M{int32 a=1;\n /* lb */ int32 b=2;}".toList "message M {\n  int32 a = 1; /* lb */\n  int32 b = 2;\n}\n".toList = false := by decide +kernel
example : validFormat "message M{int32 a=1;\n /* lb */ int32 b=2;}".toList "message M {\n  int32 a = 1;\n  /* lb */\n  int32 b = 2;\n}\n".toList = true := by decide +kernel
-- the comment of import "a" printed on import "b"
example : validFormat "import \"b\";import \"a\"; // ia\n".toList "import \"a\";\nimport \"b\"; // ia\n".toList = false := by decide +kernel
-- two values of one repeated option swapped / kept
example : validFormat "option (r)=1;option (r)=2;".toList "option (r) = 2;\noption (r) = 1;\n".toList = false := by decide +kernel
example : validFormat "option (r)=1;option (a)=2;".toList "option (a) = 2;\noption (r) = 1;\n".toList = true := by decide +kernel
-- a token changed (sign dropped; literal respelled with another value)
example : validFormat "message M{int32 a=-1;}".toList "message M {\n  int32 a = 1;\n}\n".toList = false := by decide +kernel
example : validFormat "message M{int32 a=0x10;}".toList "message M {\n  int32 a = 10;\n}\n".toList = false := by decide +kernel
-- a duplicate import that carries a comment must not be elided; without comment it may
example : validFormat "import \"a\";//c\nimport \"a\";".toList "import \"a\";\n".toList = false := by decide +kernel
example : validFormat "import \"a\";import 'a';".toList "import \"a\";\n".toList = true := by decide +kernel
-- the trailing comment of a dropped separator whose value has a trailing comment already is printed
-- on its own line below the field (repaired); losing it, or printing it elsewhere, is rejected
example : validFormat "option (o) = { a: 1 // v\n , // s\n b: 2 };".toList "option (o) = {\n  a: 1 // v\n  // s\n  b: 2\n};\n".toList = true := by decide +kernel
example : validFormat "option (o) = { a: 1 // v\n , // s\n b: 2 };".toList "option (o) = {\n  a: 1 // v\n  b: 2\n};\n".toList = false := by decide +kernel
example : validFormat "option (o) = { a: 1 // v\n , // s\n b: 2 };".toList "option (o) = {\n  a: 1 // v\n  b: 2 // s\n};\n".toList = false := by decide +kernel
-- ... after a composite value (signed number) it moves to the last token of the value (repaired)
example : validFormat "option (o) = { d: -1.5, /* c */\n b: 2 };".toList "option (o) = {\n  d: -1.5 /* c */\n  b: 2\n};\n".toList = true := by decide +kernel
example : validFormat "option (o) = { d: -1.5, /* c */\n b: 2 };".toList "option (o) = {\n  d: -1.5\n  b: 2\n};\n".toList = false := by decide +kernel
-- a LEADING comment of a dropped separator is still lost by the formatter (recorded finding): rejected
example : validFormat "option (o) = { a: 1 /* c */ , b: 2 };".toList "option (o) = {\n  a: 1\n  b: 2\n};\n".toList = false := by decide +kernel
-- a duplicate import whose only comment sits between the parts of a concatenated name is kept (repaired)
example : validFormat "import \"a.proto\"; import \"a.\" /* c */ \"proto\";".toList "import\n  \"a.\"\n  /* c */\n  \"proto\"\n;\n".toList = true := by decide +kernel
example : isFormatted "import\n  \"a.\"\n  /* c */\n  \"proto\"\n;\n".toList = true := by decide +kernel
example : validFormat "import \"a.proto\"; import \"a.\" /* c */ \"proto\";".toList "import \"a.proto\";\n".toList = false := by decide +kernel
-- a comment on an empty statement would be lost with it: rejected whatever the output is
example : validFormat "message M{}\n// c\n;".toList "message M {}\n".toList = false := by decide +kernel
-- not in normal form: two spaces / options unsorted / an empty statement left / import after a message
example : isFormatted "option (r) = 1;\noption  (s) = 2;\n".toList = false := by decide +kernel
example : isFormatted "option (r) = 1;\noption (a) = 2;\n".toList = false := by decide +kernel
example : isFormatted "option (r) = 1;;\n".toList = false := by decide +kernel
example : isFormatted "message M {}\n\nimport \"a\";\n".toList = false := by decide +kernel

/-! ### header canonicalisation -/

/-- Canonicalising a canonical header changes nothing (imports: stable sort then elision; options:
    stable sort). -/
theorem header_idempotent (h : Header) : canon (canon h) = canon h := by
  have hs : Sorted ltImport (isort ltImport h.imports) := isort_sorted _ _ ltImport_asymm ltImport_negtrans
  have hsub : Sorted ltImport (elide none (isort ltImport h.imports)) :=
    List.Pairwise.sublist (elide_sublist _ _) hs
  have ho : Sorted ltOption (isort ltOption h.options) := isort_sorted _ _ ltOption_asymm ltOption_negtrans
  simp only [canon, canonImports, canonOptions]
  rw [isort_of_sorted _ _ hsub, elide_idem, isort_of_sorted _ _ ho]

set_option maxRecDepth 100000 in
/-- The repaired finding `comment-dropped:comment-inside-concatenated-string`, in the model of the
    code BEFORE the repair (`importHasCommentOld`): the old predicate does not look between the
    parts of a concatenated file name, so the duplicate import counted as comment-free and was
    elided together with its comment; the repaired predicate (`importHasComment`: any token of the
    statement) sees the comment, and the modelled canonicalisation keeps the statement and the
    comment.  (The checker rejects a run that elides it: the elided statement carries a comment.) -/
theorem elision_loses_comment_counterexample :
    let ss := stmts (decorate (lex "import \"a.proto\"; import \"a.\" /* c */ \"proto\";".toList))
    (ofCls .imp ss).map importHasCommentOld = [false, false] ∧
      (ofCls .imp ss).map importHasComment = [false, true] ∧
      (canonImports (ofCls .imp ss)).length = 1 ∧
      commentsOf (canonImports (ofCls .imp ss)).flatten = commentsOf ss.flatten ∧ commentsOf ss.flatten ≠ [] := by
  decide +kernel

set_option maxRecDepth 100000 in
/-- The repaired finding `comment-dropped:trailing-comment-on-message-literal-separator-whose-value-has-one`,
    in the model of the code BEFORE the repair (`absorbOld`): the trailing comment `s` of the
    dropped `,` is lost when the value `1` has the trailing comment `v`; the repaired rule
    (`absorb`) hands it to the token after the separator, so nothing is lost. -/
theorem sep_trailing_comment_lost_counterexample :
    let ds := decorate (lex "option (o) = { a: 1 // v\n , // s\n b: 2 };".toList)
    let l := ds.zip (roles (toks ds))
    (commentsOf ds).length = 2 ∧
      (commentsOf ((l.foldr absorbOld []).flatMap normTokD)).length = 1 ∧
      (commentsOf (normD ds)).length = 2 ∧ dropsClean (annotateD ds) = true := by
  decide +kernel

/-- The canonical option order is sorted and a permutation of the input. -/
theorem canonOptions_sorted_perm (l : List Stmt) : SortedPermOf ltOption l (canonOptions l) :=
  ⟨isort_perm _ _, isort_sorted _ _ ltOption_asymm ltOption_negtrans⟩

/-- The stable sort keeps the relative order of the statements of every option name: repeated
    options keep the order of their values. -/
theorem option_order_preserved_by_stable (l : List Stmt) (k : List Nat) :
    (canonOptions l).filter (optionKey · = k) = l.filter (optionKey · = k) := by
  apply isort_filter
  intro x y hyx hpx
  simp only [decide_eq_true_eq] at hpx
  simp only [decide_eq_false_iff_not]
  intro hy
  have : ltOption y x = false := by
    unfold ltOption; rw [hy, hpx]; exact lexLt_irrefl _
  rw [this] at hyx; exact absurd hyx (by simp)

/-- The modelled (fixed) option sort satisfies the checker's option clause.  PARTIAL with respect
    to "iff": the converse (a sorted permutation that keeps every class order IS the stable sort)
    is not proved. -/
theorem option_order_preserved_iff_stable_partial (l : List Stmt) :
    OptionsRel l (canonOptions l) :=
  ⟨isort_perm _ _, option_order_preserved_by_stable l⟩

/-- sort.Slice (pre-fix) may return ANY sorted permutation.  Concrete instance: values 1,2 of one
    repeated option; the permutation [2,1] is sorted (equal keys) but not the source order. -/
theorem unstable_sort_counterexample :
    let lt : (Nat × Nat) → (Nat × Nat) → Bool := fun a b => a.1 < b.1
    let l := [(7, 1), (7, 2), (3, 0)]
    let out := [(3, 0), (7, 2), (7, 1)]
    SortedPermOf lt l out ∧ out.filter (·.1 = 7) ≠ l.filter (·.1 = 7) ∧
      (isort lt l).filter (·.1 = 7) = l.filter (·.1 = 7) := by
  refine ⟨⟨by decide, by unfold Sorted; decide⟩, by decide, by decide⟩

-- degenerate files (family "degenerate"): comments of a file without tokens belong to EOF and must stay
example : validFormatFile "// licence\n\n/* all commented out */".toList "// licence\n\n/* all commented out */\n".toList = true := by decide +kernel
example : isFormatted "// licence\n\n/* all commented out */\n".toList = true := by decide +kernel
example : validFormatFile "// licence\n".toList [] = false := by decide +kernel                     -- seeded change C07-m10
example : validFormatFile "// a\n// b\n".toList "// a\n".toList = false := by decide +kernel
example : validFormatFile "message M {} // t".toList "message M {}\n".toList = false := by decide +kernel   -- trailing comment of the last declaration, no final newline
example : validFormatFile "message M {} // t".toList "message M {} // t\n".toList = true := by decide +kernel
example : validFormatFile "syntax = \"proto3\";\n// after".toList "syntax = \"proto3\";\n".toList = false := by decide +kernel
example : validFormatFile [] [] = true := by decide +kernel
example : isFormatted [] = true := by decide +kernel
-- comments on the separators and brackets of option literals (family "lit")
example : validFormatFile "option (o) = { r: [1], // c\n a: 2 };".toList "option (o) = {\n  r: [1] // c\n  a: 2\n};\n".toList = true := by decide +kernel
example : validFormatFile "option (o) = { r: [1], // c\n a: 2 };".toList "option (o) = {\n  r: [1]\n  a: 2\n};\n".toList = false := by decide +kernel   -- seeded change C07-m9
example : validFormatFile "option (o) = { r: [ // c\n 1, 2] };".toList "option (o) = {\n  r: [\n    1,\n    2\n  ]\n};\n".toList = false := by decide +kernel   -- comment behind '[' dropped
example : validFormatFile "option (o) = { r: [ // c\n 1, 2] };".toList "option (o) = {\n  r: [\n    // c\n    1,\n    2\n  ]\n};\n".toList = true := by decide +kernel

end BufProofs.C07
