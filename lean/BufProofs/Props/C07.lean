import BufProofs.Lemmas.FormatLemmas
/-
  C07 — Formatting preserves meaning and comments and is idempotent.
  Level: translation validation.  What is PROVED here is about the model in BufModel/Format.lean:
  the lexer, the rewrite relation, the header canonicalisation and the SOUNDNESS of the executable
  checker `validFormat`.  What is VALIDATED per program (correspondence harness) is that the real
  formatter's output is accepted by the checker, and that the model's lexer / role automaton /
  header canonicalisation agree with protocompile's AST and the formatter's actual header order.
  NOT proved: that the 2.4k-line printer emits `validFormat` output for every input.
-/
namespace BufProofs.C07
open BufModel.Format

/-! ### lexer -/

/-- Concatenating the token texts gives back the input, for every input. -/
theorem lexer_roundtrip (s : Str) : (lex s).flatMap (·.text) = s := lexAux_roundtrip _ s

/-- The lexer is total with fuel = input length: the out-of-fuel token is never produced and every
    token consumes at least one character. -/
theorem lexer_total (s : Str) : ∀ t ∈ lex s, t.kind ≠ .fuel ∧ t.text ≠ [] :=
  lexAux_no_fuel _ s (Nat.le_refl _)

example : (sig (lex "a=1;//c\n".toList)).map (·.text) = ["a".toList, "=".toList, "1".toList, ";".toList] := by decide
example : (lex "x='a\\'b'/*c*/1e-3".toList).map (·.kind) = [.ident, .sym, .str, .blockComment, .num] := by decide

/-! ### the documented rewrites -/

/-- what the checker accepts for the file header -/
structure ImportsRel (ins outs : List Stmt) : Prop where
  /-- the output imports are a permutation of the input imports minus the elided ones -/
  split : ∃ kept elided : List Stmt, (kept ++ elided).Perm ins ∧ kept.map stmtText = outs.map stmtText ∧
    /- an elided import carries no comment and its file is imported by a kept statement -/
    ∀ e ∈ elided, importHasComment e = false ∧ ∃ k ∈ outs, importName k = importName e

/-- a STABLE reordering: a permutation that keeps the relative order of the statements of every
    option name -/
structure OptionsRel (ins outs : List (List Token)) : Prop where
  perm : outs.Perm ins
  stable : ∀ k, outs.filter (optionKeyT · = k) = ins.filter (optionKeyT · = k)

/-- `sig out ≈ sig inp` under exactly the documented rewrites. -/
structure FormatRel (inp out : Str) : Prop where
  /-- body-level rewrites of the input: empty statements dropped, message-literal `<>` → `{}`,
      optional separators dropped, missing `:` added — each step is a constructor of `Rewrites` -/
  body : Rewrites (annotate (sig (lex inp))) (norm (sig (lex inp)))
  syn : (headerOf inp).syn.map stmtText = (headerOf out).syn.map stmtText
  pkg : (headerOf inp).pkg.toList.map stmtText = (headerOf out).pkg.toList.map stmtText
  /-- everything that is not syntax/package/import/option: same tokens, same order -/
  rest : (headerOf inp).rest.map stmtText = (headerOf out).rest.map stmtText
  imports : ImportsRel (headerOf inp).imports (headerOf out).imports
  options : OptionsRel ((headerOf inp).options.map stmtText) ((headerOf out).options.map stmtText)

theorem roleOf_ok (st : AState) (t : Token) (rest : List Token) :
    ((roleOf st t rest).1 = .dropEmpty → t.is ";") ∧
    ((roleOf st t rest).1 = .dropSep → (t.is "," ∨ t.is ";")) ∧
    ((roleOf st t rest).1 = .toOpenBrace → t.is "<") ∧
    ((roleOf st t rest).1 = .toCloseBrace → t.is ">") := by
  unfold roleOf
  repeat' split
  all_goals simp_all

theorem annotateFrom_ok (st : AState) (ts : List Token) :
    ∀ p ∈ annotateFrom st ts, (p.2 = .dropEmpty → p.1.is ";") ∧ (p.2 = .dropSep → (p.1.is "," ∨ p.1.is ";")) ∧
      (p.2 = .toOpenBrace → p.1.is "<") ∧ (p.2 = .toCloseBrace → p.1.is ">") := by
  induction ts generalizing st with
  | nil => simp [annotateFrom]
  | cons t rest ih =>
    intro p hp
    simp only [annotateFrom, List.mem_cons] at hp
    rcases hp with rfl | hp
    · exact roleOf_ok st t rest
    · exact ih _ p hp

/-- The normaliser only ever applies the documented rewrites. -/
theorem norm_rewrites (ts : List Token) : Rewrites (annotate ts) (norm ts) :=
  norm_rewrites_aux _ (annotateFrom_ok {} ts)

theorem eraseStmt_spec (p : Stmt → Bool) (l l' : List Stmt) (h : eraseStmt p l = some l') :
    ∃ y, p y = true ∧ (y :: l').Perm l := by
  induction l generalizing l' with
  | nil => simp [eraseStmt] at h
  | cons x xs ih =>
    unfold eraseStmt at h
    by_cases hx : p x = true
    · simp [hx] at h; subst h; exact ⟨x, hx, List.Perm.refl _⟩
    · simp [hx] at h
      obtain ⟨r, hr, rfl⟩ := h
      obtain ⟨y, hy, hperm⟩ := ih r hr
      exact ⟨y, hy, (List.Perm.swap x y r).trans (List.Perm.cons x hperm)⟩

theorem matchImports_spec (ins outs el : List Stmt) (h : matchImports ins outs = some el) :
    ∃ kept, (kept ++ el).Perm ins ∧ kept.map stmtText = outs.map stmtText := by
  induction outs generalizing ins with
  | nil => simp [matchImports] at h; subst h; exact ⟨[], List.Perm.refl _, rfl⟩
  | cons o os ih =>
    unfold matchImports at h
    split at h
    · rename_i ins' he
      obtain ⟨y, hy, hperm⟩ := eraseStmt_spec _ _ _ he
      obtain ⟨kept, hk, hm⟩ := ih ins' h
      simp at hy
      exact ⟨y :: kept, (List.Perm.cons y hk).trans hperm, by simp [hm, hy.1]⟩
    · split at h
      · rename_i ins' he
        obtain ⟨y, hy, hperm⟩ := eraseStmt_spec _ _ _ he
        obtain ⟨kept, hk, hm⟩ := ih ins' h
        simp at hy
        exact ⟨y :: kept, (List.Perm.cons y hk).trans hperm, by simp [hm, hy]⟩
      · simp at h

theorem importsOK_sound (ins outs : List Stmt) (h : importsOK ins outs = true) : ImportsRel ins outs := by
  unfold importsOK at h
  split at h
  · rename_i el hm
    obtain ⟨kept, hk, hmap⟩ := matchImports_spec _ _ _ hm
    refine ⟨kept, el, hk, hmap, ?_⟩
    intro e he
    have := (List.all_eq_true.mp h) e he
    simp at this
    obtain ⟨h1, k, hk1, hk2⟩ := this
    exact ⟨h1, k, hk1, hk2⟩
  · simp at h

theorem optionsOKT_sound (ins outs : List (List Token)) (h : optionsOKT ins outs = true) :
    OptionsRel ins outs := by
  unfold optionsOKT at h
  simp only [Bool.and_eq_true] at h
  obtain ⟨hp, hall⟩ := h
  have hperm : outs.Perm ins := List.isPerm_iff.mp hp
  refine ⟨hperm, ?_⟩
  intro k
  by_cases hk : k ∈ ins.map optionKeyT
  · have := (List.all_eq_true.mp hall) k hk
    simpa using this
  · have e1 : ins.filter (optionKeyT · = k) = [] := by
      apply List.filter_eq_nil_iff.mpr
      intro a ha hka
      exact hk (List.mem_map.mpr ⟨a, ha, by simpa using hka⟩)
    have e2 : outs.filter (optionKeyT · = k) = [] := by
      apply List.filter_eq_nil_iff.mpr
      intro a ha hka
      exact hk (List.mem_map.mpr ⟨a, hperm.subset ha, by simpa using hka⟩)
    rw [e1, e2]

theorem sameToks_sound (a b : List Stmt) (h : sameToks a b = true) : a.map stmtText = b.map stmtText := by
  simpa [sameToks] using h

/-- SOUNDNESS of the translation validator: whatever input and output text it accepts, the
    significant tokens of the output are those of the input under exactly the documented rewrites
    (the explicit relation `FormatRel`).  protocompile's parser being a function of the significant
    tokens, the two files then have the same parse up to header order — that last step is the
    stated library assumption. -/
theorem checker_sound (inp out : Str) (h : validFormat inp out = true) : FormatRel inp out := by
  unfold validFormat at h
  simp only [Bool.and_eq_true] at h
  obtain ⟨⟨⟨⟨⟨h1, h2⟩, h3⟩, h4⟩, h5⟩, _⟩ := h
  exact {
    body := norm_rewrites _
    syn := sameToks_sound _ _ h1
    pkg := sameToks_sound _ _ h2
    rest := sameToks_sound _ _ h3
    imports := importsOK_sound _ _ h4
    options := optionsOKT_sound _ _ h5 }

/-- Every comment of the input is still in the output (as a multiset of comment contents up to
    the documented re-layout of comment text). -/
theorem comments_preserved (inp out : Str) (h : validFormat inp out = true) :
    ((comments (lex out)).map commentKey).Perm ((comments (lex inp)).map commentKey) := by
  unfold validFormat at h
  simp only [Bool.and_eq_true] at h
  exact List.isPerm_iff.mp (by simpa [commentsOK] using h.2)

/-! ### header canonicalisation -/

/-- Canonicalising a canonical header changes nothing (imports: stable sort then elision; options:
    stable sort). -/
theorem header_idempotent (h : Header) : canon (canon h) = canon h := by
  have hs : Sorted ltImport (isort ltImport h.imports) := isort_sorted _ _ ltImport_asymm ltImport_negtrans
  have hsub : Sorted ltImport (elide none (isort ltImport h.imports)) :=
    List.Pairwise.sublist (elide_sublist _ _) hs
  have ho : Sorted ltOption (isort ltOption h.options) := isort_sorted _ _ ltOption_asymm ltOption_negtrans
  simp only [canon, canonImports, canonOptions]
  rw [isort_of_sorted _ _ hsub, elide_idem, isort_of_sorted _ _ ho]

/-- The canonical option order is sorted and a permutation of the input. -/
theorem canonOptions_sorted_perm (l : List Stmt) : SortedPermOf ltOption l (canonOptions l) :=
  ⟨isort_perm _ _, isort_sorted _ _ ltOption_asymm ltOption_negtrans⟩

/-- The stable sort keeps the relative order of the statements of every option name: repeated
    options keep the order of their values. -/
theorem option_order_preserved_by_stable (l : List Stmt) (k : List Nat) :
    (canonOptions l).filter (optionKey · = k) = l.filter (optionKey · = k) := by
  apply isort_filter
  intro x y hyx hpx
  simp only [decide_eq_true_eq] at hpx
  simp only [decide_eq_false_iff_not]
  intro hy
  have : ltOption y x = false := by
    unfold ltOption; rw [hy, hpx]; exact lexLt_irrefl _
  rw [this] at hyx; exact absurd hyx (by simp)

/-- ... and consequently the checker's option clause accepts the modelled (fixed) formatter. -/
theorem option_order_preserved_iff_stable_partial (l out : List Stmt) (h : out = canonOptions l) :
    (∀ k, out.filter (optionKey · = k) = l.filter (optionKey · = k)) ∧ SortedPermOf ltOption l out := by
  subst h
  exact ⟨option_order_preserved_by_stable l, canonOptions_sorted_perm l⟩

/-- sort.Slice (pre-fix) may return ANY sorted permutation.  Concrete instance: values 1,2 of one
    repeated option; the permutation [2,1] is sorted (equal keys) but not the source order. -/
theorem unstable_sort_counterexample :
    let lt : (Nat × Nat) → (Nat × Nat) → Bool := fun a b => a.1 < b.1
    let l := [(7, 1), (7, 2), (3, 0)]
    let out := [(3, 0), (7, 2), (7, 1)]
    SortedPermOf lt l out ∧ out.filter (·.1 = 7) ≠ l.filter (·.1 = 7) ∧
      (isort lt l).filter (·.1 = 7) = l.filter (·.1 = 7) := by
  refine ⟨⟨by decide, by unfold Sorted; decide⟩, by decide, by decide⟩

/-! ### pending-space automaton -/

/-- A pending space is only ever written after a character that is not whitespace (nor the start
    of the output), and never in front of a newline, ';' or ',': `Space(); Space(); WriteString`
    cannot produce a doubled or dangling space. -/
theorem space_automaton_no_double_space (st : WState) (elem : Str) (h : emitsSpace st elem = true) :
    st.last ≠ ' ' ∧ st.last ≠ '\n' ∧ st.last ≠ '\t' ∧ st.last ≠ '\x00' ∧
      (∀ c, elem.head? = some c → c ≠ '\n' ∧ c ≠ ';' ∧ c ≠ ',') := by
  unfold emitsSpace at h
  cases hin : st.inline <;> cases elem <;> simp_all <;> grind

/-- Calling Space() twice is the same as calling it once. -/
theorem space_idempotent (st : WState) : space (space st) = space st := rfl

-- non-vacuity: the checker accepts a real rewrite and rejects a meaning change
example : validFormat "import \"b\";import \"a\";option x={a:1,b<>};;message M{;}".toList
    "import \"a\";\nimport \"b\";\n\noption x = {\n  a: 1\n  b: {}\n};\n\nmessage M {\n}\n".toList = true := by decide
example : validFormat "option (r)=1;option (r)=2;".toList "option (r) = 2;\noption (r) = 1;\n".toList = false := by decide
example : validFormat "message M{int32 a=-1;}".toList "message M {\n  int32 a = 1;\n}\n".toList = false := by decide
example : validFormat "import \"a\";//c\nimport \"a\";".toList "import \"a\";\n".toList = false := by decide

end BufProofs.C07
