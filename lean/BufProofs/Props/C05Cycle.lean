import BufProofs.Props.C05
/-
  C05 — PACKAGE_NO_IMPORT_CYCLE: the search as coded finds a cycle iff there is one.

  `handleLintPackageNoImportCycle` runs, for every package `pkg` and every package `d` it imports
  directly, ONE depth-first search `getImportCycleIfExists(d, …, used = {pkg}, …)` that backtracks
  (it deletes what it added when a branch fails), i.e. it explores every SIMPLE path of the package
  graph that starts at `d`; every import statement of `pkg`'s files that imports a file of `d` is
  annotated when the search comes back to `pkg`.  The model is `reaches w target fuel used cur`
  with fuel `|w| + 1` and a FRESH `used = [target]` per (package, directly imported package) pair.

  * `reaches_iff_walk` — with that fuel and a fresh `used`, `reaches` is true iff the package graph
    has a walk `cur → … → target` (through non-empty packages): soundness by induction on the fuel,
    completeness by loop erasure (`walk_simple`), the backtracking invariant (`reaches_complete`:
    a simple walk whose nodes are not on the stack is found whatever else is on the stack) and the
    pigeonhole bound (a simple walk visits at most `|w|` packages: `walk_length_le`).
  * `import_on_cycle_reported` / `import_cycle_annotation_on_cycle` — exactness of `importCycle`:
    the import statement `i` of a target file `f` is annotated iff the imported file's package is
    another, non-empty package from which `f`'s package can be reached.  In particular BOTH imports
    of a package whose two cycles share a package are annotated (`overlapping_cycles_both_reported`).
  * `reachesShared…` — the search with a `used` set that is SHARED by the searches of one start
    package and keeps a found cycle's packages (seed C05-m9): `shared_used_counterexample` shows it
    loses the second import of the workspace a → b, a → c, c → b, b → a.
-/
namespace BufProofs.C05
open BufModel.Case BufModel.Lint

/-! ## walks of the package graph -/

/-- `PkgWalk w t a p`: a walk from package `a` to package `t` along `pkgEdges w` through non-empty
    packages; `p` lists the packages visited before `t` is reached (`a` first). -/
inductive PkgWalk (w : Schema) (t : Str) : Str → List Str → Prop
  | here : PkgWalk w t t []
  | step {a b : Str} {p : List Str} :
      b ∈ pkgEdges w a → b.isEmpty = false → PkgWalk w t b p → PkgWalk w t a (a :: p)

theorem reaches_succ (w : Schema) (t : Str) (fuel : Nat) (used : List Str) (cur : Str) :
    reaches w t (fuel + 1) used cur =
      (if cur == t then true
       else if used.contains cur then false
       else (pkgEdges w cur).any fun nxt => !nxt.isEmpty && reaches w t fuel (cur :: used) nxt) := by
  simp [reaches]

/-- soundness, whatever fuel and stack: a successful search has walked a walk -/
theorem reaches_sound (w : Schema) (t : Str) : ∀ (fuel : Nat) (used : List Str) (cur : Str),
    reaches w t fuel used cur = true → ∃ p, PkgWalk w t cur p
  | 0, _, _, h => by simp [reaches] at h
  | fuel + 1, used, cur, h => by
    rw [reaches_succ] at h
    by_cases hc : (cur == t) = true
    · have : cur = t := by simpa using hc
      subst this
      exact ⟨[], .here⟩
    · simp [hc] at h
      obtain ⟨_, nxt, hn, hne, hr⟩ := h
      obtain ⟨p, hp⟩ := reaches_sound w t fuel _ _ hr
      exact ⟨cur :: p, .step hn (by simpa using hne) hp⟩

/-- the backtracking invariant: a SIMPLE walk none of whose packages (other than the target) is on
    the stack is found, given fuel for its length -/
theorem reaches_complete (w : Schema) (t : Str) {cur : Str} {p : List Str} (hw : PkgWalk w t cur p) :
    ∀ (fuel : Nat) (used : List Str), p.Nodup → (∀ x ∈ p, x ∉ used ∨ x = t) → p.length < fuel →
      reaches w t fuel used cur = true := by
  induction hw with
  | here =>
    intro fuel used _ _ hlen
    cases fuel with
    | zero => simp at hlen
    | succ f => rw [reaches_succ]; simp
  | @step a b p hb hne _ ih =>
    intro fuel used hnd hused hlen
    cases fuel with
    | zero => simp at hlen
    | succ f =>
      rw [reaches_succ]
      by_cases hc : (a == t) = true
      · simp [hc]
      · have hat : a ≠ t := by simpa using hc
        have hau : a ∉ used := by
          rcases hused a List.mem_cons_self with h | h
          · exact h
          · exact absurd h hat
        have hnd' := List.nodup_cons.mp hnd
        have hrec := ih f (a :: used) hnd'.2
          (fun x hx => by
            rcases hused x (List.mem_cons_of_mem _ hx) with h | h
            · left
              intro hmem
              rcases List.mem_cons.mp hmem with h2 | h2
              · exact hnd'.1 (h2 ▸ hx)
              · exact h h2
            · right; exact h)
          (by simp at hlen; omega)
        simp only [hc, Bool.false_eq_true, ↓reduceIte]
        have : used.contains a = false := by simpa using hau
        simp only [this, Bool.false_eq_true, ↓reduceIte, List.any_eq_true, Bool.and_eq_true]
        exact ⟨b, hb, by simp [hne], hrec⟩

/-- from any package on a walk the target is reached by the rest of the walk -/
theorem walk_suffix (w : Schema) (t : Str) {b : Str} {p : List Str} (hw : PkgWalk w t b p) :
    ∀ x ∈ p, ∃ q, PkgWalk w t x q ∧ q.Sublist p := by
  induction hw with
  | here => intro x hx; simp at hx
  | @step a b p hb hne hwb ih =>
    intro x hx
    rcases List.mem_cons.mp hx with h | h
    · subst h
      exact ⟨x :: p, .step hb hne hwb, List.Sublist.refl _⟩
    · obtain ⟨q, hq, hs⟩ := ih x h
      exact ⟨q, hq, hs.cons _⟩

/-- loop erasure: a walk contains a simple walk -/
theorem walk_simple (w : Schema) (t : Str) {a : Str} {p : List Str} (hw : PkgWalk w t a p) :
    ∃ q, PkgWalk w t a q ∧ q.Nodup ∧ q.Sublist p := by
  induction hw with
  | here => exact ⟨[], .here, List.nodup_nil, List.Sublist.refl _⟩
  | @step a b p hb hne _ ih =>
    obtain ⟨q, hq, hnd, hs⟩ := ih
    by_cases ha : a ∈ q
    · obtain ⟨q', hq', hs'⟩ := walk_suffix w t hq a ha
      exact ⟨q', hq', hnd.sublist hs', (hs'.trans hs).cons _⟩
    · exact ⟨a :: q, .step hb hne hq, List.nodup_cons.mpr ⟨ha, hnd⟩, hs.cons_cons _⟩

theorem mem_lintDedup {x : Str} : ∀ {l : List Str}, x ∈ dedup l → x ∈ l
  | [], h => by simp [dedup] at h
  | y :: l, h => by
    have hd : dedup (y :: l) = if (dedup l).contains y then dedup l else y :: dedup l := rfl
    rw [hd] at h
    by_cases hc : (dedup l).contains y = true
    · rw [if_pos hc] at h
      exact List.mem_cons_of_mem _ (mem_lintDedup h)
    · rw [if_neg hc] at h
      rcases List.mem_cons.mp h with h2 | h2
      · rw [h2]; exact List.mem_cons_self
      · exact List.mem_cons_of_mem _ (mem_lintDedup h2)

/-- a package with an outgoing edge is the package of a file of the workspace -/
theorem edge_source (w : Schema) {a b : Str} (h : b ∈ pkgEdges w a) : ∃ f ∈ w, f.pkg = a := by
  unfold pkgEdges at h
  have h2 := mem_lintDedup h
  rw [List.mem_flatMap] at h2
  obtain ⟨f, hf, _⟩ := h2
  rw [List.mem_filter] at hf
  exact ⟨f, hf.1, by simpa using hf.2⟩

theorem walk_nodes (w : Schema) (t : Str) {a : Str} {p : List Str} (hw : PkgWalk w t a p) :
    ∀ x ∈ p, x ∈ w.map File.pkg := by
  induction hw with
  | here => intro x hx; simp at hx
  | @step a b p hb _ _ ih =>
    intro x hx
    rcases List.mem_cons.mp hx with h | h
    · obtain ⟨f, hf, hp⟩ := edge_source w hb
      rw [h, ← hp]
      exact List.mem_map_of_mem hf
    · exact ih x h

/-- pigeonhole: a simple walk visits at most `|w|` packages — the fuel `|w| + 1` suffices -/
theorem walk_length_le (w : Schema) (t : Str) {a : Str} {p : List Str} (hw : PkgWalk w t a p)
    (hnd : p.Nodup) : p.length ≤ w.length := by
  have := List.Nodup.length_le_of_subset hnd (fun x hx => walk_nodes w t hw x hx)
  simpa using this

/-- **The search as coded decides reachability**: started with the fuel of the model and a FRESH
    stack holding only the start package `t`, it succeeds iff the package graph has a walk from
    `c` back to `t`. -/
theorem reaches_iff_walk (w : Schema) (t c : Str) :
    reaches w t (w.length + 1) [t] c = true ↔ ∃ p, PkgWalk w t c p := by
  constructor
  · exact reaches_sound w t _ _ _
  · rintro ⟨p, hp⟩
    obtain ⟨q, hq, hnd, _⟩ := walk_simple w t hp
    refine reaches_complete w t hq _ _ hnd (fun x _ => ?_) (by have := walk_length_le w t hq hnd; omega)
    by_cases hx : x = t
    · right; exact hx
    · left; simpa using hx

/-! ## exactness of `importCycle` -/

/-- every import statement that lies on a package cycle is annotated -/
theorem import_on_cycle_reported (w : Schema) (f : File) (hf : f ∈ w) (hni : f.isImport = false)
    (hp : f.pkg.isEmpty = false) (i : Nat) (imp : Import) (hi : (i, imp) ∈ indexed f.imports)
    (g : File) (hg : findFile w imp.path = some g) (hne : (g.pkg == f.pkg) = false)
    (hge : g.pkg.isEmpty = false) (p : List Str) (hw : PkgWalk w f.pkg g.pkg p) :
    ann .PACKAGE_NO_IMPORT_CYCLE f [3, i] ∈ importCycle w := by
  unfold importCycle
  rw [List.mem_flatMap]
  refine ⟨f, by unfold nonImport; rw [List.mem_filter]; exact ⟨hf, by simp [hni]⟩, ?_⟩
  simp only [hp, Bool.false_eq_true, ↓reduceIte]
  rw [List.mem_flatMap]
  refine ⟨(i, imp), hi, ?_⟩
  simp only [hg, hne, hge, Bool.or_self, Bool.false_eq_true, ↓reduceIte]
  rw [(reaches_iff_walk w f.pkg g.pkg).mpr ⟨p, hw⟩]
  simp

/-- every annotation is an import statement of a target file that lies on a package cycle -/
theorem import_cycle_annotation_on_cycle (w : Schema) (a : Annotation) (h : a ∈ importCycle w) :
    ∃ f ∈ w, f.isImport = false ∧ f.pkg.isEmpty = false ∧ ∃ i imp, (i, imp) ∈ indexed f.imports ∧
      ∃ g, findFile w imp.path = some g ∧ (g.pkg == f.pkg) = false ∧ g.pkg.isEmpty = false ∧
        (∃ p, PkgWalk w f.pkg g.pkg p) ∧ a = ann .PACKAGE_NO_IMPORT_CYCLE f [3, i] := by
  unfold importCycle at h
  rw [List.mem_flatMap] at h
  obtain ⟨f, hf, h⟩ := h
  unfold nonImport at hf
  rw [List.mem_filter] at hf
  by_cases hp : f.pkg.isEmpty = true
  · simp [hp] at h
  · have hp' : f.pkg.isEmpty = false := by simpa using hp
    simp only [hp', Bool.false_eq_true, ↓reduceIte] at h
    rw [List.mem_flatMap] at h
    obtain ⟨⟨i, imp⟩, hi, h⟩ := h
    refine ⟨f, hf.1, by simpa using hf.2, hp', i, imp, hi, ?_⟩
    cases hg : findFile w imp.path with
    | none => simp [hg] at h
    | some g =>
      simp only [hg] at h
      by_cases hc : (g.pkg == f.pkg || g.pkg.isEmpty) = true
      · simp [hc] at h
      · have hc' : (g.pkg == f.pkg || g.pkg.isEmpty) = false := by simpa using hc
        rw [Bool.or_eq_false_iff] at hc'
        simp only [hc'.1, hc'.2, Bool.or_self, Bool.false_eq_true, ↓reduceIte] at h
        by_cases hr : reaches w f.pkg (w.length + 1) [f.pkg] g.pkg = true
        · simp only [hr, ↓reduceIte, List.mem_singleton] at h
          exact ⟨g, rfl, hc'.1, hc'.2, (reaches_iff_walk w f.pkg g.pkg).mp hr, h⟩
        · simp [hr] at h

/-! ## overlapping cycles: a → b, a → c, c → b, b → a (seed C05-m9) -/

def ovFile (path pkg : String) (imps : List String) : File :=
  { path := path.toList, pkg := pkg.toList, imports := imps.map fun p => { path := p.toList } }

/-- packages a, b, c; a imports b and c, c imports b, b imports a: the cycles a → b → a and
    a → c → b → a share the package b -/
def ovW : Schema :=
  [ovFile "a/a.proto" "a" ["b/b.proto", "c/c.proto"], ovFile "b/b.proto" "b" ["a/a.proto"],
   ovFile "c/c.proto" "c" ["b/b.proto"]]

/-- BOTH imports of a/a.proto are annotated, and the single imports of b and c -/
theorem overlapping_cycles_both_reported :
    importCycle ovW =
      [⟨.PACKAGE_NO_IMPORT_CYCLE, "a/a.proto".toList, [3, 0]⟩, ⟨.PACKAGE_NO_IMPORT_CYCLE, "a/a.proto".toList, [3, 1]⟩,
       ⟨.PACKAGE_NO_IMPORT_CYCLE, "b/b.proto".toList, [3, 0]⟩, ⟨.PACKAGE_NO_IMPORT_CYCLE, "c/c.proto".toList, [3, 0]⟩] := by
  decide

/-- getImportCycleIfExists with the `used` set handed on: on success the packages of the found
    cycle STAY in the set (the function returns without deleting), on failure they are removed. -/
def reachesShared (w : Schema) (target : Str) : Nat → List Str → Str → Bool × List Str
  | 0, used, _ => (false, used)
  | fuel + 1, used, cur =>
    if cur == target then (true, used)
    else if used.contains cur then (false, used)
    else (pkgEdges w cur).foldl (fun acc nxt =>
        if acc.1 || nxt.isEmpty then acc
        else
          let r := reachesShared w target fuel (cur :: used) nxt
          if r.1 then (true, r.2) else acc) (false, used)

/-- the searches of ONE start package share the set (seed C05-m9) -/
def sharedSearches (w : Schema) (start : Str) : List Str → List Str → List (Str × Bool)
  | [], _ => []
  | d :: ds, used =>
    let r := reachesShared w start (w.length + 1) used d
    (d, r.1) :: sharedSearches w start ds r.2

/-- with the shared set the search for a → c gives up at b (left in the set by the search for
    a → b), although `reaches` — fresh set per search — finds a → c → b → a -/
theorem shared_used_counterexample :
    sharedSearches ovW "a".toList ["b".toList, "c".toList] ["a".toList] = [("b".toList, true), ("c".toList, false)] ∧
    reaches ovW "a".toList (ovW.length + 1) ["a".toList] "b".toList = true ∧
    reaches ovW "a".toList (ovW.length + 1) ["a".toList] "c".toList = true := by
  decide

end BufProofs.C05
