import BufProofs.Lemmas.CaseLemmas
import BufProofs.Lemmas.LintLemmas
/-
  C05 — Lint reports exactly the style violations that are present.
  Property theorems only; helper lemmas live in BufProofs/Lemmas/{CaseLemmas,LintLemmas}.lean.
-/
namespace BufProofs.C05
open BufModel.Case BufModel.Lint

/-! ## Grammar lemmas for the case conversions (all strings) -/

/-- Every `[A-Z][A-Za-z0-9]*` name is a fixpoint of ToPascalCase: MESSAGE/ENUM/SERVICE/RPC
    _PASCAL_CASE never flag it. -/
theorem pascal_accepts (s : Str) (h : isPascalIdent s = true) : toPascalCase s = s :=
  pascalIdent_fix s h

/-- A name containing an underscore (or any other delimiter: '.', '-', space, tab, CR, LF) is
    never a fixpoint of ToPascalCase. -/
theorem pascal_rejects_underscore (s : Str) (c : Char) (hc : c ∈ s) (hd : isDelimiter c = true) :
    toPascalCase s ≠ s := by
  intro e
  have := pascalGo_no_delim true (trimSpace s) c (by unfold toPascalCase at e; rw [e]; exact hc)
  simp [this] at hd

/-- A name starting with a lower-case letter is never a fixpoint of ToPascalCase. -/
theorem pascal_rejects_lower_first (c : Char) (cs : Str) (hl : isLower c = true) :
    toPascalCase (c :: cs) ≠ c :: cs := by
  intro e
  have hsp : isSpace c = false := alnum_not_space c (lower_alnum c hl)
  have hdl : isDelimiter c = false := alnum_not_delim c (lower_alnum c hl)
  unfold toPascalCase trimSpace trimBoth at e
  rw [List.dropWhile_cons_of_neg (by simp [hsp])] at e
  obtain ⟨r, hr⟩ := dropEnd_cons_of_not isSpace c cs hsp
  rw [hr] at e
  simp only [pascalGo, hdl, Bool.true_or] at e
  simp at e
  exact toUpper_ne_of_lower c hl e.1

/-- `[a-z0-9]+(_[a-z0-9]+)*` names are fixpoints of ToLowerSnakeCase (as the lint rules call it:
    without SnakeCaseWithNewWordOnDigits). -/
theorem lowerSnake_accepts (s : Str) (h : isLowerSnakeIdent s = true) : toLowerSnakeCase false s = s :=
  lowerSnakeIdent_fix s h

/-- A name containing an upper-case letter is never a fixpoint of ToLowerSnakeCase. -/
theorem lowerSnake_rejects_upper (b : Bool) (s : Str) (c : Char) (hc : c ∈ s) (hu : isUpper c = true) :
    toLowerSnakeCase b s ≠ s := by
  intro e
  rw [← e] at hc
  unfold toLowerSnakeCase at hc
  obtain ⟨y, _, rfl⟩ := List.mem_map.mp hc
  simp [isUpper_toLower] at hu

/-- `[A-Z0-9]+(_[A-Z0-9]+)*` names are fixpoints of ToUpperSnakeCase. -/
theorem upperSnake_accepts (s : Str) (h : isUpperSnakeIdent s = true) : toUpperSnakeCase false s = s :=
  upperSnakeIdent_fix s h

/-- A name containing a lower-case letter is never a fixpoint of ToUpperSnakeCase. -/
theorem upperSnake_rejects_lower (b : Bool) (s : Str) (c : Char) (hc : c ∈ s) (hl : isLower c = true) :
    toUpperSnakeCase b s ≠ s := by
  intro e
  rw [← e] at hc
  unfold toUpperSnakeCase at hc
  obtain ⟨y, _, rfl⟩ := List.mem_map.mp hc
  simp [isLower_toUpper] at hl

/-! ## Idempotence -/

/-- ToPascalCase is idempotent on every string whose space characters are all delimiters
    (i.e. no \v, \f, U+0085, U+00A0) — in particular on every identifier and file name part. -/
theorem pascal_idempotent (s : Str) (h : ∀ c ∈ s, isSpace c = true → isDelimiter c = true) :
    toPascalCase (toPascalCase s) = toPascalCase s := by
  have hsub : ∀ c ∈ trimSpace s, isSpace c = true → isDelimiter c = true :=
    fun c hc => h c (mem_trimBoth _ _ _ hc)
  have hns : ∀ x ∈ toPascalCase s, isSpace x = false := pascalGo_space true _ hsub
  apply pascal_fix
  · exact trimBoth_eq_self _ _ (headIs_false_of_all _ _ hns) (lastIs_false_of_forall _ _ hns)
  · exact pascalGo_no_delim true _
  · exact pascalGo_true_head _

/-- …and NOT idempotent in general, as coded: a vertical tab survives the first pass (it is not
    a delimiter) and is trimmed by the second.  Replayed on the real function by the harness. -/
theorem pascal_idempotent_counterexample :
    toPascalCase (toPascalCase ['_', Char.ofNat 11, 'a']) ≠ toPascalCase ['_', Char.ofNat 11, 'a'] := by
  decide

/-- ToUpperSnakeCase is not idempotent on arbitrary strings, as coded ("ab!" → "AB!" → "A_B!"):
    the first pass sees no upper-case letter, the second starts a new word before 'B' because
    '!' is neither upper-case, digit nor delimiter.  Replayed by the harness. -/
theorem upperSnake_idempotent_counterexample :
    toUpperSnakeCase false (toUpperSnakeCase false "ab!".toList) ≠ toUpperSnakeCase false "ab!".toList := by
  decide

-- non-vacuity of the grammar lemmas
example : isPascalIdent "FooBar2".toList = true := by decide
example : toPascalCase "foo_bar".toList = "FooBar".toList := by decide
example : isLowerSnakeIdent "foo_bar_2".toList = true := by decide
example : isLowerSnakeIdent "foo__bar".toList = false := by decide
example : toLowerSnakeCase false "fooBar".toList = "foo_bar".toList := by decide
example : isUpperSnakeIdent "FOO_BAR_UNSPECIFIED".toList = true := by decide
example : toUpperSnakeCase false "FooBar".toList = "FOO_BAR".toList := by decide
example : toLowerSnakeCase true "foo1".toList = "foo_1".toList := by decide


/-! ## Package-version grammar (protoversion) -/

/-- `v<digits>` with 1 ≤ value ≤ 2³¹-1 is a (stable) version component: PACKAGE_VERSION_SUFFIX
    accepts every package `….v<N>`. -/
theorem version_accepts_stable (ds : Str) (hne : ds ≠ []) (hd : ds.all isDigit = true)
    (h1 : 1 ≤ digitsVal ds) (h2 : digitsVal ds ≤ 2147483647) :
    versionForComponent false ('v' :: ds) = some ⟨digitsVal ds, .stable, 0, 0, []⟩ :=
  versionForComponent_stable ds hne hd h1 h2

/-- a last component that does not start with 'v' is never a version -/
theorem version_rejects_no_v (b : Bool) (c : Char) (cs : Str) (h : c ≠ 'v') :
    versionForComponent b (c :: cs) = none :=
  versionForComponent_no_v b c cs h

/-- a package of a single component ("v1", "foo") has no version suffix -/
theorem version_rejects_single_component (b : Bool) (s : Str) (h : ∀ c ∈ s, c ≠ '.') :
    versionForPackage b s = none :=
  versionForPackage_single b s h

/-- the documented forms and near misses (finite table, `decide`): v1, v1beta1, v1alpha2,
    v1p1beta1, v1test…, and the quirk that strconv.ParseInt accepts a sign ("v+1"). -/
theorem version_table :
    (versionForPackage false "a.v1".toList).isSome = true ∧
    versionForPackage false "a.v1beta1".toList = some ⟨1, .beta, 1, 0, []⟩ ∧
    versionForPackage false "a.v1alpha2".toList = some ⟨1, .alpha, 2, 0, []⟩ ∧
    versionForPackage false "a.v1p1beta1".toList = some ⟨1, .beta, 1, 1, []⟩ ∧
    versionForPackage false "a.v1beta".toList = some ⟨1, .beta, 0, 0, []⟩ ∧
    versionForPackage false "a.v1testfoo".toList = some ⟨1, .test, 0, 0, "foo".toList⟩ ∧
    versionForPackage false "a.v+1".toList = some ⟨1, .stable, 0, 0, []⟩ ∧
    versionForPackage false "a.v0".toList = none ∧
    (versionForPackage true "a.v0".toList).isSome = true ∧
    versionForPackage false "a.v1p1".toList = none ∧
    versionForPackage false "a.v1gamma1".toList = none ∧
    versionForPackage false "a.vbeta1".toList = none ∧
    versionForPackage false "a.v1alphabeta1".toList = none ∧
    versionForPackage false "a.v2147483648".toList = none ∧
    versionForPackage false "v1".toList = none := by decide

/-! ## Lint: no false positives, imports skipped, complete nested visiting, exact planting -/

/-- **Clean ⇒ no annotation.**  `cleanB` is the decidable conjunction of syntactic conditions
    (grammars for names, pairwise agreement for the package/directory/option rules, flags for
    imports/streaming, a non-excluded comment line …) that the Lean driver EVALUATES on every
    generated workspace; whenever it holds for the configured rules, the model reports nothing.
    For PACKAGE_NO_IMPORT_CYCLE, RPC_REQUEST_RESPONSE_UNIQUE and STABLE_PACKAGE_NO_IMPORT_UNSTABLE
    the clean condition is the rule's own emptiness (their substance is tied by correspondence). -/
theorem clean_no_annotations (o : Options) (rules : List Rule) (w : Schema)
    (h : cleanB o rules w = true) : lint o rules w = [] := by
  unfold lint
  apply flatMap_eq_nil_of_forall
  intro r hr
  exact runRule_nil_of_clean o w r (List.all_eq_true.mp h r hr)

/-- **Imports are skipped.**  Whatever an import-only file contains, every annotation of every
    rule is attributed to a file of the request that is not an import. -/
theorem imports_skipped (o : Options) (rules : List Rule) (w : Schema) (a : Annotation)
    (h : a ∈ lint o rules w) : ∃ f ∈ w, f.isImport = false ∧ a.file = f.path := by
  unfold lint at h
  obtain ⟨r, _, ha⟩ := List.mem_flatMap.mp h
  obtain ⟨f, hf, e⟩ := runRule_files o w r a ha
  exact ⟨f, (mem_nonImport hf).1, (mem_nonImport hf).2, e⟩

/-- **Nested declarations are all visited.**  Every message nested at any depth below a
    top-level message of a file is enumerated by the message iterator (with some source path),
    and each of its nested enums by the enum iterator — so the per-element rules see it. -/
theorem nested_visit_complete (f : File) (top x : Message) (ht : top ∈ f.msgs) (hx : Nested x top) :
    (∃ p, (p, x) ∈ fileMsgs f) ∧ (∀ e ∈ x.enums, ∃ p, (p, e) ∈ fileEnums f) := by
  have hmsg : ∃ p, (p, x) ∈ fileMsgs f := by
    obtain ⟨j, hj⟩ := visitMsgs_mem [] 4 f.msgs 0 top ht
    obtain ⟨q, hq⟩ := visit_nested hx ([] ++ [4, j])
    exact ⟨q, hj _ hq⟩
  refine ⟨hmsg, ?_⟩
  intro e he
  obtain ⟨p, hp⟩ := hmsg
  obtain ⟨j, hj⟩ := mem_indexFrom x.enums 0 e he
  refine ⟨p ++ [4, j], ?_⟩
  unfold fileEnums
  apply List.mem_append_right
  apply List.mem_flatMap.mpr
  exact ⟨(p, x), hp, List.mem_map.mpr ⟨(j, e), hj, rfl⟩⟩

/-- **Exact planting (all 34 per-element rules at once).**  Let `r` be a configured per-element
    rule.  If every other configured rule is Clean on the planted workspace, every element of
    the rule's kind is `good` except ONE element `e` of ONE non-import file `f` which is `bad`,
    then lint reports exactly one annotation: rule `r` at `locOf e` in `f` — nothing else, for
    no other rule.  Both hypotheses are decidable; the driver evaluates the first on every
    planted workspace (`others=`), the correspondence checks the conclusion on the real code. -/
theorem plant_exact_elem (o : Options) (rules : List Rule) (w : Schema) (r : Rule) (er : ElemRule)
    (he : elemRule r = some er) (pre post : List Rule) (hrules : rules = pre ++ r :: post)
    (hother : ∀ r' ∈ pre ++ post, cleanRule o w r' = true)
    (f : File) (fpre fpost : List File) (hw : nonImport w = fpre ++ f :: fpost)
    (hfiles : ∀ g ∈ fpre ++ fpost, (er.els g).all (er.good o) = true)
    (l1 l2 : List er.α) (e : er.α) (hels : er.els f = l1 ++ e :: l2)
    (hl : ∀ x ∈ l1 ++ l2, er.good o x = true) (hbad : er.bad o e = true) :
    lint o rules w = [ann r f (er.loc e)] := by
  have hnil : ∀ l : List Rule, (∀ r' ∈ l, cleanRule o w r' = true) → l.flatMap (runRule o w) = [] :=
    fun l hl => flatMap_eq_nil_of_forall l _ (fun r' hr' => runRule_nil_of_clean o w r' (hl r' hr'))
  have hfnil : ∀ l : List File, (∀ g ∈ l, (er.els g).all (er.good o) = true) →
      l.flatMap (fun g => (er.flagged o g).map (ann r g)) = [] :=
    fun l hl => flatMap_eq_nil_of_forall l _ (fun g hg => by
      rw [flagged_nil_of_good er r he o g (hl g hg)]; rfl)
  have hflag : er.flagged o f = [er.loc e] := by
    unfold ElemRule.flagged
    rw [hels, List.filter_append, List.filter_cons]
    rw [filter_eq_nil_of_forall l1 _ (fun x hx => good_not_bad r er he o x (hl x (by simp [hx])))]
    rw [filter_eq_nil_of_forall l2 _ (fun x hx => good_not_bad r er he o x (hl x (by simp [hx])))]
    simp [hbad]
  unfold lint
  rw [hrules, List.flatMap_append, List.flatMap_cons]
  rw [hnil pre (fun r' hr' => hother r' (by simp [hr']))]
  rw [hnil post (fun r' hr' => hother r' (by simp [hr']))]
  rw [runRule_elem o w r er he, hw, List.flatMap_append, List.flatMap_cons]
  rw [hfnil fpre (fun g hg => hfiles g (by simp [hg]))]
  rw [hfnil fpost (fun g hg => hfiles g (by simp [hg]))]
  rw [hflag]
  simp

/-- **Every kind of field is visited.**  The field iterator (NewLintFieldRuleHandler) enumerates
    (1) every FILE-LEVEL extension — at `[7, i]`, with NO parent message —, and for every message
    `x` nested at any depth below a top-level message (2) every declared field of `x` — plain
    fields, oneof members, map fields and group fields all live there — and (3) every extension
    declared inside `x`, both with parent `x`.  (The synthetic `key`/`value` fields of a map
    entry and the fields of a group body are case (2) for the synthetic / group message.) -/
theorem field_visit_complete (f : File) :
    (∀ fd ∈ f.exts, ∃ i, ([7, i], (none : Option Message), fd) ∈ fileFields f) ∧
    (∀ top ∈ f.msgs, ∀ x, Nested x top →
      (∀ fd ∈ x.fields, ∃ p, (p, some x, fd) ∈ fileFields f) ∧
      (∀ fd ∈ x.exts, ∃ p, (p, some x, fd) ∈ fileFields f)) := by
  refine ⟨fun fd h => fileFields_fileExt f fd h, ?_⟩
  intro top ht x hx
  obtain ⟨p, hp⟩ := (nested_visit_complete f top x ht hx).1
  refine ⟨fun fd h => ?_, fun fd h => ?_⟩
  · obtain ⟨i, hi⟩ := fileFields_msgField f p x hp fd h
    exact ⟨_, hi⟩
  · obtain ⟨i, hi⟩ := fileFields_msgExt f p x hp fd h
    exact ⟨_, hi⟩

/-- **No enumerated element is skipped.**  If a configured per-element rule enumerates an element
    in a non-import file and its coded predicate holds, lint reports it at the rule's location. -/
theorem elem_bad_reported (o : Options) (rules : List Rule) (w : Schema) (r : Rule) (er : ElemRule)
    (he : elemRule r = some er) (hr : r ∈ rules) (f : File) (hf : f ∈ w) (hni : f.isImport = false)
    (e : er.α) (hmem : e ∈ er.els f) (hbad : er.bad o e = true) :
    ann r f (er.loc e) ∈ lint o rules w := by
  unfold lint
  exact List.mem_flatMap.mpr ⟨r, hr, mem_runRule_of_bad o w r er he f hf hni e hmem hbad⟩

/-- **The four field rules report every visited field that is not a map-entry member** —
    whatever its parent is, `none` included: a missing comment (unless the field is a group, whose
    comment belongs to the nested message), a name that is not its own lower_snake_case form, a
    name that is `descriptor` up to case and surrounding underscores, a required label. -/
theorem field_rules_report (o : Options) (rules : List Rule) (w : Schema) (f : File) (hf : f ∈ w)
    (hni : f.isImport = false) (p : List Nat) (pm : Option Message) (fd : Field)
    (hmem : (p, pm, fd) ∈ fileFields f) (hpm : isMapEntryParent pm = false) :
    (.COMMENT_FIELD ∈ rules → fd.group = false →
        validLeadingComment o.commentExcludes fd.comment = false →
        (⟨.COMMENT_FIELD, f.path, p⟩ : Annotation) ∈ lint o rules w) ∧
    (.FIELD_LOWER_SNAKE_CASE ∈ rules → fd.name ≠ toLowerSnakeCase false fd.name →
        (⟨.FIELD_LOWER_SNAKE_CASE, f.path, p ++ [1]⟩ : Annotation) ∈ lint o rules w) ∧
    (.FIELD_NO_DESCRIPTOR ∈ rules → (trimUnderscores fd.name).map toLower = "descriptor".toList →
        (⟨.FIELD_NO_DESCRIPTOR, f.path, p ++ [1]⟩ : Annotation) ∈ lint o rules w) ∧
    (.FIELD_NOT_REQUIRED ∈ rules → fd.required = true →
        (⟨.FIELD_NOT_REQUIRED, f.path, p ++ [1]⟩ : Annotation) ∈ lint o rules w) := by
  refine ⟨fun hr hg hv => ?_, fun hr hn => ?_, fun hr hd => ?_, fun hr hq => ?_⟩
  · exact elem_bad_reported o rules w .COMMENT_FIELD _ rfl hr f hf hni (p, pm, fd) hmem
      (by simp [hpm, hg, hv])
  · exact elem_bad_reported o rules w .FIELD_LOWER_SNAKE_CASE _ rfl hr f hf hni (p, pm, fd) hmem
      (by simp [hpm, hn])
  · exact elem_bad_reported o rules w .FIELD_NO_DESCRIPTOR _ rfl hr f hf hni (p, pm, fd) hmem
      (by simp [hd])
  · exact elem_bad_reported o rules w .FIELD_NOT_REQUIRED _ rfl hr f hf hni (p, pm, fd) hmem
      (by simp [hq])

/-- **File-level extension fields are not skipped.**  `extend Foo { optional string x = 100; }`
    at the top level of a non-import file: the field has no parent message, and each of the four
    field rules reports it at `[7, i]` (comment) / `[7, i, 1]` (name) when its predicate holds. -/
theorem file_extension_reported (o : Options) (rules : List Rule) (w : Schema) (f : File) (hf : f ∈ w)
    (hni : f.isImport = false) (fd : Field) (hx : fd ∈ f.exts) : ∃ i,
    (.COMMENT_FIELD ∈ rules → fd.group = false →
        validLeadingComment o.commentExcludes fd.comment = false →
        (⟨.COMMENT_FIELD, f.path, [7, i]⟩ : Annotation) ∈ lint o rules w) ∧
    (.FIELD_LOWER_SNAKE_CASE ∈ rules → fd.name ≠ toLowerSnakeCase false fd.name →
        (⟨.FIELD_LOWER_SNAKE_CASE, f.path, [7, i, 1]⟩ : Annotation) ∈ lint o rules w) ∧
    (.FIELD_NO_DESCRIPTOR ∈ rules → (trimUnderscores fd.name).map toLower = "descriptor".toList →
        (⟨.FIELD_NO_DESCRIPTOR, f.path, [7, i, 1]⟩ : Annotation) ∈ lint o rules w) ∧
    (.FIELD_NOT_REQUIRED ∈ rules → fd.required = true →
        (⟨.FIELD_NOT_REQUIRED, f.path, [7, i, 1]⟩ : Annotation) ∈ lint o rules w) := by
  obtain ⟨i, hi⟩ := (field_visit_complete f).1 fd hx
  exact ⟨i, field_rules_report o rules w f hf hni [7, i] none fd hi rfl⟩

/-- **Map-entry members and group fields are exempt exactly as coded**: COMMENT_FIELD and
    FIELD_LOWER_SNAKE_CASE never flag a field whose parent is a synthetic map entry, and
    COMMENT_FIELD never flags a group field (its comment documents the nested message). -/
theorem map_entry_and_group_exempt (o : Options) (p : List Nat) (m : Message) (pm : Option Message)
    (fd : Field) :
    (m.mapEntry = true →
      ((elemRule .COMMENT_FIELD).get rfl).bad o (p, some m, fd) = false ∧
      ((elemRule .FIELD_LOWER_SNAKE_CASE).get rfl).bad o (p, some m, fd) = false) ∧
    (fd.group = true → ((elemRule .COMMENT_FIELD).get rfl).bad o (p, pm, fd) = false) := by
  refine ⟨fun hm => ⟨?_, ?_⟩, fun hg => ?_⟩
  · show (if (isMapEntryParent (some m) || fd.group) = true then false
        else !validLeadingComment o.commentExcludes fd.comment) = false
    simp [isMapEntryParent, hm]
  · show (if isMapEntryParent (some m) = true then false
        else fd.name != toLowerSnakeCase false fd.name) = false
    simp [isMapEntryParent, hm]
  · show (if (isMapEntryParent pm || fd.group) = true then false
        else !validLeadingComment o.commentExcludes fd.comment) = false
    simp [hg]

-- non-vacuity: a workspace with a nested message/enum, a service and an import-only file full
-- of violations is Clean for every modelled rule; planting one violation yields exactly it.
example : cleanB {} Rule.all exWs = true := by decide
example : lint {} Rule.all exWs = [] := clean_no_annotations _ _ _ (by decide)
example : lint {} Rule.all (exPlantPublic) = [⟨.IMPORT_NO_PUBLIC, "acme/foo/v1/types.proto".toList, [3, 0]⟩] := by decide
example : lint {} Rule.all (exPlantEnumName) =
    [⟨.ENUM_PASCAL_CASE, "acme/foo/v1/types.proto".toList, [4, 0, 3, 0, 4, 0, 1]⟩] := by decide
example : Nested exInner exOuter := .step (by show exInner ∈ [exInner]; simp) (.refl _)
-- non-vacuity for the field kinds: a file with a plain field, oneof members, a map field (and its
-- synthetic entry message), a group field (and its nested message), an extension nested in a
-- message and two file-level extensions is Clean; planting at a FILE-LEVEL extension (parent
-- message `none`) yields exactly that annotation.
example : cleanB {} Rule.all exKinds = true := by decide
example : lint {} Rule.all exKindsPlantFileExtComment =
    [⟨.COMMENT_FIELD, "acme/foo/v1/kinds.proto".toList, [7, 1]⟩] := by decide
example : lint {} Rule.all exKindsPlantFileExtName =
    [⟨.FIELD_LOWER_SNAKE_CASE, "acme/foo/v1/kinds.proto".toList, [7, 0, 1]⟩] := by decide

/-- IMPORT_NO_WEAK is registered with a handler that does nothing (deprecated, in no category):
    a weak import is never reported — the property's "weak import" clause is not implemented by
    this tree.  Documented here; replayed by the harness (plant IMPORT_NO_WEAK). -/
theorem import_no_weak_counterexample :
    lint {} [.IMPORT_NO_WEAK] (exPlantWeak) = [] := by decide

end BufProofs.C05
