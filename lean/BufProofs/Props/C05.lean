import BufProofs.Lemmas.CaseLemmas
import BufProofs.Lemmas.LintLemmas
import BufProofs.Lemmas.LintSpec2
import BufProofs.Lemmas.LintWitness
import BufProofs.Lemmas.LintVersion
/-
  C05 — Lint reports exactly the style violations that are present.
  Property theorems only; helper lemmas live in BufProofs/Lemmas/:
    CaseLemmas   (case conversions, version grammar)
    LintLemmas   (good ⇒ ¬bad, grouping, imports skipped, nested visiting)
    LintMap      (transformers `Tr`, `mapFile`; every iteration helper commutes with them; source
                  paths are pairwise distinct)
    LintFrame    (frame lemmas: congruence of the multi-file rules, `frame_deep`)
    LintPlant    (generic planting machinery), LintOps / LintOps2 / LintOps3 (the planting
                  operators and their per-group frame lemmas)
    LintSpec / LintSpec2 (set-level specifications; documentation-level readings of `good`)
    LintWitness  (the concrete multi-file workspace of the non-vacuity examples)
-/
namespace BufProofs.C05
open BufModel.Case BufModel.Lint

/-! ## Grammar lemmas for the case conversions (all strings) -/

/-- Every `[A-Z][A-Za-z0-9]*` name is a fixpoint of ToPascalCase: MESSAGE/ENUM/SERVICE/RPC
    _PASCAL_CASE never flag it. -/
theorem pascal_accepts (s : Str) (h : isPascalIdent s = true) : toPascalCase s = s :=
  pascalIdent_fix s h

/-- A name containing an underscore (or any other delimiter: '.', '-', space, tab, CR, LF) is
    never a fixpoint of ToPascalCase. -/
theorem pascal_rejects_underscore (s : Str) (c : Char) (hc : c ∈ s) (hd : isDelimiter c = true) :
    toPascalCase s ≠ s := toPascalCase_ne_of_delim s c hc hd

/-- A name starting with a lower-case letter is never a fixpoint of ToPascalCase. -/
theorem pascal_rejects_lower_first (c : Char) (cs : Str) (hl : isLower c = true) :
    toPascalCase (c :: cs) ≠ c :: cs := toPascalCase_ne_of_lower_first c cs hl

/-- `[a-z0-9]+(_[a-z0-9]+)*` names are fixpoints of ToLowerSnakeCase (as the lint rules call it:
    without SnakeCaseWithNewWordOnDigits). -/
theorem lowerSnake_accepts (s : Str) (h : isLowerSnakeIdent s = true) : toLowerSnakeCase false s = s :=
  lowerSnakeIdent_fix s h

/-- A name containing an upper-case letter is never a fixpoint of ToLowerSnakeCase. -/
theorem lowerSnake_rejects_upper (b : Bool) (s : Str) (c : Char) (hc : c ∈ s) (hu : isUpper c = true) :
    toLowerSnakeCase b s ≠ s := toLowerSnakeCase_ne_of_upper b s c hc hu

/-- `[A-Z0-9]+(_[A-Z0-9]+)*` names are fixpoints of ToUpperSnakeCase. -/
theorem upperSnake_accepts (s : Str) (h : isUpperSnakeIdent s = true) : toUpperSnakeCase false s = s :=
  upperSnakeIdent_fix s h

/-- A name containing a lower-case letter is never a fixpoint of ToUpperSnakeCase. -/
theorem upperSnake_rejects_lower (b : Bool) (s : Str) (c : Char) (hc : c ∈ s) (hl : isLower c = true) :
    toUpperSnakeCase b s ≠ s := toUpperSnakeCase_ne_of_lower b s c hc hl

/-! ## Idempotence -/

/-- ToPascalCase is idempotent on every string whose space characters are all delimiters
    (i.e. no \v, \f, U+0085, U+00A0) — in particular on every identifier and file name part. -/
theorem pascal_idempotent (s : Str) (h : ∀ c ∈ s, isSpace c = true → isDelimiter c = true) :
    toPascalCase (toPascalCase s) = toPascalCase s := by
  have hsub : ∀ c ∈ trimSpace s, isSpace c = true → isDelimiter c = true :=
    fun c hc => h c (mem_trimBoth _ _ _ hc)
  have hns : ∀ x ∈ toPascalCase s, isSpace x = false := pascalGo_space true _ hsub
  apply pascal_fix
  · exact trimBoth_eq_self _ _ (headIs_false_of_all _ _ hns) (lastIs_false_of_forall _ _ hns)
  · exact pascalGo_no_delim true _
  · exact pascalGo_true_head _

/-- …and NOT idempotent in general, as coded: a vertical tab survives the first pass (it is not
    a delimiter) and is trimmed by the second.  Replayed on the real function by the harness. -/
theorem pascal_idempotent_counterexample :
    toPascalCase (toPascalCase ['_', Char.ofNat 11, 'a']) ≠ toPascalCase ['_', Char.ofNat 11, 'a'] := by
  decide

/-- ToUpperSnakeCase is not idempotent on arbitrary strings, as coded ("ab!" → "AB!" → "A_B!"):
    the first pass sees no upper-case letter, the second starts a new word before 'B' because
    '!' is neither upper-case, digit nor delimiter.  Replayed by the harness. -/
theorem upperSnake_idempotent_counterexample :
    toUpperSnakeCase false (toUpperSnakeCase false "ab!".toList) ≠ toUpperSnakeCase false "ab!".toList := by
  decide

-- non-vacuity of the grammar lemmas
example : isPascalIdent "FooBar2".toList = true := by decide
example : toPascalCase "foo_bar".toList = "FooBar".toList := by decide
example : isLowerSnakeIdent "foo_bar_2".toList = true := by decide
example : isLowerSnakeIdent "foo__bar".toList = false := by decide
example : toLowerSnakeCase false "fooBar".toList = "foo_bar".toList := by decide
example : isUpperSnakeIdent "FOO_BAR_UNSPECIFIED".toList = true := by decide
example : toUpperSnakeCase false "FooBar".toList = "FOO_BAR".toList := by decide
example : toLowerSnakeCase true "foo1".toList = "foo_1".toList := by decide


/-! ## Package-version grammar (protoversion) -/

/-- `v<digits>` with 1 ≤ value ≤ 2³¹-1 is a (stable) version component: PACKAGE_VERSION_SUFFIX
    accepts every package `….v<N>`. -/
theorem version_accepts_stable (ds : Str) (hne : ds ≠ []) (hd : ds.all isDigit = true)
    (h1 : 1 ≤ digitsVal ds) (h2 : digitsVal ds ≤ 2147483647) :
    versionForComponent false ('v' :: ds) = some ⟨digitsVal ds, .stable, 0, 0, []⟩ :=
  versionForComponent_stable ds hne hd h1 h2

/-- a last component that does not start with 'v' is never a version -/
theorem version_rejects_no_v (b : Bool) (c : Char) (cs : Str) (h : c ≠ 'v') :
    versionForComponent b (c :: cs) = none :=
  versionForComponent_no_v b c cs h

/-- a package of a single component ("v1", "foo") has no version suffix -/
theorem version_rejects_single_component (b : Bool) (s : Str) (h : ∀ c ∈ s, c ≠ '.') :
    versionForPackage b s = none :=
  versionForPackage_single b s h

/-- the documented forms and near misses (finite table, `decide`): v1, v1beta1, v1alpha2,
    v1p1beta1, v1test…, and the quirk that strconv.ParseInt accepts a sign ("v+1"). -/
theorem version_table :
    (versionForPackage false "a.v1".toList).isSome = true ∧
    versionForPackage false "a.v1beta1".toList = some ⟨1, .beta, 1, 0, []⟩ ∧
    versionForPackage false "a.v1alpha2".toList = some ⟨1, .alpha, 2, 0, []⟩ ∧
    versionForPackage false "a.v1p1beta1".toList = some ⟨1, .beta, 1, 1, []⟩ ∧
    versionForPackage false "a.v1beta".toList = some ⟨1, .beta, 0, 0, []⟩ ∧
    versionForPackage false "a.v1testfoo".toList = some ⟨1, .test, 0, 0, "foo".toList⟩ ∧
    versionForPackage false "a.v+1".toList = some ⟨1, .stable, 0, 0, []⟩ ∧
    versionForPackage false "a.v0".toList = none ∧
    (versionForPackage true "a.v0".toList).isSome = true ∧
    versionForPackage false "a.v1p1".toList = none ∧
    versionForPackage false "a.v1gamma1".toList = none ∧
    versionForPackage false "a.vbeta1".toList = none ∧
    versionForPackage false "a.v1alphabeta1".toList = none ∧
    versionForPackage false "a.v2147483648".toList = none ∧
    versionForPackage false "v1".toList = none := by decide

/-- **Only the documented forms are versions** (ALL strings).  Whatever the parser accepts is `v`
    followed by one of `N`, `N test <anything>`, `N (alpha|beta) [M]`, `N p Q (alpha|beta) [M]`, with the
    stability of that form, where every number `N`, `Q`, `M` is what `strconv.ParseInt(s, 10, 32)`
    reads: an optional sign and a non-empty run of DECIMAL digits (`IsNum`).  This is the general
    lemma the alpha/beta/test/patch grammar lacked; together with `version_accepts_stable` and
    `version_table` it pins the grammar from both sides.  Consequence: no digit separator, no
    base prefix, no exponent — `v1_0`, `v0x1`, `v0b1`, `v0o7`, `v1e3` are not versions
    (`version_near_miss_table`, `version_rejects_foreign_character`). -/
theorem version_only_documented_forms (b : Bool) (s : Str) (v : PackageVersion)
    (h : versionForComponent b s = some v) : ∃ rest, s = 'v' :: rest ∧ DocShape rest v.stability :=
  versionForComponent_shape b s v h

/-- a component containing a character that is neither a decimal digit nor one of
    `v + - p a l h b e t`, and not containing "test", is never a version (either `allowV0`) -/
theorem version_rejects_foreign_character (b : Bool) (s : Str) (x : Char) (hx : x ∈ s)
    (hd : isDigit x = false) (hf : x ∉ versionAlphabet) (ht : contains "test".toList s = false) :
    versionForComponent b s = none :=
  versionForComponent_foreign b s x hx hd hf ht

/-- near misses of the grammar (numbers in another notation, zero where ≥ 1 is demanded, a missing
    part, the wrong case) and less common spellings of documented versions, by evaluation -/
theorem version_near_miss_table :
    versionForComponent false "v1_0".toList = none ∧ versionForComponent false "v1_1".toList = none ∧
    versionForComponent false "v0x1".toList = none ∧ versionForComponent false "v0b1".toList = none ∧
    versionForComponent false "v0o7".toList = none ∧ versionForComponent false "v1e3".toList = none ∧
    versionForComponent false "v1alpha1_1".toList = none ∧ versionForComponent false "v1p1_0beta1".toList = none ∧
    versionForComponent true "v0x0".toList = none ∧ versionForComponent true "v0_0".toList = none ∧
    versionForComponent false "v00".toList = none ∧ versionForComponent false "v1alpha0".toList = none ∧
    versionForComponent false "v1p0beta1".toList = none ∧ versionForComponent false "v1pbeta1".toList = none ∧
    versionForComponent false "v1beta1alpha".toList = none ∧ versionForComponent false "V1".toList = none ∧
    versionForComponent false "v1Alpha1".toList = none ∧
    versionForComponent false "v01".toList = some ⟨1, .stable, 0, 0, []⟩ ∧
    versionForComponent false "v011".toList = some ⟨11, .stable, 0, 0, []⟩ ∧
    versionForComponent false "v1alpha".toList = some ⟨1, .alpha, 0, 0, []⟩ ∧
    versionForComponent false "v3p1beta".toList = some ⟨3, .beta, 0, 1, []⟩ ∧
    versionForComponent false "v001p01beta01".toList = some ⟨1, .beta, 1, 1, []⟩ ∧
    versionForComponent false "v1test_1".toList = some ⟨1, .test, 0, 0, "_1".toList⟩ ∧
    versionForComponent false "v7testalpha".toList = some ⟨7, .test, 0, 0, "alpha".toList⟩ := by decide

-- non-vacuity of `version_only_documented_forms`: each of the four forms is reached
example : ∃ v, versionForComponent false "v12".toList = some v ∧ v.stability = .stable :=
  ⟨⟨12, .stable, 0, 0, []⟩, by decide, rfl⟩
example : ∃ v, versionForComponent false "v1testfoo".toList = some v ∧ v.stability = .test :=
  ⟨⟨1, .test, 0, 0, "foo".toList⟩, by decide, rfl⟩
example : ∃ v, versionForComponent false "v1beta2".toList = some v ∧ v.stability = .beta :=
  ⟨⟨1, .beta, 2, 0, []⟩, by decide, rfl⟩
example : ∃ v, versionForComponent false "v1p2alpha3".toList = some v ∧ v.stability = .alpha :=
  ⟨⟨1, .alpha, 3, 2, []⟩, by decide, rfl⟩
-- and of `version_rejects_foreign_character`: the underscore of v1_0, the x of v0x1, the o of v0o7
example : versionForComponent false "v1_0".toList = none :=
  version_rejects_foreign_character false _ '_' (by decide) (by decide) (by decide) (by decide)
example : versionForComponent false "v0x1".toList = none :=
  version_rejects_foreign_character false _ 'x' (by decide) (by decide) (by decide) (by decide)
example : versionForComponent true "v0o7".toList = none :=
  version_rejects_foreign_character true _ 'o' (by decide) (by decide) (by decide) (by decide)

/-! ## Lint: no false positives, imports skipped, complete nested visiting, exact planting -/

/-- **Clean ⇒ no annotation.**  `cleanB` is the decidable conjunction of the rules' Clean
    conditions, which the Lean driver EVALUATES on every generated workspace; whenever it holds for
    the configured rules, the model reports nothing.  How much this says depends on the rule:

    * INDEPENDENT Clean condition (a grammar / a pairwise condition that does not call the coded
      predicate): the 9 naming rules ENUM_PASCAL_CASE, ENUM_VALUE_UPPER_SNAKE_CASE,
      FIELD_LOWER_SNAKE_CASE, FILE_LOWER_SNAKE_CASE, MESSAGE_PASCAL_CASE, ONEOF_LOWER_SNAKE_CASE,
      PACKAGE_LOWER_SNAKE_CASE, RPC_PASCAL_CASE, SERVICE_PASCAL_CASE (grammar ⇒ fixpoint of the
      conversion) and the 9 grouping rules DIRECTORY_SAME_PACKAGE, PACKAGE_SAME_DIRECTORY,
      PACKAGE_SAME_<option> ×7 (pairwise agreement; `clean_iff_silent_group` shows it is exact).
    * Clean condition = negation of the coded predicate, with a documentation-level reading PROVED
      equivalent below: COMMENT_* ×7 (`comment_rule_spec`), ENUM_ZERO_VALUE_SUFFIX and
      SERVICE_SUFFIX (`suffix_rule_spec`), ENUM_VALUE_PREFIX (`prefix_rule_spec`),
      RPC_REQUEST_STANDARD_NAME and RPC_RESPONSE_STANDARD_NAME (`rpc_standard_name_spec`);
      PACKAGE_VERSION_SUFFIX one direction only (`package_version_suffix_accepts`, `version_*`).
    * DEFINITIONAL (the rule IS a flag / a direct comparison, `good := !bad` says nothing more; the
      clause is carried by the correspondence): ENUM_FIRST_VALUE_ZERO, ENUM_NO_ALLOW_ALIAS,
      FIELD_NOT_REQUIRED, FIELD_NO_DESCRIPTOR, IMPORT_NO_PUBLIC, IMPORT_NO_WEAK (never reports),
      IMPORT_USED, PACKAGE_DEFINED, PACKAGE_DIRECTORY_MATCH, RPC_NO_CLIENT_STREAMING,
      RPC_NO_SERVER_STREAMING, SYNTAX_SPECIFIED; and PACKAGE_NO_IMPORT_CYCLE,
      RPC_REQUEST_RESPONSE_UNIQUE, STABLE_PACKAGE_NO_IMPORT_UNSTABLE, whose Clean condition is the
      rule's own emptiness (the latter two have set-level specifications:
      `violations_exact_rpc_unique`, `violations_exact_stable`). -/
theorem clean_no_annotations (o : Options) (rules : List Rule) (w : Schema)
    (h : cleanB o rules w = true) : lint o rules w = [] := by
  unfold lint
  apply flatMap_eq_nil_of_forall
  intro r hr
  exact runRule_nil_of_clean o w r (List.all_eq_true.mp h r hr)

/-- **Imports are skipped.**  Whatever an import-only file contains, every annotation of every
    rule is attributed to a file of the request that is not an import. -/
theorem imports_skipped (o : Options) (rules : List Rule) (w : Schema) (a : Annotation)
    (h : a ∈ lint o rules w) : ∃ f ∈ w, f.isImport = false ∧ a.file = f.path := by
  unfold lint at h
  obtain ⟨r, _, ha⟩ := List.mem_flatMap.mp h
  obtain ⟨f, hf, e⟩ := runRule_files o w r a ha
  exact ⟨f, (mem_nonImport hf).1, (mem_nonImport hf).2, e⟩

/-- **Nested declarations are all visited.**  Every message nested at any depth below a
    top-level message of a file is enumerated by the message iterator (with some source path),
    and each of its nested enums by the enum iterator — so the per-element rules see it. -/
theorem nested_visit_complete (f : File) (top x : Message) (ht : top ∈ f.msgs) (hx : Nested x top) :
    (∃ p, (p, x) ∈ fileMsgs f) ∧ (∀ e ∈ x.enums, ∃ p, (p, e) ∈ fileEnums f) := by
  have hmsg : ∃ p, (p, x) ∈ fileMsgs f := by
    obtain ⟨j, hj⟩ := visitMsgs_mem [] 4 f.msgs 0 top ht
    obtain ⟨q, hq⟩ := visit_nested hx ([] ++ [4, j])
    exact ⟨q, hj _ hq⟩
  refine ⟨hmsg, ?_⟩
  intro e he
  obtain ⟨p, hp⟩ := hmsg
  obtain ⟨j, hj⟩ := mem_indexFrom x.enums 0 e he
  refine ⟨p ++ [4, j], ?_⟩
  unfold fileEnums
  apply List.mem_append_right
  apply List.mem_flatMap.mpr
  exact ⟨(p, x), hp, List.mem_map.mpr ⟨(j, e), hj, rfl⟩⟩

/-- GENERIC LIST ALGEBRA, kept for reference (audit S1): this is NOT a planting theorem.  Its
    hypotheses speak about the PLANTED workspace and are the conclusion in disguise ("every other
    rule is Clean", "every other element is good", "this element is bad"); it holds for any
    `ElemRule` whatsoever and buf enters only through `good_not_bad`.  The planting theorems proper
    are the `plant_*` theorems below: they start from `cleanB` of the ORIGINAL workspace, a Lean
    planting operator and an applicability condition on the original element, and derive all of
    this lemma's hypotheses from frame lemmas and the grammar theorems. -/
theorem plant_exact_elem_generic (o : Options) (rules : List Rule) (w : Schema) (r : Rule) (er : ElemRule)
    (he : elemRule r = some er) (pre post : List Rule) (hrules : rules = pre ++ r :: post)
    (hother : ∀ r' ∈ pre ++ post, cleanRule o w r' = true)
    (f : File) (fpre fpost : List File) (hw : nonImport w = fpre ++ f :: fpost)
    (hfiles : ∀ g ∈ fpre ++ fpost, (er.els g).all (er.good o) = true)
    (l1 l2 : List er.α) (e : er.α) (hels : er.els f = l1 ++ e :: l2)
    (hl : ∀ x ∈ l1 ++ l2, er.good o x = true) (hbad : er.bad o e = true) :
    lint o rules w = [ann r f (er.loc e)] := by
  have hnil : ∀ l : List Rule, (∀ r' ∈ l, cleanRule o w r' = true) → l.flatMap (runRule o w) = [] :=
    fun l hl => flatMap_eq_nil_of_forall l _ (fun r' hr' => runRule_nil_of_clean o w r' (hl r' hr'))
  have hfnil : ∀ l : List File, (∀ g ∈ l, (er.els g).all (er.good o) = true) →
      l.flatMap (fun g => (er.flagged o g).map (ann r g)) = [] :=
    fun l hl => flatMap_eq_nil_of_forall l _ (fun g hg => by
      rw [flagged_nil_of_good er r he o g (hl g hg)]; rfl)
  have hflag : er.flagged o f = [er.loc e] := by
    unfold ElemRule.flagged
    rw [hels, List.filter_append, List.filter_cons]
    rw [filter_eq_nil_of_forall l1 _ (fun x hx => good_not_bad r er he o x (hl x (by simp [hx])))]
    rw [filter_eq_nil_of_forall l2 _ (fun x hx => good_not_bad r er he o x (hl x (by simp [hx])))]
    simp [hbad]
  unfold lint
  rw [hrules, List.flatMap_append, List.flatMap_cons]
  rw [hnil pre (fun r' hr' => hother r' (by simp [hr']))]
  rw [hnil post (fun r' hr' => hother r' (by simp [hr']))]
  rw [runRule_elem o w r er he, hw, List.flatMap_append, List.flatMap_cons]
  rw [hfnil fpre (fun g hg => hfiles g (by simp [hg]))]
  rw [hfnil fpost (fun g hg => hfiles g (by simp [hg]))]
  rw [hflag]
  simp

/-- **Every kind of field is visited.**  The field iterator (NewLintFieldRuleHandler) enumerates
    (1) every FILE-LEVEL extension — at `[7, i]`, with NO parent message —, and for every message
    `x` nested at any depth below a top-level message (2) every declared field of `x` — plain
    fields, oneof members, map fields and group fields all live there — and (3) every extension
    declared inside `x`, both with parent `x`.  (The synthetic `key`/`value` fields of a map
    entry and the fields of a group body are case (2) for the synthetic / group message.) -/
theorem field_visit_complete (f : File) :
    (∀ fd ∈ f.exts, ∃ i, ([7, i], (none : Option Message), fd) ∈ fileFields f) ∧
    (∀ top ∈ f.msgs, ∀ x, Nested x top →
      (∀ fd ∈ x.fields, ∃ p, (p, some x, fd) ∈ fileFields f) ∧
      (∀ fd ∈ x.exts, ∃ p, (p, some x, fd) ∈ fileFields f)) := by
  refine ⟨fun fd h => fileFields_fileExt f fd h, ?_⟩
  intro top ht x hx
  obtain ⟨p, hp⟩ := (nested_visit_complete f top x ht hx).1
  refine ⟨fun fd h => ?_, fun fd h => ?_⟩
  · obtain ⟨i, hi⟩ := fileFields_msgField f p x hp fd h
    exact ⟨_, hi⟩
  · obtain ⟨i, hi⟩ := fileFields_msgExt f p x hp fd h
    exact ⟨_, hi⟩

/-- **No enumerated element is skipped.**  If a configured per-element rule enumerates an element
    in a non-import file and its coded predicate holds, lint reports it at the rule's location. -/
theorem elem_bad_reported (o : Options) (rules : List Rule) (w : Schema) (r : Rule) (er : ElemRule)
    (he : elemRule r = some er) (hr : r ∈ rules) (f : File) (hf : f ∈ w) (hni : f.isImport = false)
    (e : er.α) (hmem : e ∈ er.els f) (hbad : er.bad o e = true) :
    ann r f (er.loc e) ∈ lint o rules w := by
  unfold lint
  exact List.mem_flatMap.mpr ⟨r, hr, mem_runRule_of_bad o w r er he f hf hni e hmem hbad⟩

/-- **The four field rules report every visited field that is not a map-entry member** —
    whatever its parent is, `none` included: a missing comment (unless the field is a group, whose
    comment belongs to the nested message), a name that is not its own lower_snake_case form, a
    name that is `descriptor` up to case and surrounding underscores, a required label. -/
theorem field_rules_report (o : Options) (rules : List Rule) (w : Schema) (f : File) (hf : f ∈ w)
    (hni : f.isImport = false) (p : List Nat) (pm : Option Message) (fd : Field)
    (hmem : (p, pm, fd) ∈ fileFields f) (hpm : isMapEntryParent pm = false) :
    (.COMMENT_FIELD ∈ rules → fd.group = false →
        validLeadingComment o.commentExcludes fd.comment = false →
        (⟨.COMMENT_FIELD, f.path, p⟩ : Annotation) ∈ lint o rules w) ∧
    (.FIELD_LOWER_SNAKE_CASE ∈ rules → fd.name ≠ toLowerSnakeCase false fd.name →
        (⟨.FIELD_LOWER_SNAKE_CASE, f.path, p ++ [1]⟩ : Annotation) ∈ lint o rules w) ∧
    (.FIELD_NO_DESCRIPTOR ∈ rules → (trimUnderscores fd.name).map toLower = "descriptor".toList →
        (⟨.FIELD_NO_DESCRIPTOR, f.path, p ++ [1]⟩ : Annotation) ∈ lint o rules w) ∧
    (.FIELD_NOT_REQUIRED ∈ rules → fd.required = true →
        (⟨.FIELD_NOT_REQUIRED, f.path, p ++ [1]⟩ : Annotation) ∈ lint o rules w) := by
  refine ⟨fun hr hg hv => ?_, fun hr hn => ?_, fun hr hd => ?_, fun hr hq => ?_⟩
  · exact elem_bad_reported o rules w .COMMENT_FIELD _ rfl hr f hf hni (p, pm, fd) hmem
      (by simp [hpm, hg, hv])
  · exact elem_bad_reported o rules w .FIELD_LOWER_SNAKE_CASE _ rfl hr f hf hni (p, pm, fd) hmem
      (by simp [hpm, hn])
  · exact elem_bad_reported o rules w .FIELD_NO_DESCRIPTOR _ rfl hr f hf hni (p, pm, fd) hmem
      (by simp [hd])
  · exact elem_bad_reported o rules w .FIELD_NOT_REQUIRED _ rfl hr f hf hni (p, pm, fd) hmem
      (by simp [hq])

/-- **File-level extension fields are not skipped.**  `extend Foo { optional string x = 100; }`
    at the top level of a non-import file: the field has no parent message, and each of the four
    field rules reports it at `[7, i]` (comment) / `[7, i, 1]` (name) when its predicate holds. -/
theorem file_extension_reported (o : Options) (rules : List Rule) (w : Schema) (f : File) (hf : f ∈ w)
    (hni : f.isImport = false) (fd : Field) (hx : fd ∈ f.exts) : ∃ i,
    (.COMMENT_FIELD ∈ rules → fd.group = false →
        validLeadingComment o.commentExcludes fd.comment = false →
        (⟨.COMMENT_FIELD, f.path, [7, i]⟩ : Annotation) ∈ lint o rules w) ∧
    (.FIELD_LOWER_SNAKE_CASE ∈ rules → fd.name ≠ toLowerSnakeCase false fd.name →
        (⟨.FIELD_LOWER_SNAKE_CASE, f.path, [7, i, 1]⟩ : Annotation) ∈ lint o rules w) ∧
    (.FIELD_NO_DESCRIPTOR ∈ rules → (trimUnderscores fd.name).map toLower = "descriptor".toList →
        (⟨.FIELD_NO_DESCRIPTOR, f.path, [7, i, 1]⟩ : Annotation) ∈ lint o rules w) ∧
    (.FIELD_NOT_REQUIRED ∈ rules → fd.required = true →
        (⟨.FIELD_NOT_REQUIRED, f.path, [7, i, 1]⟩ : Annotation) ∈ lint o rules w) := by
  obtain ⟨i, hi⟩ := (field_visit_complete f).1 fd hx
  exact ⟨i, field_rules_report o rules w f hf hni [7, i] none fd hi rfl⟩

/-- **Map-entry members and group fields are exempt exactly as coded**: COMMENT_FIELD and
    FIELD_LOWER_SNAKE_CASE never flag a field whose parent is a synthetic map entry, and
    COMMENT_FIELD never flags a group field (its comment documents the nested message). -/
theorem map_entry_and_group_exempt (o : Options) (p : List Nat) (m : Message) (pm : Option Message)
    (fd : Field) :
    (m.mapEntry = true →
      ((elemRule .COMMENT_FIELD).get rfl).bad o (p, some m, fd) = false ∧
      ((elemRule .FIELD_LOWER_SNAKE_CASE).get rfl).bad o (p, some m, fd) = false) ∧
    (fd.group = true → ((elemRule .COMMENT_FIELD).get rfl).bad o (p, pm, fd) = false) := by
  refine ⟨fun hm => ⟨?_, ?_⟩, fun hg => ?_⟩
  · show (if (isMapEntryParent (some m) || fd.group) = true then false
        else !validLeadingComment o.commentExcludes fd.comment) = false
    simp [isMapEntryParent, hm]
  · show (if isMapEntryParent (some m) = true then false
        else fd.name != toLowerSnakeCase false fd.name) = false
    simp [isMapEntryParent, hm]
  · show (if (isMapEntryParent pm || fd.group) = true then false
        else !validLeadingComment o.commentExcludes fd.comment) = false
    simp [hg]

-- non-vacuity: a workspace with a nested message/enum, a service and an import-only file full
-- of violations is Clean for every modelled rule; planting one violation yields exactly it.
example : cleanB {} Rule.all exWs = true := by decide
example : lint {} Rule.all exWs = [] := clean_no_annotations _ _ _ (by decide)
example : lint {} Rule.all (exPlantPublic) = [⟨.IMPORT_NO_PUBLIC, "acme/foo/v1/types.proto".toList, [3, 0]⟩] := by decide
example : lint {} Rule.all (exPlantEnumName) =
    [⟨.ENUM_PASCAL_CASE, "acme/foo/v1/types.proto".toList, [4, 0, 3, 0, 4, 0, 1]⟩] := by decide
example : Nested exInner exOuter := .step (by show exInner ∈ [exInner]; simp) (.refl _)
-- non-vacuity for the field kinds: a file with a plain field, oneof members, a map field (and its
-- synthetic entry message), a group field (and its nested message), an extension nested in a
-- message and two file-level extensions is Clean; planting at a FILE-LEVEL extension (parent
-- message `none`) yields exactly that annotation.
example : cleanB {} Rule.all exKinds = true := by decide
example : lint {} Rule.all exKindsPlantFileExtComment =
    [⟨.COMMENT_FIELD, "acme/foo/v1/kinds.proto".toList, [7, 1]⟩] := by decide
example : lint {} Rule.all exKindsPlantFileExtName =
    [⟨.FIELD_LOWER_SNAKE_CASE, "acme/foo/v1/kinds.proto".toList, [7, 0, 1]⟩] := by decide

/-- IMPORT_NO_WEAK is registered with a handler that does nothing (deprecated, in no category):
    a weak import is never reported — the property's "weak import" clause is not implemented by
    this tree.  Documented here; replayed by the harness (plant IMPORT_NO_WEAK). -/
theorem import_no_weak_counterexample :
    lint {} [.IMPORT_NO_WEAK] (exPlantWeak) = [] := by decide

/-! ## What `good` means in the words of the rule documentation (audit S2)

  For the rules whose Clean condition is the negation of the coded predicate, an INDEPENDENT
  reading is proved equivalent to it.  (The flag rules are definitional, see `clean_no_annotations`.) -/

/-- COMMENT_* (all seven; `ex` = the one exclude prefix bufcheck.Client passes, "buf:lint:ignore"):
    a leading comment is accepted iff it has a line with a non-space character that, trimmed, does
    not start with `ex`. -/
theorem comment_rule_spec (ex c : Str) :
    validLeadingComment [ex] c = true ↔
      ∃ line ∈ splitLines c, (∃ ch ∈ line, isSpace ch = false) ∧ ¬ ∃ rest, trimSpace line = ex ++ rest :=
  validLeadingComment_single_iff ex c

/-- ENUM_ZERO_VALUE_SUFFIX and SERVICE_SUFFIX: the Clean condition is "ends with the configured
    suffix" (the zero value / the service name is `<something><suffix>`). -/
theorem suffix_rule_spec (o : Options) (p : List Nat) (e : Enum) (v : EnumValue) (s : Service) :
    (((elemRule .ENUM_ZERO_VALUE_SUFFIX).get rfl).good o (p, e, v) = true ↔
      v.number ≠ 0 ∨ ∃ pre, v.name = pre ++ o.zeroSuffix) ∧
    (((elemRule .SERVICE_SUFFIX).get rfl).good o (p, s) = true ↔ ∃ pre, s.name = pre ++ o.svcSuffix) := by
  constructor
  · show (v.number != 0 || hasSuffix o.zeroSuffix v.name) = true ↔ _
    simp only [Bool.or_eq_true, bne_iff_ne, ne_eq, hasSuffix_iff]
  · exact hasSuffix_iff _ _

/-- ENUM_VALUE_PREFIX: the value name is `<UPPER_SNAKE_CASE of the enum name>_<something>`. -/
theorem prefix_rule_spec (o : Options) (p : List Nat) (e : Enum) (v : EnumValue) :
    ((elemRule .ENUM_VALUE_PREFIX).get rfl).good o (p, e, v) = true ↔
      ∃ rest, v.name = toUpperSnakeCase false e.name ++ ['_'] ++ rest :=
  hasPrefix_iff _ _

/-- RPC_REQUEST_STANDARD_NAME / RPC_RESPONSE_STANDARD_NAME, for PascalCase RPC and service names:
    the message is named `<Rpc>Request` or `<Service><Rpc>Request` (… `Response`), or it is
    google.protobuf.Empty and that side's allow option is set. -/
theorem rpc_standard_name_spec (o : Options) (isReq : Bool) (s : Service) (m : Rpc)
    (hm : isPascalIdent m.name = true) (hs : isPascalIdent s.name = true) :
    stdNameBad o isReq s m = false ↔
      ((if isReq then o.rpcAllowGoogleProtobufEmptyRequests else o.rpcAllowGoogleProtobufEmptyResponses) = true ∧
        (if isReq then m.inType else m.outType) = emptyType) ∨
      typeBase (if isReq then m.inType else m.outType) =
        m.name ++ (if isReq then "Request".toList else "Response".toList) ∨
      typeBase (if isReq then m.inType else m.outType) =
        s.name ++ (m.name ++ (if isReq then "Request".toList else "Response".toList)) :=
  stdNameBad_iff o isReq s m hm hs

/-- PACKAGE_VERSION_SUFFIX accepts every package `<anything>.v<N>`, 1 ≤ N ≤ 2³¹-1 (the grammar
    theorem `version_accepts_stable` composed with the rule; the alpha/beta/test forms are covered
    by `version_table` only). -/
theorem package_version_suffix_accepts (o : Options) (f : File) (pre ds : Str)
    (hpkg : f.pkg = pre ++ '.' :: 'v' :: ds) (hne : ds ≠ []) (hd : ds.all isDigit = true)
    (h1 : 1 ≤ digitsVal ds) (h2 : digitsVal ds ≤ 2147483647) :
    ((elemRule .PACKAGE_VERSION_SUFFIX).get rfl).bad o f = false := by
  show (!f.pkg.isEmpty && (versionForPackage false f.pkg).isNone) = false
  rw [hpkg, versionForPackage_stable pre ds hne hd h1 h2]
  simp

/-! ## Any number of violations: the annotations ARE the violations -/

/-- **Per-element rules (all 34), exactly.**  For a configured per-element rule `r`, the
    annotations carrying `r` are exactly: one per enumerated element of a target (non-import) file
    whose coded predicate holds, at that element's location — however many there are. -/
theorem violations_exact_elem (o : Options) (rules : List Rule) (w : Schema) (r : Rule) (er : ElemRule)
    (he : elemRule r = some er) (a : Annotation) :
    (a ∈ lint o rules w ∧ a.rule = r) ↔
      r ∈ rules ∧ ∃ f ∈ w, f.isImport = false ∧ ∃ e ∈ er.els f, er.bad o e = true ∧ a = ann r f (er.loc e) := by
  rw [mem_lint_iff]
  constructor
  · rintro ⟨⟨hr, ha⟩, rfl⟩
    exact ⟨hr, (mem_runRule_elem_iff o w _ er he a).mp ha⟩
  · rintro ⟨hr, hx⟩
    have ha := (mem_runRule_elem_iff o w r er he a).mpr hx
    have hrule := runRule_rule o w r a ha
    subst hrule
    exact ⟨⟨hr, ha⟩, rfl⟩

/-- soundness half, for every rule: an annotation of a per-element rule points at a bad element -/
theorem annotation_has_violation (o : Options) (rules : List Rule) (w : Schema) (a : Annotation)
    (h : a ∈ lint o rules w) (er : ElemRule) (he : elemRule a.rule = some er) :
    ∃ f ∈ w, f.isImport = false ∧ a.file = f.path ∧ ∃ e ∈ er.els f, er.bad o e = true ∧ a.path = er.loc e := by
  obtain ⟨_, f, hf, hni, e, hmem, hbad, ha⟩ := (violations_exact_elem o rules w a.rule er he a).mp ⟨h, rfl⟩
  exact ⟨f, hf, hni, by rw [ha]; rfl, e, hmem, hbad, by rw [ha]; rfl⟩

/-- **The nine grouping rules, exactly** (PACKAGE_SAME_<option> ×7 with key = package, value =
    option; PACKAGE_SAME_DIRECTORY key = package, value = directory; DIRECTORY_SAME_PACKAGE key =
    directory, value = package).  A target file is annotated iff some target file with the same key
    has a different value — so ALL files of a conflicting group are annotated. -/
theorem violations_exact_group (o : Options) (rules : List Rule) (w : Schema) (r : Rule)
    (key val : File → Str) (loc : File → List Nat) (hg : groupSpec r = some (key, val, loc)) (a : Annotation) :
    (a ∈ lint o rules w ∧ a.rule = r) ↔
      r ∈ rules ∧ ∃ g ∈ nonImport w, a = ann r g (loc g) ∧ ∃ g' ∈ nonImport w, key g' = key g ∧ val g' ≠ val g := by
  rw [mem_lint_iff]
  constructor
  · rintro ⟨⟨hr, ha⟩, rfl⟩
    rw [runRule_group o w _ key val loc hg] at ha
    exact ⟨hr, (mem_groupRule_iff _ _ _ _ _ a).mp ha⟩
  · rintro ⟨hr, hx⟩
    have ha : a ∈ runRule o w r := by
      rw [runRule_group o w r key val loc hg]; exact (mem_groupRule_iff _ _ _ _ _ a).mpr hx
    have hrule := runRule_rule o w r a ha
    subst hrule
    exact ⟨⟨hr, ha⟩, rfl⟩

/-- "two files of one package with different option X ⇒ all of them annotated", as a corollary -/
theorem group_conflict_all_annotated (o : Options) (rules : List Rule) (w : Schema) (r : Rule)
    (key val : File → Str) (loc : File → List Nat) (hg : groupSpec r = some (key, val, loc)) (hr : r ∈ rules)
    (g1 g2 : File) (h1 : g1 ∈ nonImport w) (h2 : g2 ∈ nonImport w) (hk : key g1 = key g2) (hv : val g1 ≠ val g2) :
    ∀ g ∈ nonImport w, key g = key g1 → ann r g (loc g) ∈ lint o rules w := by
  intro g hgm hkg
  apply ((violations_exact_group o rules w r key val loc hg _).mpr ⟨hr, g, hgm, rfl, ?_⟩).1
  by_cases e : val g1 = val g
  · exact ⟨g2, h2, (hk.symm.trans hkg.symm), fun e2 => hv (e.trans e2.symm)⟩
  · exact ⟨g1, h1, hkg.symm, e⟩

/-- for a grouping rule, the pairwise Clean condition is EXACTLY "the rule reports nothing" -/
theorem clean_iff_silent_group (o : Options) (w : Schema) (r : Rule)
    (key val : File → Str) (loc : File → List Nat) (hg : groupSpec r = some (key, val, loc)) :
    cleanRule o w r = true ↔ runRule o w r = [] := by
  rw [cleanRule_groupSpec o w r key val loc hg, runRule_group o w r key val loc hg]
  exact (groupRule_nil_iff r _ key val loc).symm

/-- **The rule is keyed by the fully-qualified method name.**  The handler keeps the methods in Go
    maps keyed by `method.FullName()` (`rpcUniqueCoded`, `rpcUniqueBy RpcEntry.full`).  On every
    workspace whose methods have pairwise distinct full names — every linked image — those maps
    never merge two methods and the coded rule IS the documented one: every method a row of its
    own, counted over the whole module set, whatever the names of the services and RPCs
    (`rpcUnique`, `rpcUniqueT` on the method table). -/
theorem rpc_unique_keyed_by_full_name (o : Options) (w : Schema) (hfn : FullNamesDistinct w) :
    runRule o w .RPC_REQUEST_RESPONSE_UNIQUE = rpcUniqueT o (rpcTable w) := by
  rw [runRule_global o w _ rfl]
  exact rpcUniqueCoded_eq o w hfn

/-- the keyed rule never reports more than the documented one (two methods with one full name —
    no linked image has them — make `FullNameToMethod` fail: nothing is reported) -/
theorem rpc_unique_coded_sub_documented (o : Options) (w : Schema) (a : Annotation)
    (h : a ∈ runRule o w .RPC_REQUEST_RESPONSE_UNIQUE) : a ∈ rpcUniqueT o (rpcTable w) := by
  rw [runRule_global o w _ rfl] at h
  exact rpcUniqueCoded_sub o w a h

/-- The v1 / v2 witness: `acme.v1.ThingService.GetThing` and `acme.v2.ThingService.GetThing` both
    take `common.v1.GetThingRequest`. -/
def twinEntries : List RpcEntry :=
  [⟨"acme.v1.ThingService.GetThing".toList, "ThingService.GetThing".toList,
     ⟨"acme/v1/thing.proto".toList, [6, 0, 2, 0], "common.v1.GetThingRequest".toList, "acme.v1.GetThingResponse".toList⟩⟩,
   ⟨"acme.v2.ThingService.GetThing".toList, "ThingService.GetThing".toList,
     ⟨"acme/v2/thing.proto".toList, [6, 0, 2, 0], "common.v1.GetThingRequest".toList, "acme.v2.GetThingResponse".toList⟩⟩]

/-- **Why the key must be the FULL name.**  On the v1 / v2 witness the handler keyed by the full
    name reports both RPCs (as documented); the same handler keyed by `method.NestedName()`
    (`Service.Method`, no package) merges the two methods into one map entry and reports NOTHING. -/
theorem rpc_unique_nested_key_counterexample :
    rpcUniqueBy RpcEntry.full {} twinEntries =
        [⟨.RPC_REQUEST_RESPONSE_UNIQUE, "acme/v1/thing.proto".toList, [6, 0, 2, 0]⟩,
         ⟨.RPC_REQUEST_RESPONSE_UNIQUE, "acme/v2/thing.proto".toList, [6, 0, 2, 0]⟩] ∧
    rpcUniqueBy RpcEntry.full {} twinEntries = rpcUniqueT {} (twinEntries.map (·.row)) ∧
    rpcUniqueBy RpcEntry.nested {} twinEntries = [] := by
  decide

/-- the witness as a workspace: two packages, each with `service ThingService { rpc GetThing }` -/
def twinWs : Schema :=
  [{ path := "acme/v1/thing.proto".toList, pkg := "acme.v1".toList,
     svcs := [⟨"ThingService".toList, " Doc.\n".toList,
       [⟨"GetThing".toList, " Doc.\n".toList, "common.v1.GetThingRequest".toList, "acme.v1.GetThingResponse".toList, false, false⟩]⟩] },
   { path := "acme/v2/thing.proto".toList, pkg := "acme.v2".toList,
     svcs := [⟨"ThingService".toList, " Doc.\n".toList,
       [⟨"GetThing".toList, " Doc.\n".toList, "common.v1.GetThingRequest".toList, "acme.v2.GetThingResponse".toList, false, false⟩]⟩] }]

example : FullNamesDistinct twinWs := by decide

/-- `lint` on the v1 / v2 workspace reports both RPCs (the model keys as the code does) -/
example : lint {} [.RPC_REQUEST_RESPONSE_UNIQUE] twinWs =
    [⟨.RPC_REQUEST_RESPONSE_UNIQUE, "acme/v1/thing.proto".toList, [6, 0, 2, 0]⟩,
     ⟨.RPC_REQUEST_RESPONSE_UNIQUE, "acme/v2/thing.proto".toList, [6, 0, 2, 0]⟩] := by decide

example : (rpcEntries twinWs).map (·.full) = ["acme.v1.ThingService.GetThing".toList, "acme.v2.ThingService.GetThing".toList] ∧
    (rpcEntries twinWs).map (·.nested) = ["ThingService.GetThing".toList, "ThingService.GetThing".toList] := by decide

/-- **RPC_REQUEST_RESPONSE_UNIQUE, exactly**: the annotated RPCs are the rows of the method table
    that violate `RpcViolation` (same request and response type; a type used by two RPCs — of any
    service, file and package of the module set; with the allow_* exemptions each on its own side).
    `hfn`: the methods have pairwise distinct fully-qualified names (true of every linked image);
    the handler keys its maps by that name (`rpc_unique_keyed_by_full_name`). -/
theorem violations_exact_rpc_unique (o : Options) (rules : List Rule) (w : Schema) (hfn : FullNamesDistinct w)
    (a : Annotation) :
    (a ∈ lint o rules w ∧ a.rule = .RPC_REQUEST_RESPONSE_UNIQUE) ↔
      .RPC_REQUEST_RESPONSE_UNIQUE ∈ rules ∧ ∃ x ∈ rpcTable w, a = x.ann ∧ RpcViolation o (rpcTable w) x := by
  rw [mem_lint_iff]
  constructor
  · rintro ⟨⟨hr, ha⟩, e⟩
    rw [e] at hr ha
    rw [rpc_unique_keyed_by_full_name o w hfn] at ha
    exact ⟨hr, (mem_rpcUniqueT_iff o _ a).mp ha⟩
  · rintro ⟨hr, x, hx, rfl, hv⟩
    refine ⟨⟨hr, ?_⟩, rfl⟩
    show x.ann ∈ runRule o w .RPC_REQUEST_RESPONSE_UNIQUE
    rw [rpc_unique_keyed_by_full_name o w hfn]
    exact (mem_rpcUniqueT_iff o _ _).mpr ⟨x, hx, rfl, hv⟩

/-- **STABLE_PACKAGE_NO_IMPORT_UNSTABLE, exactly**: import `i` of a target file with a stable
    package is annotated iff it resolves (among the target files) to a file with an unstable package. -/
theorem violations_exact_stable (o : Options) (rules : List Rule) (w : Schema) (a : Annotation) :
    (a ∈ lint o rules w ∧ a.rule = .STABLE_PACKAGE_NO_IMPORT_UNSTABLE) ↔
      .STABLE_PACKAGE_NO_IMPORT_UNSTABLE ∈ rules ∧ ∃ f ∈ nonImport w, isStable f.pkg = some true ∧
        ∃ i imp, (i, imp) ∈ indexed f.imports ∧ ∃ g, findFile (nonImport w) imp.path = some g ∧
          isStable g.pkg = some false ∧ a = ann .STABLE_PACKAGE_NO_IMPORT_UNSTABLE f [3, i] := by
  rw [mem_lint_iff]
  constructor
  · rintro ⟨⟨hr, ha⟩, e⟩
    rw [e] at hr ha
    exact ⟨hr, (mem_stableNoUnstable_iff w a).mp ha⟩
  · rintro ⟨hr, hx⟩
    have ha := (mem_stableNoUnstable_iff w a).mpr hx
    obtain ⟨f, _, _, i, imp, _, g, _, _, rfl⟩ := hx
    exact ⟨⟨hr, ha⟩, rfl⟩

/-! ## Frame theorems -/

/-- **Frame (declarations).**  Rewriting the declarations of one file with a transformer that is
    the identity on every group of declarations the rule `r` reads (`dep r`: enums with their
    values / messages / fields and extensions / oneofs / services / RPCs) keeps `r` Clean — at any
    nesting depth, whatever else the transformer does, for per-element and multi-file rules alike. -/
theorem frame_declarations (o : Options) (w : Schema) (fp : Str) (T : Tr) (r : Rule)
    (hid : ∀ g ∈ dep r, T.isId g) (hc : cleanRule o w r = true) :
    cleanRule o (plantDecl fp T w) r = true :=
  frame_deep o w fp T r hid hc

/-- **Frame (file header).**  After rewriting the header of one target file of a Clean workspace
    (declarations, import flag kept) no declaration rule fires: every annotation belongs to a
    file / import rule or to a multi-file rule. -/
theorem frame_header (o : Options) (rules : List Rule) (w : Schema) (f : File) (hf : FileAt w f)
    (h : File → File) (hI : ∀ g, (h g).isImport = g.isImport) (kd : KeepsDecls h)
    (hclean : cleanB o rules w = true) (a : Annotation) (ha : a ∈ lint o rules (plantFile f.path h w)) :
    isFileRule a.rule = true ∨ elemRule a.rule = none :=
  ((lint_header_op o rules w f hf h hI kd hclean a).mp ha).2.1

/-! ## Exact planting: one theorem per planting operator

  Shape: `cleanB o rules w` (the ORIGINAL workspace is Clean for the configured rules), `FileAt w f`
  (f is a target file, the only one with its path), the element is enumerated in `f`, an
  applicability condition on the ORIGINAL element, "the new name / comment / flag is bad" — derived
  from the grammar theorems through `NotPascal` / `NotLowerSnake` / `NotUpperSnake` —, and explicit
  side conditions for the (few) other rules that read the same attribute.  Conclusion: `lint` of
  the planted workspace is EXACTLY the planted annotation (list equality; `rules.Nodup`), or, for
  the operators that reach a multi-file rule, an `↔` characterisation of membership that names
  every co-violation. -/

/-! ## Exact planting: one theorem per planting operator -/

/-- **Renaming an enum** (top-level or nested at any depth) to a name the PascalCase grammar rejects
    (`NotPascal`: a delimiter such as '_', or a lower-case first letter): exactly ENUM_PASCAL_CASE at the
    enum's name.  `hprefix`: ENUM_VALUE_PREFIX reads the enum name too — the value prefix must not
    change (e.g. `Color` → `color`), otherwise every value is a co-violation. -/
theorem plant_enum_name (o : Options) (rules : List Rule) (w : Schema) (f : File)
    (hN : rules.Nodup) (hclean : cleanB o rules w = true) (hr : .ENUM_PASCAL_CASE ∈ rules)
    (hf : FileAt w f) (p0 : List Nat) (e0 : Enum) (he0 : (p0, e0) ∈ fileEnums f) (nn : Str)
    (hbadname : NotPascal nn)
    (hprefix : .ENUM_VALUE_PREFIX ∈ rules → toUpperSnakeCase false nn = toUpperSnakeCase false e0.name) :
    lint o rules (renameEnum f.path p0 nn w) = [⟨.ENUM_PASCAL_CASE, f.path, p0 ++ [1]⟩] := by
  have h := plant_via_map o rules w .ENUM_PASCAL_CASE _ _ _ _ rfl hN hr hclean f hf
    (mapFile (opEnum p0 (fun e => {e with name := nn}))) (fun _ => rfl) _ (fileEnums_map _ f)
    (·.1) (fileEnums_nodup f) (p0, e0) he0
    (by intro x _ hne hg; simpa only [tauEnum, opEnum_enumFull, if_neg hne] using hg)
    (by simp only [tauEnum, opEnum_enumFull, if_pos]; exact notPascal_bad hbadname)
    (by
      intro r hr hne
      apply frame_opEnum o w f hf p0 e0 he0 _ r _ (cleanB_rule hclean hr)
      cases r <;> simp [enumLocalGood] at hne ⊢
      case ENUM_VALUE_PREFIX => rw [hprefix hr]; exact id)
  simpa [renameEnum, setEnumComment, addAllowAlias, plantDecl, tauEnum, opEnum_enumFull, ann, mapFile] using h

/-- **Deleting / spoiling the leading comment of an enum** (`c` has no accepted line: empty, blank,
    or only `buf:lint:ignore …` lines): exactly COMMENT_ENUM at the enum. -/
theorem plant_enum_comment (o : Options) (rules : List Rule) (w : Schema) (f : File)
    (hN : rules.Nodup) (hclean : cleanB o rules w = true) (hr : .COMMENT_ENUM ∈ rules)
    (hf : FileAt w f) (p0 : List Nat) (e0 : Enum) (he0 : (p0, e0) ∈ fileEnums f) (c : Str)
    (hbadc : validLeadingComment o.commentExcludes c = false) :
    lint o rules (setEnumComment f.path p0 c w) = [⟨.COMMENT_ENUM, f.path, p0⟩] := by
  have h := plant_via_map o rules w .COMMENT_ENUM _ _ _ _ rfl hN hr hclean f hf
    (mapFile (opEnum p0 (fun e => {e with comment := c}))) (fun _ => rfl) _ (fileEnums_map _ f)
    (·.1) (fileEnums_nodup f) (p0, e0) he0
    (by intro x _ hne hg; simpa only [tauEnum, opEnum_enumFull, if_neg hne] using hg)
    (by simp only [tauEnum, opEnum_enumFull, if_pos, hbadc]; rfl)
    (by
      intro r hr hne
      apply frame_opEnum o w f hf p0 e0 he0 _ r _ (cleanB_rule hclean hr)
      cases r <;> simp [enumLocalGood] at hne ⊢)
  simpa [renameEnum, setEnumComment, addAllowAlias, plantDecl, tauEnum, opEnum_enumFull, ann, mapFile] using h

/-- **Adding `option allow_alias = true;`** (with the alias values it needs, themselves conforming):
    exactly ENUM_NO_ALLOW_ALIAS at the option. -/
theorem plant_enum_allow_alias (o : Options) (rules : List Rule) (w : Schema) (f : File)
    (hN : rules.Nodup) (hclean : cleanB o rules w = true) (hr : .ENUM_NO_ALLOW_ALIAS ∈ rules)
    (hf : FileAt w f) (p0 : List Nat) (e0 : Enum) (he0 : (p0, e0) ∈ fileEnums f) (extra : List EnumValue)
    (hne : e0.values ≠ [])
    (hextra : ∀ v ∈ extra,
      (.COMMENT_ENUM_VALUE ∈ rules → goodComment o v.comment = true) ∧
      (.ENUM_VALUE_PREFIX ∈ rules → hasPrefix (toUpperSnakeCase false e0.name ++ ['_']) v.name = true) ∧
      (.ENUM_VALUE_UPPER_SNAKE_CASE ∈ rules → isUpperSnakeIdent v.name = true) ∧
      (.ENUM_ZERO_VALUE_SUFFIX ∈ rules → (v.number != 0 || hasSuffix o.zeroSuffix v.name) = true)) :
    lint o rules (addAllowAlias f.path p0 extra w) = [⟨.ENUM_NO_ALLOW_ALIAS, f.path, p0 ++ [3, 2]⟩] := by
  have h := plant_via_map o rules w .ENUM_NO_ALLOW_ALIAS _ _ _ _ rfl hN hr hclean f hf
    (mapFile (opEnum p0 (fun e => {e with allowAlias := true, values := e.values ++ extra}))) (fun _ => rfl) _
    (fileEnums_map _ f) (·.1) (fileEnums_nodup f) (p0, e0) he0
    (by intro x _ hne hg; simpa only [tauEnum, opEnum_enumFull, if_neg hne] using hg)
    (by simp only [tauEnum, opEnum_enumFull, if_pos])
    (by
      intro r hr hner
      apply frame_opEnum o w f hf p0 e0 he0 _ r _ (cleanB_rule hclean hr)
      cases r <;> simp [enumLocalGood] at hner ⊢
      case ENUM_FIRST_VALUE_ZERO =>
        cases hv : e0.values with
        | nil => exact absurd hv hne
        | cons a t => simp
      case COMMENT_ENUM_VALUE => exact fun h => ⟨h, fun v hv => (hextra v hv).1 hr⟩
      case ENUM_VALUE_PREFIX => exact fun h => ⟨h, fun v hv => (hextra v hv).2.1 hr⟩
      case ENUM_VALUE_UPPER_SNAKE_CASE => exact fun h => ⟨h, fun v hv => (hextra v hv).2.2.1 hr⟩
      case ENUM_ZERO_VALUE_SUFFIX =>
        exact fun h => ⟨h, fun v hv => by simpa using (hextra v hv).2.2.2 hr⟩)
  simpa [renameEnum, setEnumComment, addAllowAlias, plantDecl, tauEnum, opEnum_enumFull, ann, mapFile] using h

/-- **Making the first enum value non-zero** (exchange the first two values): exactly
    ENUM_FIRST_VALUE_ZERO at the first value's number. -/
theorem plant_enum_first_value_nonzero (o : Options) (rules : List Rule) (w : Schema) (f : File)
    (hN : rules.Nodup) (hclean : cleanB o rules w = true) (hr : .ENUM_FIRST_VALUE_ZERO ∈ rules)
    (hf : FileAt w f) (p0 : List Nat) (e0 : Enum) (he0 : (p0, e0) ∈ fileEnums f)
    (a b : EnumValue) (rest : List EnumValue) (hv : e0.values = a :: b :: rest) (hb : b.number ≠ 0) :
    lint o rules (swapFirstValues f.path p0 w) = [⟨.ENUM_FIRST_VALUE_ZERO, f.path, p0 ++ [2, 0, 2]⟩] := by
  have h := plant_via_map o rules w .ENUM_FIRST_VALUE_ZERO _ _ _ _ rfl hN hr hclean f hf
    (mapFile (opEnum p0 swapFirst)) (fun _ => rfl) _
    (fileEnums_map _ f) (·.1) (fileEnums_nodup f) (p0, e0) he0
    (by intro x _ hne hg; simpa only [tauEnum, opEnum_enumFull, if_neg hne] using hg)
    (by simp only [tauEnum, opEnum_enumFull, if_pos, swapFirst, hv]; simpa using hb)
    (by
      intro r hr hner
      apply frame_opEnum o w f hf p0 e0 he0 _ r _ (cleanB_rule hclean hr)
      cases r <;> simp [enumLocalGood, swapFirst, hv] at hner ⊢
      all_goals (intros; simp_all))
  simpa [swapFirstValues, plantDecl, tauEnum, opEnum_enumFull, ann, mapFile] using h

/-! ### enum values -/

/-- **Renaming an enum value** to a name the UPPER_SNAKE_CASE grammar rejects (contains a lower-case
    letter), keeping prefix and zero-suffix: exactly ENUM_VALUE_UPPER_SNAKE_CASE at the value's name. -/
theorem plant_enum_value_case (o : Options) (rules : List Rule) (w : Schema) (f : File)
    (hN : rules.Nodup) (hclean : cleanB o rules w = true) (hr : .ENUM_VALUE_UPPER_SNAKE_CASE ∈ rules)
    (hf : FileAt w f) (q0 : List Nat) (e0 : Enum) (v0 : EnumValue) (h0 : (q0, e0, v0) ∈ fileEnumValues f)
    (nn : Str) (hbadname : NotUpperSnake nn)
    (hprefix : .ENUM_VALUE_PREFIX ∈ rules → hasPrefix (toUpperSnakeCase false e0.name ++ ['_']) nn = true)
    (hsuffix : .ENUM_ZERO_VALUE_SUFFIX ∈ rules → v0.number = 0 → hasSuffix o.zeroSuffix nn = true) :
    lint o rules (renameValue f.path q0 nn w) = [⟨.ENUM_VALUE_UPPER_SNAKE_CASE, f.path, q0 ++ [1]⟩] := by
  have h := plant_via_map o rules w .ENUM_VALUE_UPPER_SNAKE_CASE _ _ _ _ rfl hN hr hclean f hf
    (mapFile (opValue q0 (fun v => {v with name := nn}))) (fun _ => rfl) _
    (fileEnumValues_map_value _ rfl f) (·.1) (fileEnumValues_nodup f) (q0, e0, v0) h0
    (by intro x _ hne hg; simpa only [tauValue, opValue, if_neg hne] using hg)
    (by simp only [tauValue, opValue, if_pos]; exact notUpperSnake_bad hbadname)
    (by
      intro r hr hner
      apply frame_opValue o w f hf q0 e0 v0 h0 (fun v => {v with name := nn}) (fun _ => rfl) r _ (cleanB_rule hclean hr)
      cases r <;> simp [valueLocalGood] at hner ⊢
      case ENUM_VALUE_PREFIX => exact fun _ => hprefix hr
      case ENUM_ZERO_VALUE_SUFFIX =>
        intro h
        by_cases hz : v0.number = 0
        · exact Or.inr (hsuffix hr hz)
        · exact Or.inl hz)
  simpa [renameValue, plantDecl, tauValue, opValue, ann, mapFile] using h

/-- **Renaming an enum value** to a name without the `<ENUM_NAME>_` prefix: exactly ENUM_VALUE_PREFIX. -/
theorem plant_enum_value_prefix (o : Options) (rules : List Rule) (w : Schema) (f : File)
    (hN : rules.Nodup) (hclean : cleanB o rules w = true) (hr : .ENUM_VALUE_PREFIX ∈ rules)
    (hf : FileAt w f) (q0 : List Nat) (e0 : Enum) (v0 : EnumValue) (h0 : (q0, e0, v0) ∈ fileEnumValues f)
    (nn : Str) (hbadname : hasPrefix (toUpperSnakeCase false e0.name ++ ['_']) nn = false)
    (hcase : .ENUM_VALUE_UPPER_SNAKE_CASE ∈ rules → isUpperSnakeIdent nn = true)
    (hsuffix : .ENUM_ZERO_VALUE_SUFFIX ∈ rules → v0.number = 0 → hasSuffix o.zeroSuffix nn = true) :
    lint o rules (renameValue f.path q0 nn w) = [⟨.ENUM_VALUE_PREFIX, f.path, q0 ++ [1]⟩] := by
  have h := plant_via_map o rules w .ENUM_VALUE_PREFIX _ _ _ _ rfl hN hr hclean f hf
    (mapFile (opValue q0 (fun v => {v with name := nn}))) (fun _ => rfl) _
    (fileEnumValues_map_value _ rfl f) (·.1) (fileEnumValues_nodup f) (q0, e0, v0) h0
    (by
      intro x _ hne hg
      show hasPrefix (toUpperSnakeCase false ((opValue q0 _).enumFull _ x.2.1).name ++ ['_'])
        ((opValue q0 _).value x.1 x.2.2).name = true
      rw [opValue_enumFull_name]
      simp only [opValue, if_neg hne]
      exact hg)
    (by
      simp only [tauValue, opValue, if_pos]
      show (!hasPrefix (toUpperSnakeCase false e0.name ++ ['_']) nn) = true
      rw [hbadname]; rfl)
    (by
      intro r hr hner
      apply frame_opValue o w f hf q0 e0 v0 h0 (fun v => {v with name := nn}) (fun _ => rfl) r _ (cleanB_rule hclean hr)
      cases r <;> simp [valueLocalGood] at hner ⊢
      case ENUM_VALUE_UPPER_SNAKE_CASE => exact fun _ => hcase hr
      case ENUM_ZERO_VALUE_SUFFIX =>
        intro h
        by_cases hz : v0.number = 0
        · exact Or.inr (hsuffix hr hz)
        · exact Or.inl hz)
  simpa [renameValue, plantDecl, tauValue, opValue, ann, mapFile] using h

/-- **Renaming the zero value** to a name without the configured suffix (option
    `enum_zero_value_suffix`, default `_UNSPECIFIED`): exactly ENUM_ZERO_VALUE_SUFFIX. -/
theorem plant_enum_zero_value_suffix (o : Options) (rules : List Rule) (w : Schema) (f : File)
    (hN : rules.Nodup) (hclean : cleanB o rules w = true) (hr : .ENUM_ZERO_VALUE_SUFFIX ∈ rules)
    (hf : FileAt w f) (q0 : List Nat) (e0 : Enum) (v0 : EnumValue) (h0 : (q0, e0, v0) ∈ fileEnumValues f)
    (hzero : v0.number = 0)
    (nn : Str) (hbadname : hasSuffix o.zeroSuffix nn = false)
    (hcase : .ENUM_VALUE_UPPER_SNAKE_CASE ∈ rules → isUpperSnakeIdent nn = true)
    (hprefix : .ENUM_VALUE_PREFIX ∈ rules → hasPrefix (toUpperSnakeCase false e0.name ++ ['_']) nn = true) :
    lint o rules (renameValue f.path q0 nn w) = [⟨.ENUM_ZERO_VALUE_SUFFIX, f.path, q0 ++ [1]⟩] := by
  have h := plant_via_map o rules w .ENUM_ZERO_VALUE_SUFFIX _ _ _ _ rfl hN hr hclean f hf
    (mapFile (opValue q0 (fun v => {v with name := nn}))) (fun _ => rfl) _
    (fileEnumValues_map_value _ rfl f) (·.1) (fileEnumValues_nodup f) (q0, e0, v0) h0
    (by intro x _ hne hg; simpa only [tauValue, opValue, if_neg hne] using hg)
    (by
      simp only [tauValue, opValue, if_pos]
      show (v0.number == 0 && !hasSuffix o.zeroSuffix nn) = true
      rw [hbadname, hzero]; rfl)
    (by
      intro r hr hner
      apply frame_opValue o w f hf q0 e0 v0 h0 (fun v => {v with name := nn}) (fun _ => rfl) r _ (cleanB_rule hclean hr)
      cases r <;> simp [valueLocalGood] at hner ⊢
      case ENUM_VALUE_UPPER_SNAKE_CASE => exact fun _ => hcase hr
      case ENUM_VALUE_PREFIX => exact fun _ => hprefix hr)
  simpa [renameValue, plantDecl, tauValue, opValue, ann, mapFile] using h

/-- **Deleting the comment of an enum value**: exactly COMMENT_ENUM_VALUE at the value. -/
theorem plant_enum_value_comment (o : Options) (rules : List Rule) (w : Schema) (f : File)
    (hN : rules.Nodup) (hclean : cleanB o rules w = true) (hr : .COMMENT_ENUM_VALUE ∈ rules)
    (hf : FileAt w f) (q0 : List Nat) (e0 : Enum) (v0 : EnumValue) (h0 : (q0, e0, v0) ∈ fileEnumValues f)
    (c : Str) (hbadc : validLeadingComment o.commentExcludes c = false) :
    lint o rules (setValueComment f.path q0 c w) = [⟨.COMMENT_ENUM_VALUE, f.path, q0⟩] := by
  have h := plant_via_map o rules w .COMMENT_ENUM_VALUE _ _ _ _ rfl hN hr hclean f hf
    (mapFile (opValue q0 (fun v => {v with comment := c}))) (fun _ => rfl) _
    (fileEnumValues_map_value _ rfl f) (·.1) (fileEnumValues_nodup f) (q0, e0, v0) h0
    (by intro x _ hne hg; simpa only [tauValue, opValue, if_neg hne] using hg)
    (by simp only [tauValue, opValue, if_pos, hbadc]; rfl)
    (by
      intro r hr hner
      apply frame_opValue o w f hf q0 e0 v0 h0 (fun v => {v with comment := c}) (fun _ => rfl) r _ (cleanB_rule hclean hr)
      cases r <;> simp [valueLocalGood] at hner ⊢)
  simpa [setValueComment, plantDecl, tauValue, opValue, ann, mapFile] using h

/-! ### messages -/

/-- **Renaming a message** (top-level, nested at any depth, group body; not a synthetic map entry) to
    a non-PascalCase name: exactly MESSAGE_PASCAL_CASE at its name.  (RPC request/response types are
    strings in the schema: renaming a message that an RPC references is `setRequestType` /
    `setResponseType` on top, see `plant_rpc_request_type`.) -/
theorem plant_message_name (o : Options) (rules : List Rule) (w : Schema) (f : File)
    (hN : rules.Nodup) (hclean : cleanB o rules w = true) (hr : .MESSAGE_PASCAL_CASE ∈ rules)
    (hf : FileAt w f) (p0 : List Nat) (m0 : Message) (h0 : (p0, m0) ∈ fileMsgs f)
    (hme : m0.mapEntry = false) (nn : Str) (hbadname : NotPascal nn) :
    lint o rules (renameMessage f.path p0 nn w) = [⟨.MESSAGE_PASCAL_CASE, f.path, p0 ++ [1]⟩] := by
  have h := plant_via_map o rules w .MESSAGE_PASCAL_CASE _ _ _ _ rfl hN hr hclean f hf
    (mapFile (opMsg p0 (fun _ => nn) id)) (fun _ => rfl) _ (fileMsgs_map _ f)
    (·.1) (fileMsgs_nodup f) (p0, m0) h0
    (by
      intro x _ hne hg
      simpa only [tauMsg, mapMsg_name, mapMsg_mapEntry, opMsg, if_neg hne] using hg)
    (by
      simp only [tauMsg, mapMsg_name, mapMsg_mapEntry, opMsg, if_pos, hme]
      exact notPascal_bad hbadname)
    (by
      intro r hr hner
      apply frame_opMsg o w f hf p0 m0 h0 (fun _ => nn) id r _ (cleanB_rule hclean hr)
      cases r <;> simp [msgLocalGood] at hner ⊢)
  simpa [renameMessage, plantDecl, tauMsg, ann, mapFile] using h

/-- **Deleting the comment of a message**: exactly COMMENT_MESSAGE at the message. -/
theorem plant_message_comment (o : Options) (rules : List Rule) (w : Schema) (f : File)
    (hN : rules.Nodup) (hclean : cleanB o rules w = true) (hr : .COMMENT_MESSAGE ∈ rules)
    (hf : FileAt w f) (p0 : List Nat) (m0 : Message) (h0 : (p0, m0) ∈ fileMsgs f)
    (hme : m0.mapEntry = false) (c : Str) (hbadc : validLeadingComment o.commentExcludes c = false) :
    lint o rules (setMessageComment f.path p0 c w) = [⟨.COMMENT_MESSAGE, f.path, p0⟩] := by
  have h := plant_via_map o rules w .COMMENT_MESSAGE _ _ _ _ rfl hN hr hclean f hf
    (mapFile (opMsg p0 id (fun _ => c))) (fun _ => rfl) _ (fileMsgs_map _ f)
    (·.1) (fileMsgs_nodup f) (p0, m0) h0
    (by
      intro x _ hne hg
      simpa only [tauMsg, mapMsg_comment, mapMsg_mapEntry, opMsg, if_neg hne] using hg)
    (by simp only [tauMsg, mapMsg_comment, mapMsg_mapEntry, opMsg, if_pos, hme, hbadc]; rfl)
    (by
      intro r hr hner
      apply frame_opMsg o w f hf p0 m0 h0 id (fun _ => c) r _ (cleanB_rule hclean hr)
      cases r <;> simp [msgLocalGood] at hner ⊢)
  simpa [setMessageComment, plantDecl, tauMsg, ann, mapFile] using h

/-! ### fields and extensions (any kind: plain, oneof member, map, group, nested or file-level extension) -/

/-- **Renaming a field or extension of ANY kind** (plain, oneof member, proto3 optional, map, group,
    extension nested in a message, FILE-LEVEL extension with no parent message — anything the field
    iterator visits whose parent is not a synthetic map entry) to a name with an upper-case letter:
    exactly FIELD_LOWER_SNAKE_CASE at its name. -/
theorem plant_field_name (o : Options) (rules : List Rule) (w : Schema) (f : File)
    (hN : rules.Nodup) (hclean : cleanB o rules w = true) (hr : .FIELD_LOWER_SNAKE_CASE ∈ rules)
    (hf : FileAt w f) (q0 : List Nat) (pm0 : Option Message) (fd0 : Field) (h0 : (q0, pm0, fd0) ∈ fileFields f)
    (hpm : isMapEntryParent pm0 = false) (nn : Str) (hbadname : NotLowerSnake nn)
    (hdesc : .FIELD_NO_DESCRIPTOR ∈ rules → (trimUnderscores nn).map toLower ≠ "descriptor".toList) :
    lint o rules (renameField f.path q0 nn w) = [⟨.FIELD_LOWER_SNAKE_CASE, f.path, q0 ++ [1]⟩] := by
  have h := plant_via_map o rules w .FIELD_LOWER_SNAKE_CASE _ _ _ _ rfl hN hr hclean f hf
    (mapFile (opField q0 (fun _ => nn) id id)) (fun _ => rfl) _ (fileFields_map _ f)
    (·.1) (fileFields_nodup f) (q0, pm0, fd0) h0
    (by
      intro x _ hne hg
      show (isMapEntryParent (tauField _ x).2.1 || isLowerSnakeIdent (tauField _ x).2.2.name) = true
      rw [tauField_opField, if_neg hne]
      simpa only [tauField, isMapEntryParent_map] using hg)
    (by
      show (if isMapEntryParent (tauField _ (q0, pm0, fd0)).2.1 = true then false
        else (tauField _ (q0, pm0, fd0)).2.2.name != toLowerSnakeCase false (tauField _ (q0, pm0, fd0)).2.2.name) = true
      rw [tauField_opField]
      simp only [tauField, isMapEntryParent_map, hpm, if_pos, fieldWith]
      exact notLowerSnake_bad hbadname)
    (by
      intro r hr hner
      apply frame_opField o w f hf q0 pm0 fd0 h0 (fun _ => nn) id id r _ (cleanB_rule hclean hr)
      cases r <;> simp [fieldLocalGood, fieldWith] at hner ⊢
      case FIELD_NO_DESCRIPTOR => exact fun _ => hdesc hr)
  simpa [renameField, plantDecl, tauField, ann, mapFile] using h

/-- **Naming a field `descriptor`** (up to case and surrounding underscores): exactly
    FIELD_NO_DESCRIPTOR (FIELD_LOWER_SNAKE_CASE is a co-violation unless the new name is lower_snake_case). -/
theorem plant_field_descriptor (o : Options) (rules : List Rule) (w : Schema) (f : File)
    (hN : rules.Nodup) (hclean : cleanB o rules w = true) (hr : .FIELD_NO_DESCRIPTOR ∈ rules)
    (hf : FileAt w f) (q0 : List Nat) (pm0 : Option Message) (fd0 : Field) (h0 : (q0, pm0, fd0) ∈ fileFields f)
    (nn : Str) (hbadname : (trimUnderscores nn).map toLower = "descriptor".toList)
    (hsnake : .FIELD_LOWER_SNAKE_CASE ∈ rules → isMapEntryParent pm0 = false → isLowerSnakeIdent nn = true) :
    lint o rules (renameField f.path q0 nn w) = [⟨.FIELD_NO_DESCRIPTOR, f.path, q0 ++ [1]⟩] := by
  have h := plant_via_map o rules w .FIELD_NO_DESCRIPTOR _ _ _ _ rfl hN hr hclean f hf
    (mapFile (opField q0 (fun _ => nn) id id)) (fun _ => rfl) _ (fileFields_map _ f)
    (·.1) (fileFields_nodup f) (q0, pm0, fd0) h0
    (by
      intro x _ hne hg
      show ((trimUnderscores (tauField _ x).2.2.name).map toLower != "descriptor".toList) = true
      rw [tauField_opField, if_neg hne]
      exact hg)
    (by
      show ((trimUnderscores (tauField _ (q0, pm0, fd0)).2.2.name).map toLower == "descriptor".toList) = true
      rw [tauField_opField]
      simp only [if_pos, fieldWith, hbadname, beq_self_eq_true])
    (by
      intro r hr hner
      apply frame_opField o w f hf q0 pm0 fd0 h0 (fun _ => nn) id id r _ (cleanB_rule hclean hr)
      cases r <;> simp [fieldLocalGood, fieldWith] at hner ⊢
      case FIELD_LOWER_SNAKE_CASE =>
        intro _
        cases hp : isMapEntryParent pm0
        · exact Or.inr (hsnake hr hp)
        · exact Or.inl rfl)
  simpa [renameField, plantDecl, tauField, ann, mapFile] using h

/-- **Deleting the comment of a field** (not a group, whose comment belongs to its message; parent
    not a map entry): exactly COMMENT_FIELD at the field. -/
theorem plant_field_comment (o : Options) (rules : List Rule) (w : Schema) (f : File)
    (hN : rules.Nodup) (hclean : cleanB o rules w = true) (hr : .COMMENT_FIELD ∈ rules)
    (hf : FileAt w f) (q0 : List Nat) (pm0 : Option Message) (fd0 : Field) (h0 : (q0, pm0, fd0) ∈ fileFields f)
    (hpm : isMapEntryParent pm0 = false) (hgrp : fd0.group = false)
    (c : Str) (hbadc : validLeadingComment o.commentExcludes c = false) :
    lint o rules (setFieldComment f.path q0 c w) = [⟨.COMMENT_FIELD, f.path, q0⟩] := by
  have h := plant_via_map o rules w .COMMENT_FIELD _ _ _ _ rfl hN hr hclean f hf
    (mapFile (opField q0 id (fun _ => c) id)) (fun _ => rfl) _ (fileFields_map _ f)
    (·.1) (fileFields_nodup f) (q0, pm0, fd0) h0
    (by
      intro x _ hne hg
      show (isMapEntryParent (tauField _ x).2.1 || (tauField _ x).2.2.group
        || goodComment o (tauField _ x).2.2.comment) = true
      rw [tauField_opField, if_neg hne]
      simpa only [tauField, isMapEntryParent_map] using hg)
    (by
      show (if (isMapEntryParent (tauField _ (q0, pm0, fd0)).2.1 || (tauField _ (q0, pm0, fd0)).2.2.group) = true
        then false else !validLeadingComment o.commentExcludes (tauField _ (q0, pm0, fd0)).2.2.comment) = true
      rw [tauField_opField]
      simp [tauField, isMapEntryParent_map, hpm, fieldWith, hgrp, hbadc])
    (by
      intro r hr hner
      apply frame_opField o w f hf q0 pm0 fd0 h0 id (fun _ => c) id r _ (cleanB_rule hclean hr)
      cases r <;> simp [fieldLocalGood, fieldWith] at hner ⊢)
  simpa [setFieldComment, plantDecl, tauField, ann, mapFile] using h

/-- **Setting the `required` label**: exactly FIELD_NOT_REQUIRED at the field's name. -/
theorem plant_field_required (o : Options) (rules : List Rule) (w : Schema) (f : File)
    (hN : rules.Nodup) (hclean : cleanB o rules w = true) (hr : .FIELD_NOT_REQUIRED ∈ rules)
    (hf : FileAt w f) (q0 : List Nat) (pm0 : Option Message) (fd0 : Field) (h0 : (q0, pm0, fd0) ∈ fileFields f) :
    lint o rules (setFieldRequired f.path q0 w) = [⟨.FIELD_NOT_REQUIRED, f.path, q0 ++ [1]⟩] := by
  have h := plant_via_map o rules w .FIELD_NOT_REQUIRED _ _ _ _ rfl hN hr hclean f hf
    (mapFile (opField q0 id id (fun _ => true))) (fun _ => rfl) _ (fileFields_map _ f)
    (·.1) (fileFields_nodup f) (q0, pm0, fd0) h0
    (by
      intro x _ hne hg
      show (!(tauField _ x).2.2.required) = true
      rw [tauField_opField, if_neg hne]
      exact hg)
    (by
      show (tauField _ (q0, pm0, fd0)).2.2.required = true
      rw [tauField_opField]
      simp only [if_pos, fieldWith])
    (by
      intro r hr hner
      apply frame_opField o w f hf q0 pm0 fd0 h0 id id (fun _ => true) r _ (cleanB_rule hclean hr)
      cases r <;> simp [fieldLocalGood, fieldWith] at hner ⊢)
  simpa [setFieldRequired, plantDecl, tauField, ann, mapFile] using h

/-! ### oneofs -/

/-- **Renaming a oneof** (declared, not the synthetic oneof of a proto3 optional) to a name with an
    upper-case letter: exactly ONEOF_LOWER_SNAKE_CASE. -/
theorem plant_oneof_name (o : Options) (rules : List Rule) (w : Schema) (f : File)
    (hN : rules.Nodup) (hclean : cleanB o rules w = true) (hr : .ONEOF_LOWER_SNAKE_CASE ∈ rules)
    (hf : FileAt w f) (q0 : List Nat) (m0 : Message) (i0 : Nat) (oo0 : Oneof)
    (h0 : (q0, m0, i0, oo0) ∈ fileOneofs f) (hp3 : oneofIsP3Optional m0 i0 = false)
    (nn : Str) (hbadname : NotLowerSnake nn) :
    lint o rules (renameOneof f.path q0 nn w) = [⟨.ONEOF_LOWER_SNAKE_CASE, f.path, q0 ++ [1]⟩] := by
  have h := plant_via_map o rules w .ONEOF_LOWER_SNAKE_CASE _ _ _ _ rfl hN hr hclean f hf
    (mapFile (opOneof q0 (fun x => {x with name := nn}))) (fun _ => rfl) _ (fileOneofs_map _ f)
    (·.1) (fileOneofs_nodup f) (q0, m0, i0, oo0) h0
    (by
      intro x _ hne hg
      simpa only [tauOneof, oneofIsP3Optional_map, opOneof, if_neg hne] using hg)
    (by
      simp only [tauOneof, oneofIsP3Optional_map, opOneof, if_pos, hp3]
      simpa using notLowerSnake_bad hbadname)
    (by
      intro r hr hner
      apply frame_opOneof o w f hf q0 m0 i0 oo0 h0 (fun x => {x with name := nn}) r _ (cleanB_rule hclean hr)
      cases r <;> simp [oneofLocalGood] at hner ⊢)
  simpa [renameOneof, plantDecl, tauOneof, opOneof, ann, mapFile] using h

/-- **Deleting the comment of a oneof**: exactly COMMENT_ONEOF. -/
theorem plant_oneof_comment (o : Options) (rules : List Rule) (w : Schema) (f : File)
    (hN : rules.Nodup) (hclean : cleanB o rules w = true) (hr : .COMMENT_ONEOF ∈ rules)
    (hf : FileAt w f) (q0 : List Nat) (m0 : Message) (i0 : Nat) (oo0 : Oneof)
    (h0 : (q0, m0, i0, oo0) ∈ fileOneofs f) (hsyn : oo0.synthetic = false)
    (c : Str) (hbadc : validLeadingComment o.commentExcludes c = false) :
    lint o rules (setOneofComment f.path q0 c w) = [⟨.COMMENT_ONEOF, f.path, q0⟩] := by
  have h := plant_via_map o rules w .COMMENT_ONEOF _ _ _ _ rfl hN hr hclean f hf
    (mapFile (opOneof q0 (fun x => {x with comment := c}))) (fun _ => rfl) _ (fileOneofs_map _ f)
    (·.1) (fileOneofs_nodup f) (q0, m0, i0, oo0) h0
    (by
      intro x _ hne hg
      simpa only [tauOneof, opOneof, if_neg hne] using hg)
    (by simp only [tauOneof, opOneof, if_pos, hsyn, hbadc]; rfl)
    (by
      intro r hr hner
      apply frame_opOneof o w f hf q0 m0 i0 oo0 h0 (fun x => {x with comment := c}) r _ (cleanB_rule hclean hr)
      cases r <;> simp [oneofLocalGood] at hner ⊢)
  simpa [setOneofComment, plantDecl, tauOneof, opOneof, ann, mapFile] using h

/-! ### services -/

/-- **Renaming a service** to a non-PascalCase name that keeps the suffix and the PascalCase form
    (e.g. `FooService` → `fooService`): exactly SERVICE_PASCAL_CASE at its name. -/
theorem plant_service_name_case (o : Options) (rules : List Rule) (w : Schema) (f : File)
    (hN : rules.Nodup) (hclean : cleanB o rules w = true) (hr : .SERVICE_PASCAL_CASE ∈ rules)
    (hf : FileAt w f) (p0 : List Nat) (s0 : Service) (h0 : (p0, s0) ∈ fileSvcs f)
    (nn : Str) (hbadname : NotPascal nn)
    (hsuffix : .SERVICE_SUFFIX ∈ rules → hasSuffix o.svcSuffix nn = true)
    (hstd : (.RPC_REQUEST_STANDARD_NAME ∈ rules ∨ .RPC_RESPONSE_STANDARD_NAME ∈ rules) →
      toPascalCase nn = toPascalCase s0.name) :
    lint o rules (renameService f.path p0 nn w) = [⟨.SERVICE_PASCAL_CASE, f.path, p0 ++ [1]⟩] := by
  have h := plant_via_map o rules w .SERVICE_PASCAL_CASE _ _ _ _ rfl hN hr hclean f hf
    (mapFile (opSvc p0 (fun _ => nn) id)) (fun _ => rfl) _ (fileSvcs_map _ f)
    (·.1) (fileSvcs_nodup f) (p0, s0) h0
    (by
      intro x _ hne hg
      simpa only [tauSvc, mapSvc_opSvc, if_neg hne] using hg)
    (by
      simp only [tauSvc, mapSvc_opSvc, if_pos, svcWith]
      exact notPascal_bad hbadname)
    (by
      intro r hr hner
      apply frame_opSvc o w f hf p0 s0 h0 (fun _ => nn) id r _ _ (cleanB_rule hclean hr)
      · cases r <;> simp [svcLocalGood, svcWith] at hner ⊢
        case SERVICE_SUFFIX => exact fun _ => hsuffix hr
      · intro m _
        cases r <;> simp only [rpcLocalGood, imp_self]
        case RPC_REQUEST_STANDARD_NAME =>
          rw [stdNameBad_congr_pascal o true s0 (svcWith s0 (fun _ => nn) id) m (hstd (Or.inl hr))]; exact id
        case RPC_RESPONSE_STANDARD_NAME =>
          rw [stdNameBad_congr_pascal o false s0 (svcWith s0 (fun _ => nn) id) m (hstd (Or.inr hr))]; exact id)
  simpa [renameService, plantDecl, tauSvc, mapSvc_opSvc, svcWith, ann, mapFile] using h

/-- A service name without the configured suffix.  The RPC_*_STANDARD_NAME rules read the service
    name too (`<Service><Rpc>Request`): `hstd` asks that every RPC of the service still has a
    standard request / response name under the NEW service name — e.g. because it uses the short
    form `<Rpc>Request` (otherwise those annotations are co-violations). -/
theorem plant_service_suffix (o : Options) (rules : List Rule) (w : Schema) (f : File)
    (hN : rules.Nodup) (hclean : cleanB o rules w = true) (hr : .SERVICE_SUFFIX ∈ rules)
    (hf : FileAt w f) (p0 : List Nat) (s0 : Service) (h0 : (p0, s0) ∈ fileSvcs f)
    (nn : Str) (hbadname : hasSuffix o.svcSuffix nn = false)
    (hcase : .SERVICE_PASCAL_CASE ∈ rules → isPascalIdent nn = true)
    (hstd : ∀ m ∈ s0.rpcs,
      (.RPC_REQUEST_STANDARD_NAME ∈ rules → stdNameBad o true { s0 with name := nn } m = false) ∧
      (.RPC_RESPONSE_STANDARD_NAME ∈ rules → stdNameBad o false { s0 with name := nn } m = false)) :
    lint o rules (renameService f.path p0 nn w) = [⟨.SERVICE_SUFFIX, f.path, p0 ++ [1]⟩] := by
  have h := plant_via_map o rules w .SERVICE_SUFFIX _ _ _ _ rfl hN hr hclean f hf
    (mapFile (opSvc p0 (fun _ => nn) id)) (fun _ => rfl) _ (fileSvcs_map _ f)
    (·.1) (fileSvcs_nodup f) (p0, s0) h0
    (by
      intro x _ hne hg
      simpa only [tauSvc, mapSvc_opSvc, if_neg hne] using hg)
    (by
      simp only [tauSvc, mapSvc_opSvc, if_pos, svcWith, hbadname]; rfl)
    (by
      intro r hr hner
      apply frame_opSvc o w f hf p0 s0 h0 (fun _ => nn) id r _ _ (cleanB_rule hclean hr)
      · cases r <;> simp [svcLocalGood, svcWith] at hner ⊢
        case SERVICE_PASCAL_CASE => exact fun _ => hcase hr
      · intro m hm
        cases r <;> simp only [rpcLocalGood, imp_self]
        case RPC_REQUEST_STANDARD_NAME =>
          intro _
          have := (hstd m hm).1 hr
          simp only [svcWith, id] at this ⊢
          rw [this]; rfl
        case RPC_RESPONSE_STANDARD_NAME =>
          intro _
          have := (hstd m hm).2 hr
          simp only [svcWith, id] at this ⊢
          rw [this]; rfl)
  simpa [renameService, plantDecl, tauSvc, mapSvc_opSvc, svcWith, ann, mapFile] using h

/-- **Deleting the comment of a service**: exactly COMMENT_SERVICE. -/
theorem plant_service_comment (o : Options) (rules : List Rule) (w : Schema) (f : File)
    (hN : rules.Nodup) (hclean : cleanB o rules w = true) (hr : .COMMENT_SERVICE ∈ rules)
    (hf : FileAt w f) (p0 : List Nat) (s0 : Service) (h0 : (p0, s0) ∈ fileSvcs f)
    (c : Str) (hbadc : validLeadingComment o.commentExcludes c = false) :
    lint o rules (setServiceComment f.path p0 c w) = [⟨.COMMENT_SERVICE, f.path, p0⟩] := by
  have h := plant_via_map o rules w .COMMENT_SERVICE _ _ _ _ rfl hN hr hclean f hf
    (mapFile (opSvc p0 id (fun _ => c))) (fun _ => rfl) _ (fileSvcs_map _ f)
    (·.1) (fileSvcs_nodup f) (p0, s0) h0
    (by
      intro x _ hne hg
      simpa only [tauSvc, mapSvc_opSvc, if_neg hne] using hg)
    (by simp only [tauSvc, mapSvc_opSvc, if_pos, svcWith, hbadc]; rfl)
    (by
      intro r hr hner
      apply frame_opSvc o w f hf p0 s0 h0 id (fun _ => c) r _ _ (cleanB_rule hclean hr)
      · cases r <;> simp [svcLocalGood, svcWith] at hner ⊢
      · intro m _
        cases r <;> simp only [rpcLocalGood, imp_self]
        all_goals (rw [stdNameBad_congr o _ s0 (svcWith s0 id (fun _ => c)) m rfl]; exact id))
  simpa [setServiceComment, plantDecl, tauSvc, mapSvc_opSvc, svcWith, ann, mapFile] using h

/-! ### RPCs -/

/-- **Renaming an RPC** to a non-PascalCase name with the same PascalCase form (`GetFoo` → `getFoo`, so
    the standard request/response names still fit): exactly RPC_PASCAL_CASE at its name. -/
theorem plant_rpc_name (o : Options) (rules : List Rule) (w : Schema) (f : File)
    (hN : rules.Nodup) (hclean : cleanB o rules w = true) (hr : .RPC_PASCAL_CASE ∈ rules)
    (hf : FileAt w f) (q0 : List Nat) (s0 : Service) (m0 : Rpc) (h0 : (q0, s0, m0) ∈ fileRpcs f)
    (nn : Str) (hbadname : NotPascal nn)
    (hstd : (.RPC_REQUEST_STANDARD_NAME ∈ rules ∨ .RPC_RESPONSE_STANDARD_NAME ∈ rules) →
      toPascalCase nn = toPascalCase m0.name) :
    lint o rules (renameRpc f.path q0 nn w) = [⟨.RPC_PASCAL_CASE, f.path, q0 ++ [1]⟩] := by
  have h := plant_via_map o rules w .RPC_PASCAL_CASE _ _ _ _ rfl hN hr hclean f hf
    (mapFile (opRpc q0 (fun m => {m with name := nn}))) (fun _ => rfl) _ (fileRpcs_map _ f)
    (·.1) (fileRpcs_nodup f) (q0, s0, m0) h0
    (by
      intro x _ hne hg
      simpa only [tauRpc, opRpc, if_neg hne] using hg)
    (by
      simp only [tauRpc, opRpc, if_pos]
      exact notPascal_bad hbadname)
    (by
      intro r hr hner
      apply frame_opRpc o w f hf q0 s0 m0 h0 (fun m => {m with name := nn}) r _ (fun _ => ⟨rfl, rfl⟩)
        (cleanB_rule hclean hr)
      cases r <;> simp only [rpcLocalGood, imp_self] <;> simp at hner
      case RPC_REQUEST_STANDARD_NAME =>
        rw [stdNameBad_congr_rpc o true s0 m0 {m0 with name := nn} (hstd (Or.inl hr)) rfl rfl]; exact id
      case RPC_RESPONSE_STANDARD_NAME =>
        rw [stdNameBad_congr_rpc o false s0 m0 {m0 with name := nn} (hstd (Or.inr hr)) rfl rfl]; exact id)
  simpa [renameRpc, plantDecl, tauRpc, opRpc, ann, mapFile] using h

/-- **Deleting the comment of an RPC**: exactly COMMENT_RPC. -/
theorem plant_rpc_comment (o : Options) (rules : List Rule) (w : Schema) (f : File)
    (hN : rules.Nodup) (hclean : cleanB o rules w = true) (hr : .COMMENT_RPC ∈ rules)
    (hf : FileAt w f) (q0 : List Nat) (s0 : Service) (m0 : Rpc) (h0 : (q0, s0, m0) ∈ fileRpcs f)
    (c : Str) (hbadc : validLeadingComment o.commentExcludes c = false) :
    lint o rules (setRpcComment f.path q0 c w) = [⟨.COMMENT_RPC, f.path, q0⟩] := by
  have h := plant_via_map o rules w .COMMENT_RPC _ _ _ _ rfl hN hr hclean f hf
    (mapFile (opRpc q0 (fun m => {m with comment := c}))) (fun _ => rfl) _ (fileRpcs_map _ f)
    (·.1) (fileRpcs_nodup f) (q0, s0, m0) h0
    (by
      intro x _ hne hg
      simpa only [tauRpc, opRpc, if_neg hne] using hg)
    (by simp only [tauRpc, opRpc, if_pos, hbadc]; rfl)
    (by
      intro r hr hner
      apply frame_opRpc o w f hf q0 s0 m0 h0 (fun m => {m with comment := c}) r _ (fun _ => ⟨rfl, rfl⟩)
        (cleanB_rule hclean hr)
      cases r <;> simp only [rpcLocalGood, imp_self] <;> simp at hner
      all_goals (rw [stdNameBad_congr_rpc o _ s0 m0 {m0 with comment := c} rfl rfl rfl]; exact id))
  simpa [setRpcComment, plantDecl, tauRpc, opRpc, ann, mapFile] using h

/-- **Adding `stream` to the request**: exactly RPC_NO_CLIENT_STREAMING at the RPC. -/
theorem plant_rpc_client_streaming (o : Options) (rules : List Rule) (w : Schema) (f : File)
    (hN : rules.Nodup) (hclean : cleanB o rules w = true) (hr : .RPC_NO_CLIENT_STREAMING ∈ rules)
    (hf : FileAt w f) (q0 : List Nat) (s0 : Service) (m0 : Rpc) (h0 : (q0, s0, m0) ∈ fileRpcs f) :
    lint o rules (setClientStreaming f.path q0 w) = [⟨.RPC_NO_CLIENT_STREAMING, f.path, q0⟩] := by
  have h := plant_via_map o rules w .RPC_NO_CLIENT_STREAMING _ _ _ _ rfl hN hr hclean f hf
    (mapFile (opRpc q0 (fun m => {m with clientStreaming := true}))) (fun _ => rfl) _ (fileRpcs_map _ f)
    (·.1) (fileRpcs_nodup f) (q0, s0, m0) h0
    (by
      intro x _ hne hg
      simpa only [tauRpc, opRpc, if_neg hne] using hg)
    (by simp only [tauRpc, opRpc, if_pos])
    (by
      intro r hr hner
      apply frame_opRpc o w f hf q0 s0 m0 h0 (fun m => {m with clientStreaming := true}) r _
        (fun _ => ⟨rfl, rfl⟩) (cleanB_rule hclean hr)
      cases r <;> simp only [rpcLocalGood, imp_self] <;> simp at hner
      all_goals (rw [stdNameBad_congr_rpc o _ s0 m0 {m0 with clientStreaming := true} rfl rfl rfl]; exact id))
  simpa [setClientStreaming, plantDecl, tauRpc, opRpc, ann, mapFile] using h

/-- **Adding `stream` to the response**: exactly RPC_NO_SERVER_STREAMING at the RPC. -/
theorem plant_rpc_server_streaming (o : Options) (rules : List Rule) (w : Schema) (f : File)
    (hN : rules.Nodup) (hclean : cleanB o rules w = true) (hr : .RPC_NO_SERVER_STREAMING ∈ rules)
    (hf : FileAt w f) (q0 : List Nat) (s0 : Service) (m0 : Rpc) (h0 : (q0, s0, m0) ∈ fileRpcs f) :
    lint o rules (setServerStreaming f.path q0 w) = [⟨.RPC_NO_SERVER_STREAMING, f.path, q0⟩] := by
  have h := plant_via_map o rules w .RPC_NO_SERVER_STREAMING _ _ _ _ rfl hN hr hclean f hf
    (mapFile (opRpc q0 (fun m => {m with serverStreaming := true}))) (fun _ => rfl) _ (fileRpcs_map _ f)
    (·.1) (fileRpcs_nodup f) (q0, s0, m0) h0
    (by
      intro x _ hne hg
      simpa only [tauRpc, opRpc, if_neg hne] using hg)
    (by simp only [tauRpc, opRpc, if_pos])
    (by
      intro r hr hner
      apply frame_opRpc o w f hf q0 s0 m0 h0 (fun m => {m with serverStreaming := true}) r _
        (fun _ => ⟨rfl, rfl⟩) (cleanB_rule hclean hr)
      cases r <;> simp only [rpcLocalGood, imp_self] <;> simp at hner
      all_goals (rw [stdNameBad_congr_rpc o _ s0 m0 {m0 with serverStreaming := true} rfl rfl rfl]; exact id))
  simpa [setServerStreaming, plantDecl, tauRpc, opRpc, ann, mapFile] using h

/-! ### imports, syntax -/

/-- **Making an import `public`**: exactly IMPORT_NO_PUBLIC at the import statement. -/
theorem plant_import_public (o : Options) (rules : List Rule) (w : Schema) (f : File)
    (hN : rules.Nodup) (hclean : cleanB o rules w = true) (hr : .IMPORT_NO_PUBLIC ∈ rules)
    (hf : FileAt w f) (i0 : Nat) (imp0 : Import) (h0 : (i0, imp0) ∈ indexed f.imports) :
    lint o rules (setImportPublic f.path i0 w) = [⟨.IMPORT_NO_PUBLIC, f.path, [3, i0]⟩] := by
  have h := plant_via_map o rules w .IMPORT_NO_PUBLIC _ _ _ _ rfl hN hr hclean f hf
    (opImport i0 (fun imp => {imp with isPublic := true})) (fun _ => rfl) _ (indexed_opImport _ _ f)
    (fun x => [x.1]) (indexed_imports_nodup f) (i0, imp0) h0
    (by
      intro x _ hne hg
      have : x.1 ≠ i0 := fun e => hne (by rw [e])
      simpa only [if_neg this] using hg)
    (by simp only [if_pos])
    (by
      intro r hr hner
      apply frame_opImport o w f hf i0 imp0 h0 (fun imp => {imp with isPublic := true}) (fun _ => rfl) r _
        (cleanB_rule hclean hr)
      cases r <;> simp [importLocalGood] at hner ⊢)
  simpa [setImportPublic, ann, opImport] using h

/-- **An import nothing of which is used**: exactly IMPORT_USED at the import statement. -/
theorem plant_import_unused (o : Options) (rules : List Rule) (w : Schema) (f : File)
    (hN : rules.Nodup) (hclean : cleanB o rules w = true) (hr : .IMPORT_USED ∈ rules)
    (hf : FileAt w f) (i0 : Nat) (imp0 : Import) (h0 : (i0, imp0) ∈ indexed f.imports) :
    lint o rules (setImportUnused f.path i0 w) = [⟨.IMPORT_USED, f.path, [3, i0]⟩] := by
  have h := plant_via_map o rules w .IMPORT_USED _ _ _ _ rfl hN hr hclean f hf
    (opImport i0 (fun imp => {imp with isUnused := true})) (fun _ => rfl) _ (indexed_opImport _ _ f)
    (fun x => [x.1]) (indexed_imports_nodup f) (i0, imp0) h0
    (by
      intro x _ hne hg
      have : x.1 ≠ i0 := fun e => hne (by rw [e])
      simpa only [if_neg this] using hg)
    (by simp only [if_pos])
    (by
      intro r hr hner
      apply frame_opImport o w f hf i0 imp0 h0 (fun imp => {imp with isUnused := true}) (fun _ => rfl) r _
        (cleanB_rule hclean hr)
      cases r <;> simp [importLocalGood] at hner ⊢)
  simpa [setImportUnused, ann, opImport] using h

/-- **A weak import is never reported** (known finding, for every workspace): making any import
    of a Clean workspace weak leaves lint silent, IMPORT_NO_WEAK configured or not. -/
theorem plant_import_weak_silent (o : Options) (rules : List Rule) (w : Schema) (f : File)
    (hclean : cleanB o rules w = true)
    (hf : FileAt w f) (i0 : Nat) (imp0 : Import) (h0 : (i0, imp0) ∈ indexed f.imports) :
    lint o rules (setImportWeak f.path i0 w) = [] := by
  apply clean_no_annotations_aux
  apply List.all_eq_true.mpr
  intro r hr
  apply frame_opImport o w f hf i0 imp0 h0 (fun imp => {imp with isWeak := true}) (fun _ => rfl) r _
    (cleanB_rule hclean hr)
  cases r <;> simp [importLocalGood]

/-- **Deleting the `syntax` line**: exactly SYNTAX_SPECIFIED (reported without a location). -/
theorem plant_syntax_unspecified (o : Options) (rules : List Rule) (w : Schema) (f : File)
    (hN : rules.Nodup) (hclean : cleanB o rules w = true) (hr : .SYNTAX_SPECIFIED ∈ rules)
    (hf : FileAt w f) :
    lint o rules (unsetSyntax f.path w) = [⟨.SYNTAX_SPECIFIED, f.path, []⟩] := by
  have h := plant_via_map o rules w .SYNTAX_SPECIFIED _ _ _ _ rfl hN hr hclean f hf
    noSyntax (fun _ => rfl) noSyntax rfl
    (fun _ => []) (by simp) f (by simp)
    (by intro x _ hne; exact absurd rfl hne)
    rfl
    (by
      intro r hr hner
      exact frame_unsetSyntax o w f hf r hner (cleanB_rule hclean hr))
  simpa [unsetSyntax, ann, noSyntax] using h

/-- **Changing the request type of an RPC** (to a message with a non-standard name, or to the
    request type of another RPC).  Exactly: RPC_REQUEST_STANDARD_NAME at that RPC's request type,
    plus — when RPC_REQUEST_RESPONSE_UNIQUE is configured — the annotation of every RPC that
    violates uniqueness (`RpcViolation`) in the method table in which that one row got the new
    request type.  Nothing else, for no other rule. -/
theorem plant_rpc_request_type (o : Options) (rules : List Rule) (w : Schema) (f : File)
    (hclean : cleanB o rules w = true) (hr : .RPC_REQUEST_STANDARD_NAME ∈ rules) (hfn : FullNamesDistinct w)
    (hf : FileAt w f) (q0 : List Nat) (s0 : Service) (m0 : Rpc) (h0 : (q0, s0, m0) ∈ fileRpcs f)
    (t : Str) (hbad : stdNameBad o true s0 { m0 with inType := t } = true) (a : Annotation) :
    a ∈ lint o rules (setRequestType f.path q0 t w) ↔
      a = ⟨.RPC_REQUEST_STANDARD_NAME, f.path, q0 ++ [2]⟩ ∨
      (.RPC_REQUEST_RESPONSE_UNIQUE ∈ rules ∧
        ∃ x ∈ (rpcTable w).map (fun x => if x.file = f.path ∧ x.path = q0 then { x with inType := t } else x),
          a = x.ann ∧ RpcViolation o
            ((rpcTable w).map (fun x => if x.file = f.path ∧ x.path = q0 then { x with inType := t } else x)) x) := by
  have hstd : runRule o (setRequestType f.path q0 t w) .RPC_REQUEST_STANDARD_NAME =
      [⟨.RPC_REQUEST_STANDARD_NAME, f.path, q0 ++ [2]⟩] := by
    have h := runRule_plant_via_map o w .RPC_REQUEST_STANDARD_NAME _ _ _ _ rfl (cleanB_rule hclean hr) f hf
      (mapFile (opRpc q0 (fun m => {m with inType := t}))) (fun _ => rfl) _ (fileRpcs_map _ f)
      (·.1) (fileRpcs_nodup f) (q0, s0, m0) h0
      (by
        intro x _ hne hg
        simp only [tauRpc]
        rw [stdNameBad_congr o true x.2.1 _ _ (mapSvc_opRpc_name q0 _ _ _)]
        simp only [opRpc, if_neg hne]
        exact hg)
      (by
        simp only [tauRpc]
        rw [stdNameBad_congr o true s0 _ _ (mapSvc_opRpc_name q0 _ _ _)]
        simp only [opRpc, if_pos]
        exact hbad)
    simpa [setRequestType, plantDecl, tauRpc, opRpc, ann, mapFile] using h
  have huniq : runRule o (setRequestType f.path q0 t w) .RPC_REQUEST_RESPONSE_UNIQUE =
      rpcUniqueT o ((rpcTable w).map (fun x => if x.file = f.path ∧ x.path = q0 then { x with inType := t } else x)) := by
    show runRule o (plantDecl f.path (opRpc q0 (fun m => {m with inType := t})) w) _ = _
    rw [rpc_unique_keyed_by_full_name o _ (fullNamesDistinct_opRpc w f q0 (fun m => {m with inType := t}) (fun _ => rfl) hfn)]
    rw [rpcTable_opRpc w f q0 _ (fun x => { x with inType := t }) (fun _ _ => rfl)]
  rw [mem_lint_of_dirty o rules _ [.RPC_REQUEST_STANDARD_NAME, .RPC_REQUEST_RESPONSE_UNIQUE]]
  · constructor
    · rintro ⟨r, hrr, hd, ha⟩
      simp only [List.mem_cons, List.not_mem_nil, or_false] at hd
      rcases hd with rfl | rfl
      · rw [hstd] at ha; exact Or.inl (by simpa using ha)
      · rw [huniq] at ha
        exact Or.inr ⟨hrr, (mem_rpcUniqueT_iff o _ a).mp ha⟩
    · rintro (rfl | ⟨hu, hx⟩)
      · exact ⟨_, hr, by simp, by rw [hstd]; simp⟩
      · exact ⟨_, hu, by simp, by rw [huniq]; exact (mem_rpcUniqueT_iff o _ a).mpr hx⟩
  · intro r hrr hnd
    simp only [List.mem_cons, List.not_mem_nil, or_false, not_or] at hnd
    apply frame_opRpc o w f hf q0 s0 m0 h0 (fun m => {m with inType := t}) r _ (fun e => absurd e hnd.2)
      (cleanB_rule hclean hrr)
    cases r <;> simp only [rpcLocalGood, imp_self] <;> simp at hnd
    rw [stdNameBad_resp_congr o s0 m0 {m0 with inType := t} rfl rfl]; exact id

/-- **Changing the response type of an RPC**: RPC_RESPONSE_STANDARD_NAME at that RPC's response
    type, plus the uniqueness violations of the new method table. -/
theorem plant_rpc_response_type (o : Options) (rules : List Rule) (w : Schema) (f : File)
    (hclean : cleanB o rules w = true) (hr : .RPC_RESPONSE_STANDARD_NAME ∈ rules) (hfn : FullNamesDistinct w)
    (hf : FileAt w f) (q0 : List Nat) (s0 : Service) (m0 : Rpc) (h0 : (q0, s0, m0) ∈ fileRpcs f)
    (t : Str) (hbad : stdNameBad o false s0 { m0 with outType := t } = true) (a : Annotation) :
    a ∈ lint o rules (setResponseType f.path q0 t w) ↔
      a = ⟨.RPC_RESPONSE_STANDARD_NAME, f.path, q0 ++ [3]⟩ ∨
      (.RPC_REQUEST_RESPONSE_UNIQUE ∈ rules ∧
        ∃ x ∈ (rpcTable w).map (fun x => if x.file = f.path ∧ x.path = q0 then { x with outType := t } else x),
          a = x.ann ∧ RpcViolation o
            ((rpcTable w).map (fun x => if x.file = f.path ∧ x.path = q0 then { x with outType := t } else x)) x) := by
  have hstd : runRule o (setResponseType f.path q0 t w) .RPC_RESPONSE_STANDARD_NAME =
      [⟨.RPC_RESPONSE_STANDARD_NAME, f.path, q0 ++ [3]⟩] := by
    have h := runRule_plant_via_map o w .RPC_RESPONSE_STANDARD_NAME _ _ _ _ rfl (cleanB_rule hclean hr) f hf
      (mapFile (opRpc q0 (fun m => {m with outType := t}))) (fun _ => rfl) _ (fileRpcs_map _ f)
      (·.1) (fileRpcs_nodup f) (q0, s0, m0) h0
      (by
        intro x _ hne hg
        simp only [tauRpc]
        rw [stdNameBad_congr o false x.2.1 _ _ (mapSvc_opRpc_name q0 _ _ _)]
        simp only [opRpc, if_neg hne]
        exact hg)
      (by
        simp only [tauRpc]
        rw [stdNameBad_congr o false s0 _ _ (mapSvc_opRpc_name q0 _ _ _)]
        simp only [opRpc, if_pos]
        exact hbad)
    simpa [setResponseType, plantDecl, tauRpc, opRpc, ann, mapFile] using h
  have huniq : runRule o (setResponseType f.path q0 t w) .RPC_REQUEST_RESPONSE_UNIQUE =
      rpcUniqueT o ((rpcTable w).map (fun x => if x.file = f.path ∧ x.path = q0 then { x with outType := t } else x)) := by
    show runRule o (plantDecl f.path (opRpc q0 (fun m => {m with outType := t})) w) _ = _
    rw [rpc_unique_keyed_by_full_name o _ (fullNamesDistinct_opRpc w f q0 (fun m => {m with outType := t}) (fun _ => rfl) hfn)]
    rw [rpcTable_opRpc w f q0 _ (fun x => { x with outType := t }) (fun _ _ => rfl)]
  rw [mem_lint_of_dirty o rules _ [.RPC_RESPONSE_STANDARD_NAME, .RPC_REQUEST_RESPONSE_UNIQUE]]
  · constructor
    · rintro ⟨r, hrr, hd, ha⟩
      simp only [List.mem_cons, List.not_mem_nil, or_false] at hd
      rcases hd with rfl | rfl
      · rw [hstd] at ha; exact Or.inl (by simpa using ha)
      · rw [huniq] at ha
        exact Or.inr ⟨hrr, (mem_rpcUniqueT_iff o _ a).mp ha⟩
    · rintro (rfl | ⟨hu, hx⟩)
      · exact ⟨_, hr, by simp, by rw [hstd]; simp⟩
      · exact ⟨_, hu, by simp, by rw [huniq]; exact (mem_rpcUniqueT_iff o _ a).mpr hx⟩
  · intro r hrr hnd
    simp only [List.mem_cons, List.not_mem_nil, or_false, not_or] at hnd
    apply frame_opRpc o w f hf q0 s0 m0 h0 (fun m => {m with outType := t}) r _ (fun e => absurd e hnd.2)
      (cleanB_rule hclean hrr)
    cases r <;> simp only [rpcLocalGood, imp_self] <;> simp at hnd
    rw [stdNameBad_req_congr o s0 m0 {m0 with outType := t} rfl rfl]; exact id

/-- **The same message for two RPCs.**  Giving the RPC at `q0` the request type `t` that another
    RPC `y` already uses (as request or response; `t` not exempted by an allow_google_protobuf_empty_*
    option) makes RPC_REQUEST_RESPONSE_UNIQUE report BOTH RPCs. -/
theorem plant_rpc_reuse_detected (o : Options) (rules : List Rule) (w : Schema) (f : File)
    (hclean : cleanB o rules w = true) (hr : .RPC_REQUEST_STANDARD_NAME ∈ rules)
    (hu : .RPC_REQUEST_RESPONSE_UNIQUE ∈ rules) (hfn : FullNamesDistinct w)
    (hf : FileAt w f) (q0 : List Nat) (s0 : Service) (m0 : Rpc) (h0 : (q0, s0, m0) ∈ fileRpcs f)
    (t : Str) (hbad : stdNameBad o true s0 { m0 with inType := t } = true)
    (y : RpcRow) (hy : y ∈ rpcTable w) (hother : ¬(y.file = f.path ∧ y.path = q0)) (hyt : usesType t y = true)
    (hne : ¬(t = emptyType ∧ (o.rpcAllowGoogleProtobufEmptyRequests = true ∨
      o.rpcAllowGoogleProtobufEmptyResponses = true))) :
    (⟨.RPC_REQUEST_RESPONSE_UNIQUE, f.path, q0⟩ : Annotation) ∈ lint o rules (setRequestType f.path q0 t w) ∧
    y.ann ∈ lint o rules (setRequestType f.path q0 t w) := by
  have hx0 := rpcRow_mem w f hf q0 s0 m0 h0
  let φ : RpcRow → RpcRow := fun x => if x.file = f.path ∧ x.path = q0 then { x with inType := t } else x
  have hx0' : (⟨f.path, q0, t, m0.outType⟩ : RpcRow) ∈ (rpcTable w).map φ :=
    List.mem_map.mpr ⟨_, hx0, by simp [φ]⟩
  have hy' : y ∈ (rpcTable w).map φ := List.mem_map.mpr ⟨y, hy, by simp only [φ, if_neg hother]⟩
  have hcnt : 2 ≤ (((rpcTable w).map φ).filter (usesType t)).length := by
    apply two_le_length_of_mem _ (⟨f.path, q0, t, m0.outType⟩ : RpcRow) y
    · exact List.mem_filter.mpr ⟨hx0', by simp [usesType]⟩
    · exact List.mem_filter.mpr ⟨hy', hyt⟩
    · intro e
      apply hother
      rw [← e]; exact ⟨rfl, rfl⟩
  constructor
  · apply (plant_rpc_request_type o rules w f hclean hr hfn hf q0 s0 m0 h0 t hbad _).mpr
    exact Or.inr ⟨hu, _, hx0', rfl, Or.inr ⟨t, by simp [usesType], hcnt, Or.inl hne⟩⟩
  · apply (plant_rpc_request_type o rules w f hclean hr hfn hf q0 s0 m0 h0 t hbad _).mpr
    exact Or.inr ⟨hu, y, hy', rfl, Or.inr ⟨t, hyt, hcnt, Or.inl hne⟩⟩

/-- **The same message as request and response of one RPC** (response type := its own request
    type; `rpc_allow_same_request_response` off, not the doubly-allowed google.protobuf.Empty):
    RPC_REQUEST_RESPONSE_UNIQUE reports that RPC. -/
theorem plant_rpc_same_type_detected (o : Options) (rules : List Rule) (w : Schema) (f : File)
    (hclean : cleanB o rules w = true) (hr : .RPC_RESPONSE_STANDARD_NAME ∈ rules)
    (hu : .RPC_REQUEST_RESPONSE_UNIQUE ∈ rules) (hfn : FullNamesDistinct w)
    (hf : FileAt w f) (q0 : List Nat) (s0 : Service) (m0 : Rpc) (h0 : (q0, s0, m0) ∈ fileRpcs f)
    (hbad : stdNameBad o false s0 { m0 with outType := m0.inType } = true)
    (hsame : o.rpcAllowSameRequestResponse = false)
    (hne : ¬(m0.inType = emptyType ∧ o.rpcAllowGoogleProtobufEmptyRequests = true ∧
      o.rpcAllowGoogleProtobufEmptyResponses = true)) :
    (⟨.RPC_REQUEST_RESPONSE_UNIQUE, f.path, q0⟩ : Annotation) ∈
      lint o rules (setResponseType f.path q0 m0.inType w) := by
  have hx0 := rpcRow_mem w f hf q0 s0 m0 h0
  apply (plant_rpc_response_type o rules w f hclean hr hfn hf q0 s0 m0 h0 m0.inType hbad _).mpr
  refine Or.inr ⟨hu, ⟨f.path, q0, m0.inType, m0.inType⟩, List.mem_map.mpr ⟨_, hx0, by simp⟩, rfl,
    Or.inl ⟨hsame, rfl, hne⟩⟩

/-- **Changing the package statement of one file** to `np` (a package no other target file has).
    The annotations are exactly: PACKAGE_DEFINED if `np` is empty; otherwise PACKAGE_DIRECTORY_MATCH
    if the directory is not `np` with dots as slashes, PACKAGE_LOWER_SNAKE_CASE if `np` is not its
    lower_snake_case form, PACKAGE_VERSION_SUFFIX if `np` has no version suffix — each at the
    package statement of that file —, and DIRECTORY_SAME_PACKAGE at every target file of that
    directory when the directory holds another target file.  Nothing else.
    PACKAGE_NO_IMPORT_CYCLE is NOT framed: splitting a package can close a package cycle (the
    harness computes that side effect as `pkgCycles`), so its annotations on the new workspace
    appear in the statement as they are coded (`importCycle`, no independent specification). -/
theorem plant_package (o : Options) (rules : List Rule) (w : Schema) (f : File)
    (hclean : cleanB o rules w = true) (hf : FileAt w f) (np : Str)
    (hfresh : ∀ g ∈ nonImport w, g.path ≠ f.path → g.pkg ≠ np)
    (hstable : .STABLE_PACKAGE_NO_IMPORT_UNSTABLE ∈ rules → isStable np = none ∨ isStable np = isStable f.pkg)
    (a : Annotation) :
    a ∈ lint o rules (setPackage f.path np w) ↔
      (.PACKAGE_DEFINED ∈ rules ∧ np = [] ∧ a = ⟨.PACKAGE_DEFINED, f.path, []⟩) ∨
      (.PACKAGE_DIRECTORY_MATCH ∈ rules ∧ np ≠ [] ∧ fileDir f ≠ replaceDots np ∧
        a = ⟨.PACKAGE_DIRECTORY_MATCH, f.path, [2]⟩) ∨
      (.PACKAGE_LOWER_SNAKE_CASE ∈ rules ∧ np ≠ [] ∧ np ≠ pkgLowerSnake np ∧
        a = ⟨.PACKAGE_LOWER_SNAKE_CASE, f.path, [2]⟩) ∨
      (.PACKAGE_VERSION_SUFFIX ∈ rules ∧ np ≠ [] ∧ versionForPackage false np = none ∧
        a = ⟨.PACKAGE_VERSION_SUFFIX, f.path, [2]⟩) ∨
      (.DIRECTORY_SAME_PACKAGE ∈ rules ∧ (∃ g0 ∈ nonImport w, g0.path ≠ f.path ∧ fileDir g0 = fileDir f) ∧
        ∃ g ∈ nonImport (setPackage f.path np w), fileDir g = fileDir f ∧
          a = ann .DIRECTORY_SAME_PACKAGE g (pkgLoc g)) ∨
      (.PACKAGE_NO_IMPORT_CYCLE ∈ rules ∧ a ∈ importCycle (setPackage f.path np w)) := by
  have hfile := fun r hr bad loc good he =>
    runRule_file_rule o rules w f hf (setPkg np) (fun _ => rfl) hclean r hr bad loc good he
  have hdsp : .DIRECTORY_SAME_PACKAGE ∈ rules →
      (a ∈ runRule o (setPackage f.path np w) .DIRECTORY_SAME_PACKAGE ↔
        (∃ g0 ∈ nonImport w, g0.path ≠ f.path ∧ fileDir g0 = fileDir f) ∧
        ∃ g ∈ nonImport (setPackage f.path np w), fileDir g = fileDir f ∧
          a = ann .DIRECTORY_SAME_PACKAGE g (pkgLoc g)) := by
    intro hr
    have hmem := mem_nonImport_plant w f hf (setPkg np) (fun _ => rfl)
    have hc := cleanB_rule hclean hr
    rw [cleanRule_group o _ _ _ _ rfl, groupClean_iff] at hc
    rw [runRule_global o _ _ rfl]
    simp only [globalRule]
    rw [mem_groupRule_iff]
    unfold setPackage
    constructor
    · rintro ⟨g, hg, rfl, g', hg', hdir, hpkg⟩
      rw [hmem] at hg hg'
      rcases hg with rfl | ⟨hg, pg⟩ <;> rcases hg' with rfl | ⟨hg', pg'⟩
      · exact absurd rfl hpkg
      · exact ⟨⟨g', hg', pg', hdir⟩,
          _, (hmem _).mpr (Or.inl rfl), rfl, rfl⟩
      · exact ⟨⟨g, hg, pg, hdir.symm⟩,
          g, (hmem _).mpr (Or.inr ⟨hg, pg⟩), hdir.symm, rfl⟩
      · exact absurd (hc g' hg' g hg hdir) hpkg
    · rintro ⟨⟨g0, hg0, p0, d0⟩, g, hg, hdir, rfl⟩
      refine ⟨g, hg, rfl, ?_⟩
      rw [hmem] at hg
      rcases hg with rfl | ⟨hg, pg⟩
      · exact ⟨g0, (hmem _).mpr (Or.inr ⟨hg0, p0⟩), d0,
          hfresh g0 hg0 p0⟩
      · exact ⟨setPkg np f, (hmem _).mpr (Or.inl rfl), hdir.symm,
          fun e => hfresh g hg pg e.symm⟩
  rw [mem_lint_of_dirty o rules _ pkgDirty
    (fun r hr hnd => clean_after_setPackage o rules w f hclean hf np hfresh hstable r hr hnd)]
  unfold setPackage at hdsp ⊢
  constructor
  · rintro ⟨r, hr, hd, ha⟩
    simp only [pkgDirty, List.mem_cons, List.not_mem_nil, or_false] at hd
    rcases hd with rfl | rfl | rfl | rfl | rfl | rfl
    · rw [hfile _ hr _ _ _ rfl] at ha
      split at ha
      · next hb =>
        simp only [List.mem_singleton] at ha
        exact Or.inl ⟨hr, by simpa [setPkg] using hb, ha⟩
      · simp at ha
    · rw [hfile _ hr _ _ _ rfl] at ha
      split at ha
      · next hb =>
        simp only [List.mem_singleton] at ha
        simp only [setPkg, Bool.and_eq_true, Bool.not_eq_true', bne_iff_ne, ne_eq] at hb
        refine Or.inr (Or.inl ⟨hr, ?_, hb.2, ha⟩)
        intro e; rw [e] at hb; simp at hb
      · simp at ha
    · rw [hfile _ hr _ _ _ rfl] at ha
      split at ha
      · next hb =>
        simp only [List.mem_singleton] at ha
        simp only [setPkg, Bool.and_eq_true, Bool.not_eq_true', bne_iff_ne, ne_eq] at hb
        refine Or.inr (Or.inr (Or.inl ⟨hr, ?_, hb.2, ha⟩))
        intro e; rw [e] at hb; simp at hb
      · simp at ha
    · rw [hfile _ hr _ _ _ rfl] at ha
      split at ha
      · next hb =>
        simp only [List.mem_singleton] at ha
        simp only [setPkg, Bool.and_eq_true, Bool.not_eq_true', Option.isNone_iff_eq_none] at hb
        refine Or.inr (Or.inr (Or.inr (Or.inl ⟨hr, ?_, hb.2, ha⟩)))
        intro e; rw [e] at hb; simp at hb
      · simp at ha
    · exact Or.inr (Or.inr (Or.inr (Or.inr (Or.inl ⟨hr, (hdsp hr).mp ha⟩))))
    · exact Or.inr (Or.inr (Or.inr (Or.inr (Or.inr ⟨hr, by rw [runRule_global o _ _ rfl] at ha; exact ha⟩))))
  · rintro (⟨hr, hnp, rfl⟩ | ⟨hr, hnp, hdir, rfl⟩ | ⟨hr, hnp, hls, rfl⟩ | ⟨hr, hnp, hv, rfl⟩ | ⟨hr, hx⟩ | ⟨hr, hx⟩)
    · refine ⟨_, hr, by simp [pkgDirty], ?_⟩
      rw [hfile _ hr _ _ _ rfl, if_pos (by simp [setPkg, hnp])]
      simp [ann, setPkg]
    · refine ⟨_, hr, by simp [pkgDirty], ?_⟩
      rw [hfile _ hr _ _ _ rfl, if_pos (by
        simp only [setPkg, Bool.and_eq_true, Bool.not_eq_true', bne_iff_ne, ne_eq]
        exact ⟨by cases np <;> simp_all, hdir⟩)]
      simp [ann, setPkg]
    · refine ⟨_, hr, by simp [pkgDirty], ?_⟩
      rw [hfile _ hr _ _ _ rfl, if_pos (by
        simp only [setPkg, Bool.and_eq_true, Bool.not_eq_true', bne_iff_ne, ne_eq]
        exact ⟨by cases np <;> simp_all, hls⟩)]
      simp [ann, setPkg]
    · refine ⟨_, hr, by simp [pkgDirty], ?_⟩
      rw [hfile _ hr _ _ _ rfl, if_pos (by
        simp only [setPkg, Bool.and_eq_true, Bool.not_eq_true', Option.isNone_iff_eq_none]
        exact ⟨by cases np <;> simp_all, hv⟩)]
      simp [ann, setPkg]
    · exact ⟨_, hr, by simp [pkgDirty], (hdsp hr).mpr hx⟩
    · exact ⟨_, hr, by simp [pkgDirty], by rw [runRule_global o _ _ rfl]; exact hx⟩

/-- the version grammar composed with lint: a package whose last component does not start with
    'v' (`….foo`, `….beta1`) gets PACKAGE_VERSION_SUFFIX at its package statement -/
theorem plant_package_no_version (o : Options) (rules : List Rule) (w : Schema) (f : File)
    (hclean : cleanB o rules w = true) (hf : FileAt w f) (pre : Str) (c : Char) (cs : Str)
    (hc : c ≠ 'v') (hnodot : ∀ x ∈ c :: cs, x ≠ '.')
    (hfresh : ∀ g ∈ nonImport w, g.path ≠ f.path → g.pkg ≠ pre ++ '.' :: c :: cs)
    (hstable : .STABLE_PACKAGE_NO_IMPORT_UNSTABLE ∈ rules →
      isStable (pre ++ '.' :: c :: cs) = none ∨ isStable (pre ++ '.' :: c :: cs) = isStable f.pkg)
    (hr : .PACKAGE_VERSION_SUFFIX ∈ rules) :
    (⟨.PACKAGE_VERSION_SUFFIX, f.path, [2]⟩ : Annotation) ∈
      lint o rules (setPackage f.path (pre ++ '.' :: c :: cs) w) :=
  (plant_package o rules w f hclean hf _ hfresh hstable _).mpr
    (Or.inr (Or.inr (Or.inr (Or.inl ⟨hr, by simp, versionForPackage_no_v false pre c cs hc hnodot, rfl⟩))))

/-- the version grammar composed with lint, near misses: a package whose last component contains a
    character that no documented version form can contain outside a `test` suffix — the `_` of
    `acme.weather.v1_0`, the `x` of `….v0x1`, the `o` of `….v0o7` — gets PACKAGE_VERSION_SUFFIX at
    its package statement -/
theorem plant_package_version_near_miss (o : Options) (rules : List Rule) (w : Schema) (f : File)
    (hclean : cleanB o rules w = true) (hf : FileAt w f) (pre : Str) (c : Char) (cs : Str) (x : Char)
    (hx : x ∈ c :: cs) (hd : isDigit x = false) (hforeign : x ∉ versionAlphabet)
    (htest : contains "test".toList (c :: cs) = false) (hnodot : ∀ y ∈ c :: cs, y ≠ '.')
    (hfresh : ∀ g ∈ nonImport w, g.path ≠ f.path → g.pkg ≠ pre ++ '.' :: c :: cs)
    (hstable : .STABLE_PACKAGE_NO_IMPORT_UNSTABLE ∈ rules →
      isStable (pre ++ '.' :: c :: cs) = none ∨ isStable (pre ++ '.' :: c :: cs) = isStable f.pkg)
    (hr : .PACKAGE_VERSION_SUFFIX ∈ rules) :
    (⟨.PACKAGE_VERSION_SUFFIX, f.path, [2]⟩ : Annotation) ∈
      lint o rules (setPackage f.path (pre ++ '.' :: c :: cs) w) :=
  (plant_package o rules w f hclean hf _ hfresh hstable _).mpr
    (Or.inr (Or.inr (Or.inr (Or.inl ⟨hr, by simp, by
      rw [versionForPackage_last_component false pre c cs hnodot]
      exact versionForComponent_foreign false _ x hx hd hforeign htest, rfl⟩))))

/-- the lower_snake_case grammar composed with lint: a package containing an upper-case letter
    gets PACKAGE_LOWER_SNAKE_CASE at its package statement -/
theorem plant_package_upper_case (o : Options) (rules : List Rule) (w : Schema) (f : File)
    (hclean : cleanB o rules w = true) (hf : FileAt w f) (np : Str) (c : Char) (hc : c ∈ np) (hu : isUpper c = true)
    (hfresh : ∀ g ∈ nonImport w, g.path ≠ f.path → g.pkg ≠ np)
    (hstable : .STABLE_PACKAGE_NO_IMPORT_UNSTABLE ∈ rules → isStable np = none ∨ isStable np = isStable f.pkg)
    (hr : .PACKAGE_LOWER_SNAKE_CASE ∈ rules) :
    (⟨.PACKAGE_LOWER_SNAKE_CASE, f.path, [2]⟩ : Annotation) ∈ lint o rules (setPackage f.path np w) :=
  (plant_package o rules w f hclean hf np hfresh hstable _).mpr
    (Or.inr (Or.inr (Or.inl ⟨hr, fun e => by rw [e] at hc; simp at hc,
      pkgLowerSnake_ne_of_upper np c hc hu, rfl⟩)))

/-- **Files of one package with differing language options.**  Writing the option statement `v`
    (`none` = removing it, `some x` = `option <name> = x;`) for option number `k` of one file, such
    that the VALUE the rule extracts (`v.getD ""`: an unset option and an explicit empty string are
    one value; an explicit `java_multiple_files = false` is the value "false", different from unset)
    differs from the value the file had — which, the workspace being Clean, every file of its
    package shares —, while another target file has the same package: the PACKAGE_SAME_<option>
    rule annotates EVERY target file of that package at its option statement (or without location
    where the file has no such statement — decided by presence, not by value), and lint reports
    nothing else. -/
theorem plant_lang_option (o : Options) (rules : List Rule) (w : Schema) (f : File)
    (hclean : cleanB o rules w = true) (hf : FileAt w f)
    (r0 : Rule) (k : Nat) (hk : optIndex r0 = some k) (hr : r0 ∈ rules)
    (v : Option Str) (hlen : k < f.langOpts.length) (hv : v.getD [] ≠ optVal f k)
    (hother : ∃ g0 ∈ nonImport w, g0.path ≠ f.path ∧ g0.pkg = f.pkg) (a : Annotation) :
    a ∈ lint o rules (setLangOpt f.path k v w) ↔
      ∃ g ∈ nonImport (setLangOpt f.path k v w), g.pkg = f.pkg ∧ a = ann r0 g (optLoc g k) := by
  have hmem := mem_nonImport_plant w f hf (setOpt k v) (fun _ => rfl)
  have hkh : KeepsHdr (setOpt k v) := keepsHdr_of_rfl _ (fun _ => rfl) (fun _ => rfl) (fun _ => rfl) (fun _ => rfl)
  rw [mem_lint_of_dirty o rules _ [r0]]
  · have hc := cleanB_rule hclean hr
    rw [cleanRule_optRule o w r0 k hk, groupClean_iff] at hc
    have hfv : optVal (setOpt k v f) k = v.getD [] := optVal_setOpt_eq k v f hlen
    unfold setLangOpt
    constructor
    · rintro ⟨r, _, hd, ha⟩
      simp only [List.mem_singleton] at hd
      subst hd
      rw [runRule_optRule o _ r k hk, mem_groupRule_iff] at ha
      obtain ⟨g, hg, rfl, g', hg', hpkg, hval⟩ := ha
      refine ⟨g, hg, ?_, rfl⟩
      rw [hmem] at hg hg'
      rcases hg with rfl | ⟨hg, pg⟩ <;> rcases hg' with rfl | ⟨hg', pg'⟩
      · rfl
      · rfl
      · exact hpkg.symm
      · exact absurd (hc g' hg' g hg hpkg) hval
    · rintro ⟨g, hg, hpkg, rfl⟩
      refine ⟨r0, hr, by simp, ?_⟩
      rw [runRule_optRule o _ r0 k hk, mem_groupRule_iff]
      refine ⟨g, hg, rfl, ?_⟩
      obtain ⟨g0, hg0, p0, k0⟩ := hother
      rw [hmem] at hg
      rcases hg with rfl | ⟨hg, pg⟩
      · refine ⟨g0, (hmem _).mpr (Or.inr ⟨hg0, p0⟩), k0, ?_⟩
        rw [hfv, hc g0 hg0 f hf.nonImport k0]
        exact fun e => hv e.symm
      · refine ⟨setOpt k v f, (hmem _).mpr (Or.inl rfl), hpkg.symm, ?_⟩
        rw [hfv, hc g hg f hf.nonImport hpkg]
        exact hv
  · intro r hrr hnd
    simp only [List.mem_singleton] at hnd
    have hc := cleanB_rule hclean hrr
    cases he : elemRule r with
    | some er =>
      apply frame_fileOp_elem o w f hf (setOpt k v) (fun _ => rfl) (keepsDecls_setOpt k v) r er he _ hc
      intro hfr
      cases r <;> simp [isFileRule] at hfr <;> simp only [fileLocalGood, elemRule] <;> exact id
    | none =>
      apply frame_fileOp_global o w f.path (setOpt k v) hkh (keepsDecls_setOpt k v) r he _ hc
      intro i hi g
      apply optVal_setOpt_ne
      intro e
      subst e
      have h1 := optRule_of_optIndex r i hi
      have h2 := optRule_of_optIndex r0 i hk
      rw [h1] at h2
      exact hnd (Option.some.inj h2)

/-- **Same value, other spelling: silent.**  Rewriting the option statement number `k` of one
    file so that the VALUE the rule extracts stays what it was — `option go_package = "";` where the
    option was unset, or removing an explicit empty string — keeps a Clean workspace Clean for every
    rule: lint reports nothing.  (For java_multiple_files there is no such respelling: "true" and
    "false" are values of their own, `none` is the only statement with the value "" —
    `java_multiple_files_false_is_a_value`.) -/
theorem plant_lang_option_same_value_silent (o : Options) (rules : List Rule) (w : Schema) (f : File)
    (hclean : cleanB o rules w = true) (hf : FileAt w f) (k : Nat) (v : Option Str)
    (hlen : k < f.langOpts.length) (hv : v.getD [] = optVal f k) :
    lint o rules (setLangOpt f.path k v w) = [] := by
  apply clean_no_annotations
  unfold cleanB
  rw [List.all_eq_true]
  intro r hr
  have hc := cleanB_rule hclean hr
  have hkh : KeepsHdr (setOpt k v) := keepsHdr_of_rfl _ (fun _ => rfl) (fun _ => rfl) (fun _ => rfl) (fun _ => rfl)
  unfold setLangOpt
  cases he : elemRule r with
  | some er =>
    apply frame_fileOp_elem o w f hf (setOpt k v) (fun _ => rfl) (keepsDecls_setOpt k v) r er he _ hc
    intro hfr
    cases r <;> simp [isFileRule] at hfr <;> simp only [fileLocalGood, elemRule] <;> exact id
  | none =>
    by_cases hk : optIndex r = some k
    · rw [cleanRule_optRule o _ r k hk]
      rw [cleanRule_optRule o w r k hk] at hc
      apply groupClean_plant w f hf (setOpt k v) (fun _ => rfl) _ _ hc
      intro g hg _ e
      rw [optVal_setOpt_eq k v f hlen, hv]
      rw [groupClean_iff] at hc
      exact hc g hg f hf.nonImport e
    · apply frame_fileOp_global o w f.path (setOpt k v) hkh (keepsDecls_setOpt k v) r he _ hc
      intro i hi g
      apply optVal_setOpt_ne
      intro e
      subst e
      exact hk hi

/-- An explicit `option java_multiple_files = false;` is a VALUE for PACKAGE_SAME_JAVA_MULTIPLE_FILES,
    different from "no value" (as coded: "" is returned only when the descriptor field is nil):
    the extractor separates the three spellings, while for a string option the unset option and the
    explicit empty string are one value — told apart only by where the annotation is put. -/
theorem java_multiple_files_false_is_a_value (f g h : File)
    (hf : optRaw f 2 = none) (hg : optRaw g 2 = some "false".toList) (hh : optRaw h 2 = some "true".toList) :
    optVal f 2 ≠ optVal g 2 ∧ optVal g 2 ≠ optVal h 2 ∧ optVal f 2 ≠ optVal h 2 ∧
      optLoc f 2 = [] ∧ optLoc g 2 = [8, 10] ∧ optLoc h 2 = [8, 10] := by
  unfold optVal optLoc
  rw [hf, hg, hh]
  decide

theorem string_option_empty_is_unset (f g : File) (k : Nat) (hf : optRaw f k = none) (hg : optRaw g k = some []) :
    optVal f k = optVal g k ∧ optLoc f k = [] ∧ optLoc g k = [8, optFieldNumber k] := by
  unfold optVal optLoc
  rw [hf, hg]
  exact ⟨rfl, rfl, rfl⟩

/-- **Moving / renaming one file** (a file that no other file imports) to the path `np`.
    The annotations are exactly: FILE_LOWER_SNAKE_CASE if the new base name is not lower_snake_case;
    PACKAGE_DIRECTORY_MATCH if the new directory is not the package with dots as slashes — both at
    the moved file —; and PACKAGE_SAME_DIRECTORY at EVERY target file of the package when another
    target file of the package lies in a different directory.  Nothing else.
    (`hnoimp`: nobody imports the old or the new path — otherwise the importers would have to be
    rewritten too; `hdir`: the files already in the new directory have the same package.) -/
theorem plant_file_move (o : Options) (rules : List Rule) (w : Schema) (f : File)
    (hclean : cleanB o rules w = true) (hf : FileAt w f) (np : Str)
    (hnoimp : ∀ g ∈ w, ∀ imp ∈ g.imports, imp.path ≠ f.path ∧ imp.path ≠ np)
    (hdir : .DIRECTORY_SAME_PACKAGE ∈ rules → ∀ g ∈ nonImport w, g.path ≠ f.path →
      fileDir g = fileDir (setPath np f) → g.pkg = f.pkg)
    (a : Annotation) :
    a ∈ lint o rules (moveFile f.path np w) ↔
      (.FILE_LOWER_SNAKE_CASE ∈ rules ∧
        fileBaseNoExt (setPath np f) ≠ toLowerSnakeCase false (fileBaseNoExt (setPath np f)) ∧
        a = ⟨.FILE_LOWER_SNAKE_CASE, np, []⟩) ∨
      (.PACKAGE_DIRECTORY_MATCH ∈ rules ∧ f.pkg ≠ [] ∧ fileDir (setPath np f) ≠ replaceDots f.pkg ∧
        a = ⟨.PACKAGE_DIRECTORY_MATCH, np, [2]⟩) ∨
      (.PACKAGE_SAME_DIRECTORY ∈ rules ∧
        (∃ g0 ∈ nonImport w, g0.path ≠ f.path ∧ g0.pkg = f.pkg ∧ fileDir g0 ≠ fileDir (setPath np f)) ∧
        ∃ g ∈ nonImport (moveFile f.path np w), g.pkg = f.pkg ∧ a = ann .PACKAGE_SAME_DIRECTORY g (pkgLoc g)) := by
  have hfile := fun r hr bad loc good he =>
    runRule_file_rule o rules w f hf (setPath np) (fun _ => rfl) hclean r hr bad loc good he
  have hpsd : .PACKAGE_SAME_DIRECTORY ∈ rules →
      (a ∈ runRule o (moveFile f.path np w) .PACKAGE_SAME_DIRECTORY ↔
        (∃ g0 ∈ nonImport w, g0.path ≠ f.path ∧ g0.pkg = f.pkg ∧ fileDir g0 ≠ fileDir (setPath np f)) ∧
        ∃ g ∈ nonImport (moveFile f.path np w), g.pkg = f.pkg ∧ a = ann .PACKAGE_SAME_DIRECTORY g (pkgLoc g)) := by
    intro hr
    have hmem := mem_nonImport_plant w f hf (setPath np) (fun _ => rfl)
    have hc := cleanB_rule hclean hr
    rw [cleanRule_group o _ _ _ _ rfl, groupClean_iff] at hc
    rw [runRule_global o _ _ rfl]
    simp only [globalRule]
    rw [mem_groupRule_iff]
    unfold moveFile
    constructor
    · rintro ⟨g, hg, rfl, g', hg', hpkg, hd⟩
      rw [hmem] at hg hg'
      rcases hg with rfl | ⟨hg, pg⟩ <;> rcases hg' with rfl | ⟨hg', pg'⟩
      · exact absurd rfl hd
      · exact ⟨⟨g', hg', pg', hpkg, hd⟩, _, (hmem _).mpr (Or.inl rfl), rfl, rfl⟩
      · exact ⟨⟨g, hg, pg, hpkg.symm, fun e => hd e.symm⟩, g, (hmem _).mpr (Or.inr ⟨hg, pg⟩), hpkg.symm, rfl⟩
      · exact absurd (hc g' hg' g hg hpkg) hd
    · rintro ⟨⟨g0, hg0, p0, k0, d0⟩, g, hg, hpkg, rfl⟩
      refine ⟨g, hg, rfl, ?_⟩
      rw [hmem] at hg
      rcases hg with rfl | ⟨hg, pg⟩
      · exact ⟨g0, (hmem _).mpr (Or.inr ⟨hg0, p0⟩), k0, d0⟩
      · refine ⟨setPath np f, (hmem _).mpr (Or.inl rfl), hpkg.symm, ?_⟩
        rw [← hc g0 hg0 g hg (k0.trans hpkg.symm)]
        exact fun e => d0 e.symm
  rw [mem_lint_of_dirty o rules _ moveDirty
    (fun r hr hnd => clean_after_moveFile o rules w f hclean hf np hnoimp hdir r hr hnd)]
  unfold moveFile at hpsd ⊢
  constructor
  · rintro ⟨r, hr, hd, ha⟩
    simp only [moveDirty, List.mem_cons, List.not_mem_nil, or_false] at hd
    rcases hd with rfl | rfl | rfl
    · rw [hfile _ hr _ _ _ rfl] at ha
      split at ha
      · next hb =>
        simp only [List.mem_singleton] at ha
        exact Or.inl ⟨hr, by simpa using hb, ha⟩
      · simp at ha
    · rw [hfile _ hr _ _ _ rfl] at ha
      split at ha
      · next hb =>
        simp only [List.mem_singleton] at ha
        simp only [Bool.and_eq_true, Bool.not_eq_true', bne_iff_ne, ne_eq] at hb
        refine Or.inr (Or.inl ⟨hr, ?_, hb.2, ha⟩)
        intro e
        have : (setPath np f).pkg = [] := e
        rw [this] at hb; simp at hb
      · simp at ha
    · exact Or.inr (Or.inr ⟨hr, (hpsd hr).mp ha⟩)
  · rintro (⟨hr, hb, rfl⟩ | ⟨hr, hnp, hdir', rfl⟩ | ⟨hr, hx⟩)
    · refine ⟨_, hr, by simp [moveDirty], ?_⟩
      rw [hfile _ hr _ _ _ rfl, if_pos (by simpa using hb)]
      simp [ann, setPath]
    · refine ⟨_, hr, by simp [moveDirty], ?_⟩
      rw [hfile _ hr _ _ _ rfl, if_pos (by
        simp only [Bool.and_eq_true, Bool.not_eq_true', bne_iff_ne, ne_eq]
        refine ⟨?_, hdir'⟩
        show (f.pkg.isEmpty) = false
        cases hp : f.pkg <;> simp_all)]
      simp [ann, setPath]
    · exact ⟨_, hr, by simp [moveDirty], (hpsd hr).mpr hx⟩

/-! ## Non-vacuity: every planting theorem APPLIED to the multi-file workspace `pw`

  `pw` = two target files of package acme.foo.v1 (`a.proto`: top-level enum, message with nested
  message + nested enum + oneof, four request/response messages, a service with two RPCs, an
  import, a file-level extension; `b.proto`) and an import-only file full of violations.  All
  hypotheses are instantiated (by `decide` / explicit witnesses) and the theorem is applied. -/

example : cleanB {} Rule.all pw = true := pw_clean
example : Rule.all.Nodup := all_nodup

example : lint {} Rule.all (renameEnum pA.path pathColor "color".toList pw) =
    [⟨.ENUM_PASCAL_CASE, pA.path, pathColor ++ [1]⟩] :=
  plant_enum_name {} Rule.all pw pA all_nodup pw_clean (by decide) pA_at pathColor pColor pColor_mem
    "color".toList (Or.inr ⟨'c', "olor".toList, rfl, by decide⟩) (fun _ => by decide)

example : lint {} Rule.all (renameEnum pA.path pathColor "Color_".toList pw) =
    [⟨.ENUM_PASCAL_CASE, pA.path, pathColor ++ [1]⟩] :=
  plant_enum_name {} Rule.all pw pA all_nodup pw_clean (by decide) pA_at pathColor pColor pColor_mem
    "Color_".toList (Or.inl ⟨'_', by decide, by decide⟩) (fun _ => by decide)

example : lint {} Rule.all (setEnumComment pA.path pathColor [] pw) = [⟨.COMMENT_ENUM, pA.path, pathColor⟩] :=
  plant_enum_comment {} Rule.all pw pA all_nodup pw_clean (by decide) pA_at pathColor pColor pColor_mem
    [] (validLeadingComment_nil _)

example : lint {} Rule.all (setEnumComment pA.path pathColor " buf:lint:ignore COMMENT_ENUM\n".toList pw) =
    [⟨.COMMENT_ENUM, pA.path, pathColor⟩] :=
  plant_enum_comment {} Rule.all pw pA all_nodup pw_clean (by decide) pA_at pathColor pColor pColor_mem
    _ (by decide)

example : lint {} Rule.all
    (addAllowAlias pA.path pathColor [⟨"COLOR_CRIMSON".toList, " An alias.\n".toList, 1⟩] pw) =
    [⟨.ENUM_NO_ALLOW_ALIAS, pA.path, pathColor ++ [3, 2]⟩] :=
  plant_enum_allow_alias {} Rule.all pw pA all_nodup pw_clean (by decide) pA_at pathColor pColor pColor_mem
    _ (by decide) (by decide)

example : lint {} Rule.all (swapFirstValues pA.path pathColor pw) =
    [⟨.ENUM_FIRST_VALUE_ZERO, pA.path, pathColor ++ [2, 0, 2]⟩] :=
  plant_enum_first_value_nonzero {} Rule.all pw pA all_nodup pw_clean (by decide) pA_at pathColor pColor
    pColor_mem _ _ [] rfl (by decide)

example : lint {} Rule.all (renameValue pA.path pathRed "COLOR_rED".toList pw) =
    [⟨.ENUM_VALUE_UPPER_SNAKE_CASE, pA.path, pathRed ++ [1]⟩] :=
  plant_enum_value_case {} Rule.all pw pA all_nodup pw_clean (by decide) pA_at pathRed pColor _ pRed_mem
    _ ⟨'r', by decide, by decide⟩ (fun _ => by decide) (fun _ h => absurd h (by decide))

example : lint {} Rule.all (renameValue pA.path pathRed "ZZ_RED".toList pw) =
    [⟨.ENUM_VALUE_PREFIX, pA.path, pathRed ++ [1]⟩] :=
  plant_enum_value_prefix {} Rule.all pw pA all_nodup pw_clean (by decide) pA_at pathRed pColor _ pRed_mem
    _ (by decide) (fun _ => by decide) (fun _ h => absurd h (by decide))

example : lint {} Rule.all (renameValue pA.path pathZero "COLOR_UNKNOWN".toList pw) =
    [⟨.ENUM_ZERO_VALUE_SUFFIX, pA.path, pathZero ++ [1]⟩] :=
  plant_enum_zero_value_suffix {} Rule.all pw pA all_nodup pw_clean (by decide) pA_at pathZero pColor _
    pZero_mem rfl _ (by decide) (fun _ => by decide) (fun _ => by decide)

example : lint {} Rule.all (setValueComment pA.path pathRed [] pw) = [⟨.COMMENT_ENUM_VALUE, pA.path, pathRed⟩] :=
  plant_enum_value_comment {} Rule.all pw pA all_nodup pw_clean (by decide) pA_at pathRed pColor _ pRed_mem
    [] (validLeadingComment_nil _)

example : lint {} Rule.all (renameMessage pA.path pathInner "inner_msg".toList pw) =
    [⟨.MESSAGE_PASCAL_CASE, pA.path, pathInner ++ [1]⟩] :=
  plant_message_name {} Rule.all pw pA all_nodup pw_clean (by decide) pA_at pathInner pInner pInner_mem
    rfl _ (Or.inl ⟨'_', by decide, by decide⟩)

example : lint {} Rule.all (setMessageComment pA.path pathInner [] pw) = [⟨.COMMENT_MESSAGE, pA.path, pathInner⟩] :=
  plant_message_comment {} Rule.all pw pA all_nodup pw_clean (by decide) pA_at pathInner pInner pInner_mem
    rfl [] (validLeadingComment_nil _)

example : lint {} Rule.all (renameField pA.path pathFooBar "fooBar".toList pw) =
    [⟨.FIELD_LOWER_SNAKE_CASE, pA.path, pathFooBar ++ [1]⟩] :=
  plant_field_name {} Rule.all pw pA all_nodup pw_clean (by decide) pA_at pathFooBar (some pOuter) pFooBar
    pFooBar_mem rfl _ ⟨'B', by decide, by decide⟩ (fun _ => by decide)

example : lint {} Rule.all (renameField pA.path pathFooBar "descriptor".toList pw) =
    [⟨.FIELD_NO_DESCRIPTOR, pA.path, pathFooBar ++ [1]⟩] :=
  plant_field_descriptor {} Rule.all pw pA all_nodup pw_clean (by decide) pA_at pathFooBar (some pOuter)
    pFooBar pFooBar_mem _ (by decide) (fun _ _ => by decide)

example : lint {} Rule.all (setFieldComment pA.path pathFooBar [] pw) = [⟨.COMMENT_FIELD, pA.path, pathFooBar⟩] :=
  plant_field_comment {} Rule.all pw pA all_nodup pw_clean (by decide) pA_at pathFooBar (some pOuter) pFooBar
    pFooBar_mem rfl rfl [] (validLeadingComment_nil _)

example : lint {} Rule.all (setFieldRequired pA.path pathFooBar pw) =
    [⟨.FIELD_NOT_REQUIRED, pA.path, pathFooBar ++ [1]⟩] :=
  plant_field_required {} Rule.all pw pA all_nodup pw_clean (by decide) pA_at pathFooBar (some pOuter)
    pFooBar pFooBar_mem

example : lint {} Rule.all (renameOneof pA.path pathChoice "myChoice".toList pw) =
    [⟨.ONEOF_LOWER_SNAKE_CASE, pA.path, pathChoice ++ [1]⟩] :=
  plant_oneof_name {} Rule.all pw pA all_nodup pw_clean (by decide) pA_at pathChoice pOuter 0 pChoice
    pChoice_mem (by decide) _ ⟨'C', by decide, by decide⟩

example : lint {} Rule.all (setOneofComment pA.path pathChoice [] pw) = [⟨.COMMENT_ONEOF, pA.path, pathChoice⟩] :=
  plant_oneof_comment {} Rule.all pw pA all_nodup pw_clean (by decide) pA_at pathChoice pOuter 0 pChoice
    pChoice_mem rfl [] (validLeadingComment_nil _)

example : lint {} Rule.all (renameService pA.path pathSvc "fooService".toList pw) =
    [⟨.SERVICE_PASCAL_CASE, pA.path, pathSvc ++ [1]⟩] :=
  plant_service_name_case {} Rule.all pw pA all_nodup pw_clean (by decide) pA_at pathSvc pSvc pSvc_mem
    _ (Or.inr ⟨'f', "ooService".toList, rfl, by decide⟩) (fun _ => by decide) (fun _ => by decide)

example : lint {} Rule.all (renameService pA.path pathSvc "FooSvc".toList pw) =
    [⟨.SERVICE_SUFFIX, pA.path, pathSvc ++ [1]⟩] :=
  plant_service_suffix {} Rule.all pw pA all_nodup pw_clean (by decide) pA_at pathSvc pSvc pSvc_mem
    _ (by decide) (fun _ => by decide) (by decide)

example : lint {} Rule.all (setServiceComment pA.path pathSvc [] pw) = [⟨.COMMENT_SERVICE, pA.path, pathSvc⟩] :=
  plant_service_comment {} Rule.all pw pA all_nodup pw_clean (by decide) pA_at pathSvc pSvc pSvc_mem
    [] (validLeadingComment_nil _)

example : lint {} Rule.all (renameRpc pA.path pathList "listFoo".toList pw) =
    [⟨.RPC_PASCAL_CASE, pA.path, pathList ++ [1]⟩] :=
  plant_rpc_name {} Rule.all pw pA all_nodup pw_clean (by decide) pA_at pathList pSvc pList pList_mem
    _ (Or.inr ⟨'l', "istFoo".toList, rfl, by decide⟩) (fun _ => by decide)

example : lint {} Rule.all (setRpcComment pA.path pathList [] pw) = [⟨.COMMENT_RPC, pA.path, pathList⟩] :=
  plant_rpc_comment {} Rule.all pw pA all_nodup pw_clean (by decide) pA_at pathList pSvc pList pList_mem
    [] (validLeadingComment_nil _)

example : lint {} Rule.all (setClientStreaming pA.path pathList pw) =
    [⟨.RPC_NO_CLIENT_STREAMING, pA.path, pathList⟩] :=
  plant_rpc_client_streaming {} Rule.all pw pA all_nodup pw_clean (by decide) pA_at pathList pSvc pList pList_mem

example : lint {} Rule.all (setServerStreaming pA.path pathList pw) =
    [⟨.RPC_NO_SERVER_STREAMING, pA.path, pathList⟩] :=
  plant_rpc_server_streaming {} Rule.all pw pA all_nodup pw_clean (by decide) pA_at pathList pSvc pList pList_mem

example : lint {} Rule.all (setImportPublic pA.path 0 pw) = [⟨.IMPORT_NO_PUBLIC, pA.path, [3, 0]⟩] :=
  plant_import_public {} Rule.all pw pA all_nodup pw_clean (by decide) pA_at 0 pImp pImp_mem

example : lint {} Rule.all (setImportUnused pA.path 0 pw) = [⟨.IMPORT_USED, pA.path, [3, 0]⟩] :=
  plant_import_unused {} Rule.all pw pA all_nodup pw_clean (by decide) pA_at 0 pImp pImp_mem

example : lint {} Rule.all (setImportWeak pA.path 0 pw) = [] :=
  plant_import_weak_silent {} Rule.all pw pA pw_clean pA_at 0 pImp pImp_mem

example : lint {} Rule.all (unsetSyntax pA.path pw) = [⟨.SYNTAX_SPECIFIED, pA.path, []⟩] :=
  plant_syntax_unspecified {} Rule.all pw pA all_nodup pw_clean (by decide) pA_at

-- a non-standard request type that no other RPC uses: exactly one annotation (the ↔ is applied in
-- both directions)
example : (⟨.RPC_REQUEST_STANDARD_NAME, pA.path, pathList ++ [2]⟩ : Annotation) ∈
    lint {} Rule.all (setRequestType pA.path pathList "acme.foo.v1.ListFooReq".toList pw) :=
  (plant_rpc_request_type {} Rule.all pw pA pw_clean (by decide) pw_full_names pA_at pathList pSvc pList pList_mem
    _ (by decide) _).mpr (Or.inl rfl)

example : lint {} Rule.all (setRequestType pA.path pathList "acme.foo.v1.ListFooReq".toList pw) =
    [⟨.RPC_REQUEST_STANDARD_NAME, pA.path, pathList ++ [2]⟩] := by decide

example : (⟨.RPC_RESPONSE_STANDARD_NAME, pA.path, pathList ++ [3]⟩ : Annotation) ∈
    lint {} Rule.all (setResponseType pA.path pathList "acme.foo.v1.ListFooReply".toList pw) :=
  (plant_rpc_response_type {} Rule.all pw pA pw_clean (by decide) pw_full_names pA_at pathList pSvc pList pList_mem
    _ (by decide) _).mpr (Or.inl rfl)

-- the same request message for two RPCs: both are reported
example :
    (⟨.RPC_REQUEST_RESPONSE_UNIQUE, pA.path, pathList⟩ : Annotation) ∈
      lint {} Rule.all (setRequestType pA.path pathList "acme.foo.v1.GetFooRequest".toList pw) ∧
    (⟨.RPC_REQUEST_RESPONSE_UNIQUE, pA.path, [6, 0, 2, 0]⟩ : Annotation) ∈
      lint {} Rule.all (setRequestType pA.path pathList "acme.foo.v1.GetFooRequest".toList pw) :=
  plant_rpc_reuse_detected {} Rule.all pw pA pw_clean (by decide) (by decide) pw_full_names pA_at pathList pSvc pList pList_mem
    _ (by decide) ⟨pA.path, [6, 0, 2, 0], pGet.inType, pGet.outType⟩ (by decide) (by decide) (by decide) (by decide)

example : lint {} Rule.all (setRequestType pA.path pathList "acme.foo.v1.GetFooRequest".toList pw) =
    [⟨.RPC_REQUEST_RESPONSE_UNIQUE, pA.path, [6, 0, 2, 0]⟩, ⟨.RPC_REQUEST_RESPONSE_UNIQUE, pA.path, pathList⟩,
     ⟨.RPC_REQUEST_STANDARD_NAME, pA.path, pathList ++ [2]⟩] := by decide

-- the same message as request and response of one RPC
example : (⟨.RPC_REQUEST_RESPONSE_UNIQUE, pA.path, pathList⟩ : Annotation) ∈
    lint {} Rule.all (setResponseType pA.path pathList pList.inType pw) :=
  plant_rpc_same_type_detected {} Rule.all pw pA pw_clean (by decide) (by decide) pw_full_names pA_at pathList pSvc pList pList_mem
    (by decide) rfl (by decide)

-- a package without version suffix (and not matching the directory): exactly the two annotations
example : (⟨.PACKAGE_VERSION_SUFFIX, pA.path, [2]⟩ : Annotation) ∈
    lint {} Rule.all (setPackage pA.path "acme.foo_nv".toList pw) :=
  (plant_package {} Rule.all pw pA pw_clean pA_at "acme.foo_nv".toList (by decide) (fun _ => Or.inl (by decide))
    _).mpr (Or.inr (Or.inr (Or.inr (Or.inl ⟨by decide, by decide, by decide, rfl⟩))))

example : (⟨.DIRECTORY_SAME_PACKAGE, pB.path, [2]⟩ : Annotation) ∈
    lint {} Rule.all (setPackage pA.path "acme.foo_nv".toList pw) :=
  (plant_package {} Rule.all pw pA pw_clean pA_at "acme.foo_nv".toList (by decide) (fun _ => Or.inl (by decide))
    _).mpr (Or.inr (Or.inr (Or.inr (Or.inr (Or.inl
      ⟨by decide, ⟨pB, pB_mem, by decide, by decide⟩, pB, .tail _ (.head _), by decide, rfl⟩)))))

example : lint {} Rule.all (setPackage pA.path "acme.foo_nv".toList pw) =
    [⟨.DIRECTORY_SAME_PACKAGE, pA.path, [2]⟩, ⟨.DIRECTORY_SAME_PACKAGE, pB.path, [2]⟩,
     ⟨.PACKAGE_DIRECTORY_MATCH, pA.path, [2]⟩, ⟨.PACKAGE_VERSION_SUFFIX, pA.path, [2]⟩] := by decide

example : (⟨.PACKAGE_VERSION_SUFFIX, pA.path, [2]⟩ : Annotation) ∈
    lint {} Rule.all (setPackage pA.path ("acme".toList ++ '.' :: 'f' :: "oo_nv".toList) pw) :=
  plant_package_no_version {} Rule.all pw pA pw_clean pA_at "acme".toList 'f' "oo_nv".toList (by decide) (by decide)
    (by decide) (fun _ => Or.inl (by decide)) (by decide)

-- acme.foo.v1_0: the underscore makes the last component a near miss, not a version
example : (⟨.PACKAGE_VERSION_SUFFIX, pA.path, [2]⟩ : Annotation) ∈
    lint {} Rule.all (setPackage pA.path ("acme.foo".toList ++ '.' :: 'v' :: "1_0".toList) pw) :=
  plant_package_version_near_miss {} Rule.all pw pA pw_clean pA_at "acme.foo".toList 'v' "1_0".toList '_'
    (by decide) (by decide) (by decide) (by decide) (by decide) (by decide) (fun _ => Or.inl (by decide)) (by decide)

example : (⟨.PACKAGE_LOWER_SNAKE_CASE, pA.path, [2]⟩ : Annotation) ∈
    lint {} Rule.all (setPackage pA.path "Acme.foo.v1".toList pw) :=
  plant_package_upper_case {} Rule.all pw pA pw_clean pA_at "Acme.foo.v1".toList 'A' (by decide) (by decide)
    (by decide) (fun _ => Or.inr (by decide)) (by decide)

-- files of one package with differing go_package: every file of the package is annotated
example : (⟨.PACKAGE_SAME_GO_PACKAGE, pB.path, [8, 11]⟩ : Annotation) ∈
    lint {} Rule.all (setLangOpt pA.path 1 (some "example.com/other".toList) pw) :=
  (plant_lang_option {} Rule.all pw pA pw_clean pA_at .PACKAGE_SAME_GO_PACKAGE 1 rfl (by decide)
    _ (by decide) (by decide) ⟨pB, pB_mem, by decide, by decide⟩ _).mpr ⟨pB, .tail _ (.head _), by decide, rfl⟩

example : lint {} Rule.all (setLangOpt pA.path 1 (some "example.com/other".toList) pw) =
    [⟨.PACKAGE_SAME_GO_PACKAGE, pA.path, [8, 11]⟩, ⟨.PACKAGE_SAME_GO_PACKAGE, pB.path, [8, 11]⟩] := by decide

-- …and the other direction of the ↔: NOTHING but that rule is reported
example (a : Annotation) (h : a ∈ lint {} Rule.all (setLangOpt pA.path 1 (some "example.com/other".toList) pw)) :
    a.rule = .PACKAGE_SAME_GO_PACKAGE := by
  obtain ⟨g, _, _, rfl⟩ := (plant_lang_option {} Rule.all pw pA pw_clean pA_at .PACKAGE_SAME_GO_PACKAGE 1 rfl (by decide)
    _ (by decide) (by decide) ⟨pB, pB_mem, by decide, by decide⟩ a).mp h
  rfl

-- the VALUE SPACE of a grouping rule on the two-file package of `pw` (go_package is set to the
-- same non-default value in both files, every other option is unset in both):
-- unset vs EXPLICIT FALSE of java_multiple_files: a conflict, both files annotated — the file with the
-- statement at the statement, the other one without location
example : lint {} Rule.all (setLangOpt pA.path 2 (some "false".toList) pw) =
    [⟨.PACKAGE_SAME_JAVA_MULTIPLE_FILES, pA.path, [8, 10]⟩, ⟨.PACKAGE_SAME_JAVA_MULTIPLE_FILES, pB.path, []⟩] := by decide

example : (⟨.PACKAGE_SAME_JAVA_MULTIPLE_FILES, pB.path, []⟩ : Annotation) ∈
    lint {} Rule.all (setLangOpt pA.path 2 (some "false".toList) pw) :=
  (plant_lang_option {} Rule.all pw pA pw_clean pA_at .PACKAGE_SAME_JAVA_MULTIPLE_FILES 2 rfl (by decide)
    _ (by decide) (by decide) ⟨pB, pB_mem, by decide, by decide⟩ _).mpr ⟨pB, .tail _ (.head _), by decide, rfl⟩

-- explicit false vs explicit true
example : lint {} Rule.all (setLangOpt pB.path 2 (some "true".toList) (setLangOpt pA.path 2 (some "false".toList) pw)) =
    [⟨.PACKAGE_SAME_JAVA_MULTIPLE_FILES, pA.path, [8, 10]⟩, ⟨.PACKAGE_SAME_JAVA_MULTIPLE_FILES, pB.path, [8, 10]⟩] := by decide

-- all equal explicit (false in both files): silent
example : lint {} Rule.all (setLangOpt pB.path 2 (some "false".toList) (setLangOpt pA.path 2 (some "false".toList) pw)) = [] := by
  decide

-- unset vs explicit EMPTY STRING of a string option: one value, silent (theorem and evaluation)
example : lint {} Rule.all (setLangOpt pA.path 0 (some []) pw) = [] :=
  plant_lang_option_same_value_silent {} Rule.all pw pA pw_clean pA_at 0 (some []) (by decide) (by decide)

example : lint {} Rule.all (setLangOpt pA.path 0 (some []) pw) = [] := by decide

-- explicit empty string vs a non-default value: a conflict; the file with `option go_package = "";`
-- is annotated AT that statement (presence decides the location, not the value)
example : lint {} Rule.all (setLangOpt pA.path 1 (some []) pw) =
    [⟨.PACKAGE_SAME_GO_PACKAGE, pA.path, [8, 11]⟩, ⟨.PACKAGE_SAME_GO_PACKAGE, pB.path, [8, 11]⟩] := by decide

-- non-default vs unset (the statement removed from one file)
example : lint {} Rule.all (setLangOpt pA.path 1 none pw) =
    [⟨.PACKAGE_SAME_GO_PACKAGE, pA.path, []⟩, ⟨.PACKAGE_SAME_GO_PACKAGE, pB.path, [8, 11]⟩] := by decide

-- go_package differing in case only: a conflict (values are compared as strings)
example : lint {} Rule.all (setLangOpt pA.path 1 (some "example.com/Foo/v1;foov1".toList) pw) =
    [⟨.PACKAGE_SAME_GO_PACKAGE, pA.path, [8, 11]⟩, ⟨.PACKAGE_SAME_GO_PACKAGE, pB.path, [8, 11]⟩] := by decide

example : ∃ f g h : File, optRaw f 2 = none ∧ optRaw g 2 = some "false".toList ∧ optRaw h 2 = some "true".toList :=
  ⟨pA, (setOpt 2 (some "false".toList) pA), (setOpt 2 (some "true".toList) pA), by decide, by decide, by decide⟩

example : ∃ f g : File, optRaw f 0 = none ∧ optRaw g 0 = some [] := ⟨pA, setOpt 0 (some []) pA, by decide, by decide⟩

-- moving a.proto to a directory that does not match its package: the package now lives in two
-- directories, both files are annotated
example : (⟨.PACKAGE_DIRECTORY_MATCH, "misc/elsewhere/a.proto".toList, [2]⟩ : Annotation) ∈
    lint {} Rule.all (moveFile pA.path "misc/elsewhere/a.proto".toList pw) :=
  (plant_file_move {} Rule.all pw pA pw_clean pA_at _ (by decide) (fun _ => by decide)
    _).mpr (Or.inr (Or.inl ⟨by decide, by decide, by decide, rfl⟩))

example : (⟨.PACKAGE_SAME_DIRECTORY, pB.path, [2]⟩ : Annotation) ∈
    lint {} Rule.all (moveFile pA.path "misc/elsewhere/a.proto".toList pw) :=
  (plant_file_move {} Rule.all pw pA pw_clean pA_at _ (by decide) (fun _ => by decide)
    _).mpr (Or.inr (Or.inr ⟨by decide, ⟨pB, pB_mem, by decide, by decide, by decide⟩,
      pB, .tail _ (.head _), by decide, rfl⟩))

example : lint {} Rule.all (moveFile pA.path "misc/elsewhere/a.proto".toList pw) =
    [⟨.PACKAGE_DIRECTORY_MATCH, "misc/elsewhere/a.proto".toList, [2]⟩,
     ⟨.PACKAGE_SAME_DIRECTORY, "misc/elsewhere/a.proto".toList, [2]⟩, ⟨.PACKAGE_SAME_DIRECTORY, pB.path, [2]⟩] := by
  decide

-- a file name that is not lower_snake_case, same directory
example : (⟨.FILE_LOWER_SNAKE_CASE, "acme/foo/v1/aX.proto".toList, []⟩ : Annotation) ∈
    lint {} Rule.all (moveFile pA.path "acme/foo/v1/aX.proto".toList pw) :=
  (plant_file_move {} Rule.all pw pA pw_clean pA_at _ (by decide) (fun _ => by decide)
    _).mpr (Or.inl ⟨by decide, by decide, rfl⟩)

-- the set-level theorems on a workspace with TWO violations of one rule and a grouping conflict
example : (⟨.ENUM_PASCAL_CASE, pA.path, pathColor ++ [1]⟩ : Annotation) ∈
    lint {} Rule.all (renameEnum pA.path pathColor "color".toList (renameEnum pA.path [5, 0] "kind".toList pw)) ∧
    (⟨.ENUM_PASCAL_CASE, pA.path, [5, 0, 1]⟩ : Annotation) ∈
    lint {} Rule.all (renameEnum pA.path pathColor "color".toList (renameEnum pA.path [5, 0] "kind".toList pw)) := by
  decide

end BufProofs.C05
