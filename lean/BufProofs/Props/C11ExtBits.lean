import BufModel.ImagePaths
import BufProofs.Lemmas.ImagePathsLemmas
import BufProofs.Lemmas.ImageExtLemmas
import BufProofs.Props.C11
/-
  Property C11, clause "an image stands in for its sources" — the EXTENSION BITS of every rebuilt
  image file (model: BufModel/ImagePaths.lean, `XBits` and section (i')).

  An image file carries, next to its path, import flag and dependency list: the descriptor
  (`payload`), `is_syntax_unspecified`, the `unused_dependency` indexes, the module name and the
  commit id.  Every filter that hands out a NEW image file object has to hand these on:

    * the path filter (`ImageWithOnlyPaths[AllowNotExist]` → `addFileWithImports` →
      `ImageFileWithIsImport`)                               `extbits_path_filter_preserves`,
      `extbits_path_filter_is_import_exact`, `extbits_path_filter_keeps_selected_bits`
    * `ImageWithoutImports`                                  `extbits_without_imports_preserves`
    * `ImageByDir`                                           `extbits_by_dir_preserves`
    * the type filter's `filterImageFile`                    `extbits_type_filter_frame`,
      `extbits_type_filter_unused_paths`, `extbits_type_filter_unused_in_range`
    * image vs sources with the compiler's bits (`buildX`)   `extbits_targeting_equivalence_modulo_unused`,
      `extbits_targeting_unused_divergence_example` (the recorded finding, in the model)

  `extbits_reflag_clears_syntax_counterexample` shows that the statement is about the code: the
  same walk with an `ImageFileWithIsImport` that clears the syntax bit of a file it turns into an
  import violates it.  `extbits_type_filter_stale_indexes_counterexample`: keeping the old indexes
  in the type filter names a dependency that is still used.
-/
namespace BufProofs.C11
open BufModel.Path BufModel.ImagePaths BufProofs.ImagePathsLemmas BufProofs.ImageExtLemmas

/-! ## `ImageFileWithIsImport` -/

/-- `ImageFileWithIsImport` changes the import flag and nothing else: path, dependency list,
    descriptor, syntax bit, unused-dependency indexes, module name and commit are handed on. -/
theorem extbits_withIsImport_frame (f : File) (imp : Bool) :
    (withIsImport f imp).isImport = imp ∧ (withIsImport f imp).path = f.path ∧
    (withIsImport f imp).deps = f.deps ∧ (withIsImport f imp).ext = f.ext := by
  unfold withIsImport
  by_cases h : f.isImport = imp
  · rw [if_pos h]; exact ⟨h, rfl, rfl, rfl⟩
  · rw [if_neg h]; exact ⟨rfl, rfl, rfl, rfl⟩

/-- The flagging step of the closure walk (`mark`, used by `visit`) IS `ImageFileWithIsImport`
    with "import = not one of the non-import paths". -/
theorem extbits_mark_eq_withIsImport (t : List Str) (f : File) :
    mark t f = withIsImport f (!(t.contains f.path)) := by
  unfold withIsImport mark
  by_cases h : f.isImport = !(t.contains f.path)
  · rw [if_pos h]
    cases f with
    | mk p i d e => simp only at h; subst h; rfl
  · rw [if_neg h]

/-! ## the path filter -/

/-- **The path filter preserves the extension bits of every surviving file.**  For EVERY image
    (any dependency graph, duplicates, cycles), every `--path` / `--exclude-path` list and both
    `allowNotExist` modes: when `imageWithOnlyPaths` succeeds there is a set of target files `ni`
    of the image such that every file `h` of the result is a file `g` of the image with the same
    path, dependency list, descriptor, syntax bit, unused-dependency indexes, module name and
    commit — exactly `ImageFileWithIsImport g (path ∉ targets)`: `is_import` = "not a target". -/
theorem extbits_path_filter_preserves (img : Image) (pths excl : List Str) (allow : Bool) (out : Image)
    (h : imageWithOnlyPaths img pths excl allow = .ok out) :
    ∃ ni : List File, (∀ f ∈ ni, f ∈ img) ∧
      ∀ h ∈ out, ∃ g ∈ img, h = withIsImport g (!((paths ni).contains g.path)) ∧
        h.path = g.path ∧ h.deps = g.deps ∧ h.ext = g.ext ∧
        h.isImport = !((paths ni).contains h.path) := by
  obtain ⟨ni, hsub, hg⟩ := extbits_iwop_roots_sub h
  refine ⟨ni, hsub, ?_⟩
  intro h hh
  obtain ⟨g, hgi, he⟩ := extbits_getImageWithImports_from hsub hg h hh
  refine ⟨g, hgi, ?_, ?_, ?_, ?_, ?_⟩
  · rw [he]; exact extbits_mark_eq_withIsImport _ g
  · rw [he]; rfl
  · rw [he]; rfl
  · rw [he]; rfl
  · rw [he]; rfl

/-- The same for `bufctl.filterImage` (no path and no exclude path: the image itself). -/
theorem extbits_filterImagePaths_preserves (img : Image) (pths excl : List Str) (out : Image)
    (h : filterImagePaths img pths excl = .ok out) :
    ∀ h ∈ out, ∃ g ∈ img, h.path = g.path ∧ h.deps = g.deps ∧ h.ext = g.ext := by
  unfold filterImagePaths at h
  split at h
  · cases h; intro h hh; exact ⟨h, hh, rfl, rfl, rfl⟩
  · obtain ⟨_, _, hall⟩ := extbits_path_filter_preserves img pths excl true out h
    intro h hh
    obtain ⟨g, hg, _, a, b, c, _⟩ := hall h hh
    exact ⟨g, hg, a, b, c⟩

/-- **`is_import` is exactly "not a target after filtering"**, with the targets computed
    independently of the walk: under the conditions of `targeting_equivalence` on the image and the
    selection (`Hyp`: unique normalised paths, no `--path` inside an `--exclude-path`, no `--path`
    selecting an import), a file of the filtered image is a non-import iff the image holds a
    non-import of that path which the selection keeps; and its bits are those of that file. -/
theorem extbits_path_filter_is_import_exact (img : Image) (pths excl : List Str) (out : Image)
    (hyp : Hyp img pths excl) (hne : pths ≠ [] ∨ excl ≠ [])
    (h : imageWithOnlyPaths img pths excl true = .ok out) :
    ∀ h ∈ out, ∃ g ∈ img, h.path = g.path ∧ h.deps = g.deps ∧ h.ext = g.ext ∧
      (h.isImport = false ↔ (g.isImport = false ∧ selected pths excl g.path = true)) := by
  obtain ⟨ni, hiw, hnisub, hnimem⟩ := iwop_roots hyp hne
  rw [hiw] at h
  intro h' hh
  obtain ⟨g, hgi, he⟩ := extbits_getImageWithImports_from hnisub h h' hh
  refine ⟨g, hgi, by rw [he]; rfl, by rw [he]; rfl, by rw [he]; rfl, ?_⟩
  rw [he, mark_isImport]
  constructor
  · intro hc
    have hc' : g.path ∈ paths ni := by simpa using hc
    obtain ⟨f, hf, hfp⟩ := List.mem_map.mp hc'
    obtain ⟨hfi, himp, hsel⟩ := (hnimem f).mp hf
    have : f = g := eq_of_mem_nodup_paths hyp.nodup hfi hgi hfp
    subst this
    exact ⟨himp, hsel⟩
  · rintro ⟨himp, hsel⟩
    have : g ∈ ni := (hnimem g).mpr ⟨hgi, himp, hsel⟩
    have : g.path ∈ paths ni := mem_paths_of_mem this
    simpa using this

/-- … in particular a selected target keeps ALL of its attributes (it is the same object). -/
theorem extbits_path_filter_keeps_selected_bits (img : Image) (pths excl : List Str) (out : Image)
    (hyp : Hyp img pths excl) (hne : pths ≠ [] ∨ excl ≠ [])
    (h : imageWithOnlyPaths img pths excl true = .ok out) (f : File) (hf : f ∈ out)
    (hni : f.isImport = false) : f ∈ img := by
  obtain ⟨ni, hiw, hnisub, hnimem⟩ := iwop_roots hyp hne
  rw [hiw] at h
  obtain ⟨g, hgi, he⟩ := extbits_getImageWithImports_from hnisub h f hf
  have hc : g.path ∈ paths ni := by
    rw [he, mark_isImport] at hni; simpa using hni
  obtain ⟨f', hf', hfp⟩ := List.mem_map.mp hc
  obtain ⟨hfi, himp, _⟩ := (hnimem f').mp hf'
  have : f' = g := eq_of_mem_nodup_paths hyp.nodup hfi hgi hfp
  subst this
  have : mark (paths ni) f' = f' := by
    rw [extbits_mark_eq_withIsImport]
    unfold withIsImport
    rw [if_pos]
    rw [himp]; simpa using hc
  rw [he, this]; exact hgi

/-! ## image vs sources, with the bits the compiler attaches -/

/-- **An image stands in for its sources, bit by bit, up to unused dependencies.**  With the bits
    as `BuildImage` attaches them (`buildX`: syntax bit, module, commit, descriptor for every file,
    unused dependencies for the roots only), under the conditions of `targeting_equivalence`:
    filtering the built image by `--path` / `--exclude-path` and building the sources with the
    same selection give the same files with the same import flags, descriptors, syntax bits,
    module names and commits — `Perm` after forgetting the unused-dependency indexes.  (The
    indexes themselves differ for a file that the selection turns from a target into an import:
    `extbits_targeting_unused_divergence_example`, the recorded finding
    C11-path-build-import-unused-dependency-differs.) -/
theorem extbits_targeting_equivalence_modulo_unused (ws : Workspace) (pths excl : List Str)
    (imgX : Image) (sc : SideConditions ws pths excl) (hfull : buildX ws = .ok imgX) :
    (∃ I M, filterImagePaths imgX pths excl = .ok I ∧
        buildX (withTargeting ws pths excl) = .ok M ∧
        (I.map eraseUnused).Perm (M.map eraseUnused)) ∨
    (filterImagePaths imgX pths excl = .error .noFiles ∧
        buildX (withTargeting ws pths excl) = .error .noTargets) := by
  unfold buildX at hfull
  obtain ⟨img0, hb, hx⟩ := extbits_except_map_ok hfull
  subst hx
  have hnat : (filterImagePaths (img0.map compilerBits) pths excl).map (List.map eraseUnused) =
      (filterImagePaths img0 pths excl).map (List.map eraseUnused) := by
    rw [← extbits_filterImagePaths_map extbits_eraseUnused_bitmap,
      ← extbits_filterImagePaths_map extbits_eraseUnused_bitmap, extbits_erase_compilerBits]
  rcases targeting_equivalence ws pths excl img0 sc hb with ⟨I0, M0, hI, hM, hp, _⟩ | ⟨hI, hM⟩
  · left
    rw [hI] at hnat
    obtain ⟨I, hIX, hIe⟩ := extbits_except_map_ok hnat
    refine ⟨I, M0.map compilerBits, hIX, ?_, ?_⟩
    · unfold buildX; rw [hM]; rfl
    · rw [hIe, extbits_erase_compilerBits]
      exact hp.map _
  · right
    rw [hI] at hnat
    refine ⟨extbits_except_map_error hnat, ?_⟩
    unfold buildX; rw [hM]; rfl

/-! ## ImageWithoutImports, ImageByDir -/

/-- `ImageWithoutImports` keeps exactly the non-imports, as they are and in order. -/
theorem extbits_without_imports_preserves (img : Image) :
    (imageWithoutImports img).Sublist img ∧
    (∀ h, h ∈ imageWithoutImports img ↔ (h ∈ img ∧ h.isImport = false)) := by
  unfold imageWithoutImports
  refine ⟨List.filter_sublist, ?_⟩
  intro h
  rw [List.mem_filter]
  simp

/-- Every image `ImageByDir` returns consists of files of the image, re-flagged: same path,
    dependency list, descriptor, syntax bit, unused-dependency indexes, module and commit. -/
theorem extbits_by_dir_preserves (img : Image) (imgs : List Image) (h : imageByDir img = .ok imgs) :
    ∀ i ∈ imgs, ∀ h ∈ i, ∃ g ∈ img, h = withIsImport g h.isImport ∧
      h.path = g.path ∧ h.deps = g.deps ∧ h.ext = g.ext := by
  unfold imageByDir at h
  intro i hi f hf
  obtain ⟨d, _, hd⟩ := extbits_mapM_mem _ _ _ h i hi
  obtain ⟨ni, _, hall⟩ := extbits_path_filter_preserves img _ [] false i hd
  obtain ⟨g, hg, he, a, b, c, e⟩ := hall f hf
  refine ⟨g, hg, ?_, a, b, c⟩
  rw [e, a]; exact he

/-! ## the type filter on the image-file level -/

/-- The type filter hands on path, import flag, syntax bit, module name and commit — whether the
    file is rewritten or not. -/
theorem extbits_type_filter_frame (required : List Str) (bc hp : Bool) (pl : Nat) (f : File) :
    let r := typeFilterFile required bc hp pl f
    r.path = f.path ∧ r.isImport = f.isImport ∧
    r.ext.syntaxUnspecified = f.ext.syntaxUnspecified ∧ r.ext.modName = f.ext.modName ∧
    r.ext.commit = f.ext.commit := by
  unfold typeFilterFile
  split <;> exact ⟨rfl, rfl, rfl, rfl, rfl⟩

/-- **Remapped unused-dependency indexes name the same paths.**  When no unused dependency is
    `required` by what the closure kept of the file (the compiler reports a dependency as unused
    only when nothing in the file refers to it), the paths named by the new indexes are exactly the
    paths named by the old ones, restricted to the dependencies still present. -/
theorem extbits_type_filter_unused_paths (required : List Str) (bc hp : Bool) (pl : Nat) (f : File)
    (hreq : ∀ p ∈ unusedPaths f, p ∉ required) :
    unusedPaths (typeFilterFile required bc hp pl f) =
      (unusedPaths f).filter (fun p => (typeFilterFile required bc hp pl f).deps.contains p) := by
  unfold typeFilterFile
  split
  · symm
    rw [List.filter_eq_self]
    intro p hp
    simpa using extbits_unusedPaths_sub f p hp
  · have : unusedPaths ({ f with deps := remapDeps required f.deps, ext := { f.ext with payload := pl, unusedDeps := [] } } : File) = [] := rfl
    rw [this]
    symm
    rw [List.filter_eq_nil_iff]
    intro p hp hc
    have hnr := hreq p hp
    have hc' : p ∈ remapDeps required f.deps := by simpa using hc
    unfold remapDeps at hc'
    rcases List.mem_append.mp hc' with h1 | h1
    · have := (List.mem_filter.mp h1).2
      exact hnr (by simpa using this)
    · have h2 : p ∈ dedupStrs (required.filter (fun r => !(f.deps.contains r))) := mem_sortStrs.mp h1
      have h3 : ∀ (l : List Str), p ∈ dedupStrs l → p ∈ l := by
        intro l
        induction l with
        | nil => intro h; cases h
        | cons x xs ih =>
          intro h
          unfold dedupStrs at h
          split at h
          · exact List.mem_cons_of_mem _ (ih h)
          · rcases List.mem_cons.mp h with rfl | h
            · simp
            · exact List.mem_cons_of_mem _ (ih h)
      exact hnr (List.mem_filter.mp (h3 _ h2)).1

/-- The new indexes are always valid for the new dependency list. -/
theorem extbits_type_filter_unused_in_range (required : List Str) (bc hp : Bool) (pl : Nat) (f : File)
    (hwf : ∀ i ∈ f.ext.unusedDeps, i < f.deps.length) :
    ∀ i ∈ (typeFilterFile required bc hp pl f).ext.unusedDeps,
      i < (typeFilterFile required bc hp pl f).deps.length := by
  unfold typeFilterFile
  split
  · exact hwf
  · intro i hi; cases hi

/-! ## concrete images: non-vacuity, and the two counterexamples -/

def xk (s : String) : Str := s.toList

def exMod : ModName := ⟨xk "buf.build", xk "acme", xk "m0"⟩

/-- a/x.proto (proto3) imports b/y.proto and c/u.proto, the latter unused (index 1);
    b/y.proto has NO syntax statement and an unused import of its own (index 0). -/
def exXImg : Image :=
  [ { path := xk "c/u.proto", isImport := false, deps := [],
      ext := { payload := 3, modName := some exMod, commit := some (xk "00000000000000000000000000000abc") } },
    { path := xk "b/y.proto", isImport := false, deps := [xk "c/u.proto"],
      ext := { payload := 2, syntaxUnspecified := true, unusedDeps := [0], modName := some exMod,
               commit := some (xk "00000000000000000000000000000abc") } },
    { path := xk "a/x.proto", isImport := false, deps := [xk "b/y.proto", xk "c/u.proto"],
      ext := { payload := 1, unusedDeps := [1] } } ]

set_option maxRecDepth 100000 in
/-- Non-vacuity: `--path a` keeps a/x.proto as the target and turns the other two into imports;
    b/y.proto keeps "syntax unspecified", its unused index, module and commit. -/
example : imageWithOnlyPaths exXImg [xk "a"] [] true =
    .ok [ { exXImg[0] with isImport := true }, { exXImg[1] with isImport := true }, exXImg[2] ] := by
  decide

set_option maxRecDepth 100000 in
/-- … `--exclude-path b` (exclude only) gives a different order, the same bits. -/
example : imageWithOnlyPaths exXImg [] [xk "b"] true =
    .ok [ exXImg[0], { exXImg[1] with isImport := true }, exXImg[2] ] := by
  decide

set_option maxRecDepth 100000 in
/-- … `ImageByDir`: three images, every file with its own bits in each. -/
example : imageByDir exXImg =
    .ok [ [ { exXImg[0] with isImport := true }, { exXImg[1] with isImport := true }, exXImg[2] ],
          [ { exXImg[0] with isImport := true }, exXImg[1] ],
          [ exXImg[0] ] ] := by
  decide

/-- Sources of `exXImg`: one module, every file with its bits as a root. -/
def exXWs : Workspace :=
  [ { isTarget := true, targetPaths := [], excludePaths := [],
      files := exXImg.map fun f => { f with isImport := false } } ]

set_option maxRecDepth 100000 in
/-- The recorded finding, in the model: `--path a` on the built image of `exXWs` keeps the
    unused-dependency index of b/y.proto (now an import; it was compiled as a root), building the
    sources with `--path a` gives it none; every other bit — and every bit of every other file —
    agrees, in particular b/y.proto is "syntax unspecified" on both sides. -/
theorem extbits_targeting_unused_divergence_example :
    (buildX exXWs).toOption.bind (fun img => (filterImagePaths img [xk "a"] []).toOption) =
      some [ { exXImg[0] with isImport := true }, { exXImg[1] with isImport := true }, exXImg[2] ] ∧
    buildX (withTargeting exXWs [xk "a"] []) =
      .ok [ { exXImg[0] with isImport := true },
            { exXImg[1] with isImport := true, ext := { exXImg[1].ext with unusedDeps := [] } },
            exXImg[2] ] := by
  decide

/-- The walk with an arbitrary re-flagging function in place of `ImageFileWithIsImport`. -/
def visitW (mk : List Str → File → File) (look : Str → Option File) (targets : List Str) :
    Nat → File → DState → DState
  | 0, _, st => st
  | fuel + 1, f, st =>
    if f.path ∈ st.1 then st
    else
      let st1 := f.deps.foldl
        (fun st d => match look d with
          | some g => visitW mk look targets fuel g st
          | none => st)
        (f.path :: st.1, st.2)
      (st1.1, st1.2 ++ [mk targets f])

def visitAllW (mk : List Str → File → File) (look : Str → Option File) (targets : List Str) (fuel : Nat)
    (fs : List File) (st : DState) : DState :=
  fs.foldl (fun st f => visitW mk look targets fuel f st) st

/-- `visitW` with the model's `mark` is the model's walk. -/
theorem extbits_visitW_mark (look : Str → Option File) (t : List Str) (fuel : Nat) :
    ∀ f st, visitW mark look t fuel f st = visit look t fuel f st := by
  induction fuel with
  | zero => intro f st; rfl
  | succ n ih =>
    intro f st
    unfold visitW visit
    have : (fun (st : DState) d => match look d with
          | some g => visitW mark look t n g st
          | none => st) = (fun (st : DState) d => match look d with
          | some g => visit look t n g st
          | none => st) := by
      funext s d
      cases look d with
      | none => rfl
      | some g => exact ih g s
    simp only [this]
    rfl

/-- The seeded regression: `ImageFileWithIsImport` passing `!isImport && IsSyntaxUnspecified()`. -/
def markClearsSyntax (t : List Str) (f : File) : File :=
  let imp := !(t.contains f.path)
  if f.isImport = imp then f
  else { f with isImport := imp, ext := { f.ext with syntaxUnspecified := !imp && f.ext.syntaxUnspecified } }

/-- what the broken walk emits for b/y.proto -/
def exBadY : File :=
  { exXImg[1] with isImport := true, ext := { exXImg[1].ext with syntaxUnspecified := false } }

set_option maxRecDepth 100000 in
/-- With that re-flagging function the walk for `--path a` on `exXImg` emits a b/y.proto whose
    extension bits are NOT those of the image's b/y.proto (the syntax bit is gone) — the
    conclusion of `extbits_path_filter_preserves` fails, so the theorem is about the code. -/
theorem extbits_reflag_clears_syntax_counterexample :
    let out := (visitAllW markClearsSyntax (getFile exXImg) [xk "a/x.proto"] 4 [exXImg[2]] ([], [])).2
    out.map (·.path) = [xk "c/u.proto", xk "b/y.proto", xk "a/x.proto"] ∧
    (∃ h ∈ out, h.path = xk "b/y.proto" ∧ ¬ ∃ g ∈ exXImg, h.path = g.path ∧ h.ext = g.ext) ∧
    (visitAllW mark (getFile exXImg) [xk "a/x.proto"] 4 [exXImg[2]] ([], [])).2 =
      [ { exXImg[0] with isImport := true }, { exXImg[1] with isImport := true }, exXImg[2] ] := by
  refine ⟨by decide, ⟨exBadY, by decide, by decide, ?_⟩, by decide⟩
  rintro ⟨g, hg, hp, he⟩
  simp only [exXImg, List.mem_cons, List.not_mem_nil, or_false] at hg
  rcases hg with rfl | rfl | rfl
  · revert hp; decide
  · revert he; decide
  · revert hp; decide

/-- A type filter that kept the OLD indexes instead of dropping them. -/
def typeFilterFileStale (required : List Str) (f : File) : File :=
  { f with deps := remapDeps required f.deps }

set_option maxRecDepth 100000 in
/-- Non-vacuity of `extbits_type_filter_unused_paths` and the sibling regression: a/x.proto of
    `exXImg` with a leading unused import added; the closure requires only b/y.proto.  As coded
    the rewritten file has one dependency and no unused index; with the stale indexes, index 0 now
    names b/y.proto — a dependency that IS used — and index 2 names nothing. -/
theorem extbits_type_filter_stale_indexes_counterexample :
    let f : File := { path := xk "a/x.proto", isImport := false,
                      deps := [xk "z/unused.proto", xk "b/y.proto", xk "c/u.proto"],
                      ext := { payload := 1, unusedDeps := [0, 2] } }
    (∀ p ∈ unusedPaths f, p ∉ [xk "b/y.proto"]) ∧
    (typeFilterFile [xk "b/y.proto"] false false 1 f).deps = [xk "b/y.proto"] ∧
    unusedPaths (typeFilterFile [xk "b/y.proto"] false false 1 f) = [] ∧
    unusedPaths (typeFilterFileStale [xk "b/y.proto"] f) = [xk "b/y.proto"] ∧
    ¬ (∀ i ∈ (typeFilterFileStale [xk "b/y.proto"] f).ext.unusedDeps,
        i < (typeFilterFileStale [xk "b/y.proto"] f).deps.length) := by
  refine ⟨by decide, by decide, by decide, by decide, by decide⟩

end BufProofs.C11
