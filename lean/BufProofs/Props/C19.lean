import BufProofs.Lemmas.TokenLemmas
/-
  C19 — Credentials are only sent to the registry they were configured for.
  Property theorems only; helper lemmas live in BufProofs/Lemmas/TokenLemmas.lean.
  All theorems quantify over ALL strings (`Str = List Char`), not over a bounded alphabet.
-/
namespace BufProofs.C19
open BufModel.Token

/-- **No leak.**  Whatever the BUF_TOKEN string `s` is: if the host-keyed provider built from it
    hands a (non-empty) token `t` to a request for `host`, then `s` literally contains the entry
    `t@host` between commas.  -/
theorem no_leak (s : Str) (m : List (Str × Str)) (host t : Str)
    (hp : newTokenProvider s = .ok (.multi m))
    (ht : remoteToken (.multi m) host = t) (hne : t ≠ []) :
    (t ++ '@' :: host) ∈ splitOn ',' s := by
  rcases newTokenProvider_cases s _ hp with ⟨_, h⟩ | ⟨_, _, _, h⟩ | ⟨_, _, m', h, hm⟩
  · cases h
  · cases h
  · cases h
    obtain ⟨_, _, _, i4, _⟩ := newMultiple_ok _ [] m (by simp) hm
    have hl : m.lookup host = some t := by
      simp only [remoteToken] at ht
      cases hq : m.lookup host with
      | none => rw [hq] at ht; simp at ht; exact absurd ht.symm (by simpa using hne)
      | some v => rw [hq] at ht; simp at ht; rw [ht]
    rcases i4 (host, t) (mem_of_lookup host t m hl) with h | ⟨e, he, hpe⟩
    · simp at h
    · have w := (parseEntry_ok e host t).mp hpe
      rw [← w.shape]; exact he

/-- A token configured for one host is never sent to another: if no entry of `s` is literally
    `t@host`, a request to `host` does not carry `t` — no matter which other hosts `t` is
    configured for. -/
theorem no_cross_host (s : Str) (m : List (Str × Str)) (host t : Str)
    (hp : newTokenProvider s = .ok (.multi m)) (hne : t ≠ [])
    (hnot : (t ++ '@' :: host) ∉ splitOn ',' s) :
    remoteToken (.multi m) host ≠ t :=
  fun h => hnot (no_leak s m host t hp h hne)

/-- The host-less token (no '@', no ',') is by design sent to every host, and it is the whole
    string. -/
theorem single_token_all_hosts (s t : Str) (hp : newTokenProvider s = .ok (.single t)) :
    t = s ∧ s ≠ [] ∧ '@' ∉ s ∧ ',' ∉ s ∧ ∀ host, remoteToken (.single t) host = s := by
  rcases newTokenProvider_cases s _ hp with ⟨_, h⟩ | ⟨h1, h2, h3, h⟩ | ⟨_, _, m', h, _⟩
  · cases h
  · cases h; exact ⟨rfl, h1, h2, h3, fun _ => rfl⟩
  · cases h

/-- **All or nothing.**  An accepted BUF_TOKEN string is exactly one of: empty (no token at all);
    a host-less token; or a comma-separated list in which EVERY entry is a well-formed
    `token@host`, every entry is served to its host, hosts are pairwise distinct and nothing else
    is in the table. -/
theorem accepted_shape (s : Str) (p : Provider) (hp : newTokenProvider s = .ok p) :
    (s = [] ∧ p = .nop) ∨
    (s ≠ [] ∧ '@' ∉ s ∧ ',' ∉ s ∧ p = .single s) ∨
    (∃ m, p = .multi m ∧ ('@' ∈ s ∨ ',' ∈ s) ∧
      (∀ e ∈ splitOn ',' s, ∃ t h, WellFormed e t h ∧ remoteToken p h = t) ∧
      (m.map Prod.fst).Nodup ∧ m.length = (splitOn ',' s).length) := by
  rcases newTokenProvider_cases s _ hp with h | h | ⟨_, hsep, m, rfl, hm⟩
  · exact Or.inl h
  · exact Or.inr (Or.inl h)
  · refine Or.inr (Or.inr ⟨m, rfl, hsep, ?_, ?_, ?_⟩)
    · obtain ⟨i1, _, i3, _, _⟩ := newMultiple_ok _ [] m (by simp) hm
      intro e he
      obtain ⟨h, t, hpe, hmem⟩ := i3 e he
      refine ⟨t, h, (parseEntry_ok e h t).mp hpe, ?_⟩
      simp [remoteToken, lookup_of_mem h t m i1 hmem]
    · exact (newMultiple_ok _ [] m (by simp) hm).1
    · have := (newMultiple_ok _ [] m (by simp) hm).2.2.2.2
      simpa using this

/-- **Malformed strings are rejected, never partially applied.**  If `s` is not a plain host-less
    token (it contains '@' or ',') and some comma-separated entry is not a well-formed
    `token@host` (wrong number of '@', empty token, empty host, ':' in the token), construction
    fails — there is no provider, hence no token for any host. -/
theorem malformed_rejected (s : Str) (hsep : '@' ∈ s ∨ ',' ∈ s)
    (hbad : ∃ e ∈ splitOn ',' s, ∀ t h, ¬ WellFormed e t h) :
    ∃ err, newTokenProvider s = .error err := by
  cases hr : newTokenProvider s with
  | error err => exact ⟨err, rfl⟩
  | ok p =>
    exfalso
    obtain ⟨e, he, hno⟩ := hbad
    rcases accepted_shape s p hr with ⟨h, _⟩ | ⟨_, h1, h2, _⟩ | ⟨m, _, _, hall, _, _⟩
    · subst h; simp at hsep
    · exact hsep.elim h1 h2
    · obtain ⟨t, h, w, _⟩ := hall e he
      exact hno t h w

/-- **Deterministic and complete.**  Conversely, when every comma-separated entry of `s` is a
    well-formed `token@host` and the hosts are pairwise distinct, `s` is accepted and the table is
    exactly those (host, token) pairs — nothing is dropped, added or reordered. -/
theorem wellformed_accepted (s : Str) (pairs : List (Str × Str)) (hne : pairs ≠ [])
    (hs : splitOn ',' s = pairs.map entryOf)
    (hwf : ∀ p ∈ pairs, WellFormed (entryOf p) p.2 p.1)
    (hnd : (pairs.map Prod.fst).Nodup) :
    newTokenProvider s = .ok (.multi pairs) := by
  have hm := newMultiple_wellformed pairs [] hwf (by simpa using hnd)
  simp only [List.nil_append] at hm
  have hmo : multiOf (pairs.map entryOf) = .ok (.multi pairs) := by simp [multiOf, hm]
  cases pairs with
  | nil => exact absurd rfl hne
  | cons p ps =>
    have hsne : s ≠ [] := by
      intro h0; subst h0
      simp [splitOn, entryOf] at hs
    unfold newTokenProvider
    rw [if_neg hsne, hs]
    cases ps with
    | nil =>
      have hat : '@' ∈ entryOf p := by simp [entryOf]
      simp only [List.map_cons, List.map_nil]
      rw [if_pos hat]
      simpa using hmo
    | cons q qs => simpa using hmo

/-- Two entries for the same host make the whole string invalid (the second one is never
    silently dropped, nor does it overwrite the first). -/
theorem repeated_host_rejected (s : Str) (pre mid post : List Str) (e₁ e₂ t₁ t₂ h : Str)
    (hs : splitOn ',' s = pre ++ e₁ :: (mid ++ e₂ :: post))
    (w₁ : WellFormed e₁ t₁ h) (w₂ : WellFormed e₂ t₂ h) :
    ∃ err, newTokenProvider s = .error err := by
  cases hr : newTokenProvider s with
  | error err => exact ⟨err, rfl⟩
  | ok p =>
    exfalso
    rcases newTokenProvider_cases s p hr with ⟨h0, _⟩ | ⟨_, _, hc, _⟩ | ⟨_, _, m, _, hm⟩
    · subst h0; cases pre <;> simp [splitOn] at hs
    · rw [split_no_sep ',' s hc] at hs
      cases pre <;> simp at hs
    · rw [hs, newMultiple_append] at hm
      cases h1 : newMultiple pre [] with
      | error e => simp [h1] at hm
      | ok a1 =>
        have nd1 := (newMultiple_ok pre [] a1 (by simp) h1).1
        simp only [h1] at hm
        rw [newMultiple_cons, (parseEntry_ok e₁ h t₁).mpr w₁] at hm
        simp only at hm
        by_cases hl : (a1.lookup h).isSome
        · simp [hl] at hm
        · rw [if_neg hl, newMultiple_append] at hm
          have hnone : a1.lookup h = none := by
            cases hq : a1.lookup h with
            | none => rfl
            | some v => simp [hq] at hl
          have nd2 : ((a1 ++ [(h, t₁)]).map Prod.fst).Nodup := by
            have hnot := (lookup_none_iff h a1).mp hnone
            simp [List.nodup_append, nd1]
            intro a b hab heq
            subst heq
            exact hnot (by simp; exact ⟨b, hab⟩)
          cases h2 : newMultiple mid (a1 ++ [(h, t₁)]) with
          | error e => simp [h2] at hm
          | ok a3 =>
            obtain ⟨nd3, sub, _, _, _⟩ := newMultiple_ok mid _ a3 nd2 h2
            simp only [h2] at hm
            rw [newMultiple_cons, (parseEntry_ok e₂ h t₂).mpr w₂] at hm
            simp only at hm
            have : a3.lookup h = some t₁ := lookup_of_mem h t₁ a3 nd3 (sub (h, t₁) (by simp))
            simp [this] at hm

/-! ### the interceptor: first provider with a non-empty token wins -/

/-- **First source wins.**  If every provider before `p` has no token for the address and `p`
    has the non-empty token `t`, the header carries exactly `t` (and the env-var attribution is
    `p`'s) — whatever later providers would have said; they are not even consulted. -/
theorem first_source_wins (pre post : List Source) (p : Source) (a t : Str)
    (hpre : ∀ q ∈ pre, q.token a = .ok []) (hp : p.token a = .ok t) (hne : t ≠ []) :
    authorize (pre ++ p :: post) a = .ok ⟨some t, true, p.fromEnv⟩ := by
  induction pre with
  | nil => simp [authorize, hp, hne]
  | cons q qs ih =>
    have hq := hpre q (by simp)
    simp [authorize, hq]
    exact ih (fun x hx => hpre x (by simp [hx]))

/-- No provider has a token ⇒ no Authorization header. -/
theorem no_source_no_header (ps : List Source) (a : Str) (h : ∀ q ∈ ps, q.token a = .ok []) :
    authorize ps a = .ok ⟨none, false, false⟩ := by
  induction ps with
  | nil => simp [authorize]
  | cons q qs ih =>
    simp [authorize, h q (by simp)]
    exact ih (fun x hx => h x (by simp [hx]))

/-- Converse: a header is only ever set from a provider of the list, namely the first one with a
    non-empty token for THIS address; the header value is exactly that provider's token. -/
theorem header_has_source (ps : List Source) (a t : Str) (r : AuthResult)
    (h : authorize ps a = .ok r) (ht : r.header = some t) :
    ∃ pre p post, ps = pre ++ p :: post ∧ (∀ q ∈ pre, q.token a = .ok []) ∧
      p.token a = .ok t ∧ t ≠ [] ∧ r.hasToken = true ∧ r.usingEnv = p.fromEnv := by
  induction ps with
  | nil => simp [authorize] at h; subst h; simp at ht
  | cons q qs ih =>
    simp only [authorize] at h
    cases hq : q.token a with
    | error e => simp [hq] at h
    | ok tq =>
      simp only [hq] at h
      by_cases hne : tq ≠ []
      · rw [if_pos hne] at h
        simp at h
        subst h
        simp at ht
        subst ht
        exact ⟨[], q, qs, by simp, by simp, hq, hne, rfl, rfl⟩
      · rw [if_neg hne] at h
        obtain ⟨pre, p, post, e1, e2, e3, e4, e5, e6⟩ := ih h
        have : tq = [] := by simpa using hne
        subst this
        refine ⟨q :: pre, p, post, by simp [e1], ?_, e3, e4, e5, e6⟩
        intro x hx
        simp at hx
        rcases hx with rfl | hx
        · exact hq
        · exact e2 x hx

/-! ### .netrc -/

/-- **Exact machine, else `default`.**  On the parsed machine list the token handed out for
    `host` is the password of the FIRST machine named exactly `host`; only if there is none, of
    the first machine named "default"; otherwise nothing.  No other machine's password is ever
    returned. -/
theorem netrc_exact_or_default (ms : List Machine) (host : Str) :
    (∀ m, ms.find? (fun m => m.name = host) = some m → netrcPasswordOf ms host = m.get kwPassword) ∧
    (ms.find? (fun m => m.name = host) = none →
      (∀ d, ms.find? (fun m => m.name = kwDefault) = some d → netrcPasswordOf ms host = d.get kwPassword) ∧
      (ms.find? (fun m => m.name = kwDefault) = none → netrcPasswordOf ms host = [])) := by
  refine ⟨?_, ?_⟩
  · intro m hm
    simp [netrcPasswordOf, machineFor, findMachine, hm]
  · intro hn
    refine ⟨?_, ?_⟩
    · intro d hd
      simp [netrcPasswordOf, machineFor, findMachine, hn, hd]
    · intro hd
      simp [netrcPasswordOf, machineFor, findMachine, hn, hd]

/-- For every plain .netrc file (any number of machine / default entries in any order, no value
    spelled "machine" or "default") the provider returns exactly what the netrc format says:
    the password of the first entry for that machine, else of the first default entry, else
    nothing.  In particular a password of machine `a` is never returned for host `b ≠ a`. -/
theorem netrc_plain_exact_or_default (es : List Entry) (hp : ∀ e ∈ es, e.Plain) (host : Str) :
    netrcRemoteToken (some (renderEntries es)) host = .ok (specLookup es host) := by
  have hparse := parseToks_entries es [] hp
  simp at hparse
  simp only [netrcRemoteToken, hparse]
  congr 1
  have hnd : ∀ e ∈ es, e.name ≠ some kwDefault := by
    intro e he hn
    exact (((hp e he).1 kwDefault hn).2) rfl
  have hdef := findMachine_default es hnd
  by_cases hd : host = kwDefault
  · subst hd
    have hnone : es.find? (fun e => e.name = some kwDefault) = none := by
      simp [List.find?_eq_none]
      intro e he hn
      exact hnd e he hn
    simp only [netrcPasswordOf, machineFor, specLookup, hnone, hdef]
    cases hf : es.find? (fun e => e.name = none) with
    | none => simp
    | some e => simp [toMachine_password]
  · have hex := findMachine_exact es host hd
    simp only [netrcPasswordOf, machineFor, specLookup, hex, hdef]
    cases hf : es.find? (fun e => e.name = some host) with
    | some e => simp [toMachine_password]
    | none =>
      simp
      cases hf2 : es.find? (fun e => e.name = none) with
      | none => simp
      | some e => simp [toMachine_password]

/-- The recorded finding: go-netrc treats a VALUE spelled `default` as the keyword.  For the
    file `machine h login default password secret` host `h` gets nothing and EVERY other host
    gets `secret` — the plainness hypothesis of `netrc_plain_exact_or_default` is necessary. -/
theorem netrc_keyword_value_counterexample :
    let file := renderEntries [⟨some "h".toList, "default".toList, "secret".toList⟩]
    netrcRemoteToken (some file) "h".toList = .ok [] ∧
    netrcRemoteToken (some file) "other".toList = .ok "secret".toList ∧
    specLookup [⟨some "h".toList, "default".toList, "secret".toList⟩] "other".toList = [] := by
  decide

/-! ### the whole chain: BUF_TOKEN first, then .netrc, for the address the client was made for -/

/-- **A credential reaches `host` only if it was configured for `host`.**  If a request of a
    client made for `host` carries the token `t`, then one of:
    (1) BUF_TOKEN is the single host-less token `t` (by design for every host);
    (2) BUF_TOKEN literally contains the entry `t@host`;
    (3) BUF_TOKEN has nothing for `host` and `t` is what the .netrc lookup for `host` returns
        (see `netrc_exact_or_default` / `netrc_plain_exact_or_default`).
    Moreover the env-var attribution is right: `usingEnv` holds exactly in cases (1)/(2). -/
theorem header_only_if_configured (bufToken : Str) (file : Option (List Str)) (host t : Str)
    (r : AuthResult) (h : chainAuth bufToken file host = .ok r) (ht : r.header = some t) :
    (newTokenProvider bufToken = .ok (.single t) ∧ t = bufToken ∧ r.usingEnv = true) ∨
    ((t ++ '@' :: host) ∈ splitOn ',' bufToken ∧ r.usingEnv = true) ∨
    (∃ p, newTokenProvider bufToken = .ok p ∧ remoteToken p host = [] ∧
      netrcRemoteToken file host = .ok t ∧ r.usingEnv = false) := by
  unfold chainAuth at h
  cases hp : newTokenProvider bufToken with
  | error e => simp [hp] at h
  | ok p =>
    simp only [hp] at h
    cases ha : authorize [staticSource p true, netrcSource file] host with
    | error e => simp [ha] at h
    | ok r' =>
      simp only [ha] at h
      cases h
      simp only [authorize, staticSource] at ha
      by_cases hne : remoteToken p host ≠ []
      · rw [if_pos hne] at ha
        cases ha
        simp at ht
        cases p with
        | nop => simp [remoteToken] at hne
        | single tok =>
          simp [remoteToken] at ht
          subst ht
          obtain ⟨e1, _⟩ := single_token_all_hosts bufToken tok hp
          exact Or.inl ⟨rfl, e1, rfl⟩
        | multi m =>
          exact Or.inr (Or.inl ⟨no_leak bufToken m host t hp ht (ht ▸ hne), rfl⟩)
      · rw [if_neg hne] at ha
        have hempty : remoteToken p host = [] := by simpa using hne
        simp only [netrcSource] at ha
        cases hn : netrcRemoteToken file host with
        | error e => simp [hn] at ha
        | ok pw =>
          simp only [hn] at ha
          by_cases hpw : pw ≠ []
          · rw [if_pos hpw] at ha
            cases ha
            simp at ht
            subst ht
            exact Or.inr (Or.inr ⟨p, rfl, hempty, rfl, rfl⟩)
          · rw [if_neg hpw] at ha
            cases ha
            simp at ht

/-- The same for the `--token` flag path (`NewConnectClientConfigWithToken`): the header carries
    `t` only if the flag value is the host-less token `t` or literally contains `t@host`; .netrc
    plays no role and the token is never attributed to the BUF_TOKEN variable. -/
theorem token_flag_only_if_configured (token host t : Str) (r : AuthResult)
    (h : chainAuthWithToken token host = .ok r) (ht : r.header = some t) :
    ((newTokenProvider token = .ok (.single t) ∧ t = token) ∨ (t ++ '@' :: host) ∈ splitOn ',' token) ∧
    r.usingEnv = false := by
  unfold chainAuthWithToken at h
  cases hp : newTokenProvider token with
  | error e => simp [hp] at h
  | ok p =>
    simp only [hp] at h
    cases ha : authorize [staticSource p false] host with
    | error e => simp [ha] at h
    | ok r' =>
      simp only [ha] at h
      cases h
      simp only [authorize, staticSource] at ha
      by_cases hne : remoteToken p host ≠ []
      · rw [if_pos hne] at ha
        cases ha
        simp at ht
        cases p with
        | nop => simp [remoteToken] at hne
        | single tok =>
          simp [remoteToken] at ht
          subst ht
          obtain ⟨e1, _⟩ := single_token_all_hosts token tok hp
          exact ⟨Or.inl ⟨rfl, e1⟩, by simp [isFromEnvVar]⟩
        | multi m =>
          exact ⟨Or.inr (no_leak token m host t hp ht (ht ▸ hne)), by simp [isFromEnvVar]⟩
      · rw [if_neg hne] at ha
        cases ha
        simp at ht

/-- A malformed BUF_TOKEN stops everything: no client config, hence no request and no header. -/
theorem malformed_no_request (bufToken : Str) (file : Option (List Str)) (host : Str)
    (hsep : '@' ∈ bufToken ∨ ',' ∈ bufToken)
    (hbad : ∃ e ∈ splitOn ',' bufToken, ∀ t h, ¬ WellFormed e t h) :
    ∃ err, chainAuth bufToken file host = .error (.config err) := by
  obtain ⟨err, he⟩ := malformed_rejected bufToken hsep hbad
  exact ⟨err, by simp [chainAuth, he]⟩

/-! ### non-vacuity -/

example : newTokenProvider "t@h,u@g".toList = .ok (.multi [("h".toList, "t".toList), ("g".toList, "u".toList)]) := by decide
example : remoteToken (.multi [("h".toList, "t".toList), ("g".toList, "u".toList)]) "g".toList = "u".toList := by decide
example : remoteToken (.multi [("h".toList, "t".toList), ("g".toList, "u".toList)]) "hg".toList = [] := by decide
example : newTokenProvider "t:u".toList = .ok (.single "t:u".toList) := by decide
example : newTokenProvider "t@h,u".toList = .error .invalid := by decide
example : newTokenProvider "t@h,,u@g".toList = .error .invalid := by decide
example : newTokenProvider "t@h,t:u@g".toList = .error .colon := by decide
example : newTokenProvider "t@h,u@h".toList = .error .repeated := by decide
example : newTokenProvider "t@h@g".toList = .error .invalid := by decide
example : WellFormed "tok@h:80".toList "tok".toList "h:80".toList :=
  ⟨by decide, by decide, by decide, by decide, by decide, by decide, by decide⟩
example : chainAuth "t@h".toList (some (renderEntries [⟨some "g".toList, "l".toList, "p".toList⟩, ⟨none, "l".toList, "d".toList⟩])) "g".toList
    = .ok ⟨some "p".toList, true, false⟩ := by decide
example : chainAuth "t@h".toList (some (renderEntries [⟨some "g".toList, "l".toList, "p".toList⟩, ⟨none, "l".toList, "d".toList⟩])) "h".toList
    = .ok ⟨some "t".toList, true, true⟩ := by decide
example : chainAuth "t@h".toList (some (renderEntries [⟨some "g".toList, "l".toList, "p".toList⟩, ⟨none, "l".toList, "d".toList⟩])) "x".toList
    = .ok ⟨some "d".toList, true, false⟩ := by decide
example : (⟨some "g".toList, "l".toList, "p".toList⟩ : Entry).Plain := by
  refine ⟨?_, by decide, by decide, by decide, by decide⟩
  intro n hn; cases hn; exact ⟨by decide, by decide⟩

/-! ### One shared Config, several registries, any interleaving of `Make` calls (S4C) -/

/-- Invariant of the cloning `Make`: every private slice ends in the interceptor of its own call's
    address, and so does every client built so far. -/
theorem mrun_clone_inv (addr : Nat → Str) (steps : List MStep) (s : MState)
    (hown : ∀ p ∈ s.own, p.2 = addr p.1)
    (hbuilt : ∀ i a, (i, some a) ∈ s.built → a = addr i) :
    (∀ p ∈ (steps.foldl (mstep false addr) s).own, p.2 = addr p.1) ∧
    (∀ i a, (i, some a) ∈ (steps.foldl (mstep false addr) s).built → a = addr i) := by
  induction steps generalizing s with
  | nil => exact ⟨hown, hbuilt⟩
  | cons st rest ih =>
    simp only [List.foldl_cons]
    apply ih
    · cases st with
      | append i =>
        intro p hp
        simp only [mstep, Bool.false_eq_true, if_false, List.mem_cons] at hp
        rcases hp with rfl | hp
        · rfl
        · exact hown p hp
      | build i => simpa [mstep] using hown
    · cases st with
      | append i => simpa [mstep] using hbuilt
      | build i =>
        intro j a hj
        simp only [mstep, Bool.false_eq_true, if_false, List.mem_cons] at hj
        rcases hj with hj | hj
        · have hji : j = i := congrArg Prod.fst hj
          have hlo : some a = lookupOwn s.own i := congrArg Prod.snd hj
          subst hji
          unfold lookupOwn at hlo
          cases hf : s.own.find? (fun p => p.1 = j) with
          | none => rw [hf] at hlo; cases hlo
          | some p =>
            rw [hf] at hlo
            have hp1 : p.1 = j := by simpa using List.find?_some hf
            have hp2 := hown p (List.mem_of_find?_eq_some hf)
            have : a = p.2 := Option.some.inj hlo
            rw [this, hp2, hp1]
        · exact hbuilt j a hj

/-- As coded (`slices.Clone` per call): under EVERY interleaving of the steps of any number of
    `Make` calls on one shared Config, a client is built with the authorization interceptor of
    its OWN address — never another call's. -/
theorem make_clone_schedule_independent (addr : Nat → Str) (steps : List MStep) (i : Nat) (a : Str)
    (h : (i, some a) ∈ (mrun false addr steps).built) : a = addr i :=
  (mrun_clone_inv addr steps MState.init (by intro p hp; cases hp) (by intro i a h; cases h)).2 i a h

/-- Hence the credential a request carries is a function of (configuration, address of the
    client) only — whatever other clients were made from the same Config, before, after or at the
    same time: it is `chainAuth` at the client's own address, to which `header_only_if_configured`
    applies.  (The model is sequential and pure; that the real, concurrent `Make` behaves like
    some interleaving of these steps is exercised by section E of the harness: concurrent, nested
    and sequential construction on one shared config against four loopback registries.) -/
theorem client_token_function_of_config_and_address (bufToken : Str) (file : Option (List Str))
    (addr : Nat → Str) (steps : List MStep) (i : Nat) (a : Str)
    (h : (i, some a) ∈ (mrun false addr steps).built) :
    clientAuth bufToken file a = chainAuth bufToken file (addr i) := by
  rw [make_clone_schedule_independent addr steps i a h]; rfl

/-- Seed C19-m5 (append onto the shared slice): the interleaving append A, append B, build A,
    build B gives BOTH clients the interceptor of B — every later request to A carries B's token.
    A purely sequential use (append A, build A, append B, build B) shows nothing. -/
theorem make_shared_slice_counterexample :
    (mrun true (fun i => if i = 0 then "A".toList else "B".toList) [.append 0, .append 1, .build 0, .build 1]).built =
      [(1, some "B".toList), (0, some "B".toList)] ∧
    (mrun true (fun i => if i = 0 then "A".toList else "B".toList) [.append 0, .build 0, .append 1, .build 1]).built =
      [(1, some "B".toList), (0, some "A".toList)] := by decide

-- non-vacuity: an interleaved cloning run builds both clients correctly
example : (mrun false (fun i => if i = 0 then "A".toList else "B".toList) [.append 0, .append 1, .build 0, .build 1]).built =
    [(1, some "B".toList), (0, some "A".toList)] := by decide

/-! ## Redirect chains -/

/-- **No hop of a redirect chain carries a token unless it goes to the original host.**  For every
    chain of redirect targets, whatever the first request carried: a hop that carries a token `t`
    goes to the host the client was made for (up to the case of letters), and `t` is the token of
    the first request — which `header_only_if_configured` ties to the configuration of that host. -/
theorem redirect_hop_only_original_host (first : Option Str) (orig : Str) (chain : List Str)
    (stripped : Bool) (k : Nat) (t : Str)
    (h : (hopHeaders first orig chain stripped)[k]? = some (some t)) :
    first = some t ∧ ∃ host, chain[k]? = some host ∧ eqFoldHost host orig = true := by
  induction chain generalizing stripped k with
  | nil => simp [hopHeaders] at h
  | cons c rest ih =>
    cases k with
    | zero =>
      simp only [hopHeaders, List.getElem?_cons_zero, Option.some.injEq] at h
      by_cases hs : (stripped || !(isDomainOrSubdomain c orig)) = true
      · simp [hs] at h
      · simp only [hs] at h
        by_cases he : eqFoldHost c orig = true
        · simp [he] at h
          exact ⟨h, c, by simp, he⟩
        · simp [he] at h
    | succ k =>
      simp only [hopHeaders, List.getElem?_cons_succ] at h
      obtain ⟨h1, host, h2, h3⟩ := ih _ k h
      exact ⟨h1, host, by simpa using h2, h3⟩

/-- Whole chain: the token configured for `host` (if any) is the only thing any hop can carry, and
    only hops to `host` carry it — composition with `header_only_if_configured`. -/
theorem redirect_chain_only_if_configured (bufToken : Str) (file : Option (List Str)) (host t : Str)
    (r : AuthResult) (h : chainAuth bufToken file host = .ok r) (chain : List Str) (k : Nat)
    (hk : (hopHeaders r.header host chain false)[k]? = some (some t)) :
    (∃ hop, chain[k]? = some hop ∧ eqFoldHost hop host = true) ∧
    ((newTokenProvider bufToken = .ok (.single t) ∧ t = bufToken ∧ r.usingEnv = true) ∨
     ((t ++ '@' :: host) ∈ splitOn ',' bufToken ∧ r.usingEnv = true) ∨
     (∃ p, newTokenProvider bufToken = .ok p ∧ remoteToken p host = [] ∧
       netrcRemoteToken file host = .ok t ∧ r.usingEnv = false)) := by
  obtain ⟨h1, h2⟩ := redirect_hop_only_original_host r.header host chain false k t hk
  exact ⟨h2, header_only_if_configured bufToken file host t r h h1⟩

/-- Once net/http has left the site of the original host, nothing is carried any more (sticky). -/
theorem redirect_stripped_stays_stripped (first : Option Str) (orig : Str) (chain : List Str) :
    ∀ x ∈ hopHeaders first orig chain true, x = none := by
  induction chain with
  | nil => simp [hopHeaders]
  | cons c rest ih =>
    intro x hx
    simp only [hopHeaders, Bool.true_or, List.mem_cons] at hx
    rcases hx with hx | hx
    · simpa using hx
    · exact ih x hx

/-- Why the fix was needed (the code before 018ad7b, net/http alone): a redirect to a SUBDOMAIN of
    the registry carries the registry's token to that other host. -/
theorem redirect_subdomain_counterexample :
    hopHeadersStdlibOnly (some "tk0".toList) "buf.build".toList ["a.b.buf.build".toList] false = [some "tk0".toList] ∧
    hopHeaders (some "tk0".toList) "buf.build".toList ["a.b.buf.build".toList] false = [none] := by decide

-- non-vacuity: a chain that leaves to a subdomain and comes back carries the token at the original
-- host again (checkRedirect is per request), while a chain through an unrelated host never does
example : hopHeaders (some "tk0".toList) "buf.build".toList
    ["sub.buf.build".toList, "buf.build".toList] false = [none, some "tk0".toList] := by decide
example : hopHeaders (some "tk0".toList) "buf.build".toList
    ["evilbuf.build".toList, "buf.build".toList] false = [none, none] := by decide
example : hopHeaders (some "tk0".toList) "buf.build".toList ["BUF.BUILD".toList] false = [none] := by decide

end BufProofs.C19
