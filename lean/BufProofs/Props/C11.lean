import BufModel.ImagePaths
import BufProofs.Lemmas.ImagePathsLemmas
import BufProofs.Lemmas.WireLemmas
/-
  Property C11 — "An image faithfully stands in for its sources, in every encoding".

  Clauses and what is shown here (model: BufModel/ImagePaths.lean):

  (1) `build --path and --exclude-path` against the image = against the sources, whenever no --path
      lies inside an --exclude-path:                       `targeting_equivalence` (proved; file
      lists are equal as SETS with equal flags — `List.Perm` — the ORDER of files can differ, see
      `targeting_order_counterexample`, which is how the code behaves), with the side condition
      shown necessary by `targeting_divergence_example` and the two other hypotheses shown
      necessary by `prefix_free_needed_example` / `import_hit_needed_example`.
  (2) image <-> proto image conversion loses nothing:      `protoImage_roundtrip` (proved)
  (3) the buf extension never occurs twice on the wire:    `strip_removes_exactly_8042`,
      `strip_identity_on_malformed`, `strip_result_has_no_8042` (proved), `strip_idempotent_partial`
      (proved from an explicit compositionality hypothesis, see there)
  (4) "written in any encoding and read back equals the original", "every packaging builds to the
      same image", "lint/breaking on the image = on the sources": `encodings_roundtrip_partial`
      states exactly what the model contributes (decode ∘ encode = id is a HYPOTHESIS on the
      library codec); the rest of (4) is exercised on the real binary by the harness (Part B).
-/
namespace BufProofs.C11
open BufModel.Path BufModel.ImagePaths BufProofs.ImagePathsLemmas BufProofs.WireLemmas

/-! ## (1) path targeting: image-level = module-level -/

/-- For every workspace (any number of modules, some possibly untargeted) whose full build
    succeeds, and every selection of normalised paths in which NO `--path` LIES INSIDE (or equals)
    AN `--exclude-path`: filtering the built image (`bufctl.filterImage` →
    `imageWithOnlyPaths … allowNotExist`) and building with module-level targeting
    (`getIsTargetFileForPathUncached` + `BuildImage`) either both fail with "no files"/"no
    targets", or both succeed with the same files carrying the same import flags and dependency
    lists; in particular the same non-imports.  (`Perm`: the two lists can be ordered
    differently, see `targeting_order_counterexample`.)  The files' extension bits (`File.ext`)
    are handed on unchanged by both sides of the MODEL — `build` does not compute them; with the
    bits as the compiler attaches them the statement is
    `extbits_targeting_equivalence_modulo_unused` (Props/C11ExtBits.lean). -/
theorem targeting_equivalence (ws : Workspace) (pths excl : List Str) (img : Image)
    (sc : SideConditions ws pths excl) (hfull : build ws = .ok img) :
    (∃ I M, filterImagePaths img pths excl = .ok I ∧
        build (withTargeting ws pths excl) = .ok M ∧ I.Perm M ∧
        (nonImports I).Perm (nonImports M)) ∨
    (filterImagePaths img pths excl = .error .noFiles ∧
        build (withTargeting ws pths excl) = .error .noTargets) := by
  rcases targeting_main sc hfull with ⟨I, M, hI, hM, hp⟩ | h
  · exact Or.inl ⟨I, M, hI, hM, hp, hp.filter _⟩
  · exact Or.inr h

/-- The DESIGN-level statement: all modules targeted. -/
theorem targeting_equivalence_all_targeted (ws : Workspace) (pths excl : List Str) (img : Image)
    (hall : ∀ m ∈ ws, m.isTarget = true)
    (hplain : Plain ws) (huniq : (paths (allFiles ws)).Nodup)
    (hfk : ∀ f ∈ allFiles ws, IsKey f.path) (hpk : ∀ p ∈ pths, IsKey p) (hek : ∀ e ∈ excl, IsKey e)
    (hpn : pths.Nodup) (hen : excl.Nodup) (hnd : ∀ p ∈ pths, p ≠ dot)
    (hside : ∀ p ∈ pths, ∀ e ∈ excl, equalsOrContainsPath e p = false)
    (hpf : ∀ f ∈ allFiles ws, ∀ g ∈ allFiles ws, equalsOrContainsPath f.path g.path = true → f.path = g.path)
    (hfull : build ws = .ok img) (I : Image) (hI : filterImagePaths img pths excl = .ok I) :
    ∃ M, build (withTargeting ws pths excl) = .ok M ∧ I.Perm M ∧ (nonImports I).Perm (nonImports M) := by
  have sc : SideConditions ws pths excl :=
    ⟨hplain, huniq, hfk, hpk, hek, hpn, hen, hnd, hside, hpf,
      fun m hm hmt => by rw [hall m hm] at hmt; cases hmt⟩
  rcases targeting_equivalence ws pths excl img sc hfull with ⟨I', M, hI', hM, hp, hn⟩ | ⟨hI', _⟩
  · rw [hI] at hI'; cases hI'
    exact ⟨M, hM, hp, hn⟩
  · rw [hI] at hI'; cases hI'

/-! ### concrete workspaces (non-vacuity and necessity of the hypotheses) -/

def k (l : List String) : Str := renderKey (l.map String.toList)

def src (p : Str) (deps : List Str) : File := { path := p, isImport := false, deps := deps }

def modOf (fs : List File) : Module := { isTarget := true, targetPaths := [], excludePaths := [], files := fs }

/-- Two modules: a/b/x.proto imports a/c.proto and the untargeted w/t.proto. -/
def exWs : Workspace :=
  [ modOf [src (k ["a", "b", "x.proto"]) [k ["a", "c.proto"], k ["w", "t.proto"]], src (k ["a", "c.proto"]) []],
    modOf [src (k ["d", "y.proto"]) [k ["a", "c.proto"]]],
    { isTarget := false, targetPaths := [], excludePaths := [], files := [src (k ["w", "t.proto"]) []] } ]

theorem isKey_k (l : List String) (h : AllProper (l.map String.toList)) : IsKey (k l) := ⟨_, h, rfl⟩

set_option maxRecDepth 100000 in
/-- The hypotheses of `targeting_equivalence` are satisfiable: `--path a --exclude-path a/b`
    (an exclude INSIDE a path is fine) on a three-module workspace. -/
example : SideConditions exWs [k ["a"]] [k ["a", "b"]] := by
  refine ⟨by unfold Plain; decide, by decide, ?_, ?_, ?_, by decide, by decide, by decide, by decide, by decide, by decide⟩
  · intro f hf
    simp only [exWs, allFiles, modOf, List.flatMap_cons, List.flatMap_nil, List.append_nil,
      List.cons_append, List.nil_append, List.mem_cons, List.not_mem_nil, or_false, src] at hf
    rcases hf with rfl | rfl | rfl | rfl
    · exact isKey_k ["a", "b", "x.proto"] (by unfold AllProper; decide)
    · exact isKey_k ["a", "c.proto"] (by unfold AllProper; decide)
    · exact isKey_k ["d", "y.proto"] (by unfold AllProper; decide)
    · exact isKey_k ["w", "t.proto"] (by unfold AllProper; decide)
  · intro p hp; simp at hp; subst hp; exact isKey_k ["a"] (by unfold AllProper; decide)
  · intro p hp; simp at hp; subst hp; exact isKey_k ["a", "b"] (by unfold AllProper; decide)

set_option maxRecDepth 100000 in
/-- … and on it both sides give a/c.proto as the only non-import. -/
example : (build exWs).toOption.bind (fun img => (filterImagePaths img [k ["a"]] [k ["a", "b"]]).toOption)
      = some [src (k ["a", "c.proto"]) []] ∧
    build (withTargeting exWs [k ["a"]] [k ["a", "b"]]) = .ok [src (k ["a", "c.proto"]) []] := by
  decide

set_option maxRecDepth 100000 in
/-- The side condition is needed: with `--path a/b --exclude-path a` (a path INSIDE an exclude
    path) the image keeps a/b/x.proto (`shouldExcludeFile` only drops a target path that contains
    the exclude path), while the module-level rule lets the exclude win: no target at all. -/
theorem targeting_divergence_example :
    (build exWs).toOption.bind (fun img => (filterImagePaths img [k ["a", "b"]] [k ["a"]]).toOption)
      = some [{ src (k ["a", "c.proto"]) [] with isImport := true },
              { src (k ["w", "t.proto"]) [] with isImport := true },
              src (k ["a", "b", "x.proto"]) [k ["a", "c.proto"], k ["w", "t.proto"]]] ∧
    build (withTargeting exWs [k ["a", "b"]] [k ["a"]]) = .error .noTargets := by
  decide

/-- x/a.proto imports y/c.proto; y/b.proto stands alone. -/
def exOrderWs : Workspace :=
  [ modOf [src (k ["x", "a.proto"]) [k ["y", "c.proto"]], src (k ["y", "b.proto"]) [], src (k ["y", "c.proto"]) []] ]

set_option maxRecDepth 100000 in
/-- Same files, different order: the image-level walk starts from the matching files in IMAGE
    order (y/c.proto was emitted early, as a dependency of x/a.proto), the module-level walk from
    the SORTED targets.  Both orders are topological. -/
theorem targeting_order_counterexample :
    (build exOrderWs).toOption.bind (fun img => (filterImagePaths img [k ["y"]] []).toOption)
      = some [src (k ["y", "c.proto"]) [], src (k ["y", "b.proto"]) []] ∧
    build (withTargeting exOrderWs [k ["y"]] []) = .ok [src (k ["y", "b.proto"]) [], src (k ["y", "c.proto"]) []] := by
  decide

/-- a.proto is both a file and a directory (impossible on disk, possible in an archive). -/
def exPrefixWs : Workspace :=
  [ modOf [src (k ["a.proto"]) [], src (k ["a.proto", "c.proto"]) []] ]

set_option maxRecDepth 100000 in
/-- Prefix-freeness is needed: `--path a.proto` is a direct hit for the image (only that file),
    but a containing path for the module (both files). -/
theorem prefix_free_needed_example :
    (build exPrefixWs).toOption.bind (fun img => (filterImagePaths img [k ["a.proto"]] []).toOption)
      = some [src (k ["a.proto"]) []] ∧
    build (withTargeting exPrefixWs [k ["a.proto"]] []) =
      .ok [src (k ["a.proto"]) [], src (k ["a.proto", "c.proto"]) []] := by
  decide

set_option maxRecDepth 100000 in
/-- The hypothesis on untargeted modules is needed: `--path w` turns the import w/t.proto into a
    non-import of the filtered image, while no source file under w is a target. -/
theorem import_hit_needed_example :
    (build exWs).toOption.bind (fun img => (filterImagePaths img [k ["w"]] []).toOption)
      = some [src (k ["w", "t.proto"]) []] ∧
    build (withTargeting exWs [k ["w"]] []) = .error .noTargets := by
  decide

/-! ## (2) image file <-> proto image file -/

/-- What `NewImageFile` / `NewImageForProto` guarantee about an image file: unused-dependency
    indexes are in range, a module name has non-empty parts without '/', a commit only comes with
    a name and is a non-nil lower-case dashless UUID. -/
def WFIFile (f : IFile) : Prop :=
  (∀ i ∈ f.unusedDeps, i < f.deps.length) ∧
  (∀ n, f.modName = some n →
    n.registry ≠ [] ∧ n.owner ≠ [] ∧ n.name ≠ [] ∧ '/' ∉ n.owner ∧ '/' ∉ n.name) ∧
  (f.modName = none → f.commit = none) ∧
  (∀ c, f.commit = some c → validDashless c = true ∧ c ≠ nilDashless ∧ c ≠ [] ∧ c.map Char.toLower = c)

/-- `NewImageForProto (ImageToProtoImage i) = i` per file: import flag, syntax-unspecified flag,
    unused-dependency indexes, module name and commit all survive the trip through the buf
    extension (field 8042); the descriptor's unknown bytes come back with a stray field 8042
    stripped (so the extension is never on the wire twice) and are otherwise untouched. -/
theorem protoImage_roundtrip (f : IFile) (h : WFIFile f) :
    toImage (toProto f) = .ok { f with unknown := stripBufExtensionField f.unknown } := by
  obtain ⟨hu, hn, hc0, hc⟩ := h
  obtain ⟨path, deps, payload, unknown, isImport, su, unused, modName, commit⟩ := f
  simp only at hu hn hc0 hc
  have hall : ∀ x ∈ unused, decide (x < deps.length) = true := by
    intro x hx; simpa using hu x hx
  cases modName with
  | none =>
    have := hc0 rfl; subst this
    simp [toImage, toProto]
    exact hall
  | some n =>
    obtain ⟨h1, h2, h3, h4, h5⟩ := hn n rfl
    cases commit with
    | none =>
      simp [toImage, toProto, h1, h2, h3, h4, h5]
      exact hall
    | some c =>
      obtain ⟨v1, v2, v3, v4⟩ := hc c rfl
      simp [toImage, toProto, h1, h2, h3, h4, h5, v1, v2, v3, v4]
      exact hall

/-- … in particular the exact identity when the unknown bytes hold no field 8042. -/
theorem protoImage_roundtrip_exact (f : IFile) (h : WFIFile f)
    (hs : stripBufExtensionField f.unknown = f.unknown) : toImage (toProto f) = .ok f := by
  rw [protoImage_roundtrip f h, hs]

def exIFile : IFile :=
  { path := "a/b.proto".toList, deps := ["x.proto".toList, "y.proto".toList], payload := "…".toList,
    unknown := [8, 1, 208, 246, 3, 5, 18, 1, 65], isImport := true, syntaxUnspecified := true,
    unusedDeps := [1], modName := some ⟨"buf.build".toList, "acme".toList, "m".toList⟩,
    commit := some "0123456789abcdef0123456789abcdef".toList }

set_option maxRecDepth 100000 in
/-- Non-vacuity: a well-formed file with module info, an unused dependency and unknown bytes
    `08 01 | d0 f6 03 05 (= field 8042, varint) | 12 01 41`. -/
example : WFIFile exIFile ∧
    toImage (toProto exIFile) = .ok { exIFile with unknown := [8, 1, 18, 1, 65] } := by
  refine ⟨⟨by decide, ?_, by decide, ?_⟩, by decide⟩
  · intro n hn; cases hn; decide
  · intro c hc; cases hc; decide

/-! ## (3) stripBufExtensionField -/

/-- On well-formed unknown-field bytes the result is exactly the top-level fields whose number is
    not 8042, byte for byte and in order — whatever their wire type (varint, fixed32, fixed64,
    bytes, group), and a field 8042 nested inside another field's payload or group is kept. -/
theorem strip_removes_exactly_8042 (u : Bytes) (fs : List Field) (h : parse u = some fs) :
    WireLemmas.render fs = u ∧
    stripBufExtensionField u = WireLemmas.render (fs.filter (fun f => f.num ≠ bufExtensionFieldNumber)) := by
  refine ⟨parseFields_render _ _ _ h, ?_⟩
  unfold stripBufExtensionField
  unfold parse at h
  rw [stripLoop_eq, h]
  simp [keep]

/-- Malformed bytes (truncated, reserved wire type, field number 0, unbalanced group, overlong
    varint, nesting deeper than protowire's limit) are returned unchanged. -/
theorem strip_identity_on_malformed (u : Bytes) (h : parse u = none) :
    stripBufExtensionField u = u := by
  unfold stripBufExtensionField
  unfold parse at h
  rw [stripLoop_eq, h]
  rfl

set_option maxRecDepth 100000 in
/-- Non-vacuity / wire types: 8042 as varint, fixed64, bytes, fixed32 and group is removed;
    field 8041, and an 8042 nested in group 1, stay. -/
example :
    stripBufExtensionField
      ([208, 246, 3, 7] ++ [209, 246, 3, 1, 2, 3, 4, 5, 6, 7, 8] ++ [200, 246, 3, 9] ++
       [210, 246, 3, 2, 65, 66] ++ [11, 208, 246, 3, 1, 12] ++ [213, 246, 3, 1, 2, 3, 4] ++
       [211, 246, 3, 8, 1, 212, 246, 3])
      = [200, 246, 3, 9] ++ [11, 208, 246, 3, 1, 12] ∧
    stripBufExtensionField [208, 246, 3] = [208, 246, 3] ∧          -- truncated value: unchanged
    stripBufExtensionField [208, 246, 3, 7, 14, 0] = [208, 246, 3, 7, 14, 0] := by  -- wire type 6
  decide

/-- Idempotence.  Unconditional for malformed input.  For well-formed input it is proved from
    `hcomp`: re-reading the concatenation of the kept fields yields those fields (the wire format
    is self-delimiting).  PARTIAL: `hcomp` itself — prefix-stability of `consumeTag` /
    `consumeFieldValue` on the model — is not proved here; the harness checks idempotence of the
    real function on every generated input (oracle class `C11-strip-not-idempotent`). -/
theorem strip_idempotent_partial (u : Bytes)
    (hcomp : ∀ fs, parse u = some fs → parse (WireLemmas.render (keep fs)) = some (keep fs)) :
    stripBufExtensionField (stripBufExtensionField u) = stripBufExtensionField u := by
  cases h : parse u with
  | none => rw [strip_identity_on_malformed u h, strip_identity_on_malformed u h]
  | some fs =>
    obtain ⟨_, h2⟩ := strip_removes_exactly_8042 u fs h
    have hk : stripBufExtensionField u = WireLemmas.render (keep fs) := h2
    rw [hk]
    obtain ⟨_, h3⟩ := strip_removes_exactly_8042 _ _ (hcomp fs h)
    rw [h3]
    congr 1
    unfold keep
    rw [List.filter_filter]
    simp

/-- The result of stripping a well-formed input holds no top-level field 8042 (as a field list). -/
theorem strip_result_has_no_8042 (u : Bytes) (fs : List Field) (h : parse u = some fs) :
    ∃ gs, stripBufExtensionField u = WireLemmas.render gs ∧ gs.Sublist fs ∧
      ∀ g ∈ gs, g.num ≠ bufExtensionFieldNumber := by
  refine ⟨keep fs, (strip_removes_exactly_8042 u fs h).2, List.filter_sublist, ?_⟩
  intro g hg
  simpa [keep] using (List.mem_filter.mp hg).2

/-! ## (4) encodings — what is a parameter -/

/-- PARTIAL (by design, DESIGN §6/§8): the encoders/decoders (protobuf-go wire / JSON / text,
    protoyaml, gzip, zstd) are LIBRARY PARAMETERS.  Given a codec satisfying the round-trip law
    `dec (enc p) = some p` on proto images, an image written and read back is the original image
    (with stray 8042 bytes stripped).  That the real codecs satisfy the law — including the
    two-pass re-parse of custom options — is not proved; the harness exercises it through the real
    binary for every format x compression x flag set, and found the YAML first pass violating it
    (fix in handoff/C11-yaml-image-bootstrap-discard-unknown.diff). -/
theorem encodings_roundtrip_partial {α : Type} (enc : List PFile → α) (dec : α → Option (List PFile))
    (hlaw : ∀ p, dec (enc p) = some p) (img : List IFile) (hwf : ∀ f ∈ img, WFIFile f) :
    ∃ ps, dec (enc (img.map toProto)) = some ps ∧
      ps.map toImage = img.map (fun f => .ok { f with unknown := stripBufExtensionField f.unknown }) := by
  refine ⟨img.map toProto, hlaw _, ?_⟩
  rw [List.map_map]
  apply List.map_congr_left
  intro f hf
  exact protoImage_roundtrip f (hwf f hf)

end BufProofs.C11
