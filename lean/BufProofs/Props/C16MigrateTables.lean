import BufProofs.Lemmas.MigrateRulesSpec
/-
  C16 migration theorems, part "facts about the REGENERATED rule tables" (kernel evaluation; own
  file so that lake builds it in parallel with the witnesses and caches it while the tables do not
  change).
-/
namespace BufProofs.C16
open BufModel.Path BufModel.Rules BufModel.MigrateRules BufGen.RuleTables

/-- The rules without a v2 counterpart, on the regenerated tables: a non-deprecated rule of
    v1beta1 / v1 that v2 does not have is the v1beta1 lint rule FIELD_NO_DESCRIPTOR. -/
theorem rules_without_v2_counterpart : ∀ (v : Version), v ≠ .v2 → ∀ (lint : Bool),
    ∀ r ∈ oldRules v lint, r.deprecated = false → hasV2Counterpart lint r.id = false →
      v = .v1beta1 ∧ lint = true ∧ r.id = "FIELD_NO_DESCRIPTOR" := by
  intro v hv lint
  cases v with
  | v2 => exact absurd rfl hv
  | v1beta1 => cases lint <;> decide +kernel
  | v1 => cases lint <;> decide +kernel

/-- On the regenerated tables: every id a configuration can name (rule ids — deprecated or not,
    with or without a v2 counterpart —, categories, the empty id) is translated faithfully
    EXCEPT the `driftingCategories`; in particular every v1 breaking key is. -/
theorem unfaithful_keys_are_drifting_categories : ∀ (v : Version), v ≠ .v2 → ∀ (lint : Bool),
    keyFaithful v lint "" = true ∧
    ∀ k ∈ idUniverse (oldRules v lint), keyFaithful v lint k = false ↔ k ∈ driftingCategories v lint := by
  intro v hv lint
  cases v with
  | v2 => exact absurd rfl hv
  | v1beta1 => cases lint <;> decide +kernel
  | v1 => cases lint <;> decide +kernel

/-- Rule ids are unique within a version and rule type (regenerated tables). -/
theorem tables_ids_unique : ∀ (v : Version), v ≠ .v2 → ∀ (lint : Bool),
    ∀ a ∈ oldRules v lint, ∀ b ∈ oldRules v lint, a.id = b.id → a = b := by
  intro v hv lint
  cases v with
  | v2 => exact absurd rfl hv
  | v1beta1 => cases lint <;> decide +kernel
  | v1 => cases lint <;> decide +kernel

end BufProofs.C16
