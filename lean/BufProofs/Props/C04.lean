import BufProofs.Lemmas.BreakingAdditive
/-
  C04 — Compatible changes are never reported and breaking categories are ordered.
  Property theorems only (helper lemmas: BufProofs/Lemmas/Breaking*.lean).  The model is
  BufModel/Breaking.lean; rule → category membership and the compatibility groups are the
  REGENERATED BufGen/BreakingTables.lean, so the `decide`s below are re-run against /repo's tables.
-/
namespace BufProofs.C04
open BufModel.Schema BufModel.Breaking BufProofs.Breaking

/-- Comparing a schema with itself reports nothing, in every category and config version.
    `WF` = the uniqueness of file paths / full names / field numbers / method names that a compiled
    image has (the Go map builders return an error otherwise). -/
theorem self_clean (v : Ver) (cat : String) (s : Schema) (hw : WF s) : check v cat s s = [] := by
  unfold check
  exact flatMap_nil _ _ fun id _ => runRule_nil hw (SchemaExt.refl s).flat id

/-- A version that only adds things (new files, messages, enums, services, RPCs, oneofs, reserved
    ranges and names, enum values with fresh numbers, non-required fields with fresh numbers) reports
    nothing in any category and config version.  Proved through "the handlers iterate over the
    PREVIOUS schema only": every previous element has an only-extended counterpart. -/
theorem additive_clean (v : Ver) (cat : String) (prev cur : Schema) (hw : WF cur) (h : prev ⊑ₐ cur) :
    check v cat cur prev = [] := by
  unfold check
  exact flatMap_nil _ _ fun id _ => runRule_nil hw h.flat id

/-- `⊑ₐ` is reflexive and closed under composition, so in a chain S₀ → S₁ → … → Sₙ of additive
    edits every Sᵢ compared against every earlier Sⱼ is clean. -/
theorem additive_refl (s : Schema) : s ⊑ₐ s := SchemaExt.refl s

theorem additive_trans (a b c : Schema) (h1 : a ⊑ₐ b) (h2 : b ⊑ₐ c) : a ⊑ₐ c := SchemaExt.trans h1 h2

/-- Cosmetic edits.  Comments, whitespace and positions are not part of the schema datatype at all;
    the only source-text dependent component is `locs` (which source paths have a location), and
    `⊑ₐ` does not look at it — nor at the ORDER of declarations, since it is stated by membership.
    So a re-commented / reformatted / re-located copy is an only-adds extension, hence clean. -/
theorem cosmetic_relocate (s : Schema) (g : File → List SPath) :
    s ⊑ₐ s.map fun f => { f with locs := g f } := by
  intro f hf
  refine ⟨{ f with locs := g f }, List.mem_map.2 ⟨f, hf, rfl⟩, ⟨rfl, rfl, rfl, rfl, ?_, ?_, fun _ h => h, ?_⟩⟩
  · exact MsgsExt_of_forall _ _ fun n hn => ⟨n, hn, MsgExt.refl n⟩
  · intro e he; exact ⟨e, he, rfl, EnumExt.refl e⟩
  · intro sv hs; exact ⟨sv, hs, SvcExt.refl sv⟩

theorem cosmetic_clean (v : Ver) (cat : String) (s : Schema) (g : File → List SPath)
    (hw : WF (s.map fun f => { f with locs := g f })) :
    check v cat (s.map fun f => { f with locs := g f }) s = [] :=
  additive_clean v cat s _ hw (cosmetic_relocate s g)

/-- a chain S₀ → S₁ → … of additive edits -/
def AddChain : Schema → List Schema → Prop
  | _, [] => True
  | a, b :: rest => a ⊑ₐ b ∧ AddChain b rest

theorem chain_all (a : Schema) : ∀ (rest : List Schema), AddChain a rest → ∀ s ∈ rest, a ⊑ₐ s
  | [], _, s, hs => by cases hs
  | b :: rest, h, s, hs => by
    rw [AddChain] at h
    rcases List.mem_cons.1 hs with rfl | hs'
    · exact h.1
    · exact SchemaExt.trans h.1 (chain_all b rest h.2 s hs')

/-- In a chain of additive edits every version is an only-adds extension of every EARLIER one … -/
theorem additive_chain_pairwise : ∀ (s0 : Schema) (chain : List Schema), AddChain s0 chain →
    List.Pairwise (· ⊑ₐ ·) (s0 :: chain)
  | s0, [], _ => List.pairwise_singleton _ _
  | s0, b :: rest, h => by
    refine List.pairwise_cons.2 ⟨fun s hs => chain_all s0 _ h s hs, ?_⟩
    rw [AddChain] at h
    exact additive_chain_pairwise b rest h.2

/-- … hence comparing any later version of the chain against any earlier one is clean. -/
theorem additive_chain_clean (v : Ver) (cat : String) (s0 : Schema) (chain : List Schema)
    (hc : AddChain s0 chain) (hw : ∀ s ∈ s0 :: chain, WF s) :
    List.Pairwise (fun earlier later => check v cat later earlier = []) (s0 :: chain) := by
  have hp := additive_chain_pairwise s0 chain hc
  have hp' : List.Pairwise (fun earlier later => later ∈ s0 :: chain ∧ earlier ⊑ₐ later) (s0 :: chain) := by
    refine List.Pairwise.imp_of_mem (fun {a b} _ hb hab => ⟨hb, hab⟩) hp
  exact hp'.imp fun {a b} hab => additive_clean v cat a b (hw b hab.1) hab.2

/-! ### category order -/

/-- the rules whose report is implied by a report of the given rule -/
def implies : String → List String
  | "PACKAGE_ENUM_NO_DELETE" => ["FILE_NO_DELETE", "ENUM_NO_DELETE", "FILE_SAME_PACKAGE"]
  | "PACKAGE_EXTENSION_NO_DELETE" => ["FILE_NO_DELETE", "EXTENSION_NO_DELETE", "FILE_SAME_PACKAGE"]
  | "PACKAGE_MESSAGE_NO_DELETE" => ["FILE_NO_DELETE", "MESSAGE_NO_DELETE", "FILE_SAME_PACKAGE"]
  | "PACKAGE_SERVICE_NO_DELETE" => ["FILE_NO_DELETE", "SERVICE_NO_DELETE", "FILE_SAME_PACKAGE"]
  | "PACKAGE_NO_DELETE" => ["FILE_NO_DELETE", "FILE_SAME_PACKAGE"]
  | "ENUM_VALUE_NO_DELETE_UNLESS_NAME_RESERVED" => ["ENUM_VALUE_NO_DELETE"]
  | "ENUM_VALUE_NO_DELETE_UNLESS_NUMBER_RESERVED" => ["ENUM_VALUE_NO_DELETE"]
  | "FIELD_NO_DELETE_UNLESS_NAME_RESERVED" => ["FIELD_NO_DELETE"]
  | "FIELD_NO_DELETE_UNLESS_NUMBER_RESERVED" => ["FIELD_NO_DELETE"]
  | "FIELD_WIRE_JSON_COMPATIBLE_CARDINALITY" => ["FIELD_SAME_CARDINALITY"]
  | "FIELD_WIRE_COMPATIBLE_CARDINALITY" => ["FIELD_WIRE_JSON_COMPATIBLE_CARDINALITY"]
  | "FIELD_WIRE_JSON_COMPATIBLE_TYPE" => ["FIELD_SAME_TYPE"]
  | "FIELD_WIRE_COMPATIBLE_TYPE" => ["FIELD_WIRE_JSON_COMPATIBLE_TYPE"]
  | _ => []

/-- regenerated tables: kinds in one wire+JSON group are in one wire group -/
theorem kind_groups_refine : (Kind.all.all fun a => Kind.all.all fun b =>
    (a.wireGroup == b.wireGroup) || (a.wireJsonGroup != b.wireJsonGroup)) = true := by decide

/-- regenerated tables: cardinalities in one wire+JSON group are in one wire group -/
theorem card_groups_refine : (Card.all.all fun a => Card.all.all fun b =>
    (a.wireGroup == b.wireGroup) || (a.wireJsonGroup != b.wireJsonGroup)) = true := by decide

theorem kind_refine (a b : Kind) (h : a.wireGroup ≠ b.wireGroup) : a.wireJsonGroup ≠ b.wireJsonGroup := by
  have := List.all_eq_true.1 (List.all_eq_true.1 kind_groups_refine a (Kind.mem_all a)) b (Kind.mem_all b)
  simp at this
  rcases this with h1 | h1
  · exact absurd h1 h
  · exact h1

theorem card_refine (a b : Card) (h : a.wireGroup ≠ b.wireGroup) : a.wireJsonGroup ≠ b.wireJsonGroup := by
  have := List.all_eq_true.1 (List.all_eq_true.1 card_groups_refine a (Card.mem_all a)) b (Card.mem_all b)
  simp at this
  rcases this with h1 | h1
  · exact absurd h1 h
  · exact h1

/-- Per-rule implication: whenever a rule with a non-empty `implies` list reports something on ANY
    pair of schemas, one of the listed rules reports something as well.
    (`KindsOK cur`: protoreflect's Kind() equals the declared Type() except delimited messages.) -/
theorem implies_sound (id : String) (cur prev : Schema) (hk : KindsOK cur)
    (h : runRule id cur prev ≠ []) (hne : implies id ≠ []) : ∃ j ∈ implies id, runRule j cur prev ≠ [] := by
  unfold implies at hne ⊢
  split at hne <;> simp only [List.mem_cons, List.not_mem_nil, or_false, exists_eq_or_imp, exists_eq_left]
  · rcases package_enum_implied cur prev h with h1 | h1 | h1
    · exact Or.inl h1
    · exact Or.inr (Or.inl h1)
    · exact Or.inr (Or.inr h1)
  · rcases package_extension_implied cur prev h with h1 | h1 | h1
    · exact Or.inl h1
    · exact Or.inr (Or.inl h1)
    · exact Or.inr (Or.inr h1)
  · rcases package_message_implied cur prev h with h1 | h1 | h1
    · exact Or.inl h1
    · exact Or.inr (Or.inl h1)
    · exact Or.inr (Or.inr h1)
  · rcases package_service_implied cur prev h with h1 | h1 | h1
    · exact Or.inl h1
    · exact Or.inr (Or.inl h1)
    · exact Or.inr (Or.inr h1)
  · rcases package_implied cur prev h with h1 | h1
    · exact Or.inl h1
    · exact Or.inr h1
  · exact enum_value_no_delete_implied _ _ _ cur prev h
  · exact enum_value_no_delete_implied _ _ _ cur prev h
  · exact field_no_delete_implied _ _ _ cur prev h
  · exact field_no_delete_implied _ _ _ cur prev h
  · exact card_implied _ _ Card.wireJsonGroup (fun c => c.ctorIdx)
      (fun a b hab hidx => hab (by cases a <;> cases b <;> first | rfl | cases hidx)) cur prev h
  · exact card_implied _ _ Card.wireGroup Card.wireJsonGroup card_refine cur prev h
  · exact wire_json_type_implied cur prev hk h
  · exact wire_type_implied cur prev hk kind_refine h
  · exact absurd rfl hne

/-- every rule of the laxer category is in the stricter one or all rules it is implied by are -/
def tableOk (v : Ver) (strict lax : String) : Bool :=
  (rulesOf v lax).all fun id =>
    (rulesOf v strict).contains id ||
      (!(implies id).isEmpty && (implies id).all fun j => (rulesOf v strict).contains j)

/-- the regenerated rule → category tables of all three config versions respect the order -/
theorem tables_ordered :
    ([Ver.v1beta1, Ver.v1, Ver.v2].all fun v =>
      tableOk v "FILE" "PACKAGE" && tableOk v "PACKAGE" "WIRE_JSON" && tableOk v "WIRE_JSON" "WIRE") = true := by
  decide

theorem step (v : Ver) (strict lax : String) (hok : tableOk v strict lax = true) (cur prev : Schema)
    (hk : KindsOK cur) (h : check v strict cur prev = []) : check v lax cur prev = [] := by
  unfold check at h ⊢
  apply flatMap_nil
  intro id hid
  have hstrict : ∀ j ∈ rulesOf v strict, runRule j cur prev = [] := List.flatMap_eq_nil_iff.1 h
  have := List.all_eq_true.1 hok id hid
  simp only [Bool.or_eq_true, Bool.and_eq_true, List.contains_iff_mem, Bool.not_eq_true',
    List.isEmpty_eq_false_iff, List.all_eq_true] at this
  rcases this with hin | ⟨hne, hall⟩
  · exact hstrict id hin
  · by_cases hnil : runRule id cur prev = []
    · exact hnil
    · obtain ⟨j, hj, hjne⟩ := implies_sound id cur prev hk hnil hne
      exact absurd (hstrict j (hall j hj)) hjne

/-- FILE clean ⇒ PACKAGE clean ⇒ WIRE_JSON clean ⇒ WIRE clean, for ALL pairs of schemas (also
    arbitrarily breaking ones) and all three config versions. -/
theorem hierarchy (v : Ver) (cur prev : Schema) (hk : KindsOK cur) :
    (check v "FILE" cur prev = [] → check v "PACKAGE" cur prev = []) ∧
    (check v "PACKAGE" cur prev = [] → check v "WIRE_JSON" cur prev = []) ∧
    (check v "WIRE_JSON" cur prev = [] → check v "WIRE" cur prev = []) := by
  have ht := tables_ordered
  simp only [List.all_cons, List.all_nil, Bool.and_true, Bool.and_eq_true] at ht
  cases v
  · exact ⟨step _ _ _ ht.1.1.1 cur prev hk, step _ _ _ ht.1.1.2 cur prev hk, step _ _ _ ht.1.2 cur prev hk⟩
  · exact ⟨step _ _ _ ht.2.1.1.1 cur prev hk, step _ _ _ ht.2.1.1.2 cur prev hk, step _ _ _ ht.2.1.2 cur prev hk⟩
  · exact ⟨step _ _ _ ht.2.2.1.1 cur prev hk, step _ _ _ ht.2.2.1.2 cur prev hk, step _ _ _ ht.2.2.2 cur prev hk⟩

/-! ### non-vacuity -/

def exEnum : Enum :=
  { name := "E", values := [⟨"E_0", 0⟩], reservedRanges := [], reservedNames := [], closed := false,
    jsonAllow := true }
def exMsg (name : String) : MsgInfo :=
  { name := name, fields := [], extensions := [], enums := [], oneofs := [], reservedRanges := [],
    reservedNames := [], extRanges := [], messageSet := false, noStdAccessor := false, jsonAllow := true,
    mapEntry := false }
def exFile (msgs : List Msg) (enums : List Enum) : File :=
  { path := "a.proto", pkg := ["p"], syn := .proto3, opts := [], locs := [[4, 0], [4, 1], [5, 0]],
    messages := msgs, enums := enums, services := [], extensions := [] }
/-- S₀: message M and enum E;  S₁: adds message N;  D: deletes enum E -/
def exS0 : Schema := [exFile [.mk (exMsg "M") []] [exEnum]]
def exS1 : Schema := [exFile [.mk (exMsg "M") [], .mk (exMsg "N") []] [exEnum]]
def exD : Schema := [exFile [.mk (exMsg "M") []] []]

example : WF exS1 := by constructor <;> decide
example : exS0 ⊑ₐ exS1 := by
  intro pf hpf
  simp only [exS0, List.mem_singleton] at hpf
  subst hpf
  refine ⟨_, List.mem_singleton.2 rfl, ⟨rfl, rfl, rfl, rfl, ?_, ?_, fun _ h => h, fun _ h => by cases h⟩⟩
  · exact MsgsExt_of_forall _ _ fun n hn => by
      simp only [exFile, List.mem_singleton] at hn
      subst hn
      exact ⟨_, List.mem_cons_self, MsgExt.refl _⟩
  · intro e he; exact ⟨e, he, rfl, EnumExt.refl e⟩
/-- the hierarchy is not trivially true: deleting the enum is reported under FILE and PACKAGE
    but the comparison is clean under WIRE_JSON and WIRE -/
example : check .v2 "FILE" exD exS0 = [⟨"ENUM_NO_DELETE", "a.proto", []⟩] ∧
    check .v2 "PACKAGE" exD exS0 = [⟨"PACKAGE_ENUM_NO_DELETE", "a.proto", []⟩] ∧
    check .v2 "WIRE_JSON" exD exS0 = [] ∧ check .v2 "WIRE" exD exS0 = [] := by decide
example : check .v1 "FILE" exS1 exS0 = [] := by decide

end BufProofs.C04
