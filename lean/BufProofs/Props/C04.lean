import BufProofs.Lemmas.BreakingWitness
import BufProofs.Lemmas.BreakingImports
/-
  C04 — Compatible changes are never reported and breaking categories are ordered.
  Property theorems only (helper lemmas: BufProofs/Lemmas/Breaking*.lean).  The model is
  BufModel/Breaking.lean; rule → category membership and the compatibility groups are the
  REGENERATED BufGen/BreakingTables.lean, so the `decide`s below are re-run against /repo's tables.

  `additive_clean` is stated for the relation `⊑ₐ` on the model datatype (its doc comment says exactly
  what that is and which source-level edits it does and does not cover); `additive_edits_clean` is the
  same statement for sequences of the additive EDIT OPERATORS of Lemmas/BreakingEdits.lean;
  `additive_first_enum_value_counterexample` is the source-additive edit that is NOT covered and that
  buf does report.  Non-vacuity: the chain `W.aS0 → W.aS1 → W.aS2` and the pairs `W.aDel`,
  `W.wPrev → W.wCur` of Lemmas/BreakingWitness.lean; hypotheses are established by the executable
  checkers `wfB`, `schemaExtB`, `kindsOkB` through their soundness theorems
  (`WF_of_wfB`, `schemaExtB_sound`, `KindsOK_of_kindsOkB`, Lemmas/BreakingDecide.lean).
-/
namespace BufProofs.C04
open BufModel.Schema BufModel.Breaking BufProofs.Breaking

/-- Comparing a schema with itself reports nothing, in every category and config version.
    `WF` = the uniqueness of file paths / full names / field numbers / method names that a compiled
    image has (the Go map builders return an error otherwise). -/
theorem self_clean (v : Ver) (cat : String) (s : Schema) (hw : WF s) : check v cat s s = [] := by
  unfold check
  exact flatMap_nil _ _ fun id _ => runRule_nil hw (SchemaExt.refl s).flat id

/-- A version that only adds things reports nothing in any category and config version.

    WHAT `prev ⊑ₐ cur` SAYS (Lemmas/BreakingAdditive.lean, `SchemaExt` / `FileExt` / `MsgExt`,
    Lemmas/BreakingClean.lean `InfoExt` / `EnumExt` / `SvcExt`).  It is a relation on the MODEL
    datatype — the descriptors as bufprotosource / protoreflect present them to the rule handlers,
    DERIVED facts included — not on `.proto` source text.  Every previous file has a current file
    with the same path, package, syntax and tracked option values in which
    * every previous message, at any depth, has a same-named counterpart under the counterpart of
      its parent, whose previous FIELD RECORDS are all still present UNCHANGED — number, name, JSON
      name, label, type, resolved kind, type name, oneof, presence, jstype and also the resolved
      `features.utf8_validation` and the resolved `Default()` —, whose other fields have fresh
      numbers and are not `required`; previous oneofs (by name), reserved ranges / names, extension
      ranges and nested extensions are still there; `no_standard_descriptor_accessor` and the
      resolved JSON format are unchanged;
    * every previous enum has a same-named counterpart with the same closedness and JSON format
      that still has every previous (name, number) value, reserved range and reserved name;
    * every previous service has a same-named counterpart with every previous method unchanged;
    * declaration ORDER is free everywhere (all clauses are by membership), new elements may be
      inserted anywhere.
    SOURCE-LEVEL edits this covers: adding files, messages (any depth), enums, services, RPCs,
    oneofs, non-required fields with fresh numbers (also as new members of an existing oneof),
    reserved ranges / names, extension ranges, extensions, enum values and aliases — PROVIDED the
    edit leaves every derived fact of every old element as it was.
    SOURCE-LEVEL additive edits it does NOT cover, because they change a derived fact of an old field:
    inserting a new FIRST value into a CLOSED (proto2 / editions `enum_type = CLOSED`) enum changes
    `Default()` of every optional field of that enum type without an explicit default — the old
    field record is no longer a member of the new message, `⊑ₐ` fails, and buf v2 really reports
    FIELD_SAME_DEFAULT in all four categories: `additive_first_enum_value_counterexample`.
    (Appending the value, or inserting it first into an OPEN enum whose first value stays 0, is
    covered.)  Covered although arguably breaking: adding an editions field with
    `features.field_presence = LEGACY_REQUIRED` — its proto label stays `optional`, buf's
    MESSAGE_SAME_REQUIRED_FIELDS reads the label and is silent, and the model follows the code.

    Proved through "the handlers iterate over the PREVIOUS schema only": every previous element has
    an only-extended counterpart. -/
theorem additive_clean (v : Ver) (cat : String) (prev cur : Schema) (hw : WF cur) (h : prev ⊑ₐ cur) :
    check v cat cur prev = [] := by
  unfold check
  exact flatMap_nil _ _ fun id _ => runRule_nil hw h.flat id

/-- The same statement on EDIT OPERATORS: any sequence of the additive operators of
    Lemmas/BreakingEdits.lean (`SchemaEdit`: add a file / top-level or nested message / enum / service /
    extension / RPC / oneof / non-required field with a fresh number / enum value or alias / reserved
    range or name / extension range, at any list position and any nesting depth; re-locate) applied to
    `prev` yields a version that is clean against `prev` in every category and config version. -/
theorem additive_edits_clean (v : Ver) (cat : String) (prev cur : Schema) (hw : WF cur)
    (h : SchemaEdits prev cur) : check v cat cur prev = [] :=
  additive_clean v cat prev cur hw h.sound

/-- `⊑ₐ` is reflexive and closed under composition, so in a chain S₀ → S₁ → … → Sₙ of additive
    edits every Sᵢ compared against every earlier Sⱼ is clean. -/
theorem additive_refl (s : Schema) : s ⊑ₐ s := SchemaExt.refl s

theorem additive_trans (a b c : Schema) (h1 : a ⊑ₐ b) (h2 : b ⊑ₐ c) : a ⊑ₐ c := SchemaExt.trans h1 h2

/-- Cosmetic edits.  Comments, whitespace and positions are not part of the schema datatype at all;
    the only source-text dependent component is `locs` (which source paths have a location), and
    `⊑ₐ` does not look at it — nor at the ORDER of declarations, since it is stated by membership.
    So a re-commented / reformatted / re-located copy is an only-adds extension, hence clean. -/
theorem cosmetic_relocate (s : Schema) (g : File → List SPath) :
    s ⊑ₐ s.map fun f => { f with locs := g f } := by
  intro f hf
  refine ⟨{ f with locs := g f }, List.mem_map.2 ⟨f, hf, rfl⟩, ⟨rfl, rfl, rfl, rfl, ?_, ?_, fun _ h => h, ?_⟩⟩
  · exact MsgsExt_of_forall _ _ fun n hn => ⟨n, hn, MsgExt.refl n⟩
  · intro e he; exact ⟨e, he, rfl, EnumExt.refl e⟩
  · intro sv hs; exact ⟨sv, hs, SvcExt.refl sv⟩

theorem cosmetic_clean (v : Ver) (cat : String) (s : Schema) (g : File → List SPath)
    (hw : WF (s.map fun f => { f with locs := g f })) :
    check v cat (s.map fun f => { f with locs := g f }) s = [] :=
  additive_clean v cat s _ hw (cosmetic_relocate s g)

/-- a chain S₀ → S₁ → … of additive edits -/
def AddChain : Schema → List Schema → Prop
  | _, [] => True
  | a, b :: rest => a ⊑ₐ b ∧ AddChain b rest

theorem chain_all (a : Schema) : ∀ (rest : List Schema), AddChain a rest → ∀ s ∈ rest, a ⊑ₐ s
  | [], _, s, hs => by cases hs
  | b :: rest, h, s, hs => by
    rw [AddChain] at h
    rcases List.mem_cons.1 hs with rfl | hs'
    · exact h.1
    · exact SchemaExt.trans h.1 (chain_all b rest h.2 s hs')

/-- In a chain of additive edits every version is an only-adds extension of every EARLIER one … -/
theorem additive_chain_pairwise : ∀ (s0 : Schema) (chain : List Schema), AddChain s0 chain →
    List.Pairwise (· ⊑ₐ ·) (s0 :: chain)
  | s0, [], _ => List.pairwise_singleton _ _
  | s0, b :: rest, h => by
    refine List.pairwise_cons.2 ⟨fun s hs => chain_all s0 _ h s hs, ?_⟩
    rw [AddChain] at h
    exact additive_chain_pairwise b rest h.2

/-- … hence comparing any later version of the chain against any earlier one is clean. -/
theorem additive_chain_clean (v : Ver) (cat : String) (s0 : Schema) (chain : List Schema)
    (hc : AddChain s0 chain) (hw : ∀ s ∈ s0 :: chain, WF s) :
    List.Pairwise (fun earlier later => check v cat later earlier = []) (s0 :: chain) := by
  have hp := additive_chain_pairwise s0 chain hc
  have hp' : List.Pairwise (fun earlier later => later ∈ s0 :: chain ∧ earlier ⊑ₐ later) (s0 :: chain) := by
    refine List.Pairwise.imp_of_mem (fun {a b} _ hb hab => ⟨hb, hab⟩) hp
  exact hp'.imp fun {a b} hab => additive_clean v cat a b (hw b hab.1) hab.2

/-! ### category order -/

/-- the rules whose report is implied by a report of the given rule -/
def implies : String → List String
  | "PACKAGE_ENUM_NO_DELETE" => ["FILE_NO_DELETE", "ENUM_NO_DELETE", "FILE_SAME_PACKAGE"]
  | "PACKAGE_EXTENSION_NO_DELETE" => ["FILE_NO_DELETE", "EXTENSION_NO_DELETE", "FILE_SAME_PACKAGE"]
  | "PACKAGE_MESSAGE_NO_DELETE" => ["FILE_NO_DELETE", "MESSAGE_NO_DELETE", "FILE_SAME_PACKAGE"]
  | "PACKAGE_SERVICE_NO_DELETE" => ["FILE_NO_DELETE", "SERVICE_NO_DELETE", "FILE_SAME_PACKAGE"]
  | "PACKAGE_NO_DELETE" => ["FILE_NO_DELETE", "FILE_SAME_PACKAGE"]
  | "ENUM_VALUE_NO_DELETE_UNLESS_NAME_RESERVED" => ["ENUM_VALUE_NO_DELETE"]
  | "ENUM_VALUE_NO_DELETE_UNLESS_NUMBER_RESERVED" => ["ENUM_VALUE_NO_DELETE"]
  | "FIELD_NO_DELETE_UNLESS_NAME_RESERVED" => ["FIELD_NO_DELETE"]
  | "FIELD_NO_DELETE_UNLESS_NUMBER_RESERVED" => ["FIELD_NO_DELETE"]
  | "FIELD_WIRE_JSON_COMPATIBLE_CARDINALITY" => ["FIELD_SAME_CARDINALITY"]
  | "FIELD_WIRE_COMPATIBLE_CARDINALITY" => ["FIELD_WIRE_JSON_COMPATIBLE_CARDINALITY"]
  | "FIELD_WIRE_JSON_COMPATIBLE_TYPE" => ["FIELD_SAME_TYPE"]
  | "FIELD_WIRE_COMPATIBLE_TYPE" => ["FIELD_WIRE_JSON_COMPATIBLE_TYPE"]
  | _ => []

/-- regenerated tables: kinds in one wire+JSON group are in one wire group -/
theorem kind_groups_refine : (Kind.all.all fun a => Kind.all.all fun b =>
    (a.wireGroup == b.wireGroup) || (a.wireJsonGroup != b.wireJsonGroup)) = true := by decide

/-- regenerated tables: cardinalities in one wire+JSON group are in one wire group -/
theorem card_groups_refine : (Card.all.all fun a => Card.all.all fun b =>
    (a.wireGroup == b.wireGroup) || (a.wireJsonGroup != b.wireJsonGroup)) = true := by decide

theorem kind_refine (a b : Kind) (h : a.wireGroup ≠ b.wireGroup) : a.wireJsonGroup ≠ b.wireJsonGroup := by
  have := List.all_eq_true.1 (List.all_eq_true.1 kind_groups_refine a (Kind.mem_all a)) b (Kind.mem_all b)
  simp at this
  rcases this with h1 | h1
  · exact absurd h1 h
  · exact h1

theorem card_refine (a b : Card) (h : a.wireGroup ≠ b.wireGroup) : a.wireJsonGroup ≠ b.wireJsonGroup := by
  have := List.all_eq_true.1 (List.all_eq_true.1 card_groups_refine a (Card.mem_all a)) b (Card.mem_all b)
  simp at this
  rcases this with h1 | h1
  · exact absurd h1 h
  · exact h1

/-- Per-rule implication: whenever a rule with a non-empty `implies` list reports something on ANY
    pair of schemas, one of the listed rules reports something as well.
    (`KindsOK cur`: protoreflect's Kind() equals the declared Type() except delimited messages.) -/
theorem implies_sound (id : String) (cur prev : Schema) (hk : KindsOK cur)
    (h : runRule id cur prev ≠ []) (hne : implies id ≠ []) : ∃ j ∈ implies id, runRule j cur prev ≠ [] := by
  unfold implies at hne ⊢
  split at hne <;> simp only [List.mem_cons, List.not_mem_nil, or_false, exists_eq_or_imp, exists_eq_left]
  · rcases package_enum_implied cur prev h with h1 | h1 | h1
    · exact Or.inl h1
    · exact Or.inr (Or.inl h1)
    · exact Or.inr (Or.inr h1)
  · rcases package_extension_implied cur prev h with h1 | h1 | h1
    · exact Or.inl h1
    · exact Or.inr (Or.inl h1)
    · exact Or.inr (Or.inr h1)
  · rcases package_message_implied cur prev h with h1 | h1 | h1
    · exact Or.inl h1
    · exact Or.inr (Or.inl h1)
    · exact Or.inr (Or.inr h1)
  · rcases package_service_implied cur prev h with h1 | h1 | h1
    · exact Or.inl h1
    · exact Or.inr (Or.inl h1)
    · exact Or.inr (Or.inr h1)
  · rcases package_implied cur prev h with h1 | h1
    · exact Or.inl h1
    · exact Or.inr h1
  · exact enum_value_no_delete_implied _ _ _ cur prev h
  · exact enum_value_no_delete_implied _ _ _ cur prev h
  · exact field_no_delete_implied _ _ _ cur prev h
  · exact field_no_delete_implied _ _ _ cur prev h
  · exact card_implied _ _ Card.wireJsonGroup (fun c => c.ctorIdx)
      (fun a b hab hidx => hab (by cases a <;> cases b <;> first | rfl | cases hidx)) cur prev h
  · exact card_implied _ _ Card.wireGroup Card.wireJsonGroup card_refine cur prev h
  · exact wire_json_type_implied cur prev hk h
  · exact wire_type_implied cur prev hk kind_refine h
  · exact absurd rfl hne

/-- every rule of the laxer category is in the stricter one or all rules it is implied by are -/
def tableOk (v : Ver) (strict lax : String) : Bool :=
  (rulesOf v lax).all fun id =>
    (rulesOf v strict).contains id ||
      (!(implies id).isEmpty && (implies id).all fun j => (rulesOf v strict).contains j)

/-- the regenerated rule → category tables of all three config versions respect the order -/
theorem tables_ordered :
    ([Ver.v1beta1, Ver.v1, Ver.v2].all fun v =>
      tableOk v "FILE" "PACKAGE" && tableOk v "PACKAGE" "WIRE_JSON" && tableOk v "WIRE_JSON" "WIRE") = true := by
  decide

theorem step (v : Ver) (strict lax : String) (hok : tableOk v strict lax = true) (cur prev : Schema)
    (hk : KindsOK cur) (h : check v strict cur prev = []) : check v lax cur prev = [] := by
  unfold check at h ⊢
  apply flatMap_nil
  intro id hid
  have hstrict : ∀ j ∈ rulesOf v strict, runRule j cur prev = [] := List.flatMap_eq_nil_iff.1 h
  have := List.all_eq_true.1 hok id hid
  simp only [Bool.or_eq_true, Bool.and_eq_true, List.contains_iff_mem, Bool.not_eq_true',
    List.isEmpty_eq_false_iff, List.all_eq_true] at this
  rcases this with hin | ⟨hne, hall⟩
  · exact hstrict id hin
  · by_cases hnil : runRule id cur prev = []
    · exact hnil
    · obtain ⟨j, hj, hjne⟩ := implies_sound id cur prev hk hnil hne
      exact absurd (hstrict j (hall j hj)) hjne

/-- FILE clean ⇒ PACKAGE clean ⇒ WIRE_JSON clean ⇒ WIRE clean, for ALL pairs of schemas (also
    arbitrarily breaking ones) and all three config versions. -/
theorem hierarchy (v : Ver) (cur prev : Schema) (hk : KindsOK cur) :
    (check v "FILE" cur prev = [] → check v "PACKAGE" cur prev = []) ∧
    (check v "PACKAGE" cur prev = [] → check v "WIRE_JSON" cur prev = []) ∧
    (check v "WIRE_JSON" cur prev = [] → check v "WIRE" cur prev = []) := by
  have ht := tables_ordered
  simp only [List.all_cons, List.all_nil, Bool.and_true, Bool.and_eq_true] at ht
  cases v
  · exact ⟨step _ _ _ ht.1.1.1 cur prev hk, step _ _ _ ht.1.1.2 cur prev hk, step _ _ _ ht.1.2 cur prev hk⟩
  · exact ⟨step _ _ _ ht.2.1.1.1 cur prev hk, step _ _ _ ht.2.1.1.2 cur prev hk, step _ _ _ ht.2.1.2 cur prev hk⟩
  · exact ⟨step _ _ _ ht.2.2.1.1 cur prev hk, step _ _ _ ht.2.2.1.2 cur prev hk, step _ _ _ ht.2.2.2 cur prev hk⟩

/-! ### the source-additive edit that is NOT `⊑ₐ` (and that buf reports) -/

/-- proto2 `enum Level { LOW = 1; HIGH = 2; }  message Cfg { optional Level level = 1; }` versus the
    same file with `NONE = 0;` inserted in FRONT of the enum (`W.cxP`, `W.cxC`).  At the source level
    nothing but one enum value was added: the enum pair satisfies `EnumExt`, every message, field and
    enum name and number is unchanged.  But `Default()` of `level` moved from LOW = 1 to NONE = 0, so
    the previous field record is not a field of the current message: `cxP ⊑ₐ cxC` is FALSE, and the
    detector — like buf with a v2 config (`extra.head_insert_enum_value_reports` of the C04 harness) —
    reports FIELD_SAME_DEFAULT at the field in all four categories.  Configs v1beta1 / v1 do not have
    the rule and stay silent. -/
theorem additive_first_enum_value_counterexample :
    EnumExt (W.enm "Level" [⟨"LOW", 1⟩, ⟨"HIGH", 2⟩]) (W.enm "Level" [⟨"NONE", 0⟩, ⟨"LOW", 1⟩, ⟨"HIGH", 2⟩]) ∧
    WF W.cxC ∧
    (∀ cat ∈ allCats, check .v2 cat W.cxC W.cxP = [⟨"FIELD_SAME_DEFAULT", "cfg.proto", [4, 0, 2, 0]⟩]) ∧
    (∀ cat ∈ allCats, check .v1 cat W.cxC W.cxP = [] ∧ check .v1beta1 cat W.cxC W.cxP = []) ∧
    ¬ (W.cxP ⊑ₐ W.cxC) := by
  have hw : WF W.cxC := WF_of_wfB _ (by decide)
  have h2 : ∀ cat ∈ allCats, check .v2 cat W.cxC W.cxP = [⟨"FIELD_SAME_DEFAULT", "cfg.proto", [4, 0, 2, 0]⟩] := by
    decide
  refine ⟨by decide, hw, h2, by decide, fun h => ?_⟩
  have := additive_clean .v2 "WIRE" _ _ hw h
  rw [h2 "WIRE" (by decide)] at this
  cases this

/-! ### non-vacuity -/

section chain
open W

/-- `additive_clean` on the concrete chain `aS0 → aS1 → aS2` (Lemmas/BreakingWitness.lean: new first
    file / message / field / RPC, a message and a field at depth 3, a nested enum at depth 2, enum
    value + alias, oneof, reserved range and name, extension range, new enum and service): both
    hypotheses hold (`aS1_wf : WF aS1`, `aS01 : aS0 ⊑ₐ aS1`, established by the executable checkers
    `wfB`, `schemaExtB` and their soundness theorems), hence every category of every version is clean -/
example : ∀ v cat, check v cat aS1 aS0 = [] := fun v cat => additive_clean v cat aS0 aS1 aS1_wf aS01
example : ∀ v cat, check v cat aS2 aS1 = [] := fun v cat => additive_clean v cat aS1 aS2 aS2_wf aS12
/-- … which is not because `check` is silent on these schemas: the reverse comparison is dirty -/
example : check .v2 "WIRE" aS0 aS1 ≠ [] := by decide

/-- `additive_chain_clean` on the chain of three: the hypotheses `AddChain aS0 [aS1, aS2]` and `WF` of
    all three hold, and the conclusion contains the NON-adjacent comparison `aS2` against `aS0` -/
example : ∀ v cat, check v cat aS1 aS0 = [] ∧ check v cat aS2 aS0 = [] ∧ check v cat aS2 aS1 = [] := by
  intro v cat
  have hc : AddChain aS0 [aS1, aS2] := ⟨aS01, aS12, trivial⟩
  have hw : ∀ s ∈ [aS0, aS1, aS2], WF s := by
    intro s hs
    simp only [List.mem_cons, List.not_mem_nil, or_false] at hs
    rcases hs with rfl | rfl | rfl
    · exact aS0_wf
    · exact aS1_wf
    · exact aS2_wf
  have h := additive_chain_clean v cat aS0 [aS1, aS2] hc hw
  simp only [List.pairwise_cons, List.mem_cons, List.not_mem_nil, or_false, forall_eq_or_imp, forall_eq] at h
  exact ⟨h.1.1, h.1.2, h.2.1⟩

/-- `additive_edits_clean` / the operator catalogue: two operators in sequence on `aS1` — a new file in
    front, then a field added to `Order.Line.Tax` at depth 3 (`FileEdit.message` ∘ `MsgEdit.nested` ∘
    `MsgEdit.nested` ∘ `MsgEdit.info` ∘ `InfoEdit.addField`); the resulting schema is computed by the
    operators -/
example : ∃ s', SchemaEdits aS1 s' ∧ (allMsgs s').map (fun m => (m.nested, m.info.fields.map (·.name))) =
    [(["Payment"], ["amount"]), (["Audit"], []), (["Order"], ["note", "id", "status"]), (["Order", "Line"], ["sku"]),
     (["Order", "Line", "Tax"], ["rate"])] :=
  ⟨_, .step (.step (.refl _) (.addFile [] _ payFile))
      (.file [payFile] [] _ _ (.message _ [.mk (info "Audit") []] [] _ _ rfl
        (.nested _ [] [] _ _ (.nested _ [] [] _ _
          (.info _ _ _ (.addField _ [] [] (fld 1 "rate" .double) rfl (by decide) (by decide))))))),
   by decide⟩

/-- `cosmetic_clean`: dropping every source location of `aS2` (a copy without SourceCodeInfo) -/
example : ∀ v cat, check v cat (aS2.map fun f => { f with locs := [] }) aS2 = [] :=
  fun v cat => cosmetic_clean v cat aS2 (fun _ => []) (WF_of_wfB _ (by decide))

/-- `hierarchy` instantiated: its hypothesis `KindsOK` holds for a schema with fields, enums-typed
    fields included (`KindsOK_of_kindsOkB`, the driver's `kinds=1`).  `aDel` is `aS1` with field 3 of
    Order deleted and its number and name reserved: dirty under FILE and PACKAGE … -/
example : check .v2 "FILE" aDel aS1 = [⟨"FIELD_NO_DELETE", "shop/v1/order.proto", [4, 1]⟩] ∧
    check .v2 "PACKAGE" aDel aS1 = [⟨"FIELD_NO_DELETE", "shop/v1/order.proto", [4, 1]⟩] := by decide
/-- … clean under WIRE_JSON, and THEREFORE (by `hierarchy`, not by evaluation) clean under WIRE -/
example : check .v2 "WIRE" aDel aS1 = [] :=
  (hierarchy .v2 aDel aS1 (KindsOK_of_kindsOkB _ (by decide))).2.2 (by decide)
/-- the contrapositive direction on the big C03 witness pair (every edit family at once): it is dirty
    under WIRE, therefore dirty under WIRE_JSON, PACKAGE and FILE -/
example : check .v2 "WIRE_JSON" wCur wPrev ≠ [] ∧ check .v2 "PACKAGE" wCur wPrev ≠ [] ∧
    check .v2 "FILE" wCur wPrev ≠ [] := by
  have hk : KindsOK wCur := KindsOK_of_kindsOkB _ (by decide)
  have h := hierarchy .v2 wCur wPrev hk
  have hwire : check .v2 "WIRE" wCur wPrev ≠ [] := by decide
  have hj : check .v2 "WIRE_JSON" wCur wPrev ≠ [] := fun e => hwire (h.2.2 e)
  have hp : check .v2 "PACKAGE" wCur wPrev ≠ [] := fun e => hj (h.2.1 e)
  exact ⟨hj, hp, fun e => hp (h.1 e)⟩

end chain

/-! ### the minimal examples delivered with the first version -/

def exEnum : Enum :=
  { name := "E", values := [⟨"E_0", 0⟩], reservedRanges := [], reservedNames := [], closed := false,
    jsonAllow := true }
def exMsg (name : String) : MsgInfo :=
  { name := name, fields := [], extensions := [], enums := [], oneofs := [], reservedRanges := [],
    reservedNames := [], extRanges := [], messageSet := false, noStdAccessor := false, jsonAllow := true,
    mapEntry := false }
def exFile (msgs : List Msg) (enums : List Enum) : File :=
  { path := "a.proto", pkg := ["p"], syn := .proto3, opts := [], locs := [[4, 0], [4, 1], [5, 0]],
    messages := msgs, enums := enums, services := [], extensions := [] }
/-- S₀: message M and enum E;  S₁: adds message N;  D: deletes enum E -/
def exS0 : Schema := [exFile [.mk (exMsg "M") []] [exEnum]]
def exS1 : Schema := [exFile [.mk (exMsg "M") [], .mk (exMsg "N") []] [exEnum]]
def exD : Schema := [exFile [.mk (exMsg "M") []] []]

example : WF exS1 := by constructor <;> decide
example : exS0 ⊑ₐ exS1 := by
  intro pf hpf
  simp only [exS0, List.mem_singleton] at hpf
  subst hpf
  refine ⟨_, List.mem_singleton.2 rfl, ⟨rfl, rfl, rfl, rfl, ?_, ?_, fun _ h => h, fun _ h => by cases h⟩⟩
  · exact MsgsExt_of_forall _ _ fun n hn => by
      simp only [exFile, List.mem_singleton] at hn
      subst hn
      exact ⟨_, List.mem_cons_self, MsgExt.refl _⟩
  · intro e he; exact ⟨e, he, rfl, EnumExt.refl e⟩
/-- the hierarchy is not trivially true: deleting the enum is reported under FILE and PACKAGE
    but the comparison is clean under WIRE_JSON and WIRE -/
example : check .v2 "FILE" exD exS0 = [⟨"ENUM_NO_DELETE", "a.proto", []⟩] ∧
    check .v2 "PACKAGE" exD exS0 = [⟨"PACKAGE_ENUM_NO_DELETE", "a.proto", []⟩] ∧
    check .v2 "WIRE_JSON" exD exS0 = [] ∧ check .v2 "WIRE" exD exS0 = [] := by decide
example : check .v1 "FILE" exS1 exS0 = [] := by decide

/-! ### images with import files; the exclude-imports option

  `checkX excl` is `bufcheck.Client.Breaking` without / with `BreakingWithExcludeImports`
  (BufModel/Breaking.lean, last section).  `File.isImport` is part of `Schema`, so every theorem
  above (`self_clean`, `additive_clean`, `hierarchy`, all `C03.detects_*`) already holds for images
  in which any files are imports: no rule handler reads the flag. -/

/-- Without `--exclude-imports` the import flags play no role: the result is `check`, which does
    not read them — an edit inside an import file is reported like any other. -/
theorem imports_are_compared (v : Ver) (cat : String) (cur prev : Schema) :
    checkX false v cat cur prev = check v cat cur prev := rfl

/-- `--exclude-imports` only REMOVES annotations. -/
theorem exclude_imports_only_removes (v : Ver) (cat : String) (cur prev : Schema) (a : Ann)
    (h : a ∈ checkX true v cat cur prev) : a ∈ check v cat cur prev :=
  checkX_subset v cat cur prev a h

/-- With `--exclude-imports` no annotation is located in an import file of the current image. -/
theorem exclude_imports_drops_import_files (v : Ver) (cat : String) (cur prev : Schema) (a : Ann)
    (h : a ∈ checkX true v cat cur prev) : a.file = "" ∨ impOf cur a.file = false := by
  rcases mem_exclFilter h with ⟨t, _, rfl, hd⟩
  unfold dropped at hd
  rw [Bool.or_eq_false_iff, Bool.and_eq_false_iff] at hd
  rcases hd.1 with h1 | h1
  · left; simpa using h1
  · right; exact h1

/-- When neither image has an import file the option changes nothing. -/
theorem exclude_imports_without_imports (v : Ver) (cat : String) (cur prev : Schema)
    (hc : NoImports cur) (hp : NoImports prev) : checkX true v cat cur prev = check v cat cur prev := by
  show exclFilter cur prev (checkT v cat cur prev) = _
  rw [exclFilter_noImports hc hp, checkT_ann]

/-- Comparing an image with itself is clean whatever files are imports, without and with
    `--exclude-imports`. -/
theorem self_clean_with_imports (excl : Bool) (v : Ver) (cat : String) (s : Schema) (hw : WF s) :
    checkX excl v cat s s = [] :=
  checkX_nil_of_check_nil excl v cat s s (self_clean v cat s hw)

/-- A version that only adds things is clean whatever files are imports on either side, without
    and with `--exclude-imports`. -/
theorem additive_clean_with_imports (excl : Bool) (v : Ver) (cat : String) (prev cur : Schema) (hw : WF cur)
    (h : prev ⊑ₐ cur) : checkX excl v cat cur prev = [] :=
  checkX_nil_of_check_nil excl v cat cur prev (additive_clean v cat prev cur hw h)

/-- The category order holds for images with import files (default mode: imports are compared). -/
theorem hierarchy_with_imports (v : Ver) (cur prev : Schema) (hk : KindsOK cur) :
    (checkX false v "FILE" cur prev = [] → checkX false v "PACKAGE" cur prev = []) ∧
    (checkX false v "PACKAGE" cur prev = [] → checkX false v "WIRE_JSON" cur prev = []) ∧
    (checkX false v "WIRE_JSON" cur prev = [] → checkX false v "WIRE" cur prev = []) :=
  hierarchy v cur prev hk

/-- `z.proto` with `package p;` (a target) against `z.proto` without package, now an import -/
def xPrev : Schema :=
  [{ path := "z.proto", pkg := ["p"], syn := .proto3, opts := [], locs := [[12], [2]], messages := [],
     enums := [], services := [], extensions := [] }]
def xCur : Schema :=
  [{ path := "z.proto", pkg := [], syn := .proto3, opts := [], locs := [[12]], messages := [],
     enums := [], services := [], extensions := [], isImport := true }]

/-- WITH `--exclude-imports` the category order can fail when the two images DISAGREE on which
    files are imports (not what `--path` or a dependency module produce, but possible through the
    API): the package of a file that is an import NOW only was changed.  FILE: FILE_SAME_PACKAGE sits
    in the current file, an import, and is dropped — clean.  PACKAGE: PACKAGE_NO_DELETE has no file
    location and its against file is not an import — reported.  (The C04 harness counts these pairs
    as `observe:exclude-imports-order-broken-with-asymmetric-import-flags`.) -/
theorem exclude_imports_order_counterexample :
    check .v1 "FILE" xCur xPrev ≠ [] ∧
    checkX true .v1 "FILE" xCur xPrev = [] ∧
    checkX true .v1 "PACKAGE" xCur xPrev = [⟨"PACKAGE_NO_DELETE", "", []⟩] := by
  decide

/-! ### the category order PER FIELD (subject level) for the three type rules

    `hierarchy` says "stricter category clean ⇒ laxer category clean" for the pair of schemas as a
    whole.  For the type family FIELD_SAME_TYPE (FILE, PACKAGE) ⇐ FIELD_WIRE_JSON_COMPATIBLE_TYPE
    (WIRE_JSON) ⇐ FIELD_WIRE_COMPATIBLE_TYPE (WIRE) the order holds at every single FIELD PAIR: the
    three rules are `fieldPairs` of the three bodies below (`type_rules_are_per_field`), each body
    only ever produces an annotation of the CURRENT field `c` (`type_annotations_are_about_the_field`),
    and for one and the same pair `(c, p)` a laxer body that reports forces the stricter body to
    report (`type_rules_ordered_per_field`).  This is the statement the C04 harness checks per
    subject on every pair of the edit catalogue; `same_type_skipping_groups_counterexample` is the
    regression it was built for. -/

/-- body of handleBreakingFieldSameType for one field pair -/
def sameTypeAt (c p : FlatField) : List Ann :=
  if p.field.kind ≠ c.field.kind then [changedTypeAnn "FIELD_SAME_TYPE" c]
  else if c.field.ty.named ∧ p.field.typeName ≠ c.field.typeName then
    [changedTypeNameAnn "FIELD_SAME_TYPE" c]
  else []

/-- body of handleBreakingFieldWireJSONCompatibleType for one field pair -/
def wireJsonTypeAt (cur prev : Schema) (c p : FlatField) : List Ann :=
  if p.field.kind.wireJsonGroup ≠ c.field.kind.wireJsonGroup then [changedTypeAnn "FIELD_WIRE_JSON_COMPATIBLE_TYPE" c]
  else if c.field.kind = .enum then
    if p.field.typeName ≠ c.field.typeName then enumWireCompatible "FIELD_WIRE_JSON_COMPATIBLE_TYPE" cur prev c p else []
  else if c.field.kind = .group ∨ c.field.kind = .message then
    if p.field.typeName ≠ c.field.typeName then [changedTypeNameAnn "FIELD_WIRE_JSON_COMPATIBLE_TYPE" c] else []
  else []

/-- body of handleBreakingFieldWireCompatibleType for one field pair -/
def wireTypeAt (cur prev : Schema) (c p : FlatField) : List Ann :=
  if p.field.kind.wireGroup ≠ c.field.kind.wireGroup then
    if p.field.kind = .string ∧ c.field.kind = .bytes then [] else [changedTypeAnn "FIELD_WIRE_COMPATIBLE_TYPE" c]
  else if c.field.ty = .enum then
    if p.field.typeName ≠ c.field.typeName then enumWireCompatible "FIELD_WIRE_COMPATIBLE_TYPE" cur prev c p else []
  else if c.field.ty = .group ∨ c.field.ty = .message then
    if p.field.typeName ≠ c.field.typeName then [changedTypeNameAnn "FIELD_WIRE_COMPATIBLE_TYPE" c] else []
  else []

/-- the three rules of the model ARE these bodies run over the field pairs -/
theorem type_rules_are_per_field (cur prev : Schema) :
    ruleFieldSameType cur prev = fieldPairs cur prev sameTypeAt ∧
    ruleFieldWireJsonCompatibleType cur prev = fieldPairs cur prev (wireJsonTypeAt cur prev) ∧
    ruleFieldWireCompatibleType cur prev = fieldPairs cur prev (wireTypeAt cur prev) :=
  ⟨rfl, rfl, rfl⟩

theorem enumWireCompatible_about_field (r : String) (cur prev : Schema) (c p : FlatField) :
    ∀ a ∈ enumWireCompatible r cur prev c p, a = changedTypeNameAnn r c := by
  intro a ha
  unfold enumWireCompatible at ha
  split at ha
  · split at ha
    · simpa using ha
    · split at ha
      · simpa using ha
      · simp at ha
  · simp at ha

/-- whatever one of the three bodies reports for the pair `(c, p)` is an annotation of the CURRENT
    field `c`: its type / type-name location (`changedTypeAnn`, `changedTypeNameAnn`) -/
theorem type_annotations_are_about_the_field (cur prev : Schema) (c p : FlatField) :
    (∀ a ∈ sameTypeAt c p, a = changedTypeAnn "FIELD_SAME_TYPE" c ∨ a = changedTypeNameAnn "FIELD_SAME_TYPE" c) ∧
    (∀ a ∈ wireJsonTypeAt cur prev c p, a = changedTypeAnn "FIELD_WIRE_JSON_COMPATIBLE_TYPE" c ∨
      a = changedTypeNameAnn "FIELD_WIRE_JSON_COMPATIBLE_TYPE" c) ∧
    (∀ a ∈ wireTypeAt cur prev c p, a = changedTypeAnn "FIELD_WIRE_COMPATIBLE_TYPE" c ∨
      a = changedTypeNameAnn "FIELD_WIRE_COMPATIBLE_TYPE" c) := by
  refine ⟨?_, ?_, ?_⟩
  · intro a ha
    unfold sameTypeAt at ha
    split at ha
    · exact Or.inl (by simpa using ha)
    · split at ha
      · exact Or.inr (by simpa using ha)
      · simp at ha
  · intro a ha
    unfold wireJsonTypeAt at ha
    split at ha
    · exact Or.inl (by simpa using ha)
    · split at ha
      · split at ha
        · exact Or.inr (enumWireCompatible_about_field _ cur prev c p a ha)
        · simp at ha
      · split at ha
        · split at ha
          · exact Or.inr (by simpa using ha)
          · simp at ha
        · simp at ha
  · intro a ha
    unfold wireTypeAt at ha
    split at ha
    · split at ha
      · simp at ha
      · exact Or.inl (by simpa using ha)
    · split at ha
      · split at ha
        · exact Or.inr (enumWireCompatible_about_field _ cur prev c p a ha)
        · simp at ha
      · split at ha
        · split at ha
          · exact Or.inr (by simpa using ha)
          · simp at ha
        · simp at ha

/-- FILE ⊇ PACKAGE ⊇ WIRE_JSON ⊇ WIRE at the level of ONE field pair, for the type family: if the
    WIRE rule reports about `(c, p)` so does the WIRE_JSON rule, and if that one reports so does
    FIELD_SAME_TYPE - for every pair of schemas, every pair of fields, with the compiled-image
    hypothesis on the current field only (`kindOk`: Kind() = Type() except delimited messages). -/
theorem type_rules_ordered_per_field (cur prev : Schema) (c p : FlatField) (hok : kindOk c.field) :
    (wireTypeAt cur prev c p ≠ [] → wireJsonTypeAt cur prev c p ≠ []) ∧
    (wireJsonTypeAt cur prev c p ≠ [] → sameTypeAt c p ≠ []) := by
  constructor
  · intro hx
    unfold wireTypeAt at hx
    unfold wireJsonTypeAt
    by_cases hj : p.field.kind.wireJsonGroup ≠ c.field.kind.wireJsonGroup
    · simp [hj]
    · have hw : ¬ p.field.kind.wireGroup ≠ c.field.kind.wireGroup := fun hw => hj (kind_refine _ _ hw)
      simp only [hw, hj, if_false] at hx ⊢
      by_cases he : c.field.ty = .enum
      · have hke : c.field.kind = .enum := by
          rcases hok with h1 | ⟨h1, _⟩
          · rw [h1, he]
          · rw [he] at h1; cases h1
        simp only [he, hke, if_true] at hx ⊢
        by_cases ht : p.field.typeName ≠ c.field.typeName
        · rw [if_pos ht] at hx ⊢
          exact enumWireCompatible_rule_irrelevant _ _ cur prev c p hx
        · simp [ht] at hx
      · simp only [he, if_false] at hx
        by_cases hg : c.field.ty = .group ∨ c.field.ty = .message
        · simp only [hg, if_true] at hx
          have hkg : c.field.kind = .group ∨ c.field.kind = .message := by
            rcases hok with h1 | ⟨_, h2⟩
            · rw [h1]; exact hg
            · exact Or.inl h2
          have hkne : c.field.kind ≠ .enum := by
            rcases hkg with h1 | h1 <;> rw [h1] <;> decide
          simp only [hkne, hkg, if_false, if_true]
          by_cases ht : p.field.typeName ≠ c.field.typeName
          · simp [ht]
          · simp [ht] at hx
        · simp [hg] at hx
  · intro hx
    unfold wireJsonTypeAt at hx
    unfold sameTypeAt
    by_cases hkind : p.field.kind ≠ c.field.kind
    · simp [hkind]
    · have hkeq : p.field.kind = c.field.kind := Classical.not_not.1 hkind
      have hj : ¬ p.field.kind.wireJsonGroup ≠ c.field.kind.wireJsonGroup := by rw [hkeq]; simp
      simp only [hj, hkind, if_false] at hx ⊢
      have named : (c.field.kind = .enum ∨ c.field.kind = .group ∨ c.field.kind = .message) →
          c.field.ty.named = true := by
        intro hcase
        rcases hok with h1 | ⟨h1, _⟩
        · rw [← h1]; rcases hcase with h2 | h2 | h2 <;> rw [h2] <;> decide
        · rw [h1]; decide
      by_cases he : c.field.kind = .enum
      · simp only [he, if_true] at hx
        by_cases ht : p.field.typeName ≠ c.field.typeName
        · simp [named (Or.inl he), ht]
        · simp [ht] at hx
      · simp only [he, if_false] at hx
        by_cases hg : c.field.kind = .group ∨ c.field.kind = .message
        · simp only [hg, if_true] at hx
          by_cases ht : p.field.typeName ≠ c.field.typeName
          · simp [named (Or.inr hg), ht]
          · simp [ht] at hx
        · simp [hg] at hx

/-- the regression: FIELD_SAME_TYPE switching on the resolved `Kind()` with arms for enum and
    message only - the type NAME of a delimited ("group" encoded) message field is not compared -/
def sameTypeAtSkippingGroups (c p : FlatField) : List Ann :=
  if p.field.kind ≠ c.field.kind then [changedTypeAnn "FIELD_SAME_TYPE" c]
  else if (c.field.kind = .enum ∨ c.field.kind = .message) ∧ p.field.typeName ≠ c.field.typeName then
    [changedTypeNameAnn "FIELD_SAME_TYPE" c]
  else []

/-- Field 1 of `g.M` (witness `gPrev → gCur`: edition 2023, delimited by the FILE default on both
    sides, type `g.X` → `g.Y`): the WIRE and WIRE_JSON bodies report the field's type name, the
    coded FIELD_SAME_TYPE body does too, the regressed one is silent - FILE and PACKAGE would be
    clean for this field while WIRE_JSON and WIRE are not. -/
theorem same_type_skipping_groups_counterexample :
    wireTypeAt W.gCur W.gPrev (W.fieldOf W.gcM 1) (W.fieldOf W.gpM 1) =
      [⟨"FIELD_WIRE_COMPATIBLE_TYPE", "g/e.proto", [4, 0, 2, 1, 6]⟩] ∧
    wireJsonTypeAt W.gCur W.gPrev (W.fieldOf W.gcM 1) (W.fieldOf W.gpM 1) =
      [⟨"FIELD_WIRE_JSON_COMPATIBLE_TYPE", "g/e.proto", [4, 0, 2, 1, 6]⟩] ∧
    sameTypeAt (W.fieldOf W.gcM 1) (W.fieldOf W.gpM 1) = [⟨"FIELD_SAME_TYPE", "g/e.proto", [4, 0, 2, 1, 6]⟩] ∧
    sameTypeAtSkippingGroups (W.fieldOf W.gcM 1) (W.fieldOf W.gpM 1) = [] := by
  decide

/-- `type_rules_ordered_per_field` is not vacuous on that pair -/
example : kindOk (W.fieldOf W.gcM 1).field := Or.inr ⟨by decide, by decide⟩

end BufProofs.C04
