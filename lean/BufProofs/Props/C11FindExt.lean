import BufModel.FindExtension
/-
  Property C11, round-trip half, DECLARATION SITES.  A source-built image prints a custom option in
  json / yaml / txtpb only if `resolverForFiles.FindExtensionByNumber` finds the declaration of the
  extension, and that is the tree search `findExtension` (build_image.go).  An extension may be
  declared at file level or in ANY message of the file, however deep, whether or not the messages
  on the way declare extensions themselves.

  Model: BufModel/FindExtension.lean.

    `findExtension_eq_first_declared`   the search = the first hit in the pre-order listing of ALL
                                        declarations of the file
    `findExtension_finds_iff_declared`  it finds something iff an extension of that message with
                                        that number is declared anywhere in the file tree
    `findExtension_sound`               what it returns is declared in the file, extends the asked
                                        message and has the asked number
    `findExtension_complete_unique`     when (extendee, number) pairs are unique in the file (what
                                        the compiler guarantees) every declared extension is found
                                        under its own (extendee, number): ByNumber agrees with the
                                        declaration, whatever the nesting
    `findExtension_namespace_transparent`  wrapping declarations into a message that declares
                                        nothing itself changes no answer
    `findExtension_skip_empty_counterexample`, `findExtension_number_only_counterexample`
                                        the two regressions, expressible in the model, violate it

  Correspondence: protocol line `fext` (Driver/C11.lean) against the function taken verbatim from
  the working tree (harness/cmd/c11/partb5.go, probe program).
-/
namespace BufProofs.C11
open BufModel.FindExtension

/-- the predicate of the code as it is -/
abbrev isDecl (message : Nat) (field : Int) (e : Ext) : Bool := hits Variant.asCoded message field e

theorem findExt_hits_iff (message : Nat) (field : Int) (e : Ext) :
    isDecl message field e = true ↔ e.extendee = message ∧ e.number = field := by
  simp [isDecl, hits, Variant.asCoded]
  constructor
  · intro h; exact ⟨h.2, h.1⟩
  · intro h; exact ⟨h.2, h.1⟩

theorem findExt_scan_eq_find (v : Variant) (message : Nat) (field : Int) (l : List Ext) :
    scanExts v message field l = l.find? (hits v message field) := by
  induction l with
  | nil => rfl
  | cons e rest ih =>
    simp only [scanExts, List.find?_cons]
    cases hits v message field e <;> simp [ih]

mutual
theorem findExt_msg_eq (message : Nat) (field : Int) : ∀ m : Msg,
    findMsg Variant.asCoded message field m = (allMsg m).find? (isDecl message field)
  | .mk exts nested => by
    have ih := findExt_msgs_eq message field nested
    simp only [findMsg, allMsg, List.find?_append, findExt_scan_eq_find, ih]
    cases exts.find? (hits Variant.asCoded message field) <;> rfl
theorem findExt_msgs_eq (message : Nat) (field : Int) : ∀ l : List Msg,
    findMsgs Variant.asCoded message field l = (allMsgs l).find? (isDecl message field)
  | [] => rfl
  | m :: rest => by
    have ih1 := findExt_msg_eq message field m
    have ih2 := findExt_msgs_eq message field rest
    have hstep : findMsgs Variant.asCoded message field (m :: rest) =
        (match findMsg Variant.asCoded message field m with
         | some e => some e
         | none => findMsgs Variant.asCoded message field rest) := rfl
    rw [hstep, ih1, ih2]
    simp only [allMsgs, List.find?_append]
    cases (allMsg m).find? (isDecl message field) <;> rfl
end

/-- `findExtension` returns the FIRST declaration, in pre-order over the whole file tree, that
    extends `message` with number `field` — for every file, every nesting. -/
theorem findExtension_eq_first_declared (f : File) (message : Nat) (field : Int) :
    findExtension f message field = (allFile f).find? (isDecl message field) := by
  simp only [findExtension, findFile, allFile, List.find?_append, findExt_scan_eq_find, findExt_msgs_eq]
  cases f.exts.find? (hits Variant.asCoded message field) <;> rfl

/-- It finds an extension iff one is declared anywhere in the file tree. -/
theorem findExtension_finds_iff_declared (f : File) (message : Nat) (field : Int) :
    (findExtension f message field).isSome = true ↔
      ∃ e, e ∈ allFile f ∧ e.extendee = message ∧ e.number = field := by
  rw [findExtension_eq_first_declared, List.find?_isSome]
  constructor
  · rintro ⟨e, he, hp⟩; exact ⟨e, he, (findExt_hits_iff message field e).mp hp⟩
  · rintro ⟨e, he, hp⟩; exact ⟨e, he, (findExt_hits_iff message field e).mpr hp⟩

/-- What it returns is declared in the file, extends the asked message, has the asked number
    (in particular: never an extension of ANOTHER message that happens to share the number). -/
theorem findExtension_sound (f : File) (message : Nat) (field : Int) (e : Ext)
    (h : findExtension f message field = some e) :
    e ∈ allFile f ∧ e.extendee = message ∧ e.number = field := by
  rw [findExtension_eq_first_declared] at h
  exact ⟨List.mem_of_find?_eq_some h, (findExt_hits_iff message field e).mp (List.find?_some h)⟩

/-- (extendee, number) identifies a declaration: what protocompile guarantees for a linked file -/
def UniqueKeys (l : List Ext) : Prop :=
  ∀ a, a ∈ l → ∀ b, b ∈ l → a.extendee = b.extendee → a.number = b.number → a = b

/-- Every declared extension is found under its own (extendee, number), whatever its nesting and
    whatever its neighbours: `FindExtensionByNumber` agrees with the declaration. -/
theorem findExtension_complete_unique (f : File) (hu : UniqueKeys (allFile f)) (e : Ext)
    (he : e ∈ allFile f) : findExtension f e.extendee e.number = some e := by
  have hsome : (findExtension f e.extendee e.number).isSome = true :=
    (findExtension_finds_iff_declared f e.extendee e.number).mpr ⟨e, he, rfl, rfl⟩
  cases hres : findExtension f e.extendee e.number with
  | none => rw [hres] at hsome; cases hsome
  | some x =>
    have hx := findExtension_sound f e.extendee e.number x hres
    rw [hu x hx.1 e he hx.2.1 hx.2.2]

/-- A message that declares nothing itself is transparent: the regression (not descending into a
    pure namespace) is excluded for every nesting depth. -/
theorem findExtension_namespace_transparent (message : Nat) (field : Int) (inner : List Msg) :
    findMsg Variant.asCoded message field (.mk [] inner) = findMsgs Variant.asCoded message field inner := rfl

/-- wrapping all messages of a file into a pure namespace message changes no answer -/
theorem findExtension_wrap_in_namespace (f : File) (message : Nat) (field : Int) :
    findExtension { exts := f.exts, msgs := [.mk [] f.msgs] } message field = findExtension f message field := by
  simp only [findExtension_eq_first_declared, allFile, allMsgs, allMsg, List.nil_append, List.append_nil]

/-! ## the regressions are expressible and violate the theorems (non-vacuity) -/

/-- `message Scope { message Fields { extend E1 { … = 7 } } }` -/
def exNamespaceFile : File :=
  { exts := [], msgs := [.mk [] [.mk [⟨1, 7, 100⟩] []]] }

example : findExtension exNamespaceFile 1 7 = some ⟨1, 7, 100⟩ := by decide
example : UniqueKeys (allFile exNamespaceFile) := by
  intro a ha b hb _ _
  simp [allFile, allMsgs, allMsg, exNamespaceFile] at ha hb
  rw [ha, hb]

/-- not descending into a message without own extensions: a declared extension is not found -/
theorem findExtension_skip_empty_counterexample :
    findFile ⟨true, false⟩ 1 7 exNamespaceFile = none ∧
    (∃ e, e ∈ allFile exNamespaceFile ∧ e.extendee = 1 ∧ e.number = 7) := by
  refine ⟨by decide, ⟨⟨1, 7, 100⟩, ?_, rfl, rfl⟩⟩
  simp [allFile, allMsgs, allMsg, exNamespaceFile]

/-- two extendees sharing number 7 in one file, the other one declared first -/
def exCollisionFile : File :=
  { exts := [⟨2, 7, 200⟩], msgs := [.mk [⟨1, 7, 100⟩] []] }

example : findExtension exCollisionFile 1 7 = some ⟨1, 7, 100⟩ := by decide
example : findExtension exCollisionFile 2 7 = some ⟨2, 7, 200⟩ := by decide
example : findExtension exCollisionFile 3 7 = none := by decide

/-- comparing the number only: an extension of ANOTHER message is returned -/
theorem findExtension_number_only_counterexample :
    findFile ⟨false, true⟩ 1 7 exCollisionFile = some ⟨2, 7, 200⟩ := by decide

end BufProofs.C11
