import BufProofs.Lemmas.PathLemmas
import BufProofs.Lemmas.BucketLemmas
import BufProofs.Props.C13
import BufProofs.Lemmas.DiskLemmas
/-
  C14 — All bucket implementations and combinators behave as one path→bytes map.

  The abstract specification is a function `Spec := Key → Option Content`; a key is a list of
  proper path components.  `abs m` reads a memory bucket as such a function.  The theorems
  show that every operation of the memory bucket, and of views/composites built on it, is the
  corresponding operation of the abstract map.  (The disk bucket is tied to the same model by
  the correspondence run, under the prefix-free hypothesis stated in DESIGN.md.)
-/
namespace BufProofs.C14
open BufModel.Path BufModel.Bucket

abbrev Spec := Key → Option Content

/-- A memory bucket read as an abstract map. -/
def abs (m : Mem) : Spec := fun k => m.find (renderKey k)

inductive Op where
  | get (p : Str)
  | put (p : Str) (c : Content)
  | delete (p : Str)
  | deleteAll (p : Str)
  | walk (p : Str)

inductive Out where
  | done
  | content (c : Content)
  | objs (l : List (Str × Content))
  | err (e : PErr)
  deriving DecidableEq

/-- One step of the memory bucket. Failed operations leave the state unchanged. -/
def memStep (m : Mem) : Op → Mem × Out
  | .get p => match memGet m p with
      | .ok c => (m, .content c) | .error e => (m, .err e)
  | .put p c => match memPut m p c with
      | .ok m' => (m', .done) | .error e => (m, .err e)
  | .delete p => match memDelete m p with
      | .ok m' => (m', .done) | .error e => (m, .err e)
  | .deleteAll p => match memDeleteAll m p with
      | .ok m' => (m', .done) | .error e => (m, .err e)
  | .walk p => match memWalk m p with
      | .ok l => (m, .objs l) | .error e => (m, .err e)

/-- The path argument as the spec sees it: an error class or a key. -/
def keyOf (s : Str) : Except PErr Key :=
  match normalizeAndValidate s with
  | .ok p => .ok (cleanComps p)
  | .error e => .error e

theorem keyOf_of_validate {s : Str} {k : Key} (hk : AllProper k)
    (h : normalizeAndValidate s = .ok (renderKey k)) : keyOf s = .ok k := by
  unfold keyOf; rw [h]; simp [cleanComps_renderKey hk]

/-- What the abstract map does for each operation (the specification, readable in a minute). -/
inductive SpecStep : Spec → Op → Spec → Out → Prop where
  | getOk (σ : Spec) (p : Str) (k : Key) (c : Content) :
      keyOf p = .ok k → k ≠ [] → σ k = some c → SpecStep σ (.get p) σ (.content c)
  | getMissing (σ : Spec) (p : Str) (k : Key) :
      keyOf p = .ok k → k ≠ [] → σ k = none → SpecStep σ (.get p) σ (.err .notExist)
  | putOk (σ σ' : Spec) (p : Str) (k : Key) (c : Content) :
      keyOf p = .ok k → k ≠ [] →
      (∀ k', AllProper k' → σ' k' = if k' = k then some c else σ k') → SpecStep σ (.put p c) σ' .done
  | deleteOk (σ σ' : Spec) (p : Str) (k : Key) :
      keyOf p = .ok k → k ≠ [] → σ k ≠ none →
      (∀ k', AllProper k' → σ' k' = if k' = k then none else σ k') → SpecStep σ (.delete p) σ' .done
  | deleteMissing (σ : Spec) (p : Str) (k : Key) :
      keyOf p = .ok k → k ≠ [] → σ k = none → SpecStep σ (.delete p) σ (.err .notExist)
  | deleteAllOk (σ σ' : Spec) (p : Str) (k : Key) :
      keyOf p = .ok k →
      (∀ k', AllProper k' → σ' k' = if k <+: k' then none else σ k') → SpecStep σ (.deleteAll p) σ' .done
  | walkOk (σ : Spec) (p : Str) (k : Key) (l : List (Str × Content)) :
      keyOf p = .ok k → NodupKeys l →
      (∀ k' c, AllProper k' → ((renderKey k', c) ∈ l ↔ (k <+: k' ∧ σ k' = some c))) →
      SpecStep σ (.walk p) σ (.objs l)
  | root (σ : Spec) (op : Op) (p : Str) :
      keyOf p = .ok [] → (op = .get p ∨ (∃ c, op = .put p c) ∨ op = .delete p) → SpecStep σ op σ (.err .root)
  | invalid (σ : Spec) (op : Op) (p : Str) (e : PErr) :
      keyOf p = .error e →
      (op = .get p ∨ (∃ c, op = .put p c) ∨ op = .delete p ∨ op = .deleteAll p ∨ op = .walk p) →
      SpecStep σ op σ (.err e)

theorem validatePath_cases (s : Str) :
    (∃ e, normalizeAndValidate s = .error e ∧ validatePath s = .error e) ∨
    (normalizeAndValidate s = .ok dot ∧ validatePath s = .error .root) ∨
    (∃ k : Key, AllProper k ∧ k ≠ [] ∧ normalizeAndValidate s = .ok (renderKey k) ∧
      validatePath s = .ok (renderKey k)) := by
  unfold validatePath
  cases hv : normalizeAndValidate s with
  | error e => exact Or.inl ⟨e, rfl, rfl⟩
  | ok p =>
    obtain ⟨k, hk, hp⟩ := BufModel.Path.validate_sound s p hv
    subst hp
    by_cases hd : renderKey k = dot
    · rw [hd]; exact Or.inr (Or.inl ⟨rfl, by simp⟩)
    · refine Or.inr (Or.inr ⟨k, hk, ?_, rfl, by simp [hd]⟩)
      intro e; subst e; exact hd renderKey_nil

theorem keyOf_dot {s : Str} (h : normalizeAndValidate s = .ok dot) : keyOf s = .ok [] := by
  unfold keyOf; rw [h]; decide

theorem keyOf_error {s : Str} {e : PErr} (h : normalizeAndValidate s = .error e) : keyOf s = .error e := by
  unfold keyOf; rw [h]

/-- mem_refines_spec (one step): every step of the memory bucket, on ANY path string, is a step
    of the abstract map with the same output, and the invariants are kept. -/
theorem mem_refines_spec_step (m : Mem) (hv : KeysValid m) (hn : NodupKeys m) (op : Op) :
    SpecStep (abs m) op (abs (memStep m op).1) (memStep m op).2 ∧
      KeysValid (memStep m op).1 ∧ NodupKeys (memStep m op).1 := by
  cases op with
  | get p =>
    rcases validatePath_cases p with ⟨e, hnv, hvp⟩ | ⟨hnv, hvp⟩ | ⟨k, hk, hne, hnv, hvp⟩
    · simp only [memStep, memGet, hvp]
      exact ⟨.invalid _ _ p e (keyOf_error hnv) (Or.inl rfl), hv, hn⟩
    · simp only [memStep, memGet, hvp]
      exact ⟨.root _ _ p (keyOf_dot hnv) (Or.inl rfl), hv, hn⟩
    · simp only [memStep, memGet, hvp]
      cases hf : m.find (renderKey k) with
      | none => exact ⟨.getMissing _ p k (keyOf_of_validate hk hnv) hne hf, hv, hn⟩
      | some c => exact ⟨.getOk _ p k c (keyOf_of_validate hk hnv) hne hf, hv, hn⟩
  | put p c =>
    rcases validatePath_cases p with ⟨e, hnv, hvp⟩ | ⟨hnv, hvp⟩ | ⟨k, hk, hne, hnv, hvp⟩
    · simp only [memStep, memPut, hvp]
      exact ⟨.invalid _ _ p e (keyOf_error hnv) (Or.inr (Or.inl ⟨c, rfl⟩)), hv, hn⟩
    · simp only [memStep, memPut, hvp]
      exact ⟨.root _ _ p (keyOf_dot hnv) (Or.inr (Or.inl ⟨c, rfl⟩)), hv, hn⟩
    · simp only [memStep, memPut, hvp]
      refine ⟨.putOk _ _ p k c (keyOf_of_validate hk hnv) hne ?_, ?_, nodupKeys_put hn _ c⟩
      · intro k' hk'
        unfold abs
        by_cases he : k' = k
        · subst he; rw [find_cons_eq]; simp
        · have hne' : renderKey k ≠ renderKey k' := fun e => he (renderKey_inj hk hk' e).symm
          rw [find_cons_ne _ _ _ _ hne', find_erase_ne _ _ _ hne', if_neg he]
      · exact keysValid_cons (keysValid_erase hv _) hk hne c
  | delete p =>
    rcases validatePath_cases p with ⟨e, hnv, hvp⟩ | ⟨hnv, hvp⟩ | ⟨k, hk, hne, hnv, hvp⟩
    · simp only [memStep, memDelete, hvp]
      exact ⟨.invalid _ _ p e (keyOf_error hnv) (Or.inr (Or.inr (Or.inl rfl))), hv, hn⟩
    · simp only [memStep, memDelete, hvp]
      exact ⟨.root _ _ p (keyOf_dot hnv) (Or.inr (Or.inr rfl)), hv, hn⟩
    · simp only [memStep, memDelete, hvp]
      cases hf : m.find (renderKey k) with
      | none => exact ⟨.deleteMissing _ p k (keyOf_of_validate hk hnv) hne hf, hv, hn⟩
      | some c0 =>
        refine ⟨.deleteOk _ _ p k (keyOf_of_validate hk hnv) hne (by unfold abs; rw [hf]; simp) ?_,
          keysValid_erase hv _, nodupKeys_filter hn _⟩
        intro k' hk'
        unfold abs
        by_cases he : k' = k
        · subst he; rw [find_erase_eq]; simp
        · have hne' : renderKey k ≠ renderKey k' := fun e => he (renderKey_inj hk hk' e).symm
          rw [find_erase_ne _ _ _ hne', if_neg he]
  | deleteAll p =>
    simp only [memStep, memDeleteAll, validatePrefix]
    cases hnv : normalizeAndValidate p with
    | error e => exact ⟨.invalid _ _ p e (keyOf_error hnv) (Or.inr (Or.inr (Or.inr (Or.inl rfl)))), hv, hn⟩
    | ok q =>
      obtain ⟨k, hk, hq⟩ := BufModel.Path.validate_sound p q hnv
      subst hq
      refine ⟨.deleteAllOk _ _ p k (keyOf_of_validate hk hnv) ?_, keysValid_filter hv _, nodupKeys_filter hn _⟩
      intro k' hk'
      unfold abs
      simp only
      rw [find_filter m (fun s => !equalsOrContainsPath (renderKey k) s)]
      by_cases hp : k <+: k'
      · simp [(ecp_keys hk hk').mpr hp, hp]
      · have : equalsOrContainsPath (renderKey k) (renderKey k') = false := by
          cases hh : equalsOrContainsPath (renderKey k) (renderKey k') with
          | false => rfl
          | true => exact absurd ((ecp_keys hk hk').mp hh) hp
        simp [this, hp]
  | walk p =>
    simp only [memStep]
    cases hw : memWalk m p with
    | error e =>
      refine ⟨.invalid _ _ p e ?_ (Or.inr (Or.inr (Or.inr (Or.inr rfl)))), hv, hn⟩
      unfold memWalk validatePrefix at hw
      cases hnv : normalizeAndValidate p with
      | error e' => rw [hnv] at hw; injection hw with hw; subst hw; exact keyOf_error hnv
      | ok q => rw [hnv] at hw; cases hw
    | ok l =>
      obtain ⟨kq, hkq, hnv, hnd, hall⟩ := memWalk_exact m hv hn p l hw
      exact ⟨.walkOk _ p kq l (keyOf_of_validate hkq hnv) hnd hall, hv, hn⟩

/-- Run a whole history. -/
def memRun (m : Mem) : List Op → Mem × List Out
  | [] => (m, [])
  | op :: rest =>
    let r := memStep m op
    let rr := memRun r.1 rest
    (rr.1, r.2 :: rr.2)

/-- A history of the abstract map: each step satisfies the specification. -/
inductive SpecRun : Spec → List Op → Spec → List Out → Prop where
  | nil (σ : Spec) : SpecRun σ [] σ []
  | cons (σ σ' σ'' : Spec) (op : Op) (o : Out) (ops : List Op) (os : List Out) :
      SpecStep σ op σ' o → SpecRun σ' ops σ'' os → SpecRun σ (op :: ops) σ'' (o :: os)

/-- mem_refines_spec: after ANY finite sequence of put / delete / delete-all / get / walk
    operations with ANY path strings, starting from the empty bucket, the memory bucket has
    produced exactly the outputs the abstract path→bytes map prescribes. -/
theorem mem_refines_spec (ops : List Op) (m : Mem) (hv : KeysValid m) (hn : NodupKeys m) :
    SpecRun (abs m) ops (abs (memRun m ops).1) (memRun m ops).2 ∧
      KeysValid (memRun m ops).1 ∧ NodupKeys (memRun m ops).1 := by
  induction ops generalizing m with
  | nil => exact ⟨.nil _, hv, hn⟩
  | cons op rest ih =>
    obtain ⟨hstep, hv', hn'⟩ := mem_refines_spec_step m hv hn op
    obtain ⟨hrun, hv'', hn''⟩ := ih (memStep m op).1 hv' hn'
    exact ⟨.cons _ _ _ op _ rest _ hstep hrun, hv'', hn''⟩

theorem mem_refines_spec_from_empty (ops : List Op) :
    SpecRun (abs []) ops (abs (memRun [] ops).1) (memRun [] ops).2 :=
  (mem_refines_spec ops [] keysValid_nil (by simp [NodupKeys])).1

/-- Equivalent spellings of a path denote the same object: operations depend on their path
    argument only through its normalised, validated form. -/
theorem spelling_irrelevant (m : Mem) (s₁ s₂ : Str)
    (h : normalizeAndValidate s₁ = normalizeAndValidate s₂) (c : Content) :
    memStep m (.get s₁) = memStep m (.get s₂) ∧ memStep m (.put s₁ c) = memStep m (.put s₂ c) ∧
    memStep m (.delete s₁) = memStep m (.delete s₂) ∧ memStep m (.deleteAll s₁) = memStep m (.deleteAll s₂) ∧
    memStep m (.walk s₁) = memStep m (.walk s₂) := by
  have hvp : validatePath s₁ = validatePath s₂ := by unfold validatePath; rw [h]
  have hpf : validatePrefix s₁ = validatePrefix s₂ := by unfold validatePrefix; rw [h]
  refine ⟨?_, ?_, ?_, ?_, ?_⟩ <;>
    simp only [memStep, memGet, memPut, memDelete, memDeleteAll, memWalk, hvp, hpf]

/-- The same through any view. -/
theorem spelling_irrelevant_view (ls : List Layer) (m : Mem) (s₁ s₂ : Str)
    (h : normalizeAndValidate s₁ = normalizeAndValidate s₂) (c : Content) :
    vGet ls m s₁ = vGet ls m s₂ ∧ vPut ls m s₁ c = vPut ls m s₂ c ∧ vDelete ls m s₁ = vDelete ls m s₂ ∧
    vDeleteAll ls m s₁ = vDeleteAll ls m s₂ ∧ vWalk ls m s₁ = vWalk ls m s₂ := by
  have hvp : validatePath s₁ = validatePath s₂ := by unfold validatePath; rw [h]
  have hpf : validatePrefix s₁ = validatePrefix s₂ := by unfold validatePrefix; rw [h]
  cases ls with
  | nil => simp only [vGet, vPut, vDelete, vDeleteAll, vWalk, memGet, memPut, memDelete, memDeleteAll, memWalk, hvp, hpf, and_self]
  | cons l ls =>
    cases l with
    | pre p => simp only [vGet, vPut, vDelete, vDeleteAll, vWalk, mapFullPath, h, and_self]
    | filt f => simp only [vGet, vPut, vDelete, vDeleteAll, vWalk, h, and_self]

/-- walk_exact through views: a walk through ANY nesting of prefix-mapped views visits exactly
    the objects stored under (view root ++ requested prefix) — component-wise —, each once,
    reporting view-relative paths. -/
theorem walk_exact_through_prefix_views (ls : List KLayer) (hls : KLayersOK ls) (hpre : PreOnly ls)
    (m : Mem) (hv : KeysValid m) (hn : NodupKeys m) (pfx : Str) (objs : List (Str × Content))
    (h : vWalk (ls.map KLayer.toLayer) m pfx = .ok objs) :
    ∃ kq : Key, AllProper kq ∧ normalizeAndValidate pfx = .ok (renderKey kq) ∧
      NodupKeys objs ∧
      ∀ (kk : Key) (c : Content), AllProper kk →
        ((renderKey kk, c) ∈ objs ↔ (kq <+: kk ∧ Mem.find m (renderKey (fullKey ls ++ kk)) = some c)) := by
  obtain ⟨kq, h1, h2, h3, _, h5⟩ := vWalk_pre_exact ls hls hpre m hv hn pfx objs h
  exact ⟨kq, h1, h2, h3, h5⟩

/-- Prefixes are path-wise, not string-wise. -/
theorem prefix_is_pathwise (a b : Key) (ha : AllProper a) (hb : AllProper b) :
    equalsOrContainsPath (renderKey a) (renderKey b) = true ↔ a <+: b := ecp_keys ha hb

example : equalsOrContainsPath "a".toList "ab".toList = false := by decide
example : equalsOrContainsPath "a".toList "a.b".toList = false := by decide
example : equalsOrContainsPath "a".toList "a/b".toList = true := by decide

/-- mapper_inverse: MapPath then UnmapFullPath is the identity on keys … -/
theorem mapper_inverse (p k : Key) (hp : AllProper p) (hk : AllProper k) :
    unmapPrefix (renderKey p) (join [renderKey p, renderKey k]) = .ok (some (renderKey k)) := by
  rw [join_keys hp hk]
  unfold unmapPrefix
  have : equalsOrContainsPath (renderKey p) (renderKey (p ++ k)) = true :=
    (ecp_keys hp (allProper_append.mpr ⟨hp, hk⟩)).mpr (List.prefix_append p k)
  simp [this, rel_keys hp hk]

/-- … and UnmapFullPath then MapPath is the identity on the mapped subtree; full paths outside
    the prefix do not match. -/
theorem mapper_inverse_unmap (p f : Key) (hp : AllProper p) (hf : AllProper f) :
    (p <+: f → ∃ k, AllProper k ∧ unmapPrefix (renderKey p) (renderKey f) = .ok (some (renderKey k)) ∧
        join [renderKey p, renderKey k] = renderKey f) ∧
    (¬ p <+: f → unmapPrefix (renderKey p) (renderKey f) = .ok none) := by
  constructor
  · intro ⟨k, hk⟩
    have hkp : AllProper k := by rw [← hk] at hf; exact (allProper_append.mp hf).2
    refine ⟨k, hkp, ?_, by rw [join_keys hp hkp, hk]⟩
    rw [← hk, ← join_keys hp hkp]; exact mapper_inverse p k hp hkp
  · intro hnp
    unfold unmapPrefix
    have : equalsOrContainsPath (renderKey p) (renderKey f) = false := by
      cases hh : equalsOrContainsPath (renderKey p) (renderKey f) with
      | false => rfl
      | true => exact absurd ((ecp_keys hp hf).mp hh) hnp
    simp [this]

/-- A union bucket reports, rather than hides, a path present in two members … -/
theorem multi_reports_duplicates (a b : BExpr) (bs : Bases) (path : Str) (ca cb : Content)
    (ha : rGet a bs path = .ok ca) (hb : rGet b bs path = .ok cb) :
    rGet (.multi a b) bs path = .error .multiple := by
  simp [rGet, ha, hb]

/-- … also when walking … -/
theorem multi_walk_reports_duplicates (a b : BExpr) (bs : Bases) (pfx : Str)
    (oa ob : List (Str × Content)) (k : Str) (ca cb : Content)
    (ha : rWalk a bs pfx = .ok oa) (hb : rWalk b bs pfx = .ok ob)
    (hka : (k, ca) ∈ oa) (hkb : (k, cb) ∈ ob) :
    rWalk (.multi a b) bs pfx = .error .multiple := by
  have hm : mergeMulti oa ob = .error .multiple := mergeMulti_dup oa k ca cb hka ob hkb
  simp [rWalk, ha, hb, hm]

/-- … and a single occurrence is served. -/
theorem multi_single (a b : BExpr) (bs : Bases) (path : Str) (ca : Content)
    (ha : rGet a bs path = .ok ca) (hb : rGet b bs path = .error .notExist) :
    rGet (.multi a b) bs path = .ok ca := by
  simp [rGet, ha, hb]

/-- Overlay: the first member wins. -/
theorem overlay_first_wins (a b : BExpr) (bs : Bases) (path : Str) (ca : Content)
    (ha : rGet a bs path = .ok ca) : rGet (.overlay a b) bs path = .ok ca := by
  simp [rGet, ha]

theorem overlay_falls_through (a b : BExpr) (bs : Bases) (path : Str)
    (ha : rGet a bs path = .error .notExist) : rGet (.overlay a b) bs path = rGet b bs path := by
  simp [rGet, ha]

/-- untar_tar / copy: copying a bucket (storage.Copy, or Tar followed by Untar, or Zip followed
    by Unzip) into another bucket makes the target equal, as a map, to the source overlaid on
    the old target; into an empty target it reproduces the source exactly. -/
theorem copy_is_map_union (src dst : Mem) (hv : KeysValid src) (hn : NodupKeys src) :
    ∃ n bs', rCopy (.base 0) [src, dst] 1 = .ok (n, bs') ∧ n = src.length ∧
      ∀ k : Key, AllProper k →
        abs (bs'.get 1) k = (match abs src k with | some c => some c | none => abs dst k) := by
  have hw : rWalk (.base 0) [src, dst] [] = .ok src := by
    have : memWalk src [] = .ok (src.filter fun kv => equalsOrContainsPath dot kv.1) := by
      unfold memWalk validatePrefix
      have : normalizeAndValidate [] = .ok dot := by decide
      rw [this]
    simp only [rWalk, Bases.get, List.getD_cons_zero]
    rw [this]
    congr 1
    apply List.filter_eq_self.mpr
    intro kv _; simp [equalsOrContainsPath]
  obtain ⟨m', hm', hfind⟩ := putAll_spec src hv hn dst
  refine ⟨src.length, Bases.set [src, dst] 1 m', ?_, rfl, ?_⟩
  · simp only [rCopy, hw]
    have : Bases.get [src, dst] 1 = dst := by simp [Bases.get]
    rw [this, hm']
  · intro k hk
    have hget : Bases.get (Bases.set [src, dst] 1 m') 1 = m' := by
      simp [Bases.set, Bases.get, List.range, List.range.loop]
    rw [hget]
    unfold abs
    exact hfind (renderKey k)

theorem untar_tar (src : Mem) (hv : KeysValid src) (hn : NodupKeys src) :
    ∃ n bs', rCopy (.base 0) [src, []] 1 = .ok (n, bs') ∧
      ∀ k : Key, AllProper k → abs (bs'.get 1) k = abs src k := by
  obtain ⟨n, bs', h, _, hall⟩ := copy_is_map_union src [] hv hn
  refine ⟨n, bs', h, ?_⟩
  intro k hk
  rw [hall k hk]
  cases habs : abs src k with
  | some c => rfl
  | none => simp [abs, Mem.find]

/-! ### The disk bucket (a file tree) refines the same map on prefix-free histories -/

open BufModel.Disk in
/-- One step of the disk-bucket tree model. -/
def diskStep (d : Disk) : Op → Disk × Out
  | .get p => match diskGet d p with
      | .ok c => (d, .content c) | .error e => (d, .err e)
  | .put p c => match diskPut d p c with
      | .ok d' => (d', .done) | .error e => (d, .err e)
  | .delete p => match diskDelete d p with
      | .ok d' => (d', .done) | .error e => (d, .err e)
  | .deleteAll p => match diskDeleteAll d p with
      | .ok d' => (d', .done) | .error e => (d, .err e)
  | .walk p => match diskWalk d p with
      | .ok l => (d, .objs l) | .error e => (d, .err e)

open BufModel.Disk in
def diskRun (d : Disk) : List Op → Disk × List Out
  | [] => (d, [])
  | op :: rest =>
    let r := diskStep d op
    let rr := diskRun r.1 rest
    (rr.1, r.2 :: rr.2)

open BufModel.Disk in
/-- The prefix-free discipline of a history relative to the set `U` of keys it ever puts:
    puts only put keys of `U`; a delete never addresses a directory or a path below a file; a
    delete-all / walk prefix is not strictly below a file. -/
def OpOK (U : List Key) : Op → Prop
  | .get _ => True
  | .put p _ => ∀ k, AllProper k → k ≠ [] → normalizeAndValidate p = .ok (renderKey k) → k ∈ U
  | .delete p => ∀ k, AllProper k → normalizeAndValidate p = .ok (renderKey k) → Unrelated U k
  | .deleteAll p => ∀ k, AllProper k → normalizeAndValidate p = .ok (renderKey k) → ∀ u ∈ U, ¬ Below u k
  | .walk p => ∀ k, AllProper k → normalizeAndValidate p = .ok (renderKey k) → ∀ u ∈ U, ¬ Below u k

open BufModel.Disk in
theorem disk_step_refines (U : List Key) (hU : UProper U) (hpf : PrefixFree U) (d : Disk)
    (inv : TreeInv U d) (op : Op) (hop : OpOK U op) :
    (diskStep d op).1.files = (memStep d.files op).1 ∧ (diskStep d op).2 = (memStep d.files op).2 ∧
      TreeInv U (diskStep d op).1 := by
  cases op with
  | get p => simp only [diskStep, memStep, diskGet]; cases memGet d.files p <;> exact ⟨by first | rfl | trivial, by first | rfl | trivial, inv⟩
  | put p c =>
    rcases validatePath_cases p with ⟨e, hnv, hvp⟩ | ⟨hnv, hvp⟩ | ⟨k, hk, hne, hnv, hvp⟩
    · simp only [diskStep, memStep, diskPut, memPut, hvp]; exact ⟨by first | rfl | trivial, by first | rfl | trivial, inv⟩
    · simp only [diskStep, memStep, diskPut, memPut, hvp]; exact ⟨by first | rfl | trivial, by first | rfl | trivial, inv⟩
    · obtain ⟨d', h1, h2, h3⟩ := diskPut_eq_mem inv hU hpf p c k hk hne hvp (hop k hk hne hnv)
      simp only [diskStep, memStep, h1, h2]; exact ⟨by first | rfl | trivial, by first | rfl | trivial, h3⟩
  | delete p =>
    rcases validatePath_cases p with ⟨e, hnv, hvp⟩ | ⟨hnv, hvp⟩ | ⟨k, hk, hne, hnv, hvp⟩
    · simp only [diskStep, memStep, diskDelete, memDelete, hvp]; exact ⟨by first | rfl | trivial, by first | rfl | trivial, inv⟩
    · simp only [diskStep, memStep, diskDelete, memDelete, hvp]; exact ⟨by first | rfl | trivial, by first | rfl | trivial, inv⟩
    · rcases diskDelete_eq_mem inv hU p k hk hne hvp (hop k hk hnv) with ⟨d', h1, h2, h3⟩ | ⟨h1, h2⟩
      · simp only [diskStep, memStep, h1, h2]; exact ⟨by first | rfl | trivial, by first | rfl | trivial, h3⟩
      · simp only [diskStep, memStep, h1, h2]; exact ⟨by first | rfl | trivial, by first | rfl | trivial, inv⟩
  | deleteAll p =>
    cases hnv : normalizeAndValidate p with
    | error e =>
      simp only [diskStep, memStep, diskDeleteAll, memDeleteAll, validatePrefix, hnv]; exact ⟨by first | rfl | trivial, by first | rfl | trivial, inv⟩
    | ok q =>
      obtain ⟨k, hk, hq⟩ := BufModel.Path.validate_sound p q hnv
      subst hq
      obtain ⟨d', h1, h2, h3⟩ := diskDeleteAll_eq_mem inv hU p k hk (by unfold validatePrefix; exact hnv) (hop k hk hnv)
      simp only [diskStep, memStep, h1, h2]; exact ⟨by first | rfl | trivial, by first | rfl | trivial, h3⟩
  | walk p =>
    cases hnv : normalizeAndValidate p with
    | error e =>
      have h1 : underFile d.files p = false := by unfold underFile validatePrefix; rw [hnv]
      simp only [diskStep, memStep, diskWalk, h1, Bool.false_eq_true, if_false]
      cases memWalk d.files p <;> exact ⟨by first | rfl | trivial, by first | rfl | trivial, inv⟩
    | ok q =>
      obtain ⟨k, hk, hq⟩ := BufModel.Path.validate_sound p q hnv
      subst hq
      have := diskWalk_eq_mem inv hU p k hk (by unfold validatePrefix; exact hnv) (hop k hk hnv)
      simp only [diskStep, memStep, this]
      cases memWalk d.files p <;> exact ⟨by first | rfl | trivial, by first | rfl | trivial, inv⟩

open BufModel.Disk in
/-- disk_refines_map: on every history that keeps to a prefix-free set `U` of object keys (no
    object name is a directory of another; deletes address objects, not directories; prefixes
    do not point below an object) the disk bucket — a real file TREE with directories, ENOTDIR /
    EISDIR failures and leftover empty directories — gives exactly the outputs of the memory
    bucket and holds exactly the same objects; by `mem_refines_spec` it therefore behaves as
    the abstract path→bytes map. -/
theorem disk_refines_map (U : List Key) (hU : UProper U) (hpf : PrefixFree U) (ops : List Op)
    (hops : ∀ op ∈ ops, OpOK U op) (d : Disk) (inv : TreeInv U d) :
    (diskRun d ops).1.files = (memRun d.files ops).1 ∧ (diskRun d ops).2 = (memRun d.files ops).2 := by
  induction ops generalizing d with
  | nil => exact ⟨rfl, rfl⟩
  | cons op rest ih =>
    obtain ⟨hf, ho, hinv⟩ := disk_step_refines U hU hpf d inv op (hops op (by simp))
    obtain ⟨ihf, iho⟩ := ih (fun o ho => hops o (List.mem_cons_of_mem _ ho)) (diskStep d op).1 hinv
    simp only [diskRun, memRun]
    rw [hf] at ihf iho
    exact ⟨ihf, by rw [ho, iho]⟩

/-- Outside the discipline the tree and the map DO differ (why the hypothesis is needed): a put
    below an existing object fails on disk and succeeds in memory. -/
theorem disk_differs_without_prefix_freedom :
    (diskRun BufModel.Disk.empty [.put "a".toList "1", .put "a/b".toList "2"]).2 ≠
      (memRun [] [.put "a".toList "1", .put "a/b".toList "2"]).2 := by decide

-- non-vacuity: a concrete history with awkward spellings, run through the model
example : (memRun [] [.put "a//x".toList "1", .put "./b".toList "2", .deleteAll "a/.".toList, .get "b/".toList]).2.length = 4 := by
  decide
example : KeysValid [("a/x".toList, "1")] := by
  intro kv h; simp at h; subst h
  exact ⟨["a".toList, "x".toList], by intro n hn; simp at hn; rcases hn with rfl | rfl <;> decide, by simp, by decide⟩

end BufProofs.C14
