import BufProofs.Lemmas.PathLemmas
import BufProofs.Lemmas.BucketLemmas
import BufProofs.Props.C13
import BufProofs.Lemmas.DiskLemmas
import BufProofs.Lemmas.ArchiveLemmas
import BufProofs.Lemmas.ReaderLemmas
/-
  C14 — All bucket implementations and combinators behave as one path→bytes map.

  The abstract specification is a function `Spec := Key → Option Content`; a key is a list of
  proper path components.  `abs m` reads a memory bucket as such a function, `absE e bs` reads
  a composite read bucket (prefix view / filter / union / overlay / external-path-strip over
  base buckets) as one.

  * memory bucket: `mem_refines_spec` (every history, every path string);
  * every composite: `walk_get_coherent` (a walk lists exactly what get finds, each once),
    `walk_lists_exactly_the_map`, the `*_abs` equations, `copy_is_map_union`;
  * archives: `tar_lists_walked_objects`, `untar_tar`, `untar_tar_strip`, `untar_tar_composite`
    over the entry-level model BufModel/Archive.lean (byte codecs = library parameter);
  * disk bucket (file tree): `disk_refines_map` on prefix-free histories;
  * what the correspondence driver executes for disk-backed composites (`rWalkD`, `copyD`) is
    tied to `rWalk`/`rCopy` by `walkD_all_memory_is_walk`, `walkD_ok_is_walk`,
    `copyD_refines_copy`.
  * reader handles (BufModel/Reader.lean): `read_after_overwrite_is_snapshot` (a memory reader yields
    the content at Get time whatever is written later), `disk_reader_after_rename_or_unlink_is_snapshot`,
    `disk_reader_after_plain_put_reads_new_content` (disk, as coded = POSIX open-file semantics);
  * repeated / colliding archive members: `extract_last_member_wins`,
    `untar_duplicate_member_last_wins`, `first_member_wins_counterexample`.
  Pure helper lemmas live in Lemmas/BucketLemmas.lean, ArchiveLemmas.lean, DiskLemmas.lean,
  ReaderLemmas.lean.
-/
namespace BufProofs.C14
open BufModel.Path BufModel.Bucket BufModel.Archive

abbrev Spec := Key → Option Content

/-- A memory bucket read as an abstract map. -/
def abs (m : Mem) : Spec := fun k => m.find (renderKey k)

inductive Op where
  | get (p : Str)
  | put (p : Str) (c : Content)
  | delete (p : Str)
  | deleteAll (p : Str)
  | walk (p : Str)

inductive Out where
  | done
  | content (c : Content)
  | objs (l : List (Str × Content))
  | err (e : PErr)
  deriving DecidableEq

/-- One step of the memory bucket. Failed operations leave the state unchanged. -/
def memStep (m : Mem) : Op → Mem × Out
  | .get p => match memGet m p with
      | .ok c => (m, .content c) | .error e => (m, .err e)
  | .put p c => match memPut m p c with
      | .ok m' => (m', .done) | .error e => (m, .err e)
  | .delete p => match memDelete m p with
      | .ok m' => (m', .done) | .error e => (m, .err e)
  | .deleteAll p => match memDeleteAll m p with
      | .ok m' => (m', .done) | .error e => (m, .err e)
  | .walk p => match memWalk m p with
      | .ok l => (m, .objs l) | .error e => (m, .err e)

/-- What the abstract map does for each operation (the specification, readable in a minute).
    `keyOf` (BufModel/Bucket.lean) reads the path argument: an error class, or the key it denotes.
    A walk result consists of rendered keys only (`KeysRendered`: no junk entries), lists no key
    twice, and holds exactly the map's entries under the prefix key. -/
inductive SpecStep : Spec → Op → Spec → Out → Prop where
  | getOk (σ : Spec) (p : Str) (k : Key) (c : Content) :
      keyOf p = .ok k → k ≠ [] → σ k = some c → SpecStep σ (.get p) σ (.content c)
  | getMissing (σ : Spec) (p : Str) (k : Key) :
      keyOf p = .ok k → k ≠ [] → σ k = none → SpecStep σ (.get p) σ (.err .notExist)
  | putOk (σ σ' : Spec) (p : Str) (k : Key) (c : Content) :
      keyOf p = .ok k → k ≠ [] →
      (∀ k', AllProper k' → σ' k' = if k' = k then some c else σ k') → SpecStep σ (.put p c) σ' .done
  | deleteOk (σ σ' : Spec) (p : Str) (k : Key) :
      keyOf p = .ok k → k ≠ [] → σ k ≠ none →
      (∀ k', AllProper k' → σ' k' = if k' = k then none else σ k') → SpecStep σ (.delete p) σ' .done
  | deleteMissing (σ : Spec) (p : Str) (k : Key) :
      keyOf p = .ok k → k ≠ [] → σ k = none → SpecStep σ (.delete p) σ (.err .notExist)
  | deleteAllOk (σ σ' : Spec) (p : Str) (k : Key) :
      keyOf p = .ok k →
      (∀ k', AllProper k' → σ' k' = if k <+: k' then none else σ k') → SpecStep σ (.deleteAll p) σ' .done
  | walkOk (σ : Spec) (p : Str) (k : Key) (l : List (Str × Content)) :
      keyOf p = .ok k → NodupKeys l → KeysRendered l →
      (∀ k' c, AllProper k' → ((renderKey k', c) ∈ l ↔ (k <+: k' ∧ σ k' = some c))) →
      SpecStep σ (.walk p) σ (.objs l)
  | root (σ : Spec) (op : Op) (p : Str) :
      keyOf p = .ok [] → (op = .get p ∨ (∃ c, op = .put p c) ∨ op = .delete p) → SpecStep σ op σ (.err .root)
  | invalid (σ : Spec) (op : Op) (p : Str) (e : PErr) :
      keyOf p = .error e →
      (op = .get p ∨ (∃ c, op = .put p c) ∨ op = .delete p ∨ op = .deleteAll p ∨ op = .walk p) →
      SpecStep σ op σ (.err e)

/-- mem_refines_spec (one step): every step of the memory bucket, on ANY path string, is a step
    of the abstract map with the same output, and the invariants are kept. -/
theorem mem_refines_spec_step (m : Mem) (hv : KeysValid m) (hn : NodupKeys m) (op : Op) :
    SpecStep (abs m) op (abs (memStep m op).1) (memStep m op).2 ∧
      KeysValid (memStep m op).1 ∧ NodupKeys (memStep m op).1 := by
  cases op with
  | get p =>
    rcases validatePath_cases p with ⟨e, hnv, hvp⟩ | ⟨hnv, hvp⟩ | ⟨k, hk, hne, hnv, hvp⟩
    · simp only [memStep, memGet, hvp]
      exact ⟨.invalid _ _ p e (keyOf_error hnv) (Or.inl rfl), hv, hn⟩
    · simp only [memStep, memGet, hvp]
      exact ⟨.root _ _ p (keyOf_dot hnv) (Or.inl rfl), hv, hn⟩
    · simp only [memStep, memGet, hvp]
      cases hf : m.find (renderKey k) with
      | none => exact ⟨.getMissing _ p k (keyOf_of_validate hk hnv) hne hf, hv, hn⟩
      | some c => exact ⟨.getOk _ p k c (keyOf_of_validate hk hnv) hne hf, hv, hn⟩
  | put p c =>
    rcases validatePath_cases p with ⟨e, hnv, hvp⟩ | ⟨hnv, hvp⟩ | ⟨k, hk, hne, hnv, hvp⟩
    · simp only [memStep, memPut, hvp]
      exact ⟨.invalid _ _ p e (keyOf_error hnv) (Or.inr (Or.inl ⟨c, rfl⟩)), hv, hn⟩
    · simp only [memStep, memPut, hvp]
      exact ⟨.root _ _ p (keyOf_dot hnv) (Or.inr (Or.inl ⟨c, rfl⟩)), hv, hn⟩
    · simp only [memStep, memPut, hvp]
      refine ⟨.putOk _ _ p k c (keyOf_of_validate hk hnv) hne ?_, ?_, nodupKeys_put hn _ c⟩
      · intro k' hk'
        unfold abs
        by_cases he : k' = k
        · subst he; rw [find_cons_eq]; simp
        · have hne' : renderKey k ≠ renderKey k' := fun e => he (renderKey_inj hk hk' e).symm
          rw [find_cons_ne _ _ _ _ hne', find_erase_ne _ _ _ hne', if_neg he]
      · exact keysValid_cons (keysValid_erase hv _) hk hne c
  | delete p =>
    rcases validatePath_cases p with ⟨e, hnv, hvp⟩ | ⟨hnv, hvp⟩ | ⟨k, hk, hne, hnv, hvp⟩
    · simp only [memStep, memDelete, hvp]
      exact ⟨.invalid _ _ p e (keyOf_error hnv) (Or.inr (Or.inr (Or.inl rfl))), hv, hn⟩
    · simp only [memStep, memDelete, hvp]
      exact ⟨.root _ _ p (keyOf_dot hnv) (Or.inr (Or.inr rfl)), hv, hn⟩
    · simp only [memStep, memDelete, hvp]
      cases hf : m.find (renderKey k) with
      | none => exact ⟨.deleteMissing _ p k (keyOf_of_validate hk hnv) hne hf, hv, hn⟩
      | some c0 =>
        refine ⟨.deleteOk _ _ p k (keyOf_of_validate hk hnv) hne (by unfold abs; rw [hf]; simp) ?_,
          keysValid_erase hv _, nodupKeys_filter hn _⟩
        intro k' hk'
        unfold abs
        by_cases he : k' = k
        · subst he; rw [find_erase_eq]; simp
        · have hne' : renderKey k ≠ renderKey k' := fun e => he (renderKey_inj hk hk' e).symm
          rw [find_erase_ne _ _ _ hne', if_neg he]
  | deleteAll p =>
    simp only [memStep, memDeleteAll, validatePrefix]
    cases hnv : normalizeAndValidate p with
    | error e => exact ⟨.invalid _ _ p e (keyOf_error hnv) (Or.inr (Or.inr (Or.inr (Or.inl rfl)))), hv, hn⟩
    | ok q =>
      obtain ⟨k, hk, hq⟩ := BufModel.Path.validate_sound p q hnv
      subst hq
      refine ⟨.deleteAllOk _ _ p k (keyOf_of_validate hk hnv) ?_, keysValid_filter hv _, nodupKeys_filter hn _⟩
      intro k' hk'
      unfold abs
      simp only
      rw [find_filter m (fun s => !equalsOrContainsPath (renderKey k) s)]
      by_cases hp : k <+: k'
      · simp [(ecp_keys hk hk').mpr hp, hp]
      · have : equalsOrContainsPath (renderKey k) (renderKey k') = false := by
          cases hh : equalsOrContainsPath (renderKey k) (renderKey k') with
          | false => rfl
          | true => exact absurd ((ecp_keys hk hk').mp hh) hp
        simp [this, hp]
  | walk p =>
    simp only [memStep]
    cases hw : memWalk m p with
    | error e =>
      refine ⟨.invalid _ _ p e ?_ (Or.inr (Or.inr (Or.inr (Or.inr rfl)))), hv, hn⟩
      unfold memWalk validatePrefix at hw
      cases hnv : normalizeAndValidate p with
      | error e' => rw [hnv] at hw; injection hw with hw; subst hw; exact keyOf_error hnv
      | ok q => rw [hnv] at hw; cases hw
    | ok l =>
      obtain ⟨kq, hkq, hnv, hnd, hrend, hall⟩ :=
        vWalk_pre_exact [] trivial trivial m hv hn p l (by simpa only [List.map, vWalk] using hw)
      exact ⟨.walkOk _ p kq l (keyOf_of_validate hkq hnv) hnd hrend
        (fun k' c hk' => by simpa only [fullKey, List.nil_append, abs] using hall k' c hk'), hv, hn⟩

/-- Run a whole history. -/
def memRun (m : Mem) : List Op → Mem × List Out
  | [] => (m, [])
  | op :: rest =>
    let r := memStep m op
    let rr := memRun r.1 rest
    (rr.1, r.2 :: rr.2)

/-- A history of the abstract map: each step satisfies the specification. -/
inductive SpecRun : Spec → List Op → Spec → List Out → Prop where
  | nil (σ : Spec) : SpecRun σ [] σ []
  | cons (σ σ' σ'' : Spec) (op : Op) (o : Out) (ops : List Op) (os : List Out) :
      SpecStep σ op σ' o → SpecRun σ' ops σ'' os → SpecRun σ (op :: ops) σ'' (o :: os)

/-- mem_refines_spec: after ANY finite sequence of put / delete / delete-all / get / walk
    operations with ANY path strings, starting from the empty bucket, the memory bucket has
    produced exactly the outputs the abstract path→bytes map prescribes. -/
theorem mem_refines_spec (ops : List Op) (m : Mem) (hv : KeysValid m) (hn : NodupKeys m) :
    SpecRun (abs m) ops (abs (memRun m ops).1) (memRun m ops).2 ∧
      KeysValid (memRun m ops).1 ∧ NodupKeys (memRun m ops).1 := by
  induction ops generalizing m with
  | nil => exact ⟨.nil _, hv, hn⟩
  | cons op rest ih =>
    obtain ⟨hstep, hv', hn'⟩ := mem_refines_spec_step m hv hn op
    obtain ⟨hrun, hv'', hn''⟩ := ih (memStep m op).1 hv' hn'
    exact ⟨.cons _ _ _ op _ rest _ hstep hrun, hv'', hn''⟩

theorem mem_refines_spec_from_empty (ops : List Op) :
    SpecRun (abs []) ops (abs (memRun [] ops).1) (memRun [] ops).2 :=
  (mem_refines_spec ops [] keysValid_nil (by simp [NodupKeys])).1

/-- Equivalent spellings of a path denote the same object: operations depend on their path
    argument only through its normalised, validated form. -/
theorem spelling_irrelevant (m : Mem) (s₁ s₂ : Str)
    (h : normalizeAndValidate s₁ = normalizeAndValidate s₂) (c : Content) :
    memStep m (.get s₁) = memStep m (.get s₂) ∧ memStep m (.put s₁ c) = memStep m (.put s₂ c) ∧
    memStep m (.delete s₁) = memStep m (.delete s₂) ∧ memStep m (.deleteAll s₁) = memStep m (.deleteAll s₂) ∧
    memStep m (.walk s₁) = memStep m (.walk s₂) := by
  have hvp : validatePath s₁ = validatePath s₂ := by unfold validatePath; rw [h]
  have hpf : validatePrefix s₁ = validatePrefix s₂ := by unfold validatePrefix; rw [h]
  refine ⟨?_, ?_, ?_, ?_, ?_⟩ <;>
    simp only [memStep, memGet, memPut, memDelete, memDeleteAll, memWalk, hvp, hpf]

/-- The same through any view. -/
theorem spelling_irrelevant_view (ls : List Layer) (m : Mem) (s₁ s₂ : Str)
    (h : normalizeAndValidate s₁ = normalizeAndValidate s₂) (c : Content) :
    vGet ls m s₁ = vGet ls m s₂ ∧ vPut ls m s₁ c = vPut ls m s₂ c ∧ vDelete ls m s₁ = vDelete ls m s₂ ∧
    vDeleteAll ls m s₁ = vDeleteAll ls m s₂ ∧ vWalk ls m s₁ = vWalk ls m s₂ := by
  have hvp : validatePath s₁ = validatePath s₂ := by unfold validatePath; rw [h]
  have hpf : validatePrefix s₁ = validatePrefix s₂ := by unfold validatePrefix; rw [h]
  cases ls with
  | nil => simp only [vGet, vPut, vDelete, vDeleteAll, vWalk, memGet, memPut, memDelete, memDeleteAll, memWalk, hvp, hpf, and_self]
  | cons l ls =>
    cases l with
    | pre p => simp only [vGet, vPut, vDelete, vDeleteAll, vWalk, mapFullPath, h, and_self]
    | filt f => simp only [vGet, vPut, vDelete, vDeleteAll, vWalk, h, and_self]

/-- walk_exact through views: a walk through ANY nesting of prefix-mapped views visits exactly
    the objects stored under (view root ++ requested prefix) — component-wise —, each once,
    reporting view-relative paths. -/
theorem walk_exact_through_prefix_views (ls : List KLayer) (hls : KLayersOK ls) (hpre : PreOnly ls)
    (m : Mem) (hv : KeysValid m) (hn : NodupKeys m) (pfx : Str) (objs : List (Str × Content))
    (h : vWalk (ls.map KLayer.toLayer) m pfx = .ok objs) :
    ∃ kq : Key, AllProper kq ∧ normalizeAndValidate pfx = .ok (renderKey kq) ∧
      NodupKeys objs ∧
      ∀ (kk : Key) (c : Content), AllProper kk →
        ((renderKey kk, c) ∈ objs ↔ (kq <+: kk ∧ Mem.find m (renderKey (fullKey ls ++ kk)) = some c)) := by
  obtain ⟨kq, h1, h2, h3, _, h5⟩ := vWalk_pre_exact ls hls hpre m hv hn pfx objs h
  exact ⟨kq, h1, h2, h3, h5⟩

/-- Prefixes are path-wise, not string-wise. -/
theorem prefix_is_pathwise (a b : Key) (ha : AllProper a) (hb : AllProper b) :
    equalsOrContainsPath (renderKey a) (renderKey b) = true ↔ a <+: b := ecp_keys ha hb

example : equalsOrContainsPath "a".toList "ab".toList = false := by decide
example : equalsOrContainsPath "a".toList "a.b".toList = false := by decide
example : equalsOrContainsPath "a".toList "a/b".toList = true := by decide

/-- mapper_inverse: MapPath then UnmapFullPath is the identity on keys … -/
theorem mapper_inverse (p k : Key) (hp : AllProper p) (hk : AllProper k) :
    unmapPrefix (renderKey p) (join [renderKey p, renderKey k]) = .ok (some (renderKey k)) := by
  rw [join_keys hp hk]
  unfold unmapPrefix
  have : equalsOrContainsPath (renderKey p) (renderKey (p ++ k)) = true :=
    (ecp_keys hp (allProper_append.mpr ⟨hp, hk⟩)).mpr (List.prefix_append p k)
  simp [this, rel_keys hp hk]

/-- … and UnmapFullPath then MapPath is the identity on the mapped subtree; full paths outside
    the prefix do not match. -/
theorem mapper_inverse_unmap (p f : Key) (hp : AllProper p) (hf : AllProper f) :
    (p <+: f → ∃ k, AllProper k ∧ unmapPrefix (renderKey p) (renderKey f) = .ok (some (renderKey k)) ∧
        join [renderKey p, renderKey k] = renderKey f) ∧
    (¬ p <+: f → unmapPrefix (renderKey p) (renderKey f) = .ok none) := by
  constructor
  · intro ⟨k, hk⟩
    have hkp : AllProper k := by rw [← hk] at hf; exact (allProper_append.mp hf).2
    refine ⟨k, hkp, ?_, by rw [join_keys hp hkp, hk]⟩
    rw [← hk, ← join_keys hp hkp]; exact mapper_inverse p k hp hkp
  · intro hnp
    unfold unmapPrefix
    have : equalsOrContainsPath (renderKey p) (renderKey f) = false := by
      cases hh : equalsOrContainsPath (renderKey p) (renderKey f) with
      | false => rfl
      | true => exact absurd ((ecp_keys hp hf).mp hh) hnp
    simp [this]

/-- A union bucket reports, rather than hides, a path present in two members … -/
theorem multi_reports_duplicates (a b : BExpr) (bs : Bases) (path : Str) (ca cb : Content)
    (ha : rGet a bs path = .ok ca) (hb : rGet b bs path = .ok cb) :
    rGet (.multi a b) bs path = .error .multiple := by
  simp [rGet, ha, hb]

/-- … also when walking … -/
theorem multi_walk_reports_duplicates (a b : BExpr) (bs : Bases) (pfx : Str)
    (oa ob : List (Str × Content)) (k : Str) (ca cb : Content)
    (ha : rWalk a bs pfx = .ok oa) (hb : rWalk b bs pfx = .ok ob)
    (hka : (k, ca) ∈ oa) (hkb : (k, cb) ∈ ob) :
    rWalk (.multi a b) bs pfx = .error .multiple := by
  have hm : mergeMulti oa ob = .error .multiple := mergeMulti_dup oa k ca cb hka ob hkb
  simp [rWalk, ha, hb, hm]

/-- … and a single occurrence is served. -/
theorem multi_single (a b : BExpr) (bs : Bases) (path : Str) (ca : Content)
    (ha : rGet a bs path = .ok ca) (hb : rGet b bs path = .error .notExist) :
    rGet (.multi a b) bs path = .ok ca := by
  simp [rGet, ha, hb]

/-- Overlay: the first member wins. -/
theorem overlay_first_wins (a b : BExpr) (bs : Bases) (path : Str) (ca : Content)
    (ha : rGet a bs path = .ok ca) : rGet (.overlay a b) bs path = .ok ca := by
  simp [rGet, ha]

theorem overlay_falls_through (a b : BExpr) (bs : Bases) (path : Str)
    (ha : rGet a bs path = .error .notExist) : rGet (.overlay a b) bs path = rGet b bs path := by
  simp [rGet, ha]

/-! ### Every composite read bucket behaves as ONE path→bytes map -/

/-- walk_get_coherent (audit S2): for EVERY composite read bucket `e` — any nesting of prefix
    views, filtered views, unions, overlays and external-path-strips over base buckets — a
    successful walk visits exactly the paths a get would find, with the same contents, each once.
    Hypotheses: every `MapOnPrefix` prefix is a normalised validated path (`e.WF`, the documented
    precondition of `MapOnPrefix`), and the base buckets satisfy the memory-bucket invariants
    (`BasesOK`, preserved by every operation: `mem_refines_spec`).  Then, if
    `Walk(pfx) = ok objs`, with `kq` the key `pfx` denotes:
      (a) every listed `(k, c)` is a rendered key `kk` under `kq`, and `Get(k) = ok c`
          provided `kk ≠ []`;
      (b) every non-root key under `kq` with `Get = ok c` is listed with `c`;
      (c) no key is listed twice;
      (d) below the prefix `Get` is `ok` or `not-exist` — no other error.
    The proviso `kk ≠ []` in (a) is the weakest possible: as coded, a prefix view rooted exactly
    AT a stored object path lists that object under the path "." (`prefixMapper.UnmapFullPath`
    returns `Rel(p, p) = "."`), and `Get(".")` is rejected ("cannot get root",
    `walk_lists_root_object_counterexample`).  No hypothesis excludes that state: the theorem
    covers it and says precisely that "." is the only listed path a get does not serve. -/
theorem walk_get_coherent (e : BExpr) (he : e.WF) (bs : Bases) (hbs : BasesOK bs) (pfx : Str)
    (objs : List (Str × Content)) (h : rWalk e bs pfx = .ok objs) :
    ∃ kq : Key, AllProper kq ∧ normalizeAndValidate pfx = .ok (renderKey kq) ∧
      (∀ kc ∈ objs, ∃ kk : Key, AllProper kk ∧ kc.1 = renderKey kk ∧ kq <+: kk ∧
          (kk ≠ [] → rGet e bs kc.1 = .ok kc.2)) ∧
      (∀ (kk : Key) (c : Content), AllProper kk → kk ≠ [] → kq <+: kk →
          rGet e bs (renderKey kk) = .ok c → (renderKey kk, c) ∈ objs) ∧
      NodupKeys objs ∧
      (∀ kk : Key, AllProper kk → kk ≠ [] → kq <+: kk →
          (∃ c, rGet e bs (renderKey kk) = .ok c) ∨ rGet e bs (renderKey kk) = .error .notExist) := by
  obtain ⟨kq, hkq, hnv, hc⟩ := rWalk_coherent e he bs hbs pfx objs h
  refine ⟨kq, hkq, hnv, ?_, hc.complete, hc.nodup, hc.total⟩
  intro kc hkc
  obtain ⟨kk, hkk, hk⟩ := hc.rendered kc hkc
  obtain ⟨h1, h2⟩ := hc.sound kk kc.2 hkk (by rw [← hk]; exact hkc)
  exact ⟨kk, hkk, hk, h1, fun hne => by rw [hk]; exact h2 hne⟩

/-- The same as an equation between the walk result and the composite read as an abstract map
    `absE e bs` (what `Get` finds at each key): the walk lists exactly the map's entries under
    the prefix. -/
theorem walk_lists_exactly_the_map (e : BExpr) (he : e.WF) (bs : Bases) (hbs : BasesOK bs) (pfx : Str)
    (objs : List (Str × Content)) (h : rWalk e bs pfx = .ok objs) :
    ∃ kq : Key, AllProper kq ∧ normalizeAndValidate pfx = .ok (renderKey kq) ∧
      ∀ (kk : Key) (c : Content), AllProper kk → kk ≠ [] →
        ((renderKey kk, c) ∈ objs ↔ (kq <+: kk ∧ absE e bs kk = some c)) :=
  rWalk_lists_absE e he bs hbs pfx objs h

/-- As coded: a prefix view rooted AT an object lists it as "." and cannot get it. -/
theorem walk_lists_root_object_counterexample :
    rWalk (.pre "a".toList (.base 0)) [[("a".toList, "1")]] [] = .ok [(".".toList, "1")] ∧
    rGet (.pre "a".toList (.base 0)) [[("a".toList, "1")]] ".".toList = .error .root := by decide

/-- For a proper path a composite get/stat finds an object, reports not-exist, or — only below
    a union — reports the path as present in several members: no other outcome. -/
theorem get_is_found_missing_or_duplicate (e : BExpr) (he : e.WF) (bs : Bases) (k : Key)
    (hk : AllProper k) (hne : k ≠ []) :
    (∃ c, rGet e bs (renderKey k) = .ok c) ∨ rGet e bs (renderKey k) = .error .notExist ∨
      rGet e bs (renderKey k) = .error .multiple :=
  rGet_key_cases e he bs hk hne

/-- Equivalent spellings through every composite. -/
theorem spelling_irrelevant_composite (e : BExpr) (bs : Bases) (s₁ s₂ : Str)
    (h : normalizeAndValidate s₁ = normalizeAndValidate s₂) :
    rGet e bs s₁ = rGet e bs s₂ ∧ rWalk e bs s₁ = rWalk e bs s₂ :=
  ⟨rGet_spelling e bs s₁ s₂ h, rWalk_spelling e bs s₁ s₂ h⟩

example : normalizeAndValidate "a//x".toList = normalizeAndValidate "./a/q/../x/".toList := by decide

/-- Equivalent spellings denote the same object (not a mere congruence): EVERY path string that
    denotes the key `k` (`keyOf s = ok k`: after normalisation and validation) behaves, in every
    memory-bucket operation and through every composite, exactly like the canonical rendering
    of `k`.  So two spellings with the same key are interchangeable, and the key alone decides. -/
theorem spelling_denotes_key (s : Str) (k : Key) (h : keyOf s = .ok k) (m : Mem) (c : Content)
    (e : BExpr) (bs : Bases) :
    memStep m (.get s) = memStep m (.get (renderKey k)) ∧
    memStep m (.put s c) = memStep m (.put (renderKey k) c) ∧
    memStep m (.delete s) = memStep m (.delete (renderKey k)) ∧
    memStep m (.deleteAll s) = memStep m (.deleteAll (renderKey k)) ∧
    memStep m (.walk s) = memStep m (.walk (renderKey k)) ∧
    rGet e bs s = rGet e bs (renderKey k) ∧ rWalk e bs s = rWalk e bs (renderKey k) := by
  obtain ⟨hk, hnv⟩ := keyOf_ok h
  have heq : normalizeAndValidate s = normalizeAndValidate (renderKey k) := by
    rw [hnv, validate_renderKey hk]
  obtain ⟨h1, h2, h3, h4, h5⟩ := spelling_irrelevant m s (renderKey k) heq c
  exact ⟨h1, h2, h3, h4, h5, rGet_spelling e bs _ _ heq, rWalk_spelling e bs _ _ heq⟩

example : keyOf "./a/q/../x/".toList = .ok ["a".toList, "x".toList] := by decide

/-- Get through prefix views, both directions (audit: completeness / not-exist): for any path
    that validates to a non-root key `kq`, get through ANY nesting of prefix views is `ok c`
    exactly when the base bucket stores `c` at (view root ++ kq), and `not-exist` otherwise. -/
theorem prefix_view_get_complete (ls : List KLayer) (hls : KLayersOK ls) (hpre : PreOnly ls) (m : Mem)
    (path : Str) (kq : Key) (hkq : AllProper kq) (hne : kq ≠ [])
    (hnv : normalizeAndValidate path = .ok (renderKey kq)) :
    vGet (ls.map KLayer.toLayer) m path =
      (match m.find (renderKey (fullKey ls ++ kq)) with
        | some c => .ok c
        | none => .error .notExist) :=
  vGet_pre_complete ls hls hpre m path kq hkq hne hnv

/-- mapView_abs: a prefix view over any composite is the sub-map below the prefix. -/
theorem prefix_view_abs (b : BExpr) (bs : Bases) (p k : Key) (hp : AllProper p) (hk : AllProper k)
    (hne : k ≠ []) : absE (.pre (renderKey p) b) bs k = absE b bs (p ++ k) :=
  absE_pre b bs hp hk hne

/-- filterView_abs: a filtered view is the restriction of the map to the matching paths. -/
theorem filter_view_abs (f : Matcher) (b : BExpr) (bs : Bases) (k : Key) (hk : AllProper k) :
    absE (.filt f b) bs k = if f.matches (renderKey k) then absE b bs k else none :=
  absE_filt f b bs hk

/-- An overlay is the left-biased union of the members' maps. -/
theorem overlay_abs (a b : BExpr) (bs : Bases) (k : Key) (he : a.WF) (hk : AllProper k) (hne : k ≠ [])
    (hm : rGet a bs (renderKey k) ≠ .error .multiple) :
    absE (.overlay a b) bs k = (match absE a bs k with | some c => some c | none => absE b bs k) :=
  absE_overlay a b bs k hm he hk hne

/-- A union is the DISJOINT union of the members' maps; a key present in both is reported. -/
theorem union_abs (a b : BExpr) (bs : Bases) (k : Key) (ha : a.WF) (hb : b.WF) (hk : AllProper k) (hne : k ≠ [])
    (hma : rGet a bs (renderKey k) ≠ .error .multiple) (hmb : rGet b bs (renderKey k) ≠ .error .multiple) :
    absE (.multi a b) bs k =
      (match absE a bs k, absE b bs k with
        | some c, none => some c
        | none, some c => some c
        | _, _ => none) ∧
    ((absE a bs k).isSome → (absE b bs k).isSome → rGet (.multi a b) bs (renderKey k) = .error .multiple) :=
  absE_multi a b bs k ha hb hk hne hma hmb

/-- storage.StripReadBucketExternalPaths changes no path and no content: get and walk are those
    of the wrapped bucket (it only rewrites ExternalPath metadata, which the model — objects are
    (path, content) — does not carry; the harness checks ExternalPath == Path on the real one). -/
theorem strip_external_paths_is_identity (b : BExpr) (bs : Bases) (s : Str) :
    rGet (.strip b) bs s = rGet b bs s ∧ rWalk (.strip b) bs s = rWalk b bs s := by
  simp only [rGet, rWalk, and_self]

/-! ### Copy -/

/-- copy_is_map_union, for an ARBITRARY composite source: if `storage.Copy(e, target)` succeeds
    then the target holds, at every key, the object `Get` finds in the source if there is one,
    else what it held before; every other base is untouched; the invariants are kept; the count
    is the number of objects the source walk listed. -/
theorem copy_is_map_union (e : BExpr) (he : e.WF) (bs : Bases) (hbs : BasesOK bs) (t n : Nat)
    (bs' : Bases) (h : rCopy e bs t = .ok (n, bs')) :
    (∃ objs, rWalk e bs [] = .ok objs ∧ n = objs.length) ∧
    (∀ j, j ≠ t → bs'.get j = bs.get j) ∧ KeysValid (bs'.get t) ∧ NodupKeys (bs'.get t) ∧
    ∀ k : Key, AllProper k → k ≠ [] →
      abs (bs'.get t) k = (match absE e bs k with | some c => some c | none => abs (bs.get t) k) := by
  obtain ⟨⟨objs, h1, h2, _⟩, h3, h4, h5, h6⟩ := rCopy_spec e he bs hbs t n bs' h
  refine ⟨⟨objs, h1, h2⟩, h3, h4, h5, ?_⟩
  intro k hk hne
  unfold abs absE
  rw [h6 k hk hne]
  cases rGet e bs (renderKey k) <;> rfl

/-- … and the copy does succeed whenever the source walk succeeds and does not report the view
    root "." as an object. -/
theorem copy_succeeds (e : BExpr) (he : e.WF) (bs : Bases) (hbs : BasesOK bs) (t : Nat)
    (objs : List (Str × Content)) (hw : rWalk e bs [] = .ok objs) (hroot : ∀ c, (dot, c) ∉ objs) :
    ∃ bs', rCopy e bs t = .ok (objs.length, bs') :=
  rCopy_succeeds e he bs hbs t objs hw hroot

/-- copy_into_empty (formerly mis-named `untar_tar`): `storage.Copy` of a memory bucket into an
    empty one reproduces the source exactly, as a map. -/
theorem copy_into_empty (src : Mem) (hv : KeysValid src) (hn : NodupKeys src) :
    ∃ n bs', rCopy (.base 0) [src, []] 1 = .ok (n, bs') ∧ n = src.length ∧
      ∀ k : Key, AllProper k → k ≠ [] → abs (bs'.get 1) k = abs src k := by
  have hbs : BasesOK [src, []] := basesOK_pair hv hn keysValid_nil (by simp [NodupKeys])
  have hroot : ∀ c, (dot, c) ∉ src := by
    intro c hin
    obtain ⟨k, hk, hne, hk1⟩ := hv _ hin
    exact renderKey_ne_dot hk hne hk1.symm
  obtain ⟨bs', hcp⟩ := copy_succeeds (.base 0) trivial _ hbs 1 src (walk_all_mem src _) hroot
  obtain ⟨_, _, _, _, hall⟩ := copy_is_map_union (.base 0) trivial _ hbs 1 _ bs' hcp
  refine ⟨src.length, bs', hcp, rfl, ?_⟩
  intro k hk hne
  rw [hall k hk hne, absE_base 0 _ hk hne]
  simp only [Bases.get, List.getD_cons_zero, abs]
  cases Mem.find src (renderKey k) with
  | some c => rfl
  | none => simp [Mem.find]

/-! ### Archives (entry-level model BufModel/Archive.lean) -/

/-- Tar / Zip of any composite: one regular entry per walked object, name = path, content = the
    walked content (the per-object `Get` of `WalkReadObjects` returns it: Walk/Get coherence),
    whenever the walk succeeds and does not report the view root "." … -/
theorem tar_lists_walked_objects (e : BExpr) (he : e.WF) (bs : Bases) (hbs : BasesOK bs)
    (objs : List (Str × Content)) (hw : rWalk e bs [] = .ok objs) (hroot : ∀ c, (dot, c) ∉ objs) :
    tarOf e bs = .ok (entriesOf objs) :=
  tarOf_eq_walk e he bs hbs objs hw hroot

/-- … and a Tar / Zip that succeeds has exactly that shape (a reported "." makes it fail). -/
theorem tar_ok_only_proper_paths (e : BExpr) (he : e.WF) (bs : Bases) (hbs : BasesOK bs) (a : Archive)
    (h : tarOf e bs = .ok a) :
    ∃ objs, rWalk e bs [] = .ok objs ∧ KeysValid objs ∧ NodupKeys objs ∧ a = entriesOf objs :=
  tarOf_ok e he bs hbs a h

/-- untar_tar (audit S1): for every memory bucket `m` (invariants `KeysValid`, `NodupKeys`) without
    "._"-named objects, Tar (resp. Zip) of `m` followed by Untar (resp. Unzip) into the EMPTY
    bucket, strip-components 0 and no matcher, never fails and yields a bucket equal to `m` as a
    map.  (`fmt` = tar or zip: the two extraction loops differ in the order of their checks.)
    The `NoApple` hypothesis is needed: `untar_tar_drops_apple_files_counterexample`. -/
theorem untar_tar (fmt : Fmt) (m : Mem) (hv : KeysValid m) (hn : NodupKeys m) (hna : NoApple m) :
    ∃ a m', tarOfMem m = .ok a ∧ extractInto fmt 0 (fun _ => true) 0 a [] = (none, m') ∧
      ∀ k : Str, Mem.find m' k = Mem.find m k := by
  obtain ⟨m', h1, h2⟩ := extract_entriesOf fmt 0 (fun _ => true) m hv hna []
  rw [stripObjs_zero_all] at h2
  obtain ⟨m2, hm2, hfind⟩ := putAll_spec m hv hn []
  rw [h2] at hm2; injection hm2 with hm2; subst hm2
  refine ⟨entriesOf m, m', tarOfMem_eq m hv hn, h1, ?_⟩
  intro k; rw [hfind k]
  cases Mem.find m k with
  | some c => rfl
  | none => simp [Mem.find]

/-- As coded, Untar/Unzip skip every entry whose base name starts with "._" (macOS extended
    attribute files; "a reasonable compromise" says the source) although Tar/Zip write them: the
    round trip LOSES such objects.  Hence the `NoApple` hypothesis above. -/
theorem untar_tar_drops_apple_files_counterexample :
    tarOfMem [("a/._x".toList, "1")] = .ok [{ name := "a/._x".toList, content := "1", kind := .reg }] ∧
    untarInto [{ name := "a/._x".toList, content := "1", kind := .reg }] 0 (fun _ => true) [] = (none, []) ∧
    unzipInto [{ name := "a/._x".toList, content := "1", kind := .reg }] 0 (fun _ => true) [] = (none, []) := by
  decide

/-- untar_tar with strip-components `n` and a path matcher: the extraction never fails and the
    result is the map of the stripped, matching objects — archive order, a later object wins
    when two names collide after stripping; the image is explicit: an object at key `kk` lands at
    `kk.drop n` when `n = 0` or `kk` has more than `n` components, and is skipped otherwise. -/
theorem untar_tar_strip (fmt : Fmt) (n : Nat) (f : Str → Bool) (m : Mem) (hv : KeysValid m)
    (hn : NodupKeys m) (hna : NoApple m) :
    ∃ a m', tarOfMem m = .ok a ∧ extractInto fmt n f 0 a [] = (none, m') ∧
      (∀ k : Str, Mem.find m' k = Mem.find (stripObjs n f m).reverse k) ∧
      (∀ (p : Str) (c : Content), (p, c) ∈ stripObjs n f m ↔
        ∃ kk : Key, AllProper kk ∧ kk ≠ [] ∧ (renderKey kk, c) ∈ m ∧ (n = 0 ∨ n < kk.length) ∧
          p = renderKey (kk.drop n) ∧ f p = true) := by
  obtain ⟨m', h1, h2⟩ := extract_entriesOf fmt n f m hv hna []
  obtain ⟨m2, hm2, hfind⟩ := putAll_last_wins (stripObjs n f m) (keysValid_stripObjs n f hv) []
  rw [h2] at hm2; injection hm2 with hm2; subst hm2
  refine ⟨entriesOf m, m', tarOfMem_eq m hv hn, h1, ?_, mem_stripObjs n f m hv⟩
  intro k; rw [hfind k]
  cases Mem.find (stripObjs n f m).reverse k with
  | some c => rfl
  | none => simp [Mem.find]

/-- The usual use of strip-components — an archive whose objects all live below one top-level
    directory chain `p`: stripping `p.length` components yields exactly the sub-tree below `p`,
    re-keyed relative to it. -/
theorem untar_tar_strip_prefix (fmt : Fmt) (p : Key) (hp : AllProper p) (m : Mem) (hv : KeysValid m)
    (hn : NodupKeys m) (hna : NoApple m)
    (hall : ∀ kv ∈ m, ∃ kk : Key, AllProper kk ∧ kk ≠ [] ∧ kv.1 = renderKey (p ++ kk)) :
    ∃ a m', tarOfMem m = .ok a ∧ extractInto fmt p.length (fun _ => true) 0 a [] = (none, m') ∧
      ∀ kk : Key, AllProper kk → kk ≠ [] → Mem.find m' (renderKey kk) = Mem.find m (renderKey (p ++ kk)) := by
  obtain ⟨m', h1, h2⟩ := extract_entriesOf fmt p.length (fun _ => true) m hv hna []
  obtain ⟨hnd, hfi⟩ := stripObjs_prefix p hp m hv hn hall
  obtain ⟨m2, hm2, hfind⟩ := putAll_spec (stripObjs p.length (fun _ => true) m)
    (keysValid_stripObjs _ _ hv) hnd []
  rw [h2] at hm2; injection hm2 with hm2; subst hm2
  refine ⟨entriesOf m, m', tarOfMem_eq m hv hn, h1, ?_⟩
  intro kk hkk hne
  rw [hfind, hfi kk hkk hne]
  cases Mem.find m (renderKey (p ++ kk)) with
  | some c => rfl
  | none => simp [Mem.find]

/-- untar_tar for an ARBITRARY composite source: whenever Tar/Zip of `e` succeeds and wrote no
    "._"-named entry, extracting it into the empty bucket yields exactly the composite's map
    `absE e bs` (what `Get` finds through `e`). -/
theorem untar_tar_composite (fmt : Fmt) (e : BExpr) (he : e.WF) (bs : Bases) (hbs : BasesOK bs)
    (a : Archive) (h : tarOf e bs = .ok a)
    (hna : ∀ en ∈ a, applePrefix.isPrefixOf (base en.name) = false) :
    ∃ m', extractInto fmt 0 (fun _ => true) 0 a [] = (none, m') ∧
      ∀ k : Key, AllProper k → k ≠ [] → abs m' k = absE e bs k := by
  obtain ⟨objs, hw, hvo, hno, ha⟩ := tarOf_ok e he bs hbs a h
  subst ha
  have hna' : NoApple objs := by
    intro kv hkv
    exact hna { name := kv.1, content := kv.2, kind := .reg } (List.mem_map.mpr ⟨kv, hkv, rfl⟩)
  obtain ⟨m', h1, h2⟩ := extract_entriesOf fmt 0 (fun _ => true) objs hvo hna' []
  rw [stripObjs_zero_all] at h2
  obtain ⟨m2, hm2, hfind⟩ := putAll_spec objs hvo hno []
  rw [h2] at hm2; injection hm2 with hm2; subst hm2
  obtain ⟨kq, hkq, hnv, hiff⟩ := rWalk_lists_absE e he bs hbs [] objs hw
  have hkq0 : kq = [] :=
    renderKey_inj_of_validate hkq allProper_nil hnv (by decide)
  subst hkq0
  refine ⟨m', h1, ?_⟩
  intro k hk hne
  unfold abs
  rw [hfind]
  cases hf : Mem.find objs (renderKey k) with
  | some c =>
    exact (((hiff k c hk hne).mp (find_some_mem hf)).2).symm
  | none =>
    simp only [Mem.find]
    cases hab : absE e bs k with
    | none => rfl
    | some c =>
      have := (mem_iff_find hno _ _).mp ((hiff k c hk hne).mpr ⟨List.nil_prefix, hab⟩)
      rw [hf] at this; cases this

/-- The real memory bucket walks in sorted path order; the driver therefore tars the bases in
    sorted order (`tarOfSorted`).  Order is irrelevant to the result as a map: the round trip of
    the sorted archive still yields exactly the composite's map over the ORIGINAL bases. -/
theorem untar_tar_sorted_composite (fmt : Fmt) (e : BExpr) (he : e.WF) (bs : Bases) (hbs : BasesOK bs)
    (a : Archive) (h : tarOfSorted e bs = .ok a)
    (hna : ∀ en ∈ a, applePrefix.isPrefixOf (base en.name) = false) :
    ∃ m', extractInto fmt 0 (fun _ => true) 0 a [] = (none, m') ∧
      ∀ k : Key, AllProper k → k ≠ [] → abs m' k = absE e bs k := by
  obtain ⟨m', h1, h2⟩ := untar_tar_composite fmt e he (bs.map sortMem) (basesOK_sorted hbs) a h hna
  refine ⟨m', h1, ?_⟩
  intro k hk hne
  rw [h2 k hk hne]
  simp only [absE, rGet_sorted e bs hbs]

/-! ### What the correspondence driver runs for disk-backed composites -/

open BufModel.Disk in
/-- The driver runs the STREAMING walk `rWalkD` (objects are handed to the caller as visited; the
    first error — a failing member or the union's duplicate check — stops it; BufModel/Disk.lean).
    Whenever it completes, with any mix of disk bases, it has visited exactly the list `rWalk`
    computes — so `walk_get_coherent` applies to every successful walk the driver prints. -/
theorem walkD_ok_is_walk (flags : List Bool) (e : BExpr) (bs : Bases) (pfx : Str)
    (objs : List (Str × Content)) (h : rWalkD flags e bs pfx = (objs, none)) : rWalk e bs pfx = .ok objs :=
  rWalkD_ok flags e bs pfx objs h

open BufModel.Disk in
/-- With all flags false (no disk base) `rWalkD` equals `rWalk` on every successful walk: the
    streaming walk completes exactly when `rWalk` succeeds, with the same list.  (When the walk
    fails the two may name different errors only if two different errors compete, which needs a
    disk base's ENOTDIR; error classes are compared by the correspondence run.) -/
theorem walkD_all_memory_is_walk (flags : List Bool) (hf : ∀ i, flags.getD i false = false) (e : BExpr)
    (bs : Bases) (pfx : Str) (objs : List (Str × Content)) :
    rWalkD flags e bs pfx = (objs, none) ↔ rWalk e bs pfx = .ok objs :=
  ⟨rWalkD_ok flags e bs pfx objs, rWalkD_of_rWalk_ok flags hf e bs pfx objs⟩

open BufModel.Disk in
/-- Why the driver needs the streaming walk: in `multi(x, multi(y, z))` a path of `y` already
    seen in `x` is reported as duplicate before the disk bucket `z` is walked below a file. -/
theorem streaming_walk_error_order_counterexample :
    rWalkD [false, true] (.multi (.base 0) (.multi (.base 0) (.base 1)))
        [[("c/d/f".toList, "1")], [("c/d".toList, "2")]] "c/d/f".toList = ([("c/d/f".toList, "1")], some .multiple) ∧
    rWalkD [false, true] (.multi (.base 0) (.base 1))
        [[("c/d/f".toList, "1")], [("c/d".toList, "2")]] "c/d/f".toList = ([("c/d/f".toList, "1")], some .other) := by
  decide

open BufModel.Disk in
/-- The copy the driver runs (walk for the paths, `Get` per path as `copyPaths` /
    `WalkReadObjects` do, put on a memory or disk target) refines `rCopy`: whenever it succeeds,
    count and resulting object map are those of `rCopy` — so `copy_is_map_union` applies. -/
theorem copyD_refines_copy (flags : List Bool) (e : BExpr) (he : e.WF) (bs : Bases) (hbs : BasesOK bs)
    (t : Nat) (isDisk : Bool) (d0 d' : Disk) (n : Nat) (ht : bs.get t = d0.files)
    (h : copyD flags e bs isDisk d0 = .ok (n, d')) :
    rCopy e bs t = .ok (n, bs.set t d'.files) :=
  copyD_refines_rCopy flags e he bs hbs t isDisk d0 d' n ht h

/-! ### The disk bucket (a file tree) refines the same map on prefix-free histories -/

open BufModel.Disk in
/-- One step of the disk-bucket tree model. -/
def diskStep (d : Disk) : Op → Disk × Out
  | .get p => match diskGet d p with
      | .ok c => (d, .content c) | .error e => (d, .err e)
  | .put p c => match diskPut d p c with
      | .ok d' => (d', .done) | .error e => (d, .err e)
  | .delete p => match diskDelete d p with
      | .ok d' => (d', .done) | .error e => (d, .err e)
  | .deleteAll p => match diskDeleteAll d p with
      | .ok d' => (d', .done) | .error e => (d, .err e)
  | .walk p => match diskWalk d p with
      | .ok l => (d, .objs l) | .error e => (d, .err e)

open BufModel.Disk in
def diskRun (d : Disk) : List Op → Disk × List Out
  | [] => (d, [])
  | op :: rest =>
    let r := diskStep d op
    let rr := diskRun r.1 rest
    (rr.1, r.2 :: rr.2)

open BufModel.Disk in
/-- The prefix-free discipline of a history relative to the set `U` of keys it ever puts:
    puts only put keys of `U`; a delete never addresses a directory or a path below a file; a
    delete-all / walk prefix is not strictly below a file. -/
def OpOK (U : List Key) : Op → Prop
  | .get _ => True
  | .put p _ => ∀ k, AllProper k → k ≠ [] → normalizeAndValidate p = .ok (renderKey k) → k ∈ U
  | .delete p => ∀ k, AllProper k → normalizeAndValidate p = .ok (renderKey k) → Unrelated U k
  | .deleteAll p => ∀ k, AllProper k → normalizeAndValidate p = .ok (renderKey k) → ∀ u ∈ U, ¬ Below u k
  | .walk p => ∀ k, AllProper k → normalizeAndValidate p = .ok (renderKey k) → ∀ u ∈ U, ¬ Below u k

open BufModel.Disk in
theorem disk_step_refines (U : List Key) (hU : UProper U) (hpf : PrefixFree U) (d : Disk)
    (inv : TreeInv U d) (op : Op) (hop : OpOK U op) :
    (diskStep d op).1.files = (memStep d.files op).1 ∧ (diskStep d op).2 = (memStep d.files op).2 ∧
      TreeInv U (diskStep d op).1 := by
  cases op with
  | get p => simp only [diskStep, memStep, diskGet]; cases memGet d.files p <;> exact ⟨by first | rfl | trivial, by first | rfl | trivial, inv⟩
  | put p c =>
    rcases validatePath_cases p with ⟨e, hnv, hvp⟩ | ⟨hnv, hvp⟩ | ⟨k, hk, hne, hnv, hvp⟩
    · simp only [diskStep, memStep, diskPut, memPut, hvp]; exact ⟨by first | rfl | trivial, by first | rfl | trivial, inv⟩
    · simp only [diskStep, memStep, diskPut, memPut, hvp]; exact ⟨by first | rfl | trivial, by first | rfl | trivial, inv⟩
    · obtain ⟨d', h1, h2, h3⟩ := diskPut_eq_mem inv hU hpf p c k hk hne hvp (hop k hk hne hnv)
      simp only [diskStep, memStep, h1, h2]; exact ⟨by first | rfl | trivial, by first | rfl | trivial, h3⟩
  | delete p =>
    rcases validatePath_cases p with ⟨e, hnv, hvp⟩ | ⟨hnv, hvp⟩ | ⟨k, hk, hne, hnv, hvp⟩
    · simp only [diskStep, memStep, diskDelete, memDelete, hvp]; exact ⟨by first | rfl | trivial, by first | rfl | trivial, inv⟩
    · simp only [diskStep, memStep, diskDelete, memDelete, hvp]; exact ⟨by first | rfl | trivial, by first | rfl | trivial, inv⟩
    · rcases diskDelete_eq_mem inv hU p k hk hne hvp (hop k hk hnv) with ⟨d', h1, h2, h3⟩ | ⟨h1, h2⟩
      · simp only [diskStep, memStep, h1, h2]; exact ⟨by first | rfl | trivial, by first | rfl | trivial, h3⟩
      · simp only [diskStep, memStep, h1, h2]; exact ⟨by first | rfl | trivial, by first | rfl | trivial, inv⟩
  | deleteAll p =>
    cases hnv : normalizeAndValidate p with
    | error e =>
      simp only [diskStep, memStep, diskDeleteAll, memDeleteAll, validatePrefix, hnv]; exact ⟨by first | rfl | trivial, by first | rfl | trivial, inv⟩
    | ok q =>
      obtain ⟨k, hk, hq⟩ := BufModel.Path.validate_sound p q hnv
      subst hq
      obtain ⟨d', h1, h2, h3⟩ := diskDeleteAll_eq_mem inv hU p k hk (by unfold validatePrefix; exact hnv) (hop k hk hnv)
      simp only [diskStep, memStep, h1, h2]; exact ⟨by first | rfl | trivial, by first | rfl | trivial, h3⟩
  | walk p =>
    cases hnv : normalizeAndValidate p with
    | error e =>
      have h1 : underFile d.files p = false := by unfold underFile validatePrefix; rw [hnv]
      simp only [diskStep, memStep, diskWalk, h1, Bool.false_eq_true, if_false]
      cases memWalk d.files p <;> exact ⟨by first | rfl | trivial, by first | rfl | trivial, inv⟩
    | ok q =>
      obtain ⟨k, hk, hq⟩ := BufModel.Path.validate_sound p q hnv
      subst hq
      have := diskWalk_eq_mem inv hU p k hk (by unfold validatePrefix; exact hnv) (hop k hk hnv)
      simp only [diskStep, memStep, this]
      cases memWalk d.files p <;> exact ⟨by first | rfl | trivial, by first | rfl | trivial, inv⟩

open BufModel.Disk in
/-- disk_refines_map: on every history that keeps to a prefix-free set `U` of object keys (no
    object name is a directory of another; deletes address objects, not directories; prefixes
    do not point below an object) the disk bucket — a real file TREE with directories, ENOTDIR /
    EISDIR failures and leftover empty directories — gives exactly the outputs of the memory
    bucket and holds exactly the same objects; by `mem_refines_spec` it therefore behaves as
    the abstract path→bytes map. -/
theorem disk_refines_map (U : List Key) (hU : UProper U) (hpf : PrefixFree U) (ops : List Op)
    (hops : ∀ op ∈ ops, OpOK U op) (d : Disk) (inv : TreeInv U d) :
    (diskRun d ops).1.files = (memRun d.files ops).1 ∧ (diskRun d ops).2 = (memRun d.files ops).2 := by
  induction ops generalizing d with
  | nil => exact ⟨rfl, rfl⟩
  | cons op rest ih =>
    obtain ⟨hf, ho, hinv⟩ := disk_step_refines U hU hpf d inv op (hops op (by simp))
    obtain ⟨ihf, iho⟩ := ih (fun o ho => hops o (List.mem_cons_of_mem _ ho)) (diskStep d op).1 hinv
    simp only [diskRun, memRun]
    rw [hf] at ihf iho
    exact ⟨ihf, by rw [ho, iho]⟩

/-- Outside the discipline the tree and the map DO differ (why the hypothesis is needed): a put
    below an existing object fails on disk and succeeds in memory. -/
theorem disk_differs_without_prefix_freedom :
    (diskRun BufModel.Disk.empty [.put "a".toList "1", .put "a/b".toList "2"]).2 ≠
      (memRun [] [.put "a".toList "1", .put "a/b".toList "2"]).2 := by decide

-- non-vacuity: a concrete history with awkward spellings, run through the model: the FULL output
example : (memRun [] [.put "a//x".toList "1", .put "./b".toList "2", .walk "".toList, .deleteAll "a/.".toList,
      .get "b/".toList, .get "a/x".toList, .delete "../b".toList, .put ".".toList "3"]) =
    ([("b".toList, "2")],
     [.done, .done, .objs [("b".toList, "2"), ("a/x".toList, "1")], .done, .content "2", .err .notExist,
      .err .outsideContext, .err .root]) := by
  decide
example : KeysValid [("a/x".toList, "1")] := by
  intro kv h; simp at h; subst h
  exact ⟨["a".toList, "x".toList], by intro n hn; simp at hn; rcases hn with rfl | rfl <;> decide, by simp, by decide⟩

-- non-vacuity of walk_get_coherent / copy_is_map_union / untar_tar_composite: a composite using
-- every combinator, well-formed, whose walk, get, copy and tar succeed with non-empty results
def exE : BExpr :=
  .overlay (.pre "a".toList (.filt (.ext ".proto".toList) (.base 0)))
    (.strip (.multi (.base 1) (.pre ".".toList (.base 2))))
def exBs : Bases := [[("a/x.proto".toList, "1"), ("a/y".toList, "2")], [("x.proto".toList, "3"), ("z".toList, "4")],
  [("w/v".toList, "5")]]
example : exE.WF := by
  refine ⟨⟨⟨["a".toList], ?_, by decide⟩, trivial⟩, ⟨trivial, ⟨⟨[], allProper_nil, by decide⟩, trivial⟩⟩⟩
  intro n hn; simp at hn; subst hn; decide
example : rWalk exE exBs [] = .ok [("x.proto".toList, "1"), ("z".toList, "4"), ("w/v".toList, "5")] := by decide
example : rGet exE exBs "x.proto".toList = .ok "1" ∧ rGet exE exBs "w/./v".toList = .ok "5" ∧
    rGet exE exBs "y".toList = .error .notExist := by decide
example : (rCopy exE exBs 3).map (fun r => (r.1, r.2.get 3)) =
    .ok (3, [("w/v".toList, "5"), ("z".toList, "4"), ("x.proto".toList, "1")]) := by decide
example : (tarOf exE exBs).map (fun a => a.map (fun en => (en.name, en.content))) =
    .ok [("x.proto".toList, "1"), ("z".toList, "4"), ("w/v".toList, "5")] := by decide
-- strip-components 1 on a one-directory archive, a hostile entry aborting, a directory entry skipped
example : untarInto [{ name := "top/a".toList, content := "1", kind := .reg },
      { name := "top/d/".toList, content := "", kind := .dir },
      { name := "top/d/b".toList, content := "2", kind := .reg }] 1 (fun _ => true) [] =
    (none, [("d/b".toList, "2"), ("a".toList, "1")]) := by decide
example : unzipInto [{ name := "ok".toList, content := "1", kind := .reg },
      { name := "../evil".toList, content := "2", kind := .reg }] 0 (fun _ => true) [] =
    (some .outsideContext, [("ok".toList, "1")]) := by decide
-- a hostile "._" name is rejected by both loops (Untar too since the AppleDouble skip moved behind the name check)
example : untarInto [{ name := "../._x".toList, content := "1", kind := .reg }] 0 (fun _ => true) [] =
      (some .outsideContext, []) ∧
    unzipInto [{ name := "../._x".toList, content := "1", kind := .reg }] 0 (fun _ => true) [] =
      (some .outsideContext, []) := by decide
example : NoApple [("a/x".toList, "1")] := by
  intro kv h; simp at h; subst h; decide

/-! ### Names do not matter; an atomic put in flight (strengthening S4C)

  Every theorem above quantifies over ALL keys (`AllProper k`: components that are non-empty,
  slash-free and not "." / ".."), so a base name such as `.tmpl.proto`, `.tmp`, `x~`, `CON`, `..x`
  is covered like any other — the model's walk never inspects a name.  The two statements below
  make that explicit for the disk tree, and describe the one moment at which the directory holds a
  file nobody put: the temp file of an atomic put whose writer is still open. -/

open BufModel.Disk in
/-- Whatever its base name `n` looks like (any proper component — `.tmp`, `.tmpl.proto`, `x~`,
    `..x`, …), an object put on the disk tree where no ancestor is a file and the name is not a
    directory is found by `Get` and listed by `Walk ""` with its content. -/
theorem disk_put_then_walk_lists_any_name (d : Disk) (dirK : Key) (n : Comp) (c : Content)
    (hk : AllProper (dirK ++ [n]))
    (hanc : (ancestors (dirK ++ [n])).any (isFile d) = false) (hnd : isDir d (dirK ++ [n]) = false) :
    ∃ d', diskPut d (renderKey (dirK ++ [n])) c = .ok d' ∧
      diskGet d' (renderKey (dirK ++ [n])) = .ok c ∧
      ∃ l, diskWalk d' [] = .ok l ∧ (renderKey (dirK ++ [n]), c) ∈ l := by
  have hne : dirK ++ [n] ≠ [] := by simp
  have hv := validatePath_renderKey hk hne
  have hkey : keyOfPath (renderKey (dirK ++ [n])) = dirK ++ [n] := cleanComps_renderKey hk
  refine ⟨_, by simp only [diskPut, hv, hkey, hanc, hnd]; rfl, ?_, ?_⟩
  · simp only [diskGet, memGet, hv, find_cons_eq]
  · have huf : underFile ((renderKey (dirK ++ [n]), c) :: d.files.erase (renderKey (dirK ++ [n]))) [] = false := by
      unfold underFile validatePrefix
      have : normalizeAndValidate [] = .ok dot := by decide
      rw [this]
      have : keyOfPath dot = [] := by decide
      simp only [this]
      rfl
    simp only [diskWalk, huf, Bool.false_eq_true, if_false]
    have hw : validatePrefix [] = .ok dot := by decide
    simp only [memWalk, hw]
    refine ⟨_, rfl, ?_⟩
    apply List.mem_filter.mpr
    refine ⟨List.mem_cons_self, ?_⟩
    simp [equalsOrContainsPath]

open BufModel.Disk in
/-- As coded: opening an atomic put on the disk tree (temp file `t` next to the final path, which
    `os.CreateTemp` guarantees to be a fresh name) IS a put of one more object at the temp path —
    so while the writer is open `Walk` lists the temp file and `Get` serves it exactly as the
    memory-bucket theory says for any object (the tree is still one path→bytes map; it just has an
    object nobody asked for).  The property is silent about whether the temp file should be
    visible; the harness oracle only demands that Walk and Get agree about it. -/
theorem inflight_begin_is_put_of_temp (d : Disk) (k : Key) (t : Comp) (c : Content)
    (hk : AllProper k) (hne : k ≠ []) (ht : Proper t)
    (hanc : (ancestors k).any (isFile d) = false) :
    ∃ d', diskBeginAtomic d (renderKey k) (some t) c = .ok d' ∧
      memPut d.files (renderKey (k.dropLast ++ [t])) c = .ok d'.files := by
  have hv := validatePath_renderKey hk hne
  have hkey : keyOfPath (renderKey k) = k := cleanComps_renderKey hk
  have hk2 : AllProper (k.dropLast ++ [t]) := by
    intro x hx
    rcases List.mem_append.mp hx with h | h
    · exact hk x (List.dropLast_subset k h)
    · simp at h; subst h; exact ht
  have hv2 := validatePath_renderKey hk2 (by simp)
  refine ⟨_, by simp only [diskBeginAtomic, hv, hkey, hanc]; rfl, ?_⟩
  simp only [memPut, hv2, tempPath, hkey]

open BufModel.Disk in
/-- Closing the writer publishes: when the final path is not a directory, and the temp name was
    fresh when the put began (`O_EXCL`), then after begin + close
    the tree holds, for EVERY path, exactly what a plain put would have left: the new content at
    the final path, nothing at the temp path, everything else untouched. -/
theorem inflight_close_equals_put (d : Disk) (k : Key) (t : Comp) (c : Content)
    (hk : AllProper k) (hne : k ≠ []) (ht : Proper t)
    (hanc : (ancestors k).any (isFile d) = false) (hnd : isDir d k = false)
    (hfresh : d.files.find (renderKey (k.dropLast ++ [t])) = none) :
    ∃ d1 d2 m, diskBeginAtomic d (renderKey k) (some t) c = .ok d1 ∧
      diskCommitAtomic d1 (renderKey k) (some t) c = (d2, none) ∧
      memPut d.files (renderKey k) c = .ok m ∧ ∀ q, d2.files.find q = m.find q := by
  have hv := validatePath_renderKey hk hne
  have hkey : keyOfPath (renderKey k) = k := cleanComps_renderKey hk
  obtain ⟨d1, hb, _⟩ := inflight_begin_is_put_of_temp d k t c hk hne ht hanc
  have hd1 : d1 = { files := (tempPath (renderKey k) t, c) :: d.files.erase (tempPath (renderKey k) t),
                    dirs := addDirs d.dirs (ancestors k) } := by
    simp only [diskBeginAtomic, hv, hkey, hanc] at hb
    exact (Except.ok.inj hb).symm
  have hnd1 : isDir d1 k = false := by
    rw [hd1]
    unfold isDir
    cases hc : (addDirs d.dirs (ancestors k)).contains k with
    | false => rfl
    | true =>
      have hmem : k ∈ addDirs d.dirs (ancestors k) := by simpa using hc
      rcases mem_addDirs hmem with h | h
      · unfold isDir at hnd
        have : d.dirs.contains k = true := by simpa using h
        rw [this] at hnd; cases hnd
      · exact absurd rfl (mem_ancestors h).2.1
  have htp : tempPath (renderKey k) t = renderKey (k.dropLast ++ [t]) := by simp only [tempPath, hkey]
  rw [htp] at hd1
  refine ⟨d1, { d1 with files := (renderKey k, c) :: ((d1.files.erase (renderKey (k.dropLast ++ [t]))).erase (renderKey k)) },
    (renderKey k, c) :: d.files.erase (renderKey k), hb, ?_, ?_, ?_⟩
  · simp only [diskCommitAtomic, hv, hkey, hnd1, htp]; rfl
  · simp only [memPut, hv]
  intro q
  have herase : Mem.erase ((renderKey (k.dropLast ++ [t]), c) :: d.files.erase (renderKey (k.dropLast ++ [t])))
      (renderKey (k.dropLast ++ [t])) = (d.files.erase (renderKey (k.dropLast ++ [t]))).erase (renderKey (k.dropLast ++ [t])) := by
    simp [Mem.erase]
  rw [hd1]
  simp only [herase]
  by_cases hq : renderKey k = q
  · subst hq
    rw [find_cons_eq, find_cons_eq]
  · rw [find_cons_ne _ _ _ _ hq, find_cons_ne _ _ _ _ hq, find_erase_ne _ _ _ hq, find_erase_ne _ _ _ hq]
    by_cases hq2 : renderKey (k.dropLast ++ [t]) = q
    · subst hq2
      rw [find_erase_eq, hfresh]
    · rw [find_erase_ne _ _ _ hq2, find_erase_ne _ _ _ hq2]

-- non-vacuity: a real object named like the implementation's temp files, and an in-flight put
open BufModel.Disk in
example : (diskPut BufModel.Disk.empty "a/.tmpl.proto".toList "1").map (fun d => diskWalk d "a".toList) =
    .ok (.ok [("a/.tmpl.proto".toList, "1")]) := by decide
open BufModel.Disk in
example : (diskBeginAtomic { files := [("a/x".toList, "OLD")], dirs := [["a".toList]] } "a/x".toList (some ".tmpx123".toList) "NEW").map
      (fun d => diskWalk d "".toList) = .ok (.ok [("a/.tmpx123".toList, "NEW"), ("a/x".toList, "OLD")]) := by decide
open BufModel.Disk in
example : (diskCommitAtomic { files := [("a/.tmpx123".toList, "NEW"), ("a/x".toList, "OLD")], dirs := [["a".toList]] }
      "a/x".toList (some ".tmpx123".toList) "NEW").1.files = [("a/x".toList, "NEW")] := by decide

section Round6
open BufModel.Disk BufModel.Reader

/-! ### Reader isolation (round 6) -/

/-- **A memory reader is a snapshot.**  A reader opened on a memory bucket (`Get`, then `n` bytes
    read) yields, when it is read to the end after ANY sequence of later writes — overwrites of
    the same path, deletes, DeleteAll, puts anywhere, on any base, whatever the trees look like by
    then (`dNow` arbitrary) — exactly the rest of the content the object had at Get time: the
    bytes read before and after are together the old content. -/
theorem read_after_overwrite_is_snapshot (d : Disk) (i : Nat) (path : Str) (n : Nat) (h : Handle)
    (got c : Content) (hget : memGet d.files path = .ok c)
    (hopen : openReader false d i path n = .ok (h, got))
    (ws : List (Disk × Nat × Write)) (dNow : Disk) :
    afterWrites ws [h] = [h] ∧
    finishReader dNow h = dropC c h.off ∧
    got.toList ++ (finishReader dNow h).toList = c.toList := by
  cases hv : validatePath path with
  | error e => simp only [memGet, hv] at hget; cases hget
  | ok p =>
    simp only [memGet, hv] at hget
    simp only [openReader, hv] at hopen
    cases hf : d.files.find p with
    | none => simp only [hf] at hget; cases hget
    | some c' =>
      simp only [hf] at hget hopen
      have hc : c' = c := by injection hget
      subst hc
      simp only [Bool.false_eq_true, if_false] at hopen
      have hpair := Except.ok.inj hopen
      have hh : h = { base := i, path := p, off := min n c'.toList.length, snap := some c' } :=
        (congrArg Prod.fst hpair).symm
      have hg : got = takeC c' n := (congrArg Prod.snd hpair).symm
      have hsnap : h.snap = some c' := by rw [hh]
      refine ⟨afterWrites_snapshot ws h c' hsnap, ?_, ?_⟩
      · simp only [finishReader, hsnap]
      · simp only [finishReader, hsnap, hg, takeC, dropC, String.toList_ofList]
        rw [hh]
        exact take_append_drop_min c'.toList n

/-- Disk, as coded (POSIX): after the file is replaced by rename (atomic put), unlinked (Delete)
    or removed with its directory (DeleteAll) the open reader stays on the old inode — from then
    on it is a snapshot of the content the file had at that moment, whatever is written later
    (also a new file at the same path). -/
theorem disk_reader_after_rename_or_unlink_is_snapshot (d : Disk) (i : Nat) (w : Write) (h : Handle)
    (c : Content) (hb : h.base = i) (hatt : h.snap = none) (hsel : w.sel h.path = true)
    (hc : d.files.find h.path = some c) (ws : List (Disk × Nat × Write)) (dNow : Disk) :
    ∃ h', afterWrites ((d, i, w) :: ws) [h] = [h'] ∧ finishReader dNow h' = dropC c h.off := by
  refine ⟨{ h with snap := some c }, ?_, ?_⟩
  · have h1 : afterWrite d i w [h] = [{ h with snap := some c }] := by
      simp [afterWrite, detach, hb, hatt, hsel, hc]
    simp only [afterWrites, h1]
    exact afterWrites_snapshot ws _ c rfl
  · simp [finishReader]

/-- Disk, as coded (POSIX): a NON-atomic put truncates and rewrites the same inode, so a reader
    that is still attached continues at its offset in whatever the file holds NOW. -/
theorem disk_reader_after_plain_put_reads_new_content (d : Disk) (i : Nat) (path : Str) (h : Handle)
    (hatt : h.snap = none) (dNow : Disk) (cNew : Content) (hnew : dNow.files.find h.path = some cNew) :
    afterWrite d i (.putPlain path) [h] = [h] ∧ finishReader dNow h = dropC cNew h.off := by
  constructor
  · simp [afterWrite, detach, Write.sel]
  · simp [finishReader, hatt, hnew]

-- non-vacuity: open on "a/x" = "old-content", read 3 bytes, overwrite, finish
example : (openReader false { files := [("a/x".toList, "old-content")], dirs := [] } 0 "a/x".toList 3).map
    (fun hg => (hg.2, finishReader { files := [("a/x".toList, "NEW")], dirs := [] } hg.1)) = .ok ("old", "-content") := by
  decide
example : (openReader true { files := [("a/x".toList, "old-content")], dirs := [] } 0 "a/x".toList 3).map
    (fun hg => (hg.2, finishReader { files := [("a/x".toList, "NEWNEWNEW")], dirs := [] } hg.1)) = .ok ("old", "NEWNEW") := by
  decide

/-! ### Duplicate archive members (round 6) -/

/-- **The later member wins.**  After a successful extraction (tar or zip, any strip-components,
    matcher, size limit, into a bucket `m0` holding anything) every path holds the content of the
    LAST member written to it — repeated member names and members that collide only after
    strip-components / normalisation alike — and what `m0` held where no member is written. -/
theorem extract_last_member_wins (fmt : Fmt) (strip : Nat) (matcher : Str → Bool) (mx : Nat)
    (a : Archive) (m0 m' : Mem) (h : extractInto fmt strip matcher mx a m0 = (none, m')) (q : Str) :
    m'.find q = match lastMember fmt strip matcher q a with
      | some c => some c
      | none => m0.find q := by
  induction a generalizing m0 with
  | nil =>
    simp only [extractInto] at h
    have : m' = m0 := (congrArg Prod.snd h).symm
    subst this
    simp [lastMember]
  | cons e rest ih =>
    simp only [extractInto] at h
    cases he : extractEntry fmt strip matcher mx m0 e with
    | error er => rw [he] at h; simp at h
    | ok m1 =>
      rw [he] at h
      have ih' := ih m1 h
      rw [ih']
      simp only [lastMember]
      cases hl : lastMember fmt strip matcher q rest with
      | some c => rfl
      | none =>
        simp only
        rcases extractEntry_target fmt strip matcher mx m0 m1 e he with ⟨ht, hm⟩ | ⟨p, ht, hm⟩
        · rw [ht, hm]; simp
        · rw [ht, hm, find_put_erase]
          by_cases hpq : p = q
          · subst hpq; simp
          · have : ¬ (some p = some q) := fun hh => hpq (Option.some.inj hh)
            simp [hpq, this]

/-- The clause as the duplicate-member oracle states it: a member `e2` written to `q` after which
    no other member is written to `q` determines the content, however many earlier members
    (`before`, arbitrary) were written there. -/
theorem untar_duplicate_member_last_wins (fmt : Fmt) (strip : Nat) (matcher : Str → Bool) (mx : Nat)
    (before after : Archive) (e2 : Entry) (m0 m' : Mem) (q : Str)
    (h : extractInto fmt strip matcher mx (before ++ e2 :: after) m0 = (none, m'))
    (h2 : entryTarget fmt strip matcher e2 = some q)
    (hafter : ∀ e ∈ after, entryTarget fmt strip matcher e ≠ some q) :
    m'.find q = some e2.content := by
  rw [extract_last_member_wins fmt strip matcher mx _ m0 m' h q, lastMember_append]
  simp [lastMember, lastMember_none_of_no_target fmt strip matcher q after hafter, h2]

/-- "first member wins" (seed C11-m10) is NOT what the extraction does: `a/x` twice. -/
theorem first_member_wins_counterexample :
    (extractInto .tar 0 (fun _ => true) 0
      [{ name := "a/x".toList, content := "v1", kind := .reg }, { name := "a/x".toList, content := "v2", kind := .reg }] []).2.find "a/x".toList
      = some "v2" := by decide

-- non-vacuity: members colliding only after strip-components 1 and normalisation, into a bucket
-- that already holds the path
example : extractInto .zip 1 (fun _ => true) 0
    [{ name := "top/a/x".toList, content := "v1", kind := .reg },
     { name := "other//a/./x".toList, content := "v2", kind := .reg },
     { name := "top/a/x".toList, content := "", kind := .other }] [("a/x".toList, "OLD")]
    = (none, [("a/x".toList, "v2")]) := by decide

end Round6

end BufProofs.C14
