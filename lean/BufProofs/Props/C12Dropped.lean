import BufProofs.Lemmas.FilterClosureLemmas
/-
  C12, clause "minimal": what the filter DROPS contributes nothing to the closure — in particular
  the custom options set on a dropped element are not explored (their extension definition,
  `google.protobuf.*Options`, the option's value type, the Any payloads of the value and the imports
  of their files stay out unless something that survives needs them).

  Statements about single steps of the closure machine of `BufModel.Filter` (the depth-first task
  stack that mirrors `transitiveClosure.addElement`): the step that meets the dropped element
  leaves the state (`modes`, `seen`, `edges`) untouched and pushes NO task, so — `run` being
  `step` + push — nothing is ever visited on behalf of that element.

    dropped_field_adds_nothing     field whose message / enum type is excluded (also a oneof member,
                                   a proto3 optional field, a map / group field)
    dropped_method_adds_nothing    method whose request or response type is excluded
    dropped_oneof_adds_nothing     oneof none of whose members survives: every option task pushed
                                   by the oneof loop belongs to a oneof that keeps a member
    namespace_parent_adds_only_its_own_options
                                   a message kept as a namespace only: its own options and its
                                   parents are visited, none of its fields / oneofs / ranges
  The extension case is `BufProofs.C12.dropped_extension_adds_nothing` (Props/C12.lean).
  Each has a counterpart in the harness (section D, dropped.go) and in the oracle (minimal.go).
-/
namespace BufProofs.C12
open BufModel.Filter BufProofs.FilterLemmas BufProofs.FilterClosure

/-- `addElement`, field loop of a message: a field whose type is excluded is skipped BEFORE its
    custom options are looked at — the state is unchanged and no task is pushed (no `.opts f.opts`,
    no `.add` of the type). -/
theorem dropped_field_adds_nothing (c : Ctx) (st : St) (f : Field) (file t : Id)
    (ht : f.ty = some t) (hx : st.isExcl (.el t) = true) :
    step c st (.field f file) = .ok (st, []) := by
  simp only [step, ht, hx, if_true]

/-- ... whereas a surviving field pushes the exploration of its options (so the hypothesis of
    `dropped_field_adds_nothing` is what makes the difference). -/
theorem kept_field_explores_options (c : Ctx) (st : St) (f : Field) (file t : Id)
    (ht : f.ty = some t) (hx : st.isExcl (.el t) = false) :
    step c st (.field f file) = .ok (st, [.add (.el t) (some file) false, .opts f.opts file]) := by
  simp only [step, ht, hx, Bool.false_eq_true, if_false]

/-- `addElement`, method loop of a service (current code, `svcMarksInput = false`): a method whose
    request or response type is excluded is skipped: state unchanged, no task (its options are
    never explored). -/
theorem dropped_method_adds_nothing (c : Ctx) (hcfg : c.cfg.svcMarksInput = false) (st : St) (m : Method)
    (hx : st.isExcl (.el m.input) = true ∨ st.isExcl (.el m.output) = true) :
    step c st (.svcMethod m) = .ok (st, []) := by
  have h : (st.isExcl (.el m.input) || st.isExcl (.el m.output)) = true := by
    rcases hx with h | h <;> simp [h]
  simp only [step, h, hcfg, if_true, Bool.false_eq_true, if_false]

private theorem fieldIncluded_set_oneof (st : St) (m : Id) (n : Nat) (md : Mode) (f : Field) :
    fieldIncluded (st.set (.oneof m n) md) f = fieldIncluded st f := by
  unfold fieldIncluded St.isExcl
  cases f.ty with
  | none => rfl
  | some t =>
    simp only [get_set]
    have : (Key.el t = Key.oneof m n) = False := by simp
    simp only [this, if_false]

/-- `addElement`, oneof loop: every task it pushes is the exploration of the options of a oneof
    that keeps at least one member; a oneof all of whose members are dropped pushes nothing. -/
theorem dropped_oneof_adds_nothing (st : St) (i : Info) (os : List Oneof) (n : Nat) :
    ∀ t ∈ (oneofsStep st i os n).2, ∃ j o, os[j]? = some o ∧ t = Task.opts o.opts i.file ∧
      (i.fields.filter (fun f => f.oneof = some (n + j) && fieldIncluded st f)).isEmpty = false := by
  induction os generalizing st n with
  | nil => intro t ht; simp [oneofsStep] at ht
  | cons o os ih =>
    intro t ht
    rw [oneofsStep_cons] at ht
    by_cases he : (i.fields.filter (fun f => f.oneof = some n && fieldIncluded st f)).isEmpty = true
    · rw [if_pos he] at ht
      obtain ⟨j, o', hj, hto, hne⟩ := ih _ (n + 1) t ht
      refine ⟨j + 1, o', by simpa using hj, hto, ?_⟩
      have : n + (j + 1) = n + 1 + j := by omega
      rw [this]
      simpa only [fieldIncluded_set_oneof] using hne
    · rw [if_neg he] at ht
      rcases List.mem_cons.mp ht with h0 | hrest
      · exact ⟨0, o, rfl, h0, by simpa using he⟩
      · obtain ⟨j, o', hj, hto, hne⟩ := ih st (n + 1) t hrest
        refine ⟨j + 1, o', by simpa using hj, hto, ?_⟩
        have : n + (j + 1) = n + 1 + j := by omega
        rw [this]
        exact hne

/-- `addEnclosing`: a parent that enters the closure as a namespace pushes the exploration of ITS
    OWN options and of its own parent — nothing for its fields, oneofs or extension ranges. -/
theorem namespace_parent_adds_only_its_own_options (c : Ctx) (st : St) (k : Key) (file : Id) (i : Info)
    (hnew : st.get k = none) (hi : c.idx.find k = some i) :
    step c st (.encl (some k) file) = .ok (st.set k .enclosing, [.opts i.opts file, .encl i.parent file]) := by
  simp only [step, hnew, hi]

/-- Non-vacuity / the shape of the seed's witness: `message A { string id; B b [(tag) = …]; }` with
    `B` excluded — the step for field `b` (type 7, option use of extension 9 with Any payload 8)
    does nothing, the one for `id` explores its (empty) options. -/
example :
    let st : St := (({ modes := [], seen := [], edges := [] } : St).set (.el 7) .excluded)
    let c : Ctx := ⟨cfgFixed, [], true⟩
    step c st (.field ⟨2, some 7, none, none, [⟨some 9, [8]⟩]⟩ 1) = .ok (st, []) ∧
    step c st (.field ⟨1, none, none, none, []⟩ 1) = .ok (st, [.opts [] 1]) := by
  constructor <;> rfl

end BufProofs.C12
