import BufProofs.Lemmas.PathLemmas
import BufProofs.Lemmas.BucketLemmas
import BufModel.Disk
/-
  Helper lemmas for the disk-bucket statements of C13 (directories created by a Put).
-/
namespace BufModel.Disk
open BufModel.Path BufModel.Bucket

theorem mem_addDirs_iff (ds as : List Key) (x : Key) : x ∈ addDirs ds as ↔ x ∈ ds ∨ x ∈ as := by
  induction as generalizing ds with
  | nil => simp [addDirs]
  | cons a rest ih =>
    simp only [addDirs]
    split
    · rename_i hc
      rw [ih]
      have : a ∈ ds := List.contains_iff_mem.mp hc
      constructor
      · rintro (h | h); exact Or.inl h; exact Or.inr (List.mem_cons_of_mem _ h)
      · rintro (h | h)
        · exact Or.inl h
        · rcases List.mem_cons.mp h with e | h
          · subst e; exact Or.inl this
          · exact Or.inr h
    · rw [ih]
      constructor
      · rintro (h | h)
        · rcases List.mem_cons.mp h with e | h
          · subst e; exact Or.inr (List.mem_cons_self ..)
          · exact Or.inl h
        · exact Or.inr (List.mem_cons_of_mem _ h)
      · rintro (h | h)
        · exact Or.inl (List.mem_cons_of_mem _ h)
        · rcases List.mem_cons.mp h with e | h
          · subst e; exact Or.inl (List.mem_cons_self ..)
          · exact Or.inr h

theorem mem_ancestors_take (k x : Key) : x ∈ ancestors k → ∃ n, 0 < n ∧ n < k.length ∧ x = k.take n := by
  intro h
  unfold ancestors at h
  obtain ⟨n, hn, hx⟩ := List.mem_filterMap.mp h
  have hlt := List.mem_range.mp hn
  by_cases h0 : n = 0
  · simp [h0] at hx
  · simp only [h0, if_false] at hx
    injection hx with hx
    exact ⟨n, Nat.pos_of_ne_zero h0, hlt, hx.symm⟩

end BufModel.Disk
