import BufModel.Reader
import BufProofs.Lemmas.BucketLemmas
import BufProofs.Lemmas.ArchiveLemmas
/-
  Helper lemmas for BufModel/Reader.lean (reader handles; which archive member wins), used by
  Props/C14.lean (round 6: `read_after_overwrite_is_snapshot`, `extract_last_member_wins`).
-/
namespace BufModel.Reader
open BufModel.Path BufModel.Bucket BufModel.Archive BufModel.Disk

/-! ### reader handles -/

theorem detach_snapshot (d : Disk) (i : Nat) (sel : Str → Bool) (h : Handle) (c : Content)
    (hs : h.snap = some c) : detach d i sel [h] = [h] := by
  simp [detach, hs]

theorem afterWrites_snapshot (ws : List (Disk × Nat × Write)) (h : Handle) (c : Content)
    (hs : h.snap = some c) : afterWrites ws [h] = [h] := by
  induction ws with
  | nil => rfl
  | cons w rest ih =>
    obtain ⟨d, i, w⟩ := w
    simp only [afterWrites, afterWrite, detach_snapshot d i _ h c hs, ih]

theorem take_append_drop_min (l : List Char) (n : Nat) :
    l.take n ++ l.drop (min n l.length) = l := by
  by_cases h : n ≤ l.length
  · rw [Nat.min_eq_left h]; exact List.take_append_drop n l
  · have h' : l.length ≤ n := Nat.le_of_lt (Nat.lt_of_not_le h)
    rw [Nat.min_eq_right h', List.take_of_length_le h', List.drop_length, List.append_nil]

/-! ### archive members -/

theorem find_put_erase (m : Mem) (p q : Str) (c : Content) :
    Mem.find ((p, c) :: m.erase p) q = if p = q then some c else Mem.find m q := by
  by_cases h : p = q
  · subst h; simp [find_cons_eq]
  · rw [find_cons_ne _ _ _ _ h, find_erase_ne _ _ _ h]; simp [h]

theorem memPut_putKey (m m1 : Mem) (q : Str) (c : Content) (h : memPut m q c = .ok m1) :
    ∃ p, putKey q = some p ∧ m1 = (p, c) :: m.erase p := by
  unfold memPut at h
  unfold putKey
  cases hv : validatePath q with
  | error e => rw [hv] at h; cases h
  | ok p => rw [hv] at h; exact ⟨p, rfl, (Except.ok.inj h).symm⟩

/-- one entry: skipped (bucket unchanged) or put at its target -/
theorem extractEntry_target (fmt : Fmt) (strip : Nat) (matcher : Str → Bool) (mx : Nat) (m m1 : Mem)
    (e : Entry) (h : extractEntry fmt strip matcher mx m e = .ok m1) :
    (entryTarget fmt strip matcher e = none ∧ m1 = m) ∨
    (∃ p, entryTarget fmt strip matcher e = some p ∧ m1 = (p, e.content) :: m.erase p) := by
  unfold extractEntry at h
  unfold entryTarget
  cases fmt with
  | tar =>
    simp only at h ⊢
    cases hu : unmapArchivePath e.name strip matcher with
    | error er => rw [hu] at h; cases h
    | ok o =>
      rw [hu] at h
      cases o with
      | none => exact Or.inl ⟨by first | rfl | trivial, (Except.ok.inj h).symm⟩
      | some p =>
        simp only at h ⊢
        by_cases hr : e.isRegular = true
        · simp only [hr, Bool.not_true, Bool.false_eq_true, if_false] at h ⊢
          by_cases ha : isApple .tar e = true
          · simp only [ha, if_true] at h ⊢
            exact Or.inl ⟨by first | rfl | trivial, (Except.ok.inj h).symm⟩
          · simp only [ha, if_false, Bool.false_eq_true] at h ⊢
            split at h
            · cases h
            · obtain ⟨p', hp', hm⟩ := memPut_putKey m m1 p e.content h
              exact Or.inr ⟨p', hp', hm⟩
        · simp only [hr, Bool.not_false, if_true] at h ⊢
          exact Or.inl ⟨by first | rfl | trivial, (Except.ok.inj h).symm⟩
  | zip =>
    simp only at h ⊢
    cases hu : unmapArchivePath e.name strip matcher with
    | error er => rw [hu] at h; cases h
    | ok o =>
      rw [hu] at h
      cases o with
      | none => exact Or.inl ⟨by first | rfl | trivial, (Except.ok.inj h).symm⟩
      | some p =>
        simp only at h ⊢
        by_cases ha : isApple .zip e = true
        · simp only [ha, if_true] at h ⊢
          exact Or.inl ⟨by first | rfl | trivial, (Except.ok.inj h).symm⟩
        · simp only [ha, if_false, Bool.false_eq_true] at h ⊢
          by_cases hr : e.isRegular = true
          · simp only [hr, if_true] at h ⊢
            obtain ⟨p', hp', hm⟩ := memPut_putKey m m1 p e.content h
            exact Or.inr ⟨p', hp', hm⟩
          · simp only [hr, if_false, Bool.false_eq_true] at h ⊢
            exact Or.inl ⟨by first | rfl | trivial, (Except.ok.inj h).symm⟩

theorem lastMember_append (fmt : Fmt) (strip : Nat) (matcher : Str → Bool) (q : Str) (l1 l2 : Archive) :
    lastMember fmt strip matcher q (l1 ++ l2) =
      match lastMember fmt strip matcher q l2 with
      | some c => some c
      | none => lastMember fmt strip matcher q l1 := by
  induction l1 with
  | nil => simp [lastMember]; cases lastMember fmt strip matcher q l2 <;> rfl
  | cons e rest ih =>
    simp only [List.cons_append, lastMember, ih]
    cases lastMember fmt strip matcher q l2 with
    | some c => rfl
    | none => rfl

theorem lastMember_none_of_no_target (fmt : Fmt) (strip : Nat) (matcher : Str → Bool) (q : Str) (l : Archive)
    (h : ∀ e ∈ l, entryTarget fmt strip matcher e ≠ some q) : lastMember fmt strip matcher q l = none := by
  induction l with
  | nil => rfl
  | cons e rest ih =>
    simp only [lastMember, ih (fun x hx => h x (List.mem_cons_of_mem _ hx))]
    simp [h e (List.mem_cons_self)]

end BufModel.Reader
