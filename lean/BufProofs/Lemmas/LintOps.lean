import BufProofs.Lemmas.LintPlant
/-
  C05 — the PLANTING OPERATORS on declarations (they mirror the operator families of
  harness/cmd/c05/plant.go) and, per group of declarations, the frame lemma for the rules that
  DO read the group (`frame_op*`: the side condition is stated on the ONE rewritten declaration).

  Naming: `op*` builds the transformer, `frame_op*` is its frame lemma; the per-rule exactness
  theorems are in BufProofs/Props/C05.lean.
-/
namespace BufModel.Lint
open BufModel.Case

/-! ### "bad" lemmas: grammar rejection ⇒ the coded predicate -/

theorem bne_of_ne {s t : Str} (h : t ≠ s) : (s != t) = true := by
  simp only [bne_iff_ne, ne_eq]
  exact fun e => h e.symm

/-- a comment without any line (deleted comment) is never a valid leading comment -/
theorem validLeadingComment_nil (ex : List Str) : validLeadingComment ex [] = false := by
  unfold validLeadingComment
  have h1 : splitLines [] = [[]] := rfl
  have h2 : trimSpace [] = [] := rfl
  simp [h1, h2]

/-! ### enum declarations -/

/-- rewrite the enum declaration at source path `p0` -/
def opEnum (p0 : List Nat) (g : Enum → Enum) : Tr := { enum := fun p e => if p = p0 then g e else e }

theorem opEnum_isId (p0 : List Nat) (g : Enum → Enum) (G : Grp) (h : G ≠ .enum) : (opEnum p0 g).isId G := by
  cases G <;> first | exact absurd rfl h | exact ⟨rfl, rfl, rfl⟩ | exact ⟨rfl, rfl⟩ | exact rfl

theorem opEnum_enumFull (p0 : List Nat) (g : Enum → Enum) (p : List Nat) (e : Enum) :
    (opEnum p0 g).enumFull p e = if p = p0 then g e else e := by
  simp [Tr.enumFull, opEnum, mapIdxFrom_id]

/-- what each rule of the enum group demands of ONE enum declaration (its Clean condition,
    restricted to that declaration and its values) -/
def enumLocalGood (r : Rule) (o : Options) (e : Enum) : Bool :=
  match r with
  | .COMMENT_ENUM => goodComment o e.comment
  | .ENUM_FIRST_VALUE_ZERO => (e.values.head?.map (·.number == 0)).getD true
  | .ENUM_NO_ALLOW_ALIAS => !e.allowAlias
  | .ENUM_PASCAL_CASE => isPascalIdent e.name
  | .COMMENT_ENUM_VALUE => e.values.all fun v => goodComment o v.comment
  | .ENUM_VALUE_PREFIX => e.values.all fun v => hasPrefix (toUpperSnakeCase false e.name ++ ['_']) v.name
  | .ENUM_VALUE_UPPER_SNAKE_CASE => e.values.all fun v => isUpperSnakeIdent v.name
  | .ENUM_ZERO_VALUE_SUFFIX => e.values.all fun v => v.number != 0 || hasSuffix o.zeroSuffix v.name
  | _ => true

theorem enum_at_unique (f : File) (p0 : List Nat) (e0 e : Enum) (h0 : (p0, e0) ∈ fileEnums f)
    (h : (p0, e) ∈ fileEnums f) : e = e0 := by
  have := eq_of_key_eq (·.1) (fileEnums f) (p0, e) (p0, e0) (fileEnums_nodup f) h h0 rfl
  exact (Prod.mk.inj this).2

/-- **Frame lemma, enum group.**  Rewriting the enum declaration at `p0` (from `e0` to `g e0`)
    keeps every rule Clean that either does not read enum declarations, or whose demand on that
    one declaration (`enumLocalGood`) survives the rewriting. -/
theorem frame_opEnum (o : Options) (w : Schema) (f : File) (hf : FileAt w f) (p0 : List Nat) (e0 : Enum)
    (he0 : (p0, e0) ∈ fileEnums f) (g : Enum → Enum) (r : Rule)
    (hkeep : enumLocalGood r o e0 = true → enumLocalGood r o (g e0) = true)
    (hc : cleanRule o w r = true) :
    cleanRule o (plantFile f.path (mapFile (opEnum p0 g)) w) r = true := by
  by_cases hd : Grp.enum ∈ dep r
  case neg =>
    exact frame_deep o w f.path _ r (fun G hG => opEnum_isId p0 g G (fun e => hd (e ▸ hG))) hc
  -- elementwise on enum declarations
  have hpt : ∀ (G : Options → List Nat × Enum → Bool), (G o (p0, e0) = true → G o (p0, g e0) = true) →
      ∀ x ∈ fileEnums f, G o x = true → G o (tauEnum (opEnum p0 g) x) = true := by
    intro G hG x hx hgx
    obtain ⟨p, e⟩ := x
    simp only [tauEnum, opEnum_enumFull]
    split
    · next hp =>
      subst hp
      have := enum_at_unique f p e0 e he0 hx
      subst this
      exact hG hgx
    · exact hgx
  -- per enum on its values
  have hpv : ∀ (G : Options → List Nat × Enum × EnumValue → Bool),
      ((∀ v ∈ e0.values, G o ([], e0, v) = true) → ∀ v ∈ (g e0).values, G o ([], g e0, v) = true) →
      ∀ qe ∈ fileEnums f, (∀ v ∈ qe.2.values, G o ([], qe.2, v) = true) →
        ∀ v ∈ ((opEnum p0 g).enumFull qe.1 qe.2).values, G o ([], (opEnum p0 g).enumFull qe.1 qe.2, v) = true := by
    intro G hG qe hqe hall
    obtain ⟨p, e⟩ := qe
    simp only [opEnum_enumFull]
    split
    · next hp =>
      subst hp
      have := enum_at_unique f p e0 e he0 hqe
      subst this
      exact hG hall
    · exact hall
  cases r <;> simp [dep] at hd
  case COMMENT_ENUM =>
    exact frame_via_map o w _ _ _ _ _ rfl f hf _ (fun _ => rfl) _ (fileEnums_map _ f)
      (hpt (fun o x => goodComment o x.2.comment) hkeep) hc
  case ENUM_NO_ALLOW_ALIAS =>
    exact frame_via_map o w _ _ _ _ _ rfl f hf _ (fun _ => rfl) _ (fileEnums_map _ f)
      (hpt (fun _ x => !x.2.allowAlias) hkeep) hc
  case ENUM_PASCAL_CASE =>
    exact frame_via_map o w _ _ _ _ _ rfl f hf _ (fun _ => rfl) _ (fileEnums_map _ f)
      (hpt (fun _ x => isPascalIdent x.2.name) hkeep) hc
  case ENUM_FIRST_VALUE_ZERO =>
    refine frame_via_map o w _ _ _ _ _ rfl f hf _ (fun _ => rfl) _ (fileEnums_map _ f)
      (hpt (fun _ x => match x.2.values with | v :: _ => v.number == 0 | [] => true) ?_) hc
    intro h
    have h1 : enumLocalGood .ENUM_FIRST_VALUE_ZERO o e0 = true := by
      unfold enumLocalGood; cases hv : e0.values <;> simp_all
    have h2 := hkeep h1
    unfold enumLocalGood at h2
    cases hv : (g e0).values <;> simp_all
  case COMMENT_ENUM_VALUE =>
    refine frame_values o w _ _ _ _ rfl (fun _ _ _ _ => rfl) f hf _ (hpv (fun o x => goodComment o x.2.2.comment) ?_) hc
    intro h
    have := hkeep (List.all_eq_true.mpr h)
    exact List.all_eq_true.mp this
  case ENUM_VALUE_PREFIX =>
    refine frame_values o w _ _ _ _ rfl (fun _ _ _ _ => rfl) f hf _
      (hpv (fun _ x => hasPrefix (toUpperSnakeCase false x.2.1.name ++ ['_']) x.2.2.name) ?_) hc
    intro h
    have := hkeep (List.all_eq_true.mpr h)
    exact List.all_eq_true.mp this
  case ENUM_VALUE_UPPER_SNAKE_CASE =>
    refine frame_values o w _ _ _ _ rfl (fun _ _ _ _ => rfl) f hf _
      (hpv (fun _ x => isUpperSnakeIdent x.2.2.name) ?_) hc
    intro h
    have := hkeep (List.all_eq_true.mpr h)
    exact List.all_eq_true.mp this
  case ENUM_ZERO_VALUE_SUFFIX =>
    refine frame_values o w _ _ _ _ rfl (fun _ _ _ _ => rfl) f hf _
      (hpv (fun o x => x.2.2.number != 0 || hasSuffix o.zeroSuffix x.2.2.name) ?_) hc
    intro h
    have := hkeep (List.all_eq_true.mpr h)
    exact List.all_eq_true.mp this

/-! ### enum values -/

/-- rewrite the enum value at source path `q0` (= enum path ++ [2, i]) -/
def opValue (q0 : List Nat) (g : EnumValue → EnumValue) : Tr := { value := fun q v => if q = q0 then g v else v }

theorem opValue_isId (q0 : List Nat) (g : EnumValue → EnumValue) (G : Grp) (h : G ≠ .enum) : (opValue q0 g).isId G := by
  cases G <;> first | exact absurd rfl h | exact ⟨rfl, rfl, rfl⟩ | exact ⟨rfl, rfl⟩ | exact rfl

theorem fileEnumValues_mem {f : File} {x : List Nat × Enum × EnumValue} (h : x ∈ fileEnumValues f) :
    ∃ p i, x.1 = p ++ [2, i] ∧ (p, x.2.1) ∈ fileEnums f ∧ (i, x.2.2) ∈ indexed x.2.1.values := by
  unfold fileEnumValues at h
  obtain ⟨qe, hqe, hx⟩ := List.mem_flatMap.mp h
  obtain ⟨iv, hiv, rfl⟩ := List.mem_map.mp hx
  exact ⟨qe.1, iv.1, rfl, hqe, hiv⟩

theorem value_at_unique (f : File) (x y : List Nat × Enum × EnumValue)
    (hx : x ∈ fileEnumValues f) (hy : y ∈ fileEnumValues f) (e : x.1 = y.1) : x = y :=
  eq_of_key_eq (·.1) (fileEnumValues f) x y (fileEnumValues_nodup f) hx hy e

/-- the value list of an enum after rewriting the value at `q0`: same length, same numbers
    unless `g` changes them -/
theorem mapIdxFrom_value_head (q0 : List Nat) (g : EnumValue → EnumValue) (hnum : ∀ v, (g v).number = v.number)
    (p : List Nat) : ∀ (i : Nat) (l : List EnumValue),
    ((mapIdxFrom (fun j => (opValue q0 g).value (p ++ [2, j])) i l).head?.map (·.number)) = l.head?.map (·.number)
  | _, [] => rfl
  | i, a :: t => by
    simp only [mapIdxFrom, List.head?_cons, Option.map_some, opValue]
    split
    · rw [hnum]
    · rfl

def valueLocalGood (r : Rule) (o : Options) (e : Enum) (v : EnumValue) : Bool :=
  match r with
  | .COMMENT_ENUM_VALUE => goodComment o v.comment
  | .ENUM_VALUE_PREFIX => hasPrefix (toUpperSnakeCase false e.name ++ ['_']) v.name
  | .ENUM_VALUE_UPPER_SNAKE_CASE => isUpperSnakeIdent v.name
  | .ENUM_ZERO_VALUE_SUFFIX => v.number != 0 || hasSuffix o.zeroSuffix v.name
  | _ => true

theorem opValue_enumFull_name (q0 : List Nat) (g : EnumValue → EnumValue) (p : List Nat) (e : Enum) :
    ((opValue q0 g).enumFull p e).name = e.name := rfl

/-- **Frame lemma, enum values.**  Rewriting the value at `q0` (keeping its number) keeps every
    rule Clean whose demand on that one value survives. -/
theorem frame_opValue (o : Options) (w : Schema) (f : File) (hf : FileAt w f) (q0 : List Nat) (e0 : Enum)
    (v0 : EnumValue) (h0 : (q0, e0, v0) ∈ fileEnumValues f) (g : EnumValue → EnumValue)
    (hnum : ∀ v, (g v).number = v.number) (r : Rule)
    (hkeep : valueLocalGood r o e0 v0 = true → valueLocalGood r o e0 (g v0) = true)
    (hc : cleanRule o w r = true) :
    cleanRule o (plantFile f.path (mapFile (opValue q0 g)) w) r = true := by
  by_cases hd : Grp.enum ∈ dep r
  case neg =>
    exact frame_deep o w f.path _ r (fun G hG => opValue_isId q0 g G (fun e => hd (e ▸ hG))) hc
  have hpt : ∀ (G : Options → Enum → EnumValue → Bool),
      (∀ e e' : Enum, e'.name = e.name → ∀ v, G o e' v = G o e v) →
      (G o e0 v0 = true → G o e0 (g v0) = true) →
      ∀ x ∈ fileEnumValues f, G o x.2.1 x.2.2 = true →
        G o (tauValue (opValue q0 g) x).2.1 (tauValue (opValue q0 g) x).2.2 = true := by
    intro G hname hG x hx hgx
    simp only [tauValue]
    rw [hname x.2.1 _ (opValue_enumFull_name q0 g _ _)]
    simp only [opValue]
    split
    · next hq =>
      have := value_at_unique f x (q0, e0, v0) hx h0 hq
      subst this
      exact hG hgx
    · exact hgx
  cases r <;> simp [dep] at hd
  case COMMENT_ENUM | ENUM_NO_ALLOW_ALIAS | ENUM_PASCAL_CASE =>
    exact frame_via_map o w _ _ _ _ _ rfl f hf _ (fun _ => rfl) _ (fileEnums_map _ f)
      (fun x _ h => by simpa [tauEnum, Tr.enumFull, opValue] using h) hc
  case ENUM_FIRST_VALUE_ZERO =>
    refine frame_via_map o w _ _ _ _ _ rfl f hf _ (fun _ => rfl) _ (fileEnums_map _ f) (fun x _ h => ?_) hc
    obtain ⟨p, e⟩ := x
    obtain ⟨n, c, al, vs⟩ := e
    cases vs with
    | nil => rfl
    | cons a t =>
      simp only [tauEnum, Tr.enumFull, opValue, mapIdxFrom] at h ⊢
      split
      · rw [hnum]; exact h
      · exact h
  case COMMENT_ENUM_VALUE =>
    exact frame_via_map o w _ _ _ _ _ rfl f hf _ (fun _ => rfl) _ (fileEnumValues_map_value _ rfl f)
      (hpt (fun o _ v => goodComment o v.comment) (fun _ _ _ _ => rfl) hkeep) hc
  case ENUM_VALUE_PREFIX =>
    exact frame_via_map o w _ _ _ _ _ rfl f hf _ (fun _ => rfl) _ (fileEnumValues_map_value _ rfl f)
      (hpt (fun _ e v => hasPrefix (toUpperSnakeCase false e.name ++ ['_']) v.name)
        (fun _ _ h _ => by simp only [h]) hkeep) hc
  case ENUM_VALUE_UPPER_SNAKE_CASE =>
    exact frame_via_map o w _ _ _ _ _ rfl f hf _ (fun _ => rfl) _ (fileEnumValues_map_value _ rfl f)
      (hpt (fun _ _ v => isUpperSnakeIdent v.name) (fun _ _ _ _ => rfl) hkeep) hc
  case ENUM_ZERO_VALUE_SUFFIX =>
    exact frame_via_map o w _ _ _ _ _ rfl f hf _ (fun _ => rfl) _ (fileEnumValues_map_value _ rfl f)
      (hpt (fun o _ v => v.number != 0 || hasSuffix o.zeroSuffix v.name) (fun _ _ _ _ => rfl) hkeep) hc

/-! ### messages -/

/-- rewrite name and comment of the message at source path `p0` -/
def opMsg (p0 : List Nat) (gn gc : Str → Str) : Tr :=
  { msgName := fun p s => if p = p0 then gn s else s, msgComment := fun p s => if p = p0 then gc s else s }

theorem opMsg_isId (p0 : List Nat) (gn gc : Str → Str) (G : Grp) (h : G ≠ .msg) : (opMsg p0 gn gc).isId G := by
  cases G <;> first | exact absurd rfl h | exact ⟨rfl, rfl, rfl⟩ | exact ⟨rfl, rfl⟩ | exact rfl

def msgLocalGood (r : Rule) (o : Options) (name comment : Str) (mapEntry : Bool) : Bool :=
  match r with
  | .COMMENT_MESSAGE => mapEntry || goodComment o comment
  | .MESSAGE_PASCAL_CASE => mapEntry || isPascalIdent name
  | _ => true

theorem msg_at_unique (f : File) (p0 : List Nat) (m0 m : Message) (h0 : (p0, m0) ∈ fileMsgs f)
    (h : (p0, m) ∈ fileMsgs f) : m = m0 := by
  have := eq_of_key_eq (·.1) (fileMsgs f) (p0, m) (p0, m0) (fileMsgs_nodup f) h h0 rfl
  exact (Prod.mk.inj this).2

/-- **Frame lemma, message group.** -/
theorem frame_opMsg (o : Options) (w : Schema) (f : File) (hf : FileAt w f) (p0 : List Nat) (m0 : Message)
    (hm0 : (p0, m0) ∈ fileMsgs f) (gn gc : Str → Str) (r : Rule)
    (hkeep : msgLocalGood r o m0.name m0.comment m0.mapEntry = true →
      msgLocalGood r o (gn m0.name) (gc m0.comment) m0.mapEntry = true)
    (hc : cleanRule o w r = true) :
    cleanRule o (plantFile f.path (mapFile (opMsg p0 gn gc)) w) r = true := by
  by_cases hd : Grp.msg ∈ dep r
  case neg =>
    exact frame_deep o w f.path _ r (fun G hG => opMsg_isId p0 gn gc G (fun e => hd (e ▸ hG))) hc
  have hpt : ∀ (G : Options → Str → Str → Bool → Bool),
      (G o m0.name m0.comment m0.mapEntry = true → G o (gn m0.name) (gc m0.comment) m0.mapEntry = true) →
      ∀ x ∈ fileMsgs f, G o x.2.name x.2.comment x.2.mapEntry = true →
        G o (tauMsg (opMsg p0 gn gc) x).2.name (tauMsg (opMsg p0 gn gc) x).2.comment
          (tauMsg (opMsg p0 gn gc) x).2.mapEntry = true := by
    intro G hG x hx hgx
    obtain ⟨p, m⟩ := x
    simp only [tauMsg, mapMsg_name, mapMsg_comment, mapMsg_mapEntry, opMsg]
    split
    · next hp =>
      subst hp
      have := msg_at_unique f p m0 m hm0 hx
      subst this
      exact hG hgx
    · exact hgx
  cases r <;> simp [dep] at hd
  case COMMENT_MESSAGE =>
    exact frame_via_map o w _ _ _ _ _ rfl f hf _ (fun _ => rfl) _ (fileMsgs_map _ f)
      (hpt (fun o _ c me => me || goodComment o c) hkeep) hc
  case MESSAGE_PASCAL_CASE =>
    exact frame_via_map o w _ _ _ _ _ rfl f hf _ (fun _ => rfl) _ (fileMsgs_map _ f)
      (hpt (fun _ n _ me => me || isPascalIdent n) hkeep) hc

/-! ### fields and extensions -/

/-- rewrite name, comment and `required` label of the field / extension at source path `q0` -/
def opField (q0 : List Nat) (gn gc : Str → Str) (gr : Bool → Bool) : Tr :=
  { fieldName := fun q s => if q = q0 then gn s else s, fieldComment := fun q s => if q = q0 then gc s else s,
    fieldRequired := fun q b => if q = q0 then gr b else b }

theorem opField_isId (q0 : List Nat) (gn gc : Str → Str) (gr : Bool → Bool) (G : Grp) (h : G ≠ .field) :
    (opField q0 gn gc gr).isId G := by
  cases G <;> first | exact absurd rfl h | exact ⟨rfl, rfl, rfl⟩ | exact ⟨rfl, rfl⟩ | exact rfl

/-- the rewritten field -/
def fieldWith (fd : Field) (gn gc : Str → Str) (gr : Bool → Bool) : Field :=
  { fd with name := gn fd.name, comment := gc fd.comment, required := gr fd.required }

def fieldLocalGood (r : Rule) (o : Options) (mapEntryParent : Bool) (fd : Field) : Bool :=
  match r with
  | .COMMENT_FIELD => mapEntryParent || fd.group || goodComment o fd.comment
  | .FIELD_LOWER_SNAKE_CASE => mapEntryParent || isLowerSnakeIdent fd.name
  | .FIELD_NO_DESCRIPTOR => (trimUnderscores fd.name).map toLower != "descriptor".toList
  | .FIELD_NOT_REQUIRED => !fd.required
  | _ => true

theorem field_at_unique (f : File) (x y : List Nat × Option Message × Field)
    (hx : x ∈ fileFields f) (hy : y ∈ fileFields f) (e : x.1 = y.1) : x = y :=
  eq_of_key_eq (·.1) (fileFields f) x y (fileFields_nodup f) hx hy e

theorem tauField_opField (q0 : List Nat) (gn gc : Str → Str) (gr : Bool → Bool)
    (x : List Nat × Option Message × Field) :
    (tauField (opField q0 gn gc gr) x).2.2 = if x.1 = q0 then fieldWith x.2.2 gn gc gr else x.2.2 := by
  simp only [tauField, Tr.field, opField, fieldWith]
  split <;> rfl

/-- **Frame lemma, field group.** -/
theorem frame_opField (o : Options) (w : Schema) (f : File) (hf : FileAt w f) (q0 : List Nat)
    (pm0 : Option Message) (fd0 : Field) (h0 : (q0, pm0, fd0) ∈ fileFields f)
    (gn gc : Str → Str) (gr : Bool → Bool) (r : Rule)
    (hkeep : fieldLocalGood r o (isMapEntryParent pm0) fd0 = true →
      fieldLocalGood r o (isMapEntryParent pm0) (fieldWith fd0 gn gc gr) = true)
    (hc : cleanRule o w r = true) :
    cleanRule o (plantFile f.path (mapFile (opField q0 gn gc gr)) w) r = true := by
  by_cases hd : Grp.field ∈ dep r
  case neg =>
    exact frame_deep o w f.path _ r (fun G hG => opField_isId q0 gn gc gr G (fun e => hd (e ▸ hG))) hc
  have hpt : ∀ (G : Options → Bool → Field → Bool),
      (G o (isMapEntryParent pm0) fd0 = true → G o (isMapEntryParent pm0) (fieldWith fd0 gn gc gr) = true) →
      ∀ x ∈ fileFields f, G o (isMapEntryParent x.2.1) x.2.2 = true →
        G o (isMapEntryParent (tauField (opField q0 gn gc gr) x).2.1) (tauField (opField q0 gn gc gr) x).2.2 = true := by
    intro G hG x hx hgx
    rw [tauField_opField]
    have hme : isMapEntryParent (tauField (opField q0 gn gc gr) x).2.1 = isMapEntryParent x.2.1 := by
      simp only [tauField, isMapEntryParent_map]
    rw [hme]
    split
    · next hq =>
      have := field_at_unique f x (q0, pm0, fd0) hx h0 hq
      subst this
      exact hG hgx
    · exact hgx
  cases r <;> simp [dep] at hd
  case COMMENT_FIELD =>
    exact frame_via_map o w _ _ _ _ _ rfl f hf _ (fun _ => rfl) _ (fileFields_map _ f)
      (hpt (fun o me fd => me || fd.group || goodComment o fd.comment) hkeep) hc
  case FIELD_LOWER_SNAKE_CASE =>
    exact frame_via_map o w _ _ _ _ _ rfl f hf _ (fun _ => rfl) _ (fileFields_map _ f)
      (hpt (fun _ me fd => me || isLowerSnakeIdent fd.name) hkeep) hc
  case FIELD_NO_DESCRIPTOR =>
    exact frame_via_map o w _ _ _ _ _ rfl f hf _ (fun _ => rfl) _ (fileFields_map _ f)
      (hpt (fun _ _ fd => (trimUnderscores fd.name).map toLower != "descriptor".toList) hkeep) hc
  case FIELD_NOT_REQUIRED =>
    exact frame_via_map o w _ _ _ _ _ rfl f hf _ (fun _ => rfl) _ (fileFields_map _ f)
      (hpt (fun _ _ fd => !fd.required) hkeep) hc

/-! ### oneofs -/

def opOneof (q0 : List Nat) (g : Oneof → Oneof) : Tr := { oneof := fun q x => if q = q0 then g x else x }

theorem opOneof_isId (q0 : List Nat) (g : Oneof → Oneof) (G : Grp) (h : G ≠ .oneof) : (opOneof q0 g).isId G := by
  cases G <;> first | exact absurd rfl h | exact ⟨rfl, rfl, rfl⟩ | exact ⟨rfl, rfl⟩ | exact rfl

def oneofLocalGood (r : Rule) (o : Options) (p3optional : Bool) (oo : Oneof) : Bool :=
  match r with
  | .COMMENT_ONEOF => oo.synthetic || goodComment o oo.comment
  | .ONEOF_LOWER_SNAKE_CASE => isLowerSnakeIdent oo.name || p3optional
  | _ => true

theorem oneof_at_unique (f : File) (x y : List Nat × Message × Nat × Oneof)
    (hx : x ∈ fileOneofs f) (hy : y ∈ fileOneofs f) (e : x.1 = y.1) : x = y :=
  eq_of_key_eq (·.1) (fileOneofs f) x y (fileOneofs_nodup f) hx hy e

/-- **Frame lemma, oneof group.** -/
theorem frame_opOneof (o : Options) (w : Schema) (f : File) (hf : FileAt w f) (q0 : List Nat)
    (m0 : Message) (i0 : Nat) (oo0 : Oneof) (h0 : (q0, m0, i0, oo0) ∈ fileOneofs f) (g : Oneof → Oneof) (r : Rule)
    (hkeep : oneofLocalGood r o (oneofIsP3Optional m0 i0) oo0 = true →
      oneofLocalGood r o (oneofIsP3Optional m0 i0) (g oo0) = true)
    (hc : cleanRule o w r = true) :
    cleanRule o (plantFile f.path (mapFile (opOneof q0 g)) w) r = true := by
  by_cases hd : Grp.oneof ∈ dep r
  case neg =>
    exact frame_deep o w f.path _ r (fun G hG => opOneof_isId q0 g G (fun e => hd (e ▸ hG))) hc
  have hpt : ∀ (G : Options → Bool → Oneof → Bool),
      (G o (oneofIsP3Optional m0 i0) oo0 = true → G o (oneofIsP3Optional m0 i0) (g oo0) = true) →
      ∀ x ∈ fileOneofs f, G o (oneofIsP3Optional x.2.1 x.2.2.1) x.2.2.2 = true →
        G o (oneofIsP3Optional (tauOneof (opOneof q0 g) x).2.1 (tauOneof (opOneof q0 g) x).2.2.1)
          (tauOneof (opOneof q0 g) x).2.2.2 = true := by
    intro G hG x hx hgx
    simp only [tauOneof, oneofIsP3Optional_map, opOneof]
    split
    · next hq =>
      have := oneof_at_unique f x (q0, m0, i0, oo0) hx h0 hq
      subst this
      exact hG hgx
    · exact hgx
  cases r <;> simp [dep] at hd
  case COMMENT_ONEOF =>
    exact frame_via_map o w _ _ _ _ _ rfl f hf _ (fun _ => rfl) _ (fileOneofs_map _ f)
      (hpt (fun o _ oo => oo.synthetic || goodComment o oo.comment) hkeep) hc
  case ONEOF_LOWER_SNAKE_CASE =>
    exact frame_via_map o w _ _ _ _ _ rfl f hf _ (fun _ => rfl) _ (fileOneofs_map _ f)
      (hpt (fun _ p3 oo => isLowerSnakeIdent oo.name || p3) hkeep) hc

/-! ### services -/

def opSvc (p0 : List Nat) (gn gc : Str → Str) : Tr :=
  { svcName := fun p s => if p = p0 then gn s else s, svcComment := fun p s => if p = p0 then gc s else s }

theorem opSvc_isId (p0 : List Nat) (gn gc : Str → Str) (G : Grp) (h : G ≠ .svc) : (opSvc p0 gn gc).isId G := by
  cases G <;> first | exact absurd rfl h | exact ⟨rfl, rfl, rfl⟩ | exact ⟨rfl, rfl⟩ | exact rfl

def svcWith (s : Service) (gn gc : Str → Str) : Service := { s with name := gn s.name, comment := gc s.comment }

def svcLocalGood (r : Rule) (o : Options) (s : Service) : Bool :=
  match r with
  | .COMMENT_SERVICE => goodComment o s.comment
  | .SERVICE_PASCAL_CASE => isPascalIdent s.name
  | .SERVICE_SUFFIX => hasSuffix o.svcSuffix s.name
  | _ => true

def rpcLocalGood (r : Rule) (o : Options) (s : Service) (m : Rpc) : Bool :=
  match r with
  | .COMMENT_RPC => goodComment o m.comment
  | .RPC_NO_CLIENT_STREAMING => !m.clientStreaming
  | .RPC_NO_SERVER_STREAMING => !m.serverStreaming
  | .RPC_PASCAL_CASE => isPascalIdent m.name
  | .RPC_REQUEST_STANDARD_NAME => !stdNameBad o true s m
  | .RPC_RESPONSE_STANDARD_NAME => !stdNameBad o false s m
  | _ => true

theorem stdNameBad_congr (o : Options) (b : Bool) (s s' : Service) (m : Rpc) (h : s'.name = s.name) :
    stdNameBad o b s' m = stdNameBad o b s m := by
  unfold stdNameBad; rw [h]

theorem svc_at_unique (f : File) (p0 : List Nat) (s0 s : Service) (h0 : (p0, s0) ∈ fileSvcs f)
    (h : (p0, s) ∈ fileSvcs f) : s = s0 := by
  have := eq_of_key_eq (·.1) (fileSvcs f) (p0, s) (p0, s0) (fileSvcs_nodup f) h h0 rfl
  exact (Prod.mk.inj this).2

theorem rpc_at_unique (f : File) (x y : List Nat × Service × Rpc)
    (hx : x ∈ fileRpcs f) (hy : y ∈ fileRpcs f) (e : x.1 = y.1) : x = y :=
  eq_of_key_eq (·.1) (fileRpcs f) x y (fileRpcs_nodup f) hx hy e

theorem fileRpcs_mem {f : File} {x : List Nat × Service × Rpc} (h : x ∈ fileRpcs f) :
    ∃ p i, x.1 = p ++ [2, i] ∧ (p, x.2.1) ∈ fileSvcs f ∧ (i, x.2.2) ∈ indexed x.2.1.rpcs := by
  unfold fileRpcs at h
  obtain ⟨ps, hps, hx⟩ := List.mem_flatMap.mp h
  obtain ⟨im, him, rfl⟩ := List.mem_map.mp hx
  exact ⟨ps.1, im.1, rfl, hps, him⟩

theorem mapSvc_opSvc (p0 : List Nat) (gn gc : Str → Str) (p : List Nat) (s : Service) :
    mapSvc (opSvc p0 gn gc) p s = if p = p0 then svcWith s gn gc else s := by
  simp only [mapSvc, opSvc, svcWith, mapIdxFrom_id]
  split <;> rfl

/-- **Frame lemma, service group** (the service's own rules, and the two RPC_*_STANDARD_NAME
    rules, which read the service name). -/
theorem frame_opSvc (o : Options) (w : Schema) (f : File) (hf : FileAt w f) (p0 : List Nat) (s0 : Service)
    (h0 : (p0, s0) ∈ fileSvcs f) (gn gc : Str → Str) (r : Rule)
    (hkeep : svcLocalGood r o s0 = true → svcLocalGood r o (svcWith s0 gn gc) = true)
    (hkeepRpc : ∀ m ∈ s0.rpcs, rpcLocalGood r o s0 m = true → rpcLocalGood r o (svcWith s0 gn gc) m = true)
    (hc : cleanRule o w r = true) :
    cleanRule o (plantFile f.path (mapFile (opSvc p0 gn gc)) w) r = true := by
  by_cases hd : Grp.svc ∈ dep r
  case neg =>
    exact frame_deep o w f.path _ r (fun G hG => opSvc_isId p0 gn gc G (fun e => hd (e ▸ hG))) hc
  have hpt : ∀ (G : Options → Service → Bool),
      (G o s0 = true → G o (svcWith s0 gn gc) = true) →
      ∀ x ∈ fileSvcs f, G o x.2 = true → G o (tauSvc (opSvc p0 gn gc) x).2 = true := by
    intro G hG x hx hgx
    obtain ⟨p, s⟩ := x
    simp only [tauSvc, mapSvc_opSvc]
    split
    · next hp =>
      subst hp
      have := svc_at_unique f p s0 s h0 hx
      subst this
      exact hG hgx
    · exact hgx
  have hpr : ∀ (G : Options → Service → Rpc → Bool),
      (∀ m ∈ s0.rpcs, G o s0 m = true → G o (svcWith s0 gn gc) m = true) →
      ∀ x ∈ fileRpcs f, G o x.2.1 x.2.2 = true →
        G o (tauRpc (opSvc p0 gn gc) x).2.1 (tauRpc (opSvc p0 gn gc) x).2.2 = true := by
    intro G hG x hx hgx
    obtain ⟨p, i, hq, hps, him⟩ := fileRpcs_mem hx
    obtain ⟨q, s, m⟩ := x
    simp only at hq hps him hgx
    subst hq
    simp only [tauRpc, dropLast2, mapSvc_opSvc]
    have hrpc : (opSvc p0 gn gc).rpc (p ++ [2, i]) m = m := rfl
    rw [hrpc]
    split
    · next hp =>
      subst hp
      have := svc_at_unique f p s0 s h0 hps
      subst this
      exact hG m (mem_indexFrom_val 0 _ _ him) hgx
    · exact hgx
  cases r <;> simp [dep] at hd
  case COMMENT_SERVICE =>
    exact frame_via_map o w _ _ _ _ _ rfl f hf _ (fun _ => rfl) _ (fileSvcs_map _ f)
      (hpt (fun o s => goodComment o s.comment) hkeep) hc
  case SERVICE_PASCAL_CASE =>
    exact frame_via_map o w _ _ _ _ _ rfl f hf _ (fun _ => rfl) _ (fileSvcs_map _ f)
      (hpt (fun _ s => isPascalIdent s.name) hkeep) hc
  case SERVICE_SUFFIX =>
    exact frame_via_map o w _ _ _ _ _ rfl f hf _ (fun _ => rfl) _ (fileSvcs_map _ f)
      (hpt (fun o s => hasSuffix o.svcSuffix s.name) hkeep) hc
  case RPC_REQUEST_STANDARD_NAME =>
    exact frame_via_map o w _ _ _ _ _ rfl f hf _ (fun _ => rfl) _ (fileRpcs_map _ f)
      (hpr (fun o s m => !stdNameBad o true s m) hkeepRpc) hc
  case RPC_RESPONSE_STANDARD_NAME =>
    exact frame_via_map o w _ _ _ _ _ rfl f hf _ (fun _ => rfl) _ (fileRpcs_map _ f)
      (hpr (fun o s m => !stdNameBad o false s m) hkeepRpc) hc

/-! ### RPCs -/

def opRpc (q0 : List Nat) (g : Rpc → Rpc) : Tr := { rpc := fun q m => if q = q0 then g m else m }

theorem opRpc_isId (q0 : List Nat) (g : Rpc → Rpc) (G : Grp) (h : G ≠ .rpc) : (opRpc q0 g).isId G := by
  cases G <;> first | exact absurd rfl h | exact ⟨rfl, rfl, rfl⟩ | exact ⟨rfl, rfl⟩ | exact rfl

theorem mapSvc_opRpc_name (q0 : List Nat) (g : Rpc → Rpc) (p : List Nat) (s : Service) :
    (mapSvc (opRpc q0 g) p s).name = s.name := rfl

/-- the RPC table of a workspace in which one file was rewritten -/
theorem rpcTable_plant (w : Schema) (fp : Str) (h : File → File) (hI : ∀ g, (h g).isImport = g.isImport)
    (hr : ∀ g ∈ nonImport w, g.path = fp → fileRpcRows (h g) = fileRpcRows g) :
    rpcTable (plantFile fp h w) = rpcTable w := by
  rw [rpcTable_eq, rpcTable_eq]
  unfold plantFile
  rw [nonImport_map _ (sel_isImport fp h hI), flatMap_map_left]
  apply flatMap_congr_mem
  intro g hg
  unfold sel
  split
  · next hp => exact hr g hg (by simpa using hp)
  · rfl

/-- **Frame lemma, RPC group**; RPC_REQUEST_RESPONSE_UNIQUE is framed when the rewriting keeps
    the request and response types. -/
theorem frame_opRpc (o : Options) (w : Schema) (f : File) (hf : FileAt w f) (q0 : List Nat) (s0 : Service)
    (m0 : Rpc) (h0 : (q0, s0, m0) ∈ fileRpcs f) (g : Rpc → Rpc) (r : Rule)
    (hkeep : rpcLocalGood r o s0 m0 = true → rpcLocalGood r o s0 (g m0) = true)
    (hio : r = .RPC_REQUEST_RESPONSE_UNIQUE → (g m0).inType = m0.inType ∧ (g m0).outType = m0.outType)
    (hc : cleanRule o w r = true) :
    cleanRule o (plantFile f.path (mapFile (opRpc q0 g)) w) r = true := by
  by_cases hd : Grp.rpc ∈ dep r
  case neg =>
    exact frame_deep o w f.path _ r (fun G hG => opRpc_isId q0 g G (fun e => hd (e ▸ hG))) hc
  have hpr : ∀ (G : Options → Service → Rpc → Bool),
      (∀ s s' : Service, s'.name = s.name → ∀ m, G o s' m = G o s m) →
      (G o s0 m0 = true → G o s0 (g m0) = true) →
      ∀ x ∈ fileRpcs f, G o x.2.1 x.2.2 = true →
        G o (tauRpc (opRpc q0 g) x).2.1 (tauRpc (opRpc q0 g) x).2.2 = true := by
    intro G hname hG x hx hgx
    simp only [tauRpc]
    rw [hname x.2.1 _ (mapSvc_opRpc_name q0 g _ _)]
    simp only [opRpc]
    split
    · next hq =>
      have := rpc_at_unique f x (q0, s0, m0) hx h0 hq
      subst this
      exact hG hgx
    · exact hgx
  cases r <;> simp [dep] at hd
  case COMMENT_RPC =>
    exact frame_via_map o w _ _ _ _ _ rfl f hf _ (fun _ => rfl) _ (fileRpcs_map _ f)
      (hpr (fun o _ m => goodComment o m.comment) (fun _ _ _ _ => rfl) hkeep) hc
  case RPC_NO_CLIENT_STREAMING =>
    exact frame_via_map o w _ _ _ _ _ rfl f hf _ (fun _ => rfl) _ (fileRpcs_map _ f)
      (hpr (fun _ _ m => !m.clientStreaming) (fun _ _ _ _ => rfl) hkeep) hc
  case RPC_NO_SERVER_STREAMING =>
    exact frame_via_map o w _ _ _ _ _ rfl f hf _ (fun _ => rfl) _ (fileRpcs_map _ f)
      (hpr (fun _ _ m => !m.serverStreaming) (fun _ _ _ _ => rfl) hkeep) hc
  case RPC_PASCAL_CASE =>
    exact frame_via_map o w _ _ _ _ _ rfl f hf _ (fun _ => rfl) _ (fileRpcs_map _ f)
      (hpr (fun _ _ m => isPascalIdent m.name) (fun _ _ _ _ => rfl) hkeep) hc
  case RPC_REQUEST_STANDARD_NAME =>
    exact frame_via_map o w _ _ _ _ _ rfl f hf _ (fun _ => rfl) _ (fileRpcs_map _ f)
      (hpr (fun o s m => !stdNameBad o true s m) (fun s s' h m => by simp only [stdNameBad_congr o true s s' m h])
        hkeep) hc
  case RPC_RESPONSE_STANDARD_NAME =>
    exact frame_via_map o w _ _ _ _ _ rfl f hf _ (fun _ => rfl) _ (fileRpcs_map _ f)
      (hpr (fun o s m => !stdNameBad o false s m) (fun s s' h m => by simp only [stdNameBad_congr o false s s' m h])
        hkeep) hc
  case RPC_REQUEST_RESPONSE_UNIQUE =>
    have ht : rpcTable (plantFile f.path (mapFile (opRpc q0 g)) w) = rpcTable w := by
      apply rpcTable_plant w f.path (mapFile (opRpc q0 g)) (fun _ => rfl)
      intro f' hf' hp
      have : f' = f := hf.unique f' (mem_nonImport hf').1 hp
      subst this
      unfold fileRpcRows
      rw [fileRpcs_map, List.map_map]
      apply List.map_congr_left
      intro x hx
      simp only [Function.comp, tauRpc, opRpc]
      split
      · next hq =>
        have := rpc_at_unique f' x (q0, s0, m0) hx h0 hq
        subst this
        simp only [(hio rfl).1, (hio rfl).2]
        rfl
      · rfl
    rw [cleanRule_global o _ _ rfl] at hc ⊢
    simp only [globalClean, rpcUnique] at hc ⊢
    rw [ht]; exact hc

/-! ### file-level operators (imports, syntax, options, package, path) -/

/-- what each file / import rule demands of ONE file -/
def fileLocalGood (r : Rule) (o : Options) (f : File) : Bool :=
  match elemRule r with
  | some er => (er.els f).all (er.good o)
  | none => true

/-- the rewriting keeps the declarations of a file -/
structure KeepsDecls (h : File → File) : Prop where
  enums : ∀ f, (h f).enums = f.enums
  msgs : ∀ f, (h f).msgs = f.msgs
  svcs : ∀ f, (h f).svcs = f.svcs
  exts : ∀ f, (h f).exts = f.exts

theorem KeepsDecls.fileMsgs {h : File → File} (k : KeepsDecls h) (f : File) : fileMsgs (h f) = fileMsgs f := by
  unfold Lint.fileMsgs; rw [k.msgs]
theorem KeepsDecls.fileEnums {h : File → File} (k : KeepsDecls h) (f : File) : fileEnums (h f) = fileEnums f := by
  unfold Lint.fileEnums; rw [k.fileMsgs, k.enums]
theorem KeepsDecls.fileEnumValues {h : File → File} (k : KeepsDecls h) (f : File) :
    fileEnumValues (h f) = fileEnumValues f := by
  unfold Lint.fileEnumValues; rw [k.fileEnums]
theorem KeepsDecls.fileFields {h : File → File} (k : KeepsDecls h) (f : File) : fileFields (h f) = fileFields f := by
  unfold Lint.fileFields; rw [k.fileMsgs, k.exts]
theorem KeepsDecls.fileOneofs {h : File → File} (k : KeepsDecls h) (f : File) : fileOneofs (h f) = fileOneofs f := by
  unfold Lint.fileOneofs; rw [k.fileMsgs]
theorem KeepsDecls.fileSvcs {h : File → File} (k : KeepsDecls h) (f : File) : fileSvcs (h f) = fileSvcs f := by
  unfold Lint.fileSvcs; rw [k.svcs]
theorem KeepsDecls.fileRpcs {h : File → File} (k : KeepsDecls h) (f : File) : fileRpcs (h f) = fileRpcs f := by
  unfold Lint.fileRpcs; rw [k.fileSvcs]

/-- the rules on the file header and on imports -/
def isFileRule : Rule → Bool
  | .FILE_LOWER_SNAKE_CASE | .IMPORT_NO_PUBLIC | .IMPORT_NO_WEAK | .IMPORT_USED | .PACKAGE_DEFINED
  | .PACKAGE_DIRECTORY_MATCH | .PACKAGE_LOWER_SNAKE_CASE | .PACKAGE_VERSION_SUFFIX | .SYNTAX_SPECIFIED => true
  | _ => false

/-- **Frame lemma, header rewriting, per-element rules.**  A rewriting of the file header keeps
    every declaration rule Clean outright, and a file / import rule Clean when its demand on that
    one file survives. -/
theorem frame_fileOp_elem (o : Options) (w : Schema) (f : File) (hf : FileAt w f) (h : File → File)
    (hI : ∀ g, (h g).isImport = g.isImport) (kd : KeepsDecls h) (r : Rule) (er : ElemRule)
    (he : elemRule r = some er)
    (hkeep : isFileRule r = true → fileLocalGood r o f = true → fileLocalGood r o (h f) = true)
    (hc : cleanRule o w r = true) : cleanRule o (plantFile f.path h w) r = true := by
  apply cleanRule_elem_plant o w r er he f.path h hI _ hc
  intro f' hf' hp hg
  have : f' = f := hf.unique f' (mem_nonImport hf').1 hp
  subst this
  by_cases hfr : isFileRule r = true
  · have := hkeep hfr (by unfold fileLocalGood; rw [he]; exact hg)
    unfold fileLocalGood at this; rw [he] at this; exact this
  · cases r <;> simp only [elemRule, Option.some.injEq, reduceCtorEq] at he <;> subst he <;>
      simp [isFileRule] at hfr
    case COMMENT_ENUM | ENUM_FIRST_VALUE_ZERO | ENUM_NO_ALLOW_ALIAS | ENUM_PASCAL_CASE =>
      show (fileEnums (h f')).all _ = true; rw [kd.fileEnums]; exact hg
    case COMMENT_ENUM_VALUE | ENUM_VALUE_PREFIX | ENUM_VALUE_UPPER_SNAKE_CASE | ENUM_ZERO_VALUE_SUFFIX =>
      show (fileEnumValues (h f')).all _ = true; rw [kd.fileEnumValues]; exact hg
    case COMMENT_MESSAGE | MESSAGE_PASCAL_CASE =>
      show (fileMsgs (h f')).all _ = true; rw [kd.fileMsgs]; exact hg
    case COMMENT_FIELD | FIELD_LOWER_SNAKE_CASE | FIELD_NO_DESCRIPTOR | FIELD_NOT_REQUIRED =>
      show (fileFields (h f')).all _ = true; rw [kd.fileFields]; exact hg
    case COMMENT_ONEOF | ONEOF_LOWER_SNAKE_CASE =>
      show (fileOneofs (h f')).all _ = true; rw [kd.fileOneofs]; exact hg
    case COMMENT_SERVICE | SERVICE_PASCAL_CASE | SERVICE_SUFFIX =>
      show (fileSvcs (h f')).all _ = true; rw [kd.fileSvcs]; exact hg
    case COMMENT_RPC | RPC_NO_CLIENT_STREAMING | RPC_NO_SERVER_STREAMING | RPC_PASCAL_CASE
        | RPC_REQUEST_STANDARD_NAME | RPC_RESPONSE_STANDARD_NAME =>
      show (fileRpcs (h f')).all _ = true; rw [kd.fileRpcs]; exact hg

theorem fileRpcRows_of_keeps (h : File → File) (kd : KeepsDecls h) (hp : ∀ f, (h f).path = f.path) (f : File) :
    fileRpcRows (h f) = fileRpcRows f := by
  unfold fileRpcRows; rw [kd.fileRpcs, hp]

/-- **Frame lemma, header rewriting, multi-file rules**: a rewriting that keeps path, package,
    import flag, import PATHS, and the option the rule compares, cannot be seen by any
    multi-file rule. -/
theorem frame_fileOp_global (o : Options) (w : Schema) (fp : Str) (h : File → File) (k : KeepsHdr h)
    (kd : KeepsDecls h) (r : Rule) (he : elemRule r = none)
    (hopts : ∀ i, optIndex r = some i → ∀ f, optVal (h f) i = optVal f i)
    (hc : cleanRule o w r = true) : cleanRule o (plantFile fp h w) r = true := by
  rw [cleanRule_global_plant o w r he fp h k hopts (fun _ => fileRpcRows_of_keeps h kd k.path)]
  exact hc

/-- rewrite the import statement number `i0` -/
def opImport (i0 : Nat) (g : Import → Import) (f : File) : File :=
  { f with imports := mapIdxFrom (fun j imp => if j = i0 then g imp else imp) 0 f.imports }

theorem mapIdxFrom_paths (i0 : Nat) (g : Import → Import) (hp : ∀ imp, (g imp).path = imp.path) :
    ∀ (i : Nat) (l : List Import),
      (mapIdxFrom (fun j imp => if j = i0 then g imp else imp) i l).map (·.path) = l.map (·.path)
  | _, [] => rfl
  | i, a :: t => by
    simp only [mapIdxFrom, List.map_cons, mapIdxFrom_paths i0 g hp (i + 1) t]
    split
    · rw [hp]
    · rfl

theorem keepsHdr_opImport (i0 : Nat) (g : Import → Import) (hp : ∀ imp, (g imp).path = imp.path) :
    KeepsHdr (opImport i0 g) :=
  ⟨fun _ => rfl, fun _ => rfl, fun _ => rfl, fun f => mapIdxFrom_paths i0 g hp 0 f.imports⟩

theorem keepsDecls_opImport (i0 : Nat) (g : Import → Import) : KeepsDecls (opImport i0 g) :=
  ⟨fun _ => rfl, fun _ => rfl, fun _ => rfl, fun _ => rfl⟩

theorem indexed_imports_nodup (f : File) : ((indexed f.imports).map (fun x => [x.1])).Nodup := by
  have h := indexFrom_nodup 0 f.imports
  unfold indexed
  generalize indexFrom 0 f.imports = il at h
  induction il with
  | nil => simp
  | cons a r ih =>
    simp only [List.map_cons, List.nodup_cons] at h ⊢
    refine ⟨?_, ih h.2⟩
    intro hm
    obtain ⟨b, hb, e⟩ := List.mem_map.mp hm
    simp only [List.cons.injEq, and_true] at e
    exact h.1 (by rw [← e]; exact List.mem_map.mpr ⟨b, hb, rfl⟩)

def importLocalGood (r : Rule) (imp : Import) : Bool :=
  match r with
  | .IMPORT_NO_PUBLIC => !imp.isPublic
  | .IMPORT_USED => !imp.isUnused
  | _ => true

theorem indexed_opImport (i0 : Nat) (g : Import → Import) (f : File) :
    indexed (opImport i0 g f).imports =
      (indexed f.imports).map (fun jx => (jx.1, if jx.1 = i0 then g jx.2 else jx.2)) :=
  indexed_mapIdxFrom _ f.imports

theorem import_at_unique (f : File) (x y : Nat × Import) (hx : x ∈ indexed f.imports) (hy : y ∈ indexed f.imports)
    (e : x.1 = y.1) : x = y :=
  eq_of_key_eq (·.1) (indexed f.imports) x y (indexFrom_nodup 0 f.imports) hx hy e

/-- **Frame lemma, one import statement** (its path is kept): only the import rule whose flag
    changes can see it. -/
theorem frame_opImport (o : Options) (w : Schema) (f : File) (hf : FileAt w f) (i0 : Nat) (imp0 : Import)
    (h0 : (i0, imp0) ∈ indexed f.imports) (g : Import → Import) (hp : ∀ imp, (g imp).path = imp.path) (r : Rule)
    (hkeep : importLocalGood r imp0 = true → importLocalGood r (g imp0) = true)
    (hc : cleanRule o w r = true) : cleanRule o (plantFile f.path (opImport i0 g) w) r = true := by
  cases he : elemRule r with
  | none =>
    exact frame_fileOp_global o w f.path (opImport i0 g) (keepsHdr_opImport i0 g hp) (keepsDecls_opImport i0 g) r he
      (fun _ _ _ => rfl) hc
  | some er =>
    apply frame_fileOp_elem o w f hf (opImport i0 g) (fun _ => rfl) (keepsDecls_opImport i0 g) r er he _ hc
    intro hfr
    have hpt : ∀ (G : Import → Bool), (G imp0 = true → G (g imp0) = true) →
        (indexed f.imports).all (fun x => G x.2) = true →
        (indexed (opImport i0 g f).imports).all (fun x => G x.2) = true := by
      intro G hG hall
      rw [indexed_opImport, List.all_map]
      apply List.all_eq_true.mpr
      intro x hx
      have hgx := List.all_eq_true.mp hall x hx
      simp only [Function.comp]
      split
      · next hi =>
        have := import_at_unique f x (i0, imp0) hx h0 hi
        subst this
        exact hG hgx
      · exact hgx
    cases r <;> simp [isFileRule] at hfr <;> simp only [fileLocalGood, elemRule]
    case IMPORT_NO_PUBLIC => exact hpt (fun imp => !imp.isPublic) hkeep
    case IMPORT_USED => exact hpt (fun imp => !imp.isUnused) hkeep
    case IMPORT_NO_WEAK => exact fun _ => by simp
    all_goals exact id

theorem keepsHdr_of_rfl (h : File → File) (h1 : ∀ f, (h f).path = f.path) (h2 : ∀ f, (h f).pkg = f.pkg)
    (h3 : ∀ f, (h f).isImport = f.isImport) (h4 : ∀ f, (h f).imports = f.imports) : KeepsHdr h :=
  ⟨h1, h2, h3, fun f => by rw [h4]⟩

/-- the file without its `syntax = …;` line -/
def noSyntax (f : File) : File := { f with syntaxUnspecified := true }

/-- **Frame lemma, the syntax line.** -/
theorem frame_unsetSyntax (o : Options) (w : Schema) (f : File) (hf : FileAt w f) (r : Rule)
    (hne : r ≠ .SYNTAX_SPECIFIED) (hc : cleanRule o w r = true) :
    cleanRule o (plantFile f.path noSyntax w) r = true := by
  cases he : elemRule r with
  | none =>
    exact frame_fileOp_global o w f.path noSyntax
      (keepsHdr_of_rfl _ (fun _ => rfl) (fun _ => rfl) (fun _ => rfl) (fun _ => rfl))
      ⟨fun _ => rfl, fun _ => rfl, fun _ => rfl, fun _ => rfl⟩ r he (fun _ _ _ => rfl) hc
  | some er =>
    apply frame_fileOp_elem o w f hf noSyntax (fun _ => rfl)
      ⟨fun _ => rfl, fun _ => rfl, fun _ => rfl, fun _ => rfl⟩ r er he _ hc
    intro hfr
    cases r <;> simp [isFileRule] at hfr hne <;> simp only [fileLocalGood, elemRule]
    all_goals exact id

/-! ### names that the grammar theorems reject -/

/-- contains a delimiter (underscore, '.', '-', space …) or starts with a lower-case letter -/
def NotPascal (s : Str) : Prop := (∃ c ∈ s, isDelimiter c = true) ∨ (∃ c cs, s = c :: cs ∧ isLower c = true)

/-- contains an upper-case letter -/
def NotLowerSnake (s : Str) : Prop := ∃ c ∈ s, isUpper c = true

/-- contains a lower-case letter -/
def NotUpperSnake (s : Str) : Prop := ∃ c ∈ s, isLower c = true

theorem notPascal_bad {s : Str} (h : NotPascal s) : (s != toPascalCase s) = true := by
  apply bne_of_ne
  rcases h with ⟨c, hc, hd⟩ | ⟨c, cs, rfl, hl⟩
  · exact toPascalCase_ne_of_delim s c hc hd
  · exact toPascalCase_ne_of_lower_first c cs hl

theorem notLowerSnake_bad {s : Str} (h : NotLowerSnake s) : (s != toLowerSnakeCase false s) = true := by
  obtain ⟨c, hc, hu⟩ := h
  exact bne_of_ne (toLowerSnakeCase_ne_of_upper false s c hc hu)

theorem notUpperSnake_bad {s : Str} (h : NotUpperSnake s) : (s != toUpperSnakeCase false s) = true := by
  obtain ⟨c, hc, hl⟩ := h
  exact bne_of_ne (toUpperSnakeCase_ne_of_lower false s c hc hl)

/-! ### the planting operators (public names) -/

/-- rewrite the declarations of the file `fp` -/
def plantDecl (fp : Str) (T : Tr) (w : Schema) : Schema := plantFile fp (mapFile T) w

def renameEnum (fp : Str) (p0 : List Nat) (nn : Str) : Schema → Schema :=
  plantDecl fp (opEnum p0 fun e => { e with name := nn })
def setEnumComment (fp : Str) (p0 : List Nat) (c : Str) : Schema → Schema :=
  plantDecl fp (opEnum p0 fun e => { e with comment := c })
/-- `option allow_alias = true;` plus the alias values it needs -/
def addAllowAlias (fp : Str) (p0 : List Nat) (extra : List EnumValue) : Schema → Schema :=
  plantDecl fp (opEnum p0 fun e => { e with allowAlias := true, values := e.values ++ extra })
/-- exchange the first two values of an enum -/
def swapFirst (e : Enum) : Enum :=
  match e.values with
  | a :: b :: rest => { e with values := b :: a :: rest }
  | _ => e
def swapFirstValues (fp : Str) (p0 : List Nat) : Schema → Schema := plantDecl fp (opEnum p0 swapFirst)
def renameValue (fp : Str) (q0 : List Nat) (nn : Str) : Schema → Schema :=
  plantDecl fp (opValue q0 fun v => { v with name := nn })
def setValueComment (fp : Str) (q0 : List Nat) (c : Str) : Schema → Schema :=
  plantDecl fp (opValue q0 fun v => { v with comment := c })
def renameMessage (fp : Str) (p0 : List Nat) (nn : Str) : Schema → Schema :=
  plantDecl fp (opMsg p0 (fun _ => nn) id)
def setMessageComment (fp : Str) (p0 : List Nat) (c : Str) : Schema → Schema :=
  plantDecl fp (opMsg p0 id (fun _ => c))
def renameField (fp : Str) (q0 : List Nat) (nn : Str) : Schema → Schema :=
  plantDecl fp (opField q0 (fun _ => nn) id id)
def setFieldComment (fp : Str) (q0 : List Nat) (c : Str) : Schema → Schema :=
  plantDecl fp (opField q0 id (fun _ => c) id)
def setFieldRequired (fp : Str) (q0 : List Nat) : Schema → Schema :=
  plantDecl fp (opField q0 id id (fun _ => true))
def renameOneof (fp : Str) (q0 : List Nat) (nn : Str) : Schema → Schema :=
  plantDecl fp (opOneof q0 fun x => { x with name := nn })
def setOneofComment (fp : Str) (q0 : List Nat) (c : Str) : Schema → Schema :=
  plantDecl fp (opOneof q0 fun x => { x with comment := c })
def renameService (fp : Str) (p0 : List Nat) (nn : Str) : Schema → Schema :=
  plantDecl fp (opSvc p0 (fun _ => nn) id)
def setServiceComment (fp : Str) (p0 : List Nat) (c : Str) : Schema → Schema :=
  plantDecl fp (opSvc p0 id (fun _ => c))
def renameRpc (fp : Str) (q0 : List Nat) (nn : Str) : Schema → Schema :=
  plantDecl fp (opRpc q0 fun m => { m with name := nn })
def setRpcComment (fp : Str) (q0 : List Nat) (c : Str) : Schema → Schema :=
  plantDecl fp (opRpc q0 fun m => { m with comment := c })
def setClientStreaming (fp : Str) (q0 : List Nat) : Schema → Schema :=
  plantDecl fp (opRpc q0 fun m => { m with clientStreaming := true })
def setServerStreaming (fp : Str) (q0 : List Nat) : Schema → Schema :=
  plantDecl fp (opRpc q0 fun m => { m with serverStreaming := true })
def setRequestType (fp : Str) (q0 : List Nat) (t : Str) : Schema → Schema :=
  plantDecl fp (opRpc q0 fun m => { m with inType := t })
def setResponseType (fp : Str) (q0 : List Nat) (t : Str) : Schema → Schema :=
  plantDecl fp (opRpc q0 fun m => { m with outType := t })
def setImportPublic (fp : Str) (i0 : Nat) : Schema → Schema :=
  plantFile fp (opImport i0 fun imp => { imp with isPublic := true })
def setImportWeak (fp : Str) (i0 : Nat) : Schema → Schema :=
  plantFile fp (opImport i0 fun imp => { imp with isWeak := true })
/-- nothing of the imported file is used any more -/
def setImportUnused (fp : Str) (i0 : Nat) : Schema → Schema :=
  plantFile fp (opImport i0 fun imp => { imp with isUnused := true })
/-- delete the `syntax = …;` line -/
def unsetSyntax (fp : Str) : Schema → Schema := plantFile fp noSyntax

end BufModel.Lint
