import BufModel.OrderClauses
import BufProofs.Lemmas.FilterRewriteLemmas
import BufProofs.Lemmas.TargetCharLemmas
import BufProofs.Lemmas.PathLemmas
/-
  Lemmas for C02's order clauses on filtered images (remapDeps) and overlapping target paths
  (moduleTargetFiles).  Names are prefixed `oc_`.
-/
namespace BufProofs.OrderClause
open BufModel.Path BufModel.Graph BufModel.Targeting BufModel.Filter BufModel.OrderClauses
open BufProofs.FilterLemmas BufProofs.FilterRewrite

/-! ### insertion sort on Nat -/

theorem oc_insertSorted_perm (x : Nat) : ∀ l : List Nat, (insertSorted x l).Perm (x :: l)
  | [] => List.Perm.refl _
  | y :: ys => by
    unfold insertSorted
    split
    · exact List.Perm.refl _
    · exact ((oc_insertSorted_perm x ys).cons y).trans (List.Perm.swap x y ys)

theorem oc_sortNat_perm : ∀ l : List Nat, (sortNat l).Perm l
  | [] => List.Perm.refl _
  | x :: xs => by
    show (insertSorted x (sortNat xs)).Perm (x :: xs)
    exact (oc_insertSorted_perm x _).trans ((oc_sortNat_perm xs).cons x)

theorem oc_insertSorted_sorted (x : Nat) : ∀ l : List Nat, l.Pairwise (· ≤ ·) → (insertSorted x l).Pairwise (· ≤ ·)
  | [], _ => by simp [insertSorted]
  | y :: ys, h => by
    unfold insertSorted
    split
    · rename_i hxy
      refine List.Pairwise.cons ?_ h
      intro z hz
      rcases List.mem_cons.mp hz with rfl | hz
      · exact hxy
      · exact Nat.le_trans hxy ((List.pairwise_cons.mp h).1 z hz)
    · rename_i hxy
      have hyx : y ≤ x := Nat.le_of_lt (Nat.lt_of_not_le hxy)
      refine List.Pairwise.cons ?_ (oc_insertSorted_sorted x ys (List.pairwise_cons.mp h).2)
      intro z hz
      rcases List.mem_cons.mp ((oc_insertSorted_perm x ys).mem_iff.mp hz) with rfl | hz
      · exact hyx
      · exact (List.pairwise_cons.mp h).1 z hz

theorem oc_sortNat_sorted : ∀ l : List Nat, (sortNat l).Pairwise (· ≤ ·)
  | [] => by simp [sortNat]
  | x :: xs => by
    show (insertSorted x (sortNat xs)).Pairwise (· ≤ ·)
    exact oc_insertSorted_sorted x _ (oc_sortNat_sorted xs)

/-- the sorted list is a function of the multiset. -/
theorem oc_sortNat_eq_of_perm {l₁ l₂ : List Nat} (h : l₁.Perm l₂) : sortNat l₁ = sortNat l₂ := by
  apply List.Perm.eq_of_pairwise (le := fun a b : Nat => a ≤ b)
  · intro a b _ _ hab hba; exact Nat.le_antisymm hab hba
  · exact oc_sortNat_sorted l₁
  · exact oc_sortNat_sorted l₂
  · exact (oc_sortNat_perm l₁).trans (h.trans (oc_sortNat_perm l₂).symm)

theorem oc_sortNat_strict {l : List Nat} (hn : l.Nodup) : (sortNat l).Pairwise (· < ·) := by
  have hs := oc_sortNat_sorted l
  have hnd : (sortNat l).Nodup := (oc_sortNat_perm l).nodup_iff.mpr hn
  rw [List.nodup_iff_pairwise_ne] at hnd
  exact (hs.and hnd).imp (fun ⟨h1, h2⟩ => Nat.lt_of_le_of_ne h1 h2)

/-! ### eraseDups -/

theorem oc_nodup_eraseDups : ∀ (n : Nat) (l : List Nat), l.length ≤ n → l.eraseDups.Nodup
  | 0, l, h => by
    have : l = [] := List.length_eq_zero_iff.mp (Nat.le_zero.mp h)
    subst this; simp
  | n + 1, [], _ => by simp
  | n + 1, a :: as, h => by
    rw [List.eraseDups_cons]
    refine List.nodup_cons.mpr ⟨?_, ?_⟩
    · intro hm
      have := (List.mem_eraseDups.mp hm)
      simp at this
    · apply oc_nodup_eraseDups n
      have h1 : (as.filter (fun b => !b == a)).length ≤ as.length := List.length_filter_le _ _
      simp only [List.length_cons] at h
      omega

theorem oc_eraseDups_perm {l₁ l₂ : List Nat} (h : l₁.Perm l₂) : l₁.eraseDups.Perm l₂.eraseDups := by
  apply (List.perm_ext_iff_of_nodup (oc_nodup_eraseDups _ l₁ (Nat.le_refl _)) (oc_nodup_eraseDups _ l₂ (Nat.le_refl _))).mpr
  intro x
  rw [List.mem_eraseDups, List.mem_eraseDups]
  exact h.mem_iff

/-! ### remapDeps = kept ++ gained -/

theorem oc_keptFrom_deps (req : List Id) : ∀ (ds : List Dep) (fr : Nat),
    (keptFrom [3] (fun _ (d : Dep) => if req.contains d.file then (some (Dep.mk d.file false), ([] : Marks)) else (none, []))
      ds fr).map (·.file) = (ds.map (·.file)).filter (fun d => req.contains d)
  | [], _ => rfl
  | d :: ds, fr => by
    unfold keptFrom
    by_cases h : req.contains d.file = true
    · simp only [h, if_true, List.map_cons, List.filter_cons]
      rw [oc_keptFrom_deps req ds (fr + 1)]
    · have h' : req.contains d.file = false := by simpa using h
      simp only [h', Bool.false_eq_true, if_false, List.map_cons, List.filter_cons]
      exact oc_keptFrom_deps req ds (fr + 1)

/-- `remapDependencies` as coded: the kept imports in their old order, then the gained ones ascending. -/
theorem oc_remapDeps_eq (st : St) (f : File) :
    (remapDeps st f).1.map (·.file) = keptDeps (requiredOf st f) f ++ gainedDeps (requiredOf st f) f := by
  unfold remapDeps keptDeps gainedDeps requiredOf
  simp only [List.map_append, List.map_map]
  rw [remapSlice_items, oc_keptFrom_deps]
  congr 1
  induction (sortNat _) with
  | nil => rfl
  | cons x xs ih => simp [ih]

theorem oc_contains_perm {l₁ l₂ : List Nat} (h : l₁.Perm l₂) (x : Nat) : l₁.contains x = l₂.contains x := by
  apply Bool.eq_iff_iff.mpr
  simp only [List.contains_iff_mem]
  exact h.mem_iff

theorem oc_keptDeps_perm {r₁ r₂ : List Id} (h : r₁.Perm r₂) (f : File) : keptDeps r₁ f = keptDeps r₂ f := by
  unfold keptDeps
  congr 1
  funext d
  exact oc_contains_perm h d

theorem oc_gainedDeps_perm {r₁ r₂ : List Id} (h : r₁.Perm r₂) (f : File) : gainedDeps r₁ f = gainedDeps r₂ f := by
  unfold gainedDeps
  exact oc_sortNat_eq_of_perm (oc_eraseDups_perm (h.filter _))

theorem oc_requiredOf_perm {st₁ st₂ : St} (h : st₁.edges.Perm st₂.edges) (f : File) :
    (requiredOf st₁ f).Perm (requiredOf st₂ f) := by
  unfold requiredOf
  exact (h.filter _).map _

/-! ### containment on keys is transitive -/

/-- a normalised, validated relative path (what `--path` values and bucket paths are): the
    rendering of a list of proper components. -/
def OcKey (p : Str) : Prop := ∃ k : BufModel.Path.Key, BufModel.Path.AllProper k ∧ p = renderKey k

theorem oc_ecp_trans {a b c : Str} (ha : OcKey a) (hb : OcKey b) (hc : OcKey c)
    (h1 : equalsOrContainsPath a b = true) (h2 : equalsOrContainsPath b c = true) :
    equalsOrContainsPath a c = true := by
  obtain ⟨ka, pa, rfl⟩ := ha
  obtain ⟨kb, pb, rfl⟩ := hb
  obtain ⟨kc, pc, rfl⟩ := hc
  rw [BufModel.Path.ecp_keys pa pb] at h1
  rw [BufModel.Path.ecp_keys pb pc] at h2
  rw [BufModel.Path.ecp_keys pa pc]
  exact h1.trans h2

/-! ### small list facts -/

theorem oc_nodup_of_map {α β : Type} (g : α → β) : ∀ {l : List α}, (l.map g).Nodup → l.Nodup
  | [], _ => List.nodup_nil
  | x :: xs, h => by
    rw [List.map_cons, List.nodup_cons] at h
    exact List.nodup_cons.mpr ⟨fun hx => h.1 (List.mem_map_of_mem hx), oc_nodup_of_map g h.2⟩

/-- the files `filterImage` keeps, by id, are a sublist of the candidates. -/
theorem oc_filterMap_ids_sublist (c : RCtx) : ∀ cand : List File,
    ((cand.filterMap (remapFile c)).map (·.id)).Sublist (cand.map (·.id))
  | [] => List.Sublist.slnil
  | x :: xs => by
    rw [List.filterMap_cons]
    split
    · exact (oc_filterMap_ids_sublist c xs).cons _
    · rename_i of hof
      rw [List.map_cons, List.map_cons, (remapFile_deps _ x of hof).1]
      exact (oc_filterMap_ids_sublist c xs).cons_cons _

end BufProofs.OrderClause
