import BufProofs.Lemmas.FilterRewriteLemmas
/-
  C12 — structure of `buildIndex`: the two structural fields of `WFIdx` (`parentNonExt`,
  `descClosed`) hold for EVERY index `buildIndex` produces whose keys are unique; so the only
  genuine input condition is uniqueness of ids (`UniqIdx`, implied by `Nodup` of the key list).
-/
namespace BufProofs.FilterIndex
open BufModel.Filter BufProofs.FilterLemmas BufProofs.FilterClosure BufProofs.FilterRewrite

/-- no two index entries share a key (the harness interns full names: ids are unique) -/
def UniqIdx (idx : Index) : Prop := ∀ j ∈ idx, idx.find j.key = some j

def uniqIdxB (idx : Index) : Bool := idx.all (fun j => decide (idx.find j.key = some j))

theorem uniqIdx_of_B (idx : Index) (h : uniqIdxB idx = true) : UniqIdx idx := by
  unfold uniqIdxB at h
  simp only [List.all_eq_true] at h
  intro j hj
  simpa using h j hj

theorem find_of_nodup (idx : Index) (h : (idx.map (·.key)).Nodup) : UniqIdx idx := by
  induction idx with
  | nil => intro j hj; cases hj
  | cons a as ih =>
    simp only [List.map_cons, List.nodup_cons] at h
    intro j hj
    unfold Index.find
    rw [List.find?_cons]
    cases hj with
    | head => simp
    | tail _ hj =>
      have hne : ¬ a.key = j.key := by
        intro e
        exact h.1 (by rw [e]; exact List.mem_map.mpr ⟨j, hj, rfl⟩)
      simp only [hne, decide_false]
      exact ih h.2 j hj

/-- every parent pointer inside the block `L` resolves, inside `L`, to a non-extension entry that
    lists the child among its descendants — unless it is the external parent `par` -/
def B1 (L : List Info) (par : Key) : Prop :=
  ∀ j ∈ L, ∀ p, j.parent = some p → p = par ∨ ∃ e ∈ L, e.key = p ∧ e.fld = none ∧ e.kind ≠ .method ∧ j.key ∈ e.desc

/-- descendants are entries of the block -/
def B3 (L : List Info) : Prop := ∀ e ∈ L, ∀ k ∈ e.desc, k ∈ L.map (·.key)

/-- descendant lists are transitively closed -/
def B2 (L : List Info) : Prop :=
  ∀ i ∈ L, ∀ k ∈ i.desc, ∃ e ∈ L, e.key = k ∧ ∀ k' ∈ e.desc, k' ∈ i.desc

/-- all keys of the block are element keys -/
def B4 (L : List Info) : Prop := ∀ e ∈ L, ∃ n, e.key = .el n

theorem B1.append {A B : List Info} {par : Key} (ha : B1 A par) (hb : B1 B par) : B1 (A ++ B) par := by
  intro j hj p hp
  rcases List.mem_append.mp hj with h | h
  · rcases ha j h p hp with h1 | ⟨e, he, h2⟩
    · exact Or.inl h1
    · exact Or.inr ⟨e, List.mem_append_left _ he, h2⟩
  · rcases hb j h p hp with h1 | ⟨e, he, h2⟩
    · exact Or.inl h1
    · exact Or.inr ⟨e, List.mem_append_right _ he, h2⟩

theorem B3.append {A B : List Info} (ha : B3 A) (hb : B3 B) : B3 (A ++ B) := by
  intro e he k hk
  rw [List.map_append, List.mem_append]
  rcases List.mem_append.mp he with h | h
  · exact Or.inl (ha e h k hk)
  · exact Or.inr (hb e h k hk)

theorem B2.append {A B : List Info} (ha : B2 A) (hb : B2 B) : B2 (A ++ B) := by
  intro i hi k hk
  rcases List.mem_append.mp hi with h | h
  · obtain ⟨e, he, h2⟩ := ha i h k hk
    exact ⟨e, List.mem_append_left _ he, h2⟩
  · obtain ⟨e, he, h2⟩ := hb i h k hk
    exact ⟨e, List.mem_append_right _ he, h2⟩

theorem B4.append {A B : List Info} (ha : B4 A) (hb : B4 B) : B4 (A ++ B) := by
  intro e he
  rcases List.mem_append.mp he with h | h
  · exact ha e h
  · exact hb e h

/-- a list of leaf entries (no descendants) whose parent is `par` -/
theorem leaves_B (L : List Info) (par : Key) (hp : ∀ j ∈ L, j.parent = some par) (hd : ∀ j ∈ L, j.desc = [])
    (hk : ∀ j ∈ L, ∃ n, j.key = .el n) : B1 L par ∧ B3 L ∧ B2 L ∧ B4 L := by
  refine ⟨?_, ?_, ?_, hk⟩
  · intro j hj p hpp
    rw [hp j hj] at hpp
    cases hpp; exact Or.inl rfl
  · intro e he k hkk; rw [hd e he] at hkk; cases hkk
  · intro e he k hkk; rw [hd e he] at hkk; cases hkk

theorem nil_B (par : Key) : B1 [] par ∧ B3 [] ∧ B2 [] ∧ B4 [] :=
  ⟨fun j hj => (by cases hj), fun j hj => (by cases hj), fun j hj => (by cases hj), fun j hj => (by cases hj)⟩

theorem enums_B (file : Id) (par : Key) (es : List Enum) :
    B1 (es.map (enumInfo file par)) par ∧ B3 (es.map (enumInfo file par)) ∧ B2 (es.map (enumInfo file par)) ∧
      B4 (es.map (enumInfo file par)) := by
  apply leaves_B
  all_goals intro j hj
  all_goals obtain ⟨e, _, rfl⟩ := List.mem_map.mp hj
  · rfl
  · rfl
  · exact ⟨e.id, rfl⟩

theorem exts_B (file : Id) (par : Key) (xs : List Field) :
    B1 (xs.map (extInfo file par)) par ∧ B3 (xs.map (extInfo file par)) ∧ B2 (xs.map (extInfo file par)) ∧
      B4 (xs.map (extInfo file par)) := by
  apply leaves_B
  all_goals intro j hj
  all_goals obtain ⟨e, _, rfl⟩ := List.mem_map.mp hj
  · rfl
  · rfl
  · exact ⟨e.id, rfl⟩

/-- a head entry whose descendants are exactly the keys of the block `sub` below it -/
theorem head_B (hd : Info) (sub : List Info) (par : Key) (hdesc : hd.desc = sub.map (·.key))
    (hfld : hd.fld = none) (hkind : hd.kind ≠ .method) (hpar : hd.parent = some par) (n : Id) (hkey : hd.key = .el n)
    (h1 : B1 sub hd.key) (h3 : B3 sub) (h2 : B2 sub) (h4 : B4 sub) :
    B1 (hd :: sub) par ∧ B3 (hd :: sub) ∧ B2 (hd :: sub) ∧ B4 (hd :: sub) := by
  refine ⟨?_, ?_, ?_, ?_⟩
  · intro j hj p hp
    cases hj with
    | head => rw [hpar] at hp; cases hp; exact Or.inl rfl
    | tail _ hj =>
      rcases h1 j hj p hp with e | ⟨e, he, h⟩
      · refine Or.inr ⟨hd, List.mem_cons_self, e.symm, hfld, hkind, ?_⟩
        rw [hdesc]; exact List.mem_map.mpr ⟨j, hj, rfl⟩
      · exact Or.inr ⟨e, List.mem_cons_of_mem _ he, h⟩
  · intro e he k hk
    rw [List.map_cons]
    cases he with
    | head => rw [hdesc] at hk; exact List.mem_cons_of_mem _ hk
    | tail _ he => exact List.mem_cons_of_mem _ (h3 e he k hk)
  · intro i hi k hk
    cases hi with
    | head =>
      rw [hdesc] at hk
      obtain ⟨e, he, rfl⟩ := List.mem_map.mp hk
      refine ⟨e, List.mem_cons_of_mem _ he, rfl, ?_⟩
      intro k' hk'
      rw [hdesc]; exact h3 e he k' hk'
    | tail _ hi =>
      obtain ⟨e, he, h⟩ := h2 i hi k hk
      exact ⟨e, List.mem_cons_of_mem _ he, h⟩
  · intro e he
    cases he with
    | head => exact ⟨n, hkey⟩
    | tail _ he => exact h4 e he

mutual
theorem msg_B (file : Id) (par : Key) (m : Msg) :
    B1 (msgInfos file par m) par ∧ B3 (msgInfos file par m) ∧ B2 (msgInfos file par m) ∧ B4 (msgInfos file par m) := by
  cases m with
  | mk id fields oneofs exts nested enums rangeOpts reserved mapEntry opts =>
    obtain ⟨n1, n3, n2, n4⟩ := msgs_B file (.el id) nested
    obtain ⟨e1, e3, e2, e4⟩ := enums_B file (.el id) enums
    obtain ⟨x1, x3, x2, x4⟩ := exts_B file (.el id) exts
    simp only [msgInfos]
    exact head_B _ _ par rfl rfl (by simp) rfl id rfl ((n1.append e1).append x1) ((n3.append e3).append x3)
      ((n2.append e2).append x2) ((n4.append e4).append x4)
theorem msgs_B (file : Id) (par : Key) (ms : List Msg) :
    B1 (msgsInfos file par ms) par ∧ B3 (msgsInfos file par ms) ∧ B2 (msgsInfos file par ms) ∧
      B4 (msgsInfos file par ms) := by
  cases ms with
  | nil =>
    simp only [msgsInfos]
    exact nil_B _
  | cons m ms =>
    obtain ⟨a1, a3, a2, a4⟩ := msg_B file par m
    obtain ⟨b1, b3, b2, b4⟩ := msgs_B file par ms
    simp only [msgsInfos]
    exact ⟨a1.append b1, a3.append b3, a2.append b2, a4.append b4⟩
end

theorem svc_B (file : Id) (s : Service) :
    B1 (svcInfos file s) (.file file) ∧ B3 (svcInfos file s) ∧ B2 (svcInfos file s) ∧ B4 (svcInfos file s) := by
  have hl : B1 (s.methods.map (methodInfo file (.el s.id))) (.el s.id) ∧ B3 (s.methods.map (methodInfo file (.el s.id))) ∧
      B2 (s.methods.map (methodInfo file (.el s.id))) ∧ B4 (s.methods.map (methodInfo file (.el s.id))) := by
    apply leaves_B
    all_goals intro j hj
    all_goals obtain ⟨e, _, rfl⟩ := List.mem_map.mp hj
    · rfl
    · rfl
    · exact ⟨e.id, rfl⟩
  obtain ⟨l1, l3, l2, l4⟩ := hl
  unfold svcInfos
  refine head_B _ _ (.file file) ?_ rfl (by simp) rfl s.id rfl l1 l3 l2 l4
  simp [List.map_map, Function.comp_def, methodInfo]

theorem svcs_B (file : Id) (ss : List Service) :
    B1 ((ss.map (svcInfos file)).flatten) (.file file) ∧ B3 ((ss.map (svcInfos file)).flatten) ∧
      B2 ((ss.map (svcInfos file)).flatten) ∧ B4 ((ss.map (svcInfos file)).flatten) := by
  induction ss with
  | nil =>
    simp only [List.map_nil, List.flatten_nil]
    exact nil_B _
  | cons s ss ih =>
    obtain ⟨a1, a3, a2, a4⟩ := svc_B file s
    obtain ⟨b1, b3, b2, b4⟩ := ih
    simp only [List.map_cons, List.flatten_cons]
    exact ⟨a1.append b1, a3.append b3, a2.append b2, a4.append b4⟩

/-- the block below a file head -/
def fileSub (f : File) : List Info :=
  msgsInfos f.id (.file f.id) f.msgs ++ f.enums.map (enumInfo f.id (.file f.id)) ++
    (f.svcs.map (svcInfos f.id)).flatten ++ f.exts.map (extInfo f.id (.file f.id))

def fileHead (f : File) : Info :=
  { key := .file f.id, kind := .file, file := f.id, parent := none, opts := f.opts, types := f.types,
    desc := (fileSub f).map (·.key) }

theorem fileInfos_eq (f : File) : fileInfos f = fileHead f :: fileSub f := rfl

theorem fileSub_B (f : File) : B1 (fileSub f) (.file f.id) ∧ B3 (fileSub f) ∧ B2 (fileSub f) ∧ B4 (fileSub f) := by
  obtain ⟨m1, m3, m2, m4⟩ := msgs_B f.id (.file f.id) f.msgs
  obtain ⟨e1, e3, e2, e4⟩ := enums_B f.id (.file f.id) f.enums
  obtain ⟨s1, s3, s2, s4⟩ := svcs_B f.id f.svcs
  obtain ⟨x1, x3, x2, x4⟩ := exts_B f.id (.file f.id) f.exts
  unfold fileSub
  exact ⟨((m1.append e1).append s1).append x1, ((m3.append e3).append s3).append x3,
    ((m2.append e2).append s2).append x2, ((m4.append e4).append s4).append x4⟩

/-- inside one file block every parent pointer resolves (no external parent is left) -/
theorem file_parent (f : File) : ∀ j ∈ fileInfos f, ∀ p, j.parent = some p →
    ∃ e ∈ fileInfos f, e.key = p ∧ e.fld = none ∧ e.kind ≠ .method ∧ j.key ∈ e.desc := by
  obtain ⟨h1, _, _, _⟩ := fileSub_B f
  intro j hj p hp
  rw [fileInfos_eq] at hj ⊢
  cases hj with
  | head => cases hp
  | tail _ hj =>
    rcases h1 j hj p hp with e | ⟨e, he, h⟩
    · refine ⟨fileHead f, List.mem_cons_self, e.symm, rfl, (by simp [fileHead]), ?_⟩
      exact List.mem_map.mpr ⟨j, hj, rfl⟩
    · exact ⟨e, List.mem_cons_of_mem _ he, h⟩

theorem file_desc (f : File) : ∀ i ∈ fileInfos f, ∀ k ∈ i.desc,
    ∃ e ∈ fileInfos f, e.key = k ∧ ∀ k' ∈ e.desc, k' ∈ i.desc := by
  obtain ⟨_, h3, h2, _⟩ := fileSub_B f
  intro i hi k hk
  rw [fileInfos_eq] at hi ⊢
  cases hi with
  | head =>
    obtain ⟨e, he, rfl⟩ := List.mem_map.mp hk
    exact ⟨e, List.mem_cons_of_mem _ he, rfl, fun k' hk' => h3 e he k' hk'⟩
  | tail _ hi =>
    obtain ⟨e, he, h⟩ := h2 i hi k hk
    exact ⟨e, List.mem_cons_of_mem _ he, h⟩

/-- descendants are element keys; only a file head has a file key -/
theorem file_desc_el (f : File) : ∀ i ∈ fileInfos f, ∀ k ∈ i.desc, ∃ n, k = .el n := by
  obtain ⟨_, h3, _, h4⟩ := fileSub_B f
  intro i hi k hk
  rw [fileInfos_eq] at hi
  have hmem : k ∈ (fileSub f).map (·.key) := by
    cases hi with
    | head => exact hk
    | tail _ hi => exact h3 i hi k hk
  obtain ⟨e, he, rfl⟩ := List.mem_map.mp hmem
  exact h4 e he

theorem not_oneof_parent (f : File) : ∀ j ∈ fileInfos f, ∀ p, j.parent = some p → ∀ m n, p ≠ .oneof m n := by
  intro j hj p hp m n e
  obtain ⟨e', he', hk, _, _, _⟩ := file_parent f j hj p hp
  rw [fileInfos_eq] at he'
  cases he' with
  | head => rw [e] at hk; cases hk
  | tail _ he' =>
    obtain ⟨_, _, _, h4⟩ := fileSub_B f
    obtain ⟨x, hx⟩ := h4 e' he'
    rw [hx, e] at hk; cases hk

/-- **The structural fields of `WFIdx` hold for every `buildIndex` output with unique keys.** -/
theorem wfIdx_of_uniq (img : Image) (hu : UniqIdx (buildIndex img)) : WFIdx (buildIndex img) := by
  refine ⟨hu, ?_, ?_⟩
  · intro j hj p hp
    obtain ⟨f, hf, hjf⟩ := mem_buildIndex img j hj
    refine ⟨not_oneof_parent f j hjf p hp, ?_⟩
    intro ip hip
    obtain ⟨e, he, hk, hfld, _, _⟩ := file_parent f j hjf p hp
    have := hu e (mem_buildIndex_of img f hf e he)
    rw [hk, hip] at this
    cases this; exact hfld
  · intro i hi j hj p hp hmem
    obtain ⟨f, hf, hjf⟩ := mem_buildIndex img j hj
    obtain ⟨e, he, hk, _, _, hje⟩ := file_parent f j hjf p hp
    have hue := hu e (mem_buildIndex_of img f hf e he)
    rw [hk] at hue
    cases hmem with
    | head =>
      have := hu i hi
      rw [hue] at this; cases this
      exact hje
    | tail _ hmem =>
      obtain ⟨g, hg, hig⟩ := mem_buildIndex img i hi
      obtain ⟨e', he', hk', hsub⟩ := file_desc g i hig p hmem
      have hue' := hu e' (mem_buildIndex_of img g hg e' he')
      rw [hk', hue] at hue'
      cases hue'
      exact hsub _ hje

/-- a key that may be marked enclosing-only: it resolves to neither an extension nor a method -/
def PKey (c : Ctx) (k : Key) : Prop := NonExt c k ∧ ∀ i, c.idx.find k = some i → i.kind ≠ .method

/-- parent pointers of a `buildIndex` output with unique keys are `PKey`s -/
theorem parent_pkey (cfg : Cfg) (img : Image) (co : Bool) (hu : UniqIdx (buildIndex img)) :
    ∀ j ∈ buildIndex img, ∀ p, j.parent = some p → PKey ⟨cfg, buildIndex img, co⟩ p := by
  intro j hj p hp
  obtain ⟨f, hf, hjf⟩ := mem_buildIndex img j hj
  obtain ⟨e, he, hk, hfld, hkind, _⟩ := file_parent f j hjf p hp
  have hue := hu e (mem_buildIndex_of img f hf e he)
  rw [hk] at hue
  refine ⟨⟨not_oneof_parent f j hjf p hp, ?_⟩, ?_⟩
  · intro ip hip
    have : (buildIndex img).find p = some ip := hip
    rw [hue] at this; cases this; exact hfld
  · intro ip hip
    have : (buildIndex img).find p = some ip := hip
    rw [hue] at this; cases this; exact hkind

theorem wfIdx_of_nodup (img : Image) (h : ((buildIndex img).map (·.key)).Nodup) : WFIdx (buildIndex img) :=
  wfIdx_of_uniq img (find_of_nodup _ h)

end BufProofs.FilterIndex
