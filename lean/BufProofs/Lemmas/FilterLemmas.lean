import BufModel.Filter
/-
  Helper lemmas for C12 (type filtering): the closure state, the task machine, remapSlice and the
  source-path marks.
-/
namespace BufProofs.FilterLemmas
open BufModel.Filter

/-! ### the closure state -/

theorem get_set (st : St) (k k' : Key) (m : Mode) :
    (st.set k' m).get k = if k = k' then some m else st.get k := by
  unfold St.get St.set
  simp only [List.lookup_cons]
  by_cases h : k = k'
  · simp [h]
  · have : (k == k') = false := by simp [h]
    simp [this, h]

theorem modes_addImport (st : St) (fr : Option Id) (to : Id) :
    (st.addImport fr to).modes = st.modes := by
  unfold St.addImport
  cases fr with
  | none => simp only []; split <;> rfl
  | some f =>
    simp only []
    repeat' split
    all_goals rfl

theorem get_addImport (st : St) (fr : Option Id) (to : Id) (k : Key) :
    (st.addImport fr to).get k = st.get k := by
  unfold St.get; rw [modes_addImport]

/-- "excluded stays excluded" between two states. -/
def ExclLe (a b : St) : Prop := ∀ k, a.get k = some .excluded → b.get k = some .excluded

theorem ExclLe.refl (a : St) : ExclLe a a := fun _ h => h
theorem ExclLe.trans {a b c : St} (h1 : ExclLe a b) (h2 : ExclLe b c) : ExclLe a c := fun k h => h2 k (h1 k h)

theorem exclLe_set_excluded (st : St) (k : Key) : ExclLe st (st.set k .excluded) := by
  intro k' h; rw [get_set]; split <;> simp_all

theorem exclLe_set_of_not_excl (st : St) (k : Key) (m : Mode) (h : st.get k ≠ some .excluded) :
    ExclLe st (st.set k m) := by
  intro k' h'; rw [get_set]
  by_cases e : k' = k
  · subst e; exact absurd h' h
  · simp [e, h']

theorem exclLe_addImport (st : St) (fr : Option Id) (to : Id) : ExclLe st (st.addImport fr to) := by
  intro k h; rw [get_addImport]; exact h

theorem isExcl_false {st : St} {k : Key} (h : st.isExcl k = false) : st.get k ≠ some .excluded := by
  unfold St.isExcl at h; simpa using h

theorem oneofsStep_exclLe (st : St) (i : Info) (os : List Oneof) (n : Nat) :
    ExclLe st (oneofsStep st i os n).1 := by
  induction os generalizing st n with
  | nil => exact ExclLe.refl _
  | cons o os ih =>
    unfold oneofsStep
    split
    · exact ExclLe.trans (exclLe_set_excluded _ _) (ih _ _)
    · exact ih _ _

/-- Split `h : (nested if/match) = .ok _` into its successful leaves. -/
macro "leaves" h:ident : tactic =>
  `(tactic| repeat' (first | (cases $h:ident; done) | split at $h:ident))

theorem expand_exclLe (c : Ctx) (st st' : St) (k : Key) (ref : Option Id) (implied : Bool) (i : Info)
    (ts : List Task) (h : expand c st k ref implied i = .ok (st', ts)) : ExclLe st st' := by
  unfold expand at h
  leaves h
  all_goals (cases h; first | exact ExclLe.refl _ | exact exclLe_set_excluded _ _)

/-- One machine step never turns an excluded key into anything else. -/
theorem step_exclLe (c : Ctx) (st st' : St) (t : Task) (ts : List Task)
    (h : step c st t = .ok (st', ts)) : ExclLe st st' := by
  cases t with
  | add k ref implied =>
    simp only [step] at h
    split at h
    · cases h
    · split at h
      · cases h; exact ExclLe.refl _
      · cases h; exact exclLe_addImport _ _ _
      · rename_i hm
        cases h
        refine ExclLe.trans ?_ (exclLe_addImport _ _ _)
        split
        · exact ExclLe.refl _
        · exact exclLe_set_of_not_excl _ _ _ (by rw [hm]; simp)
      · rename_i hm
        exact ExclLe.trans (exclLe_set_of_not_excl _ _ _ (by rw [hm]; simp)) (expand_exclLe _ _ _ _ _ _ _ _ h)
      · rename_i hm
        exact ExclLe.trans (exclLe_set_of_not_excl _ _ _ (by rw [hm]; simp)) (expand_exclLe _ _ _ _ _ _ _ _ h)
  | field f file =>
    simp only [step] at h
    leaves h
    all_goals (cases h; exact ExclLe.refl _)
  | oneofs k =>
    simp only [step] at h
    split at h
    · cases h
    · rename_i i _
      have e : oneofsStep st i i.oneofs 0 = (st', ts) := by injection h
      have := oneofsStep_exclLe st i i.oneofs 0
      rw [e] at this; exact this
  | svcMethod m =>
    simp only [step] at h
    split at h
    · cases h
      split
      · exact exclLe_set_excluded _ _
      · exact ExclLe.refl _
    · cases h; exact ExclLe.refl _
  | extType k ref =>
    simp only [step] at h
    leaves h
    all_goals (cases h; first | exact ExclLe.refl _ | exact exclLe_set_excluded _ _)
  | imp fr to =>
    simp only [step] at h
    cases h; exact exclLe_addImport _ _ _
  | encl p file =>
    simp only [step] at h
    split at h
    · cases h; exact ExclLe.refl _
    · split at h
      · cases h; exact ExclLe.refl _
      · rename_i hm
        split at h
        · cases h
        · cases h; exact exclLe_set_of_not_excl _ _ _ (by rw [hm]; simp)
  | opts us file =>
    simp only [step] at h
    leaves h
    all_goals (cases h; exact ExclLe.refl _)
  | opt u file =>
    simp only [step] at h
    leaves h
    all_goals (cases h; exact ExclLe.refl _)

theorem run_exclLe (c : Ctx) (n : Nat) (st st' : St) (ts : List Task)
    (h : run c n st ts = .ok st') : ExclLe st st' := by
  induction n generalizing st ts with
  | zero =>
    cases ts with
    | nil => simp [run] at h; subst h; exact ExclLe.refl _
    | cons t ts => simp [run] at h
  | succ n ih =>
    cases ts with
    | nil => simp [run] at h; subst h; exact ExclLe.refl _
    | cons t ts =>
      simp only [run] at h
      split at h
      · cases h
      · rename_i st1 new hs
        exact ExclLe.trans (step_exclLe c st st1 t new hs) (ih _ _ h)

/-- More fuel never changes an answer the machine has already given. -/
theorem run_fuel_mono (c : Ctx) (n k : Nat) (st st' : St) (ts : List Task)
    (h : run c n st ts = .ok st') : run c (n + k) st ts = .ok st' := by
  induction n generalizing st ts with
  | zero =>
    cases ts with
    | nil => cases k <;> simpa [run] using h
    | cons t ts => simp [run] at h
  | succ n ih =>
    cases ts with
    | nil => simpa [run] using h
    | cons t ts =>
      have e : n + 1 + k = (n + k) + 1 := by omega
      rw [e]
      simp only [run] at h ⊢
      split at h
      · cases h
      · exact ih _ _ h

theorem foldlE_inv {α β ε} (P : β → β → Prop) (hrefl : ∀ b, P b b) (htrans : ∀ a b c, P a b → P b c → P a c)
    (f : β → α → Except ε β) (hf : ∀ b a b', f b a = .ok b' → P b b') (b b' : β) (l : List α)
    (h : foldlE f b l = .ok b') : P b b' := by
  induction l generalizing b with
  | nil => simp [foldlE] at h; subst h; exact hrefl _
  | cons a as ih =>
    simp only [foldlE] at h
    split at h
    · cases h
    · rename_i b1 hb
      exact htrans _ _ _ (hf _ _ _ hb) (ih _ h)

theorem exclKeys_exclLe (st : St) (ks : List Key) : ExclLe st (exclKeys st ks) := by
  induction ks generalizing st with
  | nil => exact ExclLe.refl _
  | cons k ks ih =>
    unfold exclKeys
    refine ExclLe.trans ?_ (ih _)
    split
    · exact exclLe_set_excluded _ _
    · exact ExclLe.refl _

theorem exclKeys_head (st : St) (k : Key) (ks : List Key) (h : st.get k = none ∨ st.get k = some .excluded) :
    (exclKeys st (k :: ks)).get k = some .excluded := by
  unfold exclKeys
  apply exclKeys_exclLe
  cases h with
  | inl h => simp [h, get_set]
  | inr h => simp [h]

/-! ### the phases of `closure` -/

def OnlyExcl (st : St) : Prop := ∀ k, st.get k = none ∨ st.get k = some .excluded

theorem onlyExcl_empty : OnlyExcl {} := fun _ => Or.inl rfl

theorem exclKeys_onlyExcl (st : St) (ks : List Key) (h : OnlyExcl st) : OnlyExcl (exclKeys st ks) := by
  induction ks generalizing st with
  | nil => exact h
  | cons k ks ih =>
    unfold exclKeys
    apply ih
    split
    · intro k'; rw [get_set]; split
      · exact Or.inr rfl
      · exact h k'
    · exact h

theorem find_key (idx : Index) (k : Key) (i : Info) (h : idx.find k = some i) : i.key = k := by
  unfold Index.find at h
  have := List.find?_some h
  simpa using this

theorem excludeType_spec (img : Image) (idx : Index) (st st' : St) (n : Id)
    (h : excludeType img idx st n = .ok st') (ho : OnlyExcl st) :
    ExclLe st st' ∧ OnlyExcl st' ∧ (∀ i, idx.find (.el n) = some i → st'.get (.el n) = some .excluded) := by
  unfold excludeType at h
  split at h
  · rename_i i hi
    cases h
    refine ⟨exclKeys_exclLe _ _, exclKeys_onlyExcl _ _ ho, ?_⟩
    intro i' _
    have hk := find_key _ _ _ hi
    rw [hk]
    exact exclKeys_head _ _ _ (ho _)
  · rename_i hnone
    split at h
    · cases h
      refine ⟨?_, ?_, ?_⟩
      · generalize filesOfPkg img n = fs
        induction fs generalizing st with
        | nil => exact ExclLe.refl _
        | cons f fs ih =>
          simp only [List.foldl_cons]
          refine ExclLe.trans ?_ (ih _ ?_)
          · split
            · exact exclKeys_exclLe _ _
            · exact ExclLe.refl _
          · split
            · exact exclKeys_onlyExcl _ _ ho
            · exact ho
      · generalize filesOfPkg img n = fs
        induction fs generalizing st with
        | nil => exact ho
        | cons f fs ih =>
          simp only [List.foldl_cons]
          apply ih
          split
          · exact exclKeys_onlyExcl _ _ ho
          · exact ho
      · intro i hi; rw [hnone] at hi; cases hi
    · cases h

theorem excludePhase_spec (img : Image) (idx : Index) (st st' : St) (ns : List Id)
    (h : foldlE (excludeType img idx) st ns = .ok st') (ho : OnlyExcl st) :
    ExclLe st st' ∧ ∀ n ∈ ns, ∀ i, idx.find (.el n) = some i → st'.get (.el n) = some .excluded := by
  induction ns generalizing st with
  | nil => simp [foldlE] at h; subst h; exact ⟨ExclLe.refl _, by simp⟩
  | cons n ns ih =>
    simp only [foldlE] at h
    split at h
    · cases h
    · rename_i st1 h1
      obtain ⟨l1, o1, e1⟩ := excludeType_spec _ _ _ _ _ h1 ho
      obtain ⟨l2, e2⟩ := ih _ h o1
      refine ⟨ExclLe.trans l1 l2, ?_⟩
      intro m hm i hi
      cases hm with
      | head => exact l2 _ (e1 i hi)
      | tail _ hm => exact e2 m hm i hi

theorem includeFile_exclLe (c : Ctx) (fuel : Nat) (st st' : St) (f : File)
    (h : includeFile c fuel st f = .ok st') : ExclLe st st' := by
  unfold includeFile at h
  split at h
  · cases h
  · exact run_exclLe _ _ _ _ _ h

theorem exclLe_fold {α} (f : St → α → Except Err St) (hf : ∀ b a b', f b a = .ok b' → ExclLe b b')
    (st st' : St) (l : List α) (h : foldlE f st l = .ok st') : ExclLe st st' :=
  foldlE_inv ExclLe ExclLe.refl (fun _ _ _ => ExclLe.trans) f hf st st' l h

theorem includeType_exclLe (c : Ctx) (img : Image) (o : Opts) (fuel : Nat) (st st' : St) (n : Id)
    (h : includeType c img o fuel st n = .ok st') : ExclLe st st' := by
  unfold includeType at h
  split at h
  · leaves h
    exact run_exclLe _ _ _ _ _ h
  · leaves h
    exact exclLe_fold _ (fun b a b' hh => includeFile_exclLe c fuel b b' a hh) _ _ _ h

theorem includeEverything_exclLe (c : Ctx) (img : Image) (fuel : Nat) (st st' : St)
    (h : includeEverything c img fuel st = .ok st') : ExclLe st st' := by
  unfold includeEverything at h
  refine exclLe_fold _ ?_ _ _ _ h
  intro b a b' hb
  leaves hb
  · cases hb; exact ExclLe.refl _
  · cases hb; exact ExclLe.refl _
  · exact run_exclLe _ _ _ _ _ hb

theorem addExtensions_exclLe (c : Ctx) (fuel : Nat) (st st' : St)
    (h : addExtensions c fuel st = .ok st') : ExclLe st st' := by
  unfold addExtensions at h
  refine exclLe_fold _ ?_ _ _ _ h
  intro b a b' hb
  refine exclLe_fold _ ?_ _ _ _ hb
  intro b2 a2 b2' hb2
  split at hb2
  · cases hb2; exact ExclLe.refl _
  · exact run_exclLe _ _ _ _ _ hb2

/-- Every element named by an exclude is excluded in the final closure, whatever the includes,
    the default include-everything pass and addExtensions do afterwards. -/
theorem closure_excluded (cfg : Cfg) (img : Image) (o : Opts) (fuel : Nat) (st : St)
    (h : closure cfg img o fuel = .ok st) (n : Id) (hn : n ∈ o.excludes) (i : Info)
    (hi : (buildIndex img).find (.el n) = some i) : st.get (.el n) = some .excluded := by
  unfold closure at h
  simp only [] at h
  split at h
  · cases h
  · rename_i st0 h0
    obtain ⟨_, e0⟩ := excludePhase_spec _ _ _ _ _ h0 onlyExcl_empty
    have x0 := e0 n hn i hi
    split at h
    · cases h
    · rename_i st1 h1
      have l1 : ExclLe st0 st1 := exclLe_fold _ (fun b a b' hh => includeType_exclLe _ img o fuel b b' a hh) _ _ _ h1
      split at h
      · cases h
      · rename_i st2 h2
        have l2 : ExclLe st1 st2 := by
          split at h2
          · exact includeEverything_exclLe _ _ _ _ _ h2
          · cases h2; exact ExclLe.refl _
        split at h
        · exact addExtensions_exclLe _ _ _ _ h _ (l2 _ (l1 _ x0))
        · cases h; exact l2 _ (l1 _ x0)

/-! ### remapSlice: index arithmetic and the marks it leaves in the source-path trie -/

/-- The items remapSlice keeps, with the index each item had (`fr` = index of the head). -/
def keptFrom {α β} (path : List Nat) (f : List Nat → α → Option β × Marks) : List α → Nat → List β
  | [], _ => []
  | x :: xs, fr => match (f (path ++ [fr]) x).1 with
    | some y => y :: keptFrom path f xs (fr + 1)
    | none => keptFrom path f xs (fr + 1)

theorem remapSlice_items {α β} (path : List Nat) (f : List Nat → α → Option β × Marks) (xs : List α) (fr to : Nat) :
    (remapSlice path f xs fr to).1 = keptFrom path f xs fr := by
  induction xs generalizing fr to with
  | nil => rfl
  | cons x xs ih =>
    unfold remapSlice keptFrom
    cases h : f (path ++ [fr]) x with
    | mk r ms => cases r <;> simp [h, ih]

/-- Items are never rewritten by a keep-or-drop remap function: the result is a sublist. -/
theorem keptFrom_sublist {α} (path : List Nat) (f : List Nat → α → Option α × Marks)
    (hf : ∀ p x y, (f p x).1 = some y → y = x) (xs : List α) (fr : Nat) :
    (keptFrom path f xs fr).Sublist xs := by
  induction xs generalizing fr with
  | nil => exact List.Sublist.slnil
  | cons x xs ih =>
    unfold keptFrom
    split
    · rename_i y hy
      rw [hf _ _ _ hy]
      exact (ih _).cons_cons _
    · exact (ih _).cons _

/-- The marks of a slice whose items leave no marks of their own, from the keep flags alone. -/
def sliceMarks (path : List Nat) : List Bool → Nat → Nat → Marks
  | [], _, to => if to = 0 then [(path, .deleted)] else []
  | true :: bs, fr, to => (if fr ≠ to then [(path ++ [fr], Act.moved to)] else []) ++ sliceMarks path bs (fr + 1) (to + 1)
  | false :: bs, fr, to => (path ++ [fr], Act.deleted) :: sliceMarks path bs (fr + 1) to

def flagsFrom {α β} (path : List Nat) (f : List Nat → α → Option β × Marks) : List α → Nat → List Bool
  | [], _ => []
  | x :: xs, fr => (f (path ++ [fr]) x).1.isSome :: flagsFrom path f xs (fr + 1)

theorem remapSlice_marks {α β} (path : List Nat) (f : List Nat → α → Option β × Marks)
    (hleaf : ∀ p x, (f p x).2 = []) (xs : List α) (fr to : Nat) :
    (remapSlice path f xs fr to).2 = sliceMarks path (flagsFrom path f xs fr) fr to := by
  induction xs generalizing fr to with
  | nil => rfl
  | cons x xs ih =>
    unfold remapSlice flagsFrom
    have hl := hleaf (path ++ [fr]) x
    cases h : f (path ++ [fr]) x with
    | mk r ms =>
      rw [h] at hl; simp only at hl; subst hl
      cases r <;> simp [h, sliceMarks, ih]

/-- New index of the element that had index `fr + i`: `to` plus the number of kept elements before it. -/
def newIdx : List Bool → Nat → Nat → Nat
  | _, 0, to => to
  | [], _, to => to
  | b :: bs, i + 1, to => newIdx bs i (if b then to + 1 else to)

theorem path_snoc_ne (path : List Nat) (a : Nat) : path ++ [a] ≠ path := by
  intro h
  have := congrArg List.length h
  simp at this

theorem path_snoc_inj (path : List Nat) (a b : Nat) : path ++ [a] = path ++ [b] ↔ a = b := by
  constructor
  · intro h; simpa using List.append_cancel_left h
  · intro h; rw [h]

theorem actAt_cons (m : List Nat × Act) (ms : Marks) (p : List Nat) :
    actAt (m :: ms) p = if m.1 = p ∧ m.2 ≠ Act.noComment then some m.2 else actAt ms p := by
  unfold actAt
  simp only [List.find?_cons]
  by_cases h : m.1 = p ∧ m.2 ≠ Act.noComment
  · have : (decide (m.1 = p) && decide (m.2 ≠ Act.noComment)) = true := by
      simp [h.1, h.2]
    rw [this]; simp [h]
  · have : (decide (m.1 = p) && decide (m.2 ≠ Act.noComment)) = false := by
      simp only [Bool.and_eq_false_iff, decide_eq_false_iff_not]
      by_cases h1 : m.1 = p
      · right; intro h2; exact h ⟨h1, h2⟩
      · left; exact h1
    rw [this]; simp [h]

/-- No mark of the slice sits at an index below the one it started from. -/
theorem actAt_sliceMarks_below (path : List Nat) (bs : List Bool) (fr to j : Nat) (hj : j < fr) :
    actAt (sliceMarks path bs fr to) (path ++ [j]) = none := by
  induction bs generalizing fr to with
  | nil =>
    unfold sliceMarks
    split
    · rw [actAt_cons]; simp [Ne.symm (path_snoc_ne path j)]; rfl
    · rfl
  | cons b bs ih =>
    cases b with
    | true =>
      unfold sliceMarks
      split
      · simp only [List.singleton_append]
        rw [actAt_cons]
        have : ¬ (path ++ [fr] = path ++ [j]) := by rw [path_snoc_inj]; omega
        simp [this]; exact ih _ _ (by omega)
      · simp only [List.nil_append]; exact ih _ _ (by omega)
    | false =>
      unfold sliceMarks
      rw [actAt_cons]
      have : ¬ (path ++ [fr] = path ++ [j]) := by rw [path_snoc_inj]; omega
      simp [this]; exact ih _ _ (by omega)

/-- The trie node of element `fr + i` of a slice: deleted iff the element is dropped, moved to
    its new index iff that differs from the old one, untouched otherwise. -/
theorem actAt_sliceMarks (path : List Nat) (bs : List Bool) (fr to i : Nat) (hi : i < bs.length) :
    actAt (sliceMarks path bs fr to) (path ++ [fr + i]) =
      if bs[i] = false then some Act.deleted
      else if fr + i ≠ newIdx bs i to then some (Act.moved (newIdx bs i to)) else none := by
  induction bs generalizing fr to i with
  | nil => simp at hi
  | cons b bs ih =>
    cases i with
    | zero =>
      cases b with
      | true =>
        unfold sliceMarks
        simp only [Nat.add_zero, List.getElem_cons_zero, newIdx]
        split
        · rename_i hne
          simp only [List.singleton_append]; rw [actAt_cons]; simp [hne]
        · rename_i heq
          simp only [List.nil_append]
          have : fr = to := by omega
          simp [this]
          exact actAt_sliceMarks_below _ _ _ _ _ (by omega)
      | false =>
        unfold sliceMarks
        simp only [Nat.add_zero, List.getElem_cons_zero]
        rw [actAt_cons]; simp
    | succ i =>
      have hi' : i < bs.length := by simpa using hi
      have e : fr + (i + 1) = (fr + 1) + i := by omega
      cases b with
      | true =>
        unfold sliceMarks
        simp only [List.getElem_cons_succ, newIdx, if_true]
        split
        · simp only [List.singleton_append]; rw [actAt_cons]
          have : ¬ (path ++ [fr] = path ++ [fr + (i + 1)]) := by rw [path_snoc_inj]; omega
          simp only [this, false_and, if_false]
          rw [e]; exact ih _ _ _ hi'
        · simp only [List.nil_append]; rw [e]; exact ih _ _ _ hi'
      | false =>
        unfold sliceMarks
        simp only [List.getElem_cons_succ, newIdx]
        rw [actAt_cons]
        have : ¬ (path ++ [fr] = path ++ [fr + (i + 1)]) := by rw [path_snoc_inj]; omega
        simp only [this, false_and, if_false]
        rw [e]; exact ih _ _ _ hi'

theorem actAt_of_no_node (ms : Marks) (p : List Nat) (h : hasNode ms p = false) : actAt ms p = none := by
  induction ms with
  | nil => rfl
  | cons m ms ih =>
    unfold hasNode at h
    simp only [List.any_cons, Bool.or_eq_false_iff] at h
    rw [actAt_cons]
    have : ¬ m.1 = p := by
      intro e
      have : p.isPrefixOf m.1 = true := by rw [e]; simp
      rw [this] at h; exact absurd h.1 (by simp)
    simp only [this, false_and, if_false]
    exact ih h.2

theorem noCommentAt_sliceMarks (path : List Nat) (bs : List Bool) (fr to : Nat) (p : List Nat) :
    noCommentAt (sliceMarks path bs fr to) p = false := by
  induction bs generalizing fr to with
  | nil => unfold sliceMarks; split <;> simp [noCommentAt]
  | cons b bs ih =>
    cases b with
    | true =>
      unfold sliceMarks
      have := ih (fr + 1) (to + 1)
      unfold noCommentAt at this ⊢
      split <;> simp [this]
    | false =>
      unfold sliceMarks
      have := ih (fr + 1) to
      unfold noCommentAt at this ⊢
      simp [this]

/-- comments_follow_elements, slice level: the source location of element `i` of a filtered list
    is deleted exactly when the element is dropped, and otherwise moves to the element's new index
    (the number of kept elements before it); comments are kept. -/
theorem fixPath_slice (path : List Nat) (bs : List Bool) (i : Nat) (hi : i < bs.length) :
    fixPath (sliceMarks path bs 0 0) path [i] =
      if bs[i] = false then none else some ([newIdx bs i 0], false) := by
  have hact := actAt_sliceMarks path bs 0 0 i hi
  simp only [Nat.zero_add] at hact
  unfold fixPath
  by_cases hn : hasNode (sliceMarks path bs 0 0) (path ++ [i]) = true
  · simp only [hn, Bool.not_true, Bool.false_eq_true, if_false]
    rw [hact]
    by_cases hb : bs[i] = false
    · simp [hb]
    · simp only [hb, if_false]
      by_cases hm : i ≠ newIdx bs i 0
      · simp [hm, noCommentAt_sliceMarks]
      · have : i = newIdx bs i 0 := by omega
        simp [hm, noCommentAt_sliceMarks, ← this]
  · have hn' : hasNode (sliceMarks path bs 0 0) (path ++ [i]) = false := by simpa using hn
    have hnone := actAt_of_no_node _ _ hn'
    rw [hact] at hnone
    simp only [hn', Bool.not_false, if_true]
    by_cases hb : bs[i] = false
    · simp [hb] at hnone
    · simp only [hb, if_false] at hnone ⊢
      by_cases hm : i ≠ newIdx bs i 0
      · simp [hm] at hnone
      · have : i = newIdx bs i 0 := by omega
        rw [← this]; simp

end BufProofs.FilterLemmas
