import BufProofs.Lemmas.TargetCharLemmas
/-
  Second-pass lemmas for C01 / C10 about `Targeting.buildImage` as a whole:

  * `csucc_mem_allPaths`, `buildImage_ne_fuel`      fuel suffices, unconditionally
  * `buildImage_ok_of_roots`                        success criterion
  * `buildImage_error_of_unopenable`, `buildImage_error_of_cycle`   the failure clauses
  * `owner_dup_of_two`, `nontarget_image_file`      files of non-target modules
  * `lsFiles_eq_buildImage`                         ls-files = build (Graph.lsFiles vs buildImage)
-/
set_option linter.unusedSectionVars false
set_option linter.unusedVariables false
namespace BufModel.Targeting
open BufModel.Path BufModel.Graph

/-! ### owners and openable paths -/

theorem hasPath_iff {ws : WS} {m : Nat} {p : Str} :
    hasPath ws m p = true ↔ ∃ f ∈ modFiles ws m, f.path = p := by
  unfold hasPath
  simp [List.any_eq_true]

theorem mem_providers {ws : WS} {m : Nat} {p : Str} :
    m ∈ providers ws p ↔ ∃ f ∈ modFiles ws m, f.path = p := by
  unfold providers
  rw [List.mem_filter, hasPath_iff, List.mem_range]
  constructor
  · exact fun h => h.2
  · rintro ⟨f, hf, hp⟩
    exact ⟨modFiles_lt hf, f, hf, hp⟩

theorem providers_nodup (ws : WS) (p : Str) : (providers ws p).Nodup := by
  unfold providers
  exact List.Nodup.sublist List.filter_sublist List.nodup_range

theorem owner_one_iff {ws : WS} {p : Str} {m : Nat} : owner ws p = .one m ↔ providers ws p = [m] := by
  unfold owner
  split
  · rename_i h; rw [h]; simp
  · rename_i m' h; rw [h]; simp
  · rename_i h1 h2
    constructor
    · intro h; cases h
    · intro h; exact absurd h (h2 m)

/-- a path two different modules have is owned by nobody: `DuplicateProtoPathError`. -/
theorem owner_dup_of_two {ws : WS} {p : Str} {m m' : Nat} (hne : m ≠ m')
    (h1 : ∃ f ∈ modFiles ws m, f.path = p) (h2 : ∃ f ∈ modFiles ws m', f.path = p) :
    owner ws p = .dup := by
  have a1 := mem_providers.mpr h1
  have a2 := mem_providers.mpr h2
  unfold owner
  split
  · rename_i h; rw [h] at a1; simp at a1
  · rename_i x h
    rw [h] at a1 a2
    simp only [List.mem_singleton] at a1 a2
    exact absurd (a1.trans a2.symm) hne
  · rfl

theorem owner_one_mem {ws : WS} {p : Str} {m : Nat} (h : owner ws p = .one m) :
    ∃ f ∈ modFiles ws m, f.path = p := by
  have := owner_one_iff.mp h
  exact mem_providers.mp (by rw [this]; simp)

/-- the unique provider of a path owns it. -/
theorem owner_one_of_unique {ws : WS} {p : Str} {m : Nat} (h1 : ∃ f ∈ modFiles ws m, f.path = p)
    (h2 : ∀ m', (∃ f ∈ modFiles ws m', f.path = p) → m' = m) : owner ws p = .one m := by
  rw [owner_one_iff]
  have hm := mem_providers.mpr h1
  have hnd := providers_nodup ws p
  cases hp : providers ws p with
  | nil => rw [hp] at hm; simp at hm
  | cons a rest =>
    have ha : a = m := h2 a (mem_providers.mp (by rw [hp]; simp))
    subst ha
    cases rest with
    | nil => rfl
    | cons b rest' =>
      have hb : b = a := h2 b (mem_providers.mp (by rw [hp]; simp))
      subst hb
      rw [hp] at hnd
      simp at hnd

theorem isWkt_iff {ws : WS} {p : Str} : isWkt ws p = true ↔ ∃ f ∈ ws.wkt, f.path = p := by
  unfold isWkt
  simp [List.any_eq_true]

theorem csucc_some {ws : WS} {c : Compiler} {p : Str} {cs : List Str} (h : csucc ws c p = some cs) :
    cs = c.imports p ∧ ∃ s, openFile ws p = .ok s := by
  unfold csucc at h
  split at h
  · rename_i s hs
    injection h with h
    exact ⟨h.symm, s, hs⟩
  · cases h

theorem csucc_of_open {ws : WS} {c : Compiler} {p : Str} {s : Src} (h : openFile ws p = .ok s) :
    csucc ws c p = some (c.imports p) := by
  unfold csucc; rw [h]

theorem csucc_none_iff {ws : WS} {c : Compiler} {p : Str} :
    csucc ws c p = none ↔ ∃ e, openFile ws p = .error e := by
  unfold csucc
  cases h : openFile ws p with
  | ok s => simp
  | error e => simp

/-- `openFile` fails exactly for a path two modules provide, or nobody provides and that is not a
    built-in well-known type. -/
theorem openFile_error_iff {ws : WS} {p : Str} :
    (∃ e, openFile ws p = .error e) ↔ owner ws p = .dup ∨ (owner ws p = .none ∧ isWkt ws p = false) := by
  unfold openFile
  cases ho : owner ws p with
  | one m => simp
  | dup => simp
  | none =>
    cases hw : isWkt ws p <;> simp

theorem mem_allPaths {ws : WS} {p : Str} :
    p ∈ allPaths ws ↔ (∃ m, ∃ f ∈ modFiles ws m, f.path = p) ∨ ∃ f ∈ ws.wkt, f.path = p := by
  unfold allPaths
  rw [mem_dedup, List.mem_append, List.mem_flatMap, List.mem_map]
  constructor
  · rintro (⟨md, hmd, hp⟩ | h)
    · left
      obtain ⟨f, hf, rfl⟩ := List.mem_map.mp hp
      obtain ⟨i, hi, hget⟩ := List.getElem_of_mem hmd
      refine ⟨i, f, ?_, rfl⟩
      unfold modFiles
      rw [List.getElem?_eq_getElem hi, hget]
      exact hf
    · exact Or.inr h
  · rintro (⟨m, f, hf, rfl⟩ | h)
    · left
      have hlt := modFiles_lt hf
      refine ⟨ws.mods[m], List.getElem_mem hlt, List.mem_map.mpr ⟨f, ?_, rfl⟩⟩
      unfold modFiles at hf
      rw [List.getElem?_eq_getElem hlt] at hf
      exact hf
    · exact Or.inr h

/-- every path the compile graph can open is one of `allPaths` (the fuel universe). -/
theorem csucc_mem_allPaths {ws : WS} {c : Compiler} {p : Str} (h : csucc ws c p ≠ none) :
    p ∈ allPaths ws := by
  rw [mem_allPaths]
  cases hc : csucc ws c p with
  | none => exact absurd hc h
  | some cs =>
    obtain ⟨_, s, hs⟩ := csucc_some hc
    unfold openFile at hs
    split at hs
    · rename_i m hm
      exact Or.inl ⟨m, owner_one_mem hm⟩
    · cases hs
    · split at hs
      · rename_i hw; exact Or.inr (isWkt_iff.mp hw)
      · cases hs

/-! ### fuel suffices -/

theorem walkTargets_go_error (m : Nat) : ∀ (fs : List PFile) (acc : List (Nat × PFile)) (e : BErr),
    walkTargets.go m fs acc = .error e → e = .dupPath := by
  intro fs
  induction fs with
  | nil => intro acc e h; simp [walkTargets.go] at h
  | cons f fs ih =>
    intro acc e h
    simp only [walkTargets.go] at h
    split at h
    · injection h with h; exact h.symm
    · exact ih _ _ h

theorem walkTargets_error (t : TWS) : ∀ (ms : List Nat) (acc : List (Nat × PFile)) (e : BErr),
    walkTargets t ms acc = .error e → e = .dupPath ∨ e = .noProtoFiles := by
  intro ms
  induction ms with
  | nil => intro acc e h; simp [walkTargets] at h
  | cons m ms ih =>
    intro acc e h
    rw [walkTargets_cons] at h
    split at h
    · rename_i e' hgo
      injection h with h; subst h
      exact Or.inl (walkTargets_go_error m _ _ _ hgo)
    · split at h
      · injection h with h; exact Or.inr h.symm
      · exact ih _ _ h

theorem targetList_error {t : TWS} {e : BErr} (h : targetList t = .error e) :
    e = .dupPath ∨ e = .noProtoFiles ∨ e = .noTargets := by
  unfold targetList at h
  split at h
  · rename_i e' he
    injection h with h; subst h
    rcases walkTargets_error t _ _ _ he with h | h
    · exact Or.inl h
    · exact Or.inr (Or.inl h)
  · split at h
    · injection h with h; exact Or.inr (Or.inr h.symm)
    · cases h

theorem checkAndSortFiles_error {compiled roots : List Str} {e : BErr}
    (h : checkAndSortFiles compiled roots = .error e) : e = .sortMismatch := by
  unfold checkAndSortFiles at h
  split at h; · injection h with h; exact h.symm
  split at h; · injection h with h; exact h.symm
  split at h; · injection h with h; exact h.symm
  split at h
  · cases h
  · injection h with h; exact h.symm

theorem newImage_go_error : ∀ (files : List ImgFile) (seen : List Str) (commits : List (Nat × Nat)) (e : BErr),
    newImage.go files seen commits = .error e → e = .dupImageFile ∨ e = .twoCommits := by
  intro files
  induction files with
  | nil => intro seen commits e h; simp [newImage.go] at h
  | cons f fs ih =>
    intro seen commits e h
    simp only [newImage.go] at h
    split at h
    · injection h with h; exact Or.inl h.symm
    · split at h
      · exact ih _ _ _ h
      · split at h
        · split at h
          · injection h with h; exact Or.inr h.symm
          · exact ih _ _ _ h
        · exact ih _ _ _ h

theorem newImage_error {files : List ImgFile} {e : BErr} (h : newImage files = .error e) :
    e = .noTargets ∨ e = .dupImageFile ∨ e = .twoCommits := by
  unfold newImage at h
  split at h
  · injection h with h; exact Or.inl h.symm
  · split at h
    · rename_i e' he
      injection h with h; subst h
      exact Or.inr (newImage_go_error _ _ _ _ he)
    · cases h

/-- the fuel `buildImage` gives its two DFS runs exceeds the number of openable paths. -/
theorem buildImage_dfs_ne_fuel (ws : WS) (c : Compiler) (roots : List Str) :
    dfsRoots (csucc ws c) ((allPaths ws).length + roots.length + 1) roots ≠ .error .fuel :=
  dfsRoots_ne_fuel (csucc ws c) (allPaths ws) (fun x hx => csucc_mem_allPaths hx) _ roots (by omega)

/-- Fuel suffices, for every workspace, targeting, compiler and return order: `buildImage` never
    reports `.fuel`. -/
theorem buildImage_ne_fuel (t : TWS) (c : Compiler) (perm : List Str → List Str) :
    buildImage t c perm ≠ .error .fuel := by
  intro h
  unfold buildImage at h
  split at h
  · rename_i e he
    injection h with h; subst h
    rcases targetList_error he with h | h | h <;> cases h
  · rename_i roots hroots
    split at h
    · rename_i hdfs
      exact buildImage_dfs_ne_fuel t.ws c roots hdfs
    · cases h
    · rename_i vis closure hdfs
      split at h
      · cases h
      · split at h
        · rename_i e he
          injection h with h; subst h
          cases checkAndSortFiles_error he
        · rename_i sorted hsort
          have hs := checkAndSortFiles_ok hsort
          subst hs
          rw [hdfs] at h
          dsimp only at h
          rcases newImage_error h with h | h | h <;> cases h

/-! ### success -/

theorem checkAndSortFiles_ok_of {compiled roots : List Str} (hp : compiled.Perm roots)
    (hnd : roots.Nodup) (hne : ∀ r ∈ roots, r ≠ []) : checkAndSortFiles compiled roots = .ok roots := by
  rw [checkAndSortFiles_perm hp]
  unfold checkAndSortFiles
  have h2 : roots.any (· = []) = false := by
    apply Bool.eq_false_iff.mpr
    intro hh
    obtain ⟨x, hx, he⟩ := List.any_eq_true.mp hh
    exact hne x hx (by simpa using he)
  have h3 : (dedup roots).length = roots.length := (dedup_length_eq_iff roots).mpr hnd
  have h4 : roots.all (fun r => decide (r ∈ roots)) = true := by
    apply List.all_eq_true.mpr
    intro r hr; simpa using hr
  simp [h2, h3, h4]

theorem newImage_go_ok_of : ∀ (files : List ImgFile) (seen : List Str) (commits : List (Nat × Nat)),
    (files.map (·.path)).Nodup → (∀ f ∈ files, f.path ∉ seen) →
    (∀ f ∈ files, ∀ g ∈ files, ∀ n, f.modName = some n → g.modName = some n → f.commit = g.commit) →
    (∀ x ∈ commits, ∀ f ∈ files, f.modName = some x.1 → f.commit = x.2) →
      newImage.go files seen commits = .ok () := by
  intro files
  induction files with
  | nil => intros; rfl
  | cons f fs ih =>
    intro seen commits hnd hseen hcons hinv
    simp only [List.map_cons, List.nodup_cons] at hnd
    have hseen' : ∀ g ∈ fs, g.path ∉ f.path :: seen := by
      intro g hg hh
      rcases List.mem_cons.mp hh with h | h
      · exact hnd.1 (List.mem_map.mpr ⟨g, hg, h⟩)
      · exact hseen g (List.mem_cons_of_mem _ hg) h
    have hcons' : ∀ a ∈ fs, ∀ b ∈ fs, ∀ n, a.modName = some n → b.modName = some n → a.commit = b.commit :=
      fun a ha b hb => hcons a (List.mem_cons_of_mem _ ha) b (List.mem_cons_of_mem _ hb)
    have hinv' : ∀ x ∈ commits, ∀ g ∈ fs, g.modName = some x.1 → g.commit = x.2 :=
      fun x hx g hg => hinv x hx g (List.mem_cons_of_mem _ hg)
    simp only [newImage.go]
    rw [if_neg (hseen f List.mem_cons_self)]
    split
    · exact ih _ _ hnd.2 hseen' hcons' hinv'
    · rename_i n hn
      split
      · rename_i x hx
        have hx1 : x.1 = n := by simpa using List.find?_some hx
        have hxm := List.mem_of_find?_eq_some hx
        have : f.commit = x.2 := hinv x hxm f List.mem_cons_self (by rw [hx1]; exact hn)
        rw [if_neg (by simp [this])]
        exact ih _ _ hnd.2 hseen' hcons' hinv'
      · refine ih _ _ hnd.2 hseen' hcons' ?_
        intro x hx g hg hgn
        rcases List.mem_cons.mp hx with rfl | hx'
        · exact hcons g (List.mem_cons_of_mem _ hg) f List.mem_cons_self n hgn hn
        · exact hinv' x hx' g hg hgn

/-- one commit per module name in the module set (true of every real ModuleSet: modules with the
    same FullName have the same OpaqueID and are de-duplicated by `uniqueAdded`). -/
def OneCommitPerName (ws : WS) : Prop :=
  ∀ (m m' : Nat) (a b : Mod), ws.mods[m]? = some a → ws.mods[m']? = some b → a.name = b.name → a.name ≠ none →
    a.commit = b.commit

/-- the module an opened path comes from (none for a built-in WKT or an unopenable path). -/
def srcOf (ws : WS) (p : Str) : Option Mod :=
  match openFile ws p with | .ok (.mod m) => ws.mods[m]? | _ => none

theorem mkImgFile_modName (ws : WS) (c : Compiler) (r : List Str) (p : Str) :
    (mkImgFile ws c r p).modName = (srcOf ws p).bind (·.name) := rfl

theorem mkImgFile_commit (ws : WS) (c : Compiler) (r : List Str) (p : Str) :
    (mkImgFile ws c r p).commit = ((srcOf ws p).map (·.commit)).getD 0 := rfl

theorem srcOf_some {ws : WS} {p : Str} {a : Mod} (h : srcOf ws p = some a) : ∃ m : Nat, ws.mods[m]? = some a := by
  unfold srcOf at h
  split at h
  · exact ⟨_, h⟩
  · cases h

theorem mkImgFile_commits {ws : WS} (hc : OneCommitPerName ws) (c : Compiler) (r : List Str) (p q : Str) (n : Nat)
    (h1 : (mkImgFile ws c r p).modName = some n) (h2 : (mkImgFile ws c r q).modName = some n) :
    (mkImgFile ws c r p).commit = (mkImgFile ws c r q).commit := by
  rw [mkImgFile_modName] at h1 h2
  rw [mkImgFile_commit, mkImgFile_commit]
  cases hp : srcOf ws p with
  | none => rw [hp] at h1; simp at h1
  | some a =>
    cases hq : srcOf ws q with
    | none => rw [hq] at h2; simp at h2
    | some b =>
      rw [hp] at h1; rw [hq] at h2
      simp only [Option.bind_some] at h1 h2
      simp only [Option.map_some, Option.getD_some]
      obtain ⟨m, hm⟩ := srcOf_some hp
      obtain ⟨m', hm'⟩ := srcOf_some hq
      exact hc m m' a b hm hm' (by rw [h1, h2]) (by rw [h1]; simp)

/-- Success criterion given the root list: every path reachable from a root opens, no reachable
    file lies on an import cycle, the compiler hands the roots back in some permutation, one
    commit per module name, and no root path is empty → an image is built. -/
theorem buildImage_ok_of_roots (t : TWS) (c : Compiler) (perm : List Str → List Str) (roots : List Str)
    (hroots : targetList t = .ok roots)
    (hopen : ∀ r ∈ roots, ∀ p, Reach (csucc t.ws c) r p → csucc t.ws c p ≠ none)
    (hac : ∀ r ∈ roots, ∀ x, Reach (csucc t.ws c) r x → ∀ cs d, csucc t.ws c x = some cs → d ∈ cs →
      ¬ Reach (csucc t.ws c) d x)
    (hperm : (perm roots).Perm roots)
    (hcommit : OneCommitPerName t.ws)
    (hpathne : ∀ r ∈ roots, r ≠ []) :
    ∃ img, buildImage t c perm = .ok img := by
  obtain ⟨vis, order, hdfs⟩ := dfsRoots_ok_of (csucc t.ws c) (allPaths t.ws)
    (fun x hx => csucc_mem_allPaths hx) ((allPaths t.ws).length + roots.length + 1) roots (by omega) hopen
  obtain ⟨hvo, hond, hcl, hreach⟩ := dfsRoots_exact hdfs
  -- the DFS order passes the order check
  have htopo : isTopo (csucc t.ws c) [] order = true := by
    obtain ⟨⟨new, e, _, _, _, _, cl, ord⟩, _⟩ := dfsRoots_post _ _ _ _ _ hdfs
    simp only [List.nil_append] at e
    subst e
    have gen : ∀ (l pre : List Str), (∀ x ∈ l, x ∈ vis) → OrdFrom (csucc t.ws c) [] pre l →
        isTopo (csucc t.ws c) pre l = true := by
      intro l
      induction l with
      | nil => intros; rfl
      | cons y ys ih =>
        intro pre hsub h
        obtain ⟨h1, h2⟩ := h
        simp only [isTopo, Bool.and_eq_true]
        refine ⟨?_, ih (pre ++ [y]) (fun x hx => hsub x (List.mem_cons_of_mem _ hx)) h2⟩
        obtain ⟨cs, hs, _⟩ := hcl y (hsub y List.mem_cons_self)
        rw [hs]
        apply List.all_eq_true.mpr
        intro d hd
        rcases h1 cs hs d hd with h | h | h
        · simp at h
        · simpa using h
        · obtain ⟨r, hr, hry⟩ := (hreach y).mp (hsub y List.mem_cons_self)
          exact absurd h (hac r hr y hry cs d hs hd)
    exact gen order [] (fun x hx => (hvo x).mpr hx) ord
  have hsort := checkAndSortFiles_ok_of hperm (targetList_nodup hroots) hpathne
  have hne : order ≠ [] := by
    intro ho
    cases hr : roots with
    | nil => exact targetList_ne_nil hroots hr
    | cons r rs =>
      have : r ∈ order := (hvo r).mp ((hreach r).mpr ⟨r, by rw [hr]; simp, Reach.refl r⟩)
      rw [ho] at this; simp at this
  have hgo : newImage.go (order.map (mkImgFile t.ws c roots)) [] [] = .ok () := by
    apply newImage_go_ok_of
    · rw [map_mk_path]; exact hond
    · simp
    · intro f hf g hg n h1 h2
      obtain ⟨p, _, rfl⟩ := List.mem_map.mp hf
      obtain ⟨q, _, rfl⟩ := List.mem_map.mp hg
      exact mkImgFile_commits hcommit c roots p q n h1 h2
    · simp
  refine ⟨order.map (mkImgFile t.ws c roots), ?_⟩
  unfold buildImage
  rw [hroots]
  dsimp only
  rw [hdfs]
  dsimp only
  rw [htopo, hsort]
  dsimp only
  rw [hdfs]
  dsimp only
  unfold newImage
  have : order.map (mkImgFile t.ws c roots) ≠ [] := by simpa using hne
  simp only [this, ↓reduceIte, hgo]
  simp

/-! ### failure clauses -/

/-- A reachable path that cannot be opened (nobody provides it and it is no built-in WKT, or two
    modules provide it) → no image. -/
theorem buildImage_error_of_unopenable (t : TWS) (c : Compiler) (perm : List Str → List Str)
    (roots : List Str) (hroots : targetList t = .ok roots) (r p : Str) (hr : r ∈ roots)
    (hreach : Reach (csucc t.ws c) r p) (hnone : csucc t.ws c p = none) :
    ∃ e, buildImage t c perm = .error e := by
  cases h : buildImage t c perm with
  | error e => exact ⟨e, rfl⟩
  | ok img =>
    obtain ⟨roots', vis, order, hroots', hdfs, _, _, _⟩ := buildImage_ok h
    rw [hroots] at hroots'; injection hroots' with hroots'; subst hroots'
    obtain ⟨_, _, hcl, hre⟩ := dfsRoots_exact hdfs
    obtain ⟨cs, hs, _⟩ := hcl p ((hre p).mpr ⟨r, hr, hreach⟩)
    rw [hnone] at hs; cases hs

/-- A reachable file on an import cycle → no image. -/
theorem buildImage_error_of_cycle (t : TWS) (c : Compiler) (perm : List Str → List Str)
    (roots : List Str) (hroots : targetList t = .ok roots) (r x d : Str) (cs : List Str) (hr : r ∈ roots)
    (hreach : Reach (csucc t.ws c) r x) (hs : csucc t.ws c x = some cs) (hd : d ∈ cs)
    (hcyc : Reach (csucc t.ws c) d x) :
    ∃ e, buildImage t c perm = .error e := by
  cases h : buildImage t c perm with
  | error e => exact ⟨e, rfl⟩
  | ok img =>
    obtain ⟨roots', vis, order, hroots', hdfs, htopo, _, _⟩ := buildImage_ok h
    rw [hroots] at hroots'; injection hroots' with hroots'; subst hroots'
    obtain ⟨hvo, _, _, hre⟩ := dfsRoots_exact hdfs
    have hx : x ∈ order := (hvo x).mp ((hre x).mpr ⟨r, hr, hreach⟩)
    exact absurd hcyc (isTopo_no_cycle _ order htopo x hx cs d hs hd)

/-! ### files of non-target modules -/

/-- every file of a built image exists in the compile graph. -/
theorem image_file_opens {t : TWS} {c : Compiler} {perm : List Str → List Str} {img : List ImgFile}
    (h : buildImage t c perm = .ok img) {f : ImgFile} (hf : f ∈ img) :
    ∃ s, openFile t.ws f.path = .ok s := by
  obtain ⟨roots, vis, order, _, hdfs, _, _, himg⟩ := buildImage_ok h
  obtain ⟨hvo, _, hcl, _⟩ := dfsRoots_exact hdfs
  subst himg
  obtain ⟨p, hp, rfl⟩ := List.mem_map.mp hf
  obtain ⟨cs, hs, _⟩ := hcl p ((hvo p).mpr hp)
  exact (csucc_some hs).2

/-- A path that a NON-target module provides and that is also a target file (of some other,
    targeted module) cannot be opened: two modules provide it. -/
theorem target_path_of_nontarget_dup {t : TWS} {m m' : Nat} {g g' : PFile}
    (hm : modIsTarget t m = false) (hg : g ∈ modFiles t.ws m)
    (hg' : g' ∈ modFiles t.ws m') (ht : isTargetIn t m' g' = true) (hp : g'.path = g.path) :
    owner t.ws g.path = .dup := by
  have hne : m ≠ m' := by
    intro h; subst h
    rw [modIsTarget_of_isTargetIn ht] at hm; cases hm
  exact owner_dup_of_two hne ⟨g, hg, rfl⟩ ⟨g', hg', hp⟩

/-- Non-target files enter an image only as imports (core statement, see Props/C01, Props/C10). -/
theorem nontarget_files_core (t : TWS) (c : Compiler) (perm : List Str → List Str)
    (img : List ImgFile) (hwf : WfCfgs t) (h : buildImage t c perm = .ok img) :
    ∀ f ∈ img,
      (f.isImport = false ↔ ∃ m g, g ∈ modFiles t.ws m ∧ isTargetIn t m g = true ∧ g.path = f.path) ∧
      (∃ m g, g ∈ modFiles t.ws m ∧ isTargetIn t m g = true ∧ Reach (csucc t.ws c) g.path f.path) ∧
      (∀ m, modIsTarget t m = false → (∃ g ∈ modFiles t.ws m, g.path = f.path) → f.isImport = true) := by
  intro f hf
  obtain ⟨s, hopen⟩ := image_file_opens h hf
  obtain ⟨roots, vis, order, hroots, hdfs, _, _, himg⟩ := buildImage_ok h
  obtain ⟨hvo, _, _, hre⟩ := dfsRoots_exact hdfs
  subst himg
  obtain ⟨p, hp, rfl⟩ := List.mem_map.mp hf
  have hflag : (mkImgFile t.ws c roots p).isImport = false ↔ p ∈ roots := by
    simp [mkImgFile]
  have h1 : (mkImgFile t.ws c roots p).isImport = false ↔
      ∃ m g, g ∈ modFiles t.ws m ∧ isTargetIn t m g = true ∧ g.path = (mkImgFile t.ws c roots p).path := by
    rw [hflag, mkImgFile_path]; exact mem_targetList hwf hroots p
  refine ⟨h1, ?_, ?_⟩
  · obtain ⟨r, hr, hreach⟩ := (hre p).mp ((hvo p).mpr hp)
    obtain ⟨m, g, hg, ht, rfl⟩ := mem_targetList_sound hroots hr
    exact ⟨m, g, hg, ht, hreach⟩
  · intro m hm ⟨g, hg, hgp⟩
    cases hi : (mkImgFile t.ws c roots p).isImport with
    | true => rfl
    | false =>
      exfalso
      obtain ⟨m', g', hg', ht', hp'⟩ := h1.mp hi
      rw [mkImgFile_path] at hp' hgp hopen
      have hdup := target_path_of_nontarget_dup hm hg hg' ht' (hp'.trans hgp.symm)
      rw [hgp] at hdup
      unfold openFile at hopen
      rw [hdup] at hopen
      cases hopen

/-! ### ls-files = build -/

/-- the compiler's dependency lists agree AS SETS with the imports the module layer scanned
    (fastscan) for every workspace file, and with the stored `datawkt` imports for every built-in
    well-known type the workspace does not shadow.  (Order and multiplicity may differ: fastscan
    reports sorted unique imports, the compiler source order.) -/
structure ImportsAgree (ws : WS) (c : Compiler) : Prop where
  files : ∀ m f, f ∈ modFiles ws m → ∀ d, d ∈ c.imports f.path ↔ d ∈ f.imports
  wkt : ∀ f ∈ ws.wkt, (∀ m g, g ∈ modFiles ws m → g.path ≠ f.path) → ∀ d, d ∈ c.imports f.path ↔ d ∈ f.imports

theorem mem_infoImports {f : PFile} {d : Str} : d ∈ infoImports f ↔ d ∈ f.imports := by
  unfold infoImports
  rw [mem_sortPaths, mem_dedup]

theorem lsLookup_agrees {ws : WS} {c : Compiler} (ha : ImportsAgree ws c) {x : Str} {a b : List Str}
    (h1 : lsLookup (allFiles ws) ws.wkt x = some a) (h2 : csucc ws c x = some b) :
    ∀ d, d ∈ a ↔ d ∈ b := by
  obtain ⟨hb, _⟩ := csucc_some h2
  subst hb
  unfold lsLookup at h1
  split at h1
  · rename_i y hy
    injection h1 with h1; subst h1
    have hym := mem_allFiles.mp (List.mem_of_find?_eq_some hy)
    have hyp : y.2.path = x := by simpa using List.find?_some hy
    intro d
    rw [mem_infoImports, ← hyp]
    exact (ha.files y.1 y.2 hym d).symm
  · rename_i hnone
    split at h1
    · rename_i f hf
      injection h1 with h1; subst h1
      have hfm := List.mem_of_find?_eq_some hf
      have hfp : f.path = x := by simpa using List.find?_some hf
      have hno : ∀ m g, g ∈ modFiles ws m → g.path ≠ f.path := by
        intro m g hg hgp
        have := List.find?_eq_none.mp hnone (m, g) (mem_allFiles.mpr hg)
        simp [hgp, hfp] at this
      intro d
      rw [← hfp]
      exact (ha.wkt f hfm hno d).symm
    · cases h1

/-- **ls-files = build.**  `Graph.lsFiles` (what `buf ls-files --include-imports` runs: walk all
    files, filter the targets, close over the scanned imports + WKT table, sort) and
    `Targeting.buildImage` (GetTargetFileInfos → compiler closure → image) with the SAME targeting:
    when both succeed and the compiler's import lists agree as sets with the scanned ones, the
    listed paths are exactly the sorted image paths and the import flags agree file by file. -/
theorem lsFiles_eq_buildImage (t : TWS) (c : Compiler) (perm : List Str → List Str)
    (hwf : WfCfgs t) (ha : ImportsAgree t.ws c)
    (l : List (Str × Bool)) (img : List ImgFile)
    (hl : lsFiles t.ws (isTargetIn t) = .ok l) (hb : buildImage t c perm = .ok img) :
    l.map (·.1) = sortPaths (img.map (·.path)) ∧
    (∀ f ∈ img, (f.path, f.isImport) ∈ l) ∧
    (∀ x ∈ l, ∃ f ∈ img, f.path = x.1 ∧ f.isImport = x.2) := by
  obtain ⟨vis, out, _, _, _, hdfs1, hle⟩ := lsFiles_ok hl
  obtain ⟨roots, vis2, order, hroots, hdfs2, _, _, himg⟩ := buildImage_ok hb
  have hrootsEq : ∀ p, p ∈ lsRoots (allFiles t.ws) (isTargetIn t) ↔ p ∈ roots := by
    intro p
    rw [mem_lsRoots, mem_targetList hwf hroots]
    constructor
    · rintro ⟨x, hx, ht, hp⟩; exact ⟨x.1, x.2, mem_allFiles.mp hx, ht, hp⟩
    · rintro ⟨m, f, hf, ht, hp⟩; exact ⟨(m, f), mem_allFiles.mpr hf, ht, hp⟩
  have hset := dfs_sets_agree _ _ _ _ _ _ _ _ _ _ hrootsEq
    (fun x a b h1 h2 => lsLookup_agrees ha h1 h2) hdfs1 hdfs2
  obtain ⟨hvo, hond, _, _⟩ := dfsRoots_exact hdfs2
  have hvis_nd := dfsRoots_vis_nodup hdfs1
  have hpaths : img.map (·.path) = order := by rw [himg, map_mk_path]
  have hsorted : sortPaths vis = sortPaths order :=
    sortPaths_eq_of_mem_iff hvis_nd hond (fun x => by rw [hset x, hvo x])
  have hflag : ∀ p, (!((allFiles t.ws).any (fun x => x.2.path == p && isTargetIn t x.1 x.2))) =
      (mkImgFile t.ws c roots p).isImport := by
    intro p
    have : (allFiles t.ws).any (fun x => x.2.path == p && isTargetIn t x.1 x.2) = decide (p ∈ roots) := by
      rw [Bool.eq_iff_iff, List.any_eq_true, decide_eq_true_eq, ← hrootsEq p, mem_lsRoots]
      constructor
      · rintro ⟨x, hx, hh⟩
        simp only [Bool.and_eq_true, beq_iff_eq] at hh
        exact ⟨x, hx, hh.2, hh.1⟩
      · rintro ⟨x, hx, ht, hp⟩
        exact ⟨x, hx, by simp [ht, hp]⟩
    rw [this]; rfl
  have hl' : l = (sortPaths order).map (fun p => (p, (mkImgFile t.ws c roots p).isImport)) := by
    rw [hle, hsorted]
    apply List.map_congr_left
    intro p _
    rw [hflag p]
  refine ⟨?_, ?_, ?_⟩
  · rw [hl', hpaths, List.map_map]
    have : ((fun x : Str × Bool => x.1) ∘ fun p => (p, (mkImgFile t.ws c roots p).isImport)) = id := rfl
    rw [this, List.map_id]
  · intro f hf
    rw [himg] at hf
    obtain ⟨p, hp, rfl⟩ := List.mem_map.mp hf
    rw [hl']
    exact List.mem_map.mpr ⟨p, mem_sortPaths.mpr hp, rfl⟩
  · intro x hx
    rw [hl'] at hx
    obtain ⟨p, hp, rfl⟩ := List.mem_map.mp hx
    refine ⟨mkImgFile t.ws c roots p, ?_, rfl, rfl⟩
    rw [himg]
    exact List.mem_map.mpr ⟨p, mem_sortPaths.mp hp, rfl⟩

/-! ### decidable sufficient checks (to instantiate the hypotheses on concrete workspaces) -/

theorem modFiles_forall {ws : WS} {P : List PFile → Prop} (h0 : P [])
    (h : ∀ a ∈ ws.mods, P a.files) : ∀ m, P (modFiles ws m) := by
  intro m
  unfold modFiles
  cases hm : ws.mods[m]? with
  | none => exact h0
  | some a => exact h a (List.mem_of_getElem? hm)

theorem wfCfgs_of_all {t : TWS} (h : ∀ c ∈ t.cfgs, WfCfg c) : WfCfgs t := by
  intro m
  unfold cfgOf
  cases hm : t.cfgs[m]? with
  | none => intro hh; exact absurd rfl hh
  | some c => exact h c (List.mem_of_getElem? hm)

def oneCommitB (ws : WS) : Bool :=
  ws.mods.all (fun a => ws.mods.all (fun b => decide (a.name = b.name → a.name ≠ none → a.commit = b.commit)))

theorem oneCommit_of_check {ws : WS} (h : oneCommitB ws = true) : OneCommitPerName ws := by
  intro m m' a b hm hm' hn hnn
  unfold oneCommitB at h
  have := List.all_eq_true.mp (List.all_eq_true.mp h a (List.mem_of_getElem? hm)) b (List.mem_of_getElem? hm')
  exact (of_decide_eq_true this) hn hnn

def sameSetB (a b : List Str) : Bool := a.all (fun x => decide (x ∈ b)) && b.all (fun x => decide (x ∈ a))

theorem sameSetB_iff {a b : List Str} (h : sameSetB a b = true) : ∀ d, d ∈ a ↔ d ∈ b := by
  unfold sameSetB at h
  simp only [Bool.and_eq_true, List.all_eq_true, decide_eq_true_eq] at h
  exact fun d => ⟨h.1 d, h.2 d⟩

def importsAgreeB (ws : WS) (c : Compiler) : Bool :=
  ws.mods.all (fun a => a.files.all (fun f => sameSetB (c.imports f.path) f.imports)) &&
  ws.wkt.all (fun f => ws.mods.any (fun a => a.files.any (fun g => g.path == f.path)) ||
    sameSetB (c.imports f.path) f.imports)

theorem importsAgree_of_check {ws : WS} {c : Compiler} (h : importsAgreeB ws c = true) : ImportsAgree ws c := by
  unfold importsAgreeB at h
  simp only [Bool.and_eq_true, List.all_eq_true] at h
  refine ⟨?_, ?_⟩
  · intro m f hf
    have hlt := modFiles_lt hf
    unfold modFiles at hf
    rw [List.getElem?_eq_getElem hlt] at hf
    exact sameSetB_iff (h.1 _ (List.getElem_mem hlt) f hf)
  · intro f hf hno
    have := h.2 f hf
    rcases Bool.or_eq_true_iff.mp this with h1 | h1
    · exfalso
      obtain ⟨a, ha, h2⟩ := List.any_eq_true.mp h1
      obtain ⟨g, hg, h3⟩ := List.any_eq_true.mp h2
      obtain ⟨i, hi, hget⟩ := List.getElem_of_mem ha
      refine hno i g ?_ (by simpa using h3)
      unfold modFiles
      rw [List.getElem?_eq_getElem hi, hget]
      exact hg
    · exact sameSetB_iff h1

end BufModel.Targeting
