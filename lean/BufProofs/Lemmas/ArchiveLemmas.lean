import BufModel.Archive
import BufProofs.Lemmas.PathLemmas
import BufProofs.Lemmas.BucketLemmas
/-
  Lemmas about the archive model: Tar lists exactly what the walk lists (the per-object `Get`
  of WalkReadObjects returns the walked content — Walk/Get coherence), extraction of such an
  archive is a `putAll` of the stripped names.
-/
namespace BufModel.Archive
open BufModel.Path BufModel.Bucket

/-- `Get(".")` never succeeds, on any composite. -/
theorem rGet_dot_not_ok (e : BExpr) (bs : Bases) (c : Content) : rGet e bs dot ≠ .ok c := by
  have hnv : normalizeAndValidate dot = .ok dot := by decide
  have hvp : validatePath dot = .error .root := by decide
  induction e generalizing c with
  | base i => simp [rGet, memGet, hvp]
  | pre p b _ => simp [rGet, mapFullPath, hnv]
  | filt f b ih =>
    simp only [rGet, hnv]
    cases f.matches dot with
    | true => simpa using ih c
    | false => simp
  | multi a b iha ihb =>
    intro h
    simp only [rGet] at h
    cases ha : rGet a bs dot with
    | ok ca => exact iha ca ha
    | error ea =>
      rw [ha] at h
      cases hb : rGet b bs dot with
      | ok cb => exact ihb cb hb
      | error eb => rw [hb] at h; cases ea <;> simp at h
  | overlay a b iha ihb =>
    intro h
    simp only [rGet] at h
    cases ha : rGet a bs dot with
    | ok ca => exact iha ca ha
    | error ea =>
      rw [ha] at h
      cases ea <;> simp at h
      exact ihb c h
  | strip b ih => simpa only [rGet] using ih c

/-- Tar/Zip of a composite: the archive has one regular entry per walked object with the walked
    content, whenever the walk succeeds and does not report the view root "." as an object. -/
theorem tarOf_eq_walk (e : BExpr) (he : e.WF) (bs : Bases) (hbs : BasesOK bs)
    (objs : List (Str × Content)) (hw : rWalk e bs [] = .ok objs) (hroot : ∀ c, (dot, c) ∉ objs) :
    tarOf e bs = .ok (entriesOf objs) := by
  obtain ⟨kq, hkq, hnv, hc⟩ := rWalk_coherent e he bs hbs [] objs hw
  have hget : ∀ kv ∈ objs, rGet e bs kv.1 = .ok kv.2 := by
    intro kv hkv
    obtain ⟨kk, hkk, hk⟩ := hc.rendered kv hkv
    have hne : kk ≠ [] := by
      intro e0; subst e0
      apply hroot kv.2
      rw [← renderKey_nil, ← hk]; exact hkv
    have := (hc.sound kk kv.2 hkk (by rw [← hk]; exact hkv)).2 hne
    rw [hk]; exact this
  simp only [tarOf, hw, readObjects_eq e bs objs hget]

/-- Conversely a successful Tar/Zip means the walk succeeded, reported only proper object paths
    (a reported "." makes the per-object `Get` fail), and the entries are the walked objects. -/
theorem tarOf_ok (e : BExpr) (he : e.WF) (bs : Bases) (hbs : BasesOK bs) (a : Archive)
    (h : tarOf e bs = .ok a) :
    ∃ objs, rWalk e bs [] = .ok objs ∧ KeysValid objs ∧ NodupKeys objs ∧ a = entriesOf objs := by
  unfold tarOf at h
  cases hw : rWalk e bs [] with
  | error er => rw [hw] at h; cases h
  | ok objs =>
    rw [hw] at h
    simp only at h
    cases hr : readObjects e bs objs with
    | error er => rw [hr] at h; cases h
    | ok objs' =>
      rw [hr] at h
      injection h with h
      obtain ⟨kq, hkq, hnv, hc⟩ := rWalk_coherent e he bs hbs [] objs hw
      have hroot : ∀ c, (dot, c) ∉ objs := by
        intro c hin
        obtain ⟨c', hg⟩ := readObjects_ok_get e bs objs objs' hr (dot, c) hin
        exact rGet_dot_not_ok e bs c' hg
      have hv : KeysValid objs := by
        intro kv hkv
        obtain ⟨kk, hkk, hk⟩ := hc.rendered kv hkv
        refine ⟨kk, hkk, ?_, hk⟩
        intro e0; subst e0
        apply hroot kv.2
        rw [← renderKey_nil, ← hk]; exact hkv
      have := tarOf_eq_walk e he bs hbs objs hw hroot
      simp only [tarOf, hw, hr] at this
      injection this with this
      exact ⟨objs, rfl, hv, hc.nodup, by rw [← h, this]⟩

theorem tarOfMem_eq (m : Mem) (hv : KeysValid m) (hn : NodupKeys m) : tarOfMem m = .ok (entriesOf m) := by
  have hroot : ∀ c, (dot, c) ∉ m := by
    intro c hin
    obtain ⟨k, hk, hne, hk1⟩ := hv _ hin
    exact renderKey_ne_dot hk hne hk1.symm
  exact tarOf_eq_walk (.base 0) trivial [m] (basesOK_single hv hn) m (walk_all_mem m []) hroot

/-! ### Extraction of well-named regular entries -/

theorem unmapArchivePath_key {kk : Key} (hkk : AllProper kk) (hne : kk ≠ []) (n : Nat) (f : Str → Bool) :
    unmapArchivePath (renderKey kk) n f =
      .ok (match stripComponents (renderKey kk) n with
        | some p => if f p then some p else none
        | none => none) := by
  unfold unmapArchivePath
  rw [if_neg (renderKey_ne_nil hkk), validate_renderKey hkk]
  simp only
  rw [if_neg (renderKey_ne_dot hkk hne)]
  cases stripComponents (renderKey kk) n with
  | none => rfl
  | some p => simp only; cases f p <;> rfl

theorem stripComponents_zero (s : Str) : stripComponents s 0 = some s := by
  simp [stripComponents]

theorem keysValid_stripObjs (n : Nat) (f : Str → Bool) {objs : List (Str × Content)} (hv : KeysValid objs) :
    KeysValid (stripObjs n f objs) := by
  intro kv hkv
  unfold stripObjs at hkv
  obtain ⟨x, hx, hfx⟩ := List.mem_filterMap.mp hkv
  obtain ⟨kk, hkk, hne, hk⟩ := hv x hx
  cases hs : stripComponents x.1 n with
  | none => rw [hs] at hfx; cases hfx
  | some p =>
    rw [hs] at hfx
    simp only at hfx
    split at hfx
    · injection hfx with hfx; subst hfx
      rw [hk] at hs
      obtain ⟨k', h1, h2, h3, _⟩ := stripComponents_renderKey hkk hne n p hs
      exact ⟨k', h1, h2, h3⟩
    · cases hfx

/-- Extracting the archive of a list of well-named objects (no "._" names) never fails and is
    `putAll` of the stripped, matching objects in archive order — for Untar and Unzip alike. -/
theorem extract_entriesOf (fmt : Fmt) (n : Nat) (f : Str → Bool) (objs : List (Str × Content))
    (hv : KeysValid objs) (hna : NoApple objs) (m : Mem) :
    ∃ m', extractInto fmt n f 0 (entriesOf objs) m = (none, m') ∧ putAll m (stripObjs n f objs) = .ok m' := by
  induction objs generalizing m with
  | nil => exact ⟨m, rfl, rfl⟩
  | cons o rest ih =>
    obtain ⟨q, c⟩ := o
    obtain ⟨kk, hkk, hne, hq⟩ := hv (q, c) (by simp)
    simp only at hq
    have hvr : KeysValid rest := fun kv hkv => hv kv (List.mem_cons_of_mem _ hkv)
    have hnar : NoApple rest := fun kv hkv => hna kv (List.mem_cons_of_mem _ hkv)
    have hap : applePrefix.isPrefixOf (base q) = false := hna (q, c) (by simp)
    have hentry : extractEntry fmt n f 0 m { name := q, content := c, kind := .reg } =
        (match stripComponents q n with
          | some p => if f p then memPut m p c else .ok m
          | none => .ok m) := by
      have hu := unmapArchivePath_key hkk hne n f
      rw [← hq] at hu
      cases fmt with
      | tar =>
        simp only [extractEntry, isApple, hap, hu, Entry.isRegular]
        cases stripComponents q n with
        | none => simp
        | some p => by_cases hfp : f p = true <;> simp [hfp]
      | zip =>
        simp only [extractEntry, isApple, hap, hu, Entry.isRegular]
        cases stripComponents q n with
        | none => simp
        | some p => by_cases hfp : f p = true <;> simp [hfp]
    cases hs : stripComponents q n with
    | none =>
      obtain ⟨m', h1, h2⟩ := ih hvr hnar m
      refine ⟨m', ?_, ?_⟩
      · simp only [entriesOf, List.map] at h1 ⊢
        simp only [extractInto, hentry, hs]; exact h1
      · simp only [stripObjs, List.filterMap, hs] at h2 ⊢; exact h2
    | some p =>
      by_cases hf : f p = true
      · obtain ⟨k', hk', hne', hp, _⟩ := stripComponents_renderKey hkk hne n p (by rw [← hq]; exact hs)
        have hput : memPut m p c = .ok ((p, c) :: m.erase p) := by
          unfold memPut; rw [hp, validatePath_renderKey hk' hne']
        obtain ⟨m', h1, h2⟩ := ih hvr hnar ((p, c) :: m.erase p)
        refine ⟨m', ?_, ?_⟩
        · simp only [entriesOf, List.map] at h1 ⊢
          simp only [extractInto, hentry, hs, hf, if_true, hput]; exact h1
        · simp only [stripObjs, List.filterMap, hs, hf, if_true] at h2 ⊢
          simp only [putAll, hput]; exact h2
      · have hf' : f p = false := by simpa using hf
        obtain ⟨m', h1, h2⟩ := ih hvr hnar m
        refine ⟨m', ?_, ?_⟩
        · simp only [entriesOf, List.map] at h1 ⊢
          simp only [extractInto, hentry, hs, hf', Bool.false_eq_true, if_false]; exact h1
        · simp only [stripObjs, List.filterMap, hs, hf', Bool.false_eq_true, if_false] at h2 ⊢; exact h2

theorem stripObjs_zero_all (objs : List (Str × Content)) : stripObjs 0 (fun _ => true) objs = objs := by
  induction objs with
  | nil => rfl
  | cons o rest ih =>
    simp only [stripObjs, List.filterMap, stripComponents_zero, if_true] at ih ⊢
    rw [ih]


theorem stripComponents_key {k : Key} (h : AllProper k) (hne : k ≠ []) (n : Nat) :
    stripComponents (renderKey k) n =
      if n = 0 ∨ n < k.length then some (renderKey (k.drop n)) else none := by
  unfold stripComponents
  by_cases hn : n = 0
  · subst hn; simp
  · rw [if_neg hn, components_renderKey h hne]
    simp only
    by_cases hlen : k.length ≤ n
    · rw [if_pos hlen, if_neg (by omega)]
    · rw [if_neg hlen, if_pos (by omega)]
      have hd : k.drop n ≠ [] := by
        intro e
        have := List.drop_eq_nil_iff.mp e
        omega
      have hdp : AllProper (k.drop n) := fun x hx => h x (List.mem_of_mem_drop hx)
      rw [join_comps hdp hd]

/-- The image of strip-components + matcher on a bucket's objects, key by key. -/
theorem mem_stripObjs (n : Nat) (f : Str → Bool) (m : Mem) (hv : KeysValid m) (p : Str) (c : Content) :
    (p, c) ∈ stripObjs n f m ↔
      ∃ kk : Key, AllProper kk ∧ kk ≠ [] ∧ (renderKey kk, c) ∈ m ∧ (n = 0 ∨ n < kk.length) ∧
        p = renderKey (kk.drop n) ∧ f p = true := by
  unfold stripObjs
  rw [List.mem_filterMap]
  constructor
  · rintro ⟨kv, hkv, hfx⟩
    obtain ⟨kk, hkk, hne, hk⟩ := hv kv hkv
    rw [hk, stripComponents_key hkk hne] at hfx
    by_cases hc : n = 0 ∨ n < kk.length
    · rw [if_pos hc] at hfx
      simp only at hfx
      by_cases hf : f (renderKey (kk.drop n)) = true
      · rw [if_pos hf] at hfx
        injection hfx with hfx; injection hfx with h1 h2
        refine ⟨kk, hkk, hne, ?_, hc, h1.symm, by rw [← h1]; exact hf⟩
        rw [← h2, ← hk]; exact hkv
      · rw [if_neg hf] at hfx; cases hfx
    · rw [if_neg hc] at hfx; cases hfx
  · rintro ⟨kk, hkk, hne, hin, hc, hp, hf⟩
    refine ⟨(renderKey kk, c), hin, ?_⟩
    simp only
    rw [stripComponents_key hkk hne, if_pos hc]
    simp only
    rw [← hp, if_pos hf]

/-- All objects below one directory chain `p`: stripping `p.length` components is injective and
    re-keys the sub-tree relative to `p`. -/
theorem stripObjs_prefix (p : Key) (hp : AllProper p) (m : Mem) (hv : KeysValid m) (hn : NodupKeys m)
    (hall : ∀ kv ∈ m, ∃ kk : Key, AllProper kk ∧ kk ≠ [] ∧ kv.1 = renderKey (p ++ kk)) :
    NodupKeys (stripObjs p.length (fun _ => true) m) ∧
      ∀ kk : Key, AllProper kk → kk ≠ [] →
        Mem.find (stripObjs p.length (fun _ => true) m) (renderKey kk) = Mem.find m (renderKey (p ++ kk)) := by
  induction m with
  | nil => exact ⟨by simp [stripObjs, NodupKeys], fun kk _ _ => by simp [stripObjs, Mem.find]⟩
  | cons o rest ih =>
    obtain ⟨q, c⟩ := o
    obtain ⟨kk0, hkk0, hne0, hq⟩ := hall (q, c) (by simp)
    simp only at hq
    have hvr : KeysValid rest := fun kv hkv => hv kv (List.mem_cons_of_mem _ hkv)
    have hnr : NodupKeys rest := by
      unfold NodupKeys at hn ⊢; simp only [List.map, List.nodup_cons] at hn; exact hn.2
    have hq_notin : q ∉ rest.map (·.1) := by
      unfold NodupKeys at hn; simp only [List.map, List.nodup_cons] at hn; exact hn.1
    have hallr : ∀ kv ∈ rest, ∃ kk : Key, AllProper kk ∧ kk ≠ [] ∧ kv.1 = renderKey (p ++ kk) :=
      fun kv hkv => hall kv (List.mem_cons_of_mem _ hkv)
    obtain ⟨ihn, ihf⟩ := ih hvr hnr hallr
    have hpk0 : AllProper (p ++ kk0) := allProper_append.mpr ⟨hp, hkk0⟩
    have hs : stripComponents q p.length = some (renderKey kk0) := by
      rw [hq, stripComponents_key hpk0 (append_ne_nil_right p hne0)]
      have hlen : kk0.length ≠ 0 := fun e => hne0 (List.length_eq_zero_iff.mp e)
      rw [if_pos (Or.inr (by rw [List.length_append]; omega))]
      simp
    have hcons : stripObjs p.length (fun _ => true) ((q, c) :: rest) =
        (renderKey kk0, c) :: stripObjs p.length (fun _ => true) rest := by
      simp only [stripObjs, List.filterMap, hs, if_true]
    rw [hcons]
    constructor
    · unfold NodupKeys
      simp only [List.map, List.nodup_cons]
      refine ⟨?_, ihn⟩
      intro hmem
      obtain ⟨kv, hkv, he⟩ := List.mem_map.mp hmem
      obtain ⟨kk1, hkk1, hne1, hin1, _, hp1, _⟩ :=
        (mem_stripObjs p.length (fun _ => true) rest hvr kv.1 kv.2).mp hkv
      obtain ⟨kk2, hkk2, hne2, hk2⟩ := hallr _ hin1
      simp only at hk2
      have e12 : kk1 = p ++ kk2 := renderKey_inj hkk1 (allProper_append.mpr ⟨hp, hkk2⟩) hk2
      rw [e12, List.drop_left] at hp1
      have e02 : kk0 = kk2 := renderKey_inj hkk0 hkk2 (by rw [← hp1, he])
      apply hq_notin
      rw [hq, e02, ← hk2]
      exact List.mem_map.mpr ⟨_, hin1, rfl⟩
    · intro kk hkk hne
      by_cases hk : kk0 = kk
      · subst hk; rw [find_cons_eq, hq, find_cons_eq]
      · have h1 : renderKey kk0 ≠ renderKey kk := fun e => hk (renderKey_inj hkk0 hkk e)
        have h2 : q ≠ renderKey (p ++ kk) := by
          intro e; rw [hq] at e
          exact hk (List.append_cancel_left (renderKey_inj hpk0 (allProper_append.mpr ⟨hp, hkk⟩) e))
        rw [find_cons_ne _ _ _ _ h1, find_cons_ne _ _ _ _ h2]
        exact ihf kk hkk hne


/-! ### Sorted walk order changes nothing but the order -/

theorem insertMem_perm (x : Str × Content) (m : Mem) : (insertMem x m).Perm (x :: m) := by
  induction m with
  | nil => exact List.Perm.refl _
  | cons y ys ih =>
    unfold insertMem
    split
    · exact List.Perm.refl _
    · exact (List.Perm.cons y ih).trans (List.Perm.swap x y ys)

theorem sortMem_perm (m : Mem) : (sortMem m).Perm m := by
  induction m with
  | nil => exact List.Perm.refl _
  | cons x xs ih => exact (insertMem_perm x (sortMem xs)).trans (List.Perm.cons x ih)

theorem keysValid_sortMem {m : Mem} (h : KeysValid m) : KeysValid (sortMem m) :=
  fun kv hkv => h kv ((sortMem_perm m).mem_iff.mp hkv)

theorem nodupKeys_sortMem {m : Mem} (h : NodupKeys m) : NodupKeys (sortMem m) := by
  unfold NodupKeys at *
  exact ((sortMem_perm m).map _).nodup_iff.mpr h

/-- Sorting a bucket does not change it as a map. -/
theorem find_sortMem {m : Mem} (h : NodupKeys m) (k : Str) : Mem.find (sortMem m) k = Mem.find m k := by
  cases hf : Mem.find m k with
  | some c =>
    exact (mem_iff_find (nodupKeys_sortMem h) k c).mp ((sortMem_perm m).mem_iff.mpr (find_some_mem hf))
  | none =>
    cases hs : Mem.find (sortMem m) k with
    | none => rfl
    | some c =>
      have := (mem_iff_find h k c).mp ((sortMem_perm m).mem_iff.mp (find_some_mem hs))
      rw [hf] at this; cases this

theorem basesOK_sorted {bs : Bases} (h : BasesOK bs) : BasesOK (bs.map sortMem) := by
  intro i
  have hget : Bases.get (bs.map sortMem) i = sortMem (bs.get i) := by
    unfold Bases.get
    rw [List.getD_eq_getElem?_getD, List.getD_eq_getElem?_getD, List.getElem?_map]
    cases bs[i]? <;> rfl
  rw [hget]
  exact ⟨keysValid_sortMem (h i).1, nodupKeys_sortMem (h i).2⟩

/-- `Get` does not see the order in which a base bucket stores its objects. -/
theorem rGet_sorted (e : BExpr) (bs : Bases) (hbs : BasesOK bs) (s : Str) :
    rGet e (bs.map sortMem) s = rGet e bs s := by
  induction e generalizing s with
  | base i =>
    have hget : Bases.get (bs.map sortMem) i = sortMem (bs.get i) := by
      unfold Bases.get
      rw [List.getD_eq_getElem?_getD, List.getD_eq_getElem?_getD, List.getElem?_map]
      cases bs[i]? <;> rfl
    simp only [rGet, memGet, hget]
    cases validatePath s with
    | error e => rfl
    | ok p => simp only [find_sortMem (hbs i).2]
  | pre p b ih => simp only [rGet, ih]
  | filt f b ih => simp only [rGet, ih]
  | multi a b iha ihb => simp only [rGet, iha, ihb]
  | overlay a b iha ihb => simp only [rGet, iha, ihb]
  | strip b ih => simp only [rGet, ih]

end BufModel.Archive
