import BufProofs.Lemmas.GenerateLemmas
/-
  Lemmas about the response writer with archive outs (`addResponseA`, `runResponsesA`,
  `flushedA` of BufModel/Generate.lean): relation to the directory-only writer, provenance of
  every bucket and of every entry, forward direction, distinct bucket keys.
-/
namespace BufModel.Generate
open BufModel.Path BufModel.Bucket

/-! ### The directory-only writer is the special case -/

theorem liftG_ok {α : Type} {r : Except GErr α} {a : α} (h : liftG r = .ok a) : r = .ok a := by
  cases r with
  | error e => simp [liftG] at h
  | ok b => simp [liftG] at h; rw [h]

theorem newBucket_dir (fs : FS) (o : Str) (h : outKind o = .dir) : newBucket fs o = .ok [] := by
  unfold newBucket; rw [h]

theorem addResponseA_dir (fs : FS) (cwd : Str) (bs : Buckets) (p : PluginResp)
    (h : outKind (absPath cwd p.out) = .dir) :
    addResponseA fs cwd bs p = liftG (addResponse cwd bs p) := by
  unfold addResponseA addResponse
  simp only
  cases hf : bs.find (absPath cwd p.out) with
  | none =>
    simp only [newBucket_dir fs _ h, Option.getD_none]
    cases writeResponse [] p.files <;> rfl
  | some m =>
    simp only [Option.getD_some]
    cases writeResponse m p.files <;> rfl

theorem addResponsesA_dir (fs : FS) (cwd : Str) :
    ∀ (ps : List PluginResp) (bs : Buckets), (∀ p ∈ ps, outKind (absPath cwd p.out) = .dir) →
      addResponsesA fs cwd bs ps = liftG (addResponses cwd bs ps)
  | [], bs, _ => rfl
  | p :: ps, bs, h => by
    unfold addResponsesA addResponses
    rw [addResponseA_dir fs cwd bs p (h p (by simp))]
    cases addResponse cwd bs p with
    | error e => rfl
    | ok bs1 =>
      simp only [liftG]
      exact addResponsesA_dir fs cwd ps bs1 (fun q hq => h q (List.mem_cons_of_mem _ hq))

theorem flushedA_dir :
    ∀ (bs : Buckets), (∀ o m, (o, m) ∈ bs → outKind o = .dir) →
      flushedA bs = (flushed bs).map fun x => Obj.file (diskPath x.1 x.2.1) x.2.2
  | [], _ => rfl
  | (o, m) :: rest, h => by
    have ih := flushedA_dir rest (fun o' m' hm => h o' m' (List.mem_cons_of_mem _ hm))
    have ho : outKind o = .dir := h o m (by simp)
    unfold flushedA flushed at *
    simp only [List.flatMap_cons, List.map_append, ih, ho, List.map_map]
    congr 1

/-! ### Provenance -/

/-- Keys carried through `writeResponse`: every key of the result was in the start bucket or is
    the validated name of a plain file of the response. -/
theorem writeResponse_keysP (P : Str → Prop) :
    ∀ (fs : List RFile) (m m' : Mem),
      (∀ k ∈ m.keys, P k) →
      (∀ f ∈ fs, f.getIP = [] → ∀ k, validatePath f.getName = .ok k → P k) →
      writeResponse m fs = .ok m' → ∀ k ∈ m'.keys, P k := by
  intro fs
  induction fs with
  | nil =>
    intro m m' hm _ h
    simp [writeResponse] at h; subst h; exact hm
  | cons f fs ih =>
    intro m m' hm hf h
    unfold writeResponse at h
    split at h
    · cases h
    · rename_i m1 hw
      obtain ⟨k, hk, hkeys, hins⟩ := writeFile_keys hw
      have hm1 : ∀ k' ∈ m1.keys, P k' := by
        intro k' hk'
        rcases hkeys k' hk' with rfl | hold
        · by_cases hip : f.getIP = []
          · exact hf f (by simp) hip _ hk
          · exact hm _ (hins hip)
        · exact hm k' hold
      exact ih m1 m' hm1 (fun g hg => hf g (List.mem_cons_of_mem _ hg)) h

/-- Where an entry of the output location `o` comes from: a plain file returned by a plugin
    configured with exactly this location - or it is the manifest of a jar. -/
def SourceA (cwd : Str) (D : List PluginResp) (o k : Str) : Prop :=
  Source cwd D o k ∨ (outKind o = .jar ∧ k = manifestKey)

theorem newBucket_keys {fs : FS} {o : Str} {m : Mem} (h : newBucket fs o = .ok m) :
    ∀ k ∈ m.keys, outKind o = .jar ∧ k = manifestKey := by
  unfold newBucket at h
  split at h
  · injection h with h; subst h; intro k hk; simp [Mem.keys] at hk
  · rename_i k0 hk0
    split at h
    · cases h
    · cases h
    · split at h
      · rename_i hj
        have hm := liftP_ok (liftG_ok h)
        unfold memPut at hm
        split at hm
        · cases hm
        · rename_i p hp
          injection hm with hm; subst hm
          intro k hk
          have hpk : p = manifestKey := by
            have : validatePath manifestKey = .ok manifestKey := by decide
            rw [this] at hp; injection hp with hp; exact hp.symm
          simp [Mem.keys, Mem.erase] at hk
          refine ⟨?_, by rw [hk, hpk]⟩
          cases hkind : outKind o <;> simp_all
      · injection h with h; subst h; intro k hk; simp [Mem.keys] at hk

/-- Invariant of the writer with archives: every bucket belongs to a plugin's out and every
    entry has a source (or is a jar's manifest). -/
def ProvA (cwd : Str) (D : List PluginResp) (bs : Buckets) : Prop :=
  ∀ o m, (o, m) ∈ bs → (∃ p ∈ D, o = absPath cwd p.out) ∧ ∀ k ∈ m.keys, SourceA cwd D o k

theorem addResponsesA_inv (fs : FS) (cwd : Str) (all : List PluginResp) :
    ∀ (ps : List PluginResp) (bs bs' : Buckets), (∀ p ∈ ps, p ∈ all) → ProvA cwd all bs →
      addResponsesA fs cwd bs ps = .ok bs' → ProvA cwd all bs' := by
  intro ps
  induction ps with
  | nil =>
    intro bs bs' _ hprov h
    simp [addResponsesA] at h; subst h; exact hprov
  | cons p ps ih =>
    intro bs bs' hsub hprov h
    unfold addResponsesA at h
    split at h
    · cases h
    · rename_i bs1 hadd
      have hpa : p ∈ all := hsub p (by simp)
      have hprov1 : ProvA cwd all bs1 := by
        unfold addResponseA at hadd
        simp only at hadd
        split at hadd
        · cases hadd
        · rename_i m0 hstart
          split at hadd
          · cases hadd
          · rename_i m hw
            injection hadd with hadd
            have hm0 : ∀ k ∈ m0.keys, SourceA cwd all (absPath cwd p.out) k := by
              intro k hk
              cases hf : bs.find (absPath cwd p.out) with
              | none =>
                rw [hf] at hstart
                exact Or.inr (newBucket_keys hstart k hk)
              | some mm =>
                rw [hf] at hstart
                injection hstart with hstart; subst hstart
                exact (hprov _ mm (find_mem hf)).2 k hk
            have hkeys := writeResponse_keysP (SourceA cwd all (absPath cwd p.out)) p.files m0 m hm0
              (fun f hf hip k hk => Or.inl ⟨p, hpa, rfl, f, hf, hip, hk⟩) hw
            intro o m' hmem
            rw [← hadd] at hmem
            rcases mem_set hmem with e | hold
            · injection e with e1 e2; subst e1; subst e2
              exact ⟨⟨p, hpa, rfl⟩, hkeys⟩
            · exact hprov o m' hold
      exact ih bs1 bs' (fun q hq => hsub q (List.mem_cons_of_mem _ hq)) hprov1 h

/-! ### Forward direction -/

/-- bucket `o` exists. -/
def HasBucket (bs : Buckets) (o : Str) : Prop := ∃ m, bs.find o = some m

theorem addResponseA_fwd {fs : FS} {cwd : Str} {bs bs' : Buckets} {p : PluginResp}
    (h : addResponseA fs cwd bs p = .ok bs') :
    (∀ o k, HasKey bs o k → HasKey bs' o k) ∧ (∀ o, HasBucket bs o → HasBucket bs' o) ∧
    HasBucket bs' (absPath cwd p.out) ∧
    ∀ f ∈ p.files, ∃ k, validatePath f.getName = .ok k ∧ HasKey bs' (absPath cwd p.out) k := by
  unfold addResponseA at h
  simp only at h
  split at h
  · cases h
  · rename_i m0 hstart
    split at h
    · cases h
    · rename_i m hw
      injection h with h; subst h
      obtain ⟨r1, r2⟩ := writeResponse_fwd _ _ _ hw
      refine ⟨?_, ?_, ⟨m, find_set_same _ _ _⟩, ?_⟩
      · intro o k ⟨mm, hf, hk⟩
        by_cases ho : o = absPath cwd p.out
        · subst ho
          rw [hf] at hstart
          injection hstart with hstart; subst hstart
          exact ⟨m, find_set_same _ _ _, r1 k hk⟩
        · exact ⟨mm, by rw [find_set_ne _ _ ho]; exact hf, hk⟩
      · intro o ⟨mm, hf⟩
        by_cases ho : o = absPath cwd p.out
        · subst ho; exact ⟨m, find_set_same _ _ _⟩
        · exact ⟨mm, by rw [find_set_ne _ _ ho]; exact hf⟩
      · intro f hf
        obtain ⟨k, hk, hkm⟩ := r2 f hf
        exact ⟨k, hk, m, find_set_same _ _ _, hkm⟩

theorem addResponsesA_fwd (fs : FS) (cwd : Str) :
    ∀ (ps : List PluginResp) (bs bs' : Buckets), addResponsesA fs cwd bs ps = .ok bs' →
      (∀ o k, HasKey bs o k → HasKey bs' o k) ∧ (∀ o, HasBucket bs o → HasBucket bs' o) ∧
      ∀ p ∈ ps, HasBucket bs' (absPath cwd p.out) ∧
        ∀ f ∈ p.files, ∃ k, validatePath f.getName = .ok k ∧ HasKey bs' (absPath cwd p.out) k
  | [], bs, bs', h => by
    simp [addResponsesA] at h; subst h
    exact ⟨fun _ _ hk => hk, fun _ hb => hb, by simp⟩
  | p :: ps, bs, bs', h => by
    unfold addResponsesA at h
    split at h
    · cases h
    · rename_i bs1 hadd
      obtain ⟨a1, a2, a3, a4⟩ := addResponseA_fwd hadd
      obtain ⟨r1, r2, r3⟩ := addResponsesA_fwd fs cwd ps bs1 bs' h
      refine ⟨fun o k hk => r1 o k (a1 o k hk), fun o hb => r2 o (a2 o hb), ?_⟩
      intro q hq
      rcases List.mem_cons.mp hq with rfl | hq
      · refine ⟨r2 _ a3, ?_⟩
        intro f hf
        obtain ⟨k, hk, hh⟩ := a4 f hf
        exact ⟨k, hk, r1 _ _ hh⟩
      · exact r3 q hq

/-! ### One bucket per output location -/

def bkeys (bs : Buckets) : List Str := bs.map (·.1)

theorem find_none_not_mem {bs : Buckets} {o : Str} (h : bs.find o = none) : o ∉ bkeys bs := by
  induction bs with
  | nil => simp [bkeys]
  | cons kv rest ih =>
    obtain ⟨k, v⟩ := kv
    unfold Buckets.find at h
    split at h
    · cases h
    · rename_i hk
      simp only [bkeys, List.map_cons, List.mem_cons, not_or]
      exact ⟨fun e => hk e.symm, ih h⟩

theorem bkeys_set (bs : Buckets) (o : Str) (m : Mem) :
    bkeys (bs.set o m) = if o ∈ bkeys bs then bkeys bs else bkeys bs ++ [o] := by
  induction bs with
  | nil => simp [Buckets.set, bkeys]
  | cons kv rest ih =>
    obtain ⟨k, v⟩ := kv
    unfold Buckets.set
    by_cases hk : k = o
    · subst hk; simp [bkeys]
    · have hne : ¬ o = k := fun e => hk e.symm
      have hs : bkeys ((k, v) :: Buckets.set rest o m) = k :: bkeys (Buckets.set rest o m) := rfl
      have hb : bkeys ((k, v) :: rest) = k :: bkeys rest := rfl
      simp only [hk, if_false]
      rw [hs, ih, hb]
      by_cases hmem : o ∈ bkeys rest
      · simp [hmem]
      · simp [hmem, hne]

theorem nodup_bkeys_set {bs : Buckets} (o : Str) (m : Mem) (h : (bkeys bs).Nodup) :
    (bkeys (bs.set o m)).Nodup := by
  rw [bkeys_set]
  split
  · exact h
  · rename_i hno
    exact List.nodup_append.mpr ⟨h, by simp, by
      intro a ha b hb
      simp at hb; subst hb
      exact fun e => hno (e ▸ ha)⟩

theorem addResponsesA_nodup (fs : FS) (cwd : Str) :
    ∀ (ps : List PluginResp) (bs bs' : Buckets), (bkeys bs).Nodup →
      addResponsesA fs cwd bs ps = .ok bs' → (bkeys bs').Nodup
  | [], bs, bs', hn, h => by simp [addResponsesA] at h; subst h; exact hn
  | p :: ps, bs, bs', hn, h => by
    unfold addResponsesA at h
    split at h
    · cases h
    · rename_i bs1 hadd
      refine addResponsesA_nodup fs cwd ps bs1 bs' ?_ h
      unfold addResponseA at hadd
      simp only at hadd
      split at hadd
      · cases hadd
      · split at hadd
        · cases hadd
        · injection hadd with hadd; subst hadd
          exact nodup_bkeys_set _ _ hn

theorem archive_mem_flushedA {bs : Buckets} {o : Str} {m : Mem} (hm : (o, m) ∈ bs)
    (hk : outKind o ≠ .dir) : Obj.archive o m ∈ flushedA bs := by
  unfold flushedA
  refine List.mem_flatMap.mpr ⟨(o, m), hm, ?_⟩
  cases h : outKind o with
  | dir => exact absurd h hk
  | zip => simp
  | jar => simp

end BufModel.Generate
