import BufModel.Lint
/-
  RPC_REQUEST_RESPONSE_UNIQUE: the handler as coded works on Go MAPS keyed by method names
  (`rpcUniqueBy`), the documentation counts RPCs (`rpcUniqueT` on the method table).  This file
  ties the two: with a key that is distinct on the methods at hand the maps never merge two
  methods and the coded rule IS the documented one (`rpcUniqueBy_eq`, `rpcUniqueCoded_eq`);
  in general the coded rule with the full name as key is the documented one or — duplicate full
  names, impossible in a linked image — nothing at all (`rpcUniqueCoded_eq_ite`).
-/
namespace BufModel.Lint
open BufModel.Case

/-! ### distinct strings -/

theorem strsDistinct_cons (x : Str) (xs : List Str) :
    strsDistinct (x :: xs) = (!xs.contains x && strsDistinct xs) := rfl

theorem strsDistinct_iff_nodup (l : List Str) : strsDistinct l = true ↔ l.Nodup := by
  induction l with
  | nil => simp [strsDistinct]
  | cons x xs ih =>
    rw [strsDistinct_cons, List.nodup_cons, ← ih]
    simp

theorem strsDistinct_tail {x : Str} {xs : List Str} (h : strsDistinct (x :: xs) = true) :
    strsDistinct xs = true := by
  rw [strsDistinct_cons] at h
  simp only [Bool.and_eq_true] at h
  exact h.2

theorem strsDistinct_head {x : Str} {xs : List Str} (h : strsDistinct (x :: xs) = true) : x ∉ xs := by
  rw [strsDistinct_cons] at h
  simp only [Bool.and_eq_true, Bool.not_eq_true', List.contains_eq_mem, decide_eq_false_iff_not] at h
  exact h.1

/-- a filtered list of keyed things keeps its keys distinct -/
theorem strsDistinct_map_filter {α} (key : α → Str) (p : α → Bool) (l : List α)
    (h : strsDistinct (l.map key) = true) : strsDistinct ((l.filter p).map key) = true := by
  rw [strsDistinct_iff_nodup] at h ⊢
  exact (List.filter_sublist.map key).nodup h

/-! ### the Go map of pairwise distinct keys is the list itself -/

theorem goPut_fresh {α} (k : Str) (v : α) (m : List (Str × α)) (h : k ∉ m.map (·.1)) :
    goPut k v m = m ++ [(k, v)] := by
  induction m with
  | nil => rfl
  | cons kv rest ih =>
    obtain ⟨k', v'⟩ := kv
    simp only [List.map_cons, List.mem_cons, not_or] at h
    have hne : (k' == k) = false := by
      apply Bool.eq_false_iff.mpr
      intro he
      have hkk : k' = k := by simpa using he
      exact h.1 hkk.symm
    simp only [goPut, hne, Bool.false_eq_true, if_false, List.cons_append, ih h.2]

theorem foldl_goPut_distinct {α} (kvs acc : List (Str × α))
    (h : strsDistinct ((acc ++ kvs).map (·.1)) = true) :
    kvs.foldl (fun m kv => goPut kv.1 kv.2 m) acc = acc ++ kvs := by
  induction kvs generalizing acc with
  | nil => simp
  | cons kv rest ih =>
    have hnd : ((acc ++ kv :: rest).map (·.1)).Nodup := (strsDistinct_iff_nodup _).mp h
    have hfresh : kv.1 ∉ acc.map (·.1) := by
      intro hm
      rw [List.map_append, List.map_cons] at hnd
      have := (List.nodup_append.mp hnd).2.2 kv.1 hm kv.1 (by simp)
      exact this rfl
    rw [List.foldl_cons, goPut_fresh kv.1 kv.2 acc hfresh]
    have h' : strsDistinct (((acc ++ [(kv.1, kv.2)]) ++ rest).map (·.1)) = true := by
      rw [List.append_assoc]; exact h
    rw [ih _ h', List.append_assoc]
    rfl

theorem goMap_of_distinct {α} (kvs : List (Str × α)) (h : strsDistinct (kvs.map (·.1)) = true) :
    goMap kvs = kvs := by
  unfold goMap
  rw [foldl_goPut_distinct kvs [] (by simpa using h)]
  rfl

/-! ### coded = documented when the key tells the methods apart -/

theorem rpcEntries_rows (w : Schema) : (rpcEntries w).map (·.row) = rpcTable w := by
  unfold rpcEntries rpcTable fileRpcEntries
  rw [List.map_flatMap]
  congr 1
  funext f
  rw [List.map_map]
  rfl

theorem flatMap_congr_mem' {α β} (l : List α) (k k' : α → List β) (h : ∀ x ∈ l, k x = k' x) :
    l.flatMap k = l.flatMap k' := by
  induction l with
  | nil => rfl
  | cons a t ih =>
    rw [List.flatMap_cons, List.flatMap_cons, h a (by simp), ih (fun x hx => h x (by simp [hx]))]

/-- the users of a type, as values of the per-type map, are the users in the method table -/
theorem users_eq (key : RpcEntry → Str) (es : List RpcEntry) (p : RpcRow → Bool)
    (hk : strsDistinct (es.map key) = true) :
    (goMap ((es.filter fun e => p e.row).map fun e => (key e, e.row))).map (·.2) = (es.map (·.row)).filter p := by
  have hd : strsDistinct (((es.filter fun e => p e.row).map fun e => (key e, e.row)).map (·.1)) = true := by
    rw [List.map_map]
    exact strsDistinct_map_filter key _ es hk
  rw [goMap_of_distinct _ hd, List.map_map, List.filter_map]
  rfl

/-- **Coded = documented.**  When the `key` of the per-type maps is pairwise distinct on the
    methods (and so are the full names, or `FullNameToMethod` fails), the handler computes exactly
    the documented rule on the method table. -/
theorem rpcUniqueBy_eq (key : RpcEntry → Str) (o : Options) (es : List RpcEntry)
    (hfull : strsDistinct (es.map (·.full)) = true) (hk : strsDistinct (es.map key) = true) :
    rpcUniqueBy key o es = rpcUniqueT o (es.map (·.row)) := by
  unfold rpcUniqueBy rpcUniqueT
  simp only [hfull, Bool.not_true, Bool.false_eq_true, if_false]
  rw [List.flatMap_map, List.flatMap_map]
  congr 1
  apply flatMap_congr_mem'
  intro t _
  have hu := users_eq key es (fun x => x.inType == t || x.outType == t) hk
  simp only [hu]

/-- the full names of the methods are pairwise distinct — what the linker guarantees for every
    image (a fully-qualified name is declared once) -/
def FullNamesDistinct (w : Schema) : Prop := strsDistinct ((rpcEntries w).map (·.full)) = true

instance (w : Schema) : Decidable (FullNamesDistinct w) := by unfold FullNamesDistinct; infer_instance

theorem rpcUniqueCoded_eq (o : Options) (w : Schema) (h : FullNamesDistinct w) :
    rpcUniqueCoded o w = rpcUnique o w := by
  unfold rpcUniqueCoded rpcUnique
  rw [rpcUniqueBy_eq _ o _ h h, rpcEntries_rows]

/-- In general: the documented rule, or nothing when two methods have one full name. -/
theorem rpcUniqueCoded_eq_ite (o : Options) (w : Schema) :
    rpcUniqueCoded o w = if strsDistinct ((rpcEntries w).map (·.full)) then rpcUnique o w else [] := by
  by_cases h : strsDistinct ((rpcEntries w).map (·.full)) = true
  · rw [if_pos h]; exact rpcUniqueCoded_eq o w h
  · rw [if_neg h]
    unfold rpcUniqueCoded rpcUniqueBy
    simp only [Bool.not_eq_true] at h
    simp [h]

theorem rpcUniqueCoded_sub (o : Options) (w : Schema) (a : Annotation) (h : a ∈ rpcUniqueCoded o w) :
    a ∈ rpcUnique o w := by
  rw [rpcUniqueCoded_eq_ite] at h
  split at h
  · exact h
  · simp at h

theorem rpcUniqueCoded_nil (o : Options) (w : Schema) (h : rpcUnique o w = []) : rpcUniqueCoded o w = [] := by
  rw [rpcUniqueCoded_eq_ite, h]; simp

end BufModel.Lint
