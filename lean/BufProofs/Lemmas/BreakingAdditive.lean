import BufProofs.Lemmas.BreakingClean
/-
  The "only adds" relation `prev ⊑ₐ cur` on schema TREES (defined by structural recursion on the
  older schema, nested messages included), its reflexivity and transitivity (so that every chain
  S₀ → S₁ → … → Sₙ of additive edits is covered), and the induction over nesting that transports
  it to the flattened view used by the rule handlers.
-/
namespace BufProofs.Breaking
open BufModel.Schema BufModel.Breaking

mutual
/-- `m'` (newer) only adds to `m`: same name, `InfoExt` on everything but the nested messages,
    and every nested message of `m` has an only-adds counterpart among those of `m'` -/
def MsgExt : Msg → Msg → Prop
  | .mk i ns, m' => InfoExt i m'.info ∧ MsgsExt ns m'.nested
def MsgsExt : List Msg → List Msg → Prop
  | [], _ => True
  | n :: ns, ns' => (∃ n', n' ∈ ns' ∧ MsgExt n n') ∧ MsgsExt ns ns'
end

structure FileExt (pf cf : File) : Prop where
  path : cf.path = pf.path
  pkg : cf.pkg = pf.pkg
  syn : cf.syn = pf.syn
  opts : cf.opts = pf.opts
  msgs : MsgsExt pf.messages cf.messages
  enums : ∀ e ∈ pf.enums, ∃ e' ∈ cf.enums, e'.name = e.name ∧ EnumExt e e'
  exts : ∀ x ∈ pf.extensions, x ∈ cf.extensions
  svcs : ∀ s ∈ pf.services, ∃ s' ∈ cf.services, SvcExt s s'

/-- the newer schema `cur` only adds to `prev`: new files, messages, enums, services, RPCs, oneofs,
    reserved ranges / names, enum values with fresh numbers, non-required fields with fresh numbers -/
def SchemaExt (prev cur : Schema) : Prop := ∀ pf ∈ prev, ∃ cf ∈ cur, FileExt pf cf

scoped infix:50 " ⊑ₐ " => SchemaExt

theorem MsgsExt_mem : ∀ (ns ns' : List Msg), MsgsExt ns ns' → ∀ n ∈ ns, ∃ n', n' ∈ ns' ∧ MsgExt n n'
  | [], _, _, n, hn => by cases hn
  | x :: xs, ns', h, n, hn => by
    rw [MsgsExt] at h
    rcases List.mem_cons.1 hn with rfl | hn'
    · exact h.1
    · exact MsgsExt_mem xs ns' h.2 n hn'

theorem MsgsExt_of_forall : ∀ (ns ns' : List Msg), (∀ n ∈ ns, ∃ n', n' ∈ ns' ∧ MsgExt n n') → MsgsExt ns ns'
  | [], _, _ => by rw [MsgsExt]; trivial
  | x :: xs, ns', h => by
    rw [MsgsExt]
    exact ⟨h x List.mem_cons_self, MsgsExt_of_forall xs ns' fun n hn => h n (List.mem_cons_of_mem _ hn)⟩

/-! ### reflexivity -/

theorem EnumExt.refl (e : Enum) : EnumExt e e :=
  ⟨rfl, rfl, fun _ h => h, fun _ h => h, fun _ h => h⟩

theorem InfoExt.refl (i : MsgInfo) : InfoExt i i where
  name := rfl
  enums := fun e he => ⟨e, he, rfl, EnumExt.refl e⟩
  exts := fun _ h => h
  noStd := rfl
  json := rfl
  fields := fun _ h => h
  fresh := fun _ h => Or.inl h
  oneofs := fun _ h => List.mem_map_of_mem h
  rranges := fun _ h => h
  rnames := fun _ h => h
  extRanges := fun _ h => h

theorem SvcExt.refl (s : Service) : SvcExt s s := ⟨rfl, fun _ h => h⟩

mutual
theorem MsgExt.refl : ∀ m : Msg, MsgExt m m
  | .mk i ns => by
    rw [MsgExt]
    exact ⟨InfoExt.refl i, MsgsExt_of_forall ns ns fun n hn => ⟨n, hn, MsgExt.refl_list ns n hn⟩⟩
theorem MsgExt.refl_list : ∀ ns : List Msg, ∀ n ∈ ns, MsgExt n n
  | [], n, hn => by cases hn
  | x :: xs, n, hn => by
    rcases List.mem_cons.1 hn with h | h
    · rw [h]; exact MsgExt.refl x
    · exact MsgExt.refl_list xs n h
end

theorem FileExt.refl (f : File) : FileExt f f where
  path := rfl
  pkg := rfl
  syn := rfl
  opts := rfl
  msgs := MsgsExt_of_forall _ _ fun n hn => ⟨n, hn, MsgExt.refl n⟩
  enums := fun e he => ⟨e, he, rfl, EnumExt.refl e⟩
  exts := fun _ h => h
  svcs := fun s hs => ⟨s, hs, SvcExt.refl s⟩

theorem SchemaExt.refl (s : Schema) : s ⊑ₐ s := fun f hf => ⟨f, hf, FileExt.refl f⟩

/-! ### transitivity (closure under composition) -/

theorem EnumExt.trans {a b c : Enum} (h1 : EnumExt a b) (h2 : EnumExt b c) : EnumExt a c where
  closed := h2.closed.trans h1.closed
  json := h2.json.trans h1.json
  values := fun v hv => h2.values v (h1.values v hv)
  rranges := fun r hr => h2.rranges r (h1.rranges r hr)
  rnames := fun r hr => h2.rnames r (h1.rnames r hr)

theorem InfoExt.trans {a b c : MsgInfo} (h1 : InfoExt a b) (h2 : InfoExt b c) : InfoExt a c where
  name := h2.name.trans h1.name
  enums := fun e he => by
    obtain ⟨e', he', hn', hx'⟩ := h1.enums e he
    obtain ⟨e'', he'', hn'', hx''⟩ := h2.enums e' he'
    exact ⟨e'', he'', hn''.trans hn', hx'.trans hx''⟩
  exts := fun x hx => h2.exts x (h1.exts x hx)
  noStd := h2.noStd.trans h1.noStd
  json := h2.json.trans h1.json
  fields := fun f hf => h2.fields f (h1.fields f hf)
  fresh := fun f'' hf => by
    rcases h2.fresh f'' hf with hb | ⟨hnr, hnew⟩
    · exact h1.fresh f'' hb
    · exact Or.inr ⟨hnr, fun f hfa => hnew f (h1.fields f hfa)⟩
  oneofs := fun o ho => by
    obtain ⟨o', ho', hn⟩ := List.mem_map.1 (h1.oneofs o ho)
    rw [← hn]
    exact h2.oneofs o' ho'
  rranges := fun r hr => h2.rranges r (h1.rranges r hr)
  rnames := fun r hr => h2.rnames r (h1.rnames r hr)
  extRanges := fun r hr => h2.extRanges r (h1.extRanges r hr)

theorem SvcExt.trans {a b c : Service} (h1 : SvcExt a b) (h2 : SvcExt b c) : SvcExt a c :=
  ⟨h2.name.trans h1.name, fun m hm => h2.methods m (h1.methods m hm)⟩

theorem MsgExt_unfold (m m' : Msg) : MsgExt m m' ↔ InfoExt m.info m'.info ∧ MsgsExt m.nested m'.nested := by
  cases m with
  | mk i ns => rw [MsgExt]; rfl

mutual
theorem MsgExt.trans : ∀ (a b c : Msg), MsgExt a b → MsgExt b c → MsgExt a c
  | .mk i ns, b, c, h1, h2 => by
    rw [MsgExt] at h1 ⊢
    rw [MsgExt_unfold] at h2
    exact ⟨h1.1.trans h2.1, MsgExt.trans_list ns b.nested c.nested h1.2 h2.2⟩
theorem MsgExt.trans_list : ∀ (as bs cs : List Msg), MsgsExt as bs → MsgsExt bs cs → MsgsExt as cs
  | [], _, _, _, _ => by rw [MsgsExt]; trivial
  | a :: as, bs, cs, h1, h2 => by
    rw [MsgsExt] at h1 ⊢
    obtain ⟨⟨b, hb, hab⟩, hrest⟩ := h1
    obtain ⟨c, hc, hbc⟩ := MsgsExt_mem bs cs h2 b hb
    exact ⟨⟨c, hc, MsgExt.trans a b c hab hbc⟩, MsgExt.trans_list as bs cs hrest h2⟩
end

theorem FileExt.trans {a b c : File} (h1 : FileExt a b) (h2 : FileExt b c) : FileExt a c where
  path := h2.path.trans h1.path
  pkg := h2.pkg.trans h1.pkg
  syn := h2.syn.trans h1.syn
  opts := h2.opts.trans h1.opts
  msgs := MsgExt.trans_list _ _ _ h1.msgs h2.msgs
  enums := fun e he => by
    obtain ⟨e', he', hn', hx'⟩ := h1.enums e he
    obtain ⟨e'', he'', hn'', hx''⟩ := h2.enums e' he'
    exact ⟨e'', he'', hn''.trans hn', hx'.trans hx''⟩
  exts := fun x hx => h2.exts x (h1.exts x hx)
  svcs := fun s hs => by
    obtain ⟨s', hs', hx'⟩ := h1.svcs s hs
    obtain ⟨s'', hs'', hx''⟩ := h2.svcs s' hs'
    exact ⟨s'', hs'', hx'.trans hx''⟩

theorem SchemaExt.trans {a b c : Schema} (h1 : a ⊑ₐ b) (h2 : b ⊑ₐ c) : a ⊑ₐ c := fun f hf => by
  obtain ⟨f', hf', hx'⟩ := h1 f hf
  obtain ⟨f'', hf'', hx''⟩ := h2 f' hf'
  exact ⟨f'', hf'', hx'.trans hx''⟩

/-! ### induction over nesting: tree relation ⇒ flattened relation -/

/-- every member's flattening is part of the flattening of the list (at some index / map fallback) -/
theorem flatMsgs_of_mem (file : String) (locs : List SPath) (pkg pre : QName) (path : SPath) (pf : List Field) :
    ∀ (ns : List Msg) (i : Nat) (n : Msg), n ∈ ns → ∃ j ml, ∀ x,
      x ∈ flatMsg file locs pkg pre (path ++ [3, j]) ml n → x ∈ flatMsgs file locs pkg pre path pf i ns
  | [], _, n, hn => by cases hn
  | m :: ms, i, n, hn => by
    rcases List.mem_cons.1 hn with rfl | hn'
    · refine ⟨i, mapLocOf pkg pre path pf n.info, fun x hx => ?_⟩
      rw [flatMsgs]; exact List.mem_append_left _ hx
    · obtain ⟨j, ml, hj⟩ := flatMsgs_of_mem file locs pkg pre path pf ms (i + 1) n hn'
      refine ⟨j, ml, fun x hx => ?_⟩
      rw [flatMsgs]; exact List.mem_append_right _ (hj x hx)

theorem topMsgs_of_mem (file : String) (locs : List SPath) (pkg : QName) :
    ∀ (ns : List Msg) (i : Nat) (n : Msg), n ∈ ns → ∃ j, ∀ x,
      x ∈ flatMsg file locs pkg [] [4, j] none n → x ∈ topMsgs file locs pkg i ns
  | [], _, n, hn => by cases hn
  | m :: ms, i, n, hn => by
    rcases List.mem_cons.1 hn with rfl | hn'
    · refine ⟨i, fun x hx => ?_⟩
      rw [topMsgs]; exact List.mem_append_left _ hx
    · obtain ⟨j, hj⟩ := topMsgs_of_mem file locs pkg ms (i + 1) n hn'
      refine ⟨j, fun x hx => ?_⟩
      rw [topMsgs]; exact List.mem_append_right _ (hj x hx)

mutual
theorem flatMsg_ext (file file' : String) (locs locs' : List SPath) (pkg : QName) :
    ∀ (m m' : Msg) (pre : QName) (path path' : SPath) (ml ml' : Option SPath), MsgExt m m' →
      ∀ pm ∈ flatMsg file locs pkg pre path ml m,
        ∃ cm ∈ flatMsg file' locs' pkg pre path' ml' m', cm.nested = pm.nested ∧ InfoExt pm.info cm.info
  | .mk i ns, .mk i' ns', pre, path, path', ml, ml', h, pm, hpm => by
    rw [MsgExt] at h
    obtain ⟨hi, hns⟩ := h
    rw [flatMsg] at hpm
    rcases List.mem_cons.1 hpm with rfl | hrest
    · refine ⟨⟨file', locs', pkg, pre ++ [i'.name], path', ml', i'⟩, ?_, ?_, hi⟩
      · rw [flatMsg]; exact List.mem_cons_self
      · show pre ++ [i'.name] = pre ++ [i.name]
        rw [show i'.name = i.name from hi.name]
    · have hname : i'.name = i.name := hi.name
      obtain ⟨cm, hcm, hx⟩ := flatMsgs_ext file file' locs locs' pkg ns ns' (pre ++ [i.name]) path path'
        i.fields i'.fields 0 0 hns pm hrest
      refine ⟨cm, ?_, hx⟩
      rw [flatMsg, hname]; exact List.mem_cons_of_mem _ hcm
theorem flatMsgs_ext (file file' : String) (locs locs' : List SPath) (pkg : QName) :
    ∀ (ns ns' : List Msg) (pre : QName) (path path' : SPath) (pf pf' : List Field) (i i' : Nat),
      MsgsExt ns ns' → ∀ pm ∈ flatMsgs file locs pkg pre path pf i ns,
        ∃ cm ∈ flatMsgs file' locs' pkg pre path' pf' i' ns', cm.nested = pm.nested ∧ InfoExt pm.info cm.info
  | [], _, _, _, _, _, _, _, _, _, pm, hpm => by rw [flatMsgs] at hpm; cases hpm
  | n :: ns, ns', pre, path, path', pf, pf', i, i', h, pm, hpm => by
    rw [MsgsExt] at h
    obtain ⟨⟨n', hn', hnn'⟩, hrest⟩ := h
    rw [flatMsgs] at hpm
    rcases List.mem_append.1 hpm with hh | ht
    · obtain ⟨j, ml', hj⟩ := flatMsgs_of_mem file' locs' pkg pre path' pf' ns' i' n' hn'
      obtain ⟨cm, hcm, hx⟩ := flatMsg_ext file file' locs locs' pkg n n' pre (path ++ [3, i]) (path' ++ [3, j])
        _ ml' hnn' pm hh
      exact ⟨cm, hj cm hcm, hx⟩
    · exact flatMsgs_ext file file' locs locs' pkg ns ns' pre path path' pf pf' (i + 1) i' hrest pm ht
end

theorem topMsgs_ext (file file' : String) (locs locs' : List SPath) (pkg : QName) :
    ∀ (ns ns' : List Msg) (i i' : Nat), MsgsExt ns ns' → ∀ pm ∈ topMsgs file locs pkg i ns,
      ∃ cm ∈ topMsgs file' locs' pkg i' ns', cm.nested = pm.nested ∧ InfoExt pm.info cm.info
  | [], _, _, _, _, pm, hpm => by rw [topMsgs] at hpm; cases hpm
  | n :: ns, ns', i, i', h, pm, hpm => by
    rw [MsgsExt] at h
    obtain ⟨⟨n', hn', hnn'⟩, hrest⟩ := h
    rw [topMsgs] at hpm
    rcases List.mem_append.1 hpm with hh | ht
    · obtain ⟨j, hj⟩ := topMsgs_of_mem file' locs' pkg ns' i' n' hn'
      obtain ⟨cm, hcm, hx⟩ := flatMsg_ext file file' locs locs' pkg n n' [] [4, i] [4, j] none none hnn' pm hh
      exact ⟨cm, hj cm hcm, hx⟩
    · exact topMsgs_ext file file' locs locs' pkg ns ns' (i + 1) i' hrest pm ht

theorem FileExt.flat {pf cf : File} (h : FileExt pf cf) : FileFlatExt pf cf := by
  have hmsgs : ∀ pm ∈ pf.flatMsgs, ∃ cm ∈ cf.flatMsgs, cm.nested = pm.nested ∧ InfoExt pm.info cm.info := by
    intro pm hpm
    unfold File.flatMsgs at hpm ⊢
    rw [h.pkg]
    exact topMsgs_ext pf.path cf.path pf.locs cf.locs pf.pkg pf.messages cf.messages 0 0 h.msgs pm hpm
  refine ⟨h.path, h.pkg, h.syn, h.opts, hmsgs, ?_, ?_, h.svcs⟩
  · intro pe hpe
    unfold File.flatEnums at hpe ⊢
    rcases List.mem_append.1 hpe with ht | hn
    · obtain ⟨ip, hip, rfl⟩ := List.mem_map.1 ht
      obtain ⟨e', he', hname, hx⟩ := h.enums ip.2 (mem_indexed_snd hip)
      obtain ⟨j, hj⟩ := exists_indexed_of_mem he'
      refine ⟨⟨cf.path, cf.locs, cf.pkg, [e'.name], [5, j], e'⟩, ?_, by simp [hname], hx⟩
      exact List.mem_append_left _ (List.mem_map.2 ⟨(j, e'), hj, rfl⟩)
    · obtain ⟨pm, hpm, hin⟩ := List.mem_flatMap.1 hn
      obtain ⟨ip, hip, rfl⟩ := List.mem_map.1 hin
      obtain ⟨cm, hcm, hnest, hi⟩ := hmsgs pm hpm
      obtain ⟨e', he', hname, hx⟩ := hi.enums ip.2 (mem_indexed_snd hip)
      obtain ⟨j, hj⟩ := exists_indexed_of_mem he'
      refine ⟨⟨cf.path, cf.locs, cf.pkg, cm.nested ++ [e'.name], cm.path ++ [4, j], e'⟩, ?_, by simp [hname, hnest], hx⟩
      exact List.mem_append_right _ (List.mem_flatMap.2 ⟨cm, hcm, List.mem_map.2 ⟨(j, e'), hj, rfl⟩⟩)
  · intro pe hpe
    unfold File.flatExts at hpe ⊢
    rcases List.mem_append.1 hpe with ht | hn
    · obtain ⟨ip, hip, rfl⟩ := List.mem_map.1 ht
      have he' := h.exts ip.2 (mem_indexed_snd hip)
      obtain ⟨j, hj⟩ := exists_indexed_of_mem he'
      refine ⟨⟨cf.path, cf.locs, cf.pkg, [ip.2.name], [7, j], ip.2⟩, ?_, rfl, rfl⟩
      exact List.mem_append_left _ (List.mem_map.2 ⟨(j, ip.2), hj, rfl⟩)
    · obtain ⟨pm, hpm, hin⟩ := List.mem_flatMap.1 hn
      obtain ⟨ip, hip, rfl⟩ := List.mem_map.1 hin
      obtain ⟨cm, hcm, hnest, hi⟩ := hmsgs pm hpm
      have he' := hi.exts ip.2 (mem_indexed_snd hip)
      obtain ⟨j, hj⟩ := exists_indexed_of_mem he'
      refine ⟨⟨cf.path, cf.locs, cf.pkg, cm.nested ++ [ip.2.name], cm.path ++ [6, j], ip.2⟩, ?_, by simp [hnest], rfl⟩
      exact List.mem_append_right _ (List.mem_flatMap.2 ⟨cm, hcm, List.mem_map.2 ⟨(j, ip.2), hj, rfl⟩⟩)

theorem SchemaExt.flat {prev cur : Schema} (h : prev ⊑ₐ cur) : SchemaFlatExt prev cur := fun pf hpf => by
  obtain ⟨cf, hcf, hx⟩ := h pf hpf
  exact ⟨cf, hcf, hx.flat⟩

end BufProofs.Breaking
