import BufProofs.Lemmas.GenerateArchiveLemmas
/-
  Field presence in `CodeGeneratorResponse` (C17).  The model carries presence explicitly
  (`Option`); the code as written decides everything through the generated getters.  `canon`
  forgets presence (every field present, with the getter's value); the lemmas below show that
  every stage of the pipeline commutes with `canon`.
-/
namespace BufProofs.C17
open BufModel.Path BufModel.Bucket BufModel.Generate

/-- The file with every optional field present and holding what the getter returns. -/
def canon (f : RFile) : RFile := ⟨some f.getName, some f.getIP, some f.getContent⟩

@[simp] theorem canon_getName (f : RFile) : (canon f).getName = f.getName := rfl
@[simp] theorem canon_getIP (f : RFile) : (canon f).getIP = f.getIP := rfl
@[simp] theorem canon_getContent (f : RFile) : (canon f).getContent = f.getContent := rfl

theorem canon_idem (f : RFile) : canon (canon f) = canon f := rfl

/-! ### response writer and duplicate check -/

theorem writeFile_canon (m : Mem) (f : RFile) : writeFile m (canon f) = writeFile m f := by
  unfold writeFile
  simp only [canon_getName, canon_getIP, canon_getContent]
  rfl

theorem writeResponse_canon : ∀ (fs : List RFile) (m : Mem),
    writeResponse m (fs.map canon) = writeResponse m fs := by
  intro fs
  induction fs with
  | nil => intro m; rfl
  | cons f fs ih =>
    intro m
    simp only [List.map_cons]
    unfold writeResponse
    rw [writeFile_canon]
    cases writeFile m f with
    | error e => rfl
    | ok m' => exact ih m'

theorem validateFiles_canon (key : Str → Str → Str) (out : Str) : ∀ (fs : List RFile) (seen : List Str),
    validateFiles key out (fs.map canon) seen = validateFiles key out fs seen := by
  intro fs
  induction fs with
  | nil => intro seen; rfl
  | cons f fs ih =>
    intro seen
    simp only [List.map_cons]
    unfold validateFiles
    simp only [canon_getName, canon_getIP, ih]

/-- Forget presence in every file of a plugin's (normalised) response. -/
def canonP (p : PluginResp) : PluginResp := ⟨p.out, p.files.map canon⟩

theorem validatePluginResponses_canon (key : Str → Str → Str) : ∀ (ps : List PluginResp) (seen : List Str),
    validatePluginResponses key (ps.map canonP) seen = validatePluginResponses key ps seen := by
  intro ps
  induction ps with
  | nil => intro seen; rfl
  | cons p ps ih =>
    intro seen
    simp only [List.map_cons]
    unfold validatePluginResponses
    show (match validateFiles key p.out (p.files.map canon) seen with
      | .error e => Except.error e
      | .ok seen' => validatePluginResponses key (ps.map canonP) seen') = _
    rw [validateFiles_canon]
    cases validateFiles key p.out p.files seen with
    | error e => rfl
    | ok s => exact ih s

theorem addResponseA_canon (fs : FS) (cwd : Str) (bs : Buckets) (p : PluginResp) :
    addResponseA fs cwd bs (canonP p) = addResponseA fs cwd bs p := by
  unfold addResponseA
  show (match (match bs.find (absPath cwd p.out) with
      | some m => Except.ok m
      | none => newBucket fs (absPath cwd p.out)) with
    | .error e => Except.error e
    | .ok m0 =>
      match writeResponse m0 (p.files.map canon) with
      | .error e => .error (.gen e)
      | .ok m => .ok (bs.set (absPath cwd p.out) m)) = _
  simp only [writeResponse_canon]
  rfl

theorem addResponsesA_canon (fs : FS) (cwd : Str) : ∀ (ps : List PluginResp) (bs : Buckets),
    addResponsesA fs cwd bs (ps.map canonP) = addResponsesA fs cwd bs ps := by
  intro ps
  induction ps with
  | nil => intro bs; rfl
  | cons p ps ih =>
    intro bs
    simp only [List.map_cons]
    unfold addResponsesA
    rw [addResponseA_canon]
    cases addResponseA fs cwd bs p with
    | error e => rfl
    | ok bs' => exact ih bs'

theorem addResponse_canon (cwd : Str) (bs : Buckets) (p : PluginResp) :
    addResponse cwd bs (canonP p) = addResponse cwd bs p := by
  unfold addResponse
  show (match writeResponse ((bs.find (absPath cwd p.out)).getD []) (p.files.map canon) with
    | .error e => Except.error e
    | .ok m => .ok (bs.set (absPath cwd p.out) m)) = _
  rw [writeResponse_canon]
  rfl

theorem addResponses_canon (cwd : Str) : ∀ (ps : List PluginResp) (bs : Buckets),
    addResponses cwd bs (ps.map canonP) = addResponses cwd bs ps := by
  intro ps
  induction ps with
  | nil => intro bs; rfl
  | cons p ps ih =>
    intro bs
    simp only [List.map_cons]
    unfold addResponses
    rw [addResponse_canon]
    cases addResponse cwd bs p with
    | error e => rfl
    | ok bs' => exact ih bs'

/-! ### protoplugin's normalisation -/

/-- `Except.map (List.map canon)`, spelled out. -/
def canonE : Except XErr (List RFile) → Except XErr (List RFile)
  | .error e => .error e
  | .ok l => .ok (l.map canon)

theorem appendContent_canon (prev cur : RFile) :
    canon (appendContent (canon prev) (canon cur)) = canon (appendContent prev cur) := by
  obtain ⟨pn, pi, pc⟩ := prev
  obtain ⟨cn, ci, cc⟩ := cur
  cases cc <;> cases pc <;>
    simp [appendContent, canon, RFile.getName, RFile.getIP, RFile.getContent]

theorem appendContent_getName (prev cur : RFile) : (appendContent prev cur).getName = prev.getName := by
  unfold appendContent
  cases cur.content <;> cases prev.content <;> rfl

theorem appendContent_getIP (prev cur : RFile) : (appendContent prev cur).getIP = prev.getIP := by
  unfold appendContent
  cases cur.content <;> cases prev.content <;> rfl

/-- A nameless file's content is appended to the previous file, whatever is present. -/
theorem appendContent_getContent (prev cur : RFile) :
    (appendContent prev cur).getContent = prev.getContent ++ cur.getContent := by
  obtain ⟨pn, pi, pc⟩ := prev
  obtain ⟨cn, ci, cc⟩ := cur
  cases cc <;> cases pc <;> simp [appendContent, RFile.getContent]

theorem mergeLoop_named {prev cur : RFile} {rest : List RFile} (h : cur.getName ≠ []) :
    mergeLoop prev (cur :: rest) =
      match mergeLoop cur rest with
      | .error e => .error e
      | .ok l => .ok (prev :: l) := by
  rw [mergeLoop, if_pos h]
  cases mergeLoop cur rest <;> rfl

theorem mergeLoop_nameless_ip {prev cur : RFile} {rest : List RFile} (h : ¬ cur.getName ≠ [])
    (hip : cur.getIP ≠ []) : mergeLoop prev (cur :: rest) = .error .namelessInsertion := by
  rw [mergeLoop, if_neg h, if_pos hip]

theorem mergeLoop_nameless {prev cur : RFile} {rest : List RFile} (h : ¬ cur.getName ≠ [])
    (hip : ¬ cur.getIP ≠ []) : mergeLoop prev (cur :: rest) = mergeLoop (appendContent prev cur) rest := by
  rw [mergeLoop, if_neg h, if_neg hip]

/-- `mergeLoop` only looks at `canon prev`. -/
theorem mergeLoop_canon : ∀ (rest : List RFile) (prev prev' : RFile), canon prev = canon prev' →
    canonE (mergeLoop prev' (rest.map canon)) = canonE (mergeLoop prev rest) := by
  intro rest
  induction rest with
  | nil =>
    intro prev prev' h
    simp only [List.map_nil, mergeLoop, canonE, List.map_cons, h]
  | cons cur rest ih =>
    intro prev prev' h
    simp only [List.map_cons]
    by_cases hn : cur.getName ≠ []
    · rw [mergeLoop_named (prev := prev') (cur := canon cur) (by simpa using hn), mergeLoop_named hn]
      have := ih cur (canon cur) (canon_idem cur).symm
      revert this
      cases mergeLoop (canon cur) (rest.map canon) <;> cases mergeLoop cur rest <;>
        simp [canonE, h]
    · by_cases hip : cur.getIP ≠ []
      · rw [mergeLoop_nameless_ip (cur := canon cur) (by simpa using hn) (by simpa using hip),
          mergeLoop_nameless_ip hn hip]
      · rw [mergeLoop_nameless (cur := canon cur) (by simpa using hn) (by simpa using hip),
          mergeLoop_nameless hn hip]
        apply ih
        have h1 := appendContent_canon prev cur
        have h2 := appendContent_canon prev' (canon cur)
        rw [canon_idem] at h2
        rw [← h1, ← h2, h]

theorem mergeNameless_cons_nameless {f : RFile} {fs : List RFile} (h : f.getName = []) :
    mergeNameless (f :: fs) = .error .firstNameless := by
  rw [mergeNameless, if_pos h]

theorem mergeNameless_cons_named {f : RFile} {fs : List RFile} (h : ¬ f.getName = []) :
    mergeNameless (f :: fs) = mergeLoop f fs := by
  rw [mergeNameless, if_neg h]

theorem mergeNameless_canon (fs : List RFile) :
    canonE (mergeNameless (fs.map canon)) = canonE (mergeNameless fs) := by
  cases fs with
  | nil => rfl
  | cons f fs =>
    simp only [List.map_cons]
    by_cases hn : f.getName = []
    · rw [mergeNameless_cons_nameless (f := canon f) hn, mergeNameless_cons_nameless hn]
    · rw [mergeNameless_cons_named (f := canon f) hn, mergeNameless_cons_named hn]
      exact mergeLoop_canon fs f (canon f) (canon_idem f).symm

theorem normLoop_cons_err {f : RFile} {fs : List RFile} {seen : List Str} {e : XErr}
    (h : normalizeName f.getName = .error e) : normLoop (f :: fs) seen = .error e := by
  rw [normLoop, h]

theorem normLoop_cons_drop {f : RFile} {fs : List RFile} {seen : List Str} {n : Str}
    (h : normalizeName f.getName = .ok n) (hd : n ∈ seen ∧ f.getIP = []) :
    normLoop (f :: fs) seen = normLoop fs seen := by
  rw [normLoop, h]; simp only; rw [if_pos hd]

theorem normLoop_cons_keep {f : RFile} {fs : List RFile} {seen : List Str} {n : Str}
    (h : normalizeName f.getName = .ok n) (hd : ¬ (n ∈ seen ∧ f.getIP = [])) :
    normLoop (f :: fs) seen =
      match normLoop fs (n :: seen) with
      | .error e => .error e
      | .ok l => .ok ({ f with name := some n } :: l) := by
  rw [normLoop, h]; simp only; rw [if_neg hd]
  cases normLoop fs (n :: seen) <;> rfl

theorem normLoop_canon : ∀ (fs : List RFile) (seen : List Str),
    canonE (normLoop (fs.map canon) seen) = canonE (normLoop fs seen) := by
  intro fs
  induction fs with
  | nil => intro seen; rfl
  | cons f fs ih =>
    intro seen
    simp only [List.map_cons]
    cases hnn : normalizeName f.getName with
    | error e => rw [normLoop_cons_err (f := canon f) hnn, normLoop_cons_err hnn]
    | ok n =>
      by_cases hd : n ∈ seen ∧ f.getIP = []
      · rw [normLoop_cons_drop (f := canon f) hnn hd, normLoop_cons_drop hnn hd]
        exact ih seen
      · rw [normLoop_cons_keep (f := canon f) hnn hd, normLoop_cons_keep hnn hd]
        have := ih (n :: seen)
        revert this
        cases normLoop (fs.map canon) (n :: seen) <;> cases normLoop fs (n :: seen) <;>
          simp [canonE, canon, RFile.getName, RFile.getIP, RFile.getContent]

/-- `normLoop` on lists that agree after `canon`. -/
theorem normLoop_congr (l l' : List RFile) (h : l.map canon = l'.map canon) (seen : List Str) :
    canonE (normLoop l seen) = canonE (normLoop l' seen) := by
  rw [← normLoop_canon l, ← normLoop_canon l', h]

theorem normalizeFiles_canon (fs : List RFile) :
    canonE (normalizeFiles (fs.map canon)) = canonE (normalizeFiles fs) := by
  unfold normalizeFiles
  have h := mergeNameless_canon fs
  revert h
  cases mergeNameless (fs.map canon) <;> cases mergeNameless fs <;> intro h
  · simpa [canonE] using h
  · simp [canonE] at h
  · simp [canonE] at h
  · rename_i l l'
    simp only [canonE, Except.ok.injEq] at h
    exact normLoop_congr l l' h []

/-! ### `filepath.Clean` never returns the empty string -/

theorem joinSlash_head_ne_nil {c : Comp} {cs : List Comp} (h : c ≠ []) : joinSlash (c :: cs) ≠ [] := by
  cases cs with
  | nil => exact h
  | cons d ds =>
    rw [joinSlash_cons_cons]
    intro hc
    cases c with
    | nil => exact h rfl
    | cons x xs => simp at hc

theorem clean_ne_nil (s : Str) : clean s ≠ [] := by
  unfold clean render
  obtain ⟨k, names, heq, hp, _⟩ := reduce_shape (isAbs s) (splitSlash s) (splitSlash_no_slash s)
  split
  · simp
  · split
    · decide
    · rename_i hne
      rw [heq] at hne ⊢
      cases k with
      | zero =>
        simp only [List.replicate_zero, List.nil_append] at hne ⊢
        cases names with
        | nil => exact absurd rfl hne
        | cons n ns => exact joinSlash_head_ne_nil (hp n (by simp)).1
      | succ k =>
        simp only [List.replicate_succ, List.cons_append]
        exact joinSlash_head_ne_nil dotdot_ne_nil

/-! ### response level -/

/-- Forget presence in a whole response: every field present, holding what its getter returns. -/
def canonR (x : Str × Resp) : Str × Resp :=
  (x.1, { files := x.2.files.map canon, error := some (x.2.error.getD []),
          features := some x.2.feat, minEdition := some x.2.minEd, maxEdition := some x.2.maxEd })

/-- Names of the plain files of `l`. -/
def plainNames (l : List RFile) : List Str := (l.filter fun f => f.getIP = []).map (·.getName)

theorem normLoop_spec : ∀ (fs : List RFile) (seen : List Str) (l : List RFile),
    normLoop fs seen = .ok l →
    (∀ f ∈ l, ∃ n0 n, normalizeName n0 = .ok n ∧ f.name = some n) ∧
    (plainNames l).Nodup ∧ (∀ n ∈ plainNames l, n ∉ seen) := by
  intro fs
  induction fs with
  | nil =>
    intro seen l h
    simp only [normLoop, Except.ok.injEq] at h
    subst h
    simp [plainNames]
  | cons f fs ih =>
    intro seen l h
    cases hnn : normalizeName f.getName with
    | error e => rw [normLoop_cons_err hnn] at h; cases h
    | ok n =>
      by_cases hd : n ∈ seen ∧ f.getIP = []
      · rw [normLoop_cons_drop hnn hd] at h
        exact ih seen l h
      · rw [normLoop_cons_keep hnn hd] at h
        cases hrest : normLoop fs (n :: seen) with
        | error e => rw [hrest] at h; cases h
        | ok l' =>
          rw [hrest] at h
          simp only [Except.ok.injEq] at h
          subst h
          obtain ⟨i1, i2, i3⟩ := ih (n :: seen) l' hrest
          refine ⟨?_, ?_, ?_⟩
          · intro g hg
            rcases List.mem_cons.mp hg with rfl | hg
            · exact ⟨f.getName, n, hnn, rfl⟩
            · exact i1 g hg
          · by_cases hip : f.getIP = []
            · have : plainNames ({ f with name := some n } :: l') = n :: plainNames l' := by
                simp [plainNames, List.filter_cons, RFile.getIP, RFile.getName] at hip ⊢
                simp [hip]
              rw [this]
              refine List.nodup_cons.mpr ⟨?_, i2⟩
              intro hmem
              exact i3 n hmem (by simp)
            · have : plainNames ({ f with name := some n } :: l') = plainNames l' := by
                simp [plainNames, List.filter_cons, RFile.getIP] at hip ⊢
                simp [hip]
              rw [this]; exact i2
          · intro x hx
            by_cases hip : f.getIP = []
            · have : plainNames ({ f with name := some n } :: l') = n :: plainNames l' := by
                simp [plainNames, List.filter_cons, RFile.getIP, RFile.getName] at hip ⊢
                simp [hip]
              rw [this] at hx
              rcases List.mem_cons.mp hx with rfl | hx
              · intro hs; exact hd ⟨hs, hip⟩
              · intro hs; exact i3 x hx (List.mem_cons_of_mem _ hs)
            · have : plainNames ({ f with name := some n } :: l') = plainNames l' := by
                simp [plainNames, List.filter_cons, RFile.getIP] at hip ⊢
                simp [hip]
              rw [this] at hx
              intro hs; exact i3 x hx (List.mem_cons_of_mem _ hs)

/-- `Except.map (List.map canonP)`. -/
def canonPE : Except GenErr (List PluginResp) → Except GenErr (List PluginResp)
  | .error e => .error e
  | .ok ps => .ok (ps.map canonP)

theorem pluginGenerate_canon (x : Str × Resp) :
    canonE (pluginGenerate (canonR x).2) = canonE (pluginGenerate x.2) := by
  unfold pluginGenerate
  have h := normalizeFiles_canon x.2.files
  show canonE (match normalizeFiles (x.2.files.map canon) with
    | .error e => .error e
    | .ok fs =>
      if x.2.feat / 4 ≠ 0 then .error .unknownFeatures
      else if hasBit x.2.feat 2 && x.2.minEd = 0 then .error .noMinEdition
      else if hasBit x.2.feat 2 && x.2.maxEd = 0 then .error .noMaxEdition
      else if hasBit x.2.feat 2 && x.2.minEd > x.2.maxEd then .error .minGtMax
      else if x.2.error.getD [] ≠ [] then .error .pluginError
      else .ok fs) = _
  revert h
  cases normalizeFiles (x.2.files.map canon) <;> cases normalizeFiles x.2.files <;> intro h
  · simpa [canonE] using h
  · simp [canonE] at h
  · simp [canonE] at h
  · rename_i l l'
    simp only [canonE, Except.ok.injEq] at h
    simp only
    split
    · rfl
    · split
      · rfl
      · split
        · rfl
        · split
          · rfl
          · split
            · rfl
            · simp only [canonE, h]

theorem execSeq_canon : ∀ (rs : List (Str × Resp)),
    canonPE (execSeq (rs.map canonR)) = canonPE (execSeq rs) := by
  intro rs
  induction rs with
  | nil => rfl
  | cons x rs ih =>
    obtain ⟨out, r⟩ := x
    simp only [List.map_cons]
    have h := pluginGenerate_canon (out, r)
    unfold execSeq
    show canonPE (match pluginGenerate (canonR (out, r)).2 with
      | .error e => .error (.exec e)
      | .ok fs =>
        match execSeq (rs.map canonR) with
        | .error e => .error e
        | .ok ps => .ok (⟨out, fs⟩ :: ps)) = _
    revert h
    cases pluginGenerate (canonR (out, r)).2 <;> cases pluginGenerate r <;> intro h
    · simp only [canonE, Except.error.injEq] at h; subst h; rfl
    · simp [canonE] at h
    · simp [canonE] at h
    · rename_i l l'
      simp only [canonE, Except.ok.injEq] at h
      simp only
      revert ih
      cases execSeq (rs.map canonR) <;> cases execSeq rs <;> intro ih
      · simpa [canonPE] using ih
      · simp [canonPE] at ih
      · simp [canonPE] at ih
      · simp only [canonPE, Except.ok.injEq] at ih
        simp only [canonPE, List.map_cons, canonP, ih, h]

theorem execFailures_canon (rs : List (Str × Resp)) :
    execFailures (rs.map canonR) = execFailures rs := by
  unfold execFailures
  rw [List.filterMap_map]
  congr 1
  funext x
  have h := pluginGenerate_canon x
  simp only [Function.comp]
  revert h
  cases pluginGenerate (canonR x).2 <;> cases pluginGenerate x.2 <;> simp [canonE]

theorem execPar_canon (rs : List (Str × Resp)) :
    canonPE (execPar (rs.map canonR)) = canonPE (execPar rs) := by
  unfold execPar
  rw [execFailures_canon]
  cases execFailures rs with
  | nil => exact execSeq_canon rs
  | cons e es => cases es <;> rfl

end BufProofs.C17
