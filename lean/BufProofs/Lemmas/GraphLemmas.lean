import BufModel.Graph
/-
  The shared DFS invariant (proved once, used by C01 / C10 and later C11 / C17):
  a successful `dfs` / `dfsRoots` run only appends to the output, the newly output nodes are
  exactly the newly visited ones, were unvisited before, are pairwise distinct, are reachable
  from the root(s), have all their successors visited, and every successor of an output node is
  already visited, output earlier, or an ancestor of it (which, in an acyclic graph, is impossible).
-/
set_option linter.unusedSectionVars false
namespace BufModel.Graph
variable {α : Type} [DecidableEq α]

theorem Reach.trans {succ : α → Option (List α)} {a b c : α} (h1 : Reach succ a b) (h2 : Reach succ b c) :
    Reach succ a c := by
  induction h2 with
  | refl => exact h1
  | step _ hs hc ih => exact Reach.step ih hs hc

theorem Reach.head {succ : α → Option (List α)} {a b c : α} {cs : List α}
    (hs : succ a = some cs) (hb : b ∈ cs) (h : Reach succ b c) : Reach succ a c :=
  Reach.trans (Reach.step (Reach.refl a) hs hb) h

/-- order condition for one output node `x` given what was output before it (`pre`) and what was
    visited before the whole run (`base`). -/
def OkAt (succ : α → Option (List α)) (base pre : List α) (x : α) : Prop :=
  ∀ cs, succ x = some cs → ∀ c ∈ cs, c ∈ base ∨ c ∈ pre ∨ Reach succ c x

def OrdFrom (succ : α → Option (List α)) (base : List α) : List α → List α → Prop
  | _, [] => True
  | pre, x :: rest => OkAt succ base pre x ∧ OrdFrom succ base (pre ++ [x]) rest

theorem OrdFrom_append {succ : α → Option (List α)} {base : List α} (l1 l2 : List α) :
    ∀ pre, OrdFrom succ base pre (l1 ++ l2) ↔ OrdFrom succ base pre l1 ∧ OrdFrom succ base (pre ++ l1) l2 := by
  induction l1 with
  | nil => intro pre; simp [OrdFrom]
  | cons x xs ih =>
    intro pre
    simp only [List.cons_append, OrdFrom]
    rw [ih (pre ++ [x])]
    simp [List.append_assoc, and_assoc]

theorem OrdFrom_mono {succ : α → Option (List α)} {base base' : List α} (l : List α) :
    ∀ pre pre', (∀ c, c ∈ pre → c ∈ pre') →
      (∀ x ∈ l, ∀ c, c ∈ base → c ∈ base' ∨ c ∈ pre' ∨ Reach succ c x) →
      OrdFrom succ base pre l → OrdFrom succ base' pre' l := by
  induction l with
  | nil => intros; trivial
  | cons x xs ih =>
    intro pre pre' hp hb h
    obtain ⟨h1, h2⟩ := h
    refine ⟨?_, ?_⟩
    · intro cs hs c hc
      rcases h1 cs hs c hc with hbase | hpre | hr
      · exact hb x (List.mem_cons_self) c hbase
      · exact Or.inr (Or.inl (hp c hpre))
      · exact Or.inr (Or.inr hr)
    · apply ih (pre ++ [x]) (pre' ++ [x]) _ _ h2
      · intro c hc
        rcases List.mem_append.mp hc with h | h
        · exact List.mem_append.mpr (Or.inl (hp c h))
        · exact List.mem_append.mpr (Or.inr h)
      · intro y hy c hc
        rcases hb y (List.mem_cons_of_mem _ hy) c hc with h | h | h
        · exact Or.inl h
        · exact Or.inr (Or.inl (List.mem_append.mpr (Or.inl h)))
        · exact Or.inr (Or.inr h)

/-- what one successful run (from the roots `rs`) guarantees. -/
structure Post (succ : α → Option (List α)) (rs : List α) (vis out vis' out' : List α) : Prop where
  ex : ∃ new : List α, out' = out ++ new ∧ (∀ x, x ∈ vis' ↔ x ∈ vis ∨ x ∈ new) ∧ (∀ x ∈ new, x ∉ vis) ∧
    new.Nodup ∧ (∀ x ∈ new, ∃ r ∈ rs, Reach succ r x) ∧
    (∀ x ∈ new, ∃ cs, succ x = some cs ∧ ∀ c ∈ cs, c ∈ vis') ∧ OrdFrom succ vis [] new
  roots : ∀ r ∈ rs, r ∈ vis'

theorem post_nil (succ : α → Option (List α)) (vis out : List α) : Post succ [] vis out vis out :=
  ⟨⟨[], by simp, by simp, by simp, List.nodup_nil, by simp, by simp, trivial⟩, by simp⟩

/-- sequential composition: a run from `r`, then a run from `rs`. -/
theorem post_cons {succ : α → Option (List α)} {r : α} {rs vis out v1 o1 v2 o2 : List α}
    (h1 : Post succ [r] vis out v1 o1) (h2 : Post succ rs v1 o1 v2 o2) :
    Post succ (r :: rs) vis out v2 o2 := by
  obtain ⟨⟨n1, e1, m1, d1, nd1, r1, c1, ord1⟩, rt1⟩ := h1
  obtain ⟨⟨n2, e2, m2, d2, nd2, r2, c2, ord2⟩, rt2⟩ := h2
  refine ⟨⟨n1 ++ n2, ?_, ?_, ?_, ?_, ?_, ?_, ?_⟩, ?_⟩
  · rw [e2, e1, List.append_assoc]
  · intro x; rw [m2, m1]; simp [or_assoc]
  · intro x hx
    rcases List.mem_append.mp hx with h | h
    · exact d1 x h
    · intro hv; exact d2 x h ((m1 x).mpr (Or.inl hv))
  · rw [List.nodup_append]
    refine ⟨nd1, nd2, ?_⟩
    intro a ha b hb hab
    subst hab
    exact d2 a hb ((m1 a).mpr (Or.inr ha))
  · intro x hx
    rcases List.mem_append.mp hx with h | h
    · obtain ⟨r', hr', hreach⟩ := r1 x h
      simp only [List.mem_singleton] at hr'
      subst hr'
      exact ⟨r', List.mem_cons_self, hreach⟩
    · obtain ⟨r', hr', hreach⟩ := r2 x h
      exact ⟨r', List.mem_cons_of_mem _ hr', hreach⟩
  · intro x hx
    rcases List.mem_append.mp hx with h | h
    · obtain ⟨cs, hs, hc⟩ := c1 x h
      exact ⟨cs, hs, fun c hcc => (m2 c).mpr (Or.inl (hc c hcc))⟩
    · exact c2 x h
  · rw [OrdFrom_append]
    refine ⟨ord1, ?_⟩
    apply OrdFrom_mono n2 [] ([] ++ n1) (by simp) _ ord2
    intro x _ c hc
    rcases (m1 c).mp hc with h | h
    · exact Or.inl h
    · exact Or.inr (Or.inl (by simpa using h))
  · intro r' hr'
    rcases List.mem_cons.mp hr' with h | h
    · subst h; exact (m2 r').mpr (Or.inl (rt1 r' (List.mem_singleton.mpr rfl)))
    · exact rt2 r' h

theorem foldE_post {succ : α → Option (List α)} {f : α → List α × List α → Except (DfsErr α) (List α × List α)}
    (hf : ∀ n vis out vis' out', f n (vis, out) = .ok (vis', out') → Post succ [n] vis out vis' out') :
    ∀ (rs : List α) vis out vis' out', foldE f rs (vis, out) = .ok (vis', out') → Post succ rs vis out vis' out' := by
  intro rs
  induction rs with
  | nil =>
    intro vis out vis' out' h
    simp only [foldE] at h
    injection h with h; injection h with h1 h2; subst h1; subst h2
    exact post_nil succ vis out
  | cons r rs ih =>
    intro vis out vis' out' h
    simp only [foldE] at h
    split at h
    · exact absurd h (by simp)
    · rename_i s' heq
      obtain ⟨v1, o1⟩ := s'
      exact post_cons (hf r vis out v1 o1 heq) (ih v1 o1 vis' out' h)

/-- THE shared DFS invariant. -/
theorem dfs_post (succ : α → Option (List α)) :
    ∀ (fuel : Nat) (n : α) (vis out vis' out' : List α),
      dfs succ fuel n (vis, out) = .ok (vis', out') → Post succ [n] vis out vis' out' := by
  intro fuel
  induction fuel with
  | zero => intro n vis out vis' out' h; simp [dfs] at h
  | succ fuel ih =>
    intro n vis out vis' out' h
    simp only [dfs] at h
    split at h
    · rename_i hmem
      injection h with h; injection h with h1 h2; subst h1; subst h2
      refine ⟨⟨[], by simp, by simp, by simp, List.nodup_nil, by simp, by simp, trivial⟩, ?_⟩
      intro r hr; simp only [List.mem_singleton] at hr; subst hr; exact hmem
    · rename_i hnot
      split at h
      · exact absurd h (by simp)
      · rename_i cs hs
        split at h
        · exact absurd h (by simp)
        · rename_i v1 o1 hfold
          injection h with h; injection h with h1 h2; subst h1; subst h2
          have hp := foldE_post (succ := succ) (f := dfs succ fuel) (fun m a b c d hh => ih m a b c d hh) cs (n :: vis) out v1 o1 hfold
          obtain ⟨⟨nw, e1, m1, d1, nd1, r1, c1, ord1⟩, rt1⟩ := hp
          have hn_notin : n ∉ nw := fun hh => d1 n hh List.mem_cons_self
          refine ⟨⟨nw ++ [n], ?_, ?_, ?_, ?_, ?_, ?_, ?_⟩, ?_⟩
          · rw [e1, List.append_assoc]
          · intro x; rw [m1]
            have e : x ∈ nw ++ [n] ↔ x ∈ nw ∨ x = n := by simp
            rw [e, List.mem_cons]
            constructor
            · rintro ((h | h) | h)
              · exact Or.inr (Or.inr h)
              · exact Or.inl h
              · exact Or.inr (Or.inl h)
            · rintro (h | h | h)
              · exact Or.inl (Or.inr h)
              · exact Or.inr h
              · exact Or.inl (Or.inl h)
          · intro x hx
            rcases List.mem_append.mp hx with h | h
            · exact fun hv => d1 x h (List.mem_cons_of_mem _ hv)
            · simp only [List.mem_singleton] at h; subst h; exact hnot
          · rw [List.nodup_append]
            refine ⟨nd1, by simp, ?_⟩
            intro a ha b hb hab
            simp only [List.mem_singleton] at hb
            subst hb; subst hab
            exact hn_notin ha
          · intro x hx
            refine ⟨n, List.mem_singleton.mpr rfl, ?_⟩
            rcases List.mem_append.mp hx with h | h
            · obtain ⟨c, hc, hr⟩ := r1 x h
              exact Reach.head hs hc hr
            · simp only [List.mem_singleton] at h; subst h; exact Reach.refl _
          · intro x hx
            rcases List.mem_append.mp hx with h | h
            · exact c1 x h
            · simp only [List.mem_singleton] at h; subst h
              exact ⟨cs, hs, fun c hc => rt1 c hc⟩
          · rw [OrdFrom_append]
            refine ⟨?_, ?_⟩
            · apply OrdFrom_mono nw [] [] (fun _ h => h) _ ord1
              intro x hx c hc
              rcases List.mem_cons.mp hc with h | h
              · subst h
                obtain ⟨c', hc', hr⟩ := r1 x hx
                exact Or.inr (Or.inr (Reach.head hs hc' hr))
              · exact Or.inl h
            · refine ⟨?_, trivial⟩
              intro cs' hs' c hc
              rw [hs] at hs'; injection hs' with hs'; subst hs'
              rcases (m1 c).mp (rt1 c hc) with h | h
              · rcases List.mem_cons.mp h with h | h
                · subst h; exact Or.inr (Or.inr (Reach.refl _))
                · exact Or.inl h
              · exact Or.inr (Or.inl (by simpa using h))
          · intro r hr; simp only [List.mem_singleton] at hr; subst hr
            exact (m1 r).mpr (Or.inl List.mem_cons_self)

theorem dfsRoots_post (succ : α → Option (List α)) (fuel : Nat) (roots vis' out' : List α)
    (h : dfsRoots succ fuel roots = .ok (vis', out')) : Post succ roots [] [] vis' out' :=
  foldE_post (succ := succ) (f := dfs succ fuel) (fun m a b c d hh => dfs_post succ fuel m a b c d hh) roots [] [] vis' out' h

end BufModel.Graph
