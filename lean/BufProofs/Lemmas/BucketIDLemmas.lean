import BufModel.BucketID
/-
  Helper lemmas for Props/C10BucketID.lean: decimal suffixes, the membership characterisation of
  the `bucketIDsForDirPaths` loop, `hasDuplicates` vs `Nodup`, the two insertion sorts.
-/
namespace BufModel.BucketID
open BufModel.Path BufModel.Graph

/-! ### decimal suffixes -/

theorem bid_dec_digit {n : Nat} {c : Char} (h : c ∈ dec n) : c.isDigit = true :=
  Nat.isDigit_of_mem_toDigits (by decide) (by decide) h

theorem bid_dec_no_dash {n : Nat} {c : Char} (h : c ∈ dec n) : c ≠ '-' := by
  intro e
  have := bid_dec_digit h
  rw [e] at this
  exact absurd this (by decide)

theorem bid_dec_inj {a b : Nat} (h : dec a = dec b) : a = b := by
  have ha := @Nat.ofDigitChars_ten_toDigits a
  have hb := @Nat.ofDigitChars_ten_toDigits b
  unfold dec at h
  rw [h] at ha
  exact ha.symm.trans hb

/-- cutting at the FIRST separator is unambiguous. -/
theorem bid_split_first (sep : Char) : ∀ (a b x y : Str), (∀ c ∈ a, c ≠ sep) → (∀ c ∈ b, c ≠ sep) →
    a ++ sep :: x = b ++ sep :: y → a = b ∧ x = y
  | [], [], _, _, _, _, h => by
    simp only [List.nil_append, List.cons.injEq, true_and] at h
    exact ⟨rfl, h⟩
  | [], d :: ds, _, _, _, hb, h => by
    simp only [List.nil_append, List.cons_append, List.cons.injEq] at h
    exact absurd h.1.symm (hb d (List.mem_cons_self))
  | c :: cs, [], _, _, ha, _, h => by
    simp only [List.nil_append, List.cons_append, List.cons.injEq] at h
    exact absurd h.1 (ha c (List.mem_cons_self))
  | c :: cs, d :: ds, x, y, ha, hb, h => by
    simp only [List.cons_append, List.cons.injEq] at h
    have := bid_split_first sep cs ds x y (fun e he => ha e (List.mem_cons_of_mem _ he))
      (fun e he => hb e (List.mem_cons_of_mem _ he)) h.2
    exact ⟨by rw [h.1, this.1], this.2⟩

/-- cutting at the LAST separator is unambiguous. -/
theorem bid_split_last (sep : Char) (p q x y : Str) (hx : ∀ c ∈ x, c ≠ sep) (hy : ∀ c ∈ y, c ≠ sep)
    (h : p ++ sep :: x = q ++ sep :: y) : p = q ∧ x = y := by
  have hr : x.reverse ++ sep :: p.reverse = y.reverse ++ sep :: q.reverse := by
    have := congrArg List.reverse h
    simpa [List.reverse_append, List.reverse_cons, List.append_assoc] using this
  have := bid_split_first sep x.reverse y.reverse p.reverse q.reverse
    (fun c hc => hx c (List.mem_reverse.mp hc)) (fun c hc => hy c (List.mem_reverse.mp hc)) hr
  exact ⟨List.reverse_inj.mp this.2, List.reverse_inj.mp this.1⟩

/-- `fmt.Sprintf("%s-%d", p, k)` determines both `p` and `k` — whatever `p` contains. -/
theorem bid_suffixed_inj {p q : Str} {k j : Nat} (h : suffixed p k = suffixed q j) : p = q ∧ k = j := by
  unfold suffixed at h
  have := bid_split_last '-' p q (dec k) (dec j) (fun c hc => bid_dec_no_dash hc) (fun c hc => bid_dec_no_dash hc) h
  exact ⟨this.1, bid_dec_inj this.2⟩

theorem bid_suffixed_ne_self (p : Str) (k : Nat) : suffixed p k ≠ p := by
  intro h
  have := congrArg List.length h
  unfold suffixed at this
  simp only [List.length_append, List.length_cons] at this
  omega

/-! ### the running count -/

theorem bid_runningCount_zero {p : Str} : ∀ {l : List Str}, p ∉ l → runningCount p l = 0
  | [], _ => rfl
  | q :: qs, h => by
    have hq : q ≠ p := fun e => h (e ▸ List.mem_cons_self)
    have := bid_runningCount_zero (l := qs) (fun hm => h (List.mem_cons_of_mem _ hm))
    simp only [runningCount, if_neg hq, this]

theorem bid_runningCount_pos {p : Str} : ∀ {l : List Str}, p ∈ l → 0 < runningCount p l
  | q :: qs, h => by
    by_cases hq : q = p
    · simp only [runningCount, if_pos hq]; omega
    · have hm : p ∈ qs := by
        rcases List.mem_cons.mp h with e | e
        · exact absurd e.symm hq
        · exact e
      have := bid_runningCount_pos hm
      simp only [runningCount, if_neg hq]; omega

theorem bid_runningCount_cons_self (p : Str) (l : List Str) : runningCount p (p :: l) = runningCount p l + 1 := by
  simp only [runningCount, if_true]; omega

theorem bid_runningCount_cons_ne {p q : Str} (h : q ≠ p) (l : List Str) : runningCount p (q :: l) = runningCount p l := by
  simp only [runningCount, if_neg h]; omega

/-- moving the head of the remaining paths into `seen` keeps every total. -/
theorem bid_runningCount_shift (q p : Str) (seen ps : List Str) :
    runningCount q (p :: seen) + runningCount q ps = runningCount q seen + runningCount q (p :: ps) := by
  by_cases h : p = q
  · subst h; rw [bid_runningCount_cons_self, bid_runningCount_cons_self]; omega
  · rw [bid_runningCount_cons_ne h, bid_runningCount_cons_ne h]

/-! ### the loop -/

theorem bid_idsFrom_length (f : Bool) : ∀ (seen ps : List Str), (idsFrom f seen ps).length = ps.length
  | _, [] => rfl
  | seen, p :: ps => by simp only [idsFrom, List.length_cons, bid_idsFrom_length f (p :: seen) ps]

/-- every id the loop emits is the id of the k-th module at some remaining DirPath `q`, with `k`
    beyond what was counted before and within the total. -/
theorem bid_mem_idsFrom (f : Bool) : ∀ (seen ps : List Str) (x : Str), x ∈ idsFrom f seen ps →
    ∃ q k, q ∈ ps ∧ x = bucketIDAt f q k ∧ runningCount q seen < k ∧ k ≤ runningCount q seen + runningCount q ps
  | _, [], x, h => by cases h
  | seen, p :: ps, x, h => by
    simp only [idsFrom, List.mem_cons] at h
    rcases h with e | hm
    · refine ⟨p, runningCount p seen + 1, List.mem_cons_self, e, by omega, ?_⟩
      rw [bid_runningCount_cons_self]; omega
    · obtain ⟨q, k, hq, hx, h1, h2⟩ := bid_mem_idsFrom f (p :: seen) ps x hm
      refine ⟨q, k, List.mem_cons_of_mem _ hq, hx, ?_, ?_⟩
      · by_cases hp : p = q
        · subst hp; rw [bid_runningCount_cons_self] at h1; omega
        · rw [bid_runningCount_cons_ne hp] at h1; exact h1
      · have := bid_runningCount_shift q p seen ps; omega

theorem bid_hasDuplicates_false : ∀ {l : List Str}, hasDuplicates l = false → l.Nodup
  | [], _ => List.nodup_nil
  | x :: xs, h => by
    simp only [hasDuplicates, Bool.or_eq_false_iff, decide_eq_false_iff_not] at h
    exact List.nodup_cons.mpr ⟨h.1, bid_hasDuplicates_false h.2⟩

theorem bid_hasDuplicates_of_nodup : ∀ {l : List Str}, l.Nodup → hasDuplicates l = false
  | [], _ => rfl
  | x :: xs, h => by
    have := List.nodup_cons.mp h
    simp only [hasDuplicates, Bool.or_eq_false_iff, decide_eq_false_iff_not]
    exact ⟨this.1, bid_hasDuplicates_of_nodup this.2⟩

/-- the second pass (every DirPath suffixed) never produces a duplicate. -/
theorem bid_idsFrom_true_nodup : ∀ (seen ps : List Str), (idsFrom true seen ps).Nodup
  | _, [] => List.nodup_nil
  | seen, p :: ps => by
    simp only [idsFrom]
    refine List.nodup_cons.mpr ⟨?_, bid_idsFrom_true_nodup (p :: seen) ps⟩
    intro hm
    obtain ⟨q, k, _, hx, h1, _⟩ := bid_mem_idsFrom true (p :: seen) ps _ hm
    have hl : bucketIDAt true p (runningCount p seen + 1) = suffixed p (runningCount p seen + 1) := by
      unfold bucketIDAt; simp
    have hr : bucketIDAt true q k = suffixed q k := by
      unfold bucketIDAt; simp
    rw [hl, hr] at hx
    obtain ⟨e1, e2⟩ := bid_suffixed_inj hx
    subst e1
    rw [bid_runningCount_cons_self] at h1
    omega

/-- the first pass is the identity on DirPaths that are pairwise distinct (and not seen before). -/
theorem bid_idsFrom_false_distinct : ∀ (seen ps : List Str), ps.Nodup → (∀ p ∈ ps, p ∉ seen) →
    idsFrom false seen ps = ps
  | _, [], _, _ => rfl
  | seen, p :: ps, hn, hs => by
    have hn' := List.nodup_cons.mp hn
    have h0 : runningCount p seen = 0 := bid_runningCount_zero (hs p List.mem_cons_self)
    simp only [idsFrom, h0]
    have hid : bucketIDAt false p (0 + 1) = p := by unfold bucketIDAt; simp
    rw [hid]
    congr 1
    apply bid_idsFrom_false_distinct (p :: seen) ps hn'.2
    intro q hq hmem
    rcases List.mem_cons.mp hmem with e | e
    · exact hn'.1 (e ▸ hq)
    · exact hs q (List.mem_cons_of_mem _ hq) e

/-- no directory is literally named like the suffixed id of a repeated DirPath. -/
def NoClash (seen ps : List Str) : Prop :=
  ∀ p k, 2 ≤ k → k ≤ runningCount p seen + runningCount p ps → suffixed p k ∉ seen ∧ suffixed p k ∉ ps

theorem bid_noClash_shift {p : Str} {seen ps : List Str} (h : NoClash seen (p :: ps)) : NoClash (p :: seen) ps := by
  intro q k hk hle
  have hle' : k ≤ runningCount q seen + runningCount q (p :: ps) := by
    have := bid_runningCount_shift q p seen ps; omega
  obtain ⟨h1, h2⟩ := h q k hk hle'
  refine ⟨?_, fun hm => h2 (List.mem_cons_of_mem _ hm)⟩
  intro hm
  rcases List.mem_cons.mp hm with e | e
  · exact h2 (e ▸ List.mem_cons_self)
  · exact h1 e

/-- without such a clash the first pass is already duplicate free. -/
theorem bid_idsFrom_false_nodup : ∀ (seen ps : List Str), NoClash seen ps → (idsFrom false seen ps).Nodup
  | _, [], _ => List.nodup_nil
  | seen, p :: ps, hc => by
    simp only [idsFrom]
    refine List.nodup_cons.mpr ⟨?_, bid_idsFrom_false_nodup (p :: seen) ps (bid_noClash_shift hc)⟩
    intro hm
    obtain ⟨q, k, hq, hx, h1, h2⟩ := bid_mem_idsFrom false (p :: seen) ps _ hm
    have h2' : k ≤ runningCount q seen + runningCount q (p :: ps) := by
      have := bid_runningCount_shift q p seen ps; omega
    have hk0 : 0 < k := by omega
    -- the head
    by_cases hp0 : runningCount p seen = 0
    · have hl : bucketIDAt false p (runningCount p seen + 1) = p := by
        unfold bucketIDAt; simp [hp0]
      rw [hl] at hx
      by_cases hk1 : k = 1
      · -- plain q = p although q was not counted in p :: seen
        have hr : bucketIDAt false q k = q := by unfold bucketIDAt; simp [hk1]
        rw [hr] at hx
        subst hx
        rw [bid_runningCount_cons_self] at h1
        omega
      · have hr : bucketIDAt false q k = suffixed q k := by
          unfold bucketIDAt; simp [hk1]
        rw [hr] at hx
        exact (hc q k (by omega) h2').2 (hx ▸ List.mem_cons_self)
    · have hl : bucketIDAt false p (runningCount p seen + 1) = suffixed p (runningCount p seen + 1) := by
        unfold bucketIDAt
        have : ¬ (runningCount p seen + 1 = 1 ∧ false = false) := by omega
        rw [if_neg this]
      rw [hl] at hx
      by_cases hk1 : k = 1
      · have hr : bucketIDAt false q k = q := by unfold bucketIDAt; simp [hk1]
        rw [hr] at hx
        have hle : runningCount p seen + 1 ≤ runningCount p seen + runningCount p (p :: ps) := by
          rw [bid_runningCount_cons_self]; omega
        exact (hc p (runningCount p seen + 1) (by omega) hle).2 (hx ▸ List.mem_cons_of_mem _ hq)
      · have hr : bucketIDAt false q k = suffixed q k := by
          unfold bucketIDAt; simp [hk1]
        rw [hr] at hx
        obtain ⟨e1, e2⟩ := bid_suffixed_inj hx
        subst e1
        rw [bid_runningCount_cons_self] at h1
        omega

/-! ### the sorts are permutations -/

theorem bid_insertStable_perm {β : Type} (key : β → Str) (x : β) : ∀ l : List β, (insertStable key x l).Perm (x :: l)
  | [] => List.Perm.refl _
  | y :: ys => by
    unfold insertStable
    split
    · exact (List.Perm.cons y (bid_insertStable_perm key x ys)).trans (List.Perm.swap x y ys)
    · exact List.Perm.refl _

theorem bid_sortStable_perm {β : Type} (key : β → Str) : ∀ l : List β, (sortStable key l).Perm l
  | [] => List.Perm.refl _
  | x :: xs => (bid_insertStable_perm key x _).trans (List.Perm.cons x (bid_sortStable_perm key xs))

theorem bid_insertIdx_perm {β : Type} (x : Nat × β) : ∀ l : List (Nat × β), (insertIdx x l).Perm (x :: l)
  | [] => List.Perm.refl _
  | y :: ys => by
    unfold insertIdx
    split
    · exact (List.Perm.cons y (bid_insertIdx_perm x ys)).trans (List.Perm.swap x y ys)
    · exact List.Perm.refl _

theorem bid_sortIdx_perm {β : Type} : ∀ l : List (Nat × β), (sortIdx l).Perm l
  | [] => List.Perm.refl _
  | x :: xs => (bid_insertIdx_perm x _).trans (List.Perm.cons x (bid_sortIdx_perm xs))

/-! ### OpaqueIDs -/

theorem bid_opaqueIDs_length : ∀ (ids : List Str) (ns : List (Option Str)), ids.length = ns.length →
    (opaqueIDs ids ns).length = ids.length
  | [], [], _ => rfl
  | [], _ :: _, h => by cases h
  | _ :: _, [], h => by cases h
  | i :: ids, n :: ns, h => by
    simp only [opaqueIDs, List.length_cons]
    rw [bid_opaqueIDs_length ids ns (by simpa using h)]

/-- an OpaqueID is a name of the list or a BucketID of the list. -/
theorem bid_mem_opaqueIDs : ∀ (ids : List Str) (ns : List (Option Str)) (x : Str), x ∈ opaqueIDs ids ns →
    some x ∈ ns ∨ x ∈ ids
  | [], _, x, h => by simp [opaqueIDs] at h
  | _ :: _, [], x, h => by simp [opaqueIDs] at h
  | i :: ids, n :: ns, x, h => by
    simp only [opaqueIDs, List.mem_cons] at h
    rcases h with e | hm
    · cases n with
      | none => right; simp only [Option.getD_none] at e; rw [e]; exact List.mem_cons_self
      | some v => left; simp only [Option.getD_some] at e; rw [e]; exact List.mem_cons_self
    · rcases bid_mem_opaqueIDs ids ns x hm with h1 | h1
      · left; exact List.mem_cons_of_mem _ h1
      · right; exact List.mem_cons_of_mem _ h1

/-- the names that are present, in order. -/
def someNames : List (Option Str) → List Str
  | [] => []
  | none :: ns => someNames ns
  | some v :: ns => v :: someNames ns

theorem bid_mem_someNames : ∀ {ns : List (Option Str)} {x : Str}, some x ∈ ns ↔ x ∈ someNames ns
  | [], x => by simp [someNames]
  | none :: ns, x => by
    simp only [someNames, List.mem_cons, reduceCtorEq, false_or]
    exact bid_mem_someNames
  | some v :: ns, x => by
    simp only [someNames, List.mem_cons, Option.some.injEq]
    rw [bid_mem_someNames (ns := ns)]

/-- distinct BucketIDs, distinct names and no name that is also a BucketID give distinct OpaqueIDs. -/
theorem bid_opaqueIDs_nodup : ∀ (ids : List Str) (ns : List (Option Str)), ids.Nodup → (someNames ns).Nodup →
    (∀ v ∈ someNames ns, v ∉ ids) → (opaqueIDs ids ns).Nodup
  | [], _, _, _, _ => by simp [opaqueIDs]
  | _ :: _, [], _, _, _ => by simp [opaqueIDs]
  | i :: ids, n :: ns, hi, hn, hd => by
    simp only [opaqueIDs]
    have hi' := List.nodup_cons.mp hi
    cases n with
    | none =>
      simp only [someNames] at hn hd
      refine List.nodup_cons.mpr ⟨?_, bid_opaqueIDs_nodup ids ns hi'.2 hn (fun v hv hm => hd v hv (List.mem_cons_of_mem _ hm))⟩
      intro hm
      simp only [Option.getD_none] at hm
      rcases bid_mem_opaqueIDs ids ns i hm with h1 | h1
      · exact hd i (bid_mem_someNames.mp h1) List.mem_cons_self
      · exact hi'.1 h1
    | some v =>
      simp only [someNames] at hn hd
      have hn' := List.nodup_cons.mp hn
      refine List.nodup_cons.mpr ⟨?_, bid_opaqueIDs_nodup ids ns hi'.2 hn'.2
        (fun w hw hm => hd w (List.mem_cons_of_mem _ hw) (List.mem_cons_of_mem _ hm))⟩
      intro hm
      simp only [Option.getD_some] at hm
      rcases bid_mem_opaqueIDs ids ns v hm with h1 | h1
      · exact hn'.1 (bid_mem_someNames.mp h1)
      · exact hd v List.mem_cons_self (List.mem_cons_of_mem _ h1)

/-! ### buf.work.yaml -/

/-- the first loop of `validateBufWorkYAMLDirPaths` only ever returns a duplicate-free key set. -/
theorem bid_v1Collect_nodup : ∀ (ds seen out : List Str), seen.Nodup → v1Collect seen ds = .ok out → out.Nodup
  | [], seen, out, hs, h => by
    simp only [v1Collect, Except.ok.injEq] at h
    exact h ▸ hs
  | d :: ds, seen, out, hs, h => by
    unfold v1Collect at h
    split at h
    · cases h
    · rename_i n _
      split at h
      · cases h
      · rename_i hns
        split at h
        · cases h
        · exact bid_v1Collect_nodup ds (n :: seen) out (List.nodup_cons.mpr ⟨hns, hs⟩) h

/-! ### the workspace level -/

theorem bid_bucketIDsV2_length (paths : List Str) : (bucketIDsV2 paths).length = paths.length := by
  unfold bucketIDsV2 bucketIDsForDirPaths
  simp only
  split <;> exact bid_idsFrom_length _ _ _

theorem bid_v2Sorted_length (dirs : List (Str × Option Str)) : (v2Sorted dirs).length = dirs.length := by
  have := (bid_sortStable_perm (fun x : Nat × Str × Option Str => x.2.1) (dirs.zipIdx.map (fun x => (x.2, x.1.1, x.1.2)))).length_eq
  unfold v2Sorted
  rw [this, List.length_map, List.length_zipIdx]

theorem bid_v2SortedIDs_fst (dirs : List (Str × Option Str)) :
    (v2SortedIDs dirs).map (fun x => x.1) = bucketIDsV2 ((v2Sorted dirs).map (fun x => x.2.1)) := by
  unfold v2SortedIDs
  simp only
  apply List.map_fst_zip
  rw [bid_opaqueIDs_length _ _ (by rw [bid_bucketIDsV2_length, List.length_map, List.length_map])]
  exact Nat.le_refl _

theorem bid_v2SortedIDs_snd (dirs : List (Str × Option Str)) :
    (v2SortedIDs dirs).map (fun x => x.2) =
      opaqueIDs (bucketIDsV2 ((v2Sorted dirs).map (fun x => x.2.1))) ((v2Sorted dirs).map (fun x => x.2.2)) := by
  unfold v2SortedIDs
  simp only
  apply List.map_snd_zip
  rw [bid_opaqueIDs_length _ _ (by rw [bid_bucketIDsV2_length, List.length_map, List.length_map])]
  exact Nat.le_refl _

theorem bid_v2SortedIDs_length (dirs : List (Str × Option Str)) : (v2SortedIDs dirs).length = dirs.length := by
  have := congrArg List.length (bid_v2SortedIDs_fst dirs)
  rw [List.length_map, bid_bucketIDsV2_length, List.length_map, bid_v2Sorted_length] at this
  exact this

/-- handing the ids back in buf.yaml order only permutes them. -/
theorem bid_v2_ids_perm (dirs : List (Str × Option Str)) : (v2IDs dirs).Perm (v2SortedIDs dirs) := by
  unfold v2IDs
  have hp := (bid_sortIdx_perm (((v2Sorted dirs).map (fun x => x.1)).zip (v2SortedIDs dirs))).map (fun x => x.2)
  refine hp.trans ?_
  have : (((v2Sorted dirs).map (fun x => x.1)).zip (v2SortedIDs dirs)).map (fun x => x.2) = v2SortedIDs dirs := by
    apply List.map_snd_zip
    rw [List.length_map, bid_v2Sorted_length, bid_v2SortedIDs_length]
    exact Nat.le_refl _
  rw [this]


end BufModel.BucketID
