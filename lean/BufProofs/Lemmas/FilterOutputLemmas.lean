import BufProofs.Lemmas.FilterIndexLemmas
/-
  C12 — from the closure to the OUTPUT of `filterWith cfgFixed`:
    * a second run invariant (`SInv`): an extension is never marked enclosing-only, and a visited
      extension's extendee is not excluded (with the stack invariant `StackOK`);
    * the keys an exclude list names (`ExclKey`) are excluded in the final closure;
    * where every component of the output comes from (`origin_*`): present ids are `has`, kept
      fields / extensions / methods are index entries with `has` types.
-/
namespace BufProofs.FilterOutput
open BufModel.Filter BufProofs.FilterLemmas BufProofs.FilterClosure BufProofs.FilterRewrite BufProofs.FilterIndex

/-! ### the second run invariant -/

/-- every `encl` task on the stack names a key that resolves to a non-extension entry -/
def StackOK (c : Ctx) (ts : List Task) : Prop := ∀ p file, Task.encl (some p) file ∈ ts → PKey c p

structure SInv (c : Ctx) (st : St) : Prop where
  noEncl : ∀ k, rk st k = 1 → PKey c k
  ext : ∀ k i f e, c.idx.find k = some i → i.kind = .ext → i.fld = some f → f.extendee = some e →
    NonExt c (.el e) → 2 ≤ rk st k → rk st k ≤ 3 → rk st (.el e) ≠ 4

theorem sinv_of_unch (c : Ctx) (st st1 : St) (hle : Le c st st1)
    (hu : ∀ k, rk st1 k = rk st k ∨ rk st1 k = 4 ∨ 2 ≤ rk st k) (hs : SInv c st) : SInv c st1 := by
  constructor
  · intro k h1
    have hm := hle.mono k
    rcases hu k with h | h | h
    · exact hs.noEncl k (by omega)
    · omega
    · omega
  · intro k i f e hi hk hf he hne h2 h3 h4
    have h4' := hle.frozen _ hne h4
    have hm := hle.mono k
    rcases hu k with h | h | h
    · exact hs.ext k i f e hi hk hf he hne (by omega) (by omega) h4'
    · omega
    · exact hs.ext k i f e hi hk hf he hne h (by omega) h4'

theorem sinv_of_onlyExcl (c : Ctx) (st : St) (h : OnlyExcl st) : SInv c st := by
  have h04 : ∀ k, rk st k = 0 ∨ rk st k = 4 := by
    intro k
    rcases h k with h | h <;> rw [rk_of_get h] <;> simp [rank]
  constructor
  · intro k h1; rcases h04 k with h | h <;> omega
  · intro k i f e _ _ _ _ _ h2 h3; rcases h04 k with h | h <;> omega

theorem stackOK_postTasks (c : Ctx) (hwf : ∀ j ∈ c.idx, ∀ p, j.parent = some p → PKey c p) (k : Key) (i : Info) (hi : c.idx.find k = some i)
    (ref : Option Id) : StackOK c (postTasks i ref) := by
  intro p file hm
  simp only [postTasks, List.mem_cons, List.mem_nil_iff, or_false, reduceCtorEq, false_or, Task.encl.injEq] at hm
  exact hwf i (find_mem hi) p hm.1.symm

theorem stackOK_oneofsStep (c : Ctx) (st : St) (i : Info) (os : List Oneof) (n : Nat) :
    StackOK c (oneofsStep st i os n).2 := by
  induction os generalizing st n with
  | nil => intro p file hm; cases hm
  | cons o os ih =>
    rw [oneofsStep_cons]
    split
    · exact ih _ _
    · intro p file hm
      simp only [List.mem_cons, reduceCtorEq, false_or] at hm
      exact ih _ _ p file hm

theorem step_inv (c : Ctx) (hwf : ∀ j ∈ c.idx, ∀ p, j.parent = some p → PKey c p) (hcfg : c.cfg.svcMarksInput = false) (st st1 : St) (t : Task)
    (new : List Task) (h : step c st t = .ok (st1, new)) (ht : StackOK c [t]) (hs : SInv c st) :
    SInv c st1 ∧ StackOK c new := by
  have hle := step_le c hcfg st st1 t new h
  cases t with
  | add k ref implied =>
    obtain ⟨i, hi, hc⟩ := step_add_cases c st st1 k ref implied new h
    rcases hc with ⟨_, rfl, rfl⟩ | ⟨_, rfl, rfl⟩ | ⟨hm, rfl, rfl⟩ | ⟨hk, he⟩
    · exact ⟨hs, fun p file hm => by cases hm⟩
    · exact ⟨sinv_of_unch c _ _ hle (fun _ => Or.inl (rk_addImport _ _ _ _)) hs, fun p file hm => by cases hm⟩
    · refine ⟨sinv_of_unch c _ _ hle ?_ hs, fun p file hm => by cases hm⟩
      intro k'
      rw [rk_addImport]
      split
      · exact Or.inl rfl
      · rw [rk_set]
        split
        · rename_i e; right; right; rw [e, rk_of_get hm]; simp [rank]
        · exact Or.inl rfl
    · -- expansion
      have hother : ∀ k', k' ≠ k → rk (st.set k (newMode implied)) k' = rk st k' := by
        intro k' hne; rw [rk_set]; simp [hne]
      have hr2 : 2 ≤ rk (st.set k (newMode implied)) k := by
        rw [rk_set]; cases implied <;> simp [newMode, rank]
      have hle2 := expand_le c _ st1 k ref implied i new hi he
      have hk2 : 2 ≤ rk st1 k := Nat.le_trans hr2 (hle2.mono k)
      -- what the expansion does to the ranks of the other keys, and to an extension's extendee
      have hcases := expand_cases c _ st1 k ref implied i new he
      have hoth1 : ∀ k', k' ≠ k → rk st1 k' = rk st k' := by
        intro k' hne
        rcases hcases with ⟨_, rfl, _⟩ | ⟨_, rfl, _⟩ | ⟨_, rfl, _⟩ | ⟨_, rfl, _⟩ | ⟨_, rfl, _⟩ | ⟨_, f, e, _, _, hx⟩
        any_goals exact hother k' hne
        rcases hx with ⟨_, rfl, _⟩ | ⟨_, rfl, _⟩
        · rw [rk_set]; simp only [hne, if_false]; exact hother k' hne
        · exact hother k' hne
      constructor
      · constructor
        · intro k' h1
          have hne : k' ≠ k := by intro e; rw [e] at h1; omega
          rw [hoth1 k' hne] at h1
          exact hs.noEncl k' h1
        · intro k' i' f e hi' hkind hf hfe hne h2 h3 h4
          have h4' := hle.frozen _ hne h4
          by_cases ek : k' = k
          · subst ek
            rw [hi] at hi'; cases hi'
            rcases hcases with ⟨hk', _⟩ | ⟨hk', _⟩ | ⟨hk', _⟩ | ⟨hk', _⟩ | ⟨hk', _⟩ | ⟨_, f', e', hf', hfe', hx⟩
            any_goals (rw [hkind] at hk'; cases hk')
            rw [hf] at hf'; cases hf'
            rw [hfe] at hfe'; cases hfe'
            rcases hx with ⟨_, rfl, _⟩ | ⟨hx, rfl, _⟩
            · rw [rk_set] at h3; simp [rank] at h3
            · exact (isExcl_false_iff.mp hx) h4
          · rw [hoth1 k' ek] at h2 h3
            exact hs.ext k' i' f e hi' hkind hf hfe hne h2 h3 h4'
      · intro p file hm
        rcases hcases with ⟨_, _, rfl⟩ | ⟨_, _, rfl⟩ | ⟨_, _, rfl⟩ | ⟨_, _, rfl⟩ | ⟨_, _, _, _, rfl⟩ | ⟨_, f, e, _, _, hx⟩
        · simp only [List.mem_append, List.mem_map, reduceCtorEq, and_false, exists_false, false_or] at hm
          exact stackOK_postTasks c hwf k i hi ref p file hm
        · simp only [List.mem_append, List.mem_map, reduceCtorEq, and_false, exists_false, false_or,
            List.mem_cons, List.mem_nil_iff, or_false] at hm
          exact stackOK_postTasks c hwf k i hi ref p file hm
        · simp only [List.mem_append, List.mem_map, reduceCtorEq, and_false, exists_false, false_or] at hm
          exact stackOK_postTasks c hwf k i hi ref p file hm
        · simp only [List.mem_append, List.mem_map, reduceCtorEq, and_false, exists_false, false_or] at hm
          exact stackOK_postTasks c hwf k i hi ref p file hm
        · simp only [List.mem_append, List.mem_cons, List.mem_nil_iff, reduceCtorEq, or_false, false_or] at hm
          exact stackOK_postTasks c hwf k i hi ref p file hm
        · rcases hx with ⟨_, _, rfl⟩ | ⟨_, _, rfl⟩
          · cases hm
          · simp only [List.mem_cons, List.mem_nil_iff, reduceCtorEq, or_false] at hm
  | field f file =>
    obtain ⟨rfl, hc⟩ := step_field_cases c st st1 f file new h
    refine ⟨hs, ?_⟩
    intro p file' hm
    rcases hc with ⟨_, rfl⟩ | ⟨t, _, _, rfl⟩ | ⟨t, _, _, rfl⟩ <;>
      simp only [List.mem_cons, List.mem_nil_iff, reduceCtorEq, or_false] at hm
  | oneofs k =>
    obtain ⟨i, hi, he⟩ := step_oneofs_cases c st st1 k new h
    have hst1 : st1 = (oneofsStep st i i.oneofs 0).1 := by rw [he]
    have hnew : new = (oneofsStep st i i.oneofs 0).2 := by rw [he]
    constructor
    · apply sinv_of_unch c _ _ hle _ hs
      intro k'
      rw [hst1]
      exact oneofsStep_rk_cases st i i.oneofs 0 k'
    · rw [hnew]; exact stackOK_oneofsStep c st i i.oneofs 0
  | svcMethod m =>
    rcases step_svcMethod_cases c st st1 m new h with ⟨_, rfl, rfl⟩ | ⟨_, _, rfl, rfl⟩
    · rw [hcfg]; exact ⟨hs, fun p file hm => by cases hm⟩
    · refine ⟨hs, ?_⟩
      intro p file hm
      simp only [List.mem_cons, List.mem_nil_iff, reduceCtorEq, or_false] at hm
  | extType k ref =>
    obtain ⟨i, f, hi, hf, hc⟩ := step_extType_cases c st st1 k ref new h
    rcases hc with ⟨_, rfl, rfl⟩ | ⟨t, _, _, rfl, rfl⟩ | ⟨t, _, _, rfl, rfl⟩
    · exact ⟨hs, stackOK_postTasks c hwf k i hi ref⟩
    · refine ⟨sinv_of_unch c _ _ hle ?_ hs, fun p file hm => by cases hm⟩
      intro k'; rw [rk_set]; split
      · right; left; rfl
      · left; rfl
    · refine ⟨hs, ?_⟩
      intro p file hm
      simp only [List.mem_cons, reduceCtorEq, false_or] at hm
      exact stackOK_postTasks c hwf k i hi ref p file hm
  | imp fr to =>
    obtain ⟨rfl, rfl⟩ := step_imp_cases c st st1 fr to new h
    exact ⟨sinv_of_unch c _ _ hle (fun _ => Or.inl (rk_addImport _ _ _ _)) hs, fun p file hm => by cases hm⟩
  | encl q file =>
    rcases step_encl_cases c st st1 q file new h with ⟨rfl, rfl, _⟩ | ⟨k, i, rfl, hk, hi, rfl, rfl⟩
    · exact ⟨hs, fun p file hm => by cases hm⟩
    · have hnk : PKey c k := ht k file (by simp)
      constructor
      · constructor
        · intro k' h1
          by_cases e : k' = k
          · rw [e]; exact hnk
          · rw [rk_set] at h1; simp only [e, if_false] at h1
            exact hs.noEncl k' h1
        · intro k' i' f e hi' hkind hf hfe hne h2 h3 h4
          have h4' := hle.frozen _ hne h4
          have ek : k' ≠ k := by
            intro e'; rw [e', rk_set] at h2; simp [rank] at h2
          rw [rk_set] at h2 h3; simp only [ek, if_false] at h2 h3
          exact hs.ext k' i' f e hi' hkind hf hfe hne h2 h3 h4'
      · intro p file' hm
        simp only [List.mem_cons, List.mem_nil_iff, reduceCtorEq, or_false, false_or, Task.encl.injEq] at hm
        exact hwf i (find_mem hi) p hm.1.symm
  | opts us file =>
    obtain ⟨rfl, hc⟩ := step_opts_cases c st st1 us file new h
    refine ⟨hs, ?_⟩
    intro p file' hm
    rcases hc with ⟨_, rfl⟩ | ⟨_, rfl⟩
    · simp only [List.mem_map, reduceCtorEq, and_false, exists_false] at hm
    · cases hm
  | opt u file =>
    obtain ⟨rfl, hc⟩ := step_opt_cases c st st1 u file new h
    refine ⟨hs, ?_⟩
    intro p file' hm
    rcases hc with ⟨e, _, _, rfl⟩ | ⟨_, rfl⟩
    · cases hm
    · unfold optTasks at hm
      simp only [List.mem_append, List.mem_map, reduceCtorEq, and_false, exists_false, false_or] at hm
      split at hm <;> simp only [List.mem_cons, List.mem_nil_iff, reduceCtorEq, or_false] at hm

theorem run_inv (c : Ctx) (hwf : ∀ j ∈ c.idx, ∀ p, j.parent = some p → PKey c p) (hcfg : c.cfg.svcMarksInput = false) (n : Nat) (st st' : St)
    (ts : List Task) (h : run c n st ts = .ok st') (hs : SInv c st) (ht : StackOK c ts) : SInv c st' := by
  induction n generalizing st ts with
  | zero =>
    cases ts with
    | nil => simp [run] at h; subst h; exact hs
    | cons t ts => simp [run] at h
  | succ n ih =>
    cases ts with
    | nil => simp [run] at h; subst h; exact hs
    | cons t ts =>
      simp only [run] at h
      split at h
      · cases h
      · rename_i st1 new hs1
        obtain ⟨a, b⟩ := step_inv c hwf hcfg st st1 t new hs1
          (fun p file hm => ht p file (by
            simp only [List.mem_cons, List.mem_nil_iff, or_false] at hm; rw [hm]; simp)) hs
        refine ih _ _ h a ?_
        intro p file hm
        rcases List.mem_append.mp hm with hm | hm
        · exact b p file hm
        · exact ht p file (List.mem_cons_of_mem _ hm)

theorem run_add_inv (c : Ctx) (hwf : ∀ j ∈ c.idx, ∀ p, j.parent = some p → PKey c p) (hcfg : c.cfg.svcMarksInput = false) (n : Nat) (st st' : St)
    (k : Key) (ref : Option Id) (imp : Bool) (h : run c n st [.add k ref imp] = .ok st') (hs : SInv c st) :
    SInv c st' :=
  run_inv c hwf hcfg n st st' _ h hs (fun p file hm => by simp at hm)

theorem closure_sinv (cfg : Cfg) (hcfg : cfg.svcMarksInput = false) (img : Image) (o : Opts) (fuel : Nat) (st : St)
    (hu : UniqIdx (buildIndex img)) (h : closure cfg img o fuel = .ok st) :
    SInv ⟨cfg, buildIndex img, o.customOpts⟩ st := by
  have hwf := parent_pkey cfg img o.customOpts hu
  obtain ⟨st0, st1, st2, h0, h1, h2, h3⟩ := closure_phases cfg img o fuel st h
  have ho := excludePhase_onlyExcl _ _ _ _ _ h0 onlyExcl_empty
  let c : Ctx := ⟨cfg, buildIndex img, o.customOpts⟩
  have hrun : ∀ n st st' k ref imp, run c n st [.add k ref imp] = .ok st' → SInv c st → SInv c st' :=
    fun n st st' k ref imp h hs => run_add_inv c hwf hcfg n st st' k ref imp h hs
  have g0 : SInv c st0 := sinv_of_onlyExcl c st0 ho
  have g1 : SInv c st1 := by
    refine foldlE_pres (SInv c) _ ?_ _ _ _ g0 h1
    intro b a b' hb hh
    unfold includeType at hh
    split at hh
    · leaves hh
      exact hrun _ _ _ _ _ _ hh hb
    · leaves hh
      refine foldlE_pres (SInv c) _ ?_ _ _ _ hb hh
      intro b2 f b2' hb2 hh2
      unfold includeFile at hh2
      split at hh2
      · cases hh2
      · exact hrun _ _ _ _ _ _ hh2 hb2
  have g2 : SInv c st2 := by
    split at h2
    · unfold includeEverything at h2
      refine foldlE_pres (SInv c) _ ?_ _ _ _ g1 h2
      intro b a b' hb hh
      leaves hh
      · cases hh; exact hb
      · cases hh; exact hb
      · exact hrun _ _ _ _ _ _ hh hb
    · cases h2; exact g1
  split at h3
  · unfold addExtensions at h3
    refine foldlE_pres (SInv c) _ ?_ _ _ _ g2 h3
    intro b a b' hb hh
    refine foldlE_pres (SInv c) _ ?_ _ _ _ hb hh
    intro b2 a2 b2' hb2 hh2
    split at hh2
    · cases hh2; exact hb2
    · exact hrun _ _ _ _ _ _ hh2 hb2
  · cases h3; exact g2

/-! ### the keys an exclude list names are excluded in the final closure -/

/-- the keys exclude `n` names: the element `n` and its indexed descendants, or — when `n` is a
    package — the files of that package with everything they declare -/
def ExclKeyOf (img : Image) (idx : Index) (n : Id) (k : Key) : Prop :=
  (∃ i, idx.find (.el n) = some i ∧ k ∈ i.key :: i.desc) ∨
  (idx.find (.el n) = none ∧ ∃ f ∈ filesOfPkg img n, ∃ i, idx.find (.file f.id) = some i ∧ k ∈ i.key :: i.desc)

def ExclKey (img : Image) (o : Opts) (k : Key) : Prop := ∃ n ∈ o.excludes, ExclKeyOf img (buildIndex img) n k

def exclFile (idx : Index) (st : St) (f : File) : St :=
  match idx.find (.file f.id) with
  | some i => exclKeys st (i.key :: i.desc)
  | none => st

theorem exclFile_exclLe (idx : Index) (st : St) (f : File) : ExclLe st (exclFile idx st f) := by
  unfold exclFile; split
  · exact exclKeys_exclLe _ _
  · exact ExclLe.refl _

theorem exclFile_onlyExcl (idx : Index) (st : St) (f : File) (h : OnlyExcl st) : OnlyExcl (exclFile idx st f) := by
  unfold exclFile; split
  · exact exclKeys_onlyExcl _ _ h
  · exact h

theorem foldl_exclFile (idx : Index) (fs : List File) (st : St) (ho : OnlyExcl st) :
    ExclLe st (fs.foldl (exclFile idx) st) ∧
    ∀ f ∈ fs, ∀ i, idx.find (.file f.id) = some i → ∀ k ∈ i.key :: i.desc,
      (fs.foldl (exclFile idx) st).get k = some .excluded := by
  induction fs generalizing st with
  | nil => exact ⟨ExclLe.refl _, fun f hf => by cases hf⟩
  | cons a as ih =>
    simp only [List.foldl_cons]
    obtain ⟨l, e⟩ := ih (exclFile idx st a) (exclFile_onlyExcl idx st a ho)
    refine ⟨ExclLe.trans (exclFile_exclLe idx st a) l, ?_⟩
    intro f hf i hi k hk
    cases hf with
    | head =>
      apply l
      unfold exclFile; rw [hi]
      exact exclKeys_mem st _ ho k hk
    | tail _ hf => exact e f hf i hi k hk

theorem excludeType_keys (img : Image) (idx : Index) (st st' : St) (n : Id)
    (h : excludeType img idx st n = .ok st') (ho : OnlyExcl st) (k : Key) (hk : ExclKeyOf img idx n k) :
    st'.get k = some .excluded := by
  unfold excludeType at h
  split at h
  · rename_i i hi
    cases h
    rcases hk with ⟨i', hi', hm⟩ | ⟨hn, _⟩
    · rw [hi] at hi'; cases hi'
      exact exclKeys_mem st _ ho k hm
    · rw [hi] at hn; cases hn
  · rename_i hnone
    split at h
    · cases h
      rcases hk with ⟨i', hi', _⟩ | ⟨_, f, hf, i, hi, hm⟩
      · rw [hnone] at hi'; cases hi'
      · exact (foldl_exclFile idx (filesOfPkg img n) st ho).2 f hf i hi k hm
    · cases h

theorem excludePhase_keys (img : Image) (idx : Index) (st st' : St) (ns : List Id)
    (h : foldlE (excludeType img idx) st ns = .ok st') (ho : OnlyExcl st) :
    ∀ n ∈ ns, ∀ k, ExclKeyOf img idx n k → st'.get k = some .excluded := by
  induction ns generalizing st with
  | nil => intro n hn; cases hn
  | cons a as ih =>
    simp only [foldlE] at h
    split at h
    · cases h
    · rename_i st1 h1
      obtain ⟨_, o1, _⟩ := excludeType_spec _ _ _ _ _ h1 ho
      obtain ⟨l2, _⟩ := excludePhase_spec _ _ _ _ _ h o1
      intro n hn k hk
      cases hn with
      | head => exact l2 _ (excludeType_keys img idx st st1 a h1 ho k hk)
      | tail _ hn => exact ih _ h o1 n hn k hk

/-- every key an exclude names is `excluded` in the final closure of the current code -/
theorem closure_exclKey (cfg : Cfg) (hcfg : cfg.svcMarksInput = false) (img : Image) (o : Opts) (fuel : Nat) (st : St)
    (h : closure cfg img o fuel = .ok st) (k : Key) (hk : ExclKey img o k) : rk st k = 4 := by
  obtain ⟨st0, h0, _, hg⟩ := closure_good cfg hcfg img o fuel st h
  obtain ⟨n, hn, hkn⟩ := hk
  exact hg.2.excl (rk_excl.mpr (excludePhase_keys img _ _ _ _ h0 onlyExcl_empty n hn k hkn))

theorem has_false_of_excl (st : St) (noInc mio rn : Bool) (k : Key) (h : rk st k = 4) :
    RCtx.has ⟨st, noInc, mio, rn⟩ k = false := by
  unfold RCtx.has hasType
  rw [rk_excl.mp h]

/-! ### where the components of the output come from -/

mutual
/-- the ordinary fields of a message and of everything nested in it -/
def msgFieldsAll : Msg → List Field
  | .mk _ fields _ _ nested _ _ _ _ _ => fields ++ msgsFieldsAll nested
def msgsFieldsAll : List Msg → List Field
  | [] => []
  | m :: ms => msgFieldsAll m ++ msgsFieldsAll ms
end

mutual
/-- the extensions declared inside a message, at any depth -/
def msgExtsAll : Msg → List Field
  | .mk _ _ _ exts nested _ _ _ _ _ => exts ++ msgsExtsAll nested
def msgsExtsAll : List Msg → List Field
  | [] => []
  | m :: ms => msgExtsAll m ++ msgsExtsAll ms
end

def allFields (f : OFile) : List Field := msgsFieldsAll f.msgs
def allExts (f : OFile) : List Field := msgsExtsAll f.msgs ++ f.exts
def allMethods (f : OFile) : List Method := (f.svcs.map (·.methods)).flatten

/-- ids of the elements an output file declares (messages, enums, services, methods, extensions) -/
def outIds (f : OFile) : List Id := (presentFile f).map (·.id)
/-- type references of an output file: field and extension types, request and response types -/
def typeRefs (f : OFile) : List Id :=
  (allFields f ++ allExts f).filterMap (·.ty) ++ ((allMethods f).map (fun m => [m.input, m.output])).flatten
/-- extendee references of an output file -/
def extendeeRefs (f : OFile) : List Id := (allFields f ++ allExts f).filterMap (·.extendee)

theorem mem_keptFrom {α β} (path : List Nat) (f : List Nat → α → Option β × Marks) (xs : List α) (fr : Nat) (y : β)
    (h : y ∈ keptFrom path f xs fr) : ∃ x ∈ xs, ∃ p, (f p x).1 = some y := by
  induction xs generalizing fr with
  | nil => cases h
  | cons a as ih =>
    unfold keptFrom at h
    split at h
    · rename_i y' hy
      cases h with
      | head => exact ⟨a, List.mem_cons_self, _, hy⟩
      | tail _ h =>
        obtain ⟨x, hx, p, hp⟩ := ih _ h
        exact ⟨x, List.mem_cons_of_mem _ hx, p, hp⟩
    · obtain ⟨x, hx, p, hp⟩ := ih _ h
      exact ⟨x, List.mem_cons_of_mem _ hx, p, hp⟩

theorem remapField_some (c : RCtx) (p : List Nat) (x y : Field) (h : (remapField c p x).1 = some y) :
    y = x ∧ (x.extendee.isSome = true → c.has (.el x.id) = true) ∧ ∀ t, x.ty = some t → c.has (.el t) = true := by
  unfold remapField at h
  split at h
  · cases h
  · rename_i hx
    have hext : x.extendee.isSome = true → c.has (.el x.id) = true := by
      intro he
      simp only [he, Bool.true_and, Bool.not_eq_true', Bool.not_eq_false] at hx
      exact hx
    split at h
    · rename_i t ht
      split at h
      · rename_i hh
        simp only [Option.some.injEq] at h
        exact ⟨h.symm, hext, fun t' ht' => by rw [ht] at ht'; cases ht'; exact hh⟩
      · cases h
    · rename_i ht
      simp only [Option.some.injEq] at h
      exact ⟨h.symm, hext, fun t' ht' => by rw [ht] at ht'; cases ht'⟩

theorem remapEnum_some (c : RCtx) (p : List Nat) (x y : Enum) (h : (remapEnum c p x).1 = some y) :
    y = x ∧ c.has (.el x.id) = true := by
  unfold remapEnum at h
  split at h
  · rename_i hh
    simp only [Option.some.injEq] at h
    exact ⟨h.symm, hh⟩
  · cases h

theorem remapMethod_some (c : RCtx) (p : List Nat) (x y : Method) (h : (remapMethod c p x).1 = some y) :
    y = x ∧ c.has (.el x.id) = true ∧
      (c.methodIO = true → c.has (.el x.input) = true ∧ c.has (.el x.output) = true) := by
  unfold remapMethod at h
  split at h
  · rename_i hh
    simp only [Option.some.injEq] at h
    simp only [Bool.and_eq_true, Bool.or_eq_true, Bool.not_eq_true'] at hh
    refine ⟨h.symm, hh.1, ?_⟩
    intro hio
    rcases hh.2 with h' | h'
    · rw [hio] at h'; cases h'
    · exact h'
  · cases h

theorem renumberOneof_same (tbl : List Nat) (f : Field) :
    (renumberOneof tbl f).id = f.id ∧ (renumberOneof tbl f).ty = f.ty ∧
    (renumberOneof tbl f).extendee = f.extendee ∧ (renumberOneof tbl f).opts = f.opts := by
  unfold renumberOneof
  split
  · exact ⟨rfl, rfl, rfl, rfl⟩
  · split <;> exact ⟨rfl, rfl, rfl, rfl⟩

/-- the fields of a kept, not enclosing-only message: the kept fields, their oneof indexes renumbered -/
def fieldsOut (c : RCtx) (id : Id) (nOneofs : Nat) (kept : List Field) : List Field :=
  if c.renumber then kept.map (renumberOneof (newOneofIndexes c.st id nOneofs 0 0)) else kept

theorem mem_fieldsOut (c : RCtx) (id : Id) (n : Nat) (kept : List Field) (g : Field)
    (h : g ∈ fieldsOut c id n kept) :
    ∃ g0 ∈ kept, g.id = g0.id ∧ g.ty = g0.ty ∧ g.extendee = g0.extendee ∧ g.opts = g0.opts := by
  unfold fieldsOut at h
  split at h
  · obtain ⟨g0, hg0, rfl⟩ := List.mem_map.mp h
    exact ⟨g0, hg0, renumberOneof_same _ g0⟩
  · exact ⟨g, h, rfl, rfl, rfl, rfl⟩

/-- the exact shape of a kept message -/
theorem remapMsg_shape (c : RCtx) (path : List Nat) (id : Id) (fields : List Field) (oneofs : List Oneof)
    (exts : List Field) (nested : List Msg) (enums : List Enum) (rangeOpts : List (List OptUse))
    (reserved mapEntry : Bool) (opts : List OptUse) (y : Msg)
    (h : (remapMsg c path (.mk id fields oneofs exts nested enums rangeOpts reserved mapEntry opts)).1 = some y) :
    c.has (.el id) = true ∧ ∃ fs os ro rs,
      y = .mk id fs os (remapSlice (path ++ [6]) (remapField c) exts 0 0).1
        (remapMsgs c (path ++ [3]) nested 0 0).1 (remapSlice (path ++ [4]) (remapEnum c) enums 0 0).1
        ro rs mapEntry opts ∧
      ((fs = [] ∧ os = []) ∨ (c.st.get (.el id) ≠ some .enclosing ∧
        fs = fieldsOut c id oneofs.length (remapSlice (path ++ [2]) (remapField c) fields 0 0).1 ∧
        os = (remapSlice (path ++ [8]) (remapOneof c id) oneofs 0 0).1)) := by
  unfold remapMsg at h
  split at h
  · cases h
  · rename_i hh
    simp only [Bool.not_eq_true, Bool.not_eq_false'] at hh
    refine ⟨hh, ?_⟩
    split at h
    · split at h
      · simp only [Option.some.injEq] at h
        exact ⟨_, _, _, _, h.symm, Or.inl ⟨rfl, rfl⟩⟩
      · rename_i hne
        simp only [Bool.or_eq_true, Bool.not_eq_true', not_or, Bool.not_eq_true, Bool.not_eq_false] at hne
        simp only [Option.some.injEq] at h
        refine ⟨_, _, _, _, h.symm, Or.inl ⟨?_, ?_⟩⟩
        · simpa using hne.1.1.1
        · simpa using hne.1.1.2
    · rename_i hne
      simp only [Option.some.injEq] at h
      exact ⟨_, _, _, _, h.symm, Or.inr ⟨hne, rfl, rfl⟩⟩

/-- what a kept field / extension of the output is, in terms of the index block it came from -/
def FieldOrigin (c : RCtx) (L : List Info) (g : Field) : Prop :=
  ∃ j ∈ L, ∃ g0 ∈ j.fields, j.kind = .msg ∧ g.id = g0.id ∧ g.ty = g0.ty ∧ g.extendee = g0.extendee ∧
    c.has j.key = true ∧ c.st.get j.key ≠ some .enclosing ∧ ∀ t, g.ty = some t → c.has (.el t) = true

def ExtOrigin (c : RCtx) (L : List Info) (g : Field) : Prop :=
  ∃ j ∈ L, j.kind = .ext ∧ j.fld = some g ∧ j.key = .el g.id ∧
    (g.extendee.isSome = true → c.has (.el g.id) = true) ∧ ∀ t, g.ty = some t → c.has (.el t) = true

/-- every extension entry of the block carries an extendee -/
def ExtsOK (L : List Info) : Prop := ∀ j ∈ L, ∀ f, j.fld = some f → f.extendee.isSome = true

theorem FieldOrigin.mono {c : RCtx} {L L' : List Info} {g : Field} (h : ∀ j ∈ L, j ∈ L') (o : FieldOrigin c L g) :
    FieldOrigin c L' g := by
  obtain ⟨j, hj, r⟩ := o
  exact ⟨j, h j hj, r⟩

theorem ExtOrigin.mono {c : RCtx} {L L' : List Info} {g : Field} (h : ∀ j ∈ L, j ∈ L') (o : ExtOrigin c L g) :
    ExtOrigin c L' g := by
  obtain ⟨j, hj, r⟩ := o
  exact ⟨j, h j hj, r⟩

theorem ext_slice_origin (c : RCtx) (file : Id) (par : Key) (path : List Nat) (exts : List Field) (g : Field)
    (hg : g ∈ (remapSlice path (remapField c) exts 0 0).1) :
    ExtOrigin c (exts.map (extInfo file par)) g := by
  rw [remapSlice_items] at hg
  obtain ⟨x, hx, p, hp⟩ := mem_keptFrom _ _ _ _ _ hg
  obtain ⟨rfl, h1, h2⟩ := remapField_some c p x g hp
  exact ⟨extInfo file par g, List.mem_map.mpr ⟨g, hx, rfl⟩, rfl, rfl, rfl, h1, h2⟩

mutual
theorem origin_msg (c : RCtx) (file : Id) (parent : Key) (path : List Nat) (m y : Msg)
    (hX : ExtsOK (msgInfos file parent m)) (h : (remapMsg c path m).1 = some y) :
    (∀ p ∈ presentMsg file y, c.has (.el p.id) = true) ∧
    (∀ g ∈ msgFieldsAll y, FieldOrigin c (msgInfos file parent m) g) ∧
    (∀ g ∈ msgExtsAll y, ExtOrigin c (msgInfos file parent m) g) := by
  cases m with
  | mk id fields oneofs exts nested enums rangeOpts reserved mapEntry opts =>
    obtain ⟨hid, fs, os, ro, rs, rfl, hfs⟩ := remapMsg_shape c path id fields oneofs exts nested enums rangeOpts
      reserved mapEntry opts y h
    have hsubN : ∀ j ∈ msgsInfos file (.el id) nested,
        j ∈ msgInfos file parent (.mk id fields oneofs exts nested enums rangeOpts reserved mapEntry opts) := by
      intro j hj
      simp only [msgInfos, List.mem_cons, List.mem_append]
      exact Or.inr (Or.inl (Or.inl hj))
    have hsubX : ∀ j ∈ exts.map (extInfo file (.el id)),
        j ∈ msgInfos file parent (.mk id fields oneofs exts nested enums rangeOpts reserved mapEntry opts) := by
      intro j hj
      simp only [msgInfos, List.mem_cons, List.mem_append]
      exact Or.inr (Or.inr hj)
    obtain ⟨n1, n2, n3⟩ := origin_msgs c file (.el id) (path ++ [3]) nested 0 0 (fun j hj => hX j (hsubN j hj))
    refine ⟨?_, ?_, ?_⟩
    · intro p hp
      simp only [presentMsg, List.mem_cons, List.mem_append, List.mem_map] at hp
      rcases hp with rfl | (hp | ⟨e, he, rfl⟩) | ⟨x, hx, rfl⟩
      · exact hid
      · exact n1 p hp
      · rw [remapSlice_items] at he
        obtain ⟨x, _, q, hq⟩ := mem_keptFrom _ _ _ _ _ he
        obtain ⟨rfl, hh⟩ := remapEnum_some c q x e hq
        exact hh
      · obtain ⟨j, hj, _, hf, _, h1, _⟩ := ext_slice_origin c file (.el id) _ exts x hx
        exact h1 (hX j (hsubX j hj) x hf)
    · intro g hg
      simp only [msgFieldsAll, List.mem_append] at hg
      rcases hg with hg | hg
      · rcases hfs with ⟨rfl, _⟩ | ⟨hne, rfl, _⟩
        · cases hg
        · obtain ⟨g0, hg0, e1, e2, e3, _⟩ := mem_fieldsOut _ _ _ _ g hg
          rw [remapSlice_items] at hg0
          obtain ⟨x, hx, q, hq⟩ := mem_keptFrom _ _ _ _ _ hg0
          obtain ⟨rfl, _, h2⟩ := remapField_some c q x g0 hq
          refine ⟨_, by simp only [msgInfos]; exact List.mem_cons_self, g0, hx, rfl, e1, e2, e3, hid, hne, ?_⟩
          intro t ht
          exact h2 t (by rw [← e2]; exact ht)
      · exact (n2 g hg).mono hsubN
    · intro g hg
      simp only [msgExtsAll, List.mem_append] at hg
      rcases hg with hg | hg
      · exact (ext_slice_origin c file (.el id) _ exts g hg).mono hsubX
      · exact (n3 g hg).mono hsubN
theorem origin_msgs (c : RCtx) (file : Id) (parent : Key) (path : List Nat) (ms : List Msg) (fr to : Nat)
    (hX : ExtsOK (msgsInfos file parent ms)) :
    (∀ p ∈ presentMsgs file (remapMsgs c path ms fr to).1, c.has (.el p.id) = true) ∧
    (∀ g ∈ msgsFieldsAll (remapMsgs c path ms fr to).1, FieldOrigin c (msgsInfos file parent ms) g) ∧
    (∀ g ∈ msgsExtsAll (remapMsgs c path ms fr to).1, ExtOrigin c (msgsInfos file parent ms) g) := by
  cases ms with
  | nil =>
    unfold remapMsgs
    simp only [presentMsgs, msgsFieldsAll, msgsExtsAll]
    exact ⟨fun p hp => (by cases hp), fun p hp => (by cases hp), fun p hp => (by cases hp)⟩
  | cons m ms =>
    have hX1 : ExtsOK (msgInfos file parent m) := fun j hj =>
      hX j (by simp only [msgsInfos, List.mem_append]; exact Or.inl hj)
    have hX2 : ExtsOK (msgsInfos file parent ms) := fun j hj =>
      hX j (by simp only [msgsInfos, List.mem_append]; exact Or.inr hj)
    have hs1 : ∀ j ∈ msgInfos file parent m, j ∈ msgsInfos file parent (m :: ms) := fun j hj => by
      simp only [msgsInfos, List.mem_append]; exact Or.inl hj
    have hs2 : ∀ j ∈ msgsInfos file parent ms, j ∈ msgsInfos file parent (m :: ms) := fun j hj => by
      simp only [msgsInfos, List.mem_append]; exact Or.inr hj
    unfold remapMsgs
    cases hr : remapMsg c (path ++ [fr]) m with
    | mk r mk =>
      cases r with
      | none =>
        obtain ⟨b1, b2, b3⟩ := origin_msgs c file parent path ms (fr + 1) to hX2
        exact ⟨b1, fun g hg => (b2 g hg).mono hs2, fun g hg => (b3 g hg).mono hs2⟩
      | some y =>
        obtain ⟨a1, a2, a3⟩ := origin_msg c file parent (path ++ [fr]) m y hX1 (by rw [hr])
        obtain ⟨b1, b2, b3⟩ := origin_msgs c file parent path ms (fr + 1) (to + 1) hX2
        simp only [presentMsgs, msgsFieldsAll, msgsExtsAll, List.mem_append]
        refine ⟨?_, ?_, ?_⟩
        · rintro p (hp | hp)
          · exact a1 p hp
          · exact b1 p hp
        · rintro g (hg | hg)
          · exact (a2 g hg).mono hs1
          · exact (b2 g hg).mono hs2
        · rintro g (hg | hg)
          · exact (a3 g hg).mono hs1
          · exact (b3 g hg).mono hs2
end

/-- a kept method of the output, in terms of the index -/
def MethodOrigin (c : RCtx) (L : List Info) (m : Method) : Prop :=
  ∃ j ∈ L, j.kind = .method ∧ j.key = .el m.id ∧ j.input = m.input ∧ j.output = m.output ∧
    c.has (.el m.id) = true ∧ (c.methodIO = true → c.has (.el m.input) = true ∧ c.has (.el m.output) = true) ∧
    ∃ js ∈ L, js.kind = .svc ∧ m ∈ js.methods ∧ c.has js.key = true

theorem origin_svcs (c : RCtx) (file : Id) (svcs : List Service) (s' : Service)
    (hs : s' ∈ (remapSlice [6] (remapService c) svcs 0 0).1) :
    c.has (.el s'.id) = true ∧ ∀ m ∈ s'.methods, c.has (.el m.id) = true ∧
      MethodOrigin c ((svcs.map (svcInfos file)).flatten) m := by
  rw [remapSlice_items] at hs
  obtain ⟨s, hsm, p, hp⟩ := mem_keptFrom _ _ _ _ _ hs
  unfold remapService at hp
  split at hp
  · cases hp
  · rename_i hh
    simp only [Bool.not_eq_true, Bool.not_eq_false'] at hh
    simp only [Option.some.injEq] at hp
    subst hp
    refine ⟨hh, ?_⟩
    intro m hm
    simp only at hm
    rw [remapSlice_items] at hm
    obtain ⟨x, hx, q, hq⟩ := mem_keptFrom _ _ _ _ _ hm
    obtain ⟨rfl, h1, h2⟩ := remapMethod_some c q x m hq
    have hblock : ∀ j ∈ svcInfos file s, j ∈ (svcs.map (svcInfos file)).flatten := by
      intro j hj
      simp only [List.mem_flatten, List.mem_map]
      exact ⟨_, ⟨s, hsm, rfl⟩, hj⟩
    refine ⟨h1, methodInfo file (.el s.id) m, hblock _ ?_, rfl, rfl, rfl, rfl, h1, h2, ?_⟩
    · simp only [svcInfos, List.mem_cons, List.mem_map]
      exact Or.inr ⟨m, hx, rfl⟩
    · refine ⟨_, hblock _ (by unfold svcInfos; exact List.mem_cons_self), rfl, hx, hh⟩

/-- **Origin of every component of a rewritten file.** -/
theorem origin_file (c : RCtx) (f : File) (of : OFile) (hX : ExtsOK (fileInfos f)) (h : remapFile c f = some of) :
    (∀ x ∈ outIds of, c.has (.el x) = true) ∧
    (∀ g ∈ allFields of, FieldOrigin c (fileInfos f) g) ∧
    (∀ g ∈ allExts of, ExtOrigin c (fileInfos f) g) ∧
    (∀ m ∈ allMethods of, MethodOrigin c (fileInfos f) m) := by
  unfold remapFile at h
  split at h
  · cases h
  · simp only [Option.some.injEq] at h
    subst h
    have hsM : ∀ j ∈ msgsInfos f.id (.file f.id) f.msgs, j ∈ fileInfos f := mem_fileInfos_msgs f
    have hsS : ∀ j ∈ (f.svcs.map (svcInfos f.id)).flatten, j ∈ fileInfos f := by
      intro j hj
      simp only [fileInfos, List.mem_cons, List.mem_append]
      exact Or.inr (Or.inl (Or.inr hj))
    have hsX : ∀ j ∈ f.exts.map (extInfo f.id (.file f.id)), j ∈ fileInfos f := by
      intro j hj
      simp only [fileInfos, List.mem_cons, List.mem_append]
      exact Or.inr (Or.inr hj)
    obtain ⟨m1, m2, m3⟩ := origin_msgs c f.id (.file f.id) [4] f.msgs 0 0 (fun j hj => hX j (hsM j hj))
    refine ⟨?_, ?_, ?_, ?_⟩
    · intro x hx
      simp only [outIds, presentFile, List.map_append, List.mem_append, List.mem_map, List.mem_flatten] at hx
      rcases hx with ((⟨p, hp, rfl⟩ | ⟨p, ⟨e, he, rfl⟩, rfl⟩) | ⟨p, ⟨l, ⟨s, hs, rfl⟩, hp⟩, rfl⟩) | ⟨p, ⟨x, hx, rfl⟩, rfl⟩
      · exact m1 p hp
      · rw [remapSlice_items] at he
        obtain ⟨x, _, q, hq⟩ := mem_keptFrom _ _ _ _ _ he
        obtain ⟨rfl, hh⟩ := remapEnum_some c q x e hq
        exact hh
      · obtain ⟨h1, h2⟩ := origin_svcs c f.id f.svcs s hs
        simp only [List.mem_cons, List.mem_map] at hp
        rcases hp with rfl | ⟨m, hm, rfl⟩
        · exact h1
        · exact (h2 m hm).1
      · obtain ⟨j, hj, _, hf, _, h1, _⟩ := ext_slice_origin c f.id (.file f.id) _ f.exts x hx
        exact h1 (hX j (hsX j hj) x hf)
    · intro g hg
      exact (m2 g hg).mono hsM
    · intro g hg
      simp only [allExts, List.mem_append] at hg
      rcases hg with hg | hg
      · exact (m3 g hg).mono hsM
      · exact (ext_slice_origin c f.id (.file f.id) _ f.exts g hg).mono hsX
    · intro m hm
      simp only [allMethods, List.mem_flatten, List.mem_map] at hm
      obtain ⟨l, ⟨s, hs, rfl⟩, hm⟩ := hm
      obtain ⟨j, hj, r1, r2, r3, r4, r5, r6, js, hjs, r7⟩ := (origin_svcs c f.id f.svcs s hs).2 m hm |>.2
      exact ⟨j, hsS j hj, r1, r2, r3, r4, r5, r6, js, hsS js hjs, r7⟩

/-! ### well-formedness of references (decidable input conditions) -/

/-- What the output-level theorems need of the references of an image, read off its index:
    every extension names an extendee, extendees are not themselves extensions, ordinary fields
    carry no extendee, and an entry is of kind `ext` exactly when it carries a field. -/
structure WFRefs (idx : Index) : Prop where
  extHasExtendee : ∀ j ∈ idx, ∀ f, j.fld = some f → f.extendee.isSome = true
  extendeeMsg : ∀ j ∈ idx, ∀ f e, j.fld = some f → f.extendee = some e →
    ∀ ie, idx.find (.el e) = some ie → ie.fld = none
  fieldsPlain : ∀ j ∈ idx, ∀ g ∈ j.fields, g.extendee = none

def wfRefsB (idx : Index) : Bool :=
  idx.all (fun j => match j.fld with
    | some f => (match f.extendee with
      | some e => (match idx.find (.el e) with | some ie => ie.fld.isNone | none => true)
      | none => false)
    | none => true) &&
  idx.all (fun j => j.fields.all (fun g => g.extendee.isNone))

theorem wfRefs_of_B (idx : Index) (h : wfRefsB idx = true) : WFRefs idx := by
  unfold wfRefsB at h
  simp only [Bool.and_eq_true, List.all_eq_true] at h
  obtain ⟨h1, h2⟩ := h
  refine ⟨?_, ?_, ?_⟩
  · intro j hj f hf
    have := h1 j hj
    simp only [hf] at this
    cases he : f.extendee with
    | none => simp only [he] at this; cases this
    | some e => rfl
  · intro j hj f e hf he ie hie
    have := h1 j hj
    simp only [hf, he, hie] at this
    simpa using this
  · intro j hj g hg
    have := h2 j hj g hg
    simpa using this

/-- the hypothesis that excludes known finding 9e for exclude-only filters: the image has no
    import (non-target) file, and `FileTypes` of every file lists the extensions it declares -/
def NoImportCover (img : Image) : Prop :=
  ∀ f ∈ img.files, f.isImport = false ∧
    ∀ j ∈ fileInfos f, j.kind ≠ .file → j.kind ≠ .method → ∀ n, j.key = .el n → n ∈ f.types

def noImportCoverB (img : Image) : Bool :=
  img.files.all (fun f => !f.isImport && (fileInfos f).all (fun j => j.kind == .file || j.kind == .method ||
    (match j.key with | .el n => f.types.contains n | _ => true)))

theorem noImportCover_of_B (img : Image) (h : noImportCoverB img = true) : NoImportCover img := by
  unfold noImportCoverB at h
  simp only [List.all_eq_true, Bool.and_eq_true, Bool.not_eq_true', Bool.or_eq_true, beq_iff_eq] at h
  intro f hf
  refine ⟨(h f hf).1, ?_⟩
  intro j hj hk1 hk2 n hn
  rcases (h f hf).2 j hj with (h' | h') | h'
  · exact absurd h' hk1
  · exact absurd h' hk2
  · rw [hn] at h'; simpa using h'

/-! ### exclude-only filters without import files visit every extension -/

/-- an excluded file key has all its descendants excluded -/
def FE (idx : Index) (st : St) : Prop :=
  ∀ i ∈ idx, ∀ n, i.key = .file n → rk st i.key = 4 → ∀ k ∈ i.desc, rk st k = 4

theorem idx_desc_el (img : Image) : ∀ i ∈ buildIndex img, ∀ k ∈ i.desc, ∃ n, k = .el n := by
  intro i hi k hk
  obtain ⟨f, _, hif⟩ := mem_buildIndex img i hi
  exact file_desc_el f i hif k hk

theorem fe_exclKeys (img : Image) (hu : UniqIdx (buildIndex img)) (st : St) (i' : Info) (hi' : i' ∈ buildIndex img)
    (ho : OnlyExcl st) (hfe : FE (buildIndex img) st) : FE (buildIndex img) (exclKeys st (i'.key :: i'.desc)) := by
  intro i hi n hn h4 k hk
  by_cases hm : i.key ∈ i'.key :: i'.desc
  · have hkk : i.key = i'.key := by
      rcases List.mem_cons.mp hm with hm | hm
      · exact hm
      · obtain ⟨x, hx⟩ := idx_desc_el img i' hi' _ hm
        rw [hn] at hx; cases hx
    have e1 := hu i hi
    have e2 := hu i' hi'
    rw [hkk, e2] at e1
    cases e1
    exact rk_excl.mpr (exclKeys_mem st _ ho k (List.mem_cons_of_mem _ hk))
  · have e := exclKeys_not_mem st _ i.key hm
    have h4' : rk st i.key = 4 := by unfold rk at h4 ⊢; rw [e] at h4; exact h4
    exact rk_excl.mpr (exclKeys_exclLe st _ _ (rk_excl.mp (hfe i hi n hn h4' k hk)))

theorem fe_excludePhase (img : Image) (hu : UniqIdx (buildIndex img)) (st' : St) (ns : List Id)
    (h : foldlE (excludeType img (buildIndex img)) {} ns = .ok st') : FE (buildIndex img) st' := by
  have key : OnlyExcl st' ∧ FE (buildIndex img) st' := by
    refine foldlE_pres (fun s => OnlyExcl s ∧ FE (buildIndex img) s) _ ?_ _ _ _ ⟨onlyExcl_empty, ?_⟩ h
    · intro b a b' hb hh
      refine ⟨(excludeType_spec _ _ _ _ _ hh hb.1).2.1, ?_⟩
      unfold excludeType at hh
      split at hh
      · rename_i i hi
        cases hh
        exact fe_exclKeys img hu b i (find_mem hi) hb.1 hb.2
      · split at hh
        · cases hh
          have : ∀ (fs : List File) (s : St), OnlyExcl s → FE (buildIndex img) s →
              FE (buildIndex img) (fs.foldl (exclFile (buildIndex img)) s) := by
            intro fs
            induction fs with
            | nil => intro s _ hs; exact hs
            | cons f fs ih =>
              intro s ho hs
              simp only [List.foldl_cons]
              refine ih _ (exclFile_onlyExcl _ s f ho) ?_
              unfold exclFile
              split
              · rename_i i hi
                exact fe_exclKeys img hu s i (find_mem hi) ho hs
              · exact hs
          exact this _ b hb.1 hb.2
        · cases hh
    · intro i _ n _ h4
      simp [rk, St.get, rank] at h4
  exact key.2

theorem fileHead_find (img : Image) (hu : UniqIdx (buildIndex img)) (f : File) (hf : f ∈ img.files) :
    (buildIndex img).find (.file f.id) = some (fileHead f) :=
  hu (fileHead f) (mem_buildIndex_of img f hf _ (by rw [fileInfos_eq]; exact List.mem_cons_self))

/-- With no include and no import file, every message, enum, service and extension of the image
    ends visited or excluded. -/
theorem excludeOnly_visited (cfg : Cfg) (hcfg : cfg.svcMarksInput = false) (img : Image) (o : Opts) (fuel : Nat)
    (st : St) (h : closure cfg img o fuel = .ok st) (hu : UniqIdx (buildIndex img)) (hinc : o.includes = [])
    (hni : NoImportCover img) (f : File) (hf : f ∈ img.files) (j : Info) (hj : j ∈ fileInfos f)
    (hk1 : j.kind ≠ .file) (hk2 : j.kind ≠ .method) : 2 ≤ rk st j.key := by
  obtain ⟨st0, st1, st2, h0, h1, h2, h3⟩ := closure_phases cfg img o fuel st h
  let c : Ctx := ⟨cfg, buildIndex img, o.customOpts⟩
  have ho := excludePhase_onlyExcl _ _ _ _ _ h0 onlyExcl_empty
  have hfe := fe_excludePhase img hu st0 o.excludes h0
  rw [hinc] at h1 h2
  simp only [foldlE, Except.ok.injEq] at h1
  subst h1
  simp only [List.isEmpty_nil, if_true] at h2
  have g0 : Good c st0 st0 := ⟨closed_of_onlyExcl _ _ ho, Le.refl _ _⟩
  have g2 : Good c st0 st2 := good_includeEverything c hcfg st0 img fuel _ _ g0 h2
  have g3 : Good c st2 st := by
    split at h3
    · exact good_addExtensions c hcfg st2 fuel _ _ ⟨g2.1, Le.refl _ _⟩ h3
    · cases h3; exact ⟨g2.1, Le.refl _ _⟩
  have hfind := fileHead_find img hu f hf
  -- the include-everything pass reaches every non-import file
  have key := foldlE_each (fun _ => True) (Le c)
    (fun (g : File) (s : St) => g.isImport = false → ∀ i, c.idx.find (.file g.id) = some i → 2 ≤ rk s (.file g.id))
    (fun st g => if g.isImport then .ok st else if st.isExcl (.file g.id) then .ok st
      else run c fuel st [.add (.file g.id) none false])
    (Le.refl c) (fun _ _ _ => Le.trans)
    (by intro g b b' q hle hg i hi; exact Nat.le_trans (q hg i hi) (hle.mono _))
    (by
      intro b g b' _ hh
      split at hh
      · rename_i hg
        cases hh
        exact ⟨trivial, Le.refl _ _, fun hg' => by rw [hg'] at hg; cases hg⟩
      · split at hh
        · rename_i hx
          cases hh
          exact ⟨trivial, Le.refl _ _, fun _ _ _ => by rw [isExcl_iff.mp hx]; omega⟩
        · refine ⟨trivial, run_le c hcfg _ _ _ _ hh, fun _ i hi => ?_⟩
          have hp := (run_closed c hcfg fuel b b' _ hh).1 (.add (.file g.id) none false) (by simp)
          exact (hp i hi).1)
    st0 st2 img.files trivial h2
  have hfile2 : 2 ≤ rk st (.file f.id) :=
    Nat.le_trans (key.2.2 f hf (hni f hf).1 _ hfind) (g3.2.mono _)
  have hle : Le c st0 st := Le.trans g2.2 g3.2
  have hjsub : j ∈ fileSub f := by
    rw [fileInfos_eq] at hj
    cases hj with
    | head => exact absurd rfl hk1
    | tail _ hj => exact hj
  have hjidx : j ∈ buildIndex img := mem_buildIndex_of img f hf j hj
  by_cases h4 : rk st (.file f.id) = 4
  · have hn : NonExt c (.file f.id) := ⟨by intro m n; simp, by
      intro i hi
      have : c.idx.find (.file f.id) = some (fileHead f) := hfind
      rw [this] at hi; cases hi; rfl⟩
    have h40 := hle.frozen _ hn h4
    have := hfe (fileHead f) (find_mem hfind) f.id rfl h40 j.key (List.mem_map.mpr ⟨j, hjsub, rfl⟩)
    have := hle.excl this
    omega
  · have h3' : rk st (.file f.id) ≤ 3 := by have := rk_le_four st (.file f.id); omega
    have hc : Closed c st := g3.1
    have hr := (hc (.file f.id) (fileHead f) hfind).2 hfile2 h3'
    obtain ⟨n, hn⟩ := (fileSub_B f).2.2.2 j hjsub
    have hjf : c.idx.find (.el n) = some j := by rw [← hn]; exact hu j hjidx
    have hty : n ∈ fileTys c (fileHead f) := by
      unfold fileTys
      have hc' : c.cfg.svcMarksInput = false := hcfg
      rw [hc']
      simp only [Bool.false_eq_true, if_false, List.mem_filter]
      refine ⟨(hni f hf).2 j hj hk1 hk2 n hn, ?_⟩
      rw [hjf]; simpa using hk2
    have hp : Post c st (.add (.el n) none false) := hr _ (by
      unfold reqTasks
      simp only [fileHead, List.mem_append, List.mem_map]
      exact Or.inl ⟨n, hty, rfl⟩)
    rw [hn]
    exact (hp j hjf).1

/-! ### filter_drops_excludes, output level -/

theorem filterWith_parts (cfg : Cfg) (img : Image) (o : Opts) (fuel : Nat) (out : List OFile)
    (h : filterWith cfg img o fuel = .ok out) :
    ∃ st, closure cfg img o fuel = .ok st ∧ rewrite cfg st o.includes.isEmpty img = .ok out := by
  unfold filterWith at h
  split at h
  · cases h
  · rename_i st hcl
    exact ⟨st, hcl, h⟩

theorem extsOK_file (img : Image) (hr : WFRefs (buildIndex img)) (f : File) (hf : f ∈ img.files) :
    ExtsOK (fileInfos f) :=
  fun j hj g hg => hr.extHasExtendee j (mem_buildIndex_of img f hf j hj) g hg

/-- a kept extension of the output is a VISITED index entry (not merely `has`) -/
theorem kept_ext_visited (img : Image) (o : Opts) (fuel : Nat) (st : St)
    (hcl : closure cfgFixed img o fuel = .ok st) (hu : UniqIdx (buildIndex img)) (hr : WFRefs (buildIndex img))
    (hmode : o.includes ≠ [] ∨ NoImportCover img)
    (f : File) (hf : f ∈ img.files) (g : Field)
    (ho : ExtOrigin ⟨st, o.includes.isEmpty, true, true⟩ (fileInfos f) g) :
    ∃ j, (buildIndex img).find (.el g.id) = some j ∧ j.kind = .ext ∧ j.fld = some g ∧ j.file = f.id ∧
      2 ≤ rk st (.el g.id) ∧ rk st (.el g.id) ≤ 3 := by
  obtain ⟨j, hj, hk, hfld, hkey, hhas, _⟩ := ho
  have hjidx := mem_buildIndex_of img f hf j hj
  have hfind : (buildIndex img).find (.el g.id) = some j := by rw [← hkey]; exact hu j hjidx
  have hs := closure_sinv cfgFixed rfl img o fuel st hu hcl
  have hh := hhas (hr.extHasExtendee j hjidx g hfld)
  have hne1 : rk st (.el g.id) ≠ 1 := by
    intro h1
    have := (hs.noEncl _ h1).1.2 j hfind
    rw [hfld] at this; cases this
  have hne4 : rk st (.el g.id) ≠ 4 := by
    intro h4
    rw [has_false_of_excl st _ _ _ _ h4] at hh; cases hh
  have hle := rk_le_four st (.el g.id)
  refine ⟨j, hfind, hk, hfld, file_fileInfos f j hj, ?_, by omega⟩
  cases hinc : o.includes with
  | nil =>
    rcases hmode with hm | hm
    · exact absurd hinc hm
    · have := excludeOnly_visited cfgFixed rfl img o fuel st hcl hu hinc hm f hf j hj (by rw [hk]; simp) (by rw [hk]; simp)
      rw [hkey] at this; exact this
  | cons a as =>
    rw [hinc] at hh
    have := (has_iff_rk st true true (.el g.id)).mp hh
    omega

/-- **filter_drops_excludes** (output of `filterWith cfgFixed`). -/
theorem filterWith_drops_excludes (img : Image) (o : Opts) (fuel : Nat) (out : List OFile)
    (h : filterWith cfgFixed img o fuel = .ok out) (hu : UniqIdx (buildIndex img)) (hr : WFRefs (buildIndex img))
    (x : Id) (hx : ExclKey img o (.el x)) (of : OFile) (hof : of ∈ out) :
    x ∉ outIds of ∧ x ∉ typeRefs of ∧ ((o.includes ≠ [] ∨ NoImportCover img) → x ∉ extendeeRefs of) := by
  obtain ⟨st, hcl, hrw⟩ := filterWith_parts _ _ _ _ _ h
  obtain ⟨f, hf, hrf⟩ := rewrite_origin cfgFixed rfl st _ img out hrw of hof
  have hrf' : remapFile ⟨st, o.includes.isEmpty, true, true⟩ f = some of := hrf
  obtain ⟨o1, o2, o3, o4⟩ := origin_file _ f of (extsOK_file img hr f hf) hrf'
  have h4 : rk st (.el x) = 4 := closure_exclKey cfgFixed rfl img o fuel st hcl _ hx
  have hno : RCtx.has ⟨st, o.includes.isEmpty, true, true⟩ (.el x) = false := has_false_of_excl st _ _ _ _ h4
  refine ⟨?_, ?_, ?_⟩
  · intro hm
    rw [o1 x hm] at hno; cases hno
  · intro hm
    simp only [typeRefs, List.mem_append, List.mem_filterMap, List.mem_flatten, List.mem_map] at hm
    rcases hm with ⟨g, hg | hg, hty⟩ | ⟨l, ⟨m, hm, rfl⟩, hxl⟩
    · obtain ⟨_, _, _, _, _, _, _, _, _, _, ht⟩ := o2 g hg
      rw [ht x hty] at hno; cases hno
    · obtain ⟨_, _, _, _, _, _, ht⟩ := o3 g hg
      rw [ht x hty] at hno; cases hno
    · obtain ⟨_, _, _, _, _, _, _, hio, _⟩ := o4 m hm
      simp only [List.mem_cons, List.mem_nil_iff, or_false] at hxl
      rcases hxl with rfl | rfl
      · rw [(hio rfl).1] at hno; cases hno
      · rw [(hio rfl).2] at hno; cases hno
  · intro hmode hm
    simp only [extendeeRefs, List.mem_filterMap, List.mem_append] at hm
    obtain ⟨g, hg | hg, hext⟩ := hm
    · obtain ⟨j, hj, g0, hgj, _, _, _, hge, _⟩ := o2 g hg
      have := hr.fieldsPlain j (mem_buildIndex_of img f hf j hj) g0 hgj
      rw [hge, this] at hext; cases hext
    · obtain ⟨j, hfind, hk, hfld, _, h2, h3⟩ := kept_ext_visited img o fuel st hcl hu hr hmode f hf g (o3 g hg)
      have hs := closure_sinv cfgFixed rfl img o fuel st hu hcl
      have hne : NonExt ⟨cfgFixed, buildIndex img, o.customOpts⟩ (.el x) :=
        ⟨by intro m n; simp, fun ie hie => hr.extendeeMsg j (find_mem hfind) g x hfld hext ie hie⟩
      exact hs.ext (.el g.id) j g x hfind hk hfld hext hne h2 h3 h4

/-! ### filter_links, output level: every reference resolves inside the output -/

/-- a reference target: an indexed message / enum (not an extension, a method or a file) -/
def Target (idx : Index) (t : Id) : Prop :=
  ∃ it, idx.find (.el t) = some it ∧ it.fld = none ∧ it.kind ≠ .method ∧ it.kind ≠ .file

/-- "the image is well-formed: every reference resolves inside the image" (props.py assumption) -/
structure RefsResolve (idx : Index) : Prop where
  fieldTy : ∀ j ∈ idx, ∀ g ∈ j.fields, ∀ t, g.ty = some t → Target idx t
  extRefs : ∀ j ∈ idx, ∀ g, j.fld = some g →
    (∀ t, g.ty = some t → Target idx t) ∧ ∀ e, g.extendee = some e → Target idx e
  methodIO : ∀ j ∈ idx, j.kind = .method → Target idx j.input ∧ Target idx j.output

def targetB (idx : Index) (t : Id) : Bool :=
  match idx.find (.el t) with
  | some it => it.fld.isNone && it.kind != .method && it.kind != .file
  | none => false

theorem target_of_B (idx : Index) (t : Id) (h : targetB idx t = true) : Target idx t := by
  unfold targetB at h
  split at h
  · rename_i it hit
    simp only [Bool.and_eq_true, bne_iff_ne, ne_eq, Option.isNone_iff_eq_none] at h
    exact ⟨it, hit, h.1.1, h.1.2, h.2⟩
  · cases h

def refsResolveB (idx : Index) : Bool :=
  idx.all (fun j => j.fields.all (fun g => match g.ty with | some t => targetB idx t | none => true)) &&
  idx.all (fun j => match j.fld with
    | some g => (match g.ty with | some t => targetB idx t | none => true) &&
        (match g.extendee with | some e => targetB idx e | none => true)
    | none => true) &&
  idx.all (fun j => j.kind != .method || (targetB idx j.input && targetB idx j.output))

theorem refsResolve_of_B (idx : Index) (h : refsResolveB idx = true) : RefsResolve idx := by
  unfold refsResolveB at h
  simp only [Bool.and_eq_true, List.all_eq_true] at h
  obtain ⟨⟨h1, h2⟩, h3⟩ := h
  refine ⟨?_, ?_, ?_⟩
  · intro j hj g hg t ht
    have := h1 j hj g hg
    simp only [ht] at this
    exact target_of_B idx t this
  · intro j hj g hg
    have := h2 j hj
    simp only [hg, Bool.and_eq_true] at this
    constructor
    · intro t ht
      have := this.1; simp only [ht] at this; exact target_of_B idx t this
    · intro e he
      have := this.2; simp only [he] at this; exact target_of_B idx e this
  · intro j hj hk
    have := h3 j hj
    simp only [hk, bne_self_eq_false, Bool.false_or, Bool.and_eq_true] at this
    exact ⟨target_of_B idx _ this.1, target_of_B idx _ this.2⟩

theorem has_true_noInc (st : St) (mio rn : Bool) (k : Key) :
    (RCtx.has ⟨st, true, mio, rn⟩ k = true) ↔ rk st k ≠ 4 := by
  unfold RCtx.has hasType rk
  cases h : st.get k with
  | none => simp [rank]
  | some m => cases m <;> simp [rank]

/-- a kept element's parent is kept — in both modes of `hasType` -/
theorem up_all (c : Ctx) (hwf : WFIdx c.idx) (st : St) (hc : Closed c st) (hd : DC c.idx st) (noInc mio rn : Bool) :
    ∀ j ∈ c.idx, Up ⟨st, noInc, mio, rn⟩ j := by
  cases noInc with
  | false => exact up_of_closed c hwf st hc hd mio rn
  | true =>
    intro j hj hh p hp
    rw [has_true_noInc] at hh ⊢
    intro h4
    exact hh (hd j hj p hp h4)

/-- `has` and not enclosing-only, plus the mode hypothesis, means VISITED -/
theorem visited_of_has (img : Image) (o : Opts) (fuel : Nat) (st : St)
    (hcl : closure cfgFixed img o fuel = .ok st) (hu : UniqIdx (buildIndex img))
    (hmode : o.includes ≠ [] ∨ NoImportCover img) (f : File) (hf : f ∈ img.files) (j : Info) (hj : j ∈ fileInfos f)
    (hk1 : j.kind ≠ .file) (hk2 : j.kind ≠ .method)
    (hh : RCtx.has ⟨st, o.includes.isEmpty, true, true⟩ j.key = true) (h1 : rk st j.key ≠ 1) :
    2 ≤ rk st j.key ∧ rk st j.key ≤ 3 := by
  have hle := rk_le_four st j.key
  have hne4 : rk st j.key ≠ 4 := by
    intro h4
    rw [has_false_of_excl st _ _ _ _ h4] at hh; cases hh
  refine ⟨?_, by omega⟩
  cases hinc : o.includes with
  | nil =>
    rcases hmode with hm | hm
    · exact absurd hinc hm
    · exact excludeOnly_visited cfgFixed rfl img o fuel st hcl hu hinc hm f hf j hj hk1 hk2
  | cons a as =>
    rw [hinc] at hh
    have := (has_iff_rk st true true j.key).mp hh
    omega

/-- a visited message / enum / service is declared in the output, in the output file of its own file -/
theorem present_of_visited (img : Image) (o : Opts) (fuel : Nat) (st : St) (out : List OFile)
    (hcl : closure cfgFixed img o fuel = .ok st) (hrw : rewrite cfgFixed st o.includes.isEmpty img = .ok out)
    (hu : UniqIdx (buildIndex img)) (t : Id) (it : Info) (hfind : (buildIndex img).find (.el t) = some it)
    (hfld : it.fld = none) (hkm : it.kind ≠ .method) (hkf : it.kind ≠ .file)
    (h2 : 2 ≤ rk st (.el t)) (h3 : rk st (.el t) ≤ 3) :
    ∃ of ∈ out, of.id = it.file ∧ t ∈ outIds of := by
  let c : Ctx := ⟨cfgFixed, buildIndex img, o.customOpts⟩
  have hwf := wfIdx_of_uniq img hu
  obtain ⟨st0, h0, ho, hg⟩ := closure_good cfgFixed rfl img o fuel st hcl
  have hd0 := (dc_excludePhase img (buildIndex img) hwf st0 o.excludes h0).2
  have hd : DC c.idx st := dc_of_le c hwf st0 st hd0 hg.2
  have hup := up_all c hwf st hg.1 hd o.includes.isEmpty true true
  obtain ⟨f, hf, hif⟩ := mem_buildIndex img it (find_mem hfind)
  have hkey := find_key _ _ _ hfind
  have hhas : RCtx.has ⟨st, o.includes.isEmpty, true, true⟩ it.key = true := by
    rw [hkey]
    cases o.includes.isEmpty with
    | true => rw [has_true_noInc]; omega
    | false => rw [has_iff_rk]; exact ⟨by omega, h3⟩
  obtain ⟨of, hof, hid, hpres⟩ := pres_file ⟨st, o.includes.isEmpty, true, true⟩ f
    (fun j hj => hup j (mem_buildIndex_of img f hf j hj)) it hif hfld hkm hkf hhas
  have hfile := file_fileInfos f it hif
  have hseen : f.id ∈ st.seen := by
    have hr := (hg.1 (.el t) it hfind).2 h2 h3
    have := hr (.imp none it.file) (by unfold reqTasks postTasks; simp)
    rw [← hfile]
    exact this.1
  refine ⟨of, rewrite_mem cfgFixed rfl st _ img out hrw f hf hseen of hof, by rw [hid, hfile], ?_⟩
  rw [hkey] at hpres
  exact hpres

/-- **filter_links, output level (references).** -/
theorem filterWith_refs_resolve (img : Image) (o : Opts) (fuel : Nat) (out : List OFile)
    (h : filterWith cfgFixed img o fuel = .ok out) (hu : UniqIdx (buildIndex img)) (hr : WFRefs (buildIndex img))
    (hres : RefsResolve (buildIndex img)) (hmode : o.includes ≠ [] ∨ NoImportCover img)
    (of : OFile) (hof : of ∈ out) (t : Id) (ht : t ∈ typeRefs of ∨ t ∈ extendeeRefs of) :
    ∃ of' ∈ out, t ∈ outIds of' ∧ (of'.id = of.id ∨ of'.id ∈ of.deps) := by
  obtain ⟨st, hcl, hrw⟩ := filterWith_parts _ _ _ _ _ h
  obtain ⟨f, hf, hrf⟩ := rewrite_origin cfgFixed rfl st _ img out hrw of hof
  have hrf' : remapFile ⟨st, o.includes.isEmpty, true, true⟩ f = some of := hrf
  obtain ⟨_, o2, o3, o4⟩ := origin_file _ f of (extsOK_file img hr f hf) hrf'
  obtain ⟨hid, hdeps⟩ := remapFile_deps _ f of hrf'
  let c : Ctx := ⟨cfgFixed, buildIndex img, o.customOpts⟩
  obtain ⟨st0, h0, ho, hgood⟩ := closure_good cfgFixed rfl img o fuel st hcl
  have hs := closure_sinv cfgFixed rfl img o fuel st hu hcl
  -- the common finishing move
  have fin : ∀ x, Target (buildIndex img) x → PostAdd c st (.el x) (some f.id) → rk st (.el x) ≠ 4 →
      ∃ of' ∈ out, x ∈ outIds of' ∧ (of'.id = of.id ∨ of'.id ∈ of.deps) := by
    intro x ⟨it, hit, hfld, hkm, hkf⟩ hp hne
    obtain ⟨h2, he⟩ := hp it hit
    have h3 : rk st (.el x) ≤ 3 := by have := rk_le_four st (.el x); omega
    obtain ⟨of', hof', hid', hpres⟩ := present_of_visited img o fuel st out hcl hrw hu x it hit hfld hkm hkf h2 h3
    refine ⟨of', hof', hpres, ?_⟩
    rcases he with h4 | he
    · exact absurd h4 hne
    · rcases he.2 f.id rfl with e | e
      · left; rw [hid', hid, e]
      · right; rw [hid', hdeps]; exact remapDeps_lists st f it.file e
  have hne_of_has : ∀ x, RCtx.has ⟨st, o.includes.isEmpty, true, true⟩ (.el x) = true → rk st (.el x) ≠ 4 := by
    intro x hx h4
    rw [has_false_of_excl st _ _ _ _ h4] at hx; cases hx
  -- a kept ordinary field
  have fieldCase : ∀ g ∈ allFields of, ∀ x, g.ty = some x →
      ∃ of' ∈ out, x ∈ outIds of' ∧ (of'.id = of.id ∨ of'.id ∈ of.deps) := by
    intro g hg x hx
    obtain ⟨j, hj, g0, hgj, hk, _, hgt, _, hhas, hne, hty⟩ := o2 g hg
    have hx0 : g0.ty = some x := by rw [← hgt]; exact hx
    have hjidx := mem_buildIndex_of img f hf j hj
    have hjfind : c.idx.find j.key = some j := hu j hjidx
    have h1 : rk st j.key ≠ 1 := by
      intro h1
      apply hne
      unfold rk at h1
      cases hm : st.get j.key with
      | none => rw [hm] at h1; simp [rank] at h1
      | some m => rw [hm] at h1; cases m <;> simp [rank] at h1 ⊢
    obtain ⟨h2, h3⟩ := visited_of_has img o fuel st hcl hu hmode f hf j hj (by rw [hk]; simp) (by rw [hk]; simp) hhas h1
    have hreq := (hgood.1 j.key j hjfind).2 h2 h3
    have hp := hreq (.field g0 j.file) (by
      unfold reqTasks; rw [hk]
      simp only [List.mem_append, List.mem_map]
      exact Or.inl (Or.inl (Or.inl ⟨g0, hgj, rfl⟩)))
    have hne4 := hne_of_has x (hty x hx)
    rcases hp with ⟨t', ht', h4⟩ | ⟨h1', _⟩
    · rw [hx0] at ht'; cases ht'; exact absurd h4 hne4
    · have := h1' x hx0
      rw [file_fileInfos f j hj] at this
      exact fin x (hres.fieldTy j hjidx g0 hgj x hx0) this hne4
  -- a kept extension
  have extCase : ∀ g ∈ allExts of, (∀ x, g.ty = some x →
      ∃ of' ∈ out, x ∈ outIds of' ∧ (of'.id = of.id ∨ of'.id ∈ of.deps)) ∧
      (∀ x, g.extendee = some x → ∃ of' ∈ out, x ∈ outIds of' ∧ (of'.id = of.id ∨ of'.id ∈ of.deps)) := by
    intro g hg
    have horig := o3 g hg
    obtain ⟨j, hjfind, hk, hfld, hjfile, h2, h3⟩ := kept_ext_visited img o fuel st hcl hu hr hmode f hf g horig
    obtain ⟨_, _, _, _, _, _, hty⟩ := horig
    have hreq := (hgood.1 (.el g.id) j hjfind).2 h2 h3
    constructor
    · intro x hx
      have hp := hreq (.add (.el x) (some j.file) false) (by
        unfold reqTasks
        cases he : g.extendee <;> simp [hk, hfld, hx, he])
      rw [hjfile] at hp
      exact fin x ((hres.extRefs j (find_mem hjfind) g hfld).1 x hx) hp (hne_of_has x (hty x hx))
    · intro x hx
      have hp := hreq (.add (.el x) (some j.file) false) (by
        unfold reqTasks
        simp [hk, hfld, hx])
      rw [hjfile] at hp
      have htgt := (hres.extRefs j (find_mem hjfind) g hfld).2 x hx
      have hnon : NonExt c (.el x) :=
        ⟨by intro m n; simp, fun ie hie => hr.extendeeMsg j (find_mem hjfind) g x hfld hx ie hie⟩
      exact fin x htgt hp (hs.ext (.el g.id) j g x hjfind hk hfld hx hnon h2 h3)
  -- a kept method
  have methodCase : ∀ m ∈ allMethods of, ∀ x, (x = m.input ∨ x = m.output) →
      ∃ of' ∈ out, x ∈ outIds of' ∧ (of'.id = of.id ∨ of'.id ∈ of.deps) := by
    intro m hm x hx
    obtain ⟨j, hj, hk, hkey, hin, hout, hhas, hio, js, hjs, hks, hmjs, hhs⟩ := o4 m hm
    have hjidx := mem_buildIndex_of img f hf j hj
    have hjfind : c.idx.find (.el m.id) = some j := by rw [← hkey]; exact hu j hjidx
    have hio' := hio rfl
    have hne4 : rk st (.el m.id) ≠ 4 := hne_of_has _ hhas
    have h1 : rk st (.el m.id) ≠ 1 := by
      intro h1
      exact (hs.noEncl _ h1).2 j hjfind hk
    have h2 : 2 ≤ rk st (.el m.id) := by
      cases hinc : o.includes with
      | cons a as =>
        rw [hinc] at hhas
        have := (has_iff_rk st true true (.el m.id)).mp hhas
        omega
      | nil =>
        rcases hmode with hmd | hmd
        · exact absurd hinc hmd
        · have hjsidx := mem_buildIndex_of img f hf js hjs
          have hjsfind : c.idx.find js.key = some js := hu js hjsidx
          have hs1 : rk st js.key ≠ 1 := by
            intro h1'
            -- a service may well be a parent; rank 1 is ruled out by the include-everything pass
            have hv := excludeOnly_visited cfgFixed rfl img o fuel st hcl hu hinc hmd f hf js hjs
              (by rw [hks]; simp) (by rw [hks]; simp)
            omega
          obtain ⟨hv2, hv3⟩ := visited_of_has img o fuel st hcl hu (Or.inr hmd) f hf js hjs (by rw [hks]; simp)
            (by rw [hks]; simp) hhs hs1
          have hreq := (hgood.1 js.key js hjsfind).2 hv2 hv3
          have hp := hreq (.svcMethod m) (by
            unfold reqTasks; rw [hks]
            simp only [List.mem_append, List.mem_map]
            exact Or.inl ⟨m, hmjs, rfl⟩)
          rcases hp with h4 | h4 | hp
          · exact absurd h4 (hne_of_has _ hio'.1)
          · exact absurd h4 (hne_of_has _ hio'.2)
          · exact (hp j hjfind).1
    have h3 : rk st (.el m.id) ≤ 3 := by have := rk_le_four st (.el m.id); omega
    have hreq := (hgood.1 (.el m.id) j hjfind).2 h2 h3
    have htg := hres.methodIO j hjidx hk
    have hjfile := file_fileInfos f j hj
    rcases hx with rfl | rfl
    · have hp := hreq (.add (.el j.input) (some j.file) false) (by unfold reqTasks; rw [hk]; simp)
      rw [hin, hjfile] at hp
      exact fin _ (by rw [← hin]; exact htg.1) hp (hne_of_has _ hio'.1)
    · have hp := hreq (.add (.el j.output) (some j.file) false) (by unfold reqTasks; rw [hk]; simp)
      rw [hout, hjfile] at hp
      exact fin _ (by rw [← hout]; exact htg.2) hp (hne_of_has _ hio'.2)
  rcases ht with ht | ht
  · simp only [typeRefs, List.mem_append, List.mem_filterMap, List.mem_flatten, List.mem_map] at ht
    rcases ht with ⟨g, hg | hg, hty⟩ | ⟨l, ⟨m, hm, rfl⟩, hxl⟩
    · exact fieldCase g hg t hty
    · exact (extCase g hg).1 t hty
    · simp only [List.mem_cons, List.mem_nil_iff, or_false] at hxl
      exact methodCase m hm t hxl
  · simp only [extendeeRefs, List.mem_filterMap, List.mem_append] at ht
    obtain ⟨g, hg | hg, hext⟩ := ht
    · obtain ⟨j, hj, g0, hgj, _, _, _, hge, _⟩ := o2 g hg
      have := hr.fieldsPlain j (mem_buildIndex_of img f hf j hj) g0 hgj
      rw [hge, this] at hext; cases hext
    · exact (extCase g hg).2 t hext

/-- executable form of `ExclKey` (for concrete witnesses) -/
def exclKeyB (img : Image) (o : Opts) (k : Key) : Bool :=
  o.excludes.any (fun n => match (buildIndex img).find (.el n) with
    | some i => (i.key :: i.desc).contains k
    | none => (filesOfPkg img n).any (fun f => match (buildIndex img).find (.file f.id) with
      | some i => (i.key :: i.desc).contains k
      | none => false))

theorem exclKey_of_B (img : Image) (o : Opts) (k : Key) (h : exclKeyB img o k = true) : ExclKey img o k := by
  unfold exclKeyB at h
  rw [List.any_eq_true] at h
  obtain ⟨n, hn, hb⟩ := h
  refine ⟨n, hn, ?_⟩
  cases hf : (buildIndex img).find (.el n) with
  | some i =>
    rw [hf] at hb
    exact Or.inl ⟨i, hf, by simpa using hb⟩
  | none =>
    rw [hf] at hb
    simp only [List.any_eq_true] at hb
    obtain ⟨f, hfm, hb⟩ := hb
    cases hg : (buildIndex img).find (.file f.id) with
    | some i =>
      rw [hg] at hb
      exact Or.inr ⟨hf, f, hfm, i, hg, by simpa using hb⟩
    | none => rw [hg] at hb; cases hb

end BufProofs.FilterOutput
