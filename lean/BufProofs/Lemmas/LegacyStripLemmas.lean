import BufModel.LegacyStrip
/-
  Lemmas about BufModel.LegacyStrip (stripLegacyOptions):
    * the two slice loops (`stripExtsGo`, `stripRangesGo`) compute filter+map, and return nil iff
      nothing is legacy;
    * the pointer discipline: `Inv s m L S` — the caller's object is still `m`, the private copy
      exists iff something legacy was met (`L`) and then equals `S`, and `S = m` when `L` is false;
      every phase of the message function preserves it (`childLoop_inv`, `phase_write`);
    * `nestedLoop` is `childLoop` on the nested messages.
-/
namespace BufProofs.LegacyStripLemmas
open BufModel.LegacyStrip

/-! ## lists -/

theorem set_length_append {β : Type} (pre : List β) (c d : β) (cs : List β) :
    (pre ++ c :: cs).set pre.length d = pre ++ d :: cs := by
  induction pre with
  | nil => rfl
  | cons a t ih => simp only [List.cons_append, List.length_cons, List.set_cons_succ, ih]

theorem map_id_of_forall {β : Type} (f : β → β) (l : List β) (h : ∀ c ∈ l, f c = c) : l.map f = l := by
  induction l with
  | nil => rfl
  | cons a t ih =>
    simp only [List.map_cons]
    rw [h a (List.mem_cons_self), ih (fun c hc => h c (List.mem_cons_of_mem _ hc))]

theorem any_false_forall {β : Type} (p : β → Bool) (l : List β) (h : l.any p = false) : ∀ c ∈ l, p c = false := by
  intro c hc
  cases hp : p c with
  | false => rfl
  | true =>
    have : l.any p = true := List.any_eq_true.mpr ⟨c, hc, hp⟩
    rw [h] at this; cases this

/-! ## fields -/

theorem specFld_of_not_weak (f : Fld) (h : f.isWeak = false) : specFld f = f := by
  unfold specFld; rw [h]; rfl

theorem specFld_of_weak (f : Fld) (h : f.isWeak = true) : specFld f = f.clearWeak := by
  unfold specFld; rw [h]; rfl

theorem stripField_eq (f : Fld) : stripField f = if f.isWeak then some (specFld f) else none := by
  unfold stripField
  cases h : f.isWeak with
  | false => rfl
  | true => simp only [if_true]; rw [specFld_of_weak f h]

theorem clearWeak_not_weak (f : Fld) : f.clearWeak.isWeak = false := by
  unfold Fld.clearWeak Fld.isWeak
  cases f.opts with
  | none => rfl
  | some o => rfl

theorem specFld_not_weak (f : Fld) : (specFld f).isWeak = false := by
  cases h : f.isWeak with
  | false => rw [specFld_of_not_weak f h]; exact h
  | true => rw [specFld_of_weak f h]; exact clearWeak_not_weak f

theorem specFld_number (f : Fld) : (specFld f).getNumber = f.getNumber := by
  unfold specFld; split <;> rfl

/-! ## extensions -/

theorem specExts_append (a b : List Fld) : specExts (a ++ b) = specExts a ++ specExts b := by
  unfold specExts; rw [List.filter_append, List.map_append]

theorem specExts_single_drop (e : Fld) (h : e.getNumber > maxTag) : specExts [e] = [] := by
  unfold specExts
  have : decide (e.getNumber ≤ maxTag) = false := decide_eq_false (by omega)
  simp only [List.filter_cons, this, List.filter_nil, List.map_nil, Bool.false_eq_true, if_false]

theorem specExts_single_keep (e : Fld) (h : ¬ e.getNumber > maxTag) : specExts [e] = [specFld e] := by
  unfold specExts
  have : decide (e.getNumber ≤ maxTag) = true := decide_eq_true (by omega)
  simp only [List.filter_cons, this, List.filter_nil, List.map_cons, List.map_nil, if_true]

theorem legacyExt_false (e : Fld) (h : e.legacyExt = false) : ¬ e.getNumber > maxTag ∧ e.isWeak = false := by
  unfold Fld.legacyExt at h
  rw [Bool.or_eq_false_iff] at h
  exact ⟨of_decide_eq_false h.1, h.2⟩

theorem specExts_id (l : List Fld) (h : l.any Fld.legacyExt = false) : specExts l = l := by
  induction l with
  | nil => rfl
  | cons e t ih =>
    rw [List.any_cons, Bool.or_eq_false_iff] at h
    have he := legacyExt_false e h.1
    have : specExts (e :: t) = specExts [e] ++ specExts t := specExts_append [e] t
    rw [this, specExts_single_keep e he.1, specFld_of_not_weak e he.2, ih h.2]; rfl

/-- the accumulator a `stripExtsGo` run holds after the prefix `seen` -/
def extsAcc (seen : List Fld) : Option (List Fld) :=
  if seen.any Fld.legacyExt then some (specExts seen) else none

theorem extsAcc_getD (seen : List Fld) : (extsAcc seen).getD seen = specExts seen := by
  unfold extsAcc
  cases h : seen.any Fld.legacyExt with
  | true => rfl
  | false => simp only [Bool.false_eq_true, if_false, Option.getD_none]; exact (specExts_id seen h).symm

theorem stripExtsGo_cons (seen : List Fld) (e : Fld) (rest : List Fld) (acc : Option (List Fld)) :
    stripExtsGo seen (e :: rest) acc =
      if e.getNumber > maxTag then stripExtsGo (seen ++ [e]) rest (some (acc.getD seen))
      else match stripField e with
        | some d => stripExtsGo (seen ++ [e]) rest (some (acc.getD seen ++ [d]))
        | none => stripExtsGo (seen ++ [e]) rest (acc.map (· ++ [e])) := by
  rfl

theorem extsAcc_snoc_drop (seen : List Fld) (e : Fld) (hn : e.getNumber > maxTag) :
    some ((extsAcc seen).getD seen) = extsAcc (seen ++ [e]) := by
  have hleg : e.legacyExt = true := by unfold Fld.legacyExt; rw [decide_eq_true hn]; rfl
  rw [extsAcc_getD]
  unfold extsAcc
  rw [List.any_append, List.any_cons, hleg, Bool.true_or, Bool.or_true]
  simp only [if_true]
  rw [specExts_append, specExts_single_drop e hn, List.append_nil]

theorem extsAcc_snoc_weak (seen : List Fld) (e : Fld) (hn : ¬ e.getNumber > maxTag) (hw : e.isWeak = true) :
    some ((extsAcc seen).getD seen ++ [specFld e]) = extsAcc (seen ++ [e]) := by
  have hleg : e.legacyExt = true := by unfold Fld.legacyExt; rw [hw]; exact Bool.or_true _
  rw [extsAcc_getD]
  unfold extsAcc
  rw [List.any_append, List.any_cons, hleg, Bool.true_or, Bool.or_true]
  simp only [if_true]
  rw [specExts_append, specExts_single_keep e hn]

theorem extsAcc_snoc_keep (seen : List Fld) (e : Fld) (hn : ¬ e.getNumber > maxTag) (hw : e.isWeak = false) :
    (extsAcc seen).map (· ++ [e]) = extsAcc (seen ++ [e]) := by
  have hleg : e.legacyExt = false := by unfold Fld.legacyExt; rw [hw, decide_eq_false hn]; rfl
  unfold extsAcc
  rw [List.any_append, List.any_cons, hleg, List.any_nil, Bool.or_false, Bool.or_false]
  cases seen.any Fld.legacyExt with
  | true =>
    simp only [if_true, Option.map_some]
    rw [specExts_append, specExts_single_keep e hn, specFld_of_not_weak e hw]
  | false => rfl

theorem stripExtsGo_spec (rest : List Fld) : ∀ seen : List Fld,
    stripExtsGo seen rest (extsAcc seen) = extsAcc (seen ++ rest) := by
  induction rest with
  | nil => intro seen; simp only [stripExtsGo, List.append_nil]
  | cons e t ih =>
    intro seen
    have hsplit : seen ++ e :: t = (seen ++ [e]) ++ t := by simp only [List.append_assoc, List.cons_append, List.nil_append]
    rw [hsplit, ← ih (seen ++ [e]), stripExtsGo_cons]
    by_cases hn : e.getNumber > maxTag
    · rw [if_pos hn, extsAcc_snoc_drop seen e hn]
    · rw [if_neg hn, stripField_eq]
      cases hw : e.isWeak with
      | true => simp only [if_true]; rw [extsAcc_snoc_weak seen e hn hw]
      | false => simp only [Bool.false_eq_true, if_false]; rw [extsAcc_snoc_keep seen e hn hw]

theorem stripExts_spec (l : List Fld) :
    stripExts l = if l.any Fld.legacyExt then some (specExts l) else none := by
  have := stripExtsGo_spec l []
  unfold stripExts
  simpa only [extsAcc, List.any_nil, Bool.false_eq_true, if_false, List.nil_append] using this

theorem specExts_no_legacy (l : List Fld) : (specExts l).any Fld.legacyExt = false := by
  induction l with
  | nil => rfl
  | cons e t ih =>
    have : specExts (e :: t) = specExts [e] ++ specExts t := specExts_append [e] t
    rw [this, List.any_append, ih, Bool.or_false]
    by_cases hn : e.getNumber > maxTag
    · rw [specExts_single_drop e hn]; rfl
    · rw [specExts_single_keep e hn, List.any_cons, List.any_nil, Bool.or_false]
      unfold Fld.legacyExt
      rw [specFld_not_weak, specFld_number, decide_eq_false hn]; rfl

/-! ## extension ranges -/

theorem specRanges_append (a b : List ERange) : specRanges (a ++ b) = specRanges a ++ specRanges b := by
  unfold specRanges; rw [List.filter_append, List.map_append]

theorem specRanges_single_drop (e : ERange) (h : e.getStart > maxTag) : specRanges [e] = [] := by
  unfold specRanges
  have : decide (e.getStart ≤ maxTag) = false := decide_eq_false (by omega)
  simp only [List.filter_cons, this, List.filter_nil, List.map_nil, Bool.false_eq_true, if_false]

theorem specRanges_single_keep (e : ERange) (h : ¬ e.getStart > maxTag) : specRanges [e] = [specRange e] := by
  unfold specRanges
  have : decide (e.getStart ≤ maxTag) = true := decide_eq_true (by omega)
  simp only [List.filter_cons, this, List.filter_nil, List.map_cons, List.map_nil, if_true]

theorem range_legacy_false (e : ERange) (h : e.legacy = false) : ¬ e.getStart > maxTag ∧ ¬ e.getStop > maxTag + 1 := by
  unfold ERange.legacy at h
  rw [Bool.or_eq_false_iff] at h
  exact ⟨of_decide_eq_false h.1, of_decide_eq_false h.2⟩

theorem specRange_id (e : ERange) (h : ¬ e.getStop > maxTag + 1) : specRange e = e := by
  unfold specRange; rw [if_neg h]

theorem specRanges_id (l : List ERange) (h : l.any ERange.legacy = false) : specRanges l = l := by
  induction l with
  | nil => rfl
  | cons e t ih =>
    rw [List.any_cons, Bool.or_eq_false_iff] at h
    have he := range_legacy_false e h.1
    have : specRanges (e :: t) = specRanges [e] ++ specRanges t := specRanges_append [e] t
    rw [this, specRanges_single_keep e he.1, specRange_id e he.2, ih h.2]; rfl

def rangesAcc (seen : List ERange) : Option (List ERange) :=
  if seen.any ERange.legacy then some (specRanges seen) else none

theorem rangesAcc_getD (seen : List ERange) : (rangesAcc seen).getD seen = specRanges seen := by
  unfold rangesAcc
  cases h : seen.any ERange.legacy with
  | true => rfl
  | false => simp only [Bool.false_eq_true, if_false, Option.getD_none]; exact (specRanges_id seen h).symm

theorem stripRangesGo_cons (seen : List ERange) (e : ERange) (rest : List ERange) (acc : Option (List ERange)) :
    stripRangesGo seen (e :: rest) acc =
      if e.getStart > maxTag then stripRangesGo (seen ++ [e]) rest (some (acc.getD seen))
      else if e.getStop > maxTag + 1 then
        stripRangesGo (seen ++ [e]) rest (some (acc.getD seen ++ [{ e with stop := some (maxTag + 1) }]))
      else stripRangesGo (seen ++ [e]) rest (acc.map (· ++ [e])) := by
  rfl

theorem rangesAcc_snoc_drop (seen : List ERange) (e : ERange) (hs : e.getStart > maxTag) :
    some ((rangesAcc seen).getD seen) = rangesAcc (seen ++ [e]) := by
  have hleg : e.legacy = true := by unfold ERange.legacy; rw [decide_eq_true hs]; rfl
  rw [rangesAcc_getD]
  unfold rangesAcc
  rw [List.any_append, List.any_cons, hleg, Bool.true_or, Bool.or_true]
  simp only [if_true]
  rw [specRanges_append, specRanges_single_drop e hs, List.append_nil]

theorem rangesAcc_snoc_clip (seen : List ERange) (e : ERange) (hs : ¬ e.getStart > maxTag) (hE : e.getStop > maxTag + 1) :
    some ((rangesAcc seen).getD seen ++ [{ e with stop := some (maxTag + 1) }]) = rangesAcc (seen ++ [e]) := by
  have hleg : e.legacy = true := by unfold ERange.legacy; rw [decide_eq_true hE]; exact Bool.or_true _
  rw [rangesAcc_getD]
  unfold rangesAcc
  rw [List.any_append, List.any_cons, hleg, Bool.true_or, Bool.or_true]
  simp only [if_true]
  rw [specRanges_append, specRanges_single_keep e hs]
  have : specRange e = { e with stop := some (maxTag + 1) } := by unfold specRange; rw [if_pos hE]
  rw [this]

theorem rangesAcc_snoc_keep (seen : List ERange) (e : ERange) (hs : ¬ e.getStart > maxTag) (hE : ¬ e.getStop > maxTag + 1) :
    (rangesAcc seen).map (· ++ [e]) = rangesAcc (seen ++ [e]) := by
  have hleg : e.legacy = false := by unfold ERange.legacy; rw [decide_eq_false hs, decide_eq_false hE]; rfl
  unfold rangesAcc
  rw [List.any_append, List.any_cons, hleg, List.any_nil, Bool.or_false, Bool.or_false]
  cases seen.any ERange.legacy with
  | true =>
    simp only [if_true, Option.map_some]
    rw [specRanges_append, specRanges_single_keep e hs, specRange_id e hE]
  | false => rfl

theorem stripRangesGo_spec (rest : List ERange) : ∀ seen : List ERange,
    stripRangesGo seen rest (rangesAcc seen) = rangesAcc (seen ++ rest) := by
  induction rest with
  | nil => intro seen; simp only [stripRangesGo, List.append_nil]
  | cons e t ih =>
    intro seen
    have hsplit : seen ++ e :: t = (seen ++ [e]) ++ t := by simp only [List.append_assoc, List.cons_append, List.nil_append]
    rw [hsplit, ← ih (seen ++ [e]), stripRangesGo_cons]
    by_cases hs : e.getStart > maxTag
    · rw [if_pos hs, rangesAcc_snoc_drop seen e hs]
    · rw [if_neg hs]
      by_cases hE : e.getStop > maxTag + 1
      · rw [if_pos hE, rangesAcc_snoc_clip seen e hs hE]
      · rw [if_neg hE, rangesAcc_snoc_keep seen e hs hE]

theorem stripRanges_spec (l : List ERange) :
    stripRanges l = if l.any ERange.legacy then some (specRanges l) else none := by
  have := stripRangesGo_spec l []
  unfold stripRanges
  simpa only [rangesAcc, List.any_nil, Bool.false_eq_true, if_false, List.nil_append] using this

theorem specRange_clean (e : ERange) (h : ¬ e.getStart > maxTag) : (specRange e).legacy = false := by
  unfold ERange.legacy
  by_cases hE : e.getStop > maxTag + 1
  · have : specRange e = { e with stop := some (maxTag + 1) } := by unfold specRange; rw [if_pos hE]
    rw [this]
    have h1 : ¬ ERange.getStart { e with stop := some (maxTag + 1) } > maxTag := h
    have h2 : ¬ ERange.getStop { e with stop := some (maxTag + 1) } > maxTag + 1 := by
      show ¬ (maxTag + 1 > maxTag + 1); omega
    rw [decide_eq_false h1, decide_eq_false h2]; rfl
  · rw [specRange_id e hE, decide_eq_false h, decide_eq_false hE]; rfl

theorem specRanges_no_legacy (l : List ERange) : (specRanges l).any ERange.legacy = false := by
  induction l with
  | nil => rfl
  | cons e t ih =>
    have : specRanges (e :: t) = specRanges [e] ++ specRanges t := specRanges_append [e] t
    rw [this, List.any_append, ih, Bool.or_false]
    by_cases hs : e.getStart > maxTag
    · rw [specRanges_single_drop e hs]; rfl
    · rw [specRanges_single_keep e hs, List.any_cons, List.any_nil, Bool.or_false]
      exact specRange_clean e hs

/-! ## the pointer discipline -/

section St
variable {α : Type}

theorem ensure_write_orig (s : St α) (f : α → α) : (s.ensure.write f).orig = s.orig := by
  cases s with
  | mk o c => cases c <;> rfl

theorem ensure_write_clone (s : St α) (f : α → α) : (s.ensure.write f).clone = some (f s.cur) := by
  cases s with
  | mk o c => cases c <;> rfl

/-- the caller's object is `m`; a private copy exists iff `L`, it is `S`; `S = m` while `L` is false -/
structure Inv (s : St α) (m : α) (L : Bool) (S : α) : Prop where
  orig : s.orig = m
  clone : s.clone = if L then some S else none
  same : L = false → S = m

theorem Inv.cur {s : St α} {m S : α} {L : Bool} (h : Inv s m L S) : s.cur = S := by
  unfold St.cur
  rw [h.clone, h.orig]
  cases hL : L with
  | true => rfl
  | false => simp only [Bool.false_eq_true, if_false, Option.getD_none]; exact (h.same hL).symm

theorem Inv.init (m : α) : Inv (⟨m, none⟩ : St α) m false m := ⟨rfl, rfl, fun _ => rfl⟩

/-- `if res != nil { ensure clone; x.F = res }` -/
theorem phase_write {γ : Type} {s : St α} {m S : α} {L : Bool} (h : Inv s m L S)
    (res : Option γ) (put : γ → α → α) (leg : Bool) (v : γ)
    (hres : res = if leg then some v else none) (hid : leg = false → put v S = S) :
    Inv (s.writeIf res put) m (L || leg) (put v S) := by
  unfold St.writeIf
  cases hl : leg with
  | false =>
    rw [hres, hl]
    simp only [Bool.false_eq_true, if_false, Bool.or_false]
    rw [hid hl]; exact h
  | true =>
    rw [hres, hl]
    simp only [if_true, Bool.or_true]
    exact ⟨by rw [ensure_write_orig]; exact h.orig, by rw [ensure_write_clone, h.cur]; rfl, fun hf => by cases hf⟩

end St

structure LawfulLens {α β : Type} (L : Lens α β) : Prop where
  get_put : ∀ l a, L.get (L.put l a) = l
  put_put : ∀ l l' a, L.put l (L.put l' a) = L.put l a
  put_get : ∀ a, L.put (L.get a) a = a

theorem fieldsL_lawful : LawfulLens fieldsL :=
  ⟨fun _ a => by cases a; rfl, fun _ _ a => by cases a; rfl, fun a => by cases a; rfl⟩
theorem nestedL_lawful : LawfulLens nestedL :=
  ⟨fun _ a => by cases a; rfl, fun _ _ a => by cases a; rfl, fun a => by cases a; rfl⟩
theorem msgsL_lawful : LawfulLens msgsL :=
  ⟨fun _ _ => rfl, fun _ _ _ => rfl, fun _ => rfl⟩

section Loop
variable {α β : Type}

theorem setAt_self (L : Lens α β) (hL : LawfulLens L) (a : α) (pre : List β) (c : β) (cs : List β)
    (h : L.get a = pre ++ c :: cs) : L.setAt pre.length c a = a := by
  unfold Lens.setAt
  rw [h, set_length_append, ← h, hL.put_get]

theorem setAt_put (L : Lens α β) (a : α) (pre : List β) (c d : β) (cs : List β)
    (h : L.get a = pre ++ c :: cs) : L.setAt pre.length d a = L.put (pre ++ d :: cs) a := by
  unfold Lens.setAt
  rw [h, set_length_append]

/-- The loop as written (`faithful = true`), when every child call leaves its argument alone and
    returns `some (sp c)` exactly for the legacy children: the caller's object is untouched; the
    private copy exists iff it existed before or some child is legacy, and holds the children
    processed so far replaced. -/
theorem childLoop_spec (L : Lens α β) (hL : LawfulLens L) (strip : β → β × Option β)
    (leg : β → Bool) (sp : β → β) (own : Bool) (todo : List β) :
    ∀ (opre cpre : List β) (s : St α),
      (∀ c ∈ todo, strip c = (c, if leg c then some (sp c) else none)) →
      L.get s.orig = opre ++ todo → L.get s.cur = cpre ++ todo → opre.length = cpre.length →
      (own = false → s.clone.isSome = true) →
      (childLoop L strip true own cpre.length todo s).orig = s.orig ∧
      (childLoop L strip true own cpre.length todo s).clone =
        if s.clone.isSome || todo.any leg
        then some (L.put (cpre ++ todo.map (fun c => if leg c then sp c else c)) s.cur) else none := by
  induction todo with
  | nil =>
    intro opre cpre s _ _ hc _ _
    refine ⟨rfl, ?_⟩
    simp only [childLoop, List.any_nil, Bool.or_false, List.map_nil]
    rw [← hc, hL.put_get]
    unfold St.cur
    cases s.clone <;> rfl
  | cons c cs ih =>
    intro opre cpre s hstrip ho hc hlen hown
    have hsc := hstrip c List.mem_cons_self
    -- writing the (unchanged) child back into its owner changes nothing
    have hback : (if own = true then ({ s with orig := L.setAt cpre.length (strip c).1 s.orig } : St α)
                  else { s with clone := s.clone.map (L.setAt cpre.length (strip c).1) }) = s := by
      rw [hsc]
      cases own with
      | true =>
        simp only [if_true]
        rw [← hlen, setAt_self L hL s.orig opre c cs ho]
      | false =>
        simp only [Bool.false_eq_true, if_false]
        have hsome := hown rfl
        cases hcl : s.clone with
        | none => rw [hcl] at hsome; cases hsome
        | some k =>
          have hk : s.cur = k := by unfold St.cur; rw [hcl]; rfl
          rw [hk] at hc
          simp only [Option.map_some]
          rw [setAt_self L hL k cpre c cs hc]
          cases s; simp only at hcl; rw [hcl]
    have hsplit : ∀ (p : List β) (x : β) (t : List β), p ++ x :: t = (p ++ [x]) ++ t := by
      intro p x t; simp only [List.append_assoc, List.cons_append, List.nil_append]
    unfold childLoop
    simp only []
    rw [hback, hsc]
    cases hl : leg c with
    | false =>
      simp only [Bool.false_eq_true, if_false]
      have := ih (opre ++ [c]) (cpre ++ [c]) s (fun x hx => hstrip x (List.mem_cons_of_mem _ hx))
        (by rw [ho, hsplit]) (by rw [hc, hsplit]) (by simp only [List.length_append, hlen]) hown
      rw [List.length_append, List.length_singleton] at this
      refine ⟨this.1, ?_⟩
      rw [this.2, List.any_cons, hl, Bool.false_or, List.map_cons, hl]
      simp only [Bool.false_eq_true, if_false, List.append_assoc, List.cons_append, List.nil_append]
    | true =>
      simp only [if_true]
      have horig : (s.ensure.write (L.setAt cpre.length (sp c))).orig = s.orig := ensure_write_orig _ _
      have hclone : (s.ensure.write (L.setAt cpre.length (sp c))).clone = some (L.put (cpre ++ sp c :: cs) s.cur) := by
        rw [ensure_write_clone, setAt_put L s.cur cpre c (sp c) cs hc]
      have hcur : (s.ensure.write (L.setAt cpre.length (sp c))).cur = L.put (cpre ++ sp c :: cs) s.cur := by
        unfold St.cur; rw [hclone]; rfl
      have := ih (opre ++ [c]) (cpre ++ [sp c]) (s.ensure.write (L.setAt cpre.length (sp c)))
        (fun x hx => hstrip x (List.mem_cons_of_mem _ hx))
        (by rw [horig, ho, hsplit]) (by rw [hcur, hL.get_put, hsplit])
        (by simp only [List.length_append, List.length_singleton, hlen])
        (fun _ => by rw [hclone]; rfl)
      rw [List.length_append, List.length_singleton] at this
      refine ⟨by rw [this.1, horig], ?_⟩
      rw [this.2, hclone, hcur, hL.put_put]
      simp only [Option.isSome_some, Bool.true_or, if_true, List.any_cons, hl, Bool.or_true, List.map_cons,
        List.append_assoc, List.cons_append, List.nil_append]

/-- `childLoop_spec` from the start of a loop, in terms of the invariant -/
theorem childLoop_inv (L : Lens α β) (hL : LawfulLens L) (strip : β → β × Option β)
    (leg : β → Bool) (sp : β → β) (todo : List β) {s : St α} {m S : α} {L0 : Bool}
    (h : Inv s m L0 S) (hm : L.get m = todo) (hS : L.get S = todo)
    (hstrip : ∀ c ∈ todo, strip c = (c, if leg c then some (sp c) else none))
    (hid : ∀ c ∈ todo, leg c = false → sp c = c) :
    Inv (childLoop L strip true s.clone.isNone 0 todo s) m (L0 || todo.any leg) (L.put (todo.map sp) S) := by
  have hmap : todo.map (fun c => if leg c then sp c else c) = todo.map sp := by
    apply List.map_congr_left
    intro c hc
    cases hl : leg c with
    | true => rfl
    | false => simp only [Bool.false_eq_true, if_false]; exact (hid c hc hl).symm
  have hown : s.clone.isNone = false → s.clone.isSome = true := by
    cases s.clone <;> simp
  have := childLoop_spec L hL strip leg sp s.clone.isNone todo [] [] s hstrip
    (by rw [h.orig, hm]; rfl) (by rw [h.cur, hS]; rfl) rfl hown
  simp only [List.length_nil, List.nil_append] at this
  have hsome : s.clone.isSome = L0 := by rw [h.clone]; cases L0 <;> rfl
  refine ⟨by rw [this.1, h.orig], ?_, ?_⟩
  · rw [this.2, hmap, h.cur, hsome]
  · intro hf
    rw [Bool.or_eq_false_iff] at hf
    have hall := any_false_forall leg todo hf.2
    rw [map_id_of_forall sp todo (fun c hc => hid c hc (hall c hc)), ← hS, hL.put_get]
    exact h.same hf.1

end Loop

theorem nestedLoop_eq (f : Bool) (l : List Msg) : ∀ (own : Bool) (i : Nat) (s : St Msg),
    nestedLoop f own i l s = childLoop nestedL (stripMsg f) f own i l s := by
  induction l with
  | nil => intro own i s; simp only [nestedLoop, childLoop]
  | cons c cs ih =>
    intro own i s
    simp only [nestedLoop, childLoop]
    rw [ih]
    generalize (stripMsg f c).snd = r
    cases r <;> rfl

/-! ## spec facts for messages -/

theorem specMsgs_eq_map (l : List Msg) : specMsgs l = l.map specMsg := by
  induction l with
  | nil => simp only [specMsgs, List.map_nil]
  | cons a t ih => simp only [specMsgs, List.map_cons, ih]

theorem legacyMsgs_eq_any (l : List Msg) : legacyMsgs l = l.any legacyMsg := by
  induction l with
  | nil => simp only [legacyMsgs, List.any_nil]
  | cons a t ih => simp only [legacyMsgs, List.any_cons, ih]

theorem map_clearMsetO_id (opts : Option MOpts) (h : optsMset opts = false) :
    opts.map clearMsetO = opts := by
  cases opts with
  | none => rfl
  | some o =>
    simp only [Option.map_some]
    have : ¬ o.mset = some true := by
      intro he; unfold optsMset at h; simp only [he, BEq.rfl] at h; cases h
    unfold clearMsetO; rw [if_neg this]

theorem map_specFld_id (l : List Fld) (h : l.any Fld.isWeak = false) : l.map specFld = l :=
  map_id_of_forall specFld l (fun c hc => specFld_of_not_weak c (any_false_forall _ l h c hc))

mutual
theorem specMsg_id : ∀ m : Msg, legacyMsg m = false → specMsg m = m
  | .mk rest opts fields nested ranges exts => by
    intro h
    simp only [legacyMsg, Bool.or_eq_false_iff] at h
    obtain ⟨⟨⟨⟨h1, h2⟩, h3⟩, h4⟩, h5⟩ := h
    simp only [specMsg]
    rw [map_clearMsetO_id opts h1, map_specFld_id fields h2, specMsgs_id nested h3,
      specRanges_id ranges h4, specExts_id exts h5]
theorem specMsgs_id : ∀ l : List Msg, legacyMsgs l = false → specMsgs l = l
  | [] => by intro _; simp only [specMsgs]
  | m :: ms => by
    intro h
    simp only [legacyMsgs, Bool.or_eq_false_iff] at h
    simp only [specMsgs]
    rw [specMsg_id m h.1, specMsgs_id ms h.2]
end

theorem clearMsetO_clean (opts : Option MOpts) : optsMset (opts.map clearMsetO) = false := by
  cases opts with
  | none => rfl
  | some o =>
    simp only [Option.map_some]
    unfold optsMset clearMsetO
    by_cases h : o.mset = some true
    · rw [if_pos h]; rfl
    · rw [if_neg h]
      show (o.mset == some true) = false
      cases hm : o.mset with
      | none => rfl
      | some b =>
        cases b with
        | false => rfl
        | true => exact absurd hm h

theorem map_specFld_clean (l : List Fld) : (l.map specFld).any Fld.isWeak = false := by
  induction l with
  | nil => rfl
  | cons a t ih => rw [List.map_cons, List.any_cons, specFld_not_weak, ih]; rfl

mutual
theorem specMsg_clean : ∀ m : Msg, legacyMsg (specMsg m) = false
  | .mk rest opts fields nested ranges exts => by
    simp only [specMsg, legacyMsg]
    rw [clearMsetO_clean opts, map_specFld_clean fields, specMsgs_clean nested,
      specRanges_no_legacy ranges, specExts_no_legacy exts]
    rfl
theorem specMsgs_clean : ∀ l : List Msg, legacyMsgs (specMsgs l) = false
  | [] => by simp only [specMsgs, legacyMsgs]
  | m :: ms => by
    simp only [specMsgs, legacyMsgs]
    rw [specMsg_clean m, specMsgs_clean ms]; rfl
end

end BufProofs.LegacyStripLemmas
