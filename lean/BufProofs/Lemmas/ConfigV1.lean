import BufProofs.Lemmas.ConfigMigrate
/-
  C16, second pass: buf.yaml v1beta1 / v1 in full — the build section (roots × excludes, which the
  writer re-joins and the reader splits again), name, deps, lint, breaking:
  `readV1 ver e = some c → readV1 ver (writeV1 c) = some c`.
-/
namespace BufModel.Config
open BufModel.Path

/-! ### antichains of joined paths -/

theorem unrelated_lift {a b : Key} (x y : Key) (h : unrelated a b = true) :
    unrelated (a ++ x) (b ++ y) = true := by
  unfold unrelated at h ⊢
  simp only [Bool.and_eq_true, Bool.not_eq_true'] at h ⊢
  constructor
  · cases hp : (a ++ x).isPrefixOf (b ++ y) with
    | false => rfl
    | true =>
      have h1 : a <+: b ++ y := (List.prefix_append a x).trans (List.isPrefixOf_iff_prefix.mp hp)
      have h2 : b <+: b ++ y := List.prefix_append b y
      rcases List.prefix_or_prefix_of_prefix h1 h2 with h3 | h3
      · rw [List.isPrefixOf_iff_prefix.mpr h3] at h; cases h.1
      · rw [List.isPrefixOf_iff_prefix.mpr h3] at h; cases h.2
  · cases hp : (b ++ y).isPrefixOf (a ++ x) with
    | false => rfl
    | true =>
      have h1 : b <+: a ++ x := (List.prefix_append b y).trans (List.isPrefixOf_iff_prefix.mp hp)
      have h2 : a <+: a ++ x := List.prefix_append a x
      rcases List.prefix_or_prefix_of_prefix h1 h2 with h3 | h3
      · rw [List.isPrefixOf_iff_prefix.mpr h3] at h; cases h.2
      · rw [List.isPrefixOf_iff_prefix.mpr h3] at h; cases h.1

theorem antichain_append_of (A B : List Key) (ha : antichain A = true) (hb : antichain B = true)
    (hab : ∀ a ∈ A, ∀ b ∈ B, unrelated a b = true) : antichain (A ++ B) = true := by
  induction A with
  | nil => simpa using hb
  | cons a A ih =>
    simp only [antichain, Bool.and_eq_true, List.all_eq_true] at ha
    simp only [List.cons_append, antichain, Bool.and_eq_true, List.all_eq_true]
    refine ⟨?_, ih ha.2 (fun a' ha' => hab a' (by simp [ha']))⟩
    intro z hz
    rcases List.mem_append.mp hz with hz | hz
    · exact ha.1 z hz
    · exact hab a (by simp) z hz

/-- The workspace-relative excludes the v1beta1 writer emits: root ++ exclude, root by root. -/
def fullEx (R : List Root) : List Key := R.flatMap fun r => r.excludes.map (r.root ++ ·)

theorem mem_fullEx {R : List Root} {e : Key} : e ∈ fullEx R ↔ ∃ r ∈ R, ∃ x ∈ r.excludes, e = r.root ++ x := by
  unfold fullEx
  simp only [List.mem_flatMap, List.mem_map]
  constructor
  · rintro ⟨r, hr, x, hx, rfl⟩; exact ⟨r, hr, x, hx, rfl⟩
  · rintro ⟨r, hr, x, hx, rfl⟩; exact ⟨r, hr, x, hx, rfl⟩

theorem antichain_fullEx (R : List Root) (hroots : antichain (R.map (·.root)) = true)
    (hex : ∀ r ∈ R, antichain r.excludes = true) : antichain (fullEx R) = true := by
  induction R with
  | nil => rfl
  | cons r R ih =>
    simp only [List.map_cons, antichain, Bool.and_eq_true, List.all_eq_true] at hroots
    have h1 : fullEx (r :: R) = r.excludes.map (r.root ++ ·) ++ fullEx R := by simp [fullEx]
    rw [h1]
    apply antichain_append_of
    · rw [antichain_map_append]; exact hex r (by simp)
    · exact ih hroots.2 (fun r' hr' => hex r' (by simp [hr']))
    · intro a ha b hb
      obtain ⟨x, _, rfl⟩ := List.mem_map.mp ha
      obtain ⟨r', hr', x', _, rfl⟩ := mem_fullEx.mp hb
      exact unrelated_lift x x' (hroots.1 r'.root (List.mem_map.mpr ⟨r', hr', rfl⟩))

/-! ### the reader's assignment of excludes to roots -/

theorem filter_unique {α : Type} (p : α → Bool) (a : α) : ∀ (l : List α), l.Nodup → a ∈ l → p a = true →
    (∀ b ∈ l, p b = true → b = a) → l.filter p = [a] := by
  intro l
  induction l with
  | nil => intro _ h; cases h
  | cons x xs ih =>
    intro hnd hm hp hu
    have hnd' := List.nodup_cons.mp hnd
    rcases List.mem_cons.mp hm with hm | hm
    · subst hm
      rw [List.filter_cons, if_pos hp]
      congr 1
      rw [List.filter_eq_nil_iff]
      intro b hb hpb
      have := hu b (by simp [hb]) hpb
      subst this
      exact hnd'.1 hb
    · have hx : p x = false := by
        cases hpx : p x with
        | false => rfl
        | true =>
          have := hu x (by simp) hpx
          subst this
          exact absurd hm hnd'.1
      rw [List.filter_cons, hx]
      simp only [Bool.false_eq_true, if_false]
      exact ih hnd'.2 hm hp (fun b hb => hu b (by simp [hb]))

/-- In an antichain of roots, a path below root ρ matches ρ and nothing else. -/
theorem matchingRoots_below (rs : List Key) (ha : antichain rs = true) (ρ x : Key) (hρ : ρ ∈ rs) :
    matchingRoots rs (ρ ++ x) = [ρ] := by
  obtain ⟨hnd, hanti⟩ := (antichain_iff rs).mp ha
  unfold matchingRoots
  apply filter_unique _ ρ rs hnd hρ (isPrefixOf_self_append ρ x)
  intro b hb hpb
  false_or_by_contra
  rename_i hne
  have hu := hanti b hb ρ hρ hne
  have h1 : b <+: ρ ++ x := List.isPrefixOf_iff_prefix.mp hpb
  have h2 : ρ <+: ρ ++ x := List.prefix_append ρ x
  unfold unrelated at hu
  simp only [Bool.and_eq_true, Bool.not_eq_true'] at hu
  rcases List.prefix_or_prefix_of_prefix h1 h2 with h3 | h3
  · rw [List.isPrefixOf_iff_prefix.mpr h3] at hu; cases hu.1
  · rw [List.isPrefixOf_iff_prefix.mpr h3] at hu; cases hu.2

def rootPair (rs : List Key) (e : Key) : Key × Key :=
  ((matchingRoots rs e).headD [], e.drop ((matchingRoots rs e).headD []).length)

theorem assignExcludes_eq (rs : List Key) : ∀ (es : List Key),
    (∀ e ∈ es, ∃ r, matchingRoots rs e = [r]) → assignExcludes rs es = some (es.map (rootPair rs)) := by
  intro es
  induction es with
  | nil => intro _; rfl
  | cons e rest ih =>
    intro h
    obtain ⟨r, hr⟩ := h e (by simp)
    have := ih (fun e' he' => h e' (by simp [he']))
    unfold assignExcludes
    rw [hr, this]
    simp [rootPair, hr]

/-! ### well-formed v1beta1 / v1 root lists and the round trip of the build section -/

structure WFRootsList (R : List Root) : Prop where
  ne : R ≠ []
  sorted : Sorted keyLt (R.map (·.root))
  anti : antichain (R.map (·.root)) = true
  each : ∀ r ∈ R, r.includes = [] ∧ WFKeys r.excludes ∧ ∀ x ∈ r.excludes, x ≠ [] ∧ protoExt x = false

theorem root_eq_of_root_eq {R : List Root} (h : (R.map (·.root)).Nodup) {r r' : Root} (hr : r ∈ R) (hr' : r' ∈ R)
    (e : r.root = r'.root) : r = r' := by
  induction R with
  | nil => cases hr
  | cons a R ih =>
    simp only [List.map_cons, List.nodup_cons, List.mem_map, not_exists, not_and] at h
    rcases List.mem_cons.mp hr with h1 | h1
    · rcases List.mem_cons.mp hr' with h2 | h2
      · rw [h1, h2]
      · rw [h1] at e; exact absurd e.symm (h.1 r' h2)
    · rcases List.mem_cons.mp hr' with h2 | h2
      · rw [h2] at e; exact absurd e (h.1 r h1)
      · exact ih h.2 h1 h2

/-- The general (v1beta1, non-trivial) case: roots and workspace-relative excludes as the writer
    emits them are split by the reader into the same roots with the same root-relative excludes. -/
theorem getRootToExcludes_rt (R : List Root) (hw : WFRootsList R) :
    getRootToExcludes (R.map fun r => P.ok r.root)
        (R.flatMap fun r => r.excludes.map fun x => P.ok (r.root ++ x)) =
      some (R.map fun r => (r.root, r.excludes)) := by
  have hnd : (R.map (·.root)).Nodup := sorted_nodup keyLt_total.irrefl _ hw.sorted
  have hEeq : (R.flatMap fun r => r.excludes.map fun x => P.ok (r.root ++ x)) = (fullEx R).map P.ok := by
    unfold fullEx
    rw [List.map_flatMap]
    congr 1
    funext r
    rw [List.map_map]
    rfl
  unfold getRootToExcludes
  have hRne : (R.map fun r => P.ok r.root) ≠ [] := by
    intro e; exact hw.ne (List.map_eq_nil_iff.mp e)
  rw [if_neg hRne]
  have hstrictR : (R.map fun r => P.ok r.root).mapM P.strict = some (R.map (·.root)) :=
    mapM_map_some _ _ _ _ (fun _ _ => rfl)
  have hnR : normCheckPaths (R.map fun r => P.ok r.root) = some (R.map (·.root)) := by
    unfold normCheckPaths
    rw [hstrictR]
    exact normCheckKeys_self _ hw.sorted hw.anti
  simp only [hnR]
  by_cases hE : (R.flatMap fun r => r.excludes.map fun x => P.ok (r.root ++ x)) = []
  · rw [if_pos hE, List.map_map]
    congr 1
    apply List.map_congr_left
    intro r hr
    have := List.flatMap_eq_nil_iff.mp hE r hr
    have : r.excludes = [] := List.map_eq_nil_iff.mp this
    simp [this]
  · rw [if_neg hE, hEeq]
    have hstrictE : ((fullEx R).map P.ok).mapM P.strict = some ((fullEx R).map id) :=
      mapM_map_some _ _ _ _ (fun _ _ => rfl)
    have hFanti : antichain (fullEx R) = true :=
      antichain_fullEx R hw.anti (fun r hr => (hw.each r hr).2.1.anti)
    have hnE : normCheckPaths ((fullEx R).map P.ok) = some (sortU keyLt (fullEx R)) := by
      unfold normCheckPaths
      rw [hstrictE, List.map_id]
      simp [normCheckKeys, hFanti]
    simp only [hnE]
    have hmemEs : ∀ e, e ∈ sortU keyLt (fullEx R) ↔ ∃ r ∈ R, ∃ x ∈ r.excludes, e = r.root ++ x :=
      fun e => (mem_sortU keyLt_total e _).trans mem_fullEx
    have h1 : (sortU keyLt (fullEx R)).any protoExt = false := by
      rw [List.any_eq_false]
      intro e he
      obtain ⟨r, hr, x, hx, rfl⟩ := (hmemEs e).mp he
      have := (hw.each r hr).2.2 x hx
      rw [protoExt_append r.root x this.1]
      simp [this.2]
    have h2 : ((sortU keyLt (fullEx R)).any fun e => (R.map (·.root)).contains e) = false := by
      rw [List.any_eq_false]
      intro e he
      obtain ⟨r, hr, x, hx, rfl⟩ := (hmemEs e).mp he
      have hxne := ((hw.each r hr).2.2 x hx).1
      intro hc
      have hc' : r.root ++ x ∈ R.map (·.root) := List.contains_iff_mem.mp hc
      have hmr := matchingRoots_below (R.map (·.root)) hw.anti (r.root ++ x) [] hc'
      have hmr' := matchingRoots_below (R.map (·.root)) hw.anti r.root x (List.mem_map.mpr ⟨r, hr, rfl⟩)
      rw [List.append_nil] at hmr
      rw [hmr'] at hmr
      have : r.root = r.root ++ x := by simpa using hmr
      exact hxne ((append_eq_self_iff r.root x).mp this.symm)
    simp only [h1, h2, Bool.false_eq_true, if_false]
    have hmatch : ∀ e ∈ sortU keyLt (fullEx R), ∃ ρ, matchingRoots (R.map (·.root)) e = [ρ] := by
      intro e he
      obtain ⟨r, hr, x, hx, rfl⟩ := (hmemEs e).mp he
      exact ⟨r.root, matchingRoots_below _ hw.anti r.root x (List.mem_map.mpr ⟨r, hr, rfl⟩)⟩
    rw [assignExcludes_eq _ _ hmatch]
    simp only [List.map_map]
    congr 1
    apply List.map_congr_left
    intro r hr
    simp only [Function.comp, Prod.mk.injEq, true_and]
    apply sortU_eq_of_mem keyLt_total _ _ (hw.each r hr).2.1.sorted
    intro z
    simp only [List.mem_map, List.mem_filter, decide_eq_true_eq]
    constructor
    · rintro ⟨a, ⟨⟨e, he, rfl⟩, hρ⟩, rfl⟩
      obtain ⟨r', hr', x', hx', rfl⟩ := (hmemEs e).mp he
      have hm := matchingRoots_below _ hw.anti r'.root x' (List.mem_map.mpr ⟨r', hr', rfl⟩)
      simp only [rootPair, hm, List.headD_cons] at hρ ⊢
      have : r' = r := root_eq_of_root_eq hnd hr' hr hρ
      subst this
      simpa using hx'
    · intro hz
      refine ⟨(r.root, z), ⟨⟨r.root ++ z, (hmemEs _).mpr ⟨r, hr, z, hz, rfl⟩, ?_⟩, rfl⟩, rfl⟩
      have hm := matchingRoots_below _ hw.anti r.root z (List.mem_map.mpr ⟨r, hr, rfl⟩)
      simp [rootPair, hm]

theorem getRootToExcludes_nil_eq (excludes : List P) :
    getRootToExcludes [] excludes = getRootToExcludes [P.ok []] excludes := by
  unfold getRootToExcludes
  simp

/-! ### what the v1beta1 / v1 reader returns -/

structure WFFileV1 (ver : Ver) (c : BufYAML) : Prop where
  hver : c.version = ver
  mod : ∃ m, c.modules = [m] ∧ m.dirPath = [] ∧ WFRootsList m.roots ∧ WFLint m.lint ∧ WFBreaking m.breaking ∧
    (ver = .v1 → ∃ ex, m.roots = [⟨[], [], ex⟩])
  depsSorted : Sorted depLt c.deps
  depsUnique : uniqueNonEmpty (c.deps.map (·.full)) = true
  plugins : c.plugins = []

theorem getRootToExcludes_fst {roots excludes : List P} {rte : List (Key × List Key)}
    (h : getRootToExcludes roots excludes = some rte) :
    normCheckPaths (if roots = [] then [P.ok []] else roots) = some (rte.map (·.1)) := by
  unfold getRootToExcludes at h
  split at h
  · cases h
  · rename_i rs hrs
    rw [hrs]
    congr 1
    have hmm : ∀ (g : Key → List Key), (rs.map fun r => (r, g r)).map (·.1) = rs := by
      intro g
      rw [List.map_map]
      conv => rhs; rw [← List.map_id rs]
      apply List.map_congr_left
      intro a _; rfl
    split at h
    · injection h with h
      subst h
      exact (hmm _).symm
    · repeat' (split at h <;> try contradiction)
      injection h with h
      subst h
      exact (hmm _).symm

theorem readV1_wf {ver : Ver} {e : ExtV1} {c : BufYAML} (h : readV1 ver e = some c) : WFFileV1 ver c := by
  have hroots := readV1_roots_wf h
  unfold readV1 at h
  split at h
  · cases h
  · rename_i hv1
    split at h
    · rename_i name rte deps lint brk hn hrte hd hl hb
      unfold newBufYAML at h
      repeat' (split at h <;> try contradiction)
      injection h with h
      subst h
      have hmods : sortStable moduleLt [(⟨[], name, rte.map fun (r, ex) => ⟨r, [], sortU keyLt ex⟩, lint, brk⟩ : Module)] =
          [⟨[], name, rte.map fun (r, ex) => ⟨r, [], sortU keyLt ex⟩, lint, brk⟩] := by
        simp [sortStable, insertS]
      have hs : Sorted depLt (sortU depLt deps) := sorted_sortU depLt_trans deps
      have hfst := getRootToExcludes_fst hrte
      obtain ⟨ks, hka, hrs⟩ := normCheckPaths_some hfst
      have hrootmap : (rte.map fun (r, ex) => (⟨r, [], sortU keyLt ex⟩ : Root)).map (·.root) = rte.map (·.1) := by
        rw [List.map_map]; apply List.map_congr_left; intro a _; rfl
      refine ⟨rfl, ⟨_, hmods, rfl, ⟨?_, ?_, ?_, ?_⟩, readLint_wf hl, readBreaking_wf hb, ?_⟩, hs,
        uniqueNonEmpty_of_sorted _ (sorted_map_of_sorted Dep.full _ hs), rfl⟩
      · -- non-empty
        intro e0
        have hrte0 : rte = [] := List.map_eq_nil_iff.mp e0
        rw [hrte0] at hfst
        simp only [List.map_nil] at hfst
        unfold normCheckPaths at hfst
        split at hfst
        · rename_i ks' hks'
          have hne : (if e.roots = [] then [P.ok ([] : Key)] else e.roots) ≠ [] := by
            split
            · simp
            · assumption
          obtain ⟨_, hsrt⟩ := normCheckKeys_some hfst
          have hlen := (mapM_some_imp _ _ _ hks').1
          have : ks' ≠ [] := by
            intro e1; rw [e1] at hlen
            exact hne (List.length_eq_zero_iff.mp hlen.symm)
          exact sortU_ne_nil keyLt ks' this hsrt.symm
        · cases hfst
      · rw [hrootmap, hrs]; exact sorted_sortU keyLt_total.trans ks
      · rw [hrootmap, hrs]; exact antichain_sortU ks hka
      · intro r hr
        obtain ⟨re, hre, rfl⟩ := List.mem_map.mp hr
        have hwf := hroots _ (by rw [hmods]; simp) _ hr
        exact ⟨rfl, hwf.we, hwf.eok⟩
      · intro hver
        subst hver
        have her : e.roots = [] := by
          cases her : e.roots with
          | nil => rfl
          | cons x xs => simp [her] at hv1
        rw [her] at hfst
        simp only [if_true] at hfst
        have h1 : normCheckPaths [P.ok ([] : Key)] = some [[]] := by
          simp [normCheckPaths, P.strict, normCheckKeys, antichain, sortU, insertU]
        rw [h1] at hfst
        injection hfst with hfst
        match rte, hfst with
        | [(r, ex)], hfst =>
          simp only [List.map_cons, List.map_nil, List.cons.injEq, and_true] at hfst
          subst hfst
          exact ⟨sortU keyLt ex, rfl⟩
    · cases h

/-! ### the round trip -/

theorem newBufYAML_selfV1 {ver : Ver} (c : BufYAML) (h : WFFileV1 ver c) :
    newBufYAML ver c.modules [] c.deps = some c := by
  obtain ⟨m, hm, _⟩ := h.mod
  unfold newBufYAML
  rw [hm]
  simp only [List.cons_ne_self, if_false, List.map_cons, List.map_nil, h.depsUnique, reduceCtorEq]
  have hu : uniqueNonEmpty [m.name] = true := by simp [uniqueNonEmpty]
  simp only [hu, Bool.not_true, Bool.false_eq_true, if_false]
  rw [sortU_eq_self _ h.depsSorted]
  have hs : sortStable moduleLt [m] = [m] := by simp [sortStable, insertS]
  rw [hs]
  have hv := h.hver
  have hp := h.plugins
  cases c
  simp only at hv hp hm
  simp [hv, hp, hm]

theorem readV1_writeV1_wf (ver : Ver) (hv : ver ≠ .v2) (c : BufYAML) (h : WFFileV1 ver c) :
    readV1 ver (writeV1 c) = some c := by
  obtain ⟨m, hm, hdir, hR, hl, hb, hv1⟩ := h.mod
  have hself := newBufYAML_selfV1 c h
  rw [hm] at hself
  have hcver := h.hver
  -- the build section
  have hfin : ∀ R : List Root, (∀ r ∈ R, r.includes = [] ∧ WFKeys r.excludes) →
      ((R.map fun r => (r.root, r.excludes)).map fun (r, ex) => (⟨r, [], sortU keyLt ex⟩ : Root)) = R := by
    intro R hRR
    rw [List.map_map]
    conv => rhs; rw [← List.map_id R]
    apply List.map_congr_left
    intro r hr
    obtain ⟨hi, hwk⟩ := hRR r hr
    simp only [Function.comp, id]
    rw [sortU_eq_self _ hwk.sorted]
    cases r
    simp only at hi
    simp [hi]
  have hRR : ∀ r ∈ m.roots, r.includes = [] ∧ WFKeys r.excludes :=
    fun r hr => ⟨(hR.each r hr).1, (hR.each r hr).2.1⟩
  have hbuild : ∃ roots excludes,
      (writeV1 c).roots = roots ∧ (writeV1 c).excludes = excludes ∧
      (ver = .v1 → roots = []) ∧
      ∃ rte, getRootToExcludes roots excludes = some rte ∧
        (rte.map fun (r, ex) => (⟨r, [], sortU keyLt ex⟩ : Root)) = m.roots := by
    by_cases hver1 : ver = .v1
    · subst hver1
      obtain ⟨ex, hex⟩ := hv1 rfl
      have hr0 := hR.each ⟨[], [], ex⟩ (by rw [hex]; simp)
      have hwr : (writeV1 c).roots = [] := by
        unfold writeV1 writeV1With; rw [hm]; simp [hcver]
      have hwe : (writeV1 c).excludes = ex.map P.ok := by
        unfold writeV1 writeV1With; rw [hm]; simp [hcver, hex]
      refine ⟨[], ex.map P.ok, hwr, hwe, fun _ => rfl, [([], ex)], ?_, ?_⟩
      · rw [getRootToExcludes_nil_eq]
        exact getRootToExcludes_dot ex hr0.2.1 hr0.2.2
      · simp [sortU_eq_self _ hr0.2.1.sorted, hex]
    · have hcv : (decide (c.version = Ver.v1)) = false := by simp [hcver, hver1]
      by_cases htriv : ∃ r, m.roots = [r] ∧ r.root = [] ∧ r.excludes = []
      · -- a single "." root without excludes
        obtain ⟨r, hr, hr1, hr2⟩ := htriv
        have hri := (hR.each r (by rw [hr]; simp)).1
        have hwr : (writeV1 c).roots = [] := by
          unfold writeV1 writeV1With; rw [hm]; simp [hcv, hr, hr1, hr2]
        have hwe : (writeV1 c).excludes = [] := by
          unfold writeV1 writeV1With; rw [hm]
          simp [hcver, hver1, hr, hr1, hr2]
        refine ⟨[], [], hwr, hwe, fun _ => rfl, [([], [])], ?_, ?_⟩
        · rw [getRootToExcludes_nil_eq]
          exact getRootToExcludes_dot [] ⟨by simp [Sorted], by simp [antichain]⟩ (by intro x hx; cases hx)
        · rw [hr]
          cases r
          simp only at hr1 hr2 hri
          simp [hr1, hr2, hri, sortU]
      · have hwr : (writeV1 c).roots = m.roots.map fun r => P.ok r.root := by
          unfold writeV1 writeV1With; rw [hm]
          simp only [hcv, Bool.false_or]
          split
          · rename_i r hr
            split
            · rename_i ht
              simp only [Bool.and_eq_true, decide_eq_true_eq] at ht
              exact absurd ⟨r, hr, ht.1, ht.2⟩ htriv
            · rfl
          · simp
        have hwe : (writeV1 c).excludes = m.roots.flatMap fun r => r.excludes.map fun x => P.ok (r.root ++ x) := by
          unfold writeV1 writeV1With; rw [hm]
          simp only [hcver, hver1, if_false]
          split
          · rename_i r hr
            split
            · rename_i ht
              simp only [Bool.and_eq_true, decide_eq_true_eq] at ht
              exact absurd ⟨r, hr, ht.1, ht.2⟩ htriv
            · rfl
          · simp
        exact ⟨_, _, hwr, hwe, fun e => absurd e hver1, _, getRootToExcludes_rt m.roots hR, hfin m.roots hRR⟩
  obtain ⟨roots, excludes, hwr, hwe, hrv1, rte, hg, hrte⟩ := hbuild
  have hname : (writeV1 c).name = extNameOf m.name := by
    unfold writeV1 writeV1With; rw [hm]
  have hdeps : (writeV1 c).deps = c.deps.map extDepOf := by
    unfold writeV1 writeV1With; rw [hm]
  have hlint : (writeV1 c).lint = extLintOf false m.lint [] := by
    unfold writeV1 writeV1With; rw [hm]
  have hbrk : (writeV1 c).breaking = extBreakingOf m.breaking [] := by
    unfold writeV1 writeV1With; rw [hm]
  unfold readV1
  have hguard : (decide (ver = .v1) && decide ((writeV1 c).roots ≠ [])) = false := by
    by_cases hver1 : ver = .v1
    · rw [hwr, hrv1 hver1]; simp
    · simp [hver1]
  rw [hguard]
  simp only [Bool.false_eq_true, if_false, hname, hdeps, hlint, hbrk, hwr, hwe, readName_extNameOf, hg,
    readDeps_ext, readLint_extLintOf false m.lint [] true hl, readBreaking_extBreakingOf m.breaking [] true hb, hrte]
  have hmeq : (⟨[], m.name, m.roots, m.lint, m.breaking⟩ : Module) = m := by
    cases m; simp only at hdir; simp [hdir]
  rw [hmeq]
  exact hself

/-- buf.yaml v1beta1 / v1, the whole file: c ∈ range read → read (write c) = c. -/
theorem readV1_writeV1 (ver : Ver) (hv : ver ≠ .v2) (e : ExtV1) (c : BufYAML) (h : readV1 ver e = some c) :
    readV1 ver (writeV1 c) = some c :=
  readV1_writeV1_wf ver hv c (readV1_wf h)

end BufModel.Config
