import BufProofs.Lemmas.CaseLemmas
/-
  The package-version parser accepts ONLY strings of a documented form (private/pkg/protoversion:
  "v\d+, v\d+test.*, v\d+(alpha|beta)\d*, or v\d+p\d+(alpha|beta)\d*"), every `\d+` being what
  `strconv.ParseInt(s, 10, 32)` reads: an optional sign and DECIMAL digits.  In particular a digit
  separator (`v1_0`) or a base prefix (`v0x1`, `v0b1`, `v0o7`) never yields a version — the
  regression "ParseInt with base 0" contradicts `versionForComponent_shape`.
-/
namespace BufModel.Case

theorem splitFirst_some_eq (pat : Str) : ∀ (s a b : Str), splitFirst pat s = some (a, b) → s = a ++ pat ++ b
  | [], a, b, h => by
    unfold splitFirst at h
    split at h
    · rename_i hp
      simp only [Option.some.injEq, Prod.mk.injEq] at h
      obtain ⟨rfl, rfl⟩ := h
      have : pat = [] := by cases pat <;> simp_all
      simp [this]
    · cases h
  | c :: cs, a, b, h => by
    unfold splitFirst at h
    split at h
    · rename_i hp
      simp only [Option.some.injEq, Prod.mk.injEq] at h
      obtain ⟨rfl, rfl⟩ := h
      have := List.isPrefixOf_iff_prefix.mp hp
      obtain ⟨t, ht⟩ := this
      rw [← ht]
      simp
    · split at h
      · rename_i a' b' hrec
        simp only [Option.some.injEq, Prod.mk.injEq] at h
        obtain ⟨rfl, rfl⟩ := h
        have := splitFirst_some_eq pat cs a' b' hrec
        rw [this]
        simp
      · cases h

/-- a number as `strconv.ParseInt(s, 10, 32)` reads it: an optional sign and a non-empty run of
    DECIMAL digits — nothing else (no `_` digit separators, no `0x` / `0b` / `0o` prefixes) -/
def IsNum (x : Str) : Prop :=
  ∃ ds : Str, (x = ds ∨ x = '+' :: ds ∨ x = '-' :: ds) ∧ ds ≠ [] ∧ ds.all isDigit = true

theorem parseInt32_some_isNum (x : Str) (v : Int) (h : parseInt32 x = some v) : IsNum x := by
  have body : ∀ (neg : Bool) (ds : Str) (v : Int),
      (if ds.isEmpty || !(ds.all isDigit) then none
       else
        if neg then (if digitsVal ds ≤ 2147483648 then some (-(Int.ofNat (digitsVal ds))) else none)
        else (if digitsVal ds ≤ 2147483647 then some (Int.ofNat (digitsVal ds)) else none)) = some v →
      ds ≠ [] ∧ ds.all isDigit = true := by
    intro neg ds v h
    split at h
    · cases h
    · rename_i hc
      simp only [Bool.or_eq_true, Bool.not_eq_true', not_or, Bool.not_eq_true, Bool.not_eq_false] at hc
      refine ⟨?_, hc.2⟩
      intro e; subst e; simp at hc
  unfold parseInt32 at h
  split at h
  · cases h
  · rename_i ds
    obtain ⟨h1, h2⟩ := body false ds v h
    exact ⟨ds, Or.inr (Or.inl rfl), h1, h2⟩
  · rename_i ds
    obtain ⟨h1, h2⟩ := body true ds v h
    exact ⟨ds, Or.inr (Or.inr rfl), h1, h2⟩
  · obtain ⟨h1, h2⟩ := body false x v h
    exact ⟨x, Or.inl rfl, h1, h2⟩

theorem getNumber_some_isNum (x : Str) (m n : Nat) (h : getNumber x m = some n) : IsNum x := by
  unfold getNumber at h
  split at h
  · rename_i v hv; exact parseInt32_some_isNum x v hv
  · cases h

theorem getAlphaBetaMajorPatch_shape (rem : Str) (m major patch : Nat)
    (h : getAlphaBetaMajorPatch rem m = some (major, patch)) :
    IsNum rem ∨ ∃ n q, rem = n ++ 'p' :: q ∧ IsNum n ∧ IsNum q := by
  unfold getAlphaBetaMajorPatch at h
  split at h
  · rename_i a b hs
    have e := splitFirst_some_eq ['p'] rem a b hs
    split at h
    · rename_i mj pt h1 h2
      right
      exact ⟨a, b, by rw [e]; simp, getNumber_some_isNum _ _ _ h1, getNumber_some_isNum _ _ _ h2⟩
    · cases h
  · split at h
    · rename_i mj h1
      left; exact getNumber_some_isNum _ _ _ h1
    · cases h

/-- the documented forms of a version (the part after the `v`), with the stability each form has:
    `\d+` — `\d+test.*` — `\d+(alpha|beta)\d*` — `\d+p\d+(alpha|beta)\d*`, every `\d+` read as `IsNum` -/
inductive DocShape : Str → Stability → Prop
  | stable (n : Str) : IsNum n → DocShape n .stable
  | test (n sfx : Str) : IsNum n → DocShape (n ++ "test".toList ++ sfx) .test
  | ab (n m : Str) (st : Stability) : (st = .alpha ∨ st = .beta) → IsNum n → (m = [] ∨ IsNum m) →
      DocShape (n ++ st.str ++ m) st
  | patch (n q m : Str) (st : Stability) : (st = .alpha ∨ st = .beta) → IsNum n → IsNum q → (m = [] ∨ IsNum m) →
      DocShape (n ++ 'p' :: q ++ st.str ++ m) st

theorem versionForComponent_shape (b : Bool) (s : Str) (v : PackageVersion)
    (h : versionForComponent b s = some v) : ∃ rest, s = 'v' :: rest ∧ DocShape rest v.stability := by
  unfold versionForComponent at h
  dsimp only at h
  split at h
  · cases h
  · split at h
    · cases h
    · cases h
    · rename_i c0 version _ _
      split at h
      · cases h
      · rename_i hv
        have hc0 : c0 = 'v' := by simpa using hv
        subst hc0
        refine ⟨version, rfl, ?_⟩
        split at h
        · rename_i a sfx hs
          have e := splitFirst_some_eq _ version a sfx hs
          split at h
          · rename_i mj h1
            simp only [Option.some.injEq] at h
            subst h
            rw [e]
            exact DocShape.test a sfx (getNumber_some_isNum _ _ _ h1)
          · cases h
        · split at h
          · cases h
          · split at h
            · rename_i hab
              generalize hstd : (if contains "alpha".toList version = true then Stability.alpha else Stability.beta) = st at h
              have hst : st = .alpha ∨ st = .beta := by
                rw [← hstd]; split <;> simp
              split at h
              · cases h
              · rename_i a m hs
                have e := splitFirst_some_eq _ version a m hs
                split at h
                · cases h
                · rename_i minor hminor
                  split at h
                  · rename_i mj pt hmp
                    simp only [Option.some.injEq] at h
                    subst h
                    have hm : m = [] ∨ IsNum m := by
                      split at hminor
                      · rename_i he; left; exact List.isEmpty_iff.mp he
                      · right; exact getNumber_some_isNum _ _ _ hminor
                    rw [e]
                    rcases getAlphaBetaMajorPatch_shape _ _ _ _ hmp with hn | ⟨n, q, rfl, hn, hq⟩
                    · exact DocShape.ab a m _ hst hn hm
                    · have := DocShape.patch n q m _ hst hn hq hm
                      simpa only [List.append_assoc, List.cons_append] using this
                  · cases h
            · split at h
              · rename_i mj h1
                simp only [Option.some.injEq] at h
                subst h
                exact DocShape.stable version (getNumber_some_isNum _ _ _ h1)
              · cases h

theorem isNum_chars (x : Str) (h : IsNum x) : ∀ c ∈ x, isDigit c = true ∨ c = '+' ∨ c = '-' := by
  obtain ⟨ds, hx, _, hd⟩ := h
  have hall : ∀ c ∈ ds, isDigit c = true := List.all_eq_true.mp hd
  intro c hc
  rcases hx with rfl | rfl | rfl
  · exact Or.inl (hall c hc)
  · rcases List.mem_cons.mp hc with rfl | hc
    · exact Or.inr (Or.inl rfl)
    · exact Or.inl (hall c hc)
  · rcases List.mem_cons.mp hc with rfl | hc
    · exact Or.inr (Or.inr rfl)
    · exact Or.inl (hall c hc)

/-- the characters a version that is not a `test` version can consist of -/
def versionAlphabet : Str := "v+-palhbet".toList

theorem docShape_chars (rest : Str) (st : Stability) (h : DocShape rest st) (hs : st ≠ .test) :
    ∀ c ∈ rest, isDigit c = true ∨ c ∈ versionAlphabet := by
  have num : ∀ x, IsNum x → ∀ c ∈ x, isDigit c = true ∨ c ∈ versionAlphabet := by
    intro x hx c hc
    rcases isNum_chars x hx c hc with h | rfl | rfl
    · exact Or.inl h
    · exact Or.inr (by decide)
    · exact Or.inr (by decide)
  have stab : ∀ st : Stability, (st = .alpha ∨ st = .beta) → ∀ c ∈ st.str, c ∈ versionAlphabet := by
    intro st hst c hc
    rcases hst with rfl | rfl
    · revert c; decide
    · revert c; decide
  have opt : ∀ m : Str, (m = [] ∨ IsNum m) → ∀ c ∈ m, isDigit c = true ∨ c ∈ versionAlphabet := by
    intro m hm c hc
    rcases hm with rfl | hm
    · cases hc
    · exact num m hm c hc
  intro c hc
  cases h with
  | stable n hn => exact num _ hn c hc
  | test n sfx hn => exact absurd rfl hs
  | ab n m st hst hn hm =>
    simp only [List.mem_append] at hc
    rcases hc with (hc | hc) | hc
    · exact num _ hn c hc
    · exact Or.inr (stab _ hst c hc)
    · exact opt _ hm c hc
  | patch n q m st hst hn hq hm =>
    simp only [List.mem_append, List.mem_cons] at hc
    rcases hc with ((hc | rfl | hc) | hc) | hc
    · exact num _ hn c hc
    · exact Or.inr (by decide)
    · exact num _ hq c hc
    · exact Or.inr (stab _ hst c hc)
    · exact opt _ hm c hc

end BufModel.Case
