import BufProofs.Lemmas.ConfigRoundTrip
/-
  C16, the other half: every configuration in the range of the v2 reader is well-formed
  (`readV2 e = some c → WFFileV2 c`), so that the round trip holds for all of them.
-/
namespace BufModel.Config
open BufModel.Path

theorem mapM_eq_map {α β : Type} (f : α → Option β) (g : α → β) (hfg : ∀ x y, f x = some y → y = g x) :
    ∀ (l : List α) (out : List β), l.mapM f = some out → out = l.map g ∧ ∀ x ∈ l, f x = some (g x) := by
  intro l
  induction l with
  | nil => intro out h; simp at h; subst h; simp
  | cons x xs ih =>
    intro out h
    simp only [List.mapM_cons] at h
    cases h1 : f x with
    | none => simp [h1] at h
    | some y =>
      cases h2 : xs.mapM f with
      | none => simp [h1, h2] at h
      | some ys =>
        simp [h1, h2] at h
        subst h
        obtain ⟨e, hm⟩ := ih ys h2
        have hy := hfg x y h1
        subst hy
        refine ⟨by simp [e], ?_⟩
        intro z hz
        rcases List.mem_cons.mp hz with hz | hz
        · subst hz; exact h1
        · exact hm z hz

theorem normCheckPaths_some {ps : List P} {s : List Key} (h : normCheckPaths ps = some s) :
    ∃ ks, antichain ks = true ∧ s = sortU keyLt ks := by
  unfold normCheckPaths at h
  cases hk : ps.mapM P.strict with
  | none => simp [hk] at h
  | some ks =>
    simp only [hk] at h
    obtain ⟨ha, hs⟩ := normCheckKeys_some h
    exact ⟨ks, ha, hs⟩

theorem relInclude_some {d i y : Key} (h : relInclude d i = some y) :
    i ≠ d ∧ d.isPrefixOf i = true ∧ protoExt i = false ∧ y = i.drop d.length := by
  unfold relInclude at h
  by_cases c1 : i = d
  · simp [c1] at h
  · by_cases c2 : d.isPrefixOf i = true
    · by_cases c3 : protoExt i = true
      · simp [c1, c2, c3] at h
      · simp only [c1, c2, c3, if_false, Bool.not_true, Bool.false_eq_true, Option.some.injEq] at h
        exact ⟨c1, c2, by simpa using c3, h.symm⟩
    · simp [c1, c2] at h

theorem relExclude_some {d : Key} {S : List Key} {p : P} {y : Key} (h : relExclude d S p = some y) :
    ∃ e, e ≠ d ∧ d.isPrefixOf e = true ∧ y = e.drop d.length ∧
      (S ≠ [] → S.any (fun i => i == e || containsStrict e i) = false ∧ S.any (fun i => containsStrict i e) = true) := by
  unfold relExclude at h
  cases hp : p.nv with
  | none => simp [hp] at h
  | some e =>
    simp only [hp] at h
    by_cases c1 : e = d
    · simp [c1] at h
    · by_cases c2 : d.isPrefixOf e = true
      · simp only [c1, c2, if_false, Bool.not_true, Bool.false_eq_true] at h
        split at h
        · cases h
        · rename_i c3
          simp only [Option.some.injEq] at h
          refine ⟨e, c1, c2, h.symm, ?_⟩
          intro hS
          simp only [Bool.and_eq_true, Bool.or_eq_true, decide_eq_true_eq, Bool.not_eq_true', not_and, not_or,
            ne_eq] at c3
          have := c3 (by simpa using hS)
          constructor
          · cases hx : S.any (fun i => i == e || containsStrict e i) with
            | false => rfl
            | true => exact absurd hx this.1
          · cases hx : S.any (fun i => containsStrict i e) with
            | true => rfl
            | false => exact absurd hx this.2
      · simp [c1, c2] at h

theorem getRootToExcludes_dot_some (l : List Key) :
    ∀ out, getRootToExcludes [P.ok []] (l.map P.ok) = some out →
      (l = [] ∧ out = [([], [])]) ∨
      (antichain l = true ∧ (∀ x ∈ l, protoExt x = false ∧ x ≠ []) ∧ out = [([], sortU keyLt (sortU keyLt l))]) := by
  intro out h
  unfold getRootToExcludes at h
  have hroots : normCheckPaths [P.ok ([] : Key)] = some [[]] := by
    simp [normCheckPaths, P.strict, normCheckKeys, antichain, sortU, insertU]
  simp only [List.cons_ne_self, if_false, hroots, reduceCtorEq] at h
  by_cases he : l = []
  · subst he; simp at h; exact Or.inl ⟨rfl, h.symm⟩
  · right
    have hne : l.map P.ok ≠ [] := by simpa using he
    rw [if_neg hne] at h
    have hstrict : (l.map P.ok).mapM P.strict = some (l.map id) := mapM_map_some _ _ _ _ (fun _ _ => rfl)
    have hn : normCheckPaths (l.map P.ok) = normCheckKeys l := by
      unfold normCheckPaths; rw [hstrict, List.map_id]
    rw [hn] at h
    cases hk : normCheckKeys l with
    | none => simp [hk] at h
    | some es =>
      simp only [hk] at h
      obtain ⟨ha, hes⟩ := normCheckKeys_some hk
      by_cases c1 : es.any protoExt = true
      · simp [c1] at h
      · by_cases c2' : ([] : Key) ∈ es
        · have c2 : (es.any fun e => [([] : Key)].contains e) = true :=
            List.any_eq_true.mpr ⟨[], c2', by simp⟩
          simp [c1] at h
          exact absurd c2' h.1
        · have c2 : (es.any fun e => [([] : Key)].contains e) = false := by
            rw [List.any_eq_false]
            intro x hx
            by_cases e : x = []
            · subst e; exact absurd hx c2'
            · simp [e]
          simp only [c1, c2, Bool.false_eq_true, if_false] at h
          have h3 : ∀ l : List Key, assignExcludes [[]] l = some (l.map fun e => ([], e)) := by
            intro l
            induction l with
            | nil => rfl
            | cons e rest ih => simp [assignExcludes, matchingRoots, ih]
          simp only [h3, List.map_cons, List.map_nil, Option.some.injEq] at h
          have h4 : (List.filter (fun a : Key × Key => decide (a.1 = [])) (List.map (fun e => ([], e)) es)).map (·.2) = es := by
            rw [List.filter_eq_self.mpr (by intro a ha; simp at ha; obtain ⟨_, _, rfl⟩ := ha; simp)]
            rw [List.map_map]
            have : ((fun x : Key × Key => x.snd) ∘ fun e => (([] : Key), e)) = id := rfl
            rw [this, List.map_id]
          rw [h4] at h
          refine ⟨ha, ?_, by rw [← h, hes]⟩
          intro x hx
          have hx' : x ∈ es := by rw [hes]; exact (mem_sortU keyLt_total x l).mpr hx
          constructor
          · have := List.any_eq_false.mp (by simpa using c1) x hx'
            simpa using this
          · intro e; subst e; exact c2' hx'


theorem all_prefix_eq_map (d : Key) (S : List Key) (h : ∀ i ∈ S, d.isPrefixOf i = true) :
    S = (S.map (fun i => i.drop d.length)).map (d ++ ·) := by
  rw [List.map_map]
  conv => lhs; rw [← List.map_id S]
  apply List.map_congr_left
  intro i hi
  obtain ⟨t, rfl⟩ := List.isPrefixOf_iff_prefix.mp (h i hi)
  simp

theorem readModuleV2_wf (defL : ExtLint) (defB : ExtBreaking) (em : ExtModule) (m : Module)
    (h : readModuleV2 defL defB em = some m) : WFModuleV2 m := by
  unfold readModuleV2 at h
  cases hd : em.path.nv with
  | none => simp [hd] at h
  | some d =>
  cases hn : readName em.name with
  | none => simp [hd, hn] at h
  | some name =>
  cases hS : normCheckPaths em.includes with
  | none => simp [hd, hn, hS] at h
  | some S =>
  simp only [hd, hn, hS] at h
  cases hri : S.mapM (relInclude d) with
  | none => simp [hri] at h
  | some relIncs =>
  cases hre : em.excludes.mapM (relExclude d S) with
  | none => simp [hri, hre] at h
  | some relExcl =>
  simp only [hri, hre] at h
  cases hg : getRootToExcludes [P.ok []] (relExcl.map P.ok) with
  | none => simp [hg] at h
  | some out =>
  -- facts about the includes
  obtain ⟨ks, hksa, hSk⟩ := normCheckPaths_some hS
  have hSanti : antichain S = true := by rw [hSk]; exact antichain_sortU ks hksa
  obtain ⟨hrelI, hIall⟩ := mapM_eq_map (relInclude d) (fun i => i.drop d.length)
    (fun x y hxy => (relInclude_some hxy).2.2.2) S relIncs hri
  have hIprop : ∀ i ∈ S, i ≠ d ∧ d.isPrefixOf i = true ∧ protoExt i = false := by
    intro i hi
    have := relInclude_some (hIall i hi)
    exact ⟨this.1, this.2.1, this.2.2.1⟩
  have hSeq := all_prefix_eq_map d S (fun i hi => (hIprop i hi).2.1)
  rw [← hrelI] at hSeq
  have hrelAnti : antichain relIncs = true := by
    have := hSanti; rw [hSeq, antichain_map_append] at this; exact this
  have hmemI : ∀ z, z ∈ relIncs ↔ d ++ z ∈ S := by
    intro z
    constructor
    · intro hz; rw [hSeq]; exact List.mem_map.mpr ⟨z, hz, rfl⟩
    · intro hz
      rw [hSeq] at hz
      obtain ⟨w, hw, e⟩ := List.mem_map.mp hz
      have : w = z := List.append_cancel_left e
      exact this ▸ hw
  -- facts about the excludes
  obtain ⟨_, hEmem⟩ := mapM_some_imp _ _ _ hre
  rcases getRootToExcludes_dot_some relExcl out hg with ⟨he0, hout⟩ | ⟨hEanti, hEok, hout⟩
  all_goals
    subst hout
    simp only [hg] at h
    split at h
    case h_2 => cases h
    rename_i lint brk hl hb
    simp only [Option.some.injEq] at h
    subst h
    have wi : WFKeys (sortU keyLt relIncs) := ⟨sorted_sortU keyLt_total.trans _, antichain_sortU _ hrelAnti⟩
    have iok : ∀ i ∈ sortU keyLt relIncs, i ≠ [] ∧ protoExt i = false := by
      intro i hi
      have hi' := (hmemI i).mp (mem_sortU_imp _ _ _ hi)
      have := hIprop _ hi'
      have hne : i ≠ [] := fun e => this.1 (by simp [e])
      exact ⟨hne, by rw [← protoExt_append d i hne]; exact this.2.2⟩
  · -- no excludes
    subst he0
    refine ⟨⟨_, _, rfl, ⟨wi, iok, ⟨by simp [sortU, Sorted], by simp [sortU, antichain]⟩, by simp [sortU], by simp [sortU]⟩⟩,
      readLint_wf hl, readBreaking_wf hb⟩
  · have hss : sortU keyLt (sortU keyLt (sortU keyLt relExcl)) = sortU keyLt relExcl := by
      rw [sortU_eq_self _ (sorted_sortU keyLt_total.trans _), sortU_eq_self _ (sorted_sortU keyLt_total.trans _)]
    rw [hss]
    refine ⟨⟨_, _, rfl, ⟨wi, iok, ⟨sorted_sortU keyLt_total.trans _, antichain_sortU _ hEanti⟩, ?_, ?_⟩⟩,
      readLint_wf hl, readBreaking_wf hb⟩
    · intro x hx
      have := hEok x (mem_sortU_imp _ _ _ hx)
      exact ⟨this.2, this.1⟩
    · intro hne x hx
      have hx' := mem_sortU_imp _ _ _ hx
      obtain ⟨p, _, hp⟩ := hEmem x hx'
      obtain ⟨e, he1, he2, he3, he4⟩ := relExclude_some hp
      have hex : e = d ++ x := by
        obtain ⟨t, rfl⟩ := List.isPrefixOf_iff_prefix.mp he2
        simp at he3; simp [he3]
      subst hex
      have hSne : S ≠ [] := by
        intro e0
        apply hne
        have : relIncs = [] := by rw [hrelI, e0]; rfl
        simp [this, sortU]
      obtain ⟨a1, a2⟩ := he4 hSne
      constructor
      · intro i hi
        have hi' := (hmemI i).mp (mem_sortU_imp _ _ _ hi)
        have := List.any_eq_false.mp a1 _ hi'
        simp only [Bool.or_eq_true, beq_iff_eq, not_or, containsStrict_append] at this
        exact ⟨fun e => this.1 (by rw [e]), by simpa using this.2⟩
      · obtain ⟨i, hi, hc⟩ := List.any_eq_true.mp a2
        have hpre := (hIprop i hi).2.1
        obtain ⟨t, rfl⟩ := List.isPrefixOf_iff_prefix.mp hpre
        rw [containsStrict_append] at hc
        exact ⟨t, (mem_sortU keyLt_total _ _).mpr ((hmemI t).mpr hi), hc⟩


/-! ### files -/

theorem insertS_perm {α : Type} (lt : α → α → Bool) (x : α) (l : List α) : (insertS lt x l).Perm (x :: l) := by
  induction l with
  | nil => simp [insertS]
  | cons y ys ih =>
    unfold insertS
    split
    · exact (List.Perm.cons y ih).trans (List.Perm.swap x y ys)
    · exact List.Perm.refl _

theorem sortStable_perm {α : Type} (lt : α → α → Bool) (l : List α) : (sortStable lt l).Perm l := by
  induction l with
  | nil => simp [sortStable]
  | cons x xs ih => exact (insertS_perm lt x _).trans (List.Perm.cons x ih)

theorem uniqueNonEmpty_iff (l : List Str) : uniqueNonEmpty l = true ↔ (l.filter (fun s => decide (s ≠ []))).Nodup := by
  induction l with
  | nil => simp [uniqueNonEmpty]
  | cons x xs ih =>
    simp only [uniqueNonEmpty, Bool.and_eq_true, Bool.or_eq_true, decide_eq_true_eq, Bool.not_eq_true', ih]
    by_cases hx : x = []
    · simp [hx]
    · simp only [hx, false_or, List.filter_cons, ne_eq, not_false_eq_true, decide_true, if_true, List.nodup_cons]
      constructor
      · rintro ⟨h1, h2⟩
        refine ⟨?_, h2⟩
        intro hm
        have := (List.mem_filter.mp hm).1
        rw [List.contains_iff_mem.mpr this] at h1; cases h1
      · rintro ⟨h1, h2⟩
        refine ⟨?_, h2⟩
        cases hc : xs.contains x with
        | false => rfl
        | true =>
          exact absurd (List.mem_filter.mpr ⟨List.contains_iff_mem.mp hc, by simp [hx]⟩) h1

theorem uniqueNonEmpty_perm {l l' : List Str} (hp : l.Perm l') (h : uniqueNonEmpty l = true) : uniqueNonEmpty l' = true := by
  rw [uniqueNonEmpty_iff] at h ⊢
  exact ((hp.filter _).nodup_iff).mp h

theorem depLt_trans : ∀ a b c : Dep, depLt a b = true → depLt b c = true → depLt a c = true :=
  fun a b c => strLt_total.trans a.full b.full c.full

theorem newBufYAML_wf (mods : List Module) (plugins : List Plugin) (deps : List Dep) (c : BufYAML)
    (hm : ∀ m ∈ mods, WFModuleV2 m) (hp : ∀ p ∈ plugins, WFPlugin p)
    (h : newBufYAML .v2 mods plugins deps = some c) : WFFileV2 c := by
  unfold newBufYAML at h
  split at h
  · cases h
  · rename_i hne
    split at h
    · cases h
    · rename_i hun
      split at h
      · cases h
      · simp only [Option.some.injEq] at h
        subst h
        have hs : Sorted depLt (sortU depLt deps) := sorted_sortU depLt_trans deps
        refine ⟨rfl, ?_, ?_, ?_, ?_, hs, ?_, hp⟩
        · intro e
          have := (sortStable_perm moduleLt mods).length_eq
          simp only at e
          rw [e] at this
          exact hne (List.length_eq_zero_iff.mp this.symm)
        · intro m hm'
          exact hm m ((mem_sortStable _ _ _).mp hm')
        · have hun' : uniqueNonEmpty (mods.map (·.name)) = true := by simpa using hun
          exact uniqueNonEmpty_perm ((sortStable_perm moduleLt mods).symm.map _) hun'
        · exact sorted_sortStable (fun m : Module => m.dirPath) keyLt_total mods
        · exact uniqueNonEmpty_of_sorted _ (sorted_map_of_sorted Dep.full _ hs)

/-- Every configuration the v2 reader produces is well-formed. -/
theorem readV2_wf (e : ExtV2) (c : BufYAML) (h : readV2 e = some c) : WFFileV2 c := by
  unfold readV2 at h
  dsimp only at h
  split at h
  · cases h
  · rename_i ms hms
    split at h
    · cases h
    · rename_i modules hmods
      split at h
      · cases h
      · split at h
        · cases h
        · split at h
          · rename_i plugins deps hpl hdeps
            apply newBufYAML_wf modules plugins deps c _ _ h
            · intro m hm
              obtain ⟨_, hmem⟩ := mapM_some_imp _ _ _ hmods
              obtain ⟨em, _, hem⟩ := hmem m hm
              exact readModuleV2_wf _ _ em m hem
            · intro p hp
              obtain ⟨_, hmem⟩ := mapM_some_imp _ _ _ hpl
              obtain ⟨ep, _, hep⟩ := hmem p hp
              exact readPlugin_wf ep p hep
          · cases h

end BufModel.Config
