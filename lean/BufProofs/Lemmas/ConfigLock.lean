import BufProofs.Lemmas.ConfigRoundTrip
/-
  C16, second pass: buf.lock with its `plugins:` section (v2), round trip and idempotence.
-/
namespace BufModel.Config
open BufModel.Path

theorem pluginLt_trans : ∀ a b c : LockPlugin, pluginLt a b = true → pluginLt b c = true → pluginLt a c = true :=
  fun a b c => strLt_total.trans a.name b.name c.name

theorem readLockPlugin_some {x : ExtLockPlugin} {p : LockPlugin} (h : readLockPlugin x = some p) :
    p.name ≠ [] ∧ p.commit ≠ [] ∧ p.digest ≠ [] := by
  unfold readLockPlugin at h
  repeat' (split at h <;> try contradiction)
  injection h with h
  subst h
  simp_all

theorem readLockPlugin_write (p : LockPlugin) (h : p.name ≠ [] ∧ p.commit ≠ [] ∧ p.digest ≠ []) :
    readLockPlugin ⟨p.name, true, p.commit, true, p.digest, true⟩ = some p := by
  simp [readLockPlugin, h.1, h.2.1, h.2.2]

theorem readLockPlugins_rt (ps : List ExtLockPlugin) (pl : List LockPlugin)
    (h : readLockPlugins ps = some pl) : readLockPlugins (writeLockPlugins pl) = some pl := by
  unfold readLockPlugins at h
  cases hk : ps.mapM readLockPlugin with
  | none => simp [hk] at h
  | some pl0 =>
    simp only [hk] at h
    split at h
    · cases h
    · simp only [Option.some.injEq] at h
      subst h
      obtain ⟨_, hmem⟩ := mapM_some_imp _ _ _ hk
      have hs : Sorted pluginLt (sortU pluginLt pl0) := sorted_sortU pluginLt_trans pl0
      have hp : ∀ p ∈ sortU pluginLt pl0,
          readLockPlugin ⟨p.name, true, p.commit, true, p.digest, true⟩ = some p := by
        intro p hp
        obtain ⟨x, _, hx⟩ := hmem p (mem_sortU_imp _ _ _ hp)
        exact readLockPlugin_write p (readLockPlugin_some hx)
      unfold readLockPlugins writeLockPlugins
      have := mapM_map_some (fun p : LockPlugin => (⟨p.name, true, p.commit, true, p.digest, true⟩ : ExtLockPlugin))
        readLockPlugin id (sortU pluginLt pl0) hp
      simp only [List.map_id] at this
      simp only [this]
      have hu : uniqueNonEmpty ((sortU pluginLt pl0).map (·.name)) = true :=
        uniqueNonEmpty_of_sorted _ (sorted_map_of_sorted LockPlugin.name _ hs)
      simp [hu, sortU_eq_self _ hs]

theorem readLock_version {ver : Ver} {ds : List ExtLockDep} {l : BufLock} (h : readLock ver ds = some l) :
    l.version = ver := by
  unfold readLock at h
  repeat' (split at h <;> try contradiction)
  injection h with h
  subst h
  rfl

/-- buf.lock, deps AND plugins: c ∈ range read → read (write c) = c. -/
theorem readLockFile_rt (ver : Ver) (ds : List ExtLockDep) (ps : List ExtLockPlugin) (f : BufLockFile)
    (h : readLockFile ver ds ps = some f) :
    readLockFile ver (writeLockFile f).1 (writeLockFile f).2 = some f := by
  unfold readLockFile at h
  split at h
  · cases h
  · rename_i hv
    split at h
    · rename_i l pl hl hpl
      injection h with h
      subst h
      have hver := readLock_version hl
      unfold readLockFile writeLockFile
      simp only [hver]
      by_cases hv2 : ver = .v2
      · subst hv2
        simp only [if_true, ne_eq, not_true_eq_false, false_and, if_false]
        rw [readLock_rt _ ds l hl, readLockPlugins_rt ps pl hpl]
      · have hps : ps = [] := by
          cases hps : ps with
          | nil => rfl
          | cons x xs => exact absurd ⟨hv2, by simp [hps]⟩ hv
        subst hps
        have hpl0 : pl = [] := by
          simp [readLockPlugins, uniqueNonEmpty, sortU] at hpl
          exact hpl
        subst hpl0
        simp only [hv2, if_false, ne_eq, not_true_eq_false, and_false]
        rw [readLock_rt _ ds l hl]
        simp [readLockPlugins, uniqueNonEmpty, sortU]
    · cases h

end BufModel.Config
