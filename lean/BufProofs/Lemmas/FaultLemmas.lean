import BufModel.Faults
import BufProofs.Lemmas.BucketLemmas
/-
  Helper lemmas for C15 (fault schedules, parallel copy, the atomic-put step machine).
-/
namespace BufProofs.C15
open BufModel.Path BufModel.Bucket BufModel.Faults

theorem writeChunks_none (s : Sched) (path : Str) (i : Nat) (cs : List Content)
    (h : (writeChunks s path i cs).2 = none) : (writeChunks s path i cs).1 = cs := by
  induction cs generalizing i with
  | nil => simp [writeChunks]
  | cons c rest ih =>
    unfold writeChunks at h ⊢
    split
    · rename_i hf; simp [hf] at h
    · rename_i hf
      simp only [hf] at h
      simp only [ih (i + 1) h]

theorem writeChunks_fault (s : Sched) (path : Str) (i0 : Nat) (cs : List Content) (k : Nat)
    (hk : k < cs.length) (h : s.has ⟨path, .write, i0 + k⟩ = true) :
    (writeChunks s path i0 cs).2.isSome = true := by
  induction cs generalizing i0 k with
  | nil => simp at hk
  | cons c rest ih =>
    unfold writeChunks
    split
    · simp
    · cases k with
      | zero => rename_i hf; simp at h; exact absurd h hf
      | succ k' =>
        simp only
        have : i0 + (k' + 1) = (i0 + 1) + k' := by omega
        rw [this] at h
        exact ih (i0 + 1) k' (by simp at hk; omega) h

/-- The error verdict of one copy job does not depend on the destination state … -/
theorem copyPath_err_indep (fx : Facts) (s : Sched) (d₁ d₂ : Dest) (path : Str) (chunks : List Content) :
    (copyPath fx s d₁ path chunks).1 = (copyPath fx s d₂ path chunks).1 := by
  unfold copyPath writeObj
  split
  · rfl
  · cases hv : validatePath path <;> rfl

def jobErr (fx : Facts) (s : Sched) (j : Str × List Content) : Bool :=
  (copyPath fx s ⟨[], []⟩ j.1 j.2).1

/-- … so parallel_collects_all: storage.Copy fails iff some job failed … -/
theorem copyAll_err_iff_any (fx : Facts) (s : Sched) (d : Dest) (jobs : List (Str × List Content)) :
    (copyAll fx s d jobs).1 = jobs.any (jobErr fx s) := by
  induction jobs generalizing d with
  | nil => simp [copyAll]
  | cons j rest ih =>
    obtain ⟨p, cs⟩ := j
    simp only [copyAll, List.any_cons, ih]
    congr 1
    exact copyPath_err_indep fx s d ⟨[], []⟩ p cs

/-- the write phase without faults -/
def wfold (d : ADir) (cs : List Content) : ADir := cs.foldl (fun d c => aStep d (.write c)) d

theorem wfold_nil (d : ADir) : wfold d [] = d := rfl

theorem wfold_cons (d : ADir) (c : Content) (cs : List Content) :
    wfold d (c :: cs) = wfold (aStep d (.write c)) cs := rfl

theorem wfold_final (d : ADir) (cs : List Content) : (wfold d cs).final = d.final := by
  induction cs generalizing d with
  | nil => rfl
  | cons c rest ih => rw [wfold_cons, ih]; rfl

theorem wfold_temp (fin : Option Content) (t : Content) (cs : List Content) :
    (wfold { final := fin, temp := some t } cs).temp = some (t ++ joinContent cs) := by
  induction cs generalizing t with
  | nil => simp [wfold_nil, joinContent]
  | cons c rest ih =>
    rw [wfold_cons]
    have : aStep { final := fin, temp := some t } (.write c) = { final := fin, temp := some (t ++ c) } := rfl
    rw [this, ih]; simp [joinContent, String.append_assoc]

theorem atomicWrites_noFail (d : ADir) (i : Nat) (bad : Bool) (chunks : List Content) :
    atomicWrites none d i bad chunks = (wfold d chunks, bad) := by
  induction chunks generalizing d i with
  | nil => simp [atomicWrites, wfold_nil]
  | cons c rest ih =>
    unfold atomicWrites
    simp only [reduceCtorEq, if_false]
    rw [ih, wfold_cons]

theorem atomicWrites_final (failAt : Option Nat) (d : ADir) (i : Nat) (bad : Bool) (chunks : List Content) :
    (atomicWrites failAt d i bad chunks).1.final = d.final := by
  induction chunks generalizing d i bad with
  | nil => simp [atomicWrites]
  | cons c rest ih =>
    unfold atomicWrites
    split
    · exact ih d (i + 1) true
    · rw [ih]; rfl

theorem atomicWrites_bad_stays (failAt : Option Nat) (d : ADir) (i : Nat) (cs : List Content) :
    (atomicWrites failAt d i true cs).2 = true := by
  induction cs generalizing d i with
  | nil => simp [atomicWrites]
  | cons c rest ih => unfold atomicWrites; split <;> exact ih _ _

theorem atomicWrites_hits (k : Nat) (cs : List Content) (d : ADir) (i : Nat) (bad : Bool)
    (h1 : i ≤ k) (h2 : k < i + cs.length) : (atomicWrites (some k) d i bad cs).2 = true := by
  induction cs generalizing d i bad with
  | nil => simp at h2; omega
  | cons c rest ih =>
    unfold atomicWrites
    by_cases hik : k = i
    · subst hik; simp only [if_true]; exact atomicWrites_bad_stays _ _ _ _
    · have hne : ¬ (some k = some i) := by simp [hik]
      rw [if_neg hne]
      exact ih _ (i + 1) bad (by omega) (by simp at h2; omega)

theorem foldl_no_rename_final (steps : List AStep) (d : ADir) (hno : ∀ st ∈ steps, st ≠ AStep.rename) :
    (steps.foldl aStep d).final = d.final := by
  induction steps generalizing d with
  | nil => rfl
  | cons st rest ih =>
    simp only [List.foldl]
    rw [ih _ (fun x hx => hno x (List.mem_cons_of_mem _ hx))]
    have := hno st (by simp)
    cases st with
    | createTemp => rfl
    | write c => rfl
    | closeFile => rfl
    | rename => exact absurd rfl this

/-! ### Two concurrent atomic puts -/

theorem joinContent_append (a b : List Content) : joinContent (a ++ b) = joinContent a ++ joinContent b := by
  induction a with
  | nil => simp [joinContent]
  | cons c rest ih => simp [joinContent, ih, String.append_assoc]

/-- What one writer's remaining program `r` and temp file `t` look like while it puts `cs`. -/
def WInv (cs : List Content) (r : List AStep) (t : Option Content) : Prop :=
  (r = atomicSteps cs ∧ t = none) ∨
  (∃ pre suf, cs = pre ++ suf ∧ r = suf.map AStep.write ++ [.closeFile, .rename] ∧ t = some (joinContent pre)) ∨
  (r = [.rename] ∧ t = some (joinContent cs)) ∨
  (r = [] ∧ t = none)

/-- the writer's own step on its own temp file -/
def ownStep (t : Option Content) : AStep → Option Content
  | .createTemp => some ""
  | .write c => t.map (· ++ c)
  | .closeFile => t
  | .rename => none

theorem winv_start (cs : List Content) : WInv cs (atomicSteps cs) none := Or.inl ⟨rfl, rfl⟩

theorem winv_step (cs : List Content) (x : AStep) (r : List AStep) (t : Option Content)
    (h : WInv cs (x :: r) t) :
    WInv cs r (ownStep t x) ∧ (x = .rename → t = some (joinContent cs)) := by
  rcases h with ⟨hr, ht⟩ | ⟨pre, suf, hcs, hr, ht⟩ | ⟨hr, ht⟩ | ⟨hr, _⟩
  · -- not started: x = createTemp
    unfold atomicSteps at hr
    simp only [List.cons_append, List.cons.injEq] at hr
    obtain ⟨hx, hr⟩ := hr
    subst hx
    refine ⟨Or.inr (Or.inl ⟨[], cs, by simp, ?_, by simp [ownStep, joinContent]⟩), by intro h; cases h⟩
    rw [hr]; simp
  · cases suf with
    | nil =>
      simp only [List.map_nil, List.nil_append, List.cons.injEq] at hr
      obtain ⟨hx, hr⟩ := hr
      subst hx
      refine ⟨Or.inr (Or.inr (Or.inl ⟨hr, ?_⟩)), by intro h; cases h⟩
      simp only [ownStep]; rw [ht, hcs]; simp
    | cons c suf =>
      simp only [List.map_cons, List.cons_append, List.cons.injEq] at hr
      obtain ⟨hx, hr⟩ := hr
      subst hx
      refine ⟨Or.inr (Or.inl ⟨pre ++ [c], suf, by simp [hcs], hr, ?_⟩), by intro h; cases h⟩
      simp only [ownStep]; rw [ht]; simp [joinContent_append, joinContent]
  · simp only [List.cons.injEq] at hr
    obtain ⟨hx, hr⟩ := hr
    subst hx
    exact ⟨Or.inr (Or.inr (Or.inr ⟨hr, rfl⟩)), fun _ => ht⟩
  · cases hr

def Good (old : Option Content) (ca cb : List Content) (f : Option Content) : Prop :=
  f = old ∨ f = some (joinContent ca) ∨ f = some (joinContent cb)

theorem cStep_a (d : CDir) (x : AStep) :
    (cStep false d (Who.a, x)).ta = ownStep d.ta x ∧ (cStep false d (Who.a, x)).tb = d.tb ∧
    ((cStep false d (Who.a, x)).final = d.final ∨ (x = .rename ∧ (cStep false d (Who.a, x)).final = d.ta)) := by
  cases x with
  | createTemp => simp [cStep, ownStep]
  | write c => simp [cStep, ownStep]
  | closeFile => simp [cStep, ownStep]
  | rename =>
    cases h : d.ta with
    | none => simp [cStep, ownStep, h]
    | some t => simp [cStep, ownStep, h]

theorem cStep_b (d : CDir) (x : AStep) :
    (cStep false d (Who.b, x)).tb = ownStep d.tb x ∧ (cStep false d (Who.b, x)).ta = d.ta ∧
    ((cStep false d (Who.b, x)).final = d.final ∨ (x = .rename ∧ (cStep false d (Who.b, x)).final = d.tb)) := by
  cases x with
  | createTemp => simp [cStep, ownStep]
  | write c => simp [cStep, ownStep]
  | closeFile => simp [cStep, ownStep]
  | rename =>
    cases h : d.tb with
    | none => simp [cStep, ownStep, h]
    | some t => simp [cStep, ownStep, h]

theorem good_after_a (old : Option Content) (ca cb : List Content) (d : CDir) (x : AStep) (r : List AStep)
    (ha : WInv ca (x :: r) d.ta) (hg : Good old ca cb d.final) :
    WInv ca r (cStep false d (Who.a, x)).ta ∧ (cStep false d (Who.a, x)).tb = d.tb ∧
      Good old ca cb (cStep false d (Who.a, x)).final := by
  obtain ⟨h1, h2, h3⟩ := cStep_a d x
  obtain ⟨hw, hren⟩ := winv_step ca x r d.ta ha
  refine ⟨by rw [h1]; exact hw, h2, ?_⟩
  rcases h3 with h | ⟨hx, h⟩
  · rw [h]; exact hg
  · rw [h, hren hx]; exact Or.inr (Or.inl rfl)

theorem good_after_b (old : Option Content) (ca cb : List Content) (d : CDir) (x : AStep) (r : List AStep)
    (hb : WInv cb (x :: r) d.tb) (hg : Good old ca cb d.final) :
    WInv cb r (cStep false d (Who.b, x)).tb ∧ (cStep false d (Who.b, x)).ta = d.ta ∧
      Good old ca cb (cStep false d (Who.b, x)).final := by
  obtain ⟨h1, h2, h3⟩ := cStep_b d x
  obtain ⟨hw, hren⟩ := winv_step cb x r d.tb hb
  refine ⟨by rw [h1]; exact hw, h2, ?_⟩
  rcases h3 with h | ⟨hx, h⟩
  · rw [h]; exact hg
  · rw [h, hren hx]; exact Or.inr (Or.inr rfl)

theorem merge2_good (old : Option Content) (ca cb : List Content) :
    ∀ (n : Nat) (sched : List Bool) (ra rb : List AStep) (d : CDir), ra.length + rb.length ≤ n →
      WInv ca ra d.ta → WInv cb rb d.tb → Good old ca cb d.final →
      ∀ j, Good old ca cb (((merge2 sched ra rb).take j).foldl (cStep false) d).final := by
  intro n
  induction n with
  | zero =>
    intro sched ra rb d hn _ _ hg j
    have h1 : ra = [] := List.eq_nil_of_length_eq_zero (by omega)
    have h2 : rb = [] := List.eq_nil_of_length_eq_zero (by omega)
    subst h1; subst h2
    simp [merge2]; exact hg
  | succ n ih =>
    intro sched ra rb d hn ha hb hg j
    have stepA : ∀ (s' : List Bool) (x : AStep) (xs : List AStep) (rb' : List AStep), ra = x :: xs → rb' = rb →
        Good old ca cb ((((Who.a, x) :: merge2 s' xs rb').take j).foldl (cStep false) d).final := by
      intro s' x xs rb' hra hrb
      subst hra; subst hrb
      cases j with
      | zero => simpa using hg
      | succ j =>
        simp only [List.take_succ_cons, List.foldl_cons]
        obtain ⟨hw, htb, hg'⟩ := good_after_a old ca cb d x xs ha hg
        exact ih s' xs rb' _ (by simp at hn; omega) hw (by rw [htb]; exact hb) hg' j
    have stepB : ∀ (s' : List Bool) (y : AStep) (ys : List AStep) (ra' : List AStep), rb = y :: ys → ra' = ra →
        Good old ca cb ((((Who.b, y) :: merge2 s' ra' ys).take j).foldl (cStep false) d).final := by
      intro s' y ys ra' hrb hra
      subst hrb; subst hra
      cases j with
      | zero => simpa using hg
      | succ j =>
        simp only [List.take_succ_cons, List.foldl_cons]
        obtain ⟨hw, hta, hg'⟩ := good_after_b old ca cb d y ys hb hg
        exact ih s' ra' ys _ (by simp at hn; omega) (by rw [hta]; exact ha) hw hg' j
    cases ra with
    | nil =>
      cases rb with
      | nil => simp [merge2]; exact hg
      | cons y ys => rw [merge2]; exact stepB _ y ys [] rfl rfl
    | cons x xs =>
      cases rb with
      | nil => rw [merge2]; exact stepA _ x xs [] rfl rfl
      | cons y ys =>
        cases sched with
        | nil => rw [merge2]; exact stepA _ x xs _ rfl rfl
        | cons b s =>
          cases b with
          | true => rw [merge2]; exact stepA _ x xs _ rfl rfl
          | false => rw [merge2]; exact stepB _ y ys _ rfl rfl

/-! ### A reader open across an overwrite (part E5): invariant of `rStep .asCoded` -/

/-- What an open reader has delivered is a prefix of the content it was opened on, and its bytes
    are still that content. -/
def RInv (old : List Char) (st : RSt) : Prop := st.snap = old ∧ st.got = old.take st.pos

theorem rinv_init (old : List Char) : RInv old (RSt.init old) := ⟨rfl, by simp [RSt.init]⟩

theorem rStep_closeW_fields (st : RSt) :
    (rStep .asCoded st .closeW).snap = st.snap ∧ (rStep .asCoded st .closeW).got = st.got ∧
      (rStep .asCoded st .closeW).pos = st.pos := by
  cases hf : st.flight with
  | nil => simp [rStep, hf]
  | cons x rest =>
    obtain ⟨same, c⟩ := x
    cases same <;> simp [rStep, hf, donate]

theorem rStep_inv (old : List Char) (st : RSt) (op : ROp) (h : RInv old st) :
    RInv old (rStep .asCoded st op) := by
  obtain ⟨hs, hg⟩ := h
  cases op with
  | read n =>
    refine ⟨hs, ?_⟩
    show st.got ++ (st.snap.drop st.pos).take n = old.take (st.pos + n)
    rw [hs, hg]
    exact (List.take_add).symm
  | put c => exact ⟨hs, hg⟩
  | other c => exact ⟨hs, hg⟩
  | wSame c => exact ⟨hs, hg⟩
  | wOther c => exact ⟨hs, hg⟩
  | closeW =>
    obtain ⟨h1, h2, h3⟩ := rStep_closeW_fields st
    exact ⟨h1.trans hs, by rw [h2, h3]; exact hg⟩

theorem rfold_inv (old : List Char) (ops : List ROp) (st : RSt) (h : RInv old st) :
    RInv old (ops.foldl (rStep .asCoded) st) := by
  induction ops generalizing st with
  | nil => exact h
  | cons op rest ih => exact ih _ (rStep_inv old st op h)

theorem closeAll_got (l : List (Bool × List Char)) (st : RSt) :
    (l.foldl (fun s _ => rStep .asCoded s .closeW) st).got = st.got := by
  induction l generalizing st with
  | nil => rfl
  | cons x rest ih =>
    rw [List.foldl_cons, ih]
    exact (rStep_closeW_fields st).2.1

end BufProofs.C15
