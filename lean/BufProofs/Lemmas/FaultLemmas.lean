import BufModel.Faults
import BufProofs.Lemmas.BucketLemmas
/-
  Helper lemmas for C15 (fault schedules, parallel copy, the atomic-put step machine).
-/
namespace BufProofs.C15
open BufModel.Path BufModel.Bucket BufModel.Faults

theorem writeChunks_none (s : Sched) (path : Str) (i : Nat) (cs : List Content)
    (h : (writeChunks s path i cs).2 = none) : (writeChunks s path i cs).1 = cs := by
  induction cs generalizing i with
  | nil => simp [writeChunks]
  | cons c rest ih =>
    unfold writeChunks at h ⊢
    split
    · rename_i hf; simp [hf] at h
    · rename_i hf
      simp only [hf] at h
      simp only [ih (i + 1) h]

theorem writeChunks_fault (s : Sched) (path : Str) (i0 : Nat) (cs : List Content) (k : Nat)
    (hk : k < cs.length) (h : s.has ⟨path, .write, i0 + k⟩ = true) :
    (writeChunks s path i0 cs).2.isSome = true := by
  induction cs generalizing i0 k with
  | nil => simp at hk
  | cons c rest ih =>
    unfold writeChunks
    split
    · simp
    · cases k with
      | zero => rename_i hf; simp at h; exact absurd h hf
      | succ k' =>
        simp only
        have : i0 + (k' + 1) = (i0 + 1) + k' := by omega
        rw [this] at h
        exact ih (i0 + 1) k' (by simp at hk; omega) h

/-- The error verdict of one copy job does not depend on the destination state … -/
theorem copyPath_err_indep (fx : Facts) (s : Sched) (d₁ d₂ : Dest) (path : Str) (chunks : List Content) :
    (copyPath fx s d₁ path chunks).1 = (copyPath fx s d₂ path chunks).1 := by
  unfold copyPath writeObj
  split
  · rfl
  · cases hv : validatePath path <;> rfl

def jobErr (fx : Facts) (s : Sched) (j : Str × List Content) : Bool :=
  (copyPath fx s ⟨[], []⟩ j.1 j.2).1

/-- … so parallel_collects_all: storage.Copy fails iff some job failed … -/
theorem copyAll_err_iff_any (fx : Facts) (s : Sched) (d : Dest) (jobs : List (Str × List Content)) :
    (copyAll fx s d jobs).1 = jobs.any (jobErr fx s) := by
  induction jobs generalizing d with
  | nil => simp [copyAll]
  | cons j rest ih =>
    obtain ⟨p, cs⟩ := j
    simp only [copyAll, List.any_cons, ih]
    congr 1
    exact copyPath_err_indep fx s d ⟨[], []⟩ p cs

/-- the write phase without faults -/
def wfold (d : ADir) (cs : List Content) : ADir := cs.foldl (fun d c => aStep d (.write c)) d

theorem wfold_nil (d : ADir) : wfold d [] = d := rfl

theorem wfold_cons (d : ADir) (c : Content) (cs : List Content) :
    wfold d (c :: cs) = wfold (aStep d (.write c)) cs := rfl

theorem wfold_final (d : ADir) (cs : List Content) : (wfold d cs).final = d.final := by
  induction cs generalizing d with
  | nil => rfl
  | cons c rest ih => rw [wfold_cons, ih]; rfl

theorem wfold_temp (fin : Option Content) (t : Content) (cs : List Content) :
    (wfold { final := fin, temp := some t } cs).temp = some (t ++ joinContent cs) := by
  induction cs generalizing t with
  | nil => simp [wfold_nil, joinContent]
  | cons c rest ih =>
    rw [wfold_cons]
    have : aStep { final := fin, temp := some t } (.write c) = { final := fin, temp := some (t ++ c) } := rfl
    rw [this, ih]; simp [joinContent, String.append_assoc]

theorem atomicWrites_noFail (d : ADir) (i : Nat) (bad : Bool) (chunks : List Content) :
    atomicWrites none d i bad chunks = (wfold d chunks, bad) := by
  induction chunks generalizing d i with
  | nil => simp [atomicWrites, wfold_nil]
  | cons c rest ih =>
    unfold atomicWrites
    simp only [reduceCtorEq, if_false]
    rw [ih, wfold_cons]

theorem atomicWrites_final (failAt : Option Nat) (d : ADir) (i : Nat) (bad : Bool) (chunks : List Content) :
    (atomicWrites failAt d i bad chunks).1.final = d.final := by
  induction chunks generalizing d i bad with
  | nil => simp [atomicWrites]
  | cons c rest ih =>
    unfold atomicWrites
    split
    · exact ih d (i + 1) true
    · rw [ih]; rfl

theorem atomicWrites_bad_stays (failAt : Option Nat) (d : ADir) (i : Nat) (cs : List Content) :
    (atomicWrites failAt d i true cs).2 = true := by
  induction cs generalizing d i with
  | nil => simp [atomicWrites]
  | cons c rest ih => unfold atomicWrites; split <;> exact ih _ _

theorem atomicWrites_hits (k : Nat) (cs : List Content) (d : ADir) (i : Nat) (bad : Bool)
    (h1 : i ≤ k) (h2 : k < i + cs.length) : (atomicWrites (some k) d i bad cs).2 = true := by
  induction cs generalizing d i bad with
  | nil => simp at h2; omega
  | cons c rest ih =>
    unfold atomicWrites
    by_cases hik : k = i
    · subst hik; simp only [if_true]; exact atomicWrites_bad_stays _ _ _ _
    · have hne : ¬ (some k = some i) := by simp [hik]
      rw [if_neg hne]
      exact ih _ (i + 1) bad (by omega) (by simp at h2; omega)

theorem foldl_no_rename_final (steps : List AStep) (d : ADir) (hno : ∀ st ∈ steps, st ≠ AStep.rename) :
    (steps.foldl aStep d).final = d.final := by
  induction steps generalizing d with
  | nil => rfl
  | cons st rest ih =>
    simp only [List.foldl]
    rw [ih _ (fun x hx => hno x (List.mem_cons_of_mem _ hx))]
    have := hno st (by simp)
    cases st with
    | createTemp => rfl
    | write c => rfl
    | closeFile => rfl
    | rename => exact absurd rfl this

end BufProofs.C15
