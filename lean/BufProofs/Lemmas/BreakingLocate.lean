import BufProofs.Lemmas.BreakingDetect
/-
  Location lemmas for C03 ("located at it"): what the location terms of the model's annotations
  (`annAt`, `msgLoc`, `enumLoc`, `svcLoc`, `fieldAnn`, `deletedAnn`, `enclosing`) denote, stated
  independently of the rule handlers:

  * the source path of a flattened message / field / enum / service / method RESOLVES, in the
    descriptor tree of its file, to that very element (`msgAt`, `flatMsgs_path_resolves`, …);
  * `annAt` picks the first candidate path that has a source location, else only the file;
  * `enclosing c q` is the current message whose nested name is the LONGEST proper non-empty
    prefix of `q` (`enclosing_some`, `enclosing_none`).
-/
namespace BufProofs.Breaking
open BufModel.Schema BufModel.Breaking

theorem find_file_unique {cur : Schema} (hw : WF cur) {cf : File} (hcf : cf ∈ cur) {x : String}
    (hp : cf.path = x) : cur.find? (fun f => decide (f.path = x)) = some cf := by
  subst hp; exact find_key_unique File.path cur hw.files cf hcf

/-! ### annAt -/

theorem annAt_skip (rule file : String) (locs : List SPath) (p : SPath) (rest : List SPath) (fb : String)
    (h : p ∉ locs) : annAt rule file locs (p :: rest) fb = annAt rule file locs rest fb := by
  unfold annAt
  simp [List.find?, h]

theorem annAt_none (rule file : String) (locs : List SPath) (cands : List SPath) (fb : String)
    (h : ∀ p ∈ cands, p ∉ locs) : annAt rule file locs cands fb = ⟨rule, fb, []⟩ := by
  unfold annAt
  have : cands.find? (fun p => decide (p ∈ locs)) = none := by
    apply List.find?_eq_none.2
    intro p hp; simpa using h p hp
  rw [this]

/-- whatever the candidates, the annotation carries the rule id it was built with -/
theorem annAt_rule (rule file : String) (locs cands : List SPath) (fb : String) :
    (annAt rule file locs cands fb).rule = rule := by
  unfold annAt; split <;> rfl

/-- … and is located in `file` (with a path that has a location) or is file-only on `fb` -/
theorem annAt_cases (rule file : String) (locs cands : List SPath) (fb : String) :
    (∃ p ∈ cands, p ∈ locs ∧ annAt rule file locs cands fb = ⟨rule, file, p⟩) ∨
    ((∀ p ∈ cands, p ∉ locs) ∧ annAt rule file locs cands fb = ⟨rule, fb, []⟩) := by
  unfold annAt
  cases hf : cands.find? (fun p => decide (p ∈ locs)) with
  | some p =>
    refine Or.inl ⟨p, List.mem_of_find?_eq_some hf, ?_, rfl⟩
    simpa using List.find?_some hf
  | none =>
    refine Or.inr ⟨fun p hp => ?_, rfl⟩
    simpa using List.find?_eq_none.1 hf p hp

/-! ### source paths resolve to the element -/

theorem indexed_getElem {α : Type} {xs : List α} {j : Nat} {x : α} (h : (j, x) ∈ indexed xs) :
    xs[j]? = some x := by
  unfold indexed at h
  obtain ⟨p, hp, he⟩ := List.mem_map.1 h
  have := List.mem_zipIdx_iff_getElem?.1 hp
  cases he
  exact this

/-- descend from a message along a relative source path `[3, j, 3, k, …]`
    (DescriptorProto.nested_type = 3) -/
def descend : Msg → SPath → Option Msg
  | m, [] => some m
  | m, 3 :: j :: rest =>
    match m.nested[j]? with
    | some n => descend n rest
    | none => none
  | _, _ => none

/-- the message a source path `[4, i, 3, j, …]` designates in a file's descriptor tree
    (FileDescriptorProto.message_type = 4) -/
def msgAt (f : File) : SPath → Option Msg
  | 4 :: i :: rest =>
    match f.messages[i]? with
    | some m => descend m rest
    | none => none
  | _ => none

theorem descend_nest (info : MsgInfo) (ns : List Msg) (k : Nat) (m0 : Msg) (rel : SPath)
    (h : ns[k]? = some m0) : descend (.mk info ns) (3 :: k :: rel) = descend m0 rel := by
  rw [descend]
  simp only [Msg.nested, h]

mutual
theorem flatMsg_path (file : String) (locs : List SPath) (pkg : QName) :
    ∀ (m : Msg) (pre : QName) (path : SPath) (ml : Option SPath) (x : FlatMsg),
      x ∈ flatMsg file locs pkg pre path ml m →
      ∃ rel n, x.path = path ++ rel ∧ descend m rel = some n ∧ n.info = x.info
  | .mk info nested, pre, path, ml, x, hx => by
    rw [flatMsg] at hx
    rcases List.mem_cons.1 hx with rfl | h
    · exact ⟨[], .mk info nested, by simp, by rw [descend], rfl⟩
    · obtain ⟨k, rel, n, m0, hk, hp, hd, hi⟩ := flatMsgs_path file locs pkg nested _ _ _ _ x h
      refine ⟨3 :: k :: rel, n, ?_, ?_, hi⟩
      · rw [hp]; simp
      · rw [descend_nest info nested k m0 rel hk]; exact hd
theorem flatMsgs_path (file : String) (locs : List SPath) (pkg : QName) :
    ∀ (ms : List Msg) (pre : QName) (path : SPath) (pf : List Field) (i : Nat) (x : FlatMsg),
      x ∈ flatMsgs file locs pkg pre path pf i ms →
      ∃ k rel n m0, ms[k]? = some m0 ∧ x.path = path ++ [3, i + k] ++ rel ∧ descend m0 rel = some n ∧
        n.info = x.info
  | [], _, _, _, _, x, hx => by rw [flatMsgs] at hx; cases hx
  | m :: ms, pre, path, pf, i, x, hx => by
    rw [flatMsgs] at hx
    rcases List.mem_append.1 hx with h | h
    · obtain ⟨rel, n, hp, hd, hi⟩ := flatMsg_path file locs pkg m _ _ _ x h
      exact ⟨0, rel, n, m, rfl, by rw [hp]; simp, hd, hi⟩
    · obtain ⟨k, rel, n, m0, hk, hp, hd, hi⟩ := flatMsgs_path file locs pkg ms _ _ _ _ x h
      refine ⟨k + 1, rel, n, m0, by simpa using hk, ?_, hd, hi⟩
      rw [hp]
      have : i + 1 + k = i + (k + 1) := by omega
      rw [this]
end

theorem topMsgs_path (file : String) (locs : List SPath) (pkg : QName) :
    ∀ (ms : List Msg) (i : Nat) (x : FlatMsg), x ∈ topMsgs file locs pkg i ms →
      ∃ k rel n m0, ms[k]? = some m0 ∧ x.path = [4, i + k] ++ rel ∧ descend m0 rel = some n ∧ n.info = x.info
  | [], _, x, hx => by rw [topMsgs] at hx; cases hx
  | m :: ms, i, x, hx => by
    rw [topMsgs] at hx
    rcases List.mem_append.1 hx with h | h
    · obtain ⟨rel, n, hp, hd, hi⟩ := flatMsg_path file locs pkg m _ _ _ x h
      exact ⟨0, rel, n, m, rfl, by rw [hp]; simp, hd, hi⟩
    · obtain ⟨k, rel, n, m0, hk, hp, hd, hi⟩ := topMsgs_path file locs pkg ms _ x h
      refine ⟨k + 1, rel, n, m0, by simpa using hk, ?_, hd, hi⟩
      rw [hp]
      have : i + 1 + k = i + (k + 1) := by omega
      rw [this]

/-- The source path of a flattened message designates, in the file's descriptor tree, a message with
    exactly that content; the flattened message carries the file's path and location table. -/
theorem flatMsgs_path_resolves {f : File} {fm : FlatMsg} (h : fm ∈ f.flatMsgs) :
    (∃ n, msgAt f fm.path = some n ∧ n.info = fm.info) ∧ fm.file = f.path ∧ fm.locs = f.locs := by
  refine ⟨?_, (mem_flatMsgs_ctx h).1, (mem_flatMsgs_ctx h).2.2⟩
  obtain ⟨k, rel, n, m0, hk, hp, hd, hi⟩ := topMsgs_path f.path f.locs f.pkg f.messages 0 fm h
  refine ⟨n, ?_, hi⟩
  rw [hp]
  simp only [Nat.zero_add, List.cons_append, List.nil_append, msgAt, hk]
  exact hd

/-- a field of a flattened message: its path is `message path ++ [2, j]` (DescriptorProto.field = 2)
    where `j` is its index in the message -/
theorem msgFields_path {m : FlatMsg} {c : FlatField} (h : c ∈ msgFields m) :
    ∃ j, c.path = m.path ++ [2, j] ∧ m.info.fields[j]? = some c.field ∧ c.file = m.file ∧ c.locs = m.locs := by
  unfold msgFields at h
  obtain ⟨p, hp, rfl⟩ := List.mem_map.1 h
  exact ⟨p.1, rfl, indexed_getElem hp, rfl, rfl⟩

/-- a method of a flattened service: `service path ++ [2, j]` (ServiceDescriptorProto.method = 2) -/
theorem svcMethods_path {s : FlatSvc} {c : FlatMethod} (h : c ∈ svcMethods s) :
    ∃ j, c.path = s.path ++ [2, j] ∧ s.svc.methods[j]? = some c.m ∧ c.file = s.file ∧ c.locs = s.locs := by
  unfold svcMethods at h
  obtain ⟨p, hp, rfl⟩ := List.mem_map.1 h
  exact ⟨p.1, rfl, indexed_getElem hp, rfl, rfl⟩

/-- a service: `[6, j]` (FileDescriptorProto.service = 6) -/
theorem flatSvcs_path {f : File} {s : FlatSvc} (h : s ∈ f.flatSvcs) :
    ∃ j, s.path = [6, j] ∧ f.services[j]? = some s.svc ∧ s.file = f.path ∧ s.locs = f.locs := by
  unfold File.flatSvcs at h
  obtain ⟨p, hp, rfl⟩ := List.mem_map.1 h
  exact ⟨p.1, rfl, indexed_getElem hp, rfl, rfl⟩

/-- an enum: `[5, j]` at file level (FileDescriptorProto.enum_type = 5), or `message path ++ [4, j]`
    inside a message (DescriptorProto.enum_type = 4) whose nested name prefixes the enum's -/
theorem flatEnums_path {f : File} {e : FlatEnum} (h : e ∈ f.flatEnums) :
    ((∃ j, e.path = [5, j] ∧ f.enums[j]? = some e.enum ∧ e.nested = [e.enum.name]) ∨
     (∃ m ∈ f.flatMsgs, ∃ j, e.path = m.path ++ [4, j] ∧ m.info.enums[j]? = some e.enum ∧
        e.nested = m.nested ++ [e.enum.name])) ∧ e.file = f.path ∧ e.locs = f.locs := by
  unfold File.flatEnums at h
  rcases List.mem_append.1 h with h | h
  · obtain ⟨p, hp, rfl⟩ := List.mem_map.1 h
    exact ⟨Or.inl ⟨p.1, rfl, indexed_getElem hp, rfl⟩, rfl, rfl⟩
  · obtain ⟨m, hm, hx⟩ := List.mem_flatMap.1 h
    obtain ⟨p, hp, rfl⟩ := List.mem_map.1 hx
    exact ⟨Or.inr ⟨m, hm, p.1, rfl, indexed_getElem hp, rfl⟩, rfl, rfl⟩

/-! ### the nearest surviving enclosing message -/

/-- `enclosing` restricted to prefix lengths `< n` -/
def enclBelow (c : File) (q : QName) (n : Nat) : Option FlatMsg :=
  (((List.range n).reverse).filter (fun i => decide (1 ≤ i))).findSome? fun i =>
    c.flatMsgs.find? (fun m => decide (m.nested = q.take i))

theorem enclosing_eq (c : File) (q : QName) : enclosing c q = enclBelow c q q.length := rfl

theorem enclBelow_succ (c : File) (q : QName) (n : Nat) :
    enclBelow c q (n + 1) =
      if 1 ≤ n then
        match c.flatMsgs.find? (fun m => decide (m.nested = q.take n)) with
        | some m => some m
        | none => enclBelow c q n
      else enclBelow c q n := by
  unfold enclBelow
  rw [List.range_succ, List.reverse_append]
  simp only [List.reverse_cons, List.reverse_nil, List.nil_append, List.singleton_append]
  by_cases h : 1 ≤ n
  · rw [List.filter_cons_of_pos (by simpa using h), List.findSome?_cons, if_pos h]
    cases c.flatMsgs.find? (fun m => decide (m.nested = q.take n)) <;> rfl
  · rw [List.filter_cons_of_neg (by simpa using h), if_neg h]

/-- what `enclBelow` returns: a current message named by a prefix of length `i ∈ [1, n)`, and no
    current message is named by a longer prefix of length `< n`; `none` iff there is no such message -/
theorem enclBelow_spec (c : File) (q : QName) : ∀ n,
    (∀ m, enclBelow c q n = some m → m ∈ c.flatMsgs ∧ ∃ i, 1 ≤ i ∧ i < n ∧ m.nested = q.take i ∧
      ∀ j, i < j → j < n → ∀ m' ∈ c.flatMsgs, m'.nested ≠ q.take j) ∧
    (enclBelow c q n = none → ∀ j, 1 ≤ j → j < n → ∀ m' ∈ c.flatMsgs, m'.nested ≠ q.take j)
  | 0 => by
    refine ⟨fun m h => ?_, fun _ j _ hj => absurd hj (Nat.not_lt_zero j)⟩
    simp [enclBelow] at h
  | n + 1 => by
    obtain ⟨ih1, ih2⟩ := enclBelow_spec c q n
    rw [enclBelow_succ]
    by_cases h1 : 1 ≤ n
    · rw [if_pos h1]
      cases hf : c.flatMsgs.find? (fun m => decide (m.nested = q.take n)) with
      | some m0 =>
        refine ⟨fun m h => ?_, fun h => by cases h⟩
        simp only [Option.some.injEq] at h
        subst h
        refine ⟨List.mem_of_find?_eq_some hf, n, h1, Nat.lt_succ_self n, by simpa using List.find?_some hf, ?_⟩
        intro j h2 h3; omega
      | none =>
        have hnone : ∀ m' ∈ c.flatMsgs, m'.nested ≠ q.take n := fun m' hm' => by
          simpa using List.find?_eq_none.1 hf m' hm'
        refine ⟨fun m h => ?_, fun h j hj1 hj2 m' hm' => ?_⟩
        · obtain ⟨hm, i, hi1, hi2, hi3, hmax⟩ := ih1 m h
          refine ⟨hm, i, hi1, Nat.lt_succ_of_lt hi2, hi3, fun j hj1 hj2 m' hm' => ?_⟩
          by_cases hjn : j = n
          · subst hjn; exact hnone m' hm'
          · exact hmax j hj1 (by omega) m' hm'
        · by_cases hjn : j = n
          · subst hjn; exact hnone m' hm'
          · exact ih2 h j hj1 (by omega) m' hm'
    · rw [if_neg h1]
      have hn : n = 0 := by omega
      subst hn
      refine ⟨fun m h => ?_, fun _ j hj1 hj2 => by omega⟩
      simp [enclBelow] at h

/-- `enclosing c q = some m`: `m` is a message of the current file `c` whose nested name is a proper,
    non-empty prefix of `q`, and it is the LONGEST such prefix — the nearest surviving ancestor. -/
theorem enclosing_some {c : File} {q : QName} {m : FlatMsg} (h : enclosing c q = some m) :
    m ∈ c.flatMsgs ∧ 1 ≤ m.nested.length ∧ m.nested.length < q.length ∧ m.nested = q.take m.nested.length ∧
    ∀ m' ∈ c.flatMsgs, m'.nested.length < q.length → m'.nested = q.take m'.nested.length →
      m'.nested.length ≤ m.nested.length := by
  rw [enclosing_eq] at h
  obtain ⟨hm, i, hi1, hi2, hi3, hmax⟩ := (enclBelow_spec c q q.length).1 m h
  have hlen : m.nested.length = i := by rw [hi3, List.length_take]; omega
  refine ⟨hm, by omega, by omega, by rw [hlen]; exact hi3, fun m' hm' hl hp => ?_⟩
  apply Nat.le_of_not_lt
  intro hlt
  exact hmax m'.nested.length (by omega) hl m' hm' hp

/-- `enclosing c q = none`: no message of the current file is named by a proper non-empty prefix of `q` -/
theorem enclosing_none {c : File} {q : QName} (h : enclosing c q = none) :
    ∀ m' ∈ c.flatMsgs, 1 ≤ m'.nested.length → m'.nested.length < q.length → m'.nested ≠ q.take m'.nested.length := by
  rw [enclosing_eq] at h
  intro m' hm' h1 h2
  exact (enclBelow_spec c q q.length).2 h _ h1 h2 m' hm'

/-! ### tag ranges: `covers` is sound (whatever the fuel) -/

theorem covers_sound : ∀ (fuel : Nat) (rs : List Range) (lo hi : Int), covers fuel rs lo hi = true →
    ∀ n, lo ≤ n → n ≤ hi → ∃ q ∈ rs, q.1 ≤ n ∧ n ≤ q.2
  | 0, _, lo, hi, h, n, h1, h2 => by
    simp [covers] at h; omega
  | fuel + 1, rs, lo, hi, h, n, h1, h2 => by
    unfold covers at h
    by_cases hlt : hi < lo
    · omega
    · simp only [hlt, if_false] at h
      cases hf : rs.find? (fun r => rangeHas r lo) with
      | none => rw [hf] at h; cases h
      | some r =>
        rw [hf] at h
        simp only at h
        have hr : r ∈ rs := List.mem_of_find?_eq_some hf
        have hhas : rangeHas r lo = true := List.find?_some (p := fun r => rangeHas r lo) hf
        simp [rangeHas] at hhas
        by_cases hn : n ≤ r.2
        · exact ⟨r, hr, by omega, hn⟩
        · obtain ⟨q, hq, hq1, hq2⟩ := covers_sound fuel _ (r.2 + 1) hi h n (by omega) h2
          exact ⟨q, (List.mem_filter.1 hq).1, hq1, hq2⟩

/-- a number of the range `r` that no current range contains makes `r` "missing" -/
theorem rangeMissing_of_uncovered (rs : List Range) (r : Range) (n : Int) (h1 : r.1 ≤ n) (h2 : n ≤ r.2)
    (hun : ∀ q ∈ rs, ¬ (q.1 ≤ n ∧ n ≤ q.2)) : rangeMissing rs r = true := by
  unfold rangeMissing
  cases hc : covers (rs.length + 1) rs r.1 r.2 with
  | false => rfl
  | true =>
    obtain ⟨q, hq, hq1, hq2⟩ := covers_sound _ _ _ _ hc n h1 h2
    exact absurd ⟨hq1, hq2⟩ (hun q hq)

/-! ### multiplicities -/

theorem sublist_flatMap_of_mem {α β : Type} {l : List α} {f : α → List β} {x : α} (h : x ∈ l) :
    List.Sublist (f x) (l.flatMap f) := by
  rw [List.flatMap_def]; exact List.sublist_flatten_of_mem (List.mem_map_of_mem h)

theorem count_flatMap_ite {α : Type} (xs : List α) (p : α → Bool) (a : Ann) :
    (xs.flatMap fun x => if p x then [] else [a]).count a = (xs.filter fun x => !p x).length := by
  induction xs with
  | nil => rfl
  | cons x xs ih =>
    rw [List.flatMap_cons, List.count_append, ih]
    cases hp : p x <;> simp [hp] <;> omega

/-- with unique current keys, everything `onPair` says about a matched pair is in the result, with
    multiplicity -/
theorem count_le_pairwise {α κ : Type} [DecidableEq κ] (key : α → κ) (cur prev : List α)
    (onMissing : α → List Ann) (onPair : α → α → List Ann) (p c : α) (a : Ann)
    (hnd : (cur.map key).Nodup) (hp : p ∈ prev) (hc : c ∈ cur) (hk : key c = key p) :
    (onPair c p).count a ≤ (pairwise key cur prev onMissing onPair).count a := by
  unfold pairwise
  refine Nat.le_trans ?_ ((sublist_flatMap_of_mem hp).count_le a)
  have hf := find_key_unique key cur hnd c hc
  rw [hk] at hf
  simp only [hf]
  exact Nat.le_refl _

theorem count_le_check {v : Ver} {cat id : String} {cur prev : Schema} (a : Ann) (hid : id ∈ rulesOf v cat) :
    (runRule id cur prev).count a ≤ (check v cat cur prev).count a :=
  (sublist_flatMap_of_mem (f := fun id => runRule id cur prev) hid).count_le a

end BufProofs.Breaking
