import BufProofs.Lemmas.FilterRewriteLemmas
/-
  C12 — source locations at FILE level: `remapLocs` runs `fixPath` over the merged marks of the
  whole file.  `fixPath` equals a plain walk (`walk`) that only looks up `actAt` / `noCommentAt` at
  the nodes along the path; sibling slices and other nesting levels never put a mark on a node
  strictly below a kept message (`Same`-lemmas), so the walk composes level by level.
-/
namespace BufProofs.FilterComment
open BufModel.Filter BufProofs.FilterLemmas BufProofs.FilterClosure BufProofs.FilterRewrite

/-! ### fixPath is a plain walk -/

/-- `fixPath` without the `hasNode` short cut -/
def walk (ms : Marks) : List Nat → List Nat → Option (List Nat × Bool)
  | _, [] => some ([], false)
  | pre, x :: rest =>
    match actAt ms (pre ++ [x]) with
    | some .deleted => none
    | a =>
      let x' := match a with | some (.moved t) => t | _ => x
      match rest with
      | [] => some ([x'], noCommentAt ms (pre ++ [x]))
      | _ :: _ => match walk ms (pre ++ [x]) rest with
        | some (r, nc) => some (x' :: r, nc)
        | none => none

theorem hasNode_snoc (ms : Marks) (p : List Nat) (y : Nat) (h : hasNode ms p = false) : hasNode ms (p ++ [y]) = false := by
  unfold hasNode at h ⊢
  rw [List.any_eq_false] at h ⊢
  intro m hm hp
  apply h m hm
  have := List.isPrefixOf_iff_prefix.mp hp
  exact List.isPrefixOf_iff_prefix.mpr (List.IsPrefix.trans (List.prefix_append p [y]) this)

theorem walk_no_node (ms : Marks) (pre : List Nat) (x : Nat) (rest : List Nat)
    (h : hasNode ms (pre ++ [x]) = false) : walk ms pre (x :: rest) = some (x :: rest, false) := by
  induction rest generalizing pre x with
  | nil =>
    unfold walk
    rw [actAt_of_no_node _ _ h, noCommentAt_of_no_node _ _ h]
  | cons y rest ih =>
    unfold walk
    rw [actAt_of_no_node _ _ h]
    simp only []
    rw [ih (pre ++ [x]) y (hasNode_snoc ms _ y h)]

theorem fixPath_eq_walk (ms : Marks) (pre path : List Nat) : fixPath ms pre path = walk ms pre path := by
  induction path generalizing pre with
  | nil => unfold fixPath walk; rfl
  | cons x rest ih =>
    by_cases hn : hasNode ms (pre ++ [x]) = true
    · unfold fixPath walk
      simp only [hn, Bool.not_true, Bool.false_eq_true, if_false]
      cases ha : actAt ms (pre ++ [x]) with
      | none =>
        cases rest with
        | nil => rfl
        | cons y r => simp only []; rw [ih]; cases walk ms (pre ++ [x]) (y :: r) <;> rfl
      | some a =>
        cases a with
        | deleted => rfl
        | moved t =>
          cases rest with
          | nil => rfl
          | cons y r => simp only []; rw [ih]; cases walk ms (pre ++ [x]) (y :: r) <;> rfl
        | noComment =>
          cases rest with
          | nil => rfl
          | cons y r => simp only []; rw [ih]; cases walk ms (pre ++ [x]) (y :: r) <;> rfl
    · have hn' : hasNode ms (pre ++ [x]) = false := by simpa using hn
      rw [walk_no_node ms pre x rest hn']
      unfold fixPath
      simp [hn']

/-- the walk only depends on the two lookups at the nodes it passes -/
def Same (q : List Nat) (X Y : Marks) : Prop := actAt X q = actAt Y q ∧ noCommentAt X q = noCommentAt Y q

theorem walk_congr (X Y : Marks) (pre path : List Nat)
    (h : ∀ a b, a ≠ [] → path = a ++ b → Same (pre ++ a) X Y) : walk X pre path = walk Y pre path := by
  induction path generalizing pre with
  | nil => unfold walk; rfl
  | cons x rest ih =>
    have h0 := h [x] rest (by simp) rfl
    unfold walk
    rw [h0.1, h0.2]
    cases rest with
    | nil => rfl
    | cons y r =>
      have := ih (pre ++ [x]) (by
        intro a b ha hab
        have := h (x :: a) b (by simp) (by rw [hab]; rfl)
        simpa using this)
      simp only []
      rw [this]

/-! ### lookups in appended mark lists -/

def NotAt (q : List Nat) (X : Marks) : Prop := ∀ mk ∈ X, mk.1 ≠ q

theorem actAt_notAt (q : List Nat) (X : Marks) (h : NotAt q X) : actAt X q = none := by
  induction X with
  | nil => rfl
  | cons m ms ih =>
    rw [actAt_cons]
    have : ¬ (m.1 = q ∧ m.2 ≠ Act.noComment) := fun hh => h m (by simp) hh.1
    simp only [this, if_false]
    exact ih (fun mk hmk => h mk (by simp [hmk]))

theorem noCommentAt_notAt (q : List Nat) (X : Marks) (h : NotAt q X) : noCommentAt X q = false := by
  unfold noCommentAt
  rw [List.any_eq_false]
  intro m hm
  have := h m hm
  simp [this]

theorem noCommentAt_append (A B : Marks) (q : List Nat) :
    noCommentAt (A ++ B) q = (noCommentAt A q || noCommentAt B q) := by
  unfold noCommentAt; rw [List.any_append]

theorem same_append_left (q : List Nat) (A B : Marks) (h : NotAt q B) : Same q (A ++ B) A := by
  constructor
  · rw [actAt_append, actAt_notAt q B h]; cases actAt A q <;> rfl
  · rw [noCommentAt_append, noCommentAt_notAt q B h]; simp

theorem same_append_right (q : List Nat) (A B : Marks) (h : NotAt q A) : Same q (A ++ B) B := by
  constructor
  · rw [actAt_append, actAt_notAt q A h]
  · rw [noCommentAt_append, noCommentAt_notAt q A h]; simp

theorem Same.trans {q : List Nat} {X Y Z : Marks} (h1 : Same q X Y) (h2 : Same q Y Z) : Same q X Z :=
  ⟨h1.1.trans h2.1, h1.2.trans h2.2⟩

theorem Same.refl (q : List Nat) (X : Marks) : Same q X X := ⟨rfl, rfl⟩

theorem notAt_append {q : List Nat} {A B : Marks} (ha : NotAt q A) (hb : NotAt q B) : NotAt q (A ++ B) := by
  intro mk hmk
  rcases List.mem_append.mp hmk with h | h
  · exact ha mk h
  · exact hb mk h

/-- marks under `P ++ [a]` are never at a node that continues `P` with another component -/
theorem notAt_of_under (P : List Nat) (a b : Nat) (r : List Nat) (X : Marks) (h : Under (P ++ [a]) X)
    (hab : a ≠ b) : NotAt (P ++ b :: r) X := by
  intro mk hmk e
  obtain ⟨rest, hr⟩ := h mk hmk
  rw [hr, List.append_assoc] at e
  have := List.append_cancel_left e
  simp only [List.singleton_append, List.cons.injEq] at this
  exact hab this.1

theorem notAt_single (q p : List Nat) (a : Act) (h : p ≠ q) : NotAt q [(p, a)] := by
  intro mk hmk
  simp only [List.mem_cons, List.mem_nil_iff, or_false] at hmk
  subst hmk; exact h

/-! ### the marks of a message list, seen from one of its elements -/

/-- every mark sits at `path` or below `path ++ [j]` for some `j ≥ n` -/
def FromIdx (path : List Nat) (n : Nat) (R : Marks) : Prop :=
  ∀ mk ∈ R, mk.1 = path ∨ ∃ j, n ≤ j ∧ ∃ rest, mk.1 = path ++ j :: rest

theorem FromIdx.mono {path : List Nat} {n n' : Nat} {R : Marks} (h : FromIdx path n R) (hn : n' ≤ n) :
    FromIdx path n' R := by
  intro mk hmk
  rcases h mk hmk with h | ⟨j, hj, r⟩
  · exact Or.inl h
  · exact Or.inr ⟨j, by omega, r⟩

theorem FromIdx.append {path : List Nat} {n : Nat} {A B : Marks} (ha : FromIdx path n A) (hb : FromIdx path n B) :
    FromIdx path n (A ++ B) := by
  intro mk hmk
  rcases List.mem_append.mp hmk with h | h
  · exact ha mk h
  · exact hb mk h

theorem fromIdx_of_below (path : List Nat) (fr : Nat) (M : Marks) (h : Below (path ++ [fr]) M) : FromIdx path fr M := by
  intro mk hmk
  obtain ⟨rest, hr⟩ := below_under h mk hmk
  exact Or.inr ⟨fr, Nat.le_refl _, rest, by rw [hr]; simp⟩

theorem fromIdx_single (path : List Nat) (fr : Nat) (a : Act) : FromIdx path fr [(path ++ [fr], a)] := by
  intro mk hmk
  simp only [List.mem_cons, List.mem_nil_iff, or_false] at hmk
  subst hmk
  exact Or.inr ⟨fr, Nat.le_refl _, [], rfl⟩

theorem fromIdx_remapMsgs (c : RCtx) (path : List Nat) (ms : List Msg) (fr to : Nat) :
    FromIdx path fr (remapMsgs c path ms fr to).2 := by
  induction ms generalizing fr to with
  | nil =>
    unfold remapMsgs
    intro mk hmk
    split at hmk
    · simp only [List.mem_cons, List.mem_nil_iff, or_false] at hmk; subst hmk; exact Or.inl rfl
    · cases hmk
  | cons x xs ih =>
    unfold remapMsgs
    have hb := fromIdx_of_below path fr _ (below_remapMsg c (path ++ [fr]) x)
    cases h : remapMsg c (path ++ [fr]) x with
    | mk r mks =>
      rw [h] at hb
      cases r with
      | none =>
        simp only []
        exact (hb.append (fromIdx_single path fr _)).append ((ih (fr + 1) to).mono (by omega))
      | some y =>
        simp only []
        refine (hb.append ?_).append ((ih (fr + 1) (to + 1)).mono (by omega))
        split
        · exact fromIdx_single path fr _
        · intro mk hmk; cases hmk

theorem notAt_fromIdx (path : List Nat) (n j : Nat) (r : List Nat) (R : Marks) (h : FromIdx path n R) (hj : j < n) :
    NotAt (path ++ j :: r) R := by
  intro mk hmk e
  rcases h mk hmk with h | ⟨j', hj', rest, h⟩
  · rw [h] at e
    have := congrArg List.length e
    simp at this
  · rw [h] at e
    have := List.append_cancel_left e
    simp only [List.cons.injEq] at this
    omega

theorem notAt_snoc_longer (path : List Nat) (a b y : Nat) (r : List Nat) (act : Act) :
    NotAt (path ++ b :: y :: r) [(path ++ [a], act)] := by
  apply notAt_single
  intro e
  have := congrArg List.length e
  simp at this

/-- **Non-interference between siblings**: on a node strictly below element `i` of a message list
    the merged marks of the list are the marks of that element alone. -/
theorem same_remapMsgs (c : RCtx) (path : List Nat) (ms : List Msg) (fr to i : Nat) (hi : i < ms.length)
    (y : Nat) (r : List Nat) :
    Same (path ++ (fr + i) :: y :: r) (remapMsgs c path ms fr to).2 (remapMsg c (path ++ [fr + i]) ms[i]).2 := by
  induction ms generalizing fr to i with
  | nil => simp at hi
  | cons x xs ih =>
    unfold remapMsgs
    have hb := below_remapMsg c (path ++ [fr]) x
    cases h : remapMsg c (path ++ [fr]) x with
    | mk ro M0 =>
      rw [h] at hb
      have hslice : ∀ (S : Marks), (S = [(path ++ [fr], Act.deleted)] ∨ S = [] ∨ ∃ t, S = [(path ++ [fr], Act.moved t)]) →
          ∀ b, NotAt (path ++ b :: y :: r) S := by
        intro S hS b
        rcases hS with rfl | rfl | ⟨t, rfl⟩
        · exact notAt_snoc_longer _ _ _ _ _ _
        · intro mk hmk; cases hmk
        · exact notAt_snoc_longer _ _ _ _ _ _
      cases i with
      | zero =>
        simp only [Nat.add_zero, List.getElem_cons_zero]
        rw [h]
        cases ro with
        | none =>
          simp only []
          refine (same_append_left _ _ _ (notAt_fromIdx path (fr + 1) fr _ _ (fromIdx_remapMsgs c path xs (fr + 1) to) (by omega))).trans ?_
          exact same_append_left _ _ _ (hslice _ (Or.inl rfl) fr)
        | some z =>
          simp only []
          refine (same_append_left _ _ _ (notAt_fromIdx path (fr + 1) fr _ _ (fromIdx_remapMsgs c path xs (fr + 1) (to + 1)) (by omega))).trans ?_
          refine same_append_left _ _ _ (hslice _ ?_ fr)
          split
          · exact Or.inr (Or.inr ⟨_, rfl⟩)
          · exact Or.inr (Or.inl rfl)
      | succ i =>
        have hi' : i < xs.length := by simpa using hi
        have e : fr + (i + 1) = (fr + 1) + i := by omega
        simp only [List.getElem_cons_succ]
        rw [e]
        have hM0 : NotAt (path ++ (fr + 1 + i) :: y :: r) M0 :=
          notAt_of_under path fr _ _ M0 (below_under hb) (by omega)
        cases ro with
        | none =>
          simp only []
          exact (same_append_right _ _ _ (notAt_append hM0 (hslice _ (Or.inl rfl) _))).trans (ih (fr + 1) to i hi')
        | some z =>
          simp only []
          refine (same_append_right _ _ _ (notAt_append hM0 (hslice _ ?_ _))).trans (ih (fr + 1) (to + 1) i hi')
          split
          · exact Or.inr (Or.inr ⟨_, rfl⟩)
          · exact Or.inr (Or.inl rfl)

/-- the list node itself: deleted exactly when nothing of the list is kept -/
theorem actAt_remapMsgs_node (c : RCtx) (path : List Nat) (ms : List Msg) (fr to : Nat) :
    actAt (remapMsgs c path ms fr to).2 path =
      if to = 0 ∧ (msgFlags c ms).all (fun b => !b) = true then some Act.deleted else none := by
  induction ms generalizing fr to with
  | nil =>
    unfold remapMsgs msgFlags
    by_cases h : to = 0
    · simp [h, actAt_cons]
    · simp [h]; rfl
  | cons x xs ih =>
    unfold remapMsgs
    have hb := below_remapMsg c (path ++ [fr]) x
    have hs := remapMsg_isSome c (path ++ [fr]) x
    cases h : remapMsg c (path ++ [fr]) x with
    | mk ro M0 =>
      rw [h] at hb hs
      have hM0 : NotAt path M0 := by
        intro mk hmk e
        obtain ⟨rest, hr⟩ := below_under hb mk hmk
        rw [hr] at e
        have := congrArg List.length e
        simp at this
      have hsl : ∀ a, NotAt path [(path ++ [fr], a)] := fun a => notAt_single _ _ _ (path_snoc_ne path fr)
      simp only [msgFlags, List.map_cons, List.all_cons]
      cases ro with
      | none =>
        simp only [Option.isSome_none] at hs
        simp only []
        rw [(same_append_right path _ _ (notAt_append hM0 (hsl _))).1, ih, ← hs]
        simp [msgFlags]
      | some z =>
        simp only [Option.isSome_some] at hs
        simp only []
        have hS : NotAt path (if fr ≠ to then [(path ++ [fr], Act.moved to)] else []) := by
          split
          · exact hsl _
          · intro mk hmk; cases hmk
        rw [(same_append_right path _ _ (notAt_append hM0 hS)).1, ih, ← hs]
        simp

/-! ### the marks of one kept message, seen from its nested-message section -/

theorem under_to_below_form (P : List Nat) (s : Nat) (X : Marks) (h : Under (P ++ [s]) X) :
    ∀ mk ∈ X, ∃ rest, mk.1 = P ++ s :: rest := by
  intro mk hmk
  obtain ⟨rest, hr⟩ := h mk hmk
  exact ⟨rest, by rw [hr]; simp⟩

theorem remapMsg_marks (c : RCtx) (P : List Nat) (id : Id) (fields : List Field) (oneofs : List Oneof)
    (exts : List Field) (nested : List Msg) (enums : List Enum) (rangeOpts : List (List OptUse))
    (reserved mapEntry : Bool) (opts : List OptUse) (h : c.has (.el id) = true) :
    ∃ H, (remapMsg c P (.mk id fields oneofs exts nested enums rangeOpts reserved mapEntry opts)).2 =
        H ++ (remapSlice (P ++ [6]) (remapField c) exts 0 0).2 ++ (remapMsgs c (P ++ [3]) nested 0 0).2 ++
          (remapSlice (P ++ [4]) (remapEnum c) enums 0 0).2 ∧
      ∀ mk ∈ H, mk.1 = P ∨ ∃ s rest, mk.1 = P ++ s :: rest ∧ s ≠ 3 ∧ s ≠ 4 ∧ s ≠ 6 := by
  unfold remapMsg
  simp only [h, Bool.not_true, Bool.false_eq_true, if_false]
  split
  · split
    · refine ⟨_, rfl, ?_⟩
      intro mk hmk
      simp only [List.mem_cons, List.mem_nil_iff, or_false] at hmk
      rcases hmk with rfl | rfl | rfl | rfl | rfl | rfl
      · exact Or.inl rfl
      · exact Or.inr ⟨2, [], rfl, by omega, by omega, by omega⟩
      · exact Or.inr ⟨8, [], rfl, by omega, by omega, by omega⟩
      · exact Or.inr ⟨5, [], rfl, by omega, by omega, by omega⟩
      · exact Or.inr ⟨9, [], rfl, by omega, by omega, by omega⟩
      · exact Or.inr ⟨10, [], rfl, by omega, by omega, by omega⟩
    · exact ⟨[], rfl, fun mk hmk => by cases hmk⟩
  · refine ⟨_, rfl, ?_⟩
    intro mk hmk
    rcases List.mem_append.mp hmk with hm | hm
    · obtain ⟨rest, hr⟩ := under_to_below_form P 2 _ (under_remapSlice (P ++ [2]) (remapField c) (remapField_leaf c) fields 0 0) mk hm
      exact Or.inr ⟨2, rest, hr, by omega, by omega, by omega⟩
    · obtain ⟨rest, hr⟩ := under_to_below_form P 8 _ (under_remapSlice (P ++ [8]) (remapOneof c id) (remapOneof_leaf c id) oneofs 0 0) mk hm
      exact Or.inr ⟨8, rest, hr, by omega, by omega, by omega⟩

theorem same_msg_nested (c : RCtx) (P : List Nat) (m : Msg) (h : c.has (.el m.id) = true) (r : List Nat) :
    Same (P ++ 3 :: r) (remapMsg c P m).2 (remapMsgs c (P ++ [3]) m.nested 0 0).2 := by
  cases m with
  | mk id fields oneofs exts nested enums rangeOpts reserved mapEntry opts =>
    obtain ⟨H, hM, hH⟩ := remapMsg_marks c P id fields oneofs exts nested enums rangeOpts reserved mapEntry opts h
    rw [hM]
    simp only [Msg.nested]
    refine (same_append_left _ _ _ (notAt_of_under P 4 3 r _
      (under_remapSlice (P ++ [4]) (remapEnum c) (remapEnum_leaf c) enums 0 0) (by omega))).trans ?_
    refine same_append_right _ _ _ (notAt_append ?_ (notAt_of_under P 6 3 r _
      (under_remapSlice (P ++ [6]) (remapField c) (remapField_leaf c) exts 0 0) (by omega)))
    intro mk hmk e
    rcases hH mk hmk with h1 | ⟨s, rest, h1, h3, _, _⟩
    · rw [h1] at e
      have := congrArg List.length e
      simp at this
    · rw [h1] at e
      have := List.append_cancel_left e
      simp only [List.cons.injEq] at this
      exact h3 this.1

/-! ### the merged marks of a file -/

def fileMarks (c : RCtx) (f : File) : Marks :=
  (remapMsgs c [4] f.msgs 0 0).2 ++ (remapSlice [5] (remapEnum c) f.enums 0 0).2 ++
    (remapSlice [6] (remapService c) f.svcs 0 0).2 ++ (remapSlice [7] (remapField c) f.exts 0 0).2 ++
    (remapDeps c.st f).2

theorem remapFile_locs (c : RCtx) (f : File) (of : OFile) (h : remapFile c f = some of) :
    of.locs = remapLocs (fileMarks c f) f.locs := by
  unfold remapFile at h
  split at h
  · cases h
  · simp only [Option.some.injEq] at h
    subst h
    rfl

theorem under_remapSlice_gen {α β} (path : List Nat) (f : List Nat → α → Option β × Marks)
    (hU : ∀ p x, Under p (f p x).2) (xs : List α) (fr to : Nat) : Under path (remapSlice path f xs fr to).2 := by
  induction xs generalizing fr to with
  | nil =>
    unfold remapSlice
    intro mk hmk
    split at hmk
    · simp only [List.mem_cons, List.mem_nil_iff, or_false] at hmk; subst hmk; exact ⟨[], by simp⟩
    · cases hmk
  | cons x xs ih =>
    unfold remapSlice
    have hu : Under path (f (path ++ [fr]) x).2 := by
      intro mk hmk
      obtain ⟨rest, hr⟩ := hU (path ++ [fr]) x mk hmk
      exact ⟨fr :: rest, by rw [hr]; simp⟩
    cases h : f (path ++ [fr]) x with
    | mk r ms =>
      rw [h] at hu
      have hs : ∀ a, Under path [(path ++ [fr], a)] := by
        intro a mk hmk
        simp only [List.mem_cons, List.mem_nil_iff, or_false] at hmk; subst hmk; exact ⟨[fr], rfl⟩
      cases r with
      | none =>
        simp only [h]
        exact under_append (under_append hu (hs _)) (ih _ _)
      | some y =>
        simp only [h]
        refine under_append (under_append hu ?_) (ih _ _)
        split
        · exact hs _
        · intro mk hmk; cases hmk

theorem under_remapService (c : RCtx) (p : List Nat) (s : Service) : Under p (remapService c p s).2 := by
  unfold remapService
  split
  · intro mk hmk; cases hmk
  · intro mk hmk
    obtain ⟨rest, hr⟩ := under_remapSlice (p ++ [2]) (remapMethod c) (fun _ _ => by unfold remapMethod; split <;> rfl)
      s.methods 0 0 mk hmk
    exact ⟨2 :: rest, by rw [hr]; simp⟩

/-- the other sections of a file put no mark at or below the message section `[4]` -/
theorem same_file_msgs (c : RCtx) (f : File) (r : List Nat) :
    Same (4 :: r) (fileMarks c f) (remapMsgs c [4] f.msgs 0 0).2 := by
  unfold fileMarks
  have hq : (4 :: r) = [] ++ 4 :: r := rfl
  have h5 : NotAt (4 :: r) (remapSlice [5] (remapEnum c) f.enums 0 0).2 := by
    rw [hq]; exact notAt_of_under [] 5 4 r _ (under_remapSlice [5] (remapEnum c) (remapEnum_leaf c) f.enums 0 0) (by omega)
  have h6 : NotAt (4 :: r) (remapSlice [6] (remapService c) f.svcs 0 0).2 := by
    rw [hq]; exact notAt_of_under [] 6 4 r _ (under_remapSlice_gen [6] (remapService c) (under_remapService c) f.svcs 0 0) (by omega)
  have h7 : NotAt (4 :: r) (remapSlice [7] (remapField c) f.exts 0 0).2 := by
    rw [hq]; exact notAt_of_under [] 7 4 r _ (under_remapSlice [7] (remapField c) (remapField_leaf c) f.exts 0 0) (by omega)
  have hd : NotAt (4 :: r) (remapDeps c.st f).2 := by
    unfold remapDeps
    simp only []
    apply notAt_append
    · intro mk hmk e
      have hmk' := (List.mem_filter.mp hmk).1
      obtain ⟨rest, hr⟩ := under_remapSlice [3] _ (fun _ _ => by split <;> rfl) f.deps 0 0 mk hmk'
      rw [hr] at e
      cases e
    · apply notAt_single
      intro e; cases e
  refine (same_append_left _ _ _ hd).trans ?_
  refine (same_append_left _ _ _ h7).trans ?_
  refine (same_append_left _ _ _ h6).trans ?_
  exact same_append_left _ _ _ h5

/-! ### kept messages at any depth -/

/-- `MsgAt c ms p p' m`: `m` is a kept message reached from the message list `ms` through kept
    messages only; `p` is its old path below the list node (`[i]`, `[i, 3, j]`, …) and `p'` the
    path with the new indexes. -/
inductive MsgAt (c : RCtx) (ms : List Msg) : List Nat → List Nat → Msg → Prop
  | top (i : Nat) (hi : i < ms.length) (hk : c.has (.el ms[i].id) = true) :
      MsgAt c ms [i] [newIdx (msgFlags c ms) i 0] ms[i]
  | nest (p p' : List Nat) (m : Msg) (h : MsgAt c ms p p' m) (i : Nat) (hi : i < m.nested.length)
      (hk : c.has (.el m.nested[i].id) = true) :
      MsgAt c ms (p ++ [3, i]) (p' ++ [3, newIdx (msgFlags c m.nested) i 0]) m.nested[i]

theorem MsgAt.has {c : RCtx} {ms : List Msg} {p p' : List Nat} {m : Msg} (h : MsgAt c ms p p' m) :
    c.has (.el m.id) = true := by
  cases h with
  | top i hi hk => exact hk
  | nest p p' m h i hi hk => exact hk

theorem MsgAt.ne_nil {c : RCtx} {ms : List Msg} {p p' : List Nat} {m : Msg} (h : MsgAt c ms p p' m) : p ≠ [] := by
  cases h <;> simp

/-- **Non-interference across nesting levels**: strictly below a kept message (at any depth) the
    merged marks of the whole file are the marks of that message alone. -/
theorem same_file_msgAt (c : RCtx) (f : File) (p p' : List Nat) (m : Msg) (h : MsgAt c f.msgs p p' m)
    (y : Nat) (r : List Nat) :
    Same (4 :: p ++ y :: r) (fileMarks c f) (remapMsg c (4 :: p) m).2 := by
  induction h generalizing y r with
  | top i hi hk =>
    refine (same_file_msgs c f _).trans ?_
    have := same_remapMsgs c [4] f.msgs 0 0 i hi y r
    simpa using this
  | nest p p' m h i hi hk ih =>
    have e : 4 :: (p ++ [3, i]) ++ y :: r = 4 :: p ++ 3 :: (i :: y :: r) := by simp
    rw [e]
    refine (ih 3 (i :: y :: r)).trans ?_
    have e2 : 4 :: p ++ 3 :: (i :: y :: r) = (4 :: p) ++ 3 :: (i :: y :: r) := rfl
    rw [e2]
    refine (same_msg_nested c (4 :: p) m h.has _).trans ?_
    have := same_remapMsgs c ((4 :: p) ++ [3]) m.nested 0 0 i hi y r
    simp only [Nat.zero_add, List.append_assoc, List.cons_append, List.nil_append] at this ⊢
    exact this

/-! ### walking through one list level -/

/-- what remains to be done after the walk has reached the node `Q` (new path so far: `Q'`) -/
def cont (X : Marks) (Q : List Nat) (rest : List Nat) (Q' : List Nat) : Option (List Nat × Bool) :=
  match rest with
  | [] => some (Q', noCommentAt X Q)
  | _ :: _ => match walk X Q rest with
    | some (r, nc) => some (Q' ++ r, nc)
    | none => none

def tgt (a : Option Act) (x : Nat) : Nat := match a with | some (.moved t) => t | _ => x

theorem walk_del (X : Marks) (pre : List Nat) (x : Nat) (rest : List Nat)
    (h : actAt X (pre ++ [x]) = some .deleted) : walk X pre (x :: rest) = none := by
  unfold walk; rw [h]

theorem walk_keep (X : Marks) (pre : List Nat) (x : Nat) (rest : List Nat) (a : Option Act)
    (h : actAt X (pre ++ [x]) = a) (ha : a ≠ some .deleted) :
    walk X pre (x :: rest) = cont X (pre ++ [x]) rest [tgt a x] := by
  unfold walk cont; rw [h]
  cases a with
  | none => cases rest <;> simp only [tgt] <;> (try rfl) <;> (cases walk X (pre ++ [x]) _ <;> rfl)
  | some a =>
    cases a with
    | deleted => exact absurd rfl ha
    | moved t => cases rest <;> simp only [tgt] <;> (try rfl) <;> (cases walk X (pre ++ [x]) _ <;> rfl)
    | noComment => cases rest <;> simp only [tgt] <;> (try rfl) <;> (cases walk X (pre ++ [x]) _ <;> rfl)

theorem all_not_of_true (bs : List Bool) (i : Nat) (hi : i < bs.length) (h : bs[i] = true) :
    bs.all (fun b => !b) = false := by
  rw [List.all_eq_false]
  exact ⟨bs[i], List.getElem_mem hi, by simp [h]⟩

/-- One list level of the walk.  `X` are the merged marks of the file, `L = pre ++ [s]` the node of
    a message list `ms` whose own marks agree with `X` on `L` and on every `L ++ [i]`. -/
theorem walk_list (c : RCtx) (X : Marks) (pre : List Nat) (s : Nat) (ms : List Msg)
    (hnode : actAt X (pre ++ [s]) = actAt (remapMsgs c (pre ++ [s]) ms 0 0).2 (pre ++ [s]))
    (helem : ∀ i, actAt X ((pre ++ [s]) ++ [i]) = actAt (remapMsgs c (pre ++ [s]) ms 0 0).2 ((pre ++ [s]) ++ [i]))
    (i : Nat) (hi : i < ms.length) (rest : List Nat) :
    walk X pre (s :: i :: rest) =
      if c.has (.el ms[i].id) = true then cont X ((pre ++ [s]) ++ [i]) rest [s, newIdx (msgFlags c ms) i 0]
      else none := by
  have hlen : i < (msgFlags c ms).length := by unfold msgFlags; simpa using hi
  have hflag : (msgFlags c ms)[i] = c.has (.el ms[i].id) := by simp only [msgFlags, List.getElem_map]
  have hn := actAt_remapMsgs_node c (pre ++ [s]) ms 0 0
  have he := helem i
  rw [actAt_remapMsgs] at he
  have hact := actAt_sliceMarks (pre ++ [s]) (msgFlags c ms) 0 0 i hlen
  simp only [Nat.zero_add] at hact
  rw [hact, hflag] at he
  by_cases hk : c.has (.el ms[i].id) = true
  · simp only [hk, if_true]
    have hall := all_not_of_true (msgFlags c ms) i hlen (by rw [hflag]; exact hk)
    rw [hall] at hn
    simp only [Bool.false_eq_true, and_false, if_false] at hn
    rw [walk_keep X pre s (i :: rest) none (by rw [hnode, hn]) (by simp)]
    simp only [cont, tgt]
    simp only [hk, Bool.true_eq_false, if_false] at he
    by_cases hm : i ≠ newIdx (msgFlags c ms) i 0
    · simp only [hm, ne_eq, not_false_eq_true, if_true] at he
      rw [walk_keep X (pre ++ [s]) i rest _ he (by simp)]
      simp only [cont, tgt]
      cases rest with
      | nil => rfl
      | cons y r => simp only []; cases walk X (pre ++ [s] ++ [i]) (y :: r) <;> rfl
    · simp only [hm, if_false] at he
      have hm' : i = newIdx (msgFlags c ms) i 0 := by omega
      rw [walk_keep X (pre ++ [s]) i rest _ he (by simp)]
      simp only [cont, tgt]
      rw [← hm']
      cases rest with
      | nil => rfl
      | cons y r => simp only []; cases walk X (pre ++ [s] ++ [i]) (y :: r) <;> rfl
  · have hk' : c.has (.el ms[i].id) = false := by simpa using hk
    rw [hk']
    simp only [Bool.false_eq_true, if_false]
    simp only [hk', if_true] at he
    by_cases hd : actAt X (pre ++ [s]) = some .deleted
    · exact walk_del X pre s _ hd
    · rw [walk_keep X pre s (i :: rest) _ rfl hd]
      simp only [cont]
      rw [walk_del X (pre ++ [s]) i rest he]

/-- **File-level source-path theorem for messages at any depth.**  For a kept message reached
    through kept messages, every location at or below it is remapped by first replacing the
    message's own path `4 :: p` by the path with the new indexes `4 :: p'` and then continuing the
    walk below the message. -/
theorem newPath_msgAt (c : RCtx) (f : File) (p p' : List Nat) (m : Msg) (h : MsgAt c f.msgs p p' m)
    (rest : List Nat) :
    newPath (fileMarks c f) (4 :: p ++ rest) = cont (fileMarks c f) (4 :: p) rest (4 :: p') := by
  unfold newPath
  rw [fixPath_eq_walk]
  induction h generalizing rest with
  | top i hi hk =>
    have := walk_list c (fileMarks c f) [] 4 f.msgs
      ((same_file_msgs c f []).1) (fun j => (same_file_msgs c f [j]).1) i hi rest
    simp only [List.nil_append, hk, if_true] at this
    exact this
  | nest p p' m h i hi hk ih =>
    have e : 4 :: (p ++ [3, i]) ++ rest = 4 :: p ++ (3 :: i :: rest) := by simp
    rw [e, ih (3 :: i :: rest)]
    have hnode : actAt (fileMarks c f) ((4 :: p) ++ [3]) =
        actAt (remapMsgs c ((4 :: p) ++ [3]) m.nested 0 0).2 ((4 :: p) ++ [3]) := by
      have a := (same_file_msgAt c f p p' m h 3 []).1
      have b := (same_msg_nested c (4 :: p) m h.has []).1
      simp only [List.cons_append] at a b ⊢
      rw [a, b]
    have helem : ∀ j, actAt (fileMarks c f) (((4 :: p) ++ [3]) ++ [j]) =
        actAt (remapMsgs c ((4 :: p) ++ [3]) m.nested 0 0).2 (((4 :: p) ++ [3]) ++ [j]) := by
      intro j
      have a := (same_file_msgAt c f p p' m h 3 [j]).1
      have b := (same_msg_nested c (4 :: p) m h.has [j]).1
      simp only [List.cons_append, List.append_assoc, List.singleton_append, List.nil_append] at a b ⊢
      rw [a, b]
    have := walk_list c (fileMarks c f) (4 :: p) 3 m.nested hnode helem i hi rest
    simp only [hk, if_true] at this
    simp only [cont]
    rw [this]
    simp only [cont]
    cases rest with
    | nil => simp
    | cons y r =>
      simp only []
      have e3 : (4 :: p) ++ [3] ++ [i] = 4 :: (p ++ [3, i]) := by simp
      rw [e3]
      cases walk (fileMarks c f) (4 :: (p ++ [3, i])) (y :: r) with
      | none => rfl
      | some v => simp

/-- everything at or below a dropped top-level message is deleted -/
theorem newPath_dropped_top (c : RCtx) (f : File) (i : Nat) (hi : i < f.msgs.length)
    (hk : c.has (.el f.msgs[i].id) = false) (rest : List Nat) :
    newPath (fileMarks c f) (4 :: i :: rest) = none := by
  unfold newPath
  rw [fixPath_eq_walk]
  have := walk_list c (fileMarks c f) [] 4 f.msgs
    ((same_file_msgs c f []).1) (fun j => (same_file_msgs c f [j]).1) i hi rest
  simp only [List.nil_append, hk, Bool.false_eq_true, if_false] at this
  exact this

/-- everything at or below a dropped nested message (of a kept message at any depth) is deleted -/
theorem newPath_dropped_nested (c : RCtx) (f : File) (p p' : List Nat) (m : Msg) (h : MsgAt c f.msgs p p' m)
    (i : Nat) (hi : i < m.nested.length) (hk : c.has (.el m.nested[i].id) = false) (rest : List Nat) :
    newPath (fileMarks c f) (4 :: p ++ 3 :: i :: rest) = none := by
  rw [newPath_msgAt c f p p' m h (3 :: i :: rest)]
  have hnode : actAt (fileMarks c f) ((4 :: p) ++ [3]) =
      actAt (remapMsgs c ((4 :: p) ++ [3]) m.nested 0 0).2 ((4 :: p) ++ [3]) := by
    have a := (same_file_msgAt c f p p' m h 3 []).1
    have b := (same_msg_nested c (4 :: p) m h.has []).1
    simp only [List.cons_append] at a b ⊢
    rw [a, b]
  have helem : ∀ j, actAt (fileMarks c f) (((4 :: p) ++ [3]) ++ [j]) =
      actAt (remapMsgs c ((4 :: p) ++ [3]) m.nested 0 0).2 (((4 :: p) ++ [3]) ++ [j]) := by
    intro j
    have a := (same_file_msgAt c f p p' m h 3 [j]).1
    have b := (same_msg_nested c (4 :: p) m h.has [j]).1
    simp only [List.cons_append, List.append_assoc, List.singleton_append, List.nil_append] at a b ⊢
    rw [a, b]
  have := walk_list c (fileMarks c f) (4 :: p) 3 m.nested hnode helem i hi rest
  simp only [hk, Bool.false_eq_true, if_false] at this
  simp only [cont]
  rw [this]

end BufProofs.FilterComment
