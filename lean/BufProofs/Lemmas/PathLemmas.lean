import BufModel.Path
/-
  Helper lemmas about the path model: splitSlash/joinSlash inverse laws, the shape of
  `reduce`, idempotence of `clean` on rendered keys, `dir`, `join` on keys.
-/
namespace BufModel.Path

theorem splitSlash_ne_nil (s : Str) : splitSlash s ≠ [] := by
  induction s with
  | nil => simp [splitSlash]
  | cons c cs ih =>
    unfold splitSlash
    split
    · simp
    · split <;> simp

theorem splitSlash_no_slash (s : Str) : ∀ c ∈ splitSlash s, '/' ∉ c := by
  induction s with
  | nil => simp [splitSlash]
  | cons c cs ih =>
    unfold splitSlash
    split
    · intro x hx
      simp at hx
      rcases hx with rfl | hx
      · simp
      · exact ih x hx
    · rename_i hc
      split
      · intro x hx; simp at hx; subst hx; simp; exact fun h => hc h.symm
      · rename_i h t heq
        intro x hx
        simp at hx
        rcases hx with rfl | hx
        · have := ih h (by rw [heq]; simp)
          simp; exact ⟨fun h => hc h.symm, this⟩
        · exact ih x (by rw [heq]; simp [hx])

def AllProper (ns : List Comp) : Prop := ∀ n ∈ ns, Proper n

theorem splitSlash_cons_slash (cs : Str) : splitSlash ('/' :: cs) = [] :: splitSlash cs := by
  simp [splitSlash]

theorem splitSlash_cons_ne (c : Char) (cs : Str) (h : c ≠ '/') (hd : Comp) (tl : List Comp)
    (heq : splitSlash cs = hd :: tl) : splitSlash (c :: cs) = (c :: hd) :: tl := by
  rw [splitSlash]; simp [h, heq]

theorem splitSlash_comp (c : Comp) (h : '/' ∉ c) : splitSlash c = [c] := by
  induction c with
  | nil => simp [splitSlash]
  | cons x xs ih =>
    simp at h
    have hx : x ≠ '/' := fun e => h.1 e.symm
    exact splitSlash_cons_ne x xs hx xs [] (ih h.2)

theorem splitSlash_append_slash (c : Comp) (h : '/' ∉ c) (rest : Str) :
    splitSlash (c ++ '/' :: rest) = c :: splitSlash rest := by
  induction c with
  | nil => simp [splitSlash_cons_slash]
  | cons x xs ih =>
    simp at h
    have hx : x ≠ '/' := fun e => h.1 e.symm
    exact splitSlash_cons_ne x (xs ++ '/' :: rest) hx xs (splitSlash rest) (ih h.2)

theorem splitSlash_joinSlash (ns : List Comp) (hne : ns ≠ []) (h : ∀ n ∈ ns, '/' ∉ n) :
    splitSlash (joinSlash ns) = ns := by
  induction ns with
  | nil => exact absurd rfl hne
  | cons n rest ih =>
    cases rest with
    | nil => simp [joinSlash]; exact splitSlash_comp n (h n (by simp))
    | cons r rs =>
      simp only [joinSlash]
      rw [splitSlash_append_slash n (h n (by simp))]
      rw [ih (by simp) (fun x hx => h x (by simp [hx]))]


/-! ### Shape of `reduce` -/

/-- Invariant of the (reversed) reduction stack: proper names on top of `k` leading "..",
    and no ".." at all when rooted. -/
def StackOK (rooted : Bool) (st : List Comp) : Prop :=
  ∃ (k : Nat) (names : List Comp), st = names ++ List.replicate k dotdot ∧ AllProper names ∧
    (rooted = true → k = 0)

theorem proper_ne_dotdot {c : Comp} (h : Proper c) : c ≠ dotdot := h.2.2.1

theorem allProper_nil : AllProper [] := by intro _ h; cases h

theorem allProper_cons {n : Comp} {ns : List Comp} : AllProper (n :: ns) ↔ Proper n ∧ AllProper ns := by
  unfold AllProper; simp

theorem allProper_append {a b : List Comp} : AllProper (a ++ b) ↔ AllProper a ∧ AllProper b := by
  unfold AllProper; simp; constructor
  · intro h; exact ⟨fun n hn => h n (Or.inl hn), fun n hn => h n (Or.inr hn)⟩
  · intro h n hn; rcases hn with hn | hn; exact h.1 n hn; exact h.2 n hn

theorem dotdot_ne_nil : dotdot ≠ [] := by decide
theorem dotdot_ne_dot : dotdot ≠ dot := by decide

theorem reduceStep_ok (rooted : Bool) (st : List Comp) (c : Comp) (hc : '/' ∉ c)
    (h : StackOK rooted st) : StackOK rooted (reduceStep rooted st c) := by
  obtain ⟨k, names, rfl, hp, hr⟩ := h
  unfold reduceStep
  by_cases h1 : c = []
  · rw [if_pos h1]; exact ⟨k, names, rfl, hp, hr⟩
  rw [if_neg h1]
  by_cases h2 : c = dot
  · rw [if_pos h2]; exact ⟨k, names, rfl, hp, hr⟩
  rw [if_neg h2]
  by_cases h3 : c = dotdot
  · rw [if_pos h3]
    cases names with
    | nil =>
      cases k with
      | zero =>
        cases rooted with
        | true => exact ⟨0, [], rfl, allProper_nil, fun _ => rfl⟩
        | false => exact ⟨1, [], rfl, allProper_nil, by simp⟩
      | succ k =>
        refine ⟨k + 2, [], ?_, allProper_nil, ?_⟩
        · simp [List.replicate_succ]
        · intro hr'; have := hr hr'; omega
    | cons n ns =>
      have hn : n ≠ dotdot := proper_ne_dotdot (hp n (by simp))
      simp only [List.cons_append, if_neg hn]
      exact ⟨k, ns, rfl, fun x hx => hp x (by simp [hx]), hr⟩
  · rw [if_neg h3]
    refine ⟨k, c :: names, by simp, ?_, hr⟩
    intro x hx
    simp at hx
    rcases hx with rfl | hx
    · exact ⟨h1, h2, h3, hc⟩
    · exact hp x hx

theorem foldl_reduceStep_ok (rooted : Bool) (cs : List Comp) (hcs : ∀ c ∈ cs, '/' ∉ c)
    (st : List Comp) (h : StackOK rooted st) : StackOK rooted (cs.foldl (reduceStep rooted) st) := by
  induction cs generalizing st with
  | nil => simpa
  | cons c cs ih =>
    simp only [List.foldl]
    exact ih (fun x hx => hcs x (by simp [hx])) _ (reduceStep_ok rooted st c (hcs c (by simp)) h)

/-- After reduction a path is `k` copies of ".." followed by proper names; rooted paths have
    no ".." at all. -/
theorem reduce_shape (rooted : Bool) (cs : List Comp) (hcs : ∀ c ∈ cs, '/' ∉ c) :
    ∃ (k : Nat) (names : List Comp), reduce rooted cs = List.replicate k dotdot ++ names ∧
      AllProper names ∧ (rooted = true → k = 0) := by
  have := foldl_reduceStep_ok rooted cs hcs [] ⟨0, [], rfl, allProper_nil, fun _ => rfl⟩
  obtain ⟨k, names, heq, hp, hr⟩ := this
  refine ⟨k, names.reverse, ?_, ?_, hr⟩
  · unfold reduce; rw [heq]; simp
  · intro x hx; exact hp x (by simpa using hx)


/-! ### normalizeAndValidate is sound -/

theorem isAbs_cons_slash (s : Str) : isAbs ('/' :: s) = true := by simp [isAbs]

theorem joinSlash_cons_cons (a b : Comp) (rest : List Comp) :
    joinSlash (a :: b :: rest) = a ++ '/' :: joinSlash (b :: rest) := rfl

/-- Every accepted path is "." or a '/'-joined list of proper names: no "..", ".", empty or
    separator-bearing component survives validation. -/
theorem validate_sound (s p : Str) (h : normalizeAndValidate s = .ok p) :
    ∃ ns : Key, AllProper ns ∧ p = renderKey ns := by
  unfold normalizeAndValidate at h
  simp only at h
  split at h
  · cases h
  · rename_i hab
    split at h
    · cases h
    · rename_i hjump
      injection h with h
      subst h
      obtain ⟨k, names, heq, hp, hr⟩ := reduce_shape (isAbs s) (splitSlash s) (splitSlash_no_slash s)
      cases hs : isAbs s with
      | true =>
        exfalso; apply hab
        unfold clean render; rw [hs]; simp [isAbs]
      | false =>
        rw [hs] at heq
        have hc : clean s = render false (List.replicate k dotdot ++ names) := by
          unfold clean; rw [hs, heq]
        cases k with
        | zero =>
          refine ⟨names, hp, ?_⟩
          rw [hc]; simp [renderKey]
        | succ k =>
          exfalso; apply hjump
          rw [hc]
          simp only [List.replicate_succ, List.cons_append, render]
          cases hrest : List.replicate k dotdot ++ names with
          | nil => simp [joinSlash, dotdot]
          | cons r rs =>
            simp [joinSlash_cons_cons, dotdot, jumpPrefix, List.isPrefixOf]

end BufModel.Path
